# Per-property texts that go into the evidence files (rule for distinct/non-trivial, assumptions).
RULES = {
 "C12": "generated: all 256 NAL header bytes x 2 payload shapes (exhaustive); 4x32 in-range headers with boundary payload sizes; random records (0..31 SPS, 0..255 PPS, NAL sizes 0..65534 with boundaries 254/255/256/65533/65534); samples for each length size 1..4; malformed stream (truncated/mutated records, random bytes). distinct = distinct canonical op line (sha256); non-trivial = every case except an empty sample",
}
ASSUME = {
 "C12": ["bytes.Buffer delivers the bytes written to it in order (Go stdlib, not modelled)",
         "hand-written model Oryx/Model/Avc.lean is tied to avc/avc.go by the sampled correspondence of this run, exhaustive over all 256 header bytes"],
}

# ---- MANIFEST generation (./check manifest) ----
TITLES = {}
CLAIMED = {
 # id: (technique, level text, level note, design ref)
 "C12": ("Lean 4 theorems (round trip, spec equality, no-panic) over a hand model of avc.go + differential correspondence vs the Go code",
         "Proof: NAL unit, configuration record and sample round trips, byte-for-byte equality with an independent ISO/IEC 14496-15 writer, canonical re-encoding and panic-freedom are Lean theorems over all field values and payloads; the model is tied to avc/avc.go by a differential run (exhaustive over all 256 header bytes, boundary sizes, malformed stream) on every check.",
         "Trusted: Lean kernel; the hand-written model's agreement with avc.go is sampled (exhaustive only on header bytes); bytes.Buffer.",
         "8 C12"),
}
NOT_YET = {}
