package main

// C08 — I/O failures surface as errors that keep their root cause.
//  (a) every nesting of the errors package's constructors over a root (and over nil): errors.Cause identity,
//      Error() = the ": " chain, nil stays nil — implementation vs Lean model (texts ARE compared here).
//  (b) fault injection on the REAL RTMP / FLV code: every cut offset, an injected sentinel at every read
//      offset, a failing transport at every write byte count and every write call index. Property predicate on
//      the implementation (items returned = exactly the completely transferred ones, error non-nil, root cause
//      identical to the transport's error) and correspondence with the Lean fault model (count, class, layer shape).

import (
	"github.com/ossrs/go-oryx-lib/amf0"
	"bytes"
	stderrors "errors"
	"fmt"
	"io"
	"math/rand"
	"os"
	"sort"
	"strconv"
	"strings"
	"syscall"

	oe "github.com/ossrs/go-oryx-lib/errors"
	"github.com/ossrs/go-oryx-lib/flv"
	"github.com/ossrs/go-oryx-lib/rtmp"
	"verifharness/internal/h"
)

func init() { register("C08", c08) }

// ---------- helpers ----------

type c08Causer interface{ Cause() error }

// c08RootID maps the well-known roots to the model's ids; anything else is 3 unless ids knows it.
func c08RootID(err error, ids map[error]int) string {
	switch err {
	case io.EOF:
		return "0"
	case io.ErrUnexpectedEOF:
		return "1"
	case h.ErrInjected:
		return "2"
	}
	if ids != nil {
		if id, ok := ids[err]; ok {
			return strconv.Itoa(id)
		}
	}
	return "3"
}

// c08Shape walks the layers through the Cause() method: S = withStack, M = withMessage, then R<root id>.
func c08Shape(err error, ids map[error]int) (shape string, depth int) {
	var sb strings.Builder
	for i := 0; i < 1000; i++ {
		switch fmt.Sprintf("%T", err) {
		case "*errors.withStack":
			sb.WriteByte('S')
		case "*errors.withMessage":
			sb.WriteByte('M')
		default:
			sb.WriteString("R" + c08RootID(err, ids))
			return sb.String(), depth
		}
		depth++
		err = err.(c08Causer).Cause()
	}
	return sb.String() + "…", depth
}

func c08ErrStr(err error) string {
	if err == nil {
		return "ok:-"
	}
	s, _ := c08Shape(err, nil)
	return h.ErrClass(err) + ":" + s
}

// budgetWriter accepts Limit bytes in total, then fails with Err (the failing call accepts what still fits).
// It records the size of every Write call.
type budgetWriter struct {
	Buf   []byte
	Limit int // -1: unlimited
	Err   error
	Calls []int
}

func (w *budgetWriter) Write(p []byte) (int, error) {
	w.Calls = append(w.Calls, len(p))
	if w.Limit >= 0 && len(w.Buf)+len(p) > w.Limit {
		n := w.Limit - len(w.Buf)
		if n < 0 {
			n = 0
		}
		w.Buf = append(w.Buf, p[:n]...)
		return n, w.Err
	}
	w.Buf = append(w.Buf, p...)
	return len(p), nil
}

// c08DataErrReader returns its last bytes TOGETHER with the transport's error (io.Reader allows n > 0 with
// err != nil), and the error alone on every later call.
type c08DataErrReader struct {
	b   []byte
	err error
	max int
}

func (s *c08DataErrReader) Read(p []byte) (int, error) {
	if len(s.b) == 0 {
		return 0, s.err
	}
	n := len(p)
	if s.max > 0 && n > s.max {
		n = s.max
	}
	if n > len(s.b) {
		n = len(s.b)
	}
	copy(p, s.b[:n])
	s.b = s.b[n:]
	if len(s.b) == 0 {
		return n, s.err
	}
	return n, nil
}

// c08Reader: transport delivering data then reporting end (nil = io.EOF); modes 0..3 = h.SegReader's, 4/5 = data+error.
func c08Reader(data []byte, end error, r *h.Rand) (io.Reader, int) {
	mode := r.Intn(6)
	if end == nil {
		end = io.EOF
	}
	switch mode {
	case 4:
		return &c08DataErrReader{b: append([]byte(nil), data...), err: end}, mode
	case 5:
		return &c08DataErrReader{b: append([]byte(nil), data...), err: end, max: 1 + r.Intn(9)}, mode
	}
	return &h.SegReader{Data: data, R: r.Fork(), Mode: mode, End: end}, mode
}

func c08Ks(ks []int) string {
	if ks == nil {
		return "all"
	}
	p := make([]string, len(ks))
	for i, k := range ks {
		p[i] = strconv.Itoa(k)
	}
	return strings.Join(p, ",")
}

// c08Offsets: every offset 0..n when n <= max, else boundaries ±2 and a stride sample.
func c08Offsets(n, max int, bounds []int, r *h.Rand) []int {
	if n <= max {
		return nil
	}
	set := map[int]bool{0: true, n: true}
	for _, b := range bounds {
		for d := -2; d <= 2; d++ {
			if b+d >= 0 && b+d <= n {
				set[b+d] = true
			}
		}
	}
	stride := n/max + 1
	for k := r.Intn(stride); k <= n; k += stride {
		set[k] = true
	}
	ks := make([]int, 0, len(set))
	for k := range set {
		ks = append(ks, k)
	}
	sort.Ints(ks)
	return ks
}

func c08Each(n int, ks []int, f func(i, k int)) {
	if ks == nil {
		for k := 0; k <= n; k++ {
			f(k, k)
		}
		return
	}
	for i, k := range ks {
		f(i, k)
	}
}

// transport error of a fault kind: model root id, the Go error, name.
type c08Fault struct {
	t    int
	err  error
	name string
}

var c08Other = stderrors.New("connection reset by peer (test)")

func c08Faults(c *h.Ctx) []c08Fault {
	fs := []c08Fault{{0, io.EOF, "cut"}, {2, h.ErrInjected, "inject"}}
	if c.Thorough() {
		fs = append(fs, c08Fault{3, c08Other, "other"}, c08Fault{1, io.ErrUnexpectedEOF, "ueof"})
	}
	return fs
}

// ---------- (a) towers of errors-package constructors ----------

type c08Layer struct {
	kind byte // M S W F
	msg  string
	fmtS string
	args []interface{}
}

func (l c08Layer) apply(err error) error {
	switch l.kind {
	case 'M':
		return oe.WithMessage(err, l.msg)
	case 'S':
		return oe.WithStack(err)
	case 'W':
		return oe.Wrap(err, l.msg)
	default:
		return oe.Wrapf(err, l.fmtS, l.args...)
	}
}

func (l c08Layer) arg() string {
	if l.kind == 'S' {
		return "S"
	}
	return string(l.kind) + ":" + h.Hex([]byte(l.msg))
}

var c08Msgs = []string{"", "a", "read chunk 128B", "x: y", ": ", "é✓ 漢", "100%", "%d %s", "read basic header", " lead", "trail ", "write c0c3 header 02000000"}

func c08GenLayer(r *h.Rand) c08Layer {
	switch r.Intn(4) {
	case 0:
		return c08Layer{kind: 'M', msg: c08Msgs[r.Intn(len(c08Msgs))]}
	case 1:
		return c08Layer{kind: 'S'}
	case 2:
		return c08Layer{kind: 'W', msg: c08Msgs[r.Intn(len(c08Msgs))]}
	}
	switch r.Intn(4) {
	case 0:
		n := r.Intn(70000)
		return c08Layer{kind: 'F', fmtS: "read chunk %vB", args: []interface{}{n}, msg: fmt.Sprintf("read chunk %vB", n)}
	case 1:
		b := r.Bytes(r.Intn(5))
		return c08Layer{kind: 'F', fmtS: "write c0c3 header %x", args: []interface{}{b}, msg: fmt.Sprintf("write c0c3 header %x", b)}
	case 2:
		return c08Layer{kind: 'F', fmtS: "100%% of %s=%d", args: []interface{}{"k", 7}, msg: "100% of k=7"}
	}
	return c08Layer{kind: 'F', fmtS: "flush writer", msg: "flush writer"}
}

// c08Root creates root number id: 0..2 the well-known values, >= 3 a fresh error whose text is r<id>.
func c08Root(id int) error {
	switch id {
	case 0:
		return io.EOF
	case 1:
		return io.ErrUnexpectedEOF
	case 2:
		return h.ErrInjected
	}
	text := "r" + strconv.Itoa(id)
	switch id % 4 {
	case 0:
		return oe.New(text)
	case 1:
		return stderrors.New(text)
	case 2:
		return oe.Errorf("r%d", id)
	}
	return fmt.Errorf("r%d", id)
}

func c08Tower(c *h.Ctx, layers []c08Layer, rootID int, bucket string) {
	// layers[0] is the OUTERMOST call
	args := make([]string, len(layers))
	var wantMsgs []string
	for i, l := range layers {
		args[i] = l.arg()
		if l.kind != 'S' {
			wantMsgs = append(wantMsgs, l.msg)
		}
	}
	ls := "_"
	if len(layers) > 0 {
		ls = strings.Join(args, ",")
	}
	build := func(root error) error {
		e := root
		for i := len(layers) - 1; i >= 0; i-- {
			e = layers[i].apply(e)
		}
		return e
	}
	// nil stays nil through every constructor
	in := fmt.Sprintf("err.build %s nil", ls)
	impl := h.Safe(func() string {
		if e := build(nil); e != nil {
			return "non-nil " + e.Error()
		}
		if oe.Cause(nil) != nil {
			return "Cause(nil) != nil"
		}
		return "nil"
	})
	c.Hold(impl == "nil", "tower.nil", in, impl, "nil")
	c.Eq("err.build", in, impl, c.O.Call("err.build", ls, "nil"))

	root := c08Root(rootID)
	ids := map[error]int{root: rootID}
	in = fmt.Sprintf("err.build %s %d", ls, rootID)
	var e error
	st := h.Safe(func() string { e = build(root); return "ok" })
	if !c.Hold(st == "ok" && e != nil, "tower.nonnil", in, st, "non-nil error") {
		return
	}
	var cause error
	var text string
	st = h.Safe(func() string { cause = oe.Cause(e); text = e.Error(); return "ok" })
	c.Hold(st == "ok", "tower.nopanic", in, st, "ok")
	// property: the root cause is the root itself (identity), through any number of layers
	c.Hold(cause == root, "tower.cause", in, fmt.Sprintf("%T %v", cause, cause), fmt.Sprintf("the root %T %v", root, root))
	c.Hold(oe.Cause(cause) == cause, "tower.cause_idempotent", in, "Cause(Cause(e)) != Cause(e)", "equal")
	// property: Error() = outer-to-inner messages joined by ": ", the root's own text last
	want := strings.Join(append(append([]string{}, wantMsgs...), root.Error()), ": ")
	c.Hold(text == want, "tower.message", in, text, want)
	shape, depth := c08Shape(e, ids)
	cs, _ := c08Shape(cause, ids)
	c.Eq("err.build", in, fmt.Sprintf("%s %s %d %s %s", cs, shape, depth, h.Hex([]byte(text)), h.Hex([]byte(text))), c.O.Call("err.build", ls, strconv.Itoa(rootID)))
	c.Case(bucket, in, len(layers) > 0)
}

func c08Towers(c *h.Ctx) {
	r := c.R
	// exhaustive: every tower of the 4 constructors up to depth 4 (5 thorough) over 4 roots
	kinds := []c08Layer{{kind: 'M', msg: "m"}, {kind: 'S'}, {kind: 'W', msg: "w: x"}, {kind: 'F', fmtS: "f%d", args: []interface{}{1}, msg: "f1"}}
	maxd := c.N(4, 5)
	var rec func(cur []c08Layer)
	rec = func(cur []c08Layer) {
		for _, root := range []int{0, 1, 2, 3 + len(cur)} {
			c08Tower(c, cur, root, fmt.Sprintf("tower/exhaustive/depth=%d", len(cur)))
		}
		if len(cur) == maxd {
			return
		}
		for _, k := range kinds {
			rec(append(append([]c08Layer{}, cur...), k))
		}
	}
	rec(nil)
	// random: depth up to 8 (thorough: up to 40), random messages
	n := c.N(600, 20000)
	for i := 0; i < n; i++ {
		d := r.Intn(9)
		if c.Thorough() && r.Chance(5) {
			d = 9 + r.Intn(32)
		}
		ls := make([]c08Layer, d)
		for j := range ls {
			ls[j] = c08GenLayer(r)
		}
		root := r.Pick(0, 1, 2, 3+r.Intn(1000), 3+r.Intn(1000))
		c08Tower(c, ls, root, fmt.Sprintf("tower/random/depth=%s/root=%s", cls(d), map[bool]string{true: "wellknown", false: "fresh"}[root < 3]))
	}
}

// ---------- (b) RTMP ----------

// c08Session: a small session with Set Chunk Size announcements and multi-chunk messages, so that every
// offset can be swept. maxWire bounds the chunk-stream bytes.
func c08Session(r *h.Rand, maxWire int) []rmsg {
	c := 128
	var ms []rmsg
	total := 0
	n := 1 + r.Intn(5)
	for i := 0; i < n; i++ {
		var m rmsg
		m.cid = uint32(r.Pick(2, 3, 5, 63, 2+r.Intn(62)))
		m.sid = uint32(r.Pick(0, 1, 0x01020304, 0xFFFFFFFF))
		m.ts = genTs(r)
		k := r.Intn(10)
		switch {
		case k < 2: // Set Chunk Size
			v := uint32(r.Pick(1, 2, 3, 7, 16, 127, 128, 129, 200, 4096, 1<<31-1))
			m.ty, m.cid = 1, 2
			m.payload = []byte{byte(v >> 24), byte(v >> 16), byte(v >> 8), byte(v)}
			m.desc = h.Hex(m.payload)
			c = int(v)
			if c > 1<<20 {
				c = 1 << 20
			}
		case k == 2:
			m.ty = 5
			m.payload = r.Bytes(4)
			m.desc = h.Hex(m.payload)
		case k == 3:
			m.ty = 4
			m.payload = append([]byte{0, byte(r.Pick(0, 1, 6, 7))}, r.Bytes(4)...)
			m.desc = h.Hex(m.payload)
		default:
			m.ty = uint32(r.Pick(8, 9, 18, 20, 15, 17))
			l := r.Pick(1, 2, c-1, c, c+1, 2*c-1, 2*c, 2*c+1, 3*c+1, 129, 257, 5)
			if l < 1 {
				l = 1
			}
			if c == 1 && l > 12 {
				l = 12
			}
			if l > 400 {
				l = 1 + r.Intn(400)
			}
			m.payload, m.desc = payloadOf(r, l)
		}
		est := 16 + len(m.payload) + 5*(len(m.payload)/c+1)
		if total+est > maxWire && len(ms) > 0 {
			break
		}
		total += est
		ms = append(ms, m)
	}
	return ms
}

func c08Want(ms []rmsg) []string {
	want := make([]string, len(ms))
	for i, m := range ms {
		want[i] = fmt.Sprintf("%d.%d.%d.%d.%s", m.cid, m.ty, m.sid, m.ts, h.Hex(m.payload))
	}
	return want
}

// c08WriteClean writes the session through a real Protocol; returns the wire, the cumulative wire length
// after each message and the sizes of the transport Write calls (bufio's segmentation).
func c08WriteClean(ms []rmsg) (wire []byte, cum []int, calls []int, st string) {
	bw := &budgetWriter{Limit: -1}
	p := rtmp.NewProtocol(&h.RW{Writer: bw})
	st = h.Safe(func() string {
		for i, m := range ms {
			if err := p.WriteMessage(rtmp.VerifNewMessage(m.cid, rtmp.MessageType(m.ty), m.sid, m.ts, m.payload)); err != nil {
				return fmt.Sprintf("err at %d: %v", i, err)
			}
			cum = append(cum, len(bw.Buf))
		}
		return "ok"
	})
	return bw.Buf, cum, bw.Calls, st
}

func c08Whole(cum []int, k int) int {
	j := 0
	for _, x := range cum {
		if x <= k {
			j++
		}
	}
	return j
}

func c08OnBoundary(cum []int, k int) bool {
	if k == 0 {
		return true
	}
	for _, x := range cum {
		if x == k {
			return true
		}
	}
	return false
}

// c08ReadAll reads messages from a real Protocol until the first error.
// The messages are HELD and rendered only after the failing read returned: "the messages returned before the
// failure are exactly those completely transferred" is about what the application still has in its hands then —
// a later (partial) read must not have written into an earlier message.
func c08ReadAll(p *rtmp.Protocol, max int) (got []string, err error, status string) {
	var held []*rtmp.Message
	status = h.Safe(func() string {
		for i := 0; i < max; i++ {
			var m *rtmp.Message
			m, err = p.ReadMessage()
			if err != nil {
				if m != nil {
					return "message-with-error"
				}
				return "stopped"
			}
			if m == nil {
				return "nil-message-nil-error"
			}
			held = append(held, m)
		}
		return "no-error"
	})
	for _, m := range held {
		cid, ty, sid, ts, plen := rtmp.VerifMessageFields(m)
		if int(plen) != len(m.Payload) {
			return got, err, "bad-length-field"
		}
		got = append(got, fmt.Sprintf("%d.%d.%d.%d.%s", cid, ty, sid, ts, h.Hex(m.Payload)))
	}
	return
}

// c08CheckRead: the property predicate for one faulty read run + the correspondence with the model entry.
func c08CheckRead(c *h.Ctx, kind string, in string, f c08Fault, got, want []string, j int, boundary bool, err error, status, model string) {
	impl := fmt.Sprintf("%d items, %s, err=%v", len(got), status, err)
	ok := status == "stopped" && len(got) == j
	if ok {
		for i := range got {
			if got[i] != want[i] {
				ok = false
			}
		}
	}
	// exactly the completely transferred items, in order; an incomplete item never with a nil error
	c.Hold(ok, kind+".items", in, h.Trunc(impl+" "+strings.Join(got, ","), 400), fmt.Sprintf("exactly the first %d items then a non-nil error", j))
	if err == nil {
		return
	}
	cause := oe.Cause(err)
	if f.t == 0 {
		c.Hold(cause == io.EOF || cause == io.ErrUnexpectedEOF, kind+".cause", in, fmt.Sprintf("%T %v", cause, cause), "io.EOF or io.ErrUnexpectedEOF (identical)")
		if boundary {
			c.Hold(cause == io.EOF, kind+".cause_boundary", in, fmt.Sprintf("%v", cause), "io.EOF at an item boundary")
		}
	} else {
		c.Hold(cause == f.err, kind+".cause", in, fmt.Sprintf("%T %v", cause, cause), fmt.Sprintf("the transport's error (%v), identical", f.err))
	}
	cl := h.ErrClass(err)
	if f.t == 3 {
		cl = "err"
	}
	sh, _ := c08Shape(err, map[error]int{c08Other: 3})
	c.Eq(kind, in, fmt.Sprintf("%d:%s:%s", len(got), cl, sh), model)
}

func c08RtmpReadSweeps(c *h.Ctx, ms []rmsg, wire []byte, cum []int, ks []int, label string) {
	r := c.R
	want := c08Want(ms)
	sess := rmsgsStr(ms)
	for _, f := range c08Faults(c) {
		model := strings.Split(c.O.Call("c08.rtmp.cuts", strconv.Itoa(f.t), "128", h.Hex(wire), c08Ks(ks)), ",")
		c08Each(len(wire), ks, func(i, k int) {
			rd, mode := c08Reader(wire[:k], f.err, r)
			p := rtmp.NewProtocol(&h.RW{Reader: rd, Writer: io.Discard})
			got, err, status := c08ReadAll(p, len(ms)+2)
			c08Runs["rtmp read offsets ("+f.name+")"]++
			in := fmt.Sprintf("rtmp %s at read offset %d of %d (seg mode %d): write 128 %s", f.name, k, len(wire), mode, h.Trunc(sess, 600))
			mi := "missing"
			if i < len(model) {
				mi = model[i]
			}
			c08CheckRead(c, "rtmp."+f.name, in, f, got, want, c08Whole(cum, k), c08OnBoundary(cum, k), err, status, mi)
		})
		// ExpectMessage / ExpectPacket add one layer and keep the cause: offsets inside the first message
		for k := 0; k < cum[0] && k < 40; k++ {
			for variant := 0; variant < 2; variant++ {
				rd, _ := c08Reader(wire[:k], f.err, r)
				p := rtmp.NewProtocol(&h.RW{Reader: rd, Writer: io.Discard})
				var err error
				st := h.Safe(func() string {
					if variant == 0 {
						_, err = p.ExpectMessage()
					} else {
						var pkt *rtmp.SetChunkSize
						_, err = p.ExpectPacket(&pkt)
					}
					return "ok"
				})
				in := fmt.Sprintf("rtmp expect(%d) %s at read offset %d: write 128 %s", variant, f.name, k, h.Trunc(sess, 600))
				c.Hold(st == "ok" && err != nil, "rtmp.expect.nonnil", in, fmt.Sprint(st, err), "non-nil error")
				if err == nil {
					continue
				}
				cause := oe.Cause(err)
				if f.t == 0 {
					c.Hold(cause == io.EOF || cause == io.ErrUnexpectedEOF, "rtmp.expect.cause", in, fmt.Sprint(cause), "io.EOF or io.ErrUnexpectedEOF")
				} else {
					c.Hold(cause == f.err, "rtmp.expect.cause", in, fmt.Sprint(cause), fmt.Sprint(f.err))
				}
				cl := h.ErrClass(err)
				if f.t == 3 {
					cl = "err"
				}
				sh, _ := c08Shape(err, nil)
				c.Eq("rtmp.expect", in, cl+" "+sh, c.O.Call("c08.rtmp.expect", strconv.Itoa(f.t), "128", h.Hex(wire[:k])))
			}
		}
		c.Case(fmt.Sprintf("rtmp/read/%s/%s", f.name, label), f.name+" "+sess, true)
	}
}

// c08WriteSession writes ms through a real Protocol over w until the first error.
func c08WriteSession(w io.Writer, ms []rmsg, viaPacket bool) (nOK int, err error, status string, p *rtmp.Protocol) {
	p = rtmp.NewProtocol(&h.RW{Writer: w})
	status = h.Safe(func() string {
		for _, m := range ms {
			if viaPacket && m.ty == 20 {
				// a command: the packet kind its name stands for (connect and createStream are the requests WritePacket keeps
				// books about), decoded from the payload and written through WritePacket
				var pkt rtmp.Packet = rtmp.NewCallPacket()
				if bytes.HasPrefix(m.payload, []byte("\x02\x00\x07connect")) {
					pkt = rtmp.NewConnectAppPacket()
				} else if bytes.HasPrefix(m.payload, []byte("\x02\x00\x0ccreateStream")) {
					pkt = rtmp.NewCreateStreamPacket()
				}
				if uerr := pkt.UnmarshalBinary(m.payload); uerr != nil {
					return "harness: " + uerr.Error()
				}
				err = p.WritePacket(pkt, int(m.sid))
			} else if viaPacket {
				pkt := rtmp.NewSetChunkSize()
				pkt.ChunkSize = uint32(m.payload[0])<<24 | uint32(m.payload[1])<<16 | uint32(m.payload[2])<<8 | uint32(m.payload[3])
				err = p.WritePacket(pkt, int(m.sid))
			} else {
				err = p.WriteMessage(rtmp.VerifNewMessage(m.cid, rtmp.MessageType(m.ty), m.sid, m.ts, m.payload))
			}
			if err != nil {
				return "stopped"
			}
			nOK++
		}
		return "done"
	})
	return
}

func c08RtmpWriteSweeps(c *h.Ctx, ms []rmsg, wire []byte, cum []int, calls []int, ks []int, label string, viaPacket bool) {
	r := c.R
	want := c08Want(ms)
	sess := rmsgsStr(ms)
	op := "c08.rtmp.wfaults"
	if viaPacket {
		op = "c08.rtmp.wpfaults"
	}
	for _, f := range c08Faults(c) {
		if f.t == 0 {
			continue // a writer has no "end of stream"; io.EOF as a write error is just another root, covered by t=1 (thorough)
		}
		// model entries for the byte budgets ks AND for the call-index budgets
		callK := []int{0}
		for _, n := range calls {
			callK = append(callK, callK[len(callK)-1]+n)
		}
		model := strings.Split(c.O.Call(op, strconv.Itoa(f.t), "4096", "128", sess, c08Ks(ks)), ",")
		modelCalls := strings.Split(c.O.Call(op, strconv.Itoa(f.t), "4096", "128", sess, c08Ks(callK)), ",")
		one := func(in string, w io.Writer, delivered func() []byte, k int, mi string) {
			nOK, err, status, p := c08WriteSession(w, ms, viaPacket)
			c08Runs["rtmp write budgets/call indices ("+f.name+")"]++
			d := delivered()
			j := c08Whole(cum, k)
			impl := fmt.Sprintf("%d writes returned nil, %s, err=%v, %d bytes delivered", nOK, status, err, len(d))
			if k >= len(wire) {
				c.Hold(status == "done" && err == nil && nOK == len(ms) && bytes.Equal(d, wire), "rtmp.wfault.nofault", in, impl, "all written")
			} else {
				// the operation in progress returns a non-nil error; exactly the completely transferred messages were acknowledged
				c.Hold(status == "stopped" && err != nil && nOK == j, "rtmp.wfault.acked", in, impl, fmt.Sprintf("%d writes return nil, then a non-nil error", j))
				if err != nil {
					cause := oe.Cause(err)
					c.Hold(cause == f.err, "rtmp.wfault.cause", in, fmt.Sprintf("%T %v", cause, cause), fmt.Sprintf("the transport's error (%v), identical", f.err))
					// sticky: a later write reports the same root cause and delivers nothing more
					var err2 error
					h.Safe(func() string {
						err2 = p.WriteMessage(rtmp.VerifNewMessage(5, 9, 1, 0, []byte{1, 2, 3}))
						return ""
					})
					c.Hold(err2 != nil && oe.Cause(err2) == f.err && len(delivered()) == len(d), "rtmp.wfault.sticky", in, fmt.Sprint(err2), "same root cause, nothing more delivered")
				}
				// the bytes delivered are a prefix of the session's bytes …
				c.Hold(len(d) <= len(wire) && bytes.Equal(d, wire[:len(d)]) && len(d) == k, "rtmp.wfault.prefix", in, fmt.Sprintf("%d bytes", len(d)), fmt.Sprintf("the first %d bytes of the session", k))
			}
			// … so the peer gets exactly the completely transferred messages
			pr := rtmp.NewProtocol(&h.RW{Reader: &h.SegReader{Data: d, R: r.Fork(), Mode: 3}, Writer: io.Discard})
			got, perr, pst := c08ReadAll(pr, len(ms)+2)
			okp := pst == "stopped" && perr != nil && len(got) == nOK
			for i := 0; okp && i < len(got); i++ {
				okp = got[i] == want[i]
			}
			c.Hold(okp, "rtmp.wfault.peer", in, fmt.Sprintf("peer read %d messages (%s)", len(got), pst), fmt.Sprintf("exactly the %d acknowledged messages", nOK))
			cl := "ok:-"
			if err != nil {
				cl = h.ErrClass(err)
				if f.t == 3 {
					cl = "err"
				}
				sh, _ := c08Shape(err, nil)
				cl += ":" + sh
			}
			c.Eq("rtmp.wfault", in, fmt.Sprintf("%d:%s:%d", nOK, cl, len(d)), mi)
		}
		c08Each(len(wire), ks, func(i, k int) {
			bw := &budgetWriter{Limit: k, Err: f.err}
			mi := "missing"
			if i < len(model) {
				mi = model[i]
			}
			one(fmt.Sprintf("rtmp write fault %s after %d of %d bytes (packet=%v): write 128 %s", f.name, k, len(wire), viaPacket, h.Trunc(sess, 600)),
				bw, func() []byte { return bw.Buf }, k, mi)
		})
		for ci := 0; ci <= len(calls); ci++ {
			fw := &h.FaultWriter{FailAtCall: ci, Err: f.err}
			if ci == len(calls) {
				fw.FailAtCall = -1
			}
			mi := "missing"
			if ci < len(modelCalls) {
				mi = modelCalls[ci]
			}
			one(fmt.Sprintf("rtmp write fault %s at write call %d of %d (packet=%v): write 128 %s", f.name, ci, len(calls), viaPacket, h.Trunc(sess, 600)),
				fw, func() []byte { return fw.Buf }, callK[ci], mi)
		}
		c.Case(fmt.Sprintf("rtmp/write/%s/%s", f.name, label), f.name+" w "+sess, true)
	}
}

// c08Transient: the error of a transport whose deadline expired, as a net.Conn reports it (a timeout, "temporary").
type c08Transient struct{}

func (c08Transient) Error() string   { return "i/o timeout (test)" }
func (c08Transient) Timeout() bool   { return true }
func (c08Transient) Temporary() bool { return true }

// c08OnceReader delivers b[:k] (in pieces of at most max bytes), fails ONCE with err, then goes on delivering the rest
// and ends with io.EOF — a read deadline that expired and was re-armed, an interrupted system call.
type c08OnceReader struct {
	b      []byte
	k, max int
	err    error
	failed bool
	pos    int
}

func (s *c08OnceReader) Read(p []byte) (int, error) {
	if s.pos == s.k && !s.failed {
		s.failed = true
		return 0, s.err
	}
	if s.pos >= len(s.b) {
		return 0, io.EOF
	}
	n := len(p)
	if s.max > 0 && n > s.max {
		n = s.max
	}
	lim := len(s.b)
	if !s.failed {
		lim = s.k
	}
	if n > lim-s.pos {
		n = lim - s.pos
	}
	copy(p, s.b[s.pos:s.pos+n])
	s.pos += n
	return n, nil
}

// c08RtmpTransient: a failure of the transport that the transport itself calls temporary is still a failure of the
// operation in progress: ReadMessage / ExpectMessage / ExpectPacket return it (cause kept), they do not carry on with a
// stream of which they have consumed an unknown part.
func c08RtmpTransient(c *h.Ctx) {
	r := c.R
	var wire bytes.Buffer
	w := rtmp.NewProtocol(&h.RW{Writer: &wire})
	var ends []int
	put := func(pk rtmp.Packet) { w.WritePacket(pk, 1); ends = append(ends, wire.Len()) }
	wa := rtmp.NewWindowAcknowledgementSize()
	wa.AckSize = 2500000
	put(wa)
	sc := rtmp.NewSetChunkSize()
	sc.ChunkSize = 50
	put(sc)
	put(rtmp.NewConnectAppPacket())
	put(wa)
	cs := rtmp.NewCreateStreamPacket()
	cs.TransactionID = 4
	put(cs)
	put(wa)
	all := wire.Bytes()
	errs := []error{c08Transient{}, syscall.EAGAIN, os.ErrDeadlineExceeded, syscall.EINTR}
	step := c.N(3, 1)
	for k := 0; k < len(all); k += step {
		for ei, e := range errs {
			for variant := 0; variant < 3; variant++ {
				if !c.Thorough() && (k+ei+variant)%3 != 0 {
					continue
				}
				rd := &c08OnceReader{b: all, k: k, err: e, max: r.Pick(0, 1, 5, 64)}
				p := rtmp.NewProtocol(&h.RW{Reader: rd, Writer: io.Discard})
				var err error
				nOK := 0
				st := h.Safe(func() string {
					switch variant {
					case 0:
						for i := 0; i < len(ends)+2 && err == nil; i++ {
							if _, err = p.ExpectMessage(); err == nil {
								nOK++
							}
						}
					case 1:
						_, err = p.ExpectMessage(rtmp.MessageType(200)) // never comes
					default:
						var pkt *rtmp.PlayPacket // never comes
						_, err = p.ExpectPacket(&pkt)
					}
					return "ok"
				})
				whole := 0
				for _, x := range ends {
					if x <= k {
						whole++
					}
				}
				in := fmt.Sprintf("rtmp expect variant %d: the transport delivers %d of %d bytes (pieces of %d), fails ONCE with %T %q, then delivers the rest; messages end at %v", variant, k, len(all), rd.max, e, e.Error(), ends)
				cause := error(nil)
				if err != nil {
					cause = oe.Cause(err)
				}
				ok := st == "ok" && err != nil && cause == e && (variant != 0 || nOK == whole)
				c.Hold(ok, "rtmp.transient_failure_is_returned", in, fmt.Sprintf("%s: %d messages, then error %v (cause %v)", st, nOK, c08ErrStr(err), cause), fmt.Sprintf("%d messages (variant 0), then an error whose cause is the transport's", whole))
				c08Runs["rtmp transient faults"]++
			}
		}
	}
	c.Case("rtmp/read/transient", fmt.Sprintf("%d bytes, %d messages, 4 error kinds, 3 entry points", len(all), len(ends)), true)
}

func c08Rtmp(c *h.Ctx) {
	r := c.R
	c08RtmpTransient(c)
	nsess := c.N(40, 400)
	for s := 0; s < nsess; s++ {
		ms := c08Session(r, c.N(700, 2500))
		wire, cum, calls, st := c08WriteClean(ms)
		in := "rtmp.write 128 " + rmsgsStr(ms)
		if !c.Hold(st == "ok", "rtmp.write.ok", h.Trunc(in, 600), st, "ok") {
			continue
		}
		// the clean wire is the model's, and it reads back completely, then clean EOF with the documented layers
		c.Eq("rtmp.write", h.Trunc(in, 600), "ok "+h.Hex(wire), c.O.Call("rtmp.write", "128", rmsgsStr(ms)))
		nset, multi := 0, 0
		cs := 128
		for _, m := range ms {
			if len(m.payload) > cs {
				multi++
			}
			if m.ty == 1 {
				nset++
				cs = int(uint32(m.payload[0])<<24 | uint32(m.payload[1])<<16 | uint32(m.payload[2])<<8 | uint32(m.payload[3]))
			}
		}
		label := fmt.Sprintf("msgs=%d,setchunk=%s,multichunk=%s", len(ms), cls(nset), cls(multi))
		c08RtmpReadSweeps(c, ms, wire, cum, nil, label)
		c08RtmpWriteSweeps(c, ms, wire, cum, calls, nil, label, false)
	}
	// messages larger than bufio's 4096-byte buffer: the transport fails inside WriteMessage's Write calls, not only in Flush
	big := [][]rmsg{
		{{cid: 5, ty: 9, sid: 1, ts: 7, payload: h.LCGBytes(5000, 11), desc: "p:5000:11"}},
		{{cid: 2, ty: 1, payload: []byte{0, 1, 0, 0}, desc: "00010000"}, {cid: 6, ty: 8, sid: 1, ts: 0xFFFFFF, payload: h.LCGBytes(9000, 5), desc: "p:9000:5"}, {cid: 3, ty: 18, sid: 1, ts: 3, payload: []byte{9}, desc: "09"}},
	}
	for bi, ms := range big {
		wire, cum, calls, st := c08WriteClean(ms)
		if !c.Hold(st == "ok", "rtmp.write.ok", rmsgsStr(ms), st, "ok") {
			continue
		}
		bounds := append([]int{}, cum...)
		acc := 0
		for _, n := range calls {
			acc += n
			bounds = append(bounds, acc)
		}
		bounds = append(bounds, 1, 12, 16, 140, 141, 4096, 4097, 8192)
		ks := c08Offsets(len(wire), c.N(60, 1500), bounds, r)
		label := fmt.Sprintf("big%d", bi)
		c08RtmpReadSweeps(c, ms, wire, cum, ks, label)
		c08RtmpWriteSweeps(c, ms, wire, cum, calls, ks, label, false)
	}
	// WritePacket adds its own layer and keeps the cause
	pk := []rmsg{{cid: 2, ty: 1, sid: 0, ts: 0, payload: []byte{0, 0, 0, 200}, desc: "000000c8"}, {cid: 2, ty: 1, sid: 0, ts: 0, payload: []byte{0, 0, 16, 0}, desc: "00001000"}}
	wire, cum, calls, st := c08WriteClean(pk)
	if c.Hold(st == "ok", "rtmp.write.ok", rmsgsStr(pk), st, "ok") {
		c08RtmpWriteSweeps(c, pk, wire, cum, calls, nil, "writepacket", true)
	}
	// WritePacket of the requests it keeps books about (connect, createStream) and of a plain call: a connect large
	// enough to take several transport writes; a fault at any of them comes back with its cause
	{
		cp := rtmp.NewConnectAppPacket()
		cp.CommandObject.Set("app", amf0.NewString("live")).Set("tcUrl", amf0.NewString("rtmp://example/"+strings.Repeat("u", 9000)))
		cb, _ := cp.MarshalBinary()
		cs := rtmp.NewCreateStreamPacket()
		cs.TransactionID = 2
		csb, _ := cs.MarshalBinary()
		call := rtmp.NewCallPacket()
		call.CommandName, call.TransactionID, call.CommandObject = "releaseStream", 3, amf0.NewNull()
		call.Args = amf0.NewString("stream")
		callb, _ := call.MarshalBinary()
		reqs := []rmsg{{cid: 3, ty: 20, sid: 0, ts: 0, payload: cb, desc: h.Hex(cb)}, {cid: 3, ty: 20, sid: 0, ts: 0, payload: csb, desc: h.Hex(csb)}, {cid: 3, ty: 20, sid: 0, ts: 0, payload: callb, desc: h.Hex(callb)}}
		wire, cum, calls, st := c08WriteClean(reqs)
		if c.Hold(st == "ok", "rtmp.write.ok", "connect (9 KB), createStream, releaseStream", st, "ok") {
			bounds := append([]int{1, 12, 13, 140, 141, 4096, 4097, 8192, 8193}, cum...)
			acc := 0
			for _, n := range calls {
				acc += n
				bounds = append(bounds, acc-1, acc, acc+1)
			}
			c08RtmpWriteSweeps(c, reqs, wire, cum, calls, c08Offsets(len(wire), c.N(80, 2000), bounds, r), "writepacket-requests", true)
		}
	}
	// chunk streams the library's own writer never produces: the 2- and 3-byte forms of the basic header (chunk stream ids
	// 64..65599), written here at the chunk level. A cut or a fault between the bytes of such a header surfaces with its
	// root cause like everywhere else.
	{
		wide := []rmsg{{cid: 64, ty: 9, sid: 1, ts: 10, payload: h.LCGBytes(40, 1), desc: "p:40:1"}, {cid: 320, ty: 8, sid: 1, ts: 0x1000000, payload: h.LCGBytes(300, 2), desc: "p:300:2"},
			{cid: 65599, ty: 18, sid: 1, ts: 5, payload: h.LCGBytes(129, 3), desc: "p:129:3"}, {cid: 319, ty: 9, sid: 1, ts: 11, payload: h.LCGBytes(3, 4), desc: "p:3:4"}, {cid: 3, ty: 20, sid: 0, ts: 0, payload: h.LCGBytes(12, 5), desc: "p:12:5"}}
		var wire []byte
		var cum []int
		for _, m := range wide {
			for off := 0; off < len(m.payload); off += 128 {
				end := off + 128
				if end > len(m.payload) {
					end = len(m.payload)
				}
				f := 0
				if off > 0 {
					f = 3
				}
				wire = append(wire, rtmpChunk(f, int(m.cid), uint32(m.ts), uint32(len(m.payload)), m.ty, m.sid, m.ts >= 0xffffff, m.payload[off:end])...)
			}
			cum = append(cum, len(wire))
		}
		c08RtmpReadSweeps(c, wide, wire, cum, nil, "wide-chunk-stream-ids")
	}
	// regression of the F17 family (fixed, known_findings.d/C01.json): a message longer than the input chunk size,
	// cut exactly at the chunk boundary, must end with an error — not with a nil-dereference panic
	f17 := []rmsg{{cid: 5, ty: 9, sid: 1, ts: 0, payload: h.LCGBytes(129, 7), desc: "p:129:7"}}
	wire, cum, _, _ = c08WriteClean(f17)
	c08RtmpReadSweeps(c, f17, wire, cum, nil, "regression-F17")
}

// ---------- handshake ----------

func c08Handshake(c *h.Ctx) {
	r := c.R
	var wire bytes.Buffer
	hs := rtmp.NewHandshake(rand.New(rand.NewSource(int64(r.U64()))))
	hs.WriteC0S0(&wire)
	hs.WriteC1S1(&wire)
	hs.WriteC2S2(&wire, h.LCGBytes(1536, 3))
	data := wire.Bytes()
	c.Hold(len(data) == 3073, "hs.length", "handshake", fmt.Sprint(len(data)), "3073")
	bounds := []int{0, 1, 2, 1536, 1537, 1538, 3072, 3073}
	for _, f := range c08Faults(c) {
		var ks []int
		if f.t != 0 && !c.Thorough() {
			ks = c08Offsets(len(data), 300, bounds, r) // quick: every offset for the cut, a sample for the others
		}
		model := strings.Split(c.O.Call("c08.hs.cuts", strconv.Itoa(f.t), "p:3073:1", c08Ks(ks)), ",")
		c08Each(len(data), ks, func(i, k int) {
			rd, _ := c08Reader(data[:k], f.err, r)
			if sr, ok := rd.(*h.SegReader); ok && sr.Mode == 0 && k > 400 {
				sr.Mode = 2 // 1-byte reads of 3 KB at every offset only for the short prefixes
			}
			var err error
			done := 0
			var parts [3][]byte
			st := h.Safe(func() string {
				if parts[0], err = hs.ReadC0S0(rd); err != nil {
					return "stopped"
				}
				done++
				if parts[1], err = hs.ReadC1S1(rd); err != nil {
					return "stopped"
				}
				done++
				if parts[2], err = hs.ReadC2S2(rd); err != nil {
					return "stopped"
				}
				done++
				return "done"
			})
			c08Runs["handshake read offsets ("+f.name+")"]++
			in := fmt.Sprintf("handshake %s at read offset %d", f.name, k)
			wantDone := 0
			for _, b := range []int{1, 1537, 3073} {
				if k >= b {
					wantDone++
				}
			}
			okParts := (done < 1 || bytes.Equal(parts[0], data[:1])) && (done < 2 || bytes.Equal(parts[1], data[1:1537])) && (done < 3 || bytes.Equal(parts[2], data[1537:]))
			c.Hold(done == wantDone && okParts && (done == 3) == (err == nil) && st != "panic" && (err == nil || parts[done] == nil),
				"hs."+f.name+".items", in, fmt.Sprintf("%d reads ok, err=%v (%s)", done, err, st), fmt.Sprintf("%d complete reads, then a non-nil error", wantDone))
			if err != nil {
				cause := oe.Cause(err)
				c.Hold(cause == f.err, "hs."+f.name+".cause", in, fmt.Sprintf("%T %v", cause, cause), fmt.Sprintf("%v (identical)", f.err))
			}
			cl := c08ErrStr(err)
			if f.t == 3 && err != nil {
				cl = "err:" + strings.SplitN(cl, ":", 2)[1]
			}
			mi := "missing"
			if i < len(model) {
				mi = model[i]
			}
			c.Eq("hs."+f.name, in, fmt.Sprintf("%d:%s", done, cl), mi)
		})
		c.Case("handshake/read/"+f.name, f.name, true)
		if f.t == 0 {
			continue
		}
		// writes: three direct transport writes
		kw := c08Offsets(len(data), c.N(200, 4000), bounds, r)
		modelW := strings.Split(c.O.Call("c08.hs.wfaults", strconv.Itoa(f.t), c08Ks(kw)), ",")
		run := func(in string, w io.Writer, delivered func() []byte, k int, mi string) {
			var err error
			done := 0
			st := h.Safe(func() string {
				if err = hs.WriteC0S0(w); err != nil {
					return "stopped"
				}
				done++
				if err = hs.WriteC1S1(w); err != nil {
					return "stopped"
				}
				done++
				if err = hs.WriteC2S2(w, h.LCGBytes(1536, 3)); err != nil {
					return "stopped"
				}
				done++
				return "done"
			})
			wantDone := 0
			for _, b := range []int{1, 1537, 3073} {
				if k >= b {
					wantDone++
				}
			}
			d := delivered()
			c.Hold(st != "panic" && done == wantDone && (done == 3) == (err == nil) && len(d) == min(k, 3073), "hs.wfault.acked", in,
				fmt.Sprintf("%d writes ok, err=%v, %d bytes", done, err, len(d)), fmt.Sprintf("%d writes ok", wantDone))
			if err != nil {
				c.Hold(oe.Cause(err) == f.err, "hs.wfault.cause", in, fmt.Sprint(oe.Cause(err)), fmt.Sprint(f.err))
			}
			cl := c08ErrStr(err)
			if f.t == 3 && err != nil {
				cl = "err:" + strings.SplitN(cl, ":", 2)[1]
			}
			c.Eq("hs.wfault", in, fmt.Sprintf("%d:%s:%d", done, cl, len(d)), mi)
		}
		c08Each(len(data), kw, func(i, k int) {
			bw := &budgetWriter{Limit: k, Err: f.err}
			mi := "missing"
			if i < len(modelW) {
				mi = modelW[i]
			}
			run(fmt.Sprintf("handshake write fault %s after %d bytes", f.name, k), bw, func() []byte { return bw.Buf }, k, mi)
		})
		mc := strings.Split(c.O.Call("c08.hs.wfaults", strconv.Itoa(f.t), "0,1,1537,3073"), ",")
		for ci, k := range []int{0, 1, 1537, 3073} {
			fw := &h.FaultWriter{FailAtCall: ci, Err: f.err}
			run(fmt.Sprintf("handshake write fault %s at write call %d", f.name, ci), fw, func() []byte { return fw.Buf }, k, mc[ci])
		}
		c.Case("handshake/write/"+f.name, f.name+" w", true)
	}
}

// ---------- FLV ----------

type c08Tag struct {
	ty   uint8
	ts   uint32
	body []byte
}

func (t c08Tag) str() string { return fmt.Sprintf("%d.%d.%s", t.ty, t.ts, h.Hex(t.body)) }

func c08TagsStr(ts []c08Tag) string {
	if len(ts) == 0 {
		return "_"
	}
	p := make([]string, len(ts))
	for i, t := range ts {
		p[i] = t.str()
	}
	return strings.Join(p, ",")
}

// c08FlvMux writes header + tags through the real muxer until the first error.
func c08FlvMux(w io.Writer, hv, ha bool, tags []c08Tag) (hdrOK bool, nOK int, err error, status string) {
	status = h.Safe(func() string {
		m, e := flv.NewMuxer(w)
		if e != nil {
			err = e
			return "newmuxer"
		}
		if err = m.WriteHeader(hv, ha); err != nil {
			return "stopped"
		}
		hdrOK = true
		for _, t := range tags {
			if err = m.WriteTag(flv.TagType(t.ty), t.ts, t.body); err != nil {
				return "stopped"
			}
			nOK++
		}
		return "done"
	})
	return
}

var c08DemuxN int

// c08FlvDemux reads header + tags through the real demuxer until the first error.
func c08FlvDemux(rd io.Reader) (hdr string, got []string, err error, status string) {
	var held [][]byte
	var heldTy []uint8
	var heldTs []uint32
	status = h.Safe(func() string {
		d, e := flv.NewDemuxer(rd)
		if e != nil {
			err = e
			return "newdemuxer"
		}
		v, hv, ha, e := d.ReadHeader()
		if e != nil {
			err = e
			return "stopped"
		}
		hdr = fmt.Sprintf("%d %s %s", v, b01(hv), b01(ha))
		c08DemuxN++
		for i := 0; i < 1000; i++ {
			// every other run the stream is handed from one demuxer object to the next (after the header, then after
			// every second tag): a demuxer has taken from the transport what it returned and nothing more, so whoever
			// reads the stream next finds it positioned at the next item
			if c08DemuxN%2 == 0 && i%2 == 0 {
				if d, e = flv.NewDemuxer(rd); e != nil {
					err = e
					return "newdemuxer"
				}
			}
			ty, size, ts, e := d.ReadTagHeader()
			if e != nil {
				err = e
				return "stopped"
			}
			body, e := d.ReadTag(size)
			if e != nil {
				err = e
				if body != nil {
					return "partial-tag-with-error"
				}
				return "stopped"
			}
			if uint32(len(body)) != size {
				return "short-tag-nil-error"
			}
			heldTy, heldTs, held = append(heldTy, uint8(ty)), append(heldTs, ts), append(held, body)
		}
		return "no-error"
	})
	// rendered only now: the tags are what the application still holds after the failing read
	for i, body := range held {
		got = append(got, fmt.Sprintf("%d.%d.%s", heldTy[i], heldTs[i], h.Hex(body)))
	}
	return
}

func c08Flv(c *h.Ctx) {
	r := c.R
	nfiles := c.N(30, 400)
	for s := 0; s < nfiles; s++ {
		hv, ha := r.Bool(), r.Bool()
		var tags []c08Tag
		nt := r.Intn(5)
		for i := 0; i < nt; i++ {
			tags = append(tags, c08Tag{ty: uint8(r.Pick(8, 9, 18, r.Intn(256))), ts: uint32(r.Pick(0, 1, 0xFFFFFF, 0x1000000, 0xFFFFFFFF, r.Intn(1<<31))),
				body: r.Bytes(r.Pick(0, 0, 1, 2, 5, 20, c.N(60, 300)))})
		}
		ts := c08TagsStr(tags)
		bw := &budgetWriter{Limit: -1}
		hdrOK, nOK, err, st := c08FlvMux(bw, hv, ha, tags)
		in := fmt.Sprintf("flv.mux %s %s %s", b01(hv), b01(ha), ts)
		if !c.Hold(st == "done" && hdrOK && nOK == len(tags) && err == nil, "flv.mux.ok", in, fmt.Sprint(st, err), "done") {
			continue
		}
		file := bw.Buf
		calls := bw.Calls
		c.Eq("flv.mux", in, h.Hex(file), c.O.Call("flv.mux", b01(hv), b01(ha), ts))
		cum := []int{}
		acc := 13
		want := make([]string, len(tags))
		for i, t := range tags {
			acc += 15 + len(t.body)
			cum = append(cum, acc)
			want[i] = t.str()
		}
		for _, f := range c08Faults(c) {
			model := strings.Split(c.O.Call("c08.flv.cuts", strconv.Itoa(f.t), h.Hex(file), "all"), ",")
			for k := 0; k <= len(file); k++ {
				rd, mode := c08Reader(file[:k], f.err, r)
				hdr, got, err, status := c08FlvDemux(rd)
				c08Runs["flv read offsets ("+f.name+")"]++
				in := fmt.Sprintf("flv %s at read offset %d of %d (seg mode %d): mux %s %s %s", f.name, k, len(file), mode, b01(hv), b01(ha), ts)
				j := c08Whole(cum, k)
				if k < 13 {
					c.Hold(hdr == "" && status == "stopped" && err != nil, "flv."+f.name+".header", in, fmt.Sprint(hdr, status, err), "no header, non-nil error")
				} else {
					c.Hold(hdr == fmt.Sprintf("1 %s %s", b01(hv), b01(ha)), "flv."+f.name+".header", in, hdr, "the written header")
				}
				hb := 0
				if hdr != "" {
					hb = 1
				}
				// FLV: CopyN reports a short source as io.EOF wherever the cut falls
				c08CheckRead(c, "flv."+f.name, in, f, got, want, j, true, err, status, strings.TrimPrefix(model[k], fmt.Sprintf("%d:", hb)))
				c.Hold(strings.HasPrefix(model[k], fmt.Sprintf("%d:", hb)), "flv."+f.name+".header_model", in, fmt.Sprint(hb), model[k])
			}
			c.Case(fmt.Sprintf("flv/read/%s/tags=%d", f.name, len(tags)), f.name+" "+in, true)
			if f.t == 0 {
				continue
			}
			callK := []int{0}
			for _, n := range calls {
				callK = append(callK, callK[len(callK)-1]+n)
			}
			modelW := strings.Split(c.O.Call("c08.flv.wfaults", strconv.Itoa(f.t), b01(hv), b01(ha), ts, "all"), ",")
			run := func(in string, w io.Writer, delivered func() []byte, k int) {
				hdrOK, nOK, err, status := c08FlvMux(w, hv, ha, tags)
				c08Runs["flv write budgets/call indices ("+f.name+")"]++
				d := delivered()
				j := c08Whole(cum, k)
				impl := fmt.Sprintf("header ok=%v, %d tags acknowledged, %s, err=%v, %d bytes", hdrOK, nOK, status, err, len(d))
				if k >= len(file) {
					c.Hold(status == "done" && err == nil && nOK == len(tags) && bytes.Equal(d, file), "flv.wfault.nofault", in, impl, "all written")
				} else {
					c.Hold(status == "stopped" && err != nil && hdrOK == (k >= 13) && nOK == j, "flv.wfault.acked", in, impl, fmt.Sprintf("%d tags acknowledged, then a non-nil error", j))
					if err != nil {
						c.Hold(oe.Cause(err) == f.err, "flv.wfault.cause", in, fmt.Sprint(oe.Cause(err)), fmt.Sprint(f.err))
					}
					c.Hold(len(d) == k && bytes.Equal(d, file[:len(d)]), "flv.wfault.prefix", in, fmt.Sprint(len(d)), fmt.Sprintf("the first %d bytes", k))
				}
				// the peer gets exactly the acknowledged tags
				_, got, perr, pst := c08FlvDemux(&h.SegReader{Data: d, R: r.Fork(), Mode: 3})
				okp := pst == "stopped" && perr != nil && len(got) == nOK
				for i := 0; okp && i < len(got); i++ {
					okp = got[i] == want[i]
				}
				c.Hold(okp, "flv.wfault.peer", in, fmt.Sprintf("peer read %d tags (%s)", len(got), pst), fmt.Sprintf("exactly the %d acknowledged tags", nOK))
				cl := c08ErrStr(err)
				if f.t == 3 && err != nil {
					cl = "err:" + strings.SplitN(cl, ":", 2)[1]
				}
				c.Eq("flv.wfault", in, fmt.Sprintf("%s:%d:%s:%d", b01(hdrOK), nOK, cl, len(d)), modelW[min(k, len(file))])
			}
			for k := 0; k <= len(file); k++ {
				bw := &budgetWriter{Limit: k, Err: f.err}
				run(fmt.Sprintf("flv write fault %s after %d of %d bytes: mux %s %s %s", f.name, k, len(file), b01(hv), b01(ha), ts), bw, func() []byte { return bw.Buf }, k)
			}
			for ci := 0; ci <= len(calls); ci++ {
				fw := &h.FaultWriter{FailAtCall: ci, Err: f.err}
				if ci == len(calls) {
					fw.FailAtCall = -1
				}
				run(fmt.Sprintf("flv write fault %s at write call %d of %d: mux %s %s %s", f.name, ci, len(calls), b01(hv), b01(ha), ts), fw, func() []byte { return fw.Buf }, callK[ci])
			}
			c.Case(fmt.Sprintf("flv/write/%s/tags=%d", f.name, len(tags)), f.name+" w "+in, true)
		}
	}
}

var c08Runs = map[string]int{}

func c08(c *h.Ctx) {
	c08Towers(c)
	c08Rtmp(c)
	c08Handshake(c)
	c08Flv(c)
	c08Extra(c)
	keys := make([]string, 0, len(c08Runs))
	for k := range c08Runs {
		keys = append(keys, k)
	}
	sort.Strings(keys)
	for _, k := range keys {
		c.Note(fmt.Sprintf("fault-injection runs on the real code, %s: %d", k, c08Runs[k]))
	}
}
