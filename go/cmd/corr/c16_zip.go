//go:build verif

package main

// C16 — compression and recipient order. "exactly the original payload" has no size or entropy bound: payloads that
// DEFLATE shrinks a thousandfold, payloads of hundreds of kilobytes, and incompressible ones must all come back
// (zip=DEF and zip absent), through every key-management family; and in a multi-recipient object each recipient
// decrypts with its own key wherever its entry sits among the others' (in particular behind an RSA1_5 entry,
// whose key decryption deliberately never fails for a foreign key).

import (
	"bytes"
	"fmt"
	"strings"

	"github.com/ossrs/go-oryx-lib/https/jose"
	"verifharness/internal/h"
)

func c16payload(r *h.Rand, kind string, n int) []byte {
	switch kind {
	case "same":
		return bytes.Repeat([]byte{byte(r.Intn(256))}, n)
	case "pattern":
		p := r.Bytes(2 + r.Intn(6))
		return bytes.Repeat(p, n/len(p)+1)[:n]
	case "json":
		var sb strings.Builder
		for i := 0; sb.Len() < n; i++ {
			fmt.Fprintf(&sb, `{"id":%d,"name":"stream","vhost":"__defaultVhost__","app":"live","active":true},`, i%7)
		}
		return []byte(sb.String()[:n])
	case "text":
		words := []string{"the ", "stream ", "publish ", "play ", "and ", "of ", "rtmp ", "chunk ", "\n"}
		var sb strings.Builder
		for sb.Len() < n {
			sb.WriteString(words[r.Intn(len(words))])
		}
		return []byte(sb.String()[:n])
	case "half":
		b := make([]byte, n)
		copy(b, r.Bytes(n/2))
		return b
	default:
		return h.LCGBytes(n, uint32(r.U64()))
	}
}

func c16zip(c *h.Ctx, r *h.Rand) {
	ks := c16makeKeys(c, r)
	ec := ks.ec["P-256"][0]
	type combo struct {
		alg    jose.KeyAlgorithm
		enc    jose.ContentEncryption
		ek, dk interface{}
	}
	combos := []combo{
		{jose.DIRECT, jose.A128GCM, ks.syms[16][0], ks.syms[16][0]},
		{jose.A128KW, jose.A128CBC_HS256, ks.syms[16][1], ks.syms[16][1]},
		{jose.RSA_OAEP, jose.A256GCM, &ks.rsa[0].PublicKey, ks.rsa[0]},
		{jose.RSA1_5, jose.A192CBC_HS384, &ks.rsa[1].PublicKey, ks.rsa[1]},
		{jose.ECDH_ES, jose.A256CBC_HS512, &ec.PublicKey, ec},
		{jose.A256GCMKW, jose.A192GCM, ks.syms[32][0], ks.syms[32][0]},
	}
	kinds := []string{"same", "pattern", "json", "text", "half", "random"}
	sizes := []int{130, 200, 400, 2000, 70000}
	if c.Thorough() {
		sizes = []int{1, 64, 129, 130, 131, 200, 400, 1000, 2000, 4096, 70000, 249999, 250000, 250001, 300000, 1 << 20}
	}
	i := 0
	for _, n := range sizes {
		for _, kind := range kinds {
			for ci, cb := range combos {
				i++
				if !c.Thorough() && (i+ci)%3 != 0 {
					continue // quick: every (size, kind) with two of the six families
				}
				if n > 100000 && (i+ci)%2 != 0 {
					continue
				}
				for _, zip := range []jose.CompressionAlgorithm{jose.DEFLATE, jose.NONE} {
					if zip == jose.NONE && n > 5000 && kind != "same" {
						continue
					}
					compact := (i+n)%2 == 0
					zname := map[jose.CompressionAlgorithm]string{jose.DEFLATE: "DEF", jose.NONE: "none"}[zip]
					id := fmt.Sprintf("jose.jwe %s %s %s %d(%s) %s", cb.alg, cb.enc, zname, n, kind, map[bool]string{true: "compact", false: "json"}[compact])
					pt := c16payload(r, kind, n)
					var text string
					_, class := c16safe(func() ([]byte, error) {
						e, err := jose.NewEncrypter(cb.alg, cb.enc, cb.ek)
						if err != nil {
							return nil, err
						}
						e.SetCompression(zip)
						obj, err := e.Encrypt(pt)
						if err != nil {
							return nil, err
						}
						if compact {
							text, err = obj.CompactSerialize()
							return nil, err
						}
						text = obj.FullSerialize()
						return nil, nil
					})
					if !c.Hold(class == "ok", "C16_roundtrip.encrypt", id, class, "ok") {
						continue
					}
					out, cl := c16safe(func() ([]byte, error) {
						p, err := jose.ParseEncrypted(text)
						if err != nil {
							return nil, err
						}
						return p.Decrypt(cb.dk)
					})
					got := cl
					if cl == "ok" && !bytes.Equal(out, pt) {
						got = fmt.Sprintf("wrong-plaintext (%d bytes)", len(out))
					}
					c.Hold(got == "ok", "C16_roundtrip.zip", id, got, "ok, the original payload")
					c.Case(fmt.Sprintf("jwe-zip/%s,%s,n=%s", zname, kind, amfBucketSize(n)), id, true)
				}
			}
		}
	}
}
