package main

// C13 — websocket writer: messages intact and in order on an RFC 6455/7692-valid wire.
// A real Conn (hook constructor) writes into an in-memory transport; every byte on the wire is
// parsed by Spec.parse (oracle) and compared with the writer model (Model.WsWrite); a second real
// Conn of the opposite role reads the wire back. For the handshake clause, real Dial/Upgrade over
// 127.0.0.1 with a recording net.Conn.

import (
	"net/url"
	"bytes"
	"compress/flate"
	"encoding/json"
	"fmt"
	"io"
	"net"
	"net/http"
	"strings"
	"sync"
	"time"

	ws "github.com/ossrs/go-oryx-lib/websocket"
	"verifharness/internal/h"
)

func init() { register("C13", c13) }

func wsWErr(err error) string {
	if err == nil {
		return "ok"
	}
	if err == ws.ErrCloseSent {
		return "err.closeSent"
	}
	switch err.Error() {
	case "websocket: invalid control frame":
		return "err.invalidControl"
	case "websocket: bad write message type":
		return "err.badOpcode"
	case "websocket: write closed":
		return "err.writeClosed"
	}
	return "err.internal"
}

// wsChunkReader: an io.Reader (deliberately not an io.WriterTo) that hands out at most ks[i] bytes on
// the i-th call and everything that fits once the script is used up; io.EOF separately at the end.
type wsChunkReader struct {
	data []byte
	ks   []int
	// eofWithData: return io.EOF together with the last bytes (allowed by the io.Reader contract; what
	// iotest.DataErrReader and HTTP bodies of known length do)
	eofWithData bool
}

func (r *wsChunkReader) Read(p []byte) (n int, err error) {
	defer func() {
		if r.eofWithData && n > 0 && len(r.data) == 0 {
			err = io.EOF
		}
	}()
	if len(r.data) == 0 {
		return 0, io.EOF
	}
	k := len(r.data)
	if len(r.ks) > 0 {
		k = r.ks[0]
		if k < 1 {
			k = 1
		}
		r.ks = r.ks[1:]
	}
	if k > len(p) {
		k = len(p)
	}
	if k > len(r.data) {
		k = len(r.data)
	}
	copy(p, r.data[:k])
	r.data = r.data[k:]
	return k, nil
}

// chunkRec records every Write call (the writes flate.Writer makes into the truncWriter).
type chunkRec struct{ chunks [][]byte }

func (c *chunkRec) Write(p []byte) (int, error) {
	c.chunks = append(c.chunks, append([]byte(nil), p...))
	return len(p), nil
}

func barHex(chunks [][]byte) string {
	if len(chunks) == 0 {
		return "_"
	}
	parts := make([]string, len(chunks))
	for i, ch := range chunks {
		parts[i] = h.Hex(ch)
	}
	return strings.Join(parts, "|")
}

// flateReplay: the chunk sequence flate.Writer(level) produces for these application writes + Flush.
func flateReplay(level int, writes [][]byte) [][]byte {
	rec := &chunkRec{}
	fw, _ := flate.NewWriter(rec, level)
	for _, w := range writes {
		fw.Write(w)
	}
	fw.Flush()
	return rec.chunks
}

type c13Msg struct {
	ty   int
	data []byte
}

func payloadField(b []byte) string {
	// descriptor-free: the data was generated with LCG descriptors where large (see genData)
	return h.Hex(b)
}

type c13Gen struct {
	c       *h.Ctx
	r       *h.Rand
	B       int
	server  bool
	deflate bool
	level   int
	conn    *ws.Conn
	fake    *wsFake
	ops     []string // model script
	res     []string // implementation results per op
	msgs    []c13Msg // data messages that went out successfully
	descr   []string // API used per message (bucket)
	// a ReadFrom source in this session returned io.EOF together with its last bytes
	eofWithData bool
	// write compression currently switched off by the application (EnableWriteCompression(false))
	plainNow bool
	// per data message, in order: was it written compressed?
	zflags []bool
}

// genData returns the bytes and the byte field to use in the model script (p:n:seed for long ones).
func (g *c13Gen) genData(n int) ([]byte, string) {
	f, b := wsPayload(g.r, n)
	if n > 0 && n <= 48 && g.r.Bool() {
		for i := range b {
			b[i] = byte('a' + i%5)
		}
		f = h.Hex(b)
	}
	return b, f
}

func (g *c13Gen) size() int {
	B := g.B
	W := B + 14
	cands := []int{0, 1, 2, 124, 125, 126, 127, 128, B - 1, B, B + 1, 2*B - 1, 2 * B, 2*B + 1, 3 * B, W, 2*W - 1, 2 * W, 2*W + 1, 2*W + 2, 3*W + 5}
	if g.r.Chance(12) {
		cands = append(cands, 65535, 65536, 65537, 65536+B)
	}
	if g.c.Thorough() && g.r.Chance(3) && B >= 125 {
		// multi-megabyte messages (the oracle's List UInt8 costs ~100 bytes per byte: keep the frame count and wire size bounded)
		cands = append(cands, 1<<20, 1<<20+1)
		if B >= 4096 {
			cands = append(cands, 3<<20)
		}
	}
	n := cands[g.r.Intn(len(cands))]
	if n < 0 {
		n = 0
	}
	return n
}

func (g *c13Gen) partition(b []byte) [][]byte {
	if len(b) == 0 {
		if g.r.Bool() {
			return [][]byte{{}}
		}
		return nil
	}
	var parts [][]byte
	for len(b) > 0 {
		var k int
		switch g.r.Intn(5) {
		case 0:
			k = 1
		case 1:
			k = g.B
		case 2:
			k = 2*(g.B+14) + 1
		case 3:
			k = len(b)
		default:
			k = 1 + g.r.Intn(len(b))
		}
		if k > len(b) {
			k = len(b)
		}
		if k < 1 {
			k = 1
		}
		parts = append(parts, b[:k])
		b = b[k:]
		if g.r.Chance(5) {
			parts = append(parts, []byte{})
		}
	}
	return parts
}

func (g *c13Gen) op(tok string, err error) {
	g.ops = append(g.ops, tok)
	g.res = append(g.res, wsWErr(err))
}

// one data message through a randomly chosen API
func (g *c13Gen) message() {
	r := g.r
	ty := r.Pick(ws.TextMessage, ws.BinaryMessage)
	n := g.size()
	data, field := g.genData(n)
	compressed := g.deflate
	if g.deflate && r.Chance(35) {
		// the application may switch write compression per message on a session that negotiated permessage-deflate:
		// the peer then gets compressed and plain messages interleaved
		g.plainNow = !g.plainNow
		g.conn.EnableWriteCompression(!g.plainNow)
		g.ops = append(g.ops, "E;"+b01(!g.plainNow)) // no result token: the call returns nothing
	}
	if g.plainNow {
		compressed = false
	}
	g.zflags = append(g.zflags, compressed)
	api := r.Intn(6)
	ok := false
	switch api {
	case 0: // WriteMessage
		err := g.conn.WriteMessage(ty, data)
		if compressed {
			g.op(fmt.Sprintf("MZ;%d;%s", ty, barHex(flateReplay(g.level, [][]byte{data}))), err)
		} else {
			g.op(fmt.Sprintf("M;%d;%s", ty, field), err)
		}
		ok = err == nil
		g.descr = append(g.descr, "WriteMessage")
	case 1, 2: // NextWriter + Write / WriteString with a random partition
		w, err := g.conn.NextWriter(ty)
		if compressed {
			g.op(fmt.Sprintf("NZ;%d", ty), err)
		} else {
			g.op(fmt.Sprintf("N;%d", ty), err)
		}
		if err != nil {
			return
		}
		parts := g.partition(data)
		useString := api == 2
		ok = true
		var replay [][]byte
		for _, p := range parts {
			var err error
			if useString {
				_, err = io.WriteString(w, string(p))
			} else {
				_, err = w.Write(p)
			}
			if compressed {
				replay = append(replay, p)
			} else if useString {
				g.op("S;"+h.Hex(p), err)
			} else {
				g.op("W;"+h.Hex(p), err)
			}
			ok = ok && err == nil
		}
		err = w.Close()
		if compressed {
			for _, ch := range flateReplay(g.level, replay) {
				g.op("Z;"+h.Hex(ch), nil)
			}
			g.op("CZ", err)
		} else {
			g.op("C", err)
		}
		ok = ok && err == nil
		g.descr = append(g.descr, map[bool]string{false: "NextWriter+Write", true: "NextWriter+WriteString"}[useString])
	case 3: // ReadFrom via io.Copy with a scripted source chunking
		w, err := g.conn.NextWriter(ty)
		if compressed {
			g.op(fmt.Sprintf("NZ;%d", ty), err)
		} else {
			g.op(fmt.Sprintf("N;%d", ty), err)
		}
		if err != nil {
			return
		}
		var ks []int
		for i := r.Intn(6); i > 0; i-- {
			ks = append(ks, r.Pick(1, 2, g.B-1, g.B, g.B+1, 1+r.Intn(40)))
		}
		for i := range ks {
			if ks[i] < 1 {
				ks[i] = 1
			}
		}
		src := &wsChunkReader{data: data, ks: append([]int(nil), ks...), eofWithData: len(data)%2 == 1}
		if src.eofWithData && !compressed {
			g.eofWithData = true
		}
		if compressed {
			// the flate wrapper has no ReadFrom: io.Copy reads 32 KiB blocks and calls Write
			rec := &recWriter{w: w}
			_, err = io.Copy(rec, src)
			for _, ch := range flateReplay(g.level, rec.writes) {
				g.op("Z;"+h.Hex(ch), nil)
			}
			ok = err == nil
			err = w.Close()
			g.op("CZ", err)
		} else {
			_, err = io.Copy(w, src)
			kss := "_"
			if len(ks) > 0 {
				parts := make([]string, len(ks))
				for i, k := range ks {
					parts[i] = fmt.Sprint(k)
				}
				kss = strings.Join(parts, "/")
			}
			g.op(fmt.Sprintf("R;%s;%s", kss, field), err)
			ok = err == nil
			err = w.Close()
			g.op("C", err)
		}
		ok = ok && err == nil
		g.descr = append(g.descr, "ReadFrom")
	case 4: // prepared message
		pm, err := ws.NewPreparedMessage(ty, data)
		if err != nil {
			return
		}
		err = g.conn.WritePreparedMessage(pm)
		if compressed {
			g.op(fmt.Sprintf("PZ;%d;%s;%s", ty, field, barHex(flateReplay(g.level, [][]byte{data}))), err)
		} else {
			g.op(fmt.Sprintf("P;%d;%s", ty, field), err)
		}
		ok = err == nil
		g.descr = append(g.descr, "Prepared")
	case 5: // WriteJSON (always a text message)
		ty = ws.TextMessage
		v := map[string]interface{}{"n": n % 1000, "s": strings.Repeat("é<", n%300), "a": []int{1, 2, n}}
		enc, _ := json.Marshal(v)
		enc = append(enc, '\n')
		data = enc
		err := g.conn.WriteJSON(v)
		if compressed {
			g.op(fmt.Sprintf("NZ;%d", ty), nil)
			for _, ch := range flateReplay(g.level, [][]byte{enc}) {
				g.op("Z;"+h.Hex(ch), nil)
			}
			g.op("CZ", err)
		} else {
			g.op(fmt.Sprintf("N;%d", ty), nil)
			g.op("W;"+h.Hex(enc), nil)
			g.op("C", err)
		}
		ok = err == nil
		g.descr = append(g.descr, "WriteJSON")
	}
	if ok {
		g.msgs = append(g.msgs, c13Msg{ty, data})
	}
}

type recWriter struct {
	w      io.Writer
	writes [][]byte
}

func (r *recWriter) Write(p []byte) (int, error) {
	r.writes = append(r.writes, append([]byte(nil), p...))
	return r.w.Write(p)
}

func (g *c13Gen) control() {
	r := g.r
	ty := r.Pick(ws.PingMessage, ws.PongMessage)
	n := r.Pick(0, 1, 124, 125, 126, 200)
	data, field := g.genData(n)
	switch r.Intn(3) {
	case 0:
		err := g.conn.WriteControl(ty, data, time.Time{})
		g.op(fmt.Sprintf("K;%d;%s", ty, field), err)
	case 1:
		err := g.conn.WriteMessage(ty, data)
		g.op(fmt.Sprintf("M;%d;%s", ty, field), err)
	default:
		w, err := g.conn.NextWriter(ty)
		g.op(fmt.Sprintf("N;%d", ty), err)
		if err == nil {
			_, err = w.Write(data)
			g.op("W;"+field, err)
			err = w.Close() // always close: an unclosed writer would be closed implicitly by the next NextWriter
			g.op("C", err)
		}
	}
}

func c13Session(c *h.Ctx, B int, server, deflate bool, level int, nmsg int, withClose bool) {
	g := &c13Gen{c: c, r: c.R, B: B, server: server, deflate: deflate, level: level}
	g.fake = newWsFake(nil)
	g.conn = ws.VerifNewConn(g.fake, server, 0, B, deflate)
	if deflate {
		g.conn.SetCompressionLevel(level)
	}
	crashed := h.Safe(func() string {
		for i := 0; i < nmsg; i++ {
			if g.r.Chance(25) {
				g.control()
			}
			g.message()
		}
		if withClose {
			// WriteControl: one transport write whatever the buffer size (WriteMessage(Close, …) needs the body to fit the write buffer)
			err := g.conn.WriteControl(ws.CloseMessage, ws.FormatCloseMessage(1000, "bye"), time.Time{})
			g.op("K;8;03e8627965", err)
			// after a Close every write fails with ErrCloseSent and nothing reaches the wire
			err = g.conn.WriteMessage(ws.TextMessage, []byte("late"))
			if deflate {
				g.op("MZ;1;_", err)
			} else {
				g.op("M;1;6c617465", err)
			}
			err = g.conn.WriteControl(ws.PingMessage, nil, time.Time{})
			g.op("K;9;-", err)
		}
		return "ok"
	})
	role := roleStr(server)
	in := fmt.Sprintf("ws.write %s %d %s <keys> %s", role, B, b01(deflate), h.Trunc(strings.Join(g.ops, " "), 700))
	c.Hold(crashed == "ok", "no_panic", in, crashed, "ok")
	wire := g.fake.Written()
	if len(wire) > 5<<20 {
		c.Note(fmt.Sprintf("session with a %d-byte wire skipped for the oracle (size cap)", len(wire)))
		c.Case("session/oversize-skipped", in, false)
		return
	}
	wireHex := h.Hex(wire)

	// (1) every byte on the wire parses under the independent RFC 6455/7692 parser for this sender role
	rep := c.O.Call("ws.parse", role, b01(deflate), wireHex)
	if !c.Hold(strings.HasPrefix(rep, "ok "), "writer_wellformed.parse", in, h.Trunc(wireHex, 300), rep) {
		c.Case("session/unparsable", in, true)
		return
	}
	frames := wsParseFrames(rep[3:])
	// (2) frame shape per message + payload = writes (writer_payload), from the spec parser's view
	var keys []string
	var got []c13Msg
	var cur *c13Msg
	var curZ bool
	for _, f := range frames {
		if f.Masked {
			keys = append(keys, f.Key)
		}
		if f.Op >= 8 {
			continue
		}
		pl := h.UnHex(f.Payload)
		if f.Op != 0 {
			cur = &c13Msg{ty: f.Op}
			curZ = f.Rsv == 4
		}
		if cur == nil {
			c.Hold(false, "writer_wellformed.sequencing", in, rep, "continuation inside a message only")
			return
		}
		cur.data = append(cur.data, pl...)
		if f.Fin {
			if curZ {
				raw, err := wsInflate(cur.data)
				c.Hold(err == nil, "writer_payload.inflate", in, fmt.Sprint(err), "nil")
				cur.data = raw
			}
			got = append(got, *cur)
			cur = nil
		}
	}
	okMsgs := len(got) == len(g.msgs)
	for i := 0; okMsgs && i < len(got); i++ {
		okMsgs = got[i].ty == g.msgs[i].ty && bytes.Equal(got[i].data, g.msgs[i].data) && (curZ || true)
	}
	c.Hold(okMsgs, "writer_payload", in, fmt.Sprintf("%d messages on the wire", len(got)), fmt.Sprintf("%d messages written, same (type, payload)", len(g.msgs)))
	if deflate {
		// RSV1 exactly on the first frame of the messages that were written compressed (the application may have
		// switched write compression off for some)
		mi := 0
		for _, f := range frames {
			if f.Op == 1 || f.Op == 2 {
				wantZ := mi >= len(g.zflags) || g.zflags[mi]
				mi++
				c.Hold((f.Rsv == 4) == wantZ, "writer_wellformed.rsv1_first", in, f.String(), fmt.Sprintf("RSV1 = %v on the first frame of this message", wantZ))
			}
		}
	}
	// (3) model = implementation: wire bytes and per-call results
	keyArg := "_"
	if len(keys) > 0 {
		keyArg = strings.Join(keys, ",")
	}
	args := append([]string{"ws.write", role, fmt.Sprint(B), b01(deflate), keyArg}, g.ops...)
	mrep := kvLine(c.O.Call(args...))
	if g.eofWithData {
		// a source that returns io.EOF TOGETHER with its last bytes saves ReadFrom one loop iteration (no flush of an
		// exactly full buffer before the EOF read): the frame boundaries may legitimately differ from the model, whose
		// ReadFrom op has the EOF read separate. Payload, well-formedness and the peer's view are checked above/below.
		c.Trace()
	} else {
		c.Eq("ws.write.wire", in, h.Trunc(wireHex, 4000), h.Trunc(mrep["wire"], 4000))
		if wireHex != mrep["wire"] && h.Trunc(wireHex, 4000) == h.Trunc(mrep["wire"], 4000) {
			c.Fail("correspondence", "ws.write.wire", in, "wire differs beyond 4000 hex digits", "")
		}
	}
	c.Eq("ws.write.results", in, strings.Join(g.res, ","), mrep["res"])
	// (4) the peer (a real Conn of the opposite role) receives the same sequence
	peerFake := newWsFake(wire)
	peer := ws.VerifNewConn(peerFake, !server, []int{0, 125, 1024}[g.r.Intn(3)], 64, deflate)
	var recv []c13Msg
	var last error
	for {
		t, p, err := peer.ReadMessage()
		if err != nil {
			last = err
			break
		}
		recv = append(recv, c13Msg{t, p})
	}
	okRecv := len(recv) == len(g.msgs)
	for i := 0; okRecv && i < len(recv); i++ {
		okRecv = recv[i].ty == g.msgs[i].ty && bytes.Equal(recv[i].data, g.msgs[i].data)
	}
	wantEnd := "ueof"
	if withClose {
		wantEnd = "close.1000.627965"
	}
	c.Hold(okRecv && wsErrClass(last) == wantEnd, "C13_session.peer_receives", in,
		fmt.Sprintf("%d messages, end=%s", len(recv), wsErrClass(last)), fmt.Sprintf("%d messages, end=%s", len(g.msgs), wantEnd))
	// (5) … and so does the reader MODEL on the same wire (composition used by the C13_session theorem)
	if len(wire) <= 300000 && len(frames) <= 3000 {
		m := kvLine(c.O.Call("ws.read", roleStr(!server), b01(deflate), "0", wireHex))
		mm, bad := modelMsgs(m["msgs"])
		okM := bad < 0 && len(mm) == len(g.msgs)
		for i := 0; okM && i < len(mm); i++ {
			okM = mm[i] == fmt.Sprintf("%d.%s", g.msgs[i].ty, h.Hex(g.msgs[i].data))
		}
		c.Hold(okM && m["err"] == wantEnd, "C13_session.model_reader", in, h.Trunc(fmt.Sprint(len(mm), " ", m["err"]), 200), fmt.Sprint(len(g.msgs), " ", wantEnd))
	}
	maxLen := 0
	for _, m := range g.msgs {
		if len(m.data) > maxLen {
			maxLen = len(m.data)
		}
	}
	c.Case(fmt.Sprintf("session/%s/B=%d/deflate=%s/max=%s/%s", role, B, map[bool]string{false: "off", true: fmt.Sprint(level)}[deflate], sizeClass(maxLen, B), strings.Join(uniq(g.descr), "+")),
		fmt.Sprintf("%s %d %s %s", role, B, b01(deflate), strings.Join(g.ops, " ")), len(g.msgs) > 0)
}

func uniq(xs []string) []string {
	seen := map[string]bool{}
	var out []string
	for _, x := range xs {
		if !seen[x] {
			seen[x] = true
			out = append(out, x)
		}
	}
	return out
}

func sizeClass(n, B int) string {
	switch {
	case n == 0:
		return "0"
	case n <= 125:
		return "le125"
	case n <= B:
		return "leB"
	case n <= 2*(B+14):
		return "le2W"
	case n < 65536:
		return "lt64K"
	case n < 1<<20:
		return "ge64K"
	}
	return "MB"
}

func c13(c *h.Ctx) {
	r := c.R
	bufs := []int{1, 16, 125, 256, 4096}
	// 1. sessions: role x buffer size x compression level x API mix
	n := c.N(260, 8000)
	for i := 0; i < n; i++ {
		B := bufs[i%len(bufs)]
		server := (i/len(bufs))%2 == 0
		deflate := r.Chance(45)
		level := r.Pick(-2, -1, 0, 1, 2, 3, 4, 5, 6, 7, 8, 9)
		c13Session(c, B, server, deflate, level, 1+r.Intn(4), r.Chance(30))
	}
	// 2. single messages at every boundary size, every API, both roles, compression off (the size-dependent
	//    branches of the buffer logic: header space, `extra`, 2*len(writeBuf) threshold)
	for _, B := range c13Bs(c) {
		W := B + 14
		for _, sz := range []int{0, 1, 125, 126, B - 1, B, B + 1, 2 * B, 2*B + 1, 2 * W, 2*W + 1, 65535, 65536} {
			if sz < 0 {
				continue
			}
			for _, server := range []bool{true, false} {
				c13Single(c, B, server, sz)
			}
		}
	}
	// 3. masking: the word-at-a-time path vs cyclic XOR, all alignments and lengths 0..64 (+ a few long ones)
	big := make([]byte, 200)
	for off := 0; off < 16; off++ {
		for ln := 0; ln <= 64; ln++ {
			for pos := 0; pos < 4; pos++ {
				if !c.Thorough() && (off+ln+pos)%3 != 0 {
					continue
				}
				key := [4]byte{byte(r.U64()), byte(r.U64()), byte(r.U64()), byte(r.U64())}
				src := r.Bytes(ln)
				b := big[off : off+ln]
				copy(b, src)
				np := ws.VerifMaskBytes(key, pos, b)
				rep := strings.Fields(c.O.Call("ws.mask", h.Hex(key[:]), fmt.Sprint(pos), h.Hex(src)))
				in := fmt.Sprintf("ws.mask %s %d %s (offset %d)", h.Hex(key[:]), pos, h.Hex(src), off)
				c.Eq("mask", in, h.Hex(b), rep[0])
				c.Hold(rep[0] == rep[1] && rep[1] == rep[2], "mask.model_eq_spec", in, strings.Join(rep, " "), "equal")
				c.Hold(np == (pos+ln)&3, "mask.pos", in, fmt.Sprint(np), fmt.Sprint((pos+ln)&3))
				// involution
				ws.VerifMaskBytes(key, pos, b)
				c.Hold(bytes.Equal(b, src), "mask_involution", in, h.Hex(b), h.Hex(src))
				c.Case("mask", in, ln > 0)
			}
		}
	}
	// 4. truncWriter: any partition; downstream = input minus its last 4 bytes, held = those 4
	nt := c.N(300, 10000)
	for i := 0; i < nt; i++ {
		total := r.Pick(0, 1, 3, 4, 5, 8, 9, 1+r.Intn(60))
		data := r.Bytes(total)
		var parts [][]byte
		rest := data
		for len(rest) > 0 {
			k := 1 + r.Intn(len(rest))
			if r.Bool() && k > 5 {
				k = 1 + r.Intn(5)
			}
			parts = append(parts, rest[:k])
			rest = rest[k:]
			if r.Chance(10) {
				parts = append(parts, []byte{})
			}
		}
		sink := &nopWC{}
		tw := ws.VerifNewTruncWriter(sink)
		for _, p := range parts {
			tw.Write(p)
		}
		in := "ws.trunc " + barHex(parts)
		impl := fmt.Sprintf("down=%s held=%s", h.Hex(sink.b.Bytes()), h.Hex(tw.Held()))
		c.Eq("trunc", in, impl, c.O.Call("ws.trunc", barHex(parts)))
		keep := total - 4
		if keep < 0 {
			keep = 0
		}
		c.Hold(bytes.Equal(sink.b.Bytes(), data[:keep]) && bytes.Equal(tw.Held(), data[keep:]), "trunc_writer", in, impl, "downstream = input minus last 4, held = last 4")
		c.Case("trunc", in, total > 4)
	}
	// 5. opening handshake: real Dial/Upgrade over loopback, both compression settings
	for _, sc := range []bool{false, true} {
		for _, cc := range []bool{false, true} {
			c13Handshake(c, sc, cc, false, 0)
			c13Handshake(c, sc, cc, true, 0)
		}
	}
	// 6. several compressed sessions in one process: whatever the endpoints share behind the scenes (pooled
	// decompressors), a message is received by its own session only. Session A reads one message to the end, then A and
	// B each open a reader and are read in small alternating steps.
	{
		frame := func(data []byte) []byte { // a client frame as a server receives it: FIN, RSV1, binary, masked with a zero key
			z := wsDeflate(data, 6)
			hdr := []byte{0xc2}
			switch {
			case len(z) < 126:
				hdr = append(hdr, 0x80|byte(len(z)))
			case len(z) < 65536:
				hdr = append(hdr, 0x80|126, byte(len(z)>>8), byte(len(z)))
			default:
				hdr = append(hdr, 0x80|127, 0, 0, 0, 0, byte(len(z)>>24), byte(len(z)>>16), byte(len(z)>>8), byte(len(z)))
			}
			return append(append(hdr, 0, 0, 0, 0), z...)
		}
		for round := 0; round < c.N(6, 60); round++ {
			m1, m2, m3 := []byte(strings.Repeat("first-", 20+round)), h.LCGBytes(3000+round*7, uint32(round)), []byte(strings.Repeat("THIRD/", 400+round))
			a := ws.VerifNewConn(newWsFake(append(frame(m1), frame(m2)...)), true, 0, 256, true)
			b := ws.VerifNewConn(newWsFake(frame(m3)), true, 0, 256, true)
			in := fmt.Sprintf("two compressed server sessions, round %d: A reads message 1 whole; A and B open readers for messages 2 and 3 and are read alternately", round)
			res := h.Safe(func() string {
				_, p1, err := a.ReadMessage()
				if err != nil || !bytes.Equal(p1, m1) {
					return fmt.Sprintf("A message 1: %v", err)
				}
				_, ra, err := a.NextReader()
				if err != nil {
					return "A NextReader: " + err.Error()
				}
				_, rb, err := b.NextReader()
				if err != nil {
					return "B NextReader: " + err.Error()
				}
				var ga, gb []byte
				buf := make([]byte, 97)
				for doneA, doneB := false, false; !doneA || !doneB; {
					if !doneA {
						n, err := ra.Read(buf)
						ga = append(ga, buf[:n]...)
						doneA = err != nil
					}
					if !doneB {
						n, err := rb.Read(buf[:61])
						gb = append(gb, buf[:n]...)
						doneB = err != nil
					}
				}
				if !bytes.Equal(ga, m2) || !bytes.Equal(gb, m3) {
					return fmt.Sprintf("A got %d bytes (equal=%v), B got %d bytes (equal=%v)", len(ga), bytes.Equal(ga, m2), len(gb), bytes.Equal(gb, m3))
				}
				return "ok"
			})
			c.Hold(res == "ok", "sessions_do_not_share_state", in, res, "ok")
			c.Case("two-sessions/compressed", in, true)
		}
	}

	// 7. the implicit close: a message writer the application did not close is closed by the next NextWriter /
	// WriteMessage (documented) — with everything that closing means (the final frame, the compressor's flush). The
	// peer receives both messages intact.
	for _, deflate := range []bool{false, true} {
		for _, server := range []bool{false, true} {
			for _, n := range []int{0, 5, 125, 126, 1024, 70000} {
				for next := 0; next < 2; next++ {
					tr := newWsFake(nil)
					conn := ws.VerifNewConn(tr, server, 0, 512, deflate)
					d1, d2 := h.LCGBytes(n, uint32(n+next)), []byte("the message after the unclosed one")
					in := fmt.Sprintf("implicit close role=%s deflate=%v: NextWriter; Write(%d bytes); no Close; then %s", roleStr(server), deflate, n, []string{"WriteMessage", "NextWriter+Write+Close"}[next])
					res := h.Safe(func() string {
						w, err := conn.NextWriter(ws.BinaryMessage)
						if err != nil {
							return "NextWriter: " + err.Error()
						}
						if _, err := w.Write(d1); err != nil {
							return "Write: " + err.Error()
						}
						if next == 0 {
							if err := conn.WriteMessage(ws.TextMessage, d2); err != nil {
								return "WriteMessage: " + err.Error()
							}
						} else {
							w2, err := conn.NextWriter(ws.TextMessage)
							if err != nil {
								return "second NextWriter: " + err.Error()
							}
							w2.Write(d2)
							if err := w2.Close(); err != nil {
								return "Close: " + err.Error()
							}
						}
						peer := ws.VerifNewConn(newWsFake(tr.Written()), !server, 0, 512, deflate)
						t1, p1, e1 := peer.ReadMessage()
						t2, p2, e2 := peer.ReadMessage()
						if e1 != nil || e2 != nil || t1 != ws.BinaryMessage || t2 != ws.TextMessage || !bytes.Equal(p1, d1) || !bytes.Equal(p2, d2) {
							return fmt.Sprintf("peer: message 1 type %d %d bytes err=%v; message 2 type %d %d bytes err=%v", t1, len(p1), e1, t2, len(p2), e2)
						}
						return "ok"
					})
					c.Hold(res == "ok", "peer_receives_same_sequence.implicit_close", in, res, "ok")
					c.Case(fmt.Sprintf("implicit-close/deflate=%v", deflate), in, true)
				}
			}
		}
	}

	// the other two entry points of the opening handshake: NewClient (client side, over a connection the caller
	// dialled) against a compressing and a plain server, and the package-level Upgrade function (server side)
	// against a compressing and a plain client
	for _, other := range []bool{false, true} {
		c13Handshake(c, other, false, false, 1)
		c13Handshake(c, other, false, true, 1)
		c13Handshake(c, false, other, false, 2)
		c13Handshake(c, false, other, true, 2)
	}
	c13WriteInsideRead(c)
	c13StaleDeadline(c)
	c13DeadlineHistories(c)
	// the opening handshake against its model; the JSON entry points
	c13Hs(c)
	c13JSON(c)
}

func c13Bs(c *h.Ctx) []int {
	if c.Thorough() {
		return []int{1, 2, 16, 125, 126, 256, 4096}
	}
	return []int{1, 16, 256}
}

type nopWC struct{ b bytes.Buffer }

func (n *nopWC) Write(p []byte) (int, error) { return n.b.Write(p) }
func (n *nopWC) Close() error                { return nil }

// c13Single: one message of exactly sz bytes through each uncompressed API; wire vs model vs spec.
func c13Single(c *h.Ctx, B int, server bool, sz int) {
	r := c.R
	for api := 0; api < 4; api++ {
		fake := newWsFake(nil)
		conn := ws.VerifNewConn(fake, server, 0, B, false)
		field, data := wsPayload(r, sz)
		var ops []string
		eofData := false
		switch api {
		case 0:
			conn.WriteMessage(ws.BinaryMessage, data)
			ops = []string{"M;2;" + field}
		case 1:
			w, _ := conn.NextWriter(ws.BinaryMessage)
			w.Write(data)
			w.Close()
			ops = []string{"N;2", "W;" + field, "C"}
		case 2:
			w, _ := conn.NextWriter(ws.BinaryMessage)
			io.WriteString(w, string(data))
			w.Close()
			ops = []string{"N;2", "S;" + field, "C"}
		case 3:
			w, _ := conn.NextWriter(ws.BinaryMessage)
			eofData = len(data)%3 != 0
			io.Copy(w, &wsChunkReader{data: data, eofWithData: eofData})
			w.Close()
			ops = []string{"N;2", "R;_;" + field, "C"}
		}
		wire := fake.Written()
		role := roleStr(server)
		in := fmt.Sprintf("ws.write %s %d 0 <keys> %s", role, B, strings.Join(ops, " "))
		rep := c.O.Call("ws.parse", role, "0", h.Hex(wire))
		if !c.Hold(strings.HasPrefix(rep, "ok "), "writer_wellformed.parse", in, h.Trunc(h.Hex(wire), 300), rep) {
			continue
		}
		frames := wsParseFrames(rep[3:])
		var keys []string
		var pl []byte
		shape := true
		for i, f := range frames {
			if f.Masked {
				keys = append(keys, f.Key)
			}
			pl = append(pl, h.UnHex(f.Payload)...)
			wantOp := 0
			if i == 0 {
				wantOp = 2
			}
			shape = shape && f.Op == wantOp && f.Fin == (i == len(frames)-1) && f.Rsv == 0 && f.Masked == !server && f.Form == wsMinForm(int(f.Len))
		}
		c.Hold(shape && len(frames) > 0, "writer_wellformed.shape", in, h.Trunc(rep, 300), "first opcode = type, continuation after, FIN only last, mask per role, minimal length form")
		c.Hold(bytes.Equal(pl, data), "writer_payload", in, fmt.Sprintf("%d payload bytes", len(pl)), fmt.Sprintf("%d written", len(data)))
		keyArg := "_"
		if len(keys) > 0 {
			keyArg = strings.Join(keys, ",")
		}
		m := kvLine(c.O.Call(append([]string{"ws.write", role, fmt.Sprint(B), "0", keyArg}, ops...)...))
		if !eofData {
			c.Eq("ws.write.wire", in, h.Trunc(h.Hex(wire), 2000), h.Trunc(m["wire"], 2000))
			c.Hold(h.Hex(wire) == m["wire"], "ws.write.wire.full", in, "differs", "equal")
		}
		c.Case(fmt.Sprintf("single/%s/B=%d/api=%d/frames=%d", role, B, api, min(len(frames), 4)), in+fmt.Sprint(sz), true)
	}
}

// ---- handshake over loopback ----

type recConn struct {
	net.Conn
	mu      sync.Mutex
	wr, rd  bytes.Buffer
	markedW int
	markedR int
	// delayFirstRead: wait before the first Read so that the server's 101 response AND the frames it sends
	// right after Upgrade are delivered by one transport read (a server that speaks first)
	delayFirstRead time.Duration
	readOnce       sync.Once
}

func (c *recConn) Write(p []byte) (int, error) {
	n, err := c.Conn.Write(p)
	c.mu.Lock()
	c.wr.Write(p[:n])
	c.mu.Unlock()
	return n, err
}
func (c *recConn) Read(p []byte) (int, error) {
	c.readOnce.Do(func() { time.Sleep(c.delayFirstRead) })
	n, err := c.Conn.Read(p)
	c.mu.Lock()
	c.rd.Write(p[:n])
	c.mu.Unlock()
	return n, err
}

// via: 0 = Upgrader.Upgrade + Dialer.Dial; 1 = the client goes through NewClient over a connection it dialled
// itself (no compression offer); 2 = the server goes through the package-level Upgrade function (no compression).
func c13Handshake(c *h.Ctx, serverCompress, clientCompress, serverFirst bool, via int) {
	if via == 1 {
		clientCompress = false
	}
	if via == 2 {
		serverCompress = false
	}
	in := fmt.Sprintf("handshake serverCompression=%v clientCompression=%v serverSpeaksFirst=%v via=%s", serverCompress, clientCompress, serverFirst,
		[]string{"Upgrader+Dialer", "Upgrader+NewClient", "Upgrade()+Dialer"}[via])
	res := h.Safe(func() string {
		ln, err := net.Listen("tcp", "127.0.0.1:0")
		if err != nil {
			return "listen: " + err.Error()
		}
		defer ln.Close()
		type srvOut struct {
			msgs []c13Msg
			err  string
		}
		done := make(chan srvOut, 1)
		toSend := []c13Msg{{1, []byte("hello from the server")}, {2, h.LCGBytes(70000, 7)}, {1, []byte{}}}
		fromClient := []c13Msg{{2, h.LCGBytes(300, 3)}, {1, []byte(strings.Repeat("abc", 3000))}, {1, []byte("x")}}
		up := ws.Upgrader{EnableCompression: serverCompress, ReadBufferSize: 256, WriteBufferSize: 256,
			CheckOrigin: func(*http.Request) bool { return true }}
		srv := &http.Server{Handler: http.HandlerFunc(func(w http.ResponseWriter, req *http.Request) {
			var conn *ws.Conn
			var err error
			if via == 2 {
				conn, err = ws.Upgrade(w, req, nil, 256, 256)
			} else {
				conn, err = up.Upgrade(w, req, nil)
			}
			if err != nil {
				done <- srvOut{err: "upgrade: " + err.Error()}
				return
			}
			defer conn.Close()
			var out srvOut
			readAll := func() {
				for range fromClient {
					t, p, err := conn.ReadMessage()
					if err != nil {
						out.err = "server read: " + err.Error()
						break
					}
					out.msgs = append(out.msgs, c13Msg{t, p})
				}
			}
			writeAll := func() {
				for _, m := range toSend {
					if err := conn.WriteMessage(m.ty, m.data); err != nil {
						out.err = "server write: " + err.Error()
					}
				}
			}
			if serverFirst {
				writeAll() // immediately after Upgrade: may share a TCP segment / transport read with the 101 response
				readAll()
			} else {
				readAll()
				writeAll()
			}
			conn.WriteControl(ws.CloseMessage, ws.FormatCloseMessage(1000, ""), time.Now().Add(time.Second))
			// wait for the client's close echo so that everything is on the wire before the recording is read
			conn.SetReadDeadline(time.Now().Add(2 * time.Second))
			conn.ReadMessage()
			done <- out
		})}
		go srv.Serve(ln)
		defer srv.Close()

		var rc *recConn
		d := ws.Dialer{EnableCompression: clientCompress, ReadBufferSize: 512, WriteBufferSize: 128,
			NetDial: func(network, addr string) (net.Conn, error) {
				nc, err := net.DialTimeout(network, addr, 2*time.Second)
				if err != nil {
					return nil, err
				}
				rc = &recConn{Conn: nc}
				if serverFirst {
					rc.delayFirstRead = 60 * time.Millisecond
				}
				return rc, nil
			}}
		var conn *ws.Conn
		var resp *http.Response
		if via == 1 {
			nc, derr := d.NetDial("tcp", ln.Addr().String())
			if derr != nil {
				return "dial: " + derr.Error()
			}
			u, _ := url.Parse("ws://" + ln.Addr().String() + "/")
			conn, resp, err = ws.NewClient(nc, u, nil, 512, 128)
		} else {
			conn, resp, err = d.Dial("ws://"+ln.Addr().String()+"/", nil)
		}
		if err != nil {
			return "dial: " + err.Error()
		}
		defer conn.Close()
		rc.mu.Lock()
		rc.markedW, rc.markedR = rc.wr.Len(), rc.rd.Len()
		reqText, respText := rc.wr.String(), rc.rd.String()
		if i := strings.Index(respText, "\r\n\r\n"); serverFirst && i >= 0 {
			// frames may already have arrived with the response: the frame stream starts right after the header block
			rc.markedR = i + 4
			respText = respText[:i+4]
		}
		rc.mu.Unlock()
		negotiated := strings.Contains(strings.ToLower(resp.Header.Get("Sec-Websocket-Extensions")), "permessage-deflate")
		c.Hold(negotiated == (serverCompress && clientCompress), "handshake.extension_negotiation", in, fmt.Sprint(negotiated), fmt.Sprint(serverCompress && clientCompress))
		c.Hold(strings.HasSuffix(reqText, "\r\n\r\n") && strings.HasSuffix(respText, "\r\n\r\n") && strings.HasPrefix(respText, "HTTP/1.1 101 "),
			"handshake.http_exchange", in, h.Trunc(respText, 120), "101 response, nothing after the header block")
		var got []c13Msg
		var last error
		conn.SetReadDeadline(time.Now().Add(3 * time.Second))
		if serverFirst {
			for range toSend {
				t, p, err := conn.ReadMessage()
				if err != nil {
					return "client read (server speaks first): " + err.Error()
				}
				got = append(got, c13Msg{t, p})
			}
		}
		for _, m := range fromClient {
			if err := conn.WriteMessage(m.ty, m.data); err != nil {
				return "client write: " + err.Error()
			}
		}
		for {
			t, p, err := conn.ReadMessage()
			if err != nil {
				last = err
				break
			}
			got = append(got, c13Msg{t, p})
		}
		so := <-done
		same := func(a, b []c13Msg) bool {
			if len(a) != len(b) {
				return false
			}
			for i := range a {
				if a[i].ty != b[i].ty || !bytes.Equal(a[i].data, b[i].data) {
					return false
				}
			}
			return true
		}
		c.Hold(so.err == "" && same(so.msgs, fromClient), "handshake.client_to_server_messages", in, fmt.Sprintf("%d msgs err=%q", len(so.msgs), so.err), "3 messages intact")
		c.Hold(same(got, toSend) && wsErrClass(last) == "close.1000.-", "handshake.server_to_client_messages", in, fmt.Sprintf("%d msgs end=%s", len(got), wsErrClass(last)), "3 messages intact, close 1000")
		rc.mu.Lock()
		c2s := append([]byte(nil), rc.wr.Bytes()[rc.markedW:]...)
		s2c := append([]byte(nil), rc.rd.Bytes()[rc.markedR:]...)
		rc.mu.Unlock()
		r1 := c.O.Call("ws.parse", "c", b01(negotiated), h.Hex(c2s))
		c.Hold(strings.HasPrefix(r1, "ok "), "handshake.client_wire_valid", in, h.Trunc(h.Hex(c2s), 200), h.Trunc(r1, 200))
		r2 := c.O.Call("ws.parse", "s", b01(negotiated), h.Hex(s2c))
		c.Hold(strings.HasPrefix(r2, "ok "), "handshake.server_wire_valid", in, h.Trunc(h.Hex(s2c), 200), h.Trunc(r2, 200))
		if negotiated && strings.HasPrefix(r2, "ok ") {
			z := false
			for _, f := range wsParseFrames(r2[3:]) {
				z = z || f.Rsv == 4
			}
			c.Hold(z, "handshake.compressed_frames_present", in, "no RSV1 frame", "RSV1 on data messages after negotiation")
		}
		return "ok"
	})
	c.Hold(res == "ok", "handshake.completed", in, res, "ok")
	c.Case("handshake/"+in, in, true)
}

// c13HookConn delivers in[:k], runs hook once from inside the Read call that would deliver in[k], then the rest.
type c13HookConn struct {
	wsFake
	in   []byte
	pos  int
	k    int
	hook func()
	done bool
}

func (c *c13HookConn) Read(p []byte) (int, error) {
	if c.pos == c.k && !c.done {
		c.done = true
		c.hook()
	}
	if c.pos >= len(c.in) {
		return 0, io.EOF
	}
	end := len(c.in)
	if c.pos < c.k {
		end = c.k
	}
	n := copy(p, c.in[c.pos:end])
	c.pos += n
	return n, nil
}

// c13WriteInsideRead: an endpoint that writes while one of its reads is in progress (the documented use: one reading
// and one writing goroutine). The transport delivers the peer's frames up to offset k — inside a frame header, a
// masking key, a payload, a fragmented or compressed message — and before it delivers the rest the endpoint writes
// messages of its own. What it reads is what the peer sent; what it writes is what an endpoint that only writes puts
// on the wire.
// c13StaleDeadline: the write deadline of the transport is shared by the data path and the control path (the pong the
// library sends by itself, WriteControl, the close reply). A data message written LATER, with the connection's default
// (no) write deadline or with a new one, is delivered on a healthy transport whatever deadline a control frame had armed.
func c13StaleDeadline(c *h.Ctx) {
	for _, server := range []bool{false, true} {
		for ctl := 0; ctl < 4; ctl++ {
			for wr := 0; wr < 5; wr++ {
				peerT := newWsFake(nil)
				peer := ws.VerifNewConn(peerT, !server, 0, 256, false)
				peer.WriteControl(ws.PingMessage, []byte("are-you-there"), time.Now().Add(time.Hour))
				peer.WriteMessage(ws.TextMessage, []byte("hello"))
				tr := newWsFake(peerT.Written())
				conn := ws.VerifNewConn(tr, server, 0, 256, false)
				ctlName := []string{"a ping was received (the library answered with a pong by itself)", "the application sent a ping with WriteControl (deadline in one second)",
					"the application set a write deadline of one second, wrote a message, and cleared the deadline", "the application sent a pong with WriteControl (deadline in two seconds)"}[ctl]
				wrName := []string{"WriteMessage", "NextWriter+Write+Close", "WritePreparedMessage", "WriteJSON", "WriteMessage of 70000 bytes"}[wr]
				in := fmt.Sprintf("server=%v: %s; fifty seconds pass; then %s with no write deadline", server, ctlName, wrName)
				payload := []byte("later-message")
				if wr == 4 {
					payload = h.LCGBytes(70000, 9)
				}
				res := h.Safe(func() string {
					switch ctl {
					case 0:
						if _, p, err := conn.ReadMessage(); err != nil || string(p) != "hello" {
							return fmt.Sprintf("reading: %v", err)
						}
					case 1:
						if err := conn.WriteControl(ws.PingMessage, []byte("p"), time.Now().Add(time.Second)); err != nil {
							return "WriteControl: " + err.Error()
						}
					case 2:
						conn.SetWriteDeadline(time.Now().Add(time.Second))
						if err := conn.WriteMessage(ws.BinaryMessage, []byte{1, 2, 3}); err != nil {
							return "first WriteMessage: " + err.Error()
						}
						conn.SetWriteDeadline(time.Time{})
					case 3:
						if err := conn.WriteControl(ws.PongMessage, []byte("p"), time.Now().Add(2*time.Second)); err != nil {
							return "WriteControl: " + err.Error()
						}
					}
					tr.Advance(50 * time.Second)
					var err error
					switch wr {
					case 0, 4:
						err = conn.WriteMessage(ws.BinaryMessage, payload)
					case 1:
						var w io.WriteCloser
						if w, err = conn.NextWriter(ws.BinaryMessage); err == nil {
							if _, err = w.Write(payload); err == nil {
								err = w.Close()
							}
						}
					case 2:
						var pm *ws.PreparedMessage
						if pm, err = ws.NewPreparedMessage(ws.BinaryMessage, payload); err == nil {
							err = conn.WritePreparedMessage(pm)
						}
					case 3:
						err = conn.WriteJSON(string(payload))
						payload = []byte("\"later-message\"\n")
					}
					if err != nil {
						return "the later write failed: " + err.Error()
					}
					// the peer receives it
					back := ws.VerifNewConn(newWsFake(tr.Written()), !server, 0, 256, false)
					for i := 0; i < 4; i++ {
						_, p, err := back.ReadMessage()
						if err != nil {
							return "the peer does not receive the later message: " + err.Error()
						}
						if bytes.Equal(p, payload) {
							return "ok"
						}
					}
					return "the peer does not receive the later message"
				})
				c.Hold(res == "ok", "write_after_control_deadline", in, res, "ok")
				c.Case("stale-deadline", in, true)
			}
		}
	}
}

// c13DeadlineHistories: random histories of data writes (under the connection's write deadline of the moment: none, not
// yet passed, passed), control writes (each under the deadline of its call) and time passing, on a transport that
// enforces its write deadline like a net.Conn; the transport may start with a stale deadline armed. Outcomes and wire
// against the model (Model.WsDeadline under the fact read from conn.go) and against the specification in which a write
// depends on its own deadline only (Props.C13.ws_deadline_own). Model time: half seconds; "now" is even, deadlines odd.
func c13DeadlineHistories(c *h.Ctx) {
	r := c.R.Fork()
	for round := 0; round < c.N(150, 3000); round++ {
		server := r.Bool()
		tr := newWsFake(nil)
		conn := ws.VerifNewConn(tr, server, 0, 256, false)
		base := time.Now().Add(-100 * time.Second) // one unit of model time is ten seconds: generous against a stalled run
		at := func(d int) time.Time { return base.Add(time.Duration(d)*10*time.Second + 5*time.Second) }
		t := 10
		armed := "n"
		if r.Chance(40) {
			tr.SetWriteDeadline(at(0))
			armed = "1"
		}
		connDl := "n"
		var ops, desc []string
		var got []string
		id := 0
		for k := 1 + r.Intn(8); k > 0; k-- {
			switch r.Intn(5) {
			case 0:
				adv := r.Pick(2, 5)
				t += adv
				tr.Advance(time.Duration(adv) * 10 * time.Second)
				desc = append(desc, fmt.Sprintf("%d0 s pass", adv))
			case 1:
				switch r.Intn(3) {
				case 0:
					conn.SetWriteDeadline(time.Time{})
					connDl = "n"
					desc = append(desc, "SetWriteDeadline(none)")
				case 1:
					conn.SetWriteDeadline(at(t + 3))
					connDl = fmt.Sprint(2*(t+3) + 1)
					desc = append(desc, "SetWriteDeadline(now+35s)")
				default:
					conn.SetWriteDeadline(at(t - 1))
					connDl = fmt.Sprint(2*(t-1) + 1)
					desc = append(desc, "SetWriteDeadline(now-5s)")
				}
			case 2, 3:
				id++
				var err error
				way := r.Intn(3)
				res := h.Safe(func() string {
					switch way {
					case 0:
						err = conn.WriteMessage(ws.BinaryMessage, []byte{byte(id)})
					case 1:
						var w io.WriteCloser
						if w, err = conn.NextWriter(ws.BinaryMessage); err == nil {
							if _, err = w.Write([]byte{byte(id)}); err == nil {
								err = w.Close()
							}
						}
					default:
						var pm *ws.PreparedMessage
						if pm, err = ws.NewPreparedMessage(ws.BinaryMessage, []byte{byte(id)}); err == nil {
							err = conn.WritePreparedMessage(pm)
						}
					}
					return "ok"
				})
				ops = append(ops, fmt.Sprintf("d.%d.%s.%d", 2*t, connDl, id))
				desc = append(desc, fmt.Sprintf("data #%d (way %d)", id, way))
				got = append(got, b01(res == "ok" && err == nil))
			default:
				id++
				dl, dlS, dlD := time.Time{}, "n", "no deadline"
				switch r.Intn(3) {
				case 1:
					dl, dlS, dlD = at(t+1), fmt.Sprint(2*(t+1)+1), "deadline now+15s"
				case 2:
					dl, dlS, dlD = time.Now().Add(-time.Hour), "1", "deadline long past"
				}
				var err error
				res := h.Safe(func() string {
					err = conn.WriteControl(r.Pick(ws.PingMessage, ws.PongMessage), []byte{byte(id)}, dl)
					return "ok"
				})
				ops = append(ops, fmt.Sprintf("c.%d.%s.%d", 2*t, dlS, id))
				desc = append(desc, fmt.Sprintf("control #%d (%s)", id, dlD))
				got = append(got, b01(res == "ok" && err == nil))
			}
		}
		opsArg := "_"
		if len(ops) > 0 {
			opsArg = strings.Join(ops, ",")
		}
		var ids []string
		rep := c.O.Call("ws.parse", roleStr(server), "0", h.Hex(tr.Written()))
		if strings.HasPrefix(rep, "ok ") {
			for _, f := range wsParseFrames(rep[3:]) {
				if b := h.UnHex(f.Payload); len(b) == 1 {
					ids = append(ids, fmt.Sprint(b[0]))
				} else {
					ids = append(ids, "?")
				}
			}
		} else {
			ids = []string{"unparsed:" + rep}
		}
		impl := strings.Join(got, "") + " " + strings.Join(ids, " ")
		in := fmt.Sprintf("hs.deadline %s %s  (server=%v, transport starts with a stale deadline armed: %v; %s)", armed, opsArg, server, armed != "n", strings.Join(desc, "; "))
		both := strings.SplitN(c.O.Call("hs.deadline", armed, opsArg), "|", 2)
		if len(both) != 2 {
			both = []string{both[0], "?"}
		}
		c.Eq("hs.deadline", in, impl, both[0])
		c.Hold(impl == both[1], "deadline.history", in, impl, both[1])
		c.Case(fmt.Sprintf("deadline-history/ops=%d,stale=%v,failures=%v", len(ops), armed != "n", strings.Contains(strings.Join(got, ""), "0")), in, len(ops) > 0)
	}
}

func c13WriteInsideRead(c *h.Ctx) {
	for _, deflate := range []bool{false, true} {
		for _, server := range []bool{false, true} {
			// the peer's messages, written by a real peer connection: a short text, a fragmented binary message (buffer 64),
			// a ping between them, an empty message, a 70000-byte message
			peerT := newWsFake(nil)
			peer := ws.VerifNewConn(peerT, !server, 0, 64, deflate)
			peerMsgs := []c13Msg{{1, []byte("hello")}, {2, h.LCGBytes(300, 5)}, {1, []byte{}}, {2, h.LCGBytes(70000, 6)}, {1, []byte("bye")}}
			for i, m := range peerMsgs {
				if i == 1 || i == 3 {
					// a fragmented message with control frames BETWEEN its fragments (RFC 6455 5.4): the peer pings and
					// pongs while its message writer is open
					w, _ := peer.NextWriter(m.ty)
					w.Write(m.data[:len(m.data)/3])
					peer.WriteControl(ws.PingMessage, []byte("p"), time.Now().Add(time.Second))
					w.Write(m.data[len(m.data)/3 : 2*len(m.data)/3])
					peer.WriteControl(ws.PongMessage, []byte("unsolicited"), time.Now().Add(time.Second))
					w.Write(m.data[2*len(m.data)/3:])
					w.Close()
					continue
				}
				peer.WriteMessage(m.ty, m.data)
			}
			in := peerT.Written()
			write := func(conn *ws.Conn) string {
				return h.Safe(func() string {
					if err := conn.WriteMessage(ws.BinaryMessage, h.LCGBytes(200, 9)); err != nil {
						return "WriteMessage: " + err.Error()
					}
					w, err := conn.NextWriter(ws.TextMessage)
					if err != nil {
						return "NextWriter: " + err.Error()
					}
					w.Write([]byte(strings.Repeat("ab", 100)))
					w.Write([]byte("c"))
					if err := w.Close(); err != nil {
						return "Close: " + err.Error()
					}
					return "ok"
				})
			}
			// what an endpoint that only writes puts on the wire (plus the pong the reader sends for the peer's ping);
			// client frames carry random masking keys, so the written wire is compared after unmasking: parsed frames
			refT := newWsFake(nil)
			ref := ws.VerifNewConn(refT, server, 0, 128, deflate)
			write(ref)
			refFrames := c.O.Call("ws.parse", roleStr(server), b01(deflate), h.Hex(refT.Written()))
			strip := func(rep string) string { // frames without their masking keys
				if !strings.HasPrefix(rep, "ok ") {
					return rep
				}
				var out []string
				for _, f := range wsParseFrames(rep[3:]) {
					f.Key = ""
					out = append(out, f.String())
				}
				return strings.Join(out, ",")
			}
			n := len(in)
			var ks []int
			for k := 1; k < n; k++ {
				if k < 40 || (c.Thorough() && k < 1200) || k%997 == 0 || (k > n-40) {
					ks = append(ks, k)
				}
			}
			for _, k := range ks {
				hc := &c13HookConn{in: in, k: k}
				conn := ws.VerifNewConn(hc, server, 0, 128, deflate)
				var wst string
				hc.hook = func() { wst = write(conn) }
				var got []c13Msg
				rst := h.Safe(func() string {
					for range peerMsgs {
						t, p, err := conn.ReadMessage()
						if err != nil {
							return "read: " + err.Error()
						}
						got = append(got, c13Msg{t, p})
					}
					return "ok"
				})
				same := len(got) == len(peerMsgs)
				for i := 0; same && i < len(got); i++ {
					same = got[i].ty == peerMsgs[i].ty && bytes.Equal(got[i].data, peerMsgs[i].data)
				}
				desc := fmt.Sprintf("role=%s deflate=%v: the endpoint writes two messages after the transport delivered the first %d of %d bytes of the peer's frames and before it delivers the rest", roleStr(server), deflate, k, n)
				c.Hold(rst == "ok" && same, "peer_receives_same_sequence.write_inside_read", desc, fmt.Sprintf("%s, %d messages", rst, len(got)), "the peer's 5 messages intact")
				// the wire this endpoint wrote: the pong for the peer's ping may come before, between or after its own messages
				// depending on k — drop control frames, compare the data frames with the write-only endpoint's
				data := func(rep string) string {
					if !strings.HasPrefix(rep, "ok ") && !strings.Contains(rep, ".") {
						return rep
					}
					var out []string
					for _, f := range strings.Split(rep, ",") {
						if parts := strings.Split(f, "."); len(parts) > 2 && (parts[2] == "9" || parts[2] == "10") {
							continue
						}
						out = append(out, f)
					}
					return strings.Join(out, ",")
				}
				gotFrames := c.O.Call("ws.parse", roleStr(server), b01(deflate), h.Hex(hc.Written()))
				c.Hold(wst == "ok" && strings.HasPrefix(gotFrames, "ok ") && data(strip(gotFrames)) == data(strip(refFrames)), "writer_wellformed.write_inside_read", desc,
					wst+" "+h.Trunc(strip(gotFrames), 300), "ok "+h.Trunc(strip(refFrames), 300))
				c.Case(fmt.Sprintf("write-inside-read/%s/deflate=%v", roleStr(server), deflate), fmt.Sprint(k), true)
			}
		}
	}
}
