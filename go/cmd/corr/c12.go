package main

// C12 — AVC records, samples, NAL units: implementation vs Lean model vs ISO spec writer.

import (
	"bytes"
	"fmt"
	"strings"

	"github.com/ossrs/go-oryx-lib/avc"
	"verifharness/internal/h"
)

func init() { register("C12", c12) }

func naluStr(n *avc.NALU) string {
	return fmt.Sprintf("%d.%d.%s", uint8(n.NALRefIDC), uint8(n.NALUType), h.Hex(n.Data))
}
func nalusStr(ns []*avc.NALU) string {
	if len(ns) == 0 {
		return "_"
	}
	parts := make([]string, len(ns))
	for i, n := range ns {
		parts[i] = naluStr(n)
	}
	return strings.Join(parts, ",")
}
func mkNalu(r, t uint8, d []byte) *avc.NALU {
	n := avc.NewNALU()
	n.NALRefIDC, n.NALUType, n.Data = avc.NALRefIDC(r), avc.NALUType(t), d
	return n
}

func genNaluData(r *h.Rand, max int) []byte {
	var n int
	switch r.Intn(8) {
	case 0:
		n = 0
	case 1:
		n = r.Pick(254, 255, 256)
	case 2:
		n = r.Pick(65533, 65534)
	default:
		n = r.Intn(40)
	}
	if n > max {
		n = max
	}
	return r.Bytes(n)
}

// Long-lived values that every decode of this run is repeated into: a REUSED NAL unit, record or sample must come out
// exactly as a fresh one (F30: a reused sample or record accumulated the NAL units of earlier decodes).
var (
	avcReNalu   = avc.NewNALU()
	avcReRec    = avc.NewAVCDecoderConfigurationRecord()
	avcReSample = map[int]*avc.AVCSample{}
	avcReuseBad [][3]string
)

func avcReuseNote(what string, b []byte, fresh, reused string) {
	if fresh != reused && len(avcReuseBad) < 3 {
		avcReuseBad = append(avcReuseBad, [3]string{what + " " + h.Trunc(h.Hex(b), 300) + " decoded into a value that earlier decodes had filled", h.Trunc(reused, 400), h.Trunc(fresh, 400)})
	}
}

func avcReuseReport(c *h.Ctx) {
	for _, m := range avcReuseBad {
		c.Hold(false, "decode.reused_value_equals_fresh", m[0], m[1], m[2])
	}
	avcReuseBad = nil
}

func avcNaluDec(b []byte) string {
	dec := func(n *avc.NALU) string {
		return h.Safe(func() string {
			if err := n.UnmarshalBinary(b); err != nil {
				return "err"
			}
			return "ok " + naluStr(n)
		})
	}
	fresh := dec(avc.NewNALU())
	avcReuseNote("NAL unit", b, fresh, dec(avcReNalu))
	return fresh
}

func avcRecStr(r *avc.AVCDecoderConfigurationRecord) string {
	v, c := avc.VerifRecordPrivate(r)
	return fmt.Sprintf("ok %d %d %d %d %d %s %s", v, uint16(r.AVCProfileIndication), c,
		uint8(r.AVCLevelIndication), r.LengthSizeMinusOne, nalusStr(r.SequenceParameterSetNALUnits), nalusStr(r.PictureParameterSetNALUnits))
}

func avcRecDec(b []byte) (string, *avc.AVCDecoderConfigurationRecord) {
	var rec *avc.AVCDecoderConfigurationRecord
	s := h.Safe(func() string {
		r := avc.NewAVCDecoderConfigurationRecord()
		if err := r.UnmarshalBinary(b); err != nil {
			return "err"
		}
		rec = r
		return avcRecStr(r)
	})
	re := h.Safe(func() string {
		if err := avcReRec.UnmarshalBinary(b); err != nil {
			return "err"
		}
		return avcRecStr(avcReRec)
	})
	avcReuseNote("configuration record", b, s, re)
	return s, rec
}

func avcSampleDec(n int, b []byte) string {
	dec := func(s *avc.AVCSample) string {
		return h.Safe(func() string {
			if err := s.UnmarshalBinary(b); err != nil {
				return "err"
			}
			return "ok " + nalusStr(s.NALUs)
		})
	}
	fresh := dec(avc.NewAVCSample(uint8(n - 1)))
	if avcReSample[n] == nil {
		avcReSample[n] = avc.NewAVCSample(uint8(n - 1))
	}
	avcReuseNote(fmt.Sprintf("sample (length size %d)", n), b, fresh, dec(avcReSample[n]))
	return fresh
}

func c12(c *h.Ctx) {
	r := c.R
	defer avcReuseReport(c)
	defer keptCheck(c, "marshal.bytes_not_aliased")
	// 1. all 256 NAL header bytes, exhaustively, with two payload shapes.
	for b := 0; b < 256; b++ {
		for _, tail := range [][]byte{nil, {0xaa, 0xbb}} {
			bs := append([]byte{byte(b)}, tail...)
			in := "avc.nalu.dec " + h.Hex(bs)
			impl := avcNaluDec(bs)
			c.Eq("nalu.dec", in, impl, c.O.Call("avc.nalu.dec", h.Hex(bs)))
			c.Case("nalu/header-exhaustive", in, true)
			// property: canonical (forbidden bit 0) header re-marshals to itself
			if b < 128 {
				n := avc.NewNALU()
				n.UnmarshalBinary(bs)
				out, _ := n.MarshalBinary()
				c.Hold(h.Hex(out) == h.Hex(bs), "nalu.canonical_rt", in, h.Hex(out), h.Hex(bs))
			}
		}
	}
	c.Eq("nalu.dec", "avc.nalu.dec -", avcNaluDec(nil), c.O.Call("avc.nalu.dec", "-"))

	// 1b. parsed values belong to the caller: the application EDITS the exported header fields of a NAL unit it
	// parsed (re-tagging a unit, clearing nal_ref_idc) — every other NAL unit already parsed from the same header
	// byte, and every later parse of that byte (alone, inside a record, inside a sample), must be unaffected
	for b := 0; b < 128; b++ {
		bs := []byte{byte(b), 0xaa, 0xbb}
		first, keep := avc.NewNALU(), avc.NewNALU()
		e1, e2 := first.UnmarshalBinary(bs), keep.UnmarshalBinary(bs)
		if e1 != nil || e2 != nil || first.NALUHeader == nil {
			continue
		}
		first.NALRefIDC = avc.NALRefIDC((int(first.NALRefIDC) + 1) % 4)
		first.NALUType = avc.NALUType((int(first.NALUType) + 7) % 32)
		later := avc.NewNALU()
		later.UnmarshalBinary(bs)
		in := fmt.Sprintf("avc.nalu: parse %s twice, edit the header fields of the first, parse again", h.Hex(bs))
		o1, _ := keep.MarshalBinary()
		o2, _ := later.MarshalBinary()
		c.Hold(h.Hex(o1) == h.Hex(bs) && h.Hex(o2) == h.Hex(bs), "nalu.parsed_values_are_independent", in, h.Hex(o1)+" / "+h.Hex(o2), h.Hex(bs)+" / "+h.Hex(bs))
		sd := avcSampleDec(4, append([]byte{0, 0, 0, 3}, bs...))
		c.Eq("sample.dec", "avc.sample.dec 4 00000003"+h.Hex(bs)+" (after edits of parsed units)", sd, c.O.Call("avc.sample.dec", "4", "00000003"+h.Hex(bs)))
		c.Case("nalu/parsed-then-edited", in, true)
	}

	// 2. NALU round trip + spec, all in-range header values.
	for ri := 0; ri < 4; ri++ {
		for ty := 0; ty < 32; ty++ {
			d := genNaluData(r, 70000)
			n := mkNalu(uint8(ri), uint8(ty), d)
			out, err := n.MarshalBinary()
			keep("NAL unit", out)
			in := "avc.nalu.enc " + naluStr(n)
			c.Hold(err == nil, "nalu.marshal_ok", in, fmt.Sprint(err), "nil")
			c.Eq("nalu.enc", in, h.Hex(out), c.O.Call("avc.nalu.enc", naluStr(n)))
			c.Hold(h.Hex(out) == c.O.Call("avc.nalu.spec", fmt.Sprint(ri), fmt.Sprint(ty), h.Hex(d)), "nalu.is_spec", in, h.Hex(out), "spec")
			c.Hold(avcNaluDec(out) == "ok "+naluStr(n), "nalu.roundtrip", in, avcNaluDec(out), "ok "+naluStr(n))
			c.Hold(len(out) == n.Size(), "nalu.size", in, fmt.Sprint(len(out)), fmt.Sprint(n.Size()))
			c.Case("nalu/roundtrip", in, true)
		}
	}

	// 3. records.
	nrec := c.N(300, 6000)
	for i := 0; i < nrec; i++ {
		var nsps, npps int
		switch r.Intn(6) {
		case 0:
			nsps, npps = 31, r.Pick(0, 1, 255)
		case 1:
			nsps, npps = 0, 0
		default:
			nsps, npps = r.Intn(4), r.Intn(4)
		}
		big := r.Chance(10)
		mk := func(k int) []*avc.NALU {
			var ns []*avc.NALU
			for j := 0; j < k; j++ {
				max := 40
				if big && j == 0 {
					max = 65534
				}
				// parameter sets may repeat: equal to the one before it, equal to an earlier one, header-only
				switch {
				case j > 0 && r.Chance(20):
					prev := ns[len(ns)-1]
					ns = append(ns, mkNalu(uint8(prev.NALRefIDC), uint8(prev.NALUType), append([]byte(nil), prev.Data...)))
				case j > 1 && r.Chance(10):
					first := ns[0]
					ns = append(ns, mkNalu(uint8(first.NALRefIDC), uint8(first.NALUType), append([]byte(nil), first.Data...)))
				case r.Chance(8):
					ns = append(ns, mkNalu(uint8(r.Intn(4)), uint8(r.Intn(32)), nil))
				default:
					ns = append(ns, mkNalu(uint8(r.Intn(4)), uint8(r.Intn(32)), genNaluData(r, max)))
				}
			}
			return ns
		}
		rec := avc.NewAVCDecoderConfigurationRecord()
		rec.AVCProfileIndication = avc.AVCProfile(r.Intn(256))
		if r.Chance(35) {
			rec.AVCProfileIndication = avc.AVCProfile(r.Pick(66, 77, 88, 100, 110, 122, 144, 244, 44))
		}
		rec.AVCLevelIndication = avc.AVCLevel(r.Intn(256))
		rec.LengthSizeMinusOne = uint8(r.Intn(4))
		compat := uint8(r.Intn(256))
		avc.VerifSetCompat(rec, compat)
		rec.SequenceParameterSetNALUnits = mk(nsps)
		rec.PictureParameterSetNALUnits = mk(npps)
		fields := fmt.Sprintf("1 %d %d %d %d %s %s", uint16(rec.AVCProfileIndication), compat, uint8(rec.AVCLevelIndication),
			rec.LengthSizeMinusOne, nalusStr(rec.SequenceParameterSetNALUnits), nalusStr(rec.PictureParameterSetNALUnits))
		in := "avc.rec.enc " + fields
		out, err := rec.MarshalBinary()
		keep("configuration record", out)
		c.Hold(err == nil, "rec.marshal_ok", in, fmt.Sprint(err), "nil")
		c.Eq("rec.enc", in, h.Hex(out), c.O.Call(strings.Fields(in)...))
		// property: byte for byte the ISO layout (independent writer in Lean Spec; NAL units as raw bytes)
		raws := func(ns []*avc.NALU) string {
			if len(ns) == 0 {
				return "_"
			}
			var ps []string
			for _, n := range ns {
				ps = append(ps, c.O.Call("avc.nalu.spec", fmt.Sprint(uint8(n.NALRefIDC)), fmt.Sprint(uint8(n.NALUType)), h.Hex(n.Data)))
			}
			return strings.Join(ps, ",")
		}
		prof := fmt.Sprint(uint16(rec.AVCProfileIndication))
		needsExt := c.O.Call("avc.needsext", prof) == "1"
		// a conformant writer appends the High-profile block exactly for profile_idc 100/110/122/144 (2012 edition)
		ext := "-"
		if needsExt {
			ext = fmt.Sprintf("%d.%d.%d._", r.Intn(4), r.Intn(8), r.Intn(8))
			if r.Chance(30) {
				ext = fmt.Sprintf("%d.%d.%d.%s", r.Intn(4), r.Intn(8), r.Intn(8), h.Hex(append([]byte{0x6d}, r.Bytes(r.Intn(5))...)))
			}
		}
		spec := c.O.Call("avc.rec.spec2", prof, fmt.Sprint(compat), fmt.Sprint(uint8(rec.AVCLevelIndication)),
			fmt.Sprint(rec.LengthSizeMinusOne), raws(rec.SequenceParameterSetNALUnits), raws(rec.PictureParameterSetNALUnits), ext)
		if needsExt {
			// known finding K6: the library does not write the block (it does not parse the SPS the values come from)
			c.Hold(h.Hex(out) == spec, "rec.is_spec.high_profile_ext", "K6 high-profile record profile="+prof+" "+h.Trunc(in, 200), h.Trunc(h.Hex(out), 200), h.Trunc(spec, 200))
			// everything up to the block is the spec's
			base := c.O.Call("avc.rec.spec", prof, fmt.Sprint(compat), fmt.Sprint(uint8(rec.AVCLevelIndication)),
				fmt.Sprint(rec.LengthSizeMinusOne), raws(rec.SequenceParameterSetNALUnits), raws(rec.PictureParameterSetNALUnits))
			c.Hold(h.Hex(out) == base, "rec.is_spec_base", in, h.Trunc(h.Hex(out), 200), h.Trunc(base, 200))
		} else {
			c.Hold(h.Hex(out) == spec, "rec.is_spec", in, h.Trunc(h.Hex(out), 200), h.Trunc(spec, 200))
		}
		// property: round trip (from own bytes and from the conformant writer's bytes, block included)
		dec, _ := avcRecDec(out)
		c.Hold(dec == "ok "+fields, "rec.roundtrip", in, h.Trunc(dec, 200), "ok "+h.Trunc(fields, 200))
		dec2, rec2 := avcRecDec(h.UnHex(spec))
		c.Hold(dec2 == "ok "+fields, "rec.spec_read", in+" ext="+ext, h.Trunc(dec2, 200), "ok "+h.Trunc(fields, 200))
		c.Eq("rec.dec", "avc.rec.dec "+h.Trunc(spec, 200), dec2, c.O.Call("avc.rec.dec", spec))
		if rec2 != nil && !needsExt {
			again, _ := rec2.MarshalBinary()
			c.Hold(h.Hex(again) == spec, "rec.canonical_rt", in, h.Trunc(h.Hex(again), 200), h.Trunc(spec, 200))
		}
		c.Case(fmt.Sprintf("rec/sps=%s,pps=%s,big=%v", cls(nsps), cls(npps), big), in, true)
	}

	// 4. samples, each NAL length size.
	nsmp := c.N(300, 6000)
	for i := 0; i < nsmp; i++ {
		size := 1 + r.Intn(4)
		k := r.Intn(5)
		var ns []*avc.NALU
		for j := 0; j < k; j++ {
			max := 254
			if size >= 2 {
				max = 65534
			}
			if size >= 3 && r.Chance(5) {
				ns = append(ns, mkNalu(uint8(r.Intn(4)), uint8(r.Intn(32)), r.Bytes(65535+r.Intn(3))))
				continue
			}
			ns = append(ns, mkNalu(uint8(r.Intn(4)), uint8(r.Intn(32)), genNaluData(r, max)))
		}
		s := avc.NewAVCSample(uint8(size - 1))
		s.NALUs = ns
		out, err := s.MarshalBinary()
		keep("sample", out)
		in := fmt.Sprintf("avc.sample.enc %d %s", size, nalusStr(ns))
		c.Hold(err == nil, "sample.marshal_ok", in, fmt.Sprint(err), "nil")
		c.Eq("sample.enc", h.Trunc(in, 300), h.Hex(out), c.O.Call("avc.sample.enc", fmt.Sprint(size), nalusStr(ns)))
		// the layout ISO/IEC 14496-15 5.3.4.2 prescribes, written here independently: per NAL unit a big-endian length of
		// `size` bytes (header byte included), the header byte, the payload
		var want []byte
		fits := true
		for _, n := range ns {
			l := len(n.Data) + 1
			fits = fits && (size >= 4 || l < 1<<(8*uint(size)))
			for k := size - 1; k >= 0; k-- {
				want = append(want, byte(l>>(8*uint(k))))
			}
			want = append(append(want, uint8(n.NALRefIDC)<<5|uint8(n.NALUType)), n.Data...)
		}
		if fits {
			c.Hold(bytes.Equal(out, want), "sample.is_layout", h.Trunc(in, 300), h.Trunc(h.Hex(out), 300), h.Trunc(h.Hex(want), 300))
		}
		dec := avcSampleDec(size, out)
		c.Hold(dec == "ok "+nalusStr(ns), "sample.roundtrip", h.Trunc(in, 300), h.Trunc(dec, 200), "ok "+h.Trunc(nalusStr(ns), 200))
		// a sample written by an independent conformant writer is read as its NAL units
		if fits && len(ns) > 0 {
			dec2 := avcSampleDec(size, want)
			c.Hold(dec2 == "ok "+nalusStr(ns), "sample.spec_read", h.Trunc(in, 300), h.Trunc(dec2, 200), "ok "+h.Trunc(nalusStr(ns), 200))
		}
		c.Case(fmt.Sprintf("sample/size=%d,n=%d", size, k), in, k > 0)
	}

	// 5. malformed stream: truncations and mutations of valid encodings, random bytes (model = impl incl. error class).
	nmal := c.N(1500, 40000)
	for i := 0; i < nmal; i++ {
		var bs []byte
		switch r.Intn(3) {
		case 0:
			bs = r.Bytes(r.Intn(24))
		default:
			rec := avc.NewAVCDecoderConfigurationRecord()
			rec.LengthSizeMinusOne = uint8(r.Intn(4))
			for j := r.Intn(3); j > 0; j-- {
				rec.SequenceParameterSetNALUnits = append(rec.SequenceParameterSetNALUnits, mkNalu(uint8(r.Intn(4)), uint8(r.Intn(32)), r.Bytes(r.Intn(6))))
			}
			for j := r.Intn(3); j > 0; j-- {
				rec.PictureParameterSetNALUnits = append(rec.PictureParameterSetNALUnits, mkNalu(uint8(r.Intn(4)), uint8(r.Intn(32)), r.Bytes(r.Intn(6))))
			}
			bs, _ = rec.MarshalBinary()
			if r.Bool() && len(bs) > 0 {
				bs = bs[:r.Intn(len(bs)+1)]
			}
			if r.Bool() && len(bs) > 0 {
				bs[r.Intn(len(bs))] = byte(r.U64())
			}
		}
		if r.Chance(25) && len(bs) > 5 {
			// the reserved bits of bytes 4 and 5 as some other writer left them (the reader does not insist on 1s)
			bs[4] = bs[4]&0x03 | byte(r.Intn(64))<<2
			bs[5] = bs[5]&0x1f | byte(r.Intn(8))<<5
		}
		hx := h.Hex(bs)
		dec, drec := avcRecDec(bs)
		m := c.O.Call("avc.rec.dec", hx)
		c.Eq("rec.dec", "avc.rec.dec "+hx, dec, m)
		c.Hold(dec != "panic", "no_panic", "avc.rec.dec "+hx, dec, "ok|err")
		if drec != nil && strings.HasPrefix(dec, "ok ") {
			// whatever bytes a record was read from, what it marshals to is the layout of ITS VALUES (reserved bits
			// all ones): nothing of the input's spelling survives in the record
			out, err := drec.MarshalBinary()
			want := c.O.Call(append([]string{"avc.rec.enc"}, strings.Fields(dec[3:])...)...)
			c.Hold(err == nil && h.Hex(out) == want, "rec.marshal_after_decode_is_layout_of_values", "avc.rec.dec "+hx+" then MarshalBinary", h.Trunc(h.Hex(out), 300), h.Trunc(want, 300))
		}
		size := 1 + r.Intn(4)
		sd := avcSampleDec(size, bs)
		c.Eq("sample.dec", fmt.Sprintf("avc.sample.dec %d %s", size, hx), sd, c.O.Call("avc.sample.dec", fmt.Sprint(size), hx))
		c.Hold(sd != "panic", "no_panic", fmt.Sprintf("avc.sample.dec %d %s", size, hx), sd, "ok|err")
		if i%8 == 0 {
			// length sizes no configuration record can express (5..8 bytes): outside the property, model = implementation
			// only — including the panic of an 8-byte length with the top bit set (Lean: sample_len8_witness)
			big := 5 + r.Intn(4)
			bb := bs
			if big == 8 && r.Bool() {
				bb = append([]byte{byte(0x80 | r.Intn(128))}, r.Bytes(7+r.Intn(4))...)
			}
			sdb := avcSampleDec(big, bb)
			if strings.HasPrefix(sdb, "panic") {
				sdb = "panic"
			}
			c.Eq("sample.dec", fmt.Sprintf("avc.sample.dec %d %s", big, h.Hex(bb)), sdb, c.O.Call("avc.sample.dec", fmt.Sprint(big), h.Hex(bb)))
		}
		c.Case("malformed/"+strings.Fields(dec)[0]+"/"+strings.Fields(sd)[0], hx, true)
	}
}

func cls(n int) string {
	switch {
	case n == 0:
		return "0"
	case n < 4:
		return "1-3"
	default:
		return fmt.Sprint(n)
	}
}
