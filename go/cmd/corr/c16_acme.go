package main

// C16: the ACME client's use of JOSE (https/acme/jws.go, crypto.go): content signed with the account
// key, nonce and embedded JWK in the protected header, verifies with the public key to the original
// content; the key authorization is token "." base64url(SHA-256 thumbprint) with the RFC 7638
// thumbprint computed here independently of the library.

import (
	"bytes"
	"crypto/ecdsa"
	"crypto/rsa"
	"crypto/sha256"
	"encoding/base64"
	"encoding/json"
	"fmt"
	"math/big"

	"github.com/ossrs/go-oryx-lib/https/acme"
	"github.com/ossrs/go-oryx-lib/https/jose"
	"verifharness/internal/h"
)

func rfc7638(pub interface{}) string {
	b64 := base64.RawURLEncoding.EncodeToString
	var in string
	switch k := pub.(type) {
	case *rsa.PublicKey:
		in = fmt.Sprintf(`{"e":"%s","kty":"RSA","n":"%s"}`, b64(big.NewInt(int64(k.E)).Bytes()), b64(k.N.Bytes()))
	case *ecdsa.PublicKey:
		size := (k.Curve.Params().BitSize + 7) / 8
		fix := func(v *big.Int) []byte {
			b := v.Bytes()
			return append(make([]byte, size-len(b)), b...)
		}
		in = fmt.Sprintf(`{"crv":"%s","kty":"EC","x":"%s","y":"%s"}`, k.Curve.Params().Name, b64(fix(k.X)), b64(fix(k.Y)))
	}
	d := sha256.Sum256([]byte(in))
	return b64(d[:])
}

func c16acme(c *h.Ctx, r *h.Rand) {
	ks := c16makeKeys(c, r)
	type acct struct {
		priv interface{}
		pub  interface{}
		name string
		alg  string
	}
	var accts []acct
	accts = append(accts, acct{ks.rsa[0], &ks.rsa[0].PublicKey, "rsa", "RS256"}, acct{ks.rsa[1], &ks.rsa[1].PublicKey, "rsa1", "RS256"})
	for _, crv := range []string{"P-256", "P-384"} {
		for i, k := range ks.ec[crv] {
			accts = append(accts, acct{k, &k.PublicKey, fmt.Sprintf("ec %s #%d", crv, i), map[string]string{"P-256": "ES256", "P-384": "ES384"}[crv]})
		}
	}
	for ai, a := range accts {
		for _, n := range []int{0, 1, 33} {
			content := r.Bytes(n)
			nonces := []string{"n-1", fmt.Sprintf("nonce-%d-%d", ai, n)}
			id := fmt.Sprintf("acme.sign %s content=%d nonces=%v", a.name, n, nonces)
			var obj *jose.JsonWebSignature
			var left []string
			var err error
			st := h.Safe(func() string {
				obj, left, err = acme.VerifSignContent(a.priv, nonces, content)
				if err != nil {
					return "err"
				}
				return "ok"
			})
			if !c.Hold(st == "ok", "C16_roundtrip.acme.sign", id, st+" "+fmt.Sprint(err), "ok") {
				continue
			}
			// the nonce used is the LAST one handed out by the server, and it is consumed
			c.Hold(len(left) == 1 && left[0] == "n-1", "acme.nonce_consumed", id, fmt.Sprint(left), "[n-1]")
			text := obj.FullSerialize()
			parsed, perr := jose.ParseSigned(text)
			if !c.Hold(perr == nil, "C16_roundtrip.acme.parse", id, fmt.Sprint(perr), "nil") {
				continue
			}
			out, verr := parsed.Verify(a.pub)
			c.Hold(verr == nil && bytes.Equal(out, content), "C16_roundtrip.acme", id, fmt.Sprint(verr), "original content")
			// protected header: alg for the key, the nonce, and the account's public key as embedded JWK
			prot, _, _ := jose.VerifJWSParts(parsed, 0)
			var hdr struct {
				Alg   string          `json:"alg"`
				Nonce string          `json:"nonce"`
				Jwk   json.RawMessage `json:"jwk"`
			}
			json.Unmarshal(prot, &hdr)
			c.Hold(hdr.Alg == a.alg && hdr.Nonce == nonces[1], "acme.protected_header", id, fmt.Sprintf("alg=%s nonce=%s", hdr.Alg, hdr.Nonce), fmt.Sprintf("alg=%s nonce=%s", a.alg, nonces[1]))
			var jwk jose.JsonWebKey
			jerr := jwk.UnmarshalJSON(hdr.Jwk)
			var tp []byte
			if jerr == nil {
				tp, _ = jwk.Thumbprint(5) // crypto.SHA256
			}
			c.Hold(jerr == nil && base64.RawURLEncoding.EncodeToString(tp) == rfc7638(a.pub), "acme.embedded_jwk", id, fmt.Sprint(jerr), "the account's public key (same RFC 7638 thumbprint)")
			// another account's key must not verify it; one flipped bit of the payload must not verify
			other := accts[(ai+1)%len(accts)].pub
			_, oerr := parsed.Verify(other)
			c.Hold(oerr != nil, "C16_tamper.acme.other_key", id, "accepted", "err")
			if n > 0 {
				var raw map[string]json.RawMessage
				json.Unmarshal([]byte(text), &raw)
				m := append([]byte(nil), content...)
				m[r.Intn(len(m))] ^= 1 << uint(r.Intn(8))
				raw["payload"], _ = json.Marshal(jose.VerifBase64URLEncode(m))
				mut, _ := json.Marshal(raw)
				if p2, e2 := jose.ParseSigned(string(mut)); e2 == nil {
					_, e3 := p2.Verify(a.pub)
					c.Hold(e3 != nil, "C16_tamper.acme.payload", id, "accepted", "err")
				}
			}
			c.Case("acme/sign/"+a.alg, id, true)
		}
		// key authorization
		token := fmt.Sprintf("tok-%d_%s", ai, base64.RawURLEncoding.EncodeToString(r.Bytes(6)))
		ka, err := acme.VerifKeyAuthorization(token, a.priv)
		want := token + "." + rfc7638(a.pub)
		c.Hold(err == nil && ka == want, "acme.key_authorization", "acme.keyauth "+a.name+" "+token, ka, want)
		c.Case("acme/keyauth", a.name+" "+token, true)
	}
	// without a nonce (and no server) signing fails with an error, it does not panic or sign without one
	st := h.Safe(func() string {
		_, _, err := acme.VerifSignContent(ks.ec["P-256"][0], nil, []byte("x"))
		if err != nil {
			return "err"
		}
		return "ok"
	})
	c.Hold(st == "err", "acme.no_nonce_is_error", "acme.sign ec P-256 without nonces", st, "err")
	// a key type ACME cannot map to an algorithm (P-521) is refused
	st = h.Safe(func() string {
		_, _, err := acme.VerifSignContent(ks.ec["P-521"][0], []string{"n"}, []byte("x"))
		if err != nil {
			return "err"
		}
		return "ok"
	})
	c.Hold(st == "err", "acme.unsupported_key_is_error", "acme.sign ec P-521", st, "err")
	c.Case("acme/errors", "no nonce; P-521", true)
}
