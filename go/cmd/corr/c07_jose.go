package main

// C07: JOSE decoders (parse + verify/decrypt, JWK parsing) for the fuzz/mutation sweep.

import (
	"fmt"
	"hash"
	"encoding/binary"
	"crypto/sha512"
	"crypto/sha256"
	"crypto/hmac"
	"encoding/json"

	"github.com/ossrs/go-oryx-lib/https/jose"
	"verifharness/internal/h"
)

func c07JoseDecoders(c *h.Ctx) []decoder {
	r := c.R.Fork()
	ks := c16makeKeys(c, r)
	ecKey := ks.ec["P-256"][0]
	type kp struct {
		enc interface{}
		dec interface{}
	}
	var jwsTexts, jweTexts [][]byte
	verKeys := []interface{}{ks.syms[32][0], &ks.rsa[0].PublicKey, &ecKey.PublicKey}
	// decryption keys: one per key type AND an EC key on every curve — an ECDH-ES object made for a key on one curve
	// (its `epk` is a valid point of THAT curve) is then also offered to recipients' keys on the other curves
	decKeys := []interface{}{ks.syms[16][0], ks.syms[32][0], ks.rsa[0], ecKey, ks.ec["P-384"][0], ks.ec["P-521"][0], ks.ec["P-256"][1]}
	for _, sc := range []struct {
		alg jose.SignatureAlgorithm
		key interface{}
	}{{jose.HS256, ks.syms[32][0]}, {jose.RS256, ks.rsa[0]}, {jose.PS384, ks.rsa[0]}, {jose.ES256, ecKey}} {
		s, err := jose.NewSigner(sc.alg, sc.key)
		if err != nil {
			continue
		}
		o, err := s.Sign([]byte("payload-" + string(sc.alg)))
		if err != nil {
			continue
		}
		if t, err := o.CompactSerialize(); err == nil {
			jwsTexts = append(jwsTexts, []byte(t))
		}
		jwsTexts = append(jwsTexts, []byte(o.FullSerialize()))
	}
	for _, ec := range []struct {
		alg jose.KeyAlgorithm
		enc jose.ContentEncryption
		key interface{}
	}{
		{jose.DIRECT, jose.A128GCM, ks.syms[16][0]},
		{jose.A128KW, jose.A128CBC_HS256, ks.syms[16][0]},
		{jose.A256GCMKW, jose.A256GCM, ks.syms[32][0]},
		{jose.RSA_OAEP, jose.A128GCM, &ks.rsa[0].PublicKey},
		{jose.RSA1_5, jose.A256CBC_HS512, &ks.rsa[0].PublicKey},
		{jose.ECDH_ES, jose.A128GCM, &ecKey.PublicKey},
		{jose.ECDH_ES_A128KW, jose.A192CBC_HS384, &ecKey.PublicKey},
		{jose.PBES2_HS256_A128KW, jose.A128GCM, ks.syms[16][0]},
		{jose.ECDH_ES, jose.A256GCM, &ks.ec["P-384"][0].PublicKey},
		{jose.ECDH_ES_A256KW, jose.A128GCM, &ks.ec["P-521"][0].PublicKey},
		{jose.ECDH_ES_A192KW, jose.A128CBC_HS256, &ks.ec["P-256"][1].PublicKey},
	} {
		e, err := jose.NewEncrypter(ec.alg, ec.enc, ec.key)
		if err != nil {
			continue
		}
		for _, zip := range []jose.CompressionAlgorithm{jose.NONE, jose.DEFLATE} {
			e.SetCompression(zip)
			o, err := e.EncryptWithAuthData([]byte("secret plaintext 0123456789"), []byte("aad"))
			if err != nil {
				continue
			}
			jweTexts = append(jweTexts, []byte(o.FullSerialize()))
			o2, err := e.Encrypt([]byte("x"))
			if err == nil {
				if t, err := o2.CompactSerialize(); err == nil {
					jweTexts = append(jweTexts, []byte(t))
				}
			}
		}
	}
	// F28 regression (fixed finding): CBC-HMAC objects with an EMPTY ciphertext and a tag that is valid for it — the
	// sender chooses the content key, so anybody who can address the recipient can build one. They go in front of the
	// seeds (and are decrypted with the key that validates the tag).
	for _, ce := range []struct {
		enc    jose.ContentEncryption
		key    []byte
		hf     func() hash.Hash
		taglen int
	}{{jose.A128CBC_HS256, ks.syms[32][0], sha256.New, 16}, {jose.A192CBC_HS384, append(append([]byte{}, ks.syms[32][0]...), ks.syms[16][0]...), sha512.New384, 24}, {jose.A256CBC_HS512, ks.syms[64][0], sha512.New, 32}} {
		e, err := jose.NewEncrypter(jose.DIRECT, ce.enc, ce.key)
		if err != nil {
			continue
		}
		o, err := e.Encrypt([]byte("x"))
		if err != nil {
			continue
		}
		var f map[string]string
		if json.Unmarshal([]byte(o.FullSerialize()), &f) != nil {
			continue
		}
		iv, _ := jose.VerifBase64URLDecode(f["iv"])
		aad := []byte(f["protected"])
		// ... and, more generally, ciphertexts of EVERY length behind a valid tag (whoever chooses the content key can make
		// the tag fit anything): empty, shorter than a block, not a whole number of blocks, whole blocks of garbage
		for _, n := range []int{0, 1, 15, 16, 17, 31, 32, 33, 48} {
			ct := make([]byte, n)
			for i := range ct {
				ct[i] = byte(0x5a + i)
			}
			mac := hmac.New(ce.hf, ce.key[:len(ce.key)/2])
			mac.Write(aad)
			mac.Write(iv)
			mac.Write(ct)
			al := make([]byte, 8)
			binary.BigEndian.PutUint64(al, uint64(len(aad))*8)
			mac.Write(al)
			crafted := fmt.Sprintf(`{"protected":"%s","iv":"%s","ciphertext":"%s","tag":"%s"}`, f["protected"], f["iv"], jose.VerifBase64URLEncode(ct), jose.VerifBase64URLEncode(mac.Sum(nil)[:ce.taglen]))
			jweTexts = append(jweTexts, []byte(crafted))
		}
		decKeys = append(decKeys, ce.key)
	}
	var jwkTexts [][]byte
	for _, k := range []interface{}{ks.rsa[0], &ks.rsa[0].PublicKey, ecKey, &ecKey.PublicKey, ks.syms[32][0]} {
		if b, err := (&jose.JsonWebKey{Key: k, KeyID: "kid", Algorithm: "x"}).MarshalJSON(); err == nil {
			jwkTexts = append(jwkTexts, b)
		}
	}
	// keys whose integer fields have every length: an RSA exponent / modulus of 0..70 octets (leading zeros, all ones),
	// EC coordinates shorter and longer than the curve's size, an oct key of 0 and of 1000 octets; the same keys embedded as
	// `jwk` in the protected header of a signed object
	for _, n := range []int{0, 1, 3, 4, 5, 8, 9, 16, 17, 64, 67, 70} {
		for _, fill := range []byte{0x00, 0xff, 0x01} {
			e := make([]byte, n)
			for i := range e {
				e[i] = fill
			}
			if n > 0 {
				e[n-1] |= 1
			}
			jwkTexts = append(jwkTexts, []byte(fmt.Sprintf(`{"kty":"RSA","n":"%s","e":"%s"}`, jose.VerifBase64URLEncode(ks.rsa[0].PublicKey.N.Bytes()), jose.VerifBase64URLEncode(e))))
			jwkTexts = append(jwkTexts, []byte(fmt.Sprintf(`{"kty":"RSA","n":"%s","e":"AQAB"}`, jose.VerifBase64URLEncode(e))))
			jwkTexts = append(jwkTexts, []byte(fmt.Sprintf(`{"kty":"EC","crv":"P-256","x":"%s","y":"%s"}`, jose.VerifBase64URLEncode(e), jose.VerifBase64URLEncode(e))))
			jwkTexts = append(jwkTexts, []byte(fmt.Sprintf(`{"kty":"oct","k":"%s"}`, jose.VerifBase64URLEncode(e))))
			hdr := fmt.Sprintf(`{"alg":"RS256","jwk":{"kty":"RSA","n":"%s","e":"%s"}}`, jose.VerifBase64URLEncode(ks.rsa[0].PublicKey.N.Bytes()), jose.VerifBase64URLEncode(e))
			jwsTexts = append(jwsTexts, []byte(jose.VerifBase64URLEncode([]byte(hdr))+".cGF5bG9hZA.c2ln"))
		}
	}
	c.Note("C07 jose seeds: " + h.Trunc(string(jwsTexts[0]), 60))
	return []decoder{
		{name: "jose.ParseSigned+Verify", maxLen: 8192,
			run: func(b []byte) {
				o, err := jose.ParseSigned(string(b))
				if err != nil {
					return
				}
				for _, k := range verKeys {
					o.Verify(k)
				}
			},
			seeds: func(*h.Rand) [][]byte { return jwsTexts }},
		{name: "jose.ParseEncrypted+Decrypt", maxLen: 8192,
			run: func(b []byte) {
				o, err := jose.ParseEncrypted(string(b))
				if err != nil {
					return
				}
				o.GetAuthData()
				for _, k := range decKeys {
					o.Decrypt(k)
				}
			},
			seeds: func(*h.Rand) [][]byte { return jweTexts }},
		{name: "jose.JsonWebKey.UnmarshalJSON (not modelled)", maxLen: 8192,
			run: func(b []byte) {
				var k jose.JsonWebKey
				if json.Unmarshal(b, &k) == nil {
					k.Valid()
					k.MarshalJSON()
					k.Thumbprint(5) // crypto.SHA256
				}
				var ks jose.JsonWebKeySet
				json.Unmarshal(b, &ks)
			},
			seeds: func(*h.Rand) [][]byte { return jwkTexts }},
	}
}
