package main

// C07 — untrusted bytes never crash or stall a decoder.
// Support run for the Lean no-panic / cost theorems: every decoder entry point of the library is fed
// random, grammar-derived (valid encodings from the library's own encoders) and mutated inputs up to
// 64 KiB with recover + watchdog; enum helpers are swept over their whole integer range; adversarial
// families identified by the cost model are timed at n and 2n (doubling must not quadruple).
// The decoders that have no Lean model (OCSP/encoding-asn1, JWK parsing, encoding/json paths) are
// covered ONLY here — the evidence says so.

import (
	"unsafe"
	"syscall"
	"runtime"
	"math/big"
	"crypto/x509"
	"bytes"
	"fmt"
	"io"
	"sort"
	"strings"
	"time"

	"github.com/ossrs/go-oryx-lib/aac"
	"github.com/ossrs/go-oryx-lib/amf0"
	"github.com/ossrs/go-oryx-lib/avc"
	"github.com/ossrs/go-oryx-lib/flv"
	"github.com/ossrs/go-oryx-lib/https/crypto/ocsp"
	ojson "github.com/ossrs/go-oryx-lib/json"
	"github.com/ossrs/go-oryx-lib/rtmp"
	"verifharness/internal/h"
)

func init() { register("C07", c07) }

type decoder struct {
	name   string
	run    func(b []byte)           // must return (a value or an error), never panic, in time
	seeds  func(r *h.Rand) [][]byte // valid encodings to mutate
	maxLen int
}

var c07Decoders []decoder

func regDecoder(d decoder) { c07Decoders = append(c07Decoders, d) }

func amf0Tree(r *h.Rand, depth int) amf0.Amf0 {
	switch k := r.Intn(9); {
	case k == 0 && depth > 0:
		o := amf0.NewObject()
		for i := r.Intn(4); i > 0; i-- {
			o.Set(string(rune('a'+r.Intn(4))), amf0Tree(r, depth-1))
		}
		return o
	case k == 1 && depth > 0:
		o := amf0.NewEcmaArray()
		for i := r.Intn(4); i > 0; i-- {
			o.Set(string(rune('a'+r.Intn(4))), amf0Tree(r, depth-1))
		}
		return o
	case k == 2 && depth > 0:
		o := amf0.NewStrictArray()
		for i := r.Intn(3); i > 0; i-- {
			o.Set(string(rune('a'+r.Intn(4))), amf0Tree(r, depth-1))
		}
		return o
	case k == 3:
		return amf0.NewString(string(r.Bytes(r.Intn(12))))
	case k == 4:
		return amf0.NewBoolean(r.Bool())
	case k == 5:
		return amf0.NewNull()
	case k == 6:
		return amf0.NewUndefined()
	default:
		return amf0.NewNumber(float64(r.Intn(1000)))
	}
}

// rtmpChunk: one chunk written field by field (fmt 0..3 header of the given fields, optional extended timestamp).
func rtmpChunk(fmtb, cid int, ts, length, typ, sid uint32, ext bool, payload []byte) []byte {
	var b []byte
	switch {
	case cid < 64:
		b = append(b, byte(fmtb<<6|cid))
	case cid < 320:
		b = append(b, byte(fmtb<<6), byte(cid-64))
	default:
		b = append(b, byte(fmtb<<6|1), byte((cid-64)&0xff), byte((cid-64)>>8))
	}
	t := ts
	if ext {
		t = 0xffffff
	}
	if fmtb <= 2 {
		b = append(b, byte(t>>16), byte(t>>8), byte(t))
	}
	if fmtb <= 1 {
		b = append(b, byte(length>>16), byte(length>>8), byte(length), byte(typ))
	}
	if fmtb == 0 {
		b = append(b, byte(sid), byte(sid>>8), byte(sid>>16), byte(sid>>24))
	}
	if ext {
		b = append(b, byte(ts>>24), byte(ts>>16), byte(ts>>8), byte(ts))
	}
	return append(b, payload...)
}

// rtmpChunkSeeds: chunk streams written at the chunk level, most of them breaking one rule of the chunk protocol in
// the middle of a message (the reader keeps per-chunk-stream state between chunks: that is where a byte string can
// drive it somewhere its checks did not foresee): a continuation chunk with a type-0/1 header announcing another
// length (smaller than what is already buffered, zero, larger, 2^24-1), another type or stream id; headers of type
// 1/2/3 on a chunk stream never seen; extended timestamps appearing and disappearing between the chunks of a message;
// two chunk streams interleaved while one of them changes its mind.
func rtmpChunkSeeds(r *h.Rand) [][]byte {
	var out [][]byte
	pl := func(n int) []byte { return make([]byte, n) }
	for _, L := range []uint32{129, 200, 300, 1000} {
		for _, cid := range []int{3, 64, 320} {
			first := rtmpChunk(0, cid, 10, L, 9, 1, false, pl(128))
			for _, L2 := range []uint32{L - 100, 1, 0, 127, 128, L - 1, L + 1, L + 100, 0xffffff} {
				rest := int(L2) - 128
				if rest < 0 || rest > 128 {
					rest = r.Pick(0, 1, 72, 128)
				}
				out = append(out, append(append([]byte(nil), first...), rtmpChunk(1, cid, 0, L2, 9, 1, false, pl(rest))...))
				out = append(out, append(append([]byte(nil), first...), rtmpChunk(0, cid, 10, L2, 9, 1, false, pl(rest))...))
			}
			out = append(out, append(append([]byte(nil), first...), rtmpChunk(1, cid, 0, L, 8, 1, false, pl(int(L)-128))...))
			out = append(out, append(append([]byte(nil), first...), rtmpChunk(2, cid, 5, 0, 0, 0, false, pl(int(L)-128))...))
			out = append(out, append(append([]byte(nil), first...), rtmpChunk(3, cid, 0x1000000, 0, 0, 0, true, pl(int(L)-128))...))
			other := rtmpChunk(0, cid+1, 20, 200, 8, 1, false, pl(128))
			out = append(out, append(append(append([]byte(nil), first...), other...), rtmpChunk(1, cid, 0, 50, 9, 1, false, pl(50))...))
		}
	}
	for f := 1; f <= 3; f++ {
		for _, cid := range []int{2, 3, 63, 64, 319, 320, 65599} {
			out = append(out, rtmpChunk(f, cid, 1, 10, 20, 0, false, pl(10)))
			out = append(out, rtmpChunk(f, cid, 0x1000000, 10, 20, 0, true, pl(10)))
		}
	}
	extFirst := rtmpChunk(0, 4, 0x1000000, 300, 9, 1, true, pl(128))
	out = append(out, append(append([]byte(nil), extFirst...), rtmpChunk(3, 4, 0, 0, 0, 0, false, pl(128))...))
	out = append(out, append(append([]byte(nil), extFirst...), rtmpChunk(3, 4, 0x1000000, 0, 0, 0, true, pl(128))...))
	out = append(out, append(append([]byte(nil), extFirst...), rtmpChunk(3, 4, 0x1000001, 0, 0, 0, true, pl(128))...))
	return out
}

func init() {
	regDecoder(decoder{name: "amf0.Discovery+Unmarshal", maxLen: 65536,
		run: func(b []byte) {
			if a, err := amf0.Discovery(b); err == nil {
				if a.UnmarshalBinary(b) == nil {
					a.Size()
					a.MarshalBinary()
				}
			}
		},
		seeds: func(r *h.Rand) [][]byte {
			var out [][]byte
			for i := 0; i < 8; i++ {
				b, _ := amf0Tree(r, 4).MarshalBinary()
				out = append(out, b)
			}
			return out
		}})
	regDecoder(decoder{name: "amf0.each-type.Unmarshal", maxLen: 4096,
		run: func(b []byte) {
			var s amf0.String
			s.UnmarshalBinary(b)
			var n amf0.Number
			n.UnmarshalBinary(b)
			var bo amf0.Boolean
			bo.UnmarshalBinary(b)
			amf0.NewObject().UnmarshalBinary(b)
			amf0.NewEcmaArray().UnmarshalBinary(b)
			amf0.NewStrictArray().UnmarshalBinary(b)
			amf0.NewNull().UnmarshalBinary(b)
			amf0.NewUndefined().UnmarshalBinary(b)
		},
		seeds: func(r *h.Rand) [][]byte {
			var out [][]byte
			for i := 0; i < 6; i++ {
				b, _ := amf0Tree(r, 2).MarshalBinary()
				out = append(out, b)
			}
			return out
		}})
	regDecoder(decoder{name: "rtmp.ReadMessage+DecodeMessage", maxLen: 65536,
		run: func(b []byte) {
			p := rtmp.NewProtocol(&h.RW{Reader: bytes.NewReader(b), Writer: io.Discard})
			for i := 0; i < 64; i++ {
				m, err := p.ReadMessage()
				if err != nil {
					return
				}
				p.DecodeMessage(m)
			}
		},
		seeds: func(r *h.Rand) [][]byte {
			var out [][]byte
			for i := 0; i < 6; i++ {
				var w bytes.Buffer
				p := rtmp.NewProtocol(&h.RW{Writer: &w})
				for _, m := range genSession(r, 1+r.Intn(6), false) {
					p.WriteMessage(rtmp.VerifNewMessage(m.cid, rtmp.MessageType(m.ty), m.sid, m.ts, m.payload))
				}
				cp := rtmp.NewConnectAppPacket()
				cp.CommandObject.Set("app", amf0.NewString("live")).Set("x", amf0Tree(r, 2))
				p.WritePacket(cp, 0)
				pp := rtmp.NewPublishPacket()
				pp.StreamName = "s"
				p.WritePacket(pp, 1)
				uc := rtmp.NewUserControl()
				uc.EventType = rtmp.EventType(r.Pick(0, 3, 6, 0x1a))
				p.WritePacket(uc, 0)
				out = append(out, w.Bytes())
			}
			return append(out, rtmpChunkSeeds(r)...)
		}})
	regDecoder(decoder{name: "rtmp.Handshake.Read", maxLen: 4096,
		run: func(b []byte) {
			hs := rtmp.NewHandshake(nil)
			rd := bytes.NewReader(b)
			hs.ReadC0S0(rd)
			hs.ReadC1S1(rd)
			hs.ReadC2S2(rd)
		},
		seeds: func(r *h.Rand) [][]byte { return [][]byte{r.Bytes(3073), r.Bytes(1537)} }})
	regDecoder(decoder{name: "rtmp.DecodeMessage(all types)", maxLen: 4096,
		run: func(b []byte) {
			if len(b) == 0 {
				return
			}
			p := rtmp.NewProtocol(&h.RW{Reader: bytes.NewReader(nil), Writer: io.Discard})
			m := rtmp.VerifNewMessage(3, rtmp.MessageType(b[0]), 0, 0, b[1:])
			p.DecodeMessage(m)
		},
		seeds: func(r *h.Rand) [][]byte {
			var out [][]byte
			// well-formed protocol-control bodies (truncation then yields every shorter length of each)
			out = append(out, []byte{1, 0, 0, 16, 0}, []byte{5, 0, 0x26, 0x25, 0xa0}, []byte{6, 0, 0x26, 0x25, 0xa0, 2},
				[]byte{4, 0, 3, 0, 0, 0, 1, 0, 0, 0x0b, 0xb8}, []byte{4, 0, 0x1a, 1}, []byte{4, 0, 6, 0, 0, 0x0d, 0x0f},
				[]byte{4, 0, 0, 0, 0, 0, 1}, []byte{4, 0, 7, 1, 2, 3, 4}, []byte{4, 0xff, 0xff, 1, 2, 3, 4})
			for _, ty := range []byte{1, 4, 5, 6, 15, 17, 18, 20} {
				cp := rtmp.NewConnectAppPacket()
				cp.CommandObject.Set("k", amf0Tree(r, 2))
				b, _ := cp.MarshalBinary()
				out = append(out, append([]byte{ty}, b...))
				call := rtmp.NewCallPacket()
				call.CommandName = amf0.String([]string{"_result", "_error", "publish", "play", "onStatus", "connect"}[r.Intn(6)])
				call.TransactionID = amf0.Number(r.Intn(3))
				call.CommandObject = amf0.NewNull()
				call.Args = amf0Tree(r, 2)
				b, _ = call.MarshalBinary()
				out = append(out, append([]byte{ty, 0}, b...))
				out = append(out, append([]byte{ty}, b...))
			}
			return out
		}})
	regDecoder(decoder{name: "flv.Demuxer", maxLen: 65536,
		run: func(b []byte) {
			d, _ := flv.NewDemuxer(bytes.NewReader(b))
			if _, _, _, err := d.ReadHeader(); err != nil {
				return
			}
			for i := 0; i < 4096; i++ {
				_, sz, _, err := d.ReadTagHeader()
				if err != nil {
					return
				}
				if _, err := d.ReadTag(sz); err != nil {
					return
				}
			}
		},
		seeds: func(r *h.Rand) [][]byte {
			var out [][]byte
			for i := 0; i < 4; i++ {
				var w bytes.Buffer
				m, _ := flv.NewMuxer(&w)
				m.WriteHeader(r.Bool(), r.Bool())
				for j := r.Intn(6); j > 0; j-- {
					m.WriteTag(flv.TagType(r.Pick(8, 9, 18)), uint32(r.U64()), r.Bytes(r.Intn(40)))
				}
				out = append(out, w.Bytes())
			}
			return out
		}})
	regDecoder(decoder{name: "flv.ReadTag(any size)", maxLen: 64,
		run: func(b []byte) {
			if len(b) < 4 {
				return
			}
			d, _ := flv.NewDemuxer(bytes.NewReader(b[4:]))
			d.ReadTag(uint32(b[0])<<24 | uint32(b[1])<<16 | uint32(b[2])<<8 | uint32(b[3]))
		},
		seeds: func(r *h.Rand) [][]byte {
			return [][]byte{{0xff, 0xff, 0xff, 0xfc, 1, 2, 3, 4}, {0xff, 0xff, 0xff, 0xff}, {0, 0, 0, 0, 0, 0, 0, 0}, {0, 0, 0, 2, 9, 9, 0, 0, 0, 13}}
		}})
	regDecoder(decoder{name: "flv.AudioPackager.Decode", maxLen: 1024,
		run: func(b []byte) {
			p, _ := flv.NewAudioPackager()
			if f, err := p.Decode(b); err == nil {
				p.Encode(f)
				_ = f.SoundRate.ToHz()
				_ = f.SoundRate.OpusToHz()
				_ = fmt.Sprint(f.SoundFormat, f.SoundRate, f.SoundSize, f.SoundType, f.Trait)
			}
		},
		seeds: func(r *h.Rand) [][]byte {
			var out [][]byte
			for i := 0; i < 16; i++ {
				out = append(out, append([]byte{byte(i<<4 | r.Intn(16)), byte(r.Intn(8))}, r.Bytes(r.Intn(6))...))
			}
			return out
		}})
	regDecoder(decoder{name: "flv.VideoPackager.Decode", maxLen: 1024,
		run: func(b []byte) {
			p, _ := flv.NewVideoPackager()
			if f, err := p.Decode(b); err == nil {
				p.Encode(f)
				_ = fmt.Sprint(f.FrameType, f.CodecID, f.Trait)
			}
		},
		seeds: func(r *h.Rand) [][]byte {
			var out [][]byte
			for i := 0; i < 16; i++ {
				out = append(out, append([]byte{byte(r.Intn(16)<<4 | i), byte(r.Intn(4))}, r.Bytes(r.Intn(8))...))
			}
			return out
		}})
	regDecoder(decoder{name: "aac.ADTS.Decode", maxLen: 65536 + 16,
		run: func(b []byte) {
			a, _ := aac.NewADTS()
			for i := 0; i < 4096 && len(b) > 0; i++ {
				_, left, err := a.Decode(b)
				if err != nil || len(left) >= len(b) {
					return
				}
				b = left
			}
		},
		seeds: func(r *h.Rand) [][]byte {
			var out [][]byte
			for i := 0; i < 4; i++ {
				a, _ := aac.NewADTS()
				asc := &aac.AudioSpecificConfig{Object: aac.ObjectTypeLC, SampleRate: aac.SampleRateIndex(1 + r.Intn(12)), Channels: aac.Channels(1 + r.Intn(7))}
				ab, _ := asc.MarshalBinary()
				a.SetASC(ab)
				var s []byte
				for j := 1 + r.Intn(3); j > 0; j-- {
					f, _ := a.Encode(r.Bytes(1 + r.Intn(30)))
					s = append(s, f...)
				}
				out = append(out, s)
			}
			return out
		}})
	regDecoder(decoder{name: "aac.AudioSpecificConfig.Unmarshal", maxLen: 16,
		run: func(b []byte) {
			var asc aac.AudioSpecificConfig
			if asc.UnmarshalBinary(b) == nil {
				asc.MarshalBinary()
				_ = asc.SampleRate.ToHz()
				_ = fmt.Sprint(asc.Object, asc.SampleRate, asc.Channels, asc.Object.ToProfile())
			}
		},
		seeds: func(r *h.Rand) [][]byte { return [][]byte{{0x12, 0x10}, {0x11, 0x90}, {0xeb, 0x88}} }})
	regDecoder(decoder{name: "avc.Record.Unmarshal", maxLen: 65536,
		run: func(b []byte) {
			rec := avc.NewAVCDecoderConfigurationRecord()
			if rec.UnmarshalBinary(b) == nil {
				rec.MarshalBinary()
				_ = fmt.Sprint(rec.AVCProfileIndication, rec.AVCLevelIndication)
			}
		},
		seeds: func(r *h.Rand) [][]byte {
			var out [][]byte
			for i := 0; i < 4; i++ {
				rec := avc.NewAVCDecoderConfigurationRecord()
				for j := r.Intn(3); j > 0; j-- {
					rec.SequenceParameterSetNALUnits = append(rec.SequenceParameterSetNALUnits, mkNalu(3, 7, r.Bytes(r.Intn(9))))
				}
				for j := r.Intn(3); j > 0; j-- {
					rec.PictureParameterSetNALUnits = append(rec.PictureParameterSetNALUnits, mkNalu(3, 8, r.Bytes(r.Intn(9))))
				}
				b, _ := rec.MarshalBinary()
				out = append(out, b)
			}
			return out
		}})
	regDecoder(decoder{name: "avc.Sample+NALU.Unmarshal", maxLen: 65536,
		run: func(b []byte) {
			for lsm := 0; lsm < 4; lsm++ {
				s := avc.NewAVCSample(uint8(lsm))
				if s.UnmarshalBinary(b) == nil {
					s.MarshalBinary()
				}
			}
			n := avc.NewNALU()
			if n.UnmarshalBinary(b) == nil {
				_ = fmt.Sprint(n.NALUType, n.NALRefIDC, n.String())
			}
		},
		seeds: func(r *h.Rand) [][]byte {
			var out [][]byte
			for lsm := 0; lsm < 4; lsm++ {
				s := avc.NewAVCSample(uint8(lsm))
				for j := 1 + r.Intn(3); j > 0; j-- {
					s.NALUs = append(s.NALUs, mkNalu(uint8(r.Intn(4)), uint8(r.Intn(32)), r.Bytes(r.Intn(12))))
				}
				b, _ := s.MarshalBinary()
				out = append(out, b)
			}
			return out
		}})
	regDecoder(decoder{name: "ocsp.ParseResponse+ParseRequest (not modelled)", maxLen: 8192,
		run: func(b []byte) {
			ocsp.ParseRequest(b)
			// every entry point of the response parser: any certificate, the certificate of some other serial
			// number (no SingleResponse is for it), the certificate the response is for
			resp, err := ocsp.ParseResponse(b, nil)
			ocsp.ParseResponseForCert(b, &x509.Certificate{SerialNumber: big.NewInt(0x5eeded)}, nil)
			if err == nil && resp != nil && resp.SerialNumber != nil {
				ocsp.ParseResponseForCert(b, &x509.Certificate{SerialNumber: resp.SerialNumber}, nil)
			}
		},
		seeds: func(r *h.Rand) [][]byte { return append(append([][]byte{}, ocspSeeds...), h.UnHex(ocspRealResponse)) }})
	regDecoder(decoder{name: "json.JsonPlusReader+Unmarshal", maxLen: 65536,
		run: func(b []byte) {
			io.Copy(io.Discard, ojson.NewJsonPlusReader(bytes.NewReader(b)))
			var v interface{}
			ojson.Unmarshal(bytes.NewReader(b), &v)
		},
		seeds: func(r *h.Rand) [][]byte {
			return [][]byte{[]byte(`{"a":"x\"y", /* c */ "b":[1,2,3] // tail` + "\n}"), []byte(`["\\\"", '//', "/*"] /* open`), []byte("//\n//\n{}"), []byte(`{"k":"v"}`)}
		}})
}

// ocspRealResponse: a complete successful response without embedded certificate (the public test vector
// ocspResponseWithoutCertHex of golang.org/x/crypto/ocsp, which this package was forked from).
const ocspRealResponse = "308201d40a0100a08201cd308201c906092b0601050507300101048201ba308201b630819fa2160414884451ff502a695e2d88f421bad90cf2cecbea7c180f32303133303631383037323434335a30743072304a300906052b0e03021a0500041448b60d38238df8456e4ee5843ea394111802979f0414884451ff502a695e2d88f421bad90cf2cecbea7c021100f78b13b946fc9635d8ab49de9d2148218000180f32303133303631383037323434335aa011180f32303133303632323037323434335a300d06092a864886f70d01010505000382010100103e18b3d297a5e7a6c07a4fc52ac46a15c0eba96f3be17f0ffe84de5b8c8e055a8f577586a849dc4abd6440eb6fedde4622451e2823c1cbf3558b4e8184959c9fe96eff8bc5f95866c58c6d087519faabfdae37e11d9874f1bc0db292208f645dd848185e4dd38b6a8547dfa7b74d514a8470015719064d35476b95bebb03d4d2845c5ca15202d2784878f20f904c24f09736f044609e9c271381713400e563023d212db422236440c6f377bbf24b2b9e7dec8698e36a8df68b7592ad3489fb2937afb90eb85d2aa96b81c94c25057dbd4759d920a1a65c7f0b6427a224b3c98edd96b9b61f706099951188b0289555ad30a216fb7746515a35fca2e054dfa8"

// ocspSeeds: DER skeletons (a SEQUENCE with nested SEQUENCEs / ENUMERATED / OCTET STRING) — mutation does the rest.
var ocspSeeds = [][]byte{
	{0x30, 0x03, 0x0a, 0x01, 0x00},
	{0x30, 0x03, 0x0a, 0x01, 0x06},
	{0x30, 0x10, 0x0a, 0x01, 0x00, 0xa0, 0x0b, 0x30, 0x09, 0x06, 0x01, 0x2b, 0x04, 0x04, 0x30, 0x02, 0x30, 0x00},
	{0x30, 0x0c, 0x30, 0x0a, 0x30, 0x08, 0x30, 0x06, 0x30, 0x04, 0x30, 0x02, 0x05, 0x00},
}

func mutate(r *h.Rand, b []byte) []byte {
	out := append([]byte(nil), b...)
	switch r.Intn(8) {
	case 7: // insert a character that text parsers treat specially (ASCII and non-ASCII white space, quotes, escapes, format verbs)
		specials := []string{" ", "\t", "\n", "\r", "\u00a0", "\u0085", "\u2028", "\u3000", "\ufeff", "\x00", "%", "\\", "\"", "'", ".", "=", "{", "[", "//", "/*"}
		sp := []byte(specials[r.Intn(len(specials))])
		i := r.Intn(len(out) + 1)
		out = append(out[:i], append(sp, out[i:]...)...)
	case 0: // truncate
		if len(out) > 0 {
			out = out[:r.Intn(len(out))]
		}
	case 1: // flip bits
		for k := 1 + r.Intn(3); k > 0 && len(out) > 0; k-- {
			out[r.Intn(len(out))] ^= 1 << uint(r.Intn(8))
		}
	case 2: // overwrite with boundary bytes
		for k := 1 + r.Intn(4); k > 0 && len(out) > 0; k-- {
			out[r.Intn(len(out))] = byte(r.Pick(0, 1, 0x7f, 0x80, 0xff, 0xfe, 9, 3, 8, 10))
		}
	case 3: // insert
		if len(out) > 0 {
			i := r.Intn(len(out))
			out = append(out[:i], append(r.Bytes(1+r.Intn(4)), out[i:]...)...)
		}
	case 4: // delete
		if len(out) > 1 {
			i := r.Intn(len(out) - 1)
			out = append(out[:i], out[i+1:]...)
		}
	case 5: // length-field lie: set a run of 4 bytes to a huge value
		if len(out) >= 4 {
			i := r.Intn(len(out) - 3)
			copy(out[i:], []byte{0xff, 0xff, 0xff, byte(r.Pick(0xff, 0xfc, 0x00))})
		}
	case 6: // duplicate a slice
		if len(out) > 2 {
			i := r.Intn(len(out) - 1)
			j := i + 1 + r.Intn(len(out)-i-1)
			out = append(out[:j], append(append([]byte(nil), out[i:j]...), out[j:]...)...)
		}
	}
	return out
}

// guarded runs f with recover and a watchdog; returns "ok", "panic: …" or "stall".
func guarded(f func(), limit time.Duration) (string, time.Duration) {
	done := make(chan string, 1)
	t0 := time.Now()
	go func() {
		defer func() {
			if r := recover(); r != nil {
				done <- fmt.Sprintf("panic: %v", r)
			}
		}()
		f()
		done <- "ok"
	}()
	select {
	case s := <-done:
		return s, time.Since(t0)
	case <-time.After(limit):
		return "stall", time.Since(t0)
	}
}

func c07(c *h.Ctx) {
	r := c.R
	c07Decoders = append(c07Decoders, c07JoseDecoders(c)...)
	sort.Slice(c07Decoders, func(i, j int) bool { return c07Decoders[i].name < c07Decoders[j].name })
	perDecoder := c.N(4000, 60000)
	slowest := map[string]time.Duration{}
	for _, d := range c07Decoders {
		seeds := d.seeds(r)
		for i := 0; i < perDecoder; i++ {
			var b []byte
			kind := ""
			switch r.Intn(10) {
			case 0:
				kind = "random"
				n := r.Intn(64)
				if r.Chance(5) {
					n = r.Intn(d.maxLen + 1)
				}
				b = r.Bytes(n)
			case 1:
				kind = "valid"
				b = seeds[r.Intn(len(seeds))]
			case 2:
				kind = "concat"
				b = append(append([]byte(nil), seeds[r.Intn(len(seeds))]...), seeds[r.Intn(len(seeds))]...)
			default:
				kind = "mutated"
				b = mutate(r, seeds[r.Intn(len(seeds))])
				for k := r.Intn(3); k > 0; k-- {
					b = mutate(r, b)
				}
			}
			if len(b) > d.maxLen {
				b = b[:d.maxLen]
			}
			st, dt := guarded(func() { d.run(b) }, 5*time.Second)
			if dt > slowest[d.name] {
				slowest[d.name] = dt
			}
			in := d.name + " " + h.Trunc(h.Hex(b), 4000)
			c.Hold(!strings.HasPrefix(st, "panic"), "no_panic", in, st, "value or error")
			c.Hold(st != "stall", "returns", in, st, "returns within 5 s")
			c.Case(d.name+"/"+kind, in, len(b) > 0)
			if st == "stall" {
				c.Note("decoder " + d.name + " stalled: no further inputs are tried on it (the stalled call keeps running)")
				break
			}
		}
	}
	for k, v := range slowest {
		c.Note(fmt.Sprintf("slowest call %s: %v", k, v))
	}

	// enum helpers: total over the whole range of the underlying integer type
	enumSweep(c)

	// linear time on the adversarial families the cost model identifies
	timingProbes(c)
}

func enumSweep(c *h.Ctx) {
	call := func(name string, v int, f func()) {
		st, _ := guarded(f, 5*time.Second)
		c.Hold(st == "ok", "enum_total", fmt.Sprintf("%s(%d)", name, v), st, "returns")
	}
	for v := 0; v < 256; v++ {
		u := uint8(v)
		call("aac.ObjectType", v, func() { _ = aac.ObjectType(u).String(); _ = aac.ObjectType(u).ToProfile() })
		call("aac.Profile", v, func() { _ = aac.Profile(u).String(); _ = aac.Profile(u).ToObjectType() })
		call("aac.SampleRateIndex", v, func() { _ = aac.SampleRateIndex(u).String(); _ = aac.SampleRateIndex(u).ToHz() })
		call("aac.Channels", v, func() { _ = aac.Channels(u).String() })
		call("flv.TagType", v, func() { _ = flv.TagType(u).String() })
		call("flv.AudioFrameTrait", v, func() { _ = flv.AudioFrameTrait(u).String() })
		call("flv.AudioChannels", v, func() {
			_ = flv.AudioChannels(u).String()
			var x flv.AudioChannels
			x.From(aac.Channels(u))
		})
		call("flv.AudioSampleBits", v, func() { _ = flv.AudioSampleBits(u).String() })
		call("flv.AudioSamplingRate", v, func() {
			_ = flv.AudioSamplingRate(u).String()
			_ = flv.AudioSamplingRate(u).ToHz()
			_ = flv.AudioSamplingRate(u).OpusToHz()
			var x flv.AudioSamplingRate
			x.From(aac.SampleRateIndex(u))
			x.OpusFrom(aac.SampleRateIndex(u))
		})
		call("flv.AudioCodec", v, func() { _ = flv.AudioCodec(u).String() })
		call("flv.VideoFrameType", v, func() { _ = flv.VideoFrameType(u).String() })
		call("flv.VideoCodec", v, func() { _ = flv.VideoCodec(u).String() })
		call("flv.VideoFrameTrait", v, func() { _ = flv.VideoFrameTrait(u).String() })
		call("avc.NALUType", v, func() { _ = avc.NALUType(u).String() })
		call("avc.AVCLevel", v, func() { _ = avc.AVCLevel(u).String() })
		call("ocsp.ResponseStatus", v, func() {
			_ = ocsp.ResponseStatus(v).String()
			_ = ocsp.ResponseError{Status: ocsp.ResponseStatus(v)}.Error()
		})
		c.Case("enum/uint8", fmt.Sprint("uint8 ", v), true)
	}
	for v := 0; v < 65536; v++ {
		u := uint16(v)
		call("avc.AVCProfile", v, func() { _ = avc.AVCProfile(u).String() })
		if v%256 == 0 {
			c.Case("enum/uint16", fmt.Sprint("uint16 ", v), true)
		}
	}
}

// threadCPU: the CPU time consumed by the calling OS thread (CLOCK_THREAD_CPUTIME_ID). Unlike wall-clock time it does
// not grow while the thread waits for a processor, so measurements stay usable on a loaded machine.
func threadCPU() time.Duration {
	var ts syscall.Timespec
	if _, _, e := syscall.Syscall(syscall.SYS_CLOCK_GETTIME, 3, uintptr(unsafe.Pointer(&ts)), 0); e != 0 {
		return time.Duration(time.Now().UnixNano())
	}
	return time.Duration(ts.Nano())
}

// best-of-5 timing of f, in CPU time of the (locked) thread that runs it
func bestOf(f func()) time.Duration {
	runtime.LockOSThread()
	defer runtime.UnlockOSThread()
	best := time.Duration(1 << 62)
	for i := 0; i < 5; i++ {
		t0 := threadCPU()
		f()
		if d := threadCPU() - t0; d < best {
			best = d
		}
	}
	return best
}

type family struct {
	name string
	gen  func(n int) []byte
	run  func(b []byte)
	n    int
}

func timingProbes(c *h.Ctx) {
	nestObj := func(n int) []byte { // n nested objects under key "a"
		var b []byte
		for i := 0; i < n; i++ {
			b = append(b, 3, 0, 1, 'a')
		}
		b = append(b, 5)
		for i := 0; i < n; i++ {
			b = append(b, 0, 0, 9)
		}
		return b
	}
	wideObj := func(n int) []byte {
		b := []byte{3}
		for i := 0; i < n; i++ {
			b = append(b, 0, 2, byte('a'+i%26), byte('a'+(i/26)%26), 5)
		}
		return append(b, 0, 0, 9)
	}
	nestStrict := func(n int) []byte {
		var b []byte
		for i := 0; i < n; i++ {
			b = append(b, 0x0a, 0, 0, 0, 1, 0, 1, 'k')
		}
		return append(b, 5)
	}
	amfRun := func(b []byte) {
		if a, err := amf0.Discovery(b); err == nil {
			a.UnmarshalBinary(b)
		}
	}
	fams := []family{
		{"amf0/nested-objects", nestObj, amfRun, c.N(4000, 8000)},
		{"amf0/nested-strict-arrays", nestStrict, amfRun, c.N(4000, 8000)},
		{"amf0/wide-object", wideObj, amfRun, c.N(6000, 12000)},
		{"json/many-comments", func(n int) []byte {
			var b bytes.Buffer
			b.WriteString("[")
			for i := 0; i < n; i++ {
				b.WriteString("1,/*c*/\"a\\\"b\",//x\n")
			}
			b.WriteString("0]")
			return b.Bytes()
		}, func(b []byte) { io.Copy(io.Discard, ojson.NewJsonPlusReader(bytes.NewReader(b))) }, c.N(3000, 3400)},
		{"rtmp/one-byte-chunks", func(n int) []byte {
			var w bytes.Buffer
			p := rtmp.NewProtocol(&h.RW{Writer: &w})
			p.WriteMessage(rtmp.VerifNewMessage(2, 1, 0, 0, []byte{0, 0, 0, 1}))
			p.WriteMessage(rtmp.VerifNewMessage(5, 9, 1, 0, make([]byte, n)))
			return w.Bytes()
		}, func(b []byte) {
			p := rtmp.NewProtocol(&h.RW{Reader: bytes.NewReader(b), Writer: io.Discard})
			p.ReadMessage()
			p.ReadMessage()
		}, c.N(16000, 32000)},
		{"flv/many-tags", func(n int) []byte {
			var w bytes.Buffer
			m, _ := flv.NewMuxer(&w)
			m.WriteHeader(true, true)
			for i := 0; i < n; i++ {
				m.WriteTag(flv.TagTypeVideo, uint32(i), []byte{0x17, 1})
			}
			return w.Bytes()
		}, func(b []byte) {
			d, _ := flv.NewDemuxer(bytes.NewReader(b))
			d.ReadHeader()
			for {
				_, sz, _, err := d.ReadTagHeader()
				if err != nil {
					return
				}
				if _, err := d.ReadTag(sz); err != nil {
					return
				}
			}
		}, c.N(2000, 3800)},
		{"avc/many-nalus", func(n int) []byte {
			var b []byte
			for i := 0; i < n; i++ {
				b = append(b, 0, 2, 0x65, 1)
			}
			return b
		}, func(b []byte) { avc.NewAVCSample(1).UnmarshalBinary(b) }, c.N(8000, 16000)},
		{"adts/many-frames", func(n int) []byte {
			a, _ := aac.NewADTS()
			ab, _ := (&aac.AudioSpecificConfig{Object: aac.ObjectTypeLC, SampleRate: aac.SampleRateIndex44kHz, Channels: aac.ChannelStereo}).MarshalBinary()
			a.SetASC(ab)
			var s []byte
			f, _ := a.Encode([]byte{1})
			for i := 0; i < n; i++ {
				s = append(s, f...)
			}
			return s
		}, func(b []byte) {
			a, _ := aac.NewADTS()
			for len(b) > 0 {
				_, left, err := a.Decode(b)
				if err != nil || len(left) >= len(b) {
					return
				}
				b = left
			}
		}, c.N(4000, 8000)},
	}
	for _, f := range fams {
		b1, b2 := f.gen(f.n), f.gen(2*f.n)
		if len(b2) > 65536+4096 {
			c.Note(fmt.Sprintf("timing %s: 2n input is %d bytes (> 64 KiB)", f.name, len(b2)))
		}
		t1 := bestOf(func() { f.run(b1) })
		t2 := bestOf(func() { f.run(b2) })
		ratio := float64(t2) / float64(t1+1)
		// a loaded machine makes single measurements noisy (other processes evict the caches): an alarm needs the ratio
		// of the BEST times over up to 12 more rounds to stay high (noise only ever adds time; a quadratic decoder stays
		// near 4 however often it is measured)
		for round := 0; round < 12 && ratio >= 3.2; round++ {
			if round >= 3 {
				time.Sleep(time.Duration(20*round) * time.Millisecond)
			}
			if d := bestOf(func() { f.run(b1) }); d < t1 {
				t1 = d
			}
			if d := bestOf(func() { f.run(b2) }); d < t2 {
				t2 = d
			}
			ratio = float64(t2) / float64(t1+1)
		}
		in := fmt.Sprintf("timing %s n=%d (%d B) vs 2n (%d B)", f.name, f.n, len(b1), len(b2))
		// linear: ratio about 2. Quadratic: about 4. Below 1 ms the measurement is noise and is not judged.
		judged := t2 > 2*time.Millisecond
		c.Hold(!judged || ratio < 3.2, "linear_time", in, fmt.Sprintf("t(n)=%v t(2n)=%v ratio=%.2f", t1, t2, ratio), "ratio < 3.2 (doubling the input must not quadruple the time)")
		c.Note(fmt.Sprintf("%s: t(n)=%v t(2n)=%v ratio=%.2f judged=%v", in, t1, t2, ratio, judged))
		c.Case("timing/"+f.name, in, true)
	}
}
