package main

// C01 — RTMP session round trip: two real Protocol endpoints, the Lean writer/reader model,
// and the property predicate (what the peer reads = what was written).

import (
	"io"
	"bytes"
	"fmt"
	"math/rand"
	"strings"

	"github.com/ossrs/go-oryx-lib/rtmp"
	"verifharness/internal/h"
)

func init() { register("C01", c01) }

type rmsg struct {
	cid, ty, sid uint32
	ts           uint64
	payload      []byte
	desc         string // payload descriptor for the oracle (hex or p:len:seed)
}

func (m rmsg) str() string {
	return fmt.Sprintf("%d.%d.%d.%d.%s", m.cid, m.ty, m.sid, m.ts, m.desc)
}
func rmsgsStr(ms []rmsg) string {
	if len(ms) == 0 {
		return "_"
	}
	p := make([]string, len(ms))
	for i, m := range ms {
		p[i] = m.str()
	}
	return strings.Join(p, ",")
}

func payloadOf(r *h.Rand, n int) ([]byte, string) {
	if n <= 48 {
		b := r.Bytes(n)
		return b, h.Hex(b)
	}
	seed := uint32(r.U64())
	return h.LCGBytes(n, seed), fmt.Sprintf("p:%d:%d", n, seed)
}

var tsBoundary = []uint64{0, 1, 0xFFFFFE, 0xFFFFFF, 0x1000000, 0x7FFFFFFF, 0x7FFFFFFE, 1000, 0x00FFFFFD}

func genTs(r *h.Rand) uint64 {
	if r.Chance(60) {
		return tsBoundary[r.Intn(len(tsBoundary))]
	}
	return r.U64() % (1 << 31)
}

// genLen picks a payload length around the boundaries of the current chunk size c.
func genLen(r *h.Rand, c int, big bool) int {
	k := 1 + r.Intn(4)
	cands := []int{1, 2, c - 1, c, c + 1, k*c - 1, k * c, k*c + 1, 127, 128, 129}
	if big {
		cands = append(cands, 65535, 65536, 65537)
	}
	n := cands[r.Intn(len(cands))]
	if n < 1 {
		n = 1
	}
	max := 70000
	if !big || c < 64 {
		// the model appends chunk by chunk (quadratic in the number of chunks): keep tiny chunk sizes to short messages
		max = 4000
	}
	if n > max {
		n = 1 + r.Intn(max)
	}
	return n
}

var chunkAnnounce = []uint32{1, 2, 3, 127, 128, 129, 4096, 65536, 1 << 24, 1<<31 - 1, 60000, 7}

// genSession builds one direction of a session: messages incl. Set Chunk Size announcements.
func genSession(r *h.Rand, n int, big bool) []rmsg {
	c := 128
	var ms []rmsg
	for i := 0; i < n; i++ {
		var m rmsg
		m.cid = uint32(2 + r.Intn(62))
		m.sid = uint32(r.Pick(0, 1, 2, 0x01020304, 0xFFFFFFFF))
		m.ts = genTs(r)
		switch r.Intn(10) {
		case 0, 1: // Set Chunk Size
			v := chunkAnnounce[r.Intn(len(chunkAnnounce))]
			m.ty = 1
			m.payload = []byte{byte(v >> 24), byte(v >> 16), byte(v >> 8), byte(v)}
			if r.Chance(20) {
				m.payload = append(m.payload, r.Bytes(1+r.Intn(3))...) // longer body: first 4 bytes count
			}
			m.desc = h.Hex(m.payload)
			m.cid = 2
			if r.Chance(25) {
				m.cid = uint32(3 + r.Intn(60)) // a Set Chunk Size is what its message type says, on whatever chunk stream it travels
			}
			ms = append(ms, m)
			c = int(v)
			if c > 1<<20 {
				c = 1 << 20 // only for choosing lengths
			}
			continue
		case 2: // window ack size
			m.ty = 5
			m.payload = r.Bytes(4)
			m.desc = h.Hex(m.payload)
		case 3: // user control, well-formed bodies of 3 / 6 / 10 bytes
			m.ty = 4
			switch r.Intn(3) {
			case 0:
				m.payload = []byte{0, 0x1a, byte(r.U64())}
			case 1:
				m.payload = append([]byte{0, byte(r.Pick(0, 1, 2, 4, 6, 7))}, r.Bytes(4)...)
			default:
				m.payload = append([]byte{0, 3}, r.Bytes(8)...)
			}
			m.desc = h.Hex(m.payload)
		default:
			m.ty = uint32(r.Pick(8, 9, 18, 20, 15, 17, 6, 3, 2, 22, 255, 0))
			m.payload, m.desc = payloadOf(r, genLen(r, c, big))
		}
		ms = append(ms, m)
	}
	return ms
}

// c01Reuse: the application's Message objects, one per (chunk stream, message stream): a sender that produces a frame
// at a time keeps its Message and only assigns the exported fields (type, timestamp, payload) before writing it
// again. Nothing of an earlier write may stick to the object.
var c01Reuse = map[[2]uint32]*rtmp.Message{}

// c01Touched: writes that changed the caller's payload buffer (reported at the end of c01).
var c01Touched []string

func writeSession(p *rtmp.Protocol, ms []rmsg) string {
	return h.Safe(func() string {
		for i, m := range ms {
			// the payload is the caller's: a slice with spare capacity behind it (part of a larger buffer); neither the
			// payload nor the bytes behind it may be touched by the write
			arena := make([]byte, len(m.payload)+8)
			copy(arena, m.payload)
			copy(arena[len(m.payload):], "\x5a\x5a\x5a\x5a\x5a\x5a\x5a\x5a")
			orig := m.payload
			m.payload = arena[:len(orig)]
			defer func(i int) {
				if !bytes.Equal(arena[:len(orig)], orig) || string(arena[len(orig):]) != "\x5a\x5a\x5a\x5a\x5a\x5a\x5a\x5a" {
					c01Touched = append(c01Touched, fmt.Sprintf("message %d (%d bytes): the caller's buffer changed during WriteMessage", i, len(orig)))
				}
			}(i)
			key := [2]uint32{m.cid, m.sid}
			msg := c01Reuse[key]
			if msg == nil || i%3 == 2 { // every third message through a fresh object
				msg = rtmp.VerifNewMessage(m.cid, rtmp.MessageType(m.ty), m.sid, m.ts, m.payload)
				c01Reuse[key] = msg
			} else {
				msg.MessageType, msg.Timestamp, msg.Payload = rtmp.MessageType(m.ty), m.ts, m.payload
			}
			if err := p.WriteMessage(msg); err != nil {
				return fmt.Sprintf("err at %d", i)
			}
		}
		return "ok"
	})
}

// readSession reads up to k messages; returns those read (canonical), status and final in-chunk size.
// The messages are HELD until the whole sequence has been read and only then rendered: an application
// that queues or relays messages must still find every earlier message intact after later reads.
func readSession(p *rtmp.Protocol, k int) ([]string, string) {
	var held []*rtmp.Message
	status := h.Safe(func() string {
		for i := 0; i < k; i++ {
			m, err := p.ReadMessage()
			if err != nil {
				return errClass(err)
			}
			held = append(held, m)
		}
		return "ok"
	})
	var got []string
	for _, m := range held {
		cid, ty, sid, ts, plen := rtmp.VerifMessageFields(m)
		if int(plen) != len(m.Payload) {
			return got, "bad-length-field"
		}
		got = append(got, fmt.Sprintf("%d.%d.%d.%d.%s", cid, ty, sid, ts, h.Hex(m.Payload)))
	}
	return got, status
}

func c01(c *h.Ctx) {
	r := c.R
	defer func() {
		for i, m := range c01Touched {
			if i < 3 {
				c.Hold(false, "write.caller_buffer_untouched", m, "changed", "unchanged")
			}
		}
		c01Touched = nil
	}()
	nsess := c.N(150, 3000)
	for s := 0; s < nsess; s++ {
		big := r.Chance(15)
		mode := r.Intn(4)
		dirs := [2][]rmsg{genSession(r, 1+r.Intn(12), big), genSession(r, 1+r.Intn(12), big)}
		// wires[d] carries what endpoint d wrote (handshake, then chunks).
		var wires [2]bytes.Buffer
		hs := [2]*rtmp.Handshake{rtmp.NewHandshake(rand.New(rand.NewSource(int64(r.U64())))), rtmp.NewHandshake(rand.New(rand.NewSource(int64(r.U64()))))}
		// simple handshake: each side writes C0 C1, reads the peer's, echoes it as C2, reads C2.
		for d := 0; d < 2; d++ {
			hs[d].WriteC0S0(&wires[d])
			hs[d].WriteC1S1(&wires[d])
		}
		hsOK := true
		var rds [2]*h.SegReader
		for d := 0; d < 2; d++ {
			// endpoint d reads peer's C0C1 from wires[1-d] (segmented), then writes C2 = echo
			rd := &h.SegReader{Data: append([]byte(nil), wires[1-d].Bytes()...), R: r.Fork(), Mode: mode}
			c0, e0 := hs[d].ReadC0S0(rd)
			c1, e1 := hs[d].ReadC1S1(rd)
			if e0 != nil || e1 != nil || len(c0) != 1 || c0[0] != 3 || len(c1) != 1536 {
				hsOK = false
			}
			rds[d] = rd
			hs[d].WriteC2S2(&wires[d], c1)
		}
		c.Hold(hsOK, "handshake.c0c1", fmt.Sprintf("session %d", s), "bad", "C0=03,C1=1536B")
		for d := 0; d < 2; d++ {
			c.Hold(wires[d].Len() == 3073, "handshake.lengths", fmt.Sprintf("session %d", s), fmt.Sprint(wires[d].Len()), "3073")
		}
		// model: the handshake reader consumes exactly 1+1536+1536
		hsm := c.O.Call("rtmp.hs.read", h.Hex(wires[0].Bytes()))
		c.Eq("hs.read", "rtmp.hs.read <3073B>", "ok 03 1536 1536 0", hsm)

		// now the chunk streams: endpoint d writes dirs[d] through a real Protocol. Half of the sessions are DUPLEX:
		// each endpoint is ONE Protocol that writes its own messages and reads the peer's, the two activities
		// interleaved at random (a read is enabled once the peer has written that message). What an endpoint
		// announces with Set Chunk Size governs only what it writes, what it receives governs only how it reads, so
		// each direction must come out exactly as in the simplex sessions. The other half writes everything first and
		// reads it back with a fresh Protocol.
		duplex := r.Bool()
		var protos, readers [2]*rtmp.Protocol
		var chunkWire [2]bytes.Buffer
		var wst, rstatus [2]string
		var got [2][]string
		var c2ok [2]bool
		var c2err [2]error
		if duplex {
			var srd [2]*h.SegReader
			for d := 0; d < 2; d++ {
				c2rd := &h.SegReader{Data: append([]byte(nil), wires[1-d].Bytes()[1537:]...), R: r.Fork(), Mode: mode}
				c2, e2 := hs[d].ReadC2S2(c2rd)
				c2ok[d], c2err[d] = e2 == nil && len(c2) == 1536 && c2rd.Pos == len(c2rd.Data), e2
				srd[d] = &h.SegReader{R: r.Fork(), Mode: mode}
				protos[d] = rtmp.NewProtocol(&h.RW{Reader: srd[d], Writer: &chunkWire[d]})
				readers[d] = protos[d]
				wst[d], rstatus[d] = "ok", "ok"
			}
			var wrote [2]int
			var held [2][]*rtmp.Message
			for {
				type act struct {
					d     int
					write bool
				}
				var acts []act
				for d := 0; d < 2; d++ {
					if wst[d] == "ok" && wrote[d] < len(dirs[d]) {
						acts = append(acts, act{d, true})
					}
					if rstatus[d] == "ok" && len(held[d]) < wrote[1-d] {
						acts = append(acts, act{d, false})
					}
				}
				if len(acts) == 0 {
					break
				}
				a := acts[r.Intn(len(acts))]
				if a.write {
					if st := writeSession(protos[a.d], dirs[a.d][wrote[a.d]:wrote[a.d]+1]); st != "ok" {
						wst[a.d] = fmt.Sprintf("err at %d", wrote[a.d])
					} else {
						wrote[a.d]++
					}
				} else {
					srd[a.d].Data = chunkWire[1-a.d].Bytes()
					rstatus[a.d] = h.Safe(func() string {
						m, err := protos[a.d].ReadMessage()
						if err != nil {
							return errClass(err)
						}
						held[a.d] = append(held[a.d], m)
						return "ok"
					})
				}
			}
			for d := 0; d < 2; d++ {
				srd[d].Data = chunkWire[1-d].Bytes()
				for _, m := range held[d] { // rendered only now: every message was held while the session went on
					cid, ty, sid, ts, plen := rtmp.VerifMessageFields(m)
					if int(plen) != len(m.Payload) {
						rstatus[d] = "bad-length-field"
						break
					}
					got[d] = append(got[d], fmt.Sprintf("%d.%d.%d.%d.%s", cid, ty, sid, ts, h.Hex(m.Payload)))
				}
			}
		} else {
			for d := 0; d < 2; d++ {
				protos[d] = rtmp.NewProtocol(&h.RW{Reader: nil, Writer: &chunkWire[d]})
				wst[d] = writeSession(protos[d], dirs[d])
			}
			// endpoint d reads what 1-d wrote: C2 first (rest of the handshake), then messages, segmented transport
			for d := 0; d < 2; d++ {
				peer := 1 - d
				rest := append(append([]byte(nil), wires[peer].Bytes()[1537:]...), chunkWire[peer].Bytes()...)
				rd := &h.SegReader{Data: rest, R: r.Fork(), Mode: mode}
				c2, e2 := hs[d].ReadC2S2(rd)
				c2ok[d], c2err[d] = e2 == nil && len(c2) == 1536, e2
				readers[d] = rtmp.NewProtocol(&h.RW{Reader: rd, Writer: &bytes.Buffer{}})
				got[d], rstatus[d] = readSession(readers[d], len(dirs[peer]))
			}
		}
		for d := 0; d < 2; d++ {
			in := fmt.Sprintf("rtmp.write 128 %s", rmsgsStr(dirs[d]))
			if duplex {
				in += " (duplex endpoint)"
			}
			c.Hold(wst[d] == "ok", "write.ok", h.Trunc(in, 600), wst[d], "ok")
			c.Eq("write", h.Trunc(in, 600), "ok "+h.Hex(chunkWire[d].Bytes()), c.O.Call("rtmp.write", "128", rmsgsStr(dirs[d])))
			_, out := rtmp.VerifChunkSizes(protos[d])
			c.Eq("write.outchunk", h.Trunc(in, 600), fmt.Sprint(out), c.O.Call("rtmp.outchunk", "128", rmsgsStr(dirs[d])))
		}
		for d := 0; d < 2; d++ {
			peer := 1 - d
			c.Hold(c2ok[d], "handshake.c2", fmt.Sprintf("session %d", s), fmt.Sprint(c2err[d]), "1536B")
			pr := readers[d]
			in := fmt.Sprintf("session: write 128 %s ; read back (segmentation mode %d)", rmsgsStr(dirs[peer]), mode)
			if duplex {
				in = fmt.Sprintf("duplex session: the reading endpoint itself writes 128 %s ; peer writes 128 %s ; read back (segmentation mode %d)", h.Trunc(rmsgsStr(dirs[d]), 300), rmsgsStr(dirs[peer]), mode)
			}
			want := make([]string, len(dirs[peer]))
			for i, m := range dirs[peer] {
				want[i] = fmt.Sprintf("%d.%d.%d.%d.%s", m.cid, m.ty, m.sid, m.ts, h.Hex(m.payload))
			}
			// property: exactly the written sequence, identical type/stream id/timestamp/payload
			c.Hold(rstatus[d] == "ok" && strings.Join(got[d], ",") == strings.Join(want, ","), "session.roundtrip", h.Trunc(in, 800),
				h.Trunc(rstatus[d]+" "+strings.Join(got[d], ","), 300), h.Trunc("ok "+strings.Join(want, ","), 300))
			// nothing left unread, and a further read hits clean EOF
			_, st2 := readSession(pr, 1)
			c.Hold(st2 == "err-eof", "session.clean_eof", h.Trunc(in, 800), st2, "err-eof")
			// correspondence: model reader on the same wire
			inC, _ := rtmp.VerifChunkSizes(pr)
			mrep := c.O.Call("rtmp.read", "128", fmt.Sprint(len(dirs[peer])), h.Hex(chunkWire[peer].Bytes()))
			gotS := "_"
			if len(got[d]) > 0 {
				gotS = strings.Join(got[d], ",")
			}
			c.Eq("read", h.Trunc(in, 800), fmt.Sprintf("%s %s %d 0", gotS, rstatus[d], inC), mrep)
		}
		nset := 0
		maxLen := 0
		for _, m := range append(dirs[0], dirs[1]...) {
			if m.ty == 1 {
				nset++
			}
			if len(m.payload) > maxLen {
				maxLen = len(m.payload)
			}
		}
		c.Case(fmt.Sprintf("session/duplex=%v,seg=%d,setchunk=%s,maxlen=%s", duplex, mode, cls(nset), lenClass(maxLen)), rmsgsStr(dirs[0])+"|"+rmsgsStr(dirs[1]), true)
	}

	// An endpoint that writes while one of its reads is in progress: the transport delivers the peer's stream up to
	// offset k (anywhere: inside a basic header, a message header, an extended timestamp, a payload), and before it
	// delivers the rest the endpoint writes a message of its own — what a writer goroutine does while the reader
	// goroutine waits for the network. The two directions share no data: the messages read are the peer's, the bytes
	// written are those of a write-only endpoint.
	{
		peerMsgs := []rmsg{
			{cid: 3, ty: 20, sid: 0, ts: 1000, payload: h.LCGBytes(20, 1)},
			{cid: 4, ty: 9, sid: 1, ts: 0x1000000 + 5, payload: h.LCGBytes(300, 2)},
			{cid: 4, ty: 9, sid: 1, ts: 0x1000000 + 45, payload: h.LCGBytes(9, 3)},
			{cid: 63, ty: 8, sid: 1, ts: 33, payload: h.LCGBytes(130, 4)},
		}
		own := []rmsg{{cid: 5, ty: 18, sid: 7, ts: 0x2000001, payload: h.LCGBytes(200, 9)}, {cid: 2, ty: 1, sid: 0, ts: 0, payload: []byte{0, 0, 1, 0}}, {cid: 5, ty: 18, sid: 7, ts: 0x2000002, payload: h.LCGBytes(300, 8)}}
		var peerWire, ownWire bytes.Buffer
		writeSession(rtmp.NewProtocol(&h.RW{Writer: &peerWire}), peerMsgs)
		writeSession(rtmp.NewProtocol(&h.RW{Writer: &ownWire}), own)
		want := make([]string, len(peerMsgs))
		for i, m := range peerMsgs {
			want[i] = fmt.Sprintf("%d.%d.%d.%d.%s", m.cid, m.ty, m.sid, m.ts, h.Hex(m.payload))
		}
		n := peerWire.Len()
		var ks []int
		for k := 1; k < n; k++ {
			if c.Thorough() || k < 48 || k%7 == 0 || (k > 330 && k < 380) {
				ks = append(ks, k)
			}
		}
		for _, k := range ks {
			var out bytes.Buffer
			var p *rtmp.Protocol
			rd := &c01HookReader{data: peerWire.Bytes(), k: k}
			rd.hook = func() { rd.st = writeSession(p, own) }
			p = rtmp.NewProtocol(&h.RW{Reader: rd, Writer: &out})
			got, status := readSession(p, len(peerMsgs))
			in := fmt.Sprintf("the endpoint writes %s after the transport delivered the first %d of %d bytes of the peer's %s and before it delivers the rest", rmsgsStr(own), k, n, rmsgsStr(peerMsgs))
			c.Hold(status == "ok" && strings.Join(got, ",") == strings.Join(want, ","), "session.roundtrip", h.Trunc(in, 900), h.Trunc(status+" "+strings.Join(got, ","), 3000), h.Trunc("ok "+strings.Join(want, ","), 3000))
			c.Hold(rd.st == "ok" && bytes.Equal(out.Bytes(), ownWire.Bytes()), "write.independent_of_reads", h.Trunc(in, 900), rd.st+" "+h.Trunc(h.Hex(out.Bytes()), 200), "ok "+h.Trunc(h.Hex(ownWire.Bytes()), 200))
			c.Case("write-inside-read", fmt.Sprint(k), true)
		}
	}

	// fixed regression inputs of repaired defects (F17, F3)
	regress := [][]rmsg{
		{{cid: 5, ty: 9, sid: 1, ts: 0, payload: h.LCGBytes(129, 7), desc: "p:129:7"}},                                                                                  // F17
		{{cid: 2, ty: 1, sid: 0, ts: 0, payload: []byte{0, 0, 16, 0}, desc: "00001000"}, {cid: 5, ty: 9, sid: 1, ts: 40, payload: h.LCGBytes(200, 9), desc: "p:200:9"}}, // F3
		{{cid: 7, ty: 9, sid: 1, ts: 0xFFFFFF, payload: h.LCGBytes(300, 3), desc: "p:300:3"}},
		// chunk sizes above 64 KiB with messages longer than 64 KiB (one chunk each on both sides)
		{{cid: 2, ty: 1, sid: 0, ts: 0, payload: []byte{0, 2, 0, 0}, desc: "00020000"}, {cid: 6, ty: 9, sid: 1, ts: 7, payload: h.LCGBytes(70000, 5), desc: "p:70000:5"}},
		{{cid: 2, ty: 1, sid: 0, ts: 0, payload: []byte{0, 0xff, 0xff, 0xff}, desc: "00ffffff"}, {cid: 6, ty: 8, sid: 1, ts: 9, payload: h.LCGBytes(200000, 6), desc: "p:200000:6"}, {cid: 6, ty: 8, sid: 1, ts: 10, payload: h.LCGBytes(3, 7), desc: "p:3:7"}},
		{{cid: 2, ty: 1, sid: 0, ts: 0, payload: []byte{0x7f, 0xff, 0xff, 0xff}, desc: "7fffffff"}, {cid: 9, ty: 18, sid: 1, ts: 0x7fffffff, payload: h.LCGBytes(65537, 8), desc: "p:65537:8"}},
	}
	for _, ms := range regress {
		var wire bytes.Buffer
		pw := rtmp.NewProtocol(&h.RW{Writer: &wire})
		st := writeSession(pw, ms)
		pr := rtmp.NewProtocol(&h.RW{Reader: &h.SegReader{Data: wire.Bytes(), R: r.Fork(), Mode: 0}, Writer: &bytes.Buffer{}})
		got, status := readSession(pr, len(ms))
		want := make([]string, len(ms))
		for i, m := range ms {
			want[i] = fmt.Sprintf("%d.%d.%d.%d.%s", m.cid, m.ty, m.sid, m.ts, h.Hex(m.payload))
		}
		in := "regression: write 128 " + rmsgsStr(ms)
		c.Hold(st == "ok" && status == "ok" && strings.Join(got, ",") == strings.Join(want, ","), "session.roundtrip", in, status+" "+h.Trunc(strings.Join(got, ","), 200), "ok "+h.Trunc(strings.Join(want, ","), 200))
		c.Case("regression", in, true)
	}
}

// c01HookReader delivers data[:k], runs hook once (from inside the Read call that would deliver data[k]), then the rest.
type c01HookReader struct {
	data []byte
	pos  int
	k    int
	hook func()
	done bool
	st   string
}

func (r *c01HookReader) Read(p []byte) (int, error) {
	if r.pos == r.k && !r.done {
		r.done = true
		r.hook()
	}
	if r.pos >= len(r.data) {
		return 0, io.EOF
	}
	end := len(r.data)
	if r.pos < r.k {
		end = r.k
	}
	n := copy(p, r.data[r.pos:end])
	r.pos += n
	return n, nil
}

func lenClass(n int) string {
	switch {
	case n <= 128:
		return "<=128"
	case n <= 4096:
		return "<=4096"
	case n < 65535:
		return "<65535"
	default:
		return ">=65535"
	}
}

func errClass(err error) string {
	return h.ErrClass(err)
}
