package main

// Retained outputs: every byte slice an encoder hands to the caller is kept (with a snapshot of its content at that
// moment) and looked at again at the end of the run. An application queues several encoded values before it writes
// them: what it was given must not change when other values are encoded afterwards (a pooled or per-object scratch
// buffer returned to the caller would).

import (
	"fmt"

	"verifharness/internal/h"
)

type keptOut struct {
	b    []byte
	snap string
	desc string
}

var (
	keptRing  []keptOut
	keptBytes int
)

// keep registers b and returns it.
func keep(desc string, b []byte) []byte {
	if len(b) > 0 && len(keptRing) < 4000 && keptBytes < 8<<20 {
		keptRing = append(keptRing, keptOut{b, string(b), h.Trunc(desc, 200)})
		keptBytes += len(b)
	}
	return b
}

// keptCheck reports (at most three) retained slices whose content changed, and forgets them all.
func keptCheck(c *h.Ctx, clause string) {
	bad := 0
	for i, k := range keptRing {
		if string(k.b) != k.snap && bad < 3 {
			bad++
			c.Hold(false, clause, fmt.Sprintf("output #%d of %d retained: %s", i, len(keptRing), k.desc), h.Trunc(h.Hex(k.b), 160), h.Trunc(h.Hex([]byte(k.snap)), 160))
		}
	}
	c.Note(fmt.Sprintf("retained encoder outputs re-checked: %d", len(keptRing)))
	keptRing, keptBytes = nil, 0
}
