package main

// C18 — connection ids and log lines. Real logger package (WithContext/AliasContext, the eight log
// functions through a Switch-ed writer) vs the Lean model (Oryx.Logger) through the oracle, plus the
// runtime oracles the model cannot give: id uniqueness under real goroutines, one Write per line,
// and (thorough tier) the race detector on a generated stress test.

import (
	"bytes"
	"context"
	"fmt"
	"os"
	"os/exec"
	"path/filepath"
	"regexp"
	"sort"
	"strings"
	"sync"

	ol "github.com/ossrs/go-oryx-lib/logger"
	"verifharness/internal/h"
)

func init() { register("C18", c18) }

// c18sink records every Write call separately (one log.Logger.Output = one Write).
type c18sink struct {
	mu     sync.Mutex
	writes [][]byte
}

func (s *c18sink) Write(p []byte) (int, error) {
	s.mu.Lock()
	s.writes = append(s.writes, append([]byte(nil), p...))
	s.mu.Unlock()
	return len(p), nil
}
// c18plain: like c18sink but NOT an io.Closer.
type c18plain struct {
	mu sync.Mutex
	ws [][]byte
}

func (s *c18plain) Write(p []byte) (int, error) {
	s.mu.Lock()
	s.ws = append(s.ws, append([]byte(nil), p...))
	s.mu.Unlock()
	return len(p), nil
}
func (s *c18plain) take() [][]byte {
	s.mu.Lock()
	defer s.mu.Unlock()
	w := s.ws
	s.ws = nil
	return w
}

func (s *c18sink) Close() error { return nil } // an io.Closer: the logger then writes no colour escapes to stdout
func (s *c18sink) take() [][]byte {
	s.mu.Lock()
	defer s.mu.Unlock()
	w := s.writes
	s.writes = nil
	return w
}

type c18obj int

func (o c18obj) Cid() int { return int(o) }

type c18ctx struct {
	v     interface{} // what is passed to the log function
	model string      // nil | obj:<n> | ctx:<n> | ctxnone | other
	want  string      // expected result of parsing the prefix: "pid P" | "pidcid P C" | "none"
}

type c18ctxKey string

func c18contexts(r *h.Rand, pid int) []c18ctx {
	lib := ol.WithContext(context.Background())
	cid, _ := ol.VerifCid(lib)
	child := context.WithValue(lib, c18ctxKey("k"), 1)
	cancel, stop := context.WithCancel(lib)
	stop()
	alias := ol.AliasContext(context.Background(), lib)
	objs := []int{0, 1, -1, 7, 1000, -2147483648, 9223372036854775807, r.Intn(100000)}
	out := []c18ctx{
		{nil, "nil", fmt.Sprintf("pid %d", pid)},
		{lib, fmt.Sprintf("ctx:%d", cid), fmt.Sprintf("pidcid %d %d", pid, cid)},
		{child, fmt.Sprintf("ctx:%d", cid), fmt.Sprintf("pidcid %d %d", pid, cid)},
		{cancel, fmt.Sprintf("ctx:%d", cid), fmt.Sprintf("pidcid %d %d", pid, cid)},
		{alias, fmt.Sprintf("ctx:%d", cid), fmt.Sprintf("pidcid %d %d", pid, cid)},
		{context.Background(), "ctxnone", "none"},
		{context.TODO(), "ctxnone", "none"},
		{context.WithValue(context.Background(), c18ctxKey("cid"), 5), "ctxnone", "none"},
		// values the APPLICATION keeps in the context under keys of its own — plain strings among them, whatever they
		// spell — are not the connection id: the line carries the id the library put there (or none)
		{context.WithValue(lib, "cid.logger.ossrs.org", 7), fmt.Sprintf("ctx:%d", cid), fmt.Sprintf("pidcid %d %d", pid, cid)},
		{context.WithValue(lib, "cid.logger.ossrs.org", "seven"), fmt.Sprintf("ctx:%d", cid), fmt.Sprintf("pidcid %d %d", pid, cid)},
		{context.WithValue(context.WithValue(lib, "cid", 8), "cidKey", 9), fmt.Sprintf("ctx:%d", cid), fmt.Sprintf("pidcid %d %d", pid, cid)},
		{context.WithValue(context.Background(), "cid.logger.ossrs.org", 7), "ctxnone", "none"},
		{ol.AliasContext(context.Background(), context.WithValue(lib, "cid.logger.ossrs.org", 7)), fmt.Sprintf("ctx:%d", cid), fmt.Sprintf("pidcid %d %d", pid, cid)},
		{"a string", "other", "none"},
		{42, "other", "none"},
		{struct{}{}, "other", "none"},
	}
	for _, o := range objs {
		out = append(out, c18ctx{c18obj(o), fmt.Sprintf("obj:%d", o), fmt.Sprintf("pidcid %d %d", pid, o)})
	}
	return out
}

var c18levels = []string{"info", "trace", "warn", "error"}

// c18log calls one of the eight functions; returns the model's `call` argument.
func c18log(level string, printf bool, ctx interface{}, ops []interface{}, format string) string {
	if printf {
		switch level {
		case "info":
			ol.If(ctx, format, ops...)
		case "trace":
			ol.Tf(ctx, format, ops...)
		case "warn":
			ol.Wf(ctx, format, ops...)
		default:
			ol.Ef(ctx, format, ops...)
		}
		return "f:" + h.Hex([]byte(fmt.Sprintf(format, ops...)))
	}
	switch level {
	case "info":
		ol.I(ctx, ops...)
	case "trace":
		ol.T(ctx, ops...)
	case "warn":
		ol.W(ctx, ops...)
	default:
		ol.E(ctx, ops...)
	}
	if len(ops) == 0 {
		return "ln:_"
	}
	parts := make([]string, len(ops))
	for i, o := range ops {
		parts[i] = h.Hex([]byte(fmt.Sprint(o)))
	}
	return "ln:" + strings.Join(parts, ",")
}

var c18lineRe = regexp.MustCompile(`^\[(info|trace|warn|error)\] (\d{4}/\d{2}/\d{2} \d{2}:\d{2}:\d{2}\.\d{6}) `)

var c18msgs = []string{"hello", "", " ", "two words", "x=1 y=2", "[not-a-prefix", "]", "[1][2] forged", "é日本😀", "tab\there", "%v %d %s", "100%", strings.Repeat("long ", 200)}

func c18(c *h.Ctx) {
	r := c.R
	pid := os.Getpid()
	sink := &c18sink{}
	ol.Switch(sink)
	defer ol.Close()

	// The very first lines of the process come from several goroutines at once (a server that starts its listeners
	// and workers together): 16 goroutines held at a barrier each create a context and log through all four levels.
	// Whatever the package sets up on first use is set up here, under the race detector when the harness is built
	// with it. Every line is whole and carries its goroutine's id.
	{
		const G = 16
		var ready, done sync.WaitGroup
		gate := make(chan struct{})
		cids := make([]int, G)
		for g := 0; g < G; g++ {
			ready.Add(1)
			done.Add(1)
			go func(g int) {
				defer done.Done()
				ready.Done()
				<-gate
				ctx := ol.WithContext(context.Background())
				cids[g], _ = ol.VerifCid(ctx)
				ol.T(ctx, "first", g)
				ol.Wf(ctx, "first %d", g)
				ol.E(ctx, "first", g)
				ol.Tf(nil, "first nil %d", g)
			}(g)
		}
		ready.Wait()
		close(gate)
		done.Wait()
		lines := sink.take()
		seen := map[string]int{}
		for _, l := range lines {
			seen[string(l)]++
		}
		okAll := len(lines) == 4*G
		for g := 0; g < G && okAll; g++ {
			n := 0
			for l := range seen {
				if strings.Contains(l, fmt.Sprintf("[%d][%d] first %d\n", pid, cids[g], g)) {
					n++
				}
			}
			okAll = n == 3
		}
		c.Hold(okAll, "one_line.first_lines_of_the_process", "16 goroutines released together, each: WithContext, T, Wf, E with its context and Tf(nil)", fmt.Sprintf("%d lines", len(lines)), "64 whole lines, three per goroutine with its id")
		c.Case("first-lines", "16", true)
	}

	// ------------------------------------------------------------ 0. the discipline (gate seen from the harness)
	mode := c.O.Call("logger.mode")
	alloc := "a1" // one allocation by goroutine 1 in the model's op language
	if mode == "plainRMW" {
		alloc = "l1,s1"
	}
	wit := c.O.Call("logger.run", "plainRMW", "999", "l1,l2,s1,s2")
	c.Hold(strings.HasSuffix(wit, "nodup=false"), "ids_dup_witness", "logger.run plainRMW 999 l1,l2,s1,s2", wit, "nodup=false")
	c.Case("alloc/model-witness", "logger.run plainRMW 999 l1,l2,s1,s2", true)

	c18stress(c, 64, 2000)
	if c.Thorough() {
		c18race(c) // the race detector on a generated stress test (needs cgo; skipped with a note otherwise)
	}

	// ------------------------------------------------------------ 1. sequential traces: implementation = model, id for id
	ntr := c.N(60, 1500)
	for t := 0; t < ntr; t++ {
		first := ol.WithContext(context.Background())
		base, _ := ol.VerifCid(first)
		var issued, aliases, ops []string
		var live []context.Context
		n := 1 + r.Intn(30)
		for i := 0; i < n; i++ {
			switch k := r.Intn(5); {
			case k <= 1:
				ctx := ol.WithContext(context.Background())
				id, ok := ol.VerifCid(ctx)
				c.Hold(ok, "with_context.has_id", "trace", "no id", "id")
				issued = append([]string{fmt.Sprintf("1:%d", id)}, issued...)
				ops = append(ops, alloc)
				live = append(live, ctx)
			case k == 2 && len(live) > 0:
				src := live[r.Intn(len(live))]
				sid, _ := ol.VerifCid(src)
				parent := context.Background()
				switch r.Intn(4) {
				case 0:
					parent = context.WithValue(parent, c18ctxKey("p"), i)
				case 1, 2:
					// the parent is itself bound to ANOTHER connection (e.g. the listener's context, possibly
					// wrapped by WithCancel / WithValue): the alias must still carry the SOURCE's id
					parent = live[r.Intn(len(live))]
					if r.Bool() {
						var cancel context.CancelFunc
						parent, cancel = context.WithCancel(parent)
						defer cancel()
					}
				}
				a := ol.AliasContext(parent, src)
				aid, _ := ol.VerifCid(a)
				aliases = append([]string{fmt.Sprintf("%d:%d", sid, aid)}, aliases...)
				ops = append(ops, fmt.Sprintf("x1:%d", sid))
				c.Hold(aid == sid, "alias_equals_source", fmt.Sprintf("alias of %d", sid), fmt.Sprint(aid), fmt.Sprint(sid))
			default:
				// source nil or without id: AliasContext allocates a fresh id
				var src context.Context
				if r.Bool() {
					src = context.Background()
				}
				ctx := ol.AliasContext(context.Background(), src)
				id, ok := ol.VerifCid(ctx)
				c.Hold(ok, "alias_fallback.has_id", "trace", "no id", "id")
				issued = append([]string{fmt.Sprintf("1:%d", id)}, issued...)
				ops = append(ops, alloc)
				live = append(live, ctx)
			}
		}
		j := func(l []string) string {
			if len(l) == 0 {
				return "_"
			}
			return strings.Join(l, ",")
		}
		in := fmt.Sprintf("logger.run current %d %s", base, strings.Join(ops, ","))
		impl := fmt.Sprintf("issued=%s aliases=%s", j(issued), j(aliases))
		model := c.O.Call("logger.run", "current", fmt.Sprint(base), strings.Join(ops, ","))
		if k := strings.Index(model, "issued="); k >= 0 {
			model = strings.TrimSuffix(model[k:], " nodup=true")
		}
		c.Eq("alloc.trace", in, impl, model)
		c.Case("alloc/sequential-trace", fmt.Sprintf("%d ops %s", n, strings.Join(ops, ",")), true)
	}

	// ------------------------------------------------------------ 2. uniqueness under real goroutines
	stress := func(G, N int) { c18stress(c, G, N) }
	stress(2, 50000)
	stress(16, 5000)
	if c.Thorough() {
		for i := 0; i < 20; i++ {
			stress(256, 2000)
			stress(4, 100000)
		}
	}
	// the discipline extracted from the source (gate seen from the harness), after the concrete stress
	c.Hold(mode == "atomicAdd" || mode == "mutexed", "ids_unique.gate", "logger.mode", mode, "atomicAdd|mutexed")

	// ------------------------------------------------------------ 3. lines: every function × context kind × message
	sink.take()
	ctxs := c18contexts(r, pid)
	doLine := func(level string, printf bool, cx c18ctx, ops []interface{}, format string, domain bool, bucket string) {
		call := c18log(level, printf, cx.v, ops, format)
		ws := sink.take()
		in := fmt.Sprintf("logger.line %s <ts> %d %s %s", level, pid, cx.model, call)
		if level == "info" {
			c.Hold(len(ws) == 0, "emit_levels.info_discarded", in, fmt.Sprintf("%d writes", len(ws)), "0 writes")
			c.Eq("emit", in, "-", c.O.Call("logger.emit", level, "-", fmt.Sprint(pid), cx.model, call))
			c.Case(bucket+"/info", in, true)
			return
		}
		if !c.Hold(len(ws) == 1, "one_line.one_write", in, fmt.Sprintf("%d writes", len(ws)), "1 write") {
			return
		}
		line := ws[0]
		m := c18lineRe.FindSubmatch(line)
		if !c.Hold(m != nil && string(m[1]) == level, "line.header", in, h.Trunc(string(line), 80), "[level] YYYY/MM/DD hh:mm:ss.uuuuuu ") {
			return
		}
		ts := string(m[2])
		c.Eq("line", in, h.Hex(line), c.O.Call("logger.line", level, h.Hex([]byte(ts)), fmt.Sprint(pid), cx.model, call))
		if domain {
			c.Hold(bytes.Count(line, []byte("\n")) == 1 && line[len(line)-1] == '\n', "one_line", in, h.Trunc(string(line), 120), "exactly one newline, at the end")
			// the prefix, read back by the model's parser, is the id of the context that was passed
			got := c.O.Call("logger.parse", h.Hex(line))
			want := cx.want
			body := line[len(m[0]):]
			if want == "none" && len(body) > 0 && body[0] == '[' {
				want = got // the message itself starts with '[': outside the hypothesis of prefix_parse
			}
			c.Hold(got == want, "prefix_parse", in, got, want)
			// the whole line, computed here from the call alone (not through the model): after the level label and
			// the timestamp comes "[pid][cid]" (or "[pid]"), one space, and the message exactly as fmt renders the
			// call's own format and operands ONCE — a '%' in the rendered message is text, not a verb
			if f := strings.Fields(cx.want); len(f) >= 2 {
				prefix := "[" + f[1] + "]"
				if len(f) == 3 {
					prefix += "[" + f[2] + "]"
				}
				var rest string
				if printf {
					rest = fmt.Sprintf(format, ops...) + "\n"
				} else {
					rest = fmt.Sprintln(ops...)
				}
				// one separating space; the Println-style functions put a second one after "[pid]" (the template
				// "[%v] " is itself an operand of Println) — existing spelling, accepted
				b := string(body)
				okLine := b == prefix+" "+rest || (!printf && b == prefix+"  "+rest) || (!printf && len(ops) == 0 && b == prefix+"\n")
				c.Hold(okLine, "line.is_prefix_then_message", in, h.Trunc(b, 200), h.Trunc(prefix+" "+rest, 200))
			}
		}
		c.Case(bucket+"/"+strings.SplitN(cx.model, ":", 2)[0], in, true)
	}
	// 3b. message parts passed as the caller's own slice with spare capacity, reused across calls and
	// contexts (a logging helper that builds its arguments once): the library must not write into it, and
	// every call must still emit its own line with the id of the context passed to THAT call.
	{
		parts := make([]interface{}, 2, 8)
		parts[0], parts[1] = "hello", 42
		for round := 0; round < 2; round++ {
			for _, cx := range ctxs {
				for _, level := range []string{"trace", "warn", "error"} {
					for _, printf := range []bool{false, true} {
						doLine(level, printf, cx, parts, "%v-%v", true, "line/reused-args")
						ok := len(parts) == 2 && parts[0] == "hello" && parts[1] == 42
						c.Hold(ok, "line.caller_slice_untouched", fmt.Sprintf("logger %s printf=%v %s parts=[hello 42] cap 8 (reused)", level, printf, cx.model),
							fmt.Sprint(parts...), "hello 42")
						parts[0], parts[1] = "hello", 42
					}
				}
			}
		}
	}
	// 3c. "to the current writer", through a history of Switch and Close: the same writer installed again after a
	// Close, another writer, and back — every line goes to the writer installed last, exactly once, and to no other
	{
		other := &c18sink{}
		one := func(w *c18sink, not *c18sink, what string, step string) {
			not.take()
			w.take()
			ol.T(nil, what)
			ol.Wf(ctxs[1].v, "%v", what)
			ol.E(c18obj(7), what)
			got, stray := w.take(), not.take()
			ok := len(got) == 3 && len(stray) == 0
			for _, l := range got {
				ok = ok && bytes.Contains(l, []byte(what))
			}
			c.Hold(ok, "line.to_the_current_writer", "logger history: "+step, fmt.Sprintf("%d lines at the current writer, %d at the other", len(got), len(stray)), "3 lines at the current writer, 0 elsewhere")
			c.Case("line/writer-history", step, true)
		}
		one(sink, other, "first", "Switch(a); log")
		ol.Close()
		ol.Switch(sink)
		one(sink, other, "reopened", "Switch(a); Close(); Switch(a); log")
		ol.Switch(sink)
		one(sink, other, "same-again", "Switch(a); Switch(a); log")
		ol.Switch(other)
		one(other, sink, "moved", "Switch(a); Switch(b); log")
		ol.Close()
		ol.Switch(other)
		one(other, sink, "b-reopened", "Switch(b); Close(); Switch(b); log")
		ol.Switch(sink)
		one(sink, other, "back", "Switch(b); Switch(a); log")
	}

	// 3c'. the level loggers are exported variables: an application that wants the info level to be visible points
	// it at the trace logger. Calls through either name then emit their line (the level is a property of the logger
	// object, not of the name it is reached by).
	{
		saved := ol.Info
		ol.Info = ol.Trace
		sink.take()
		ol.I(nil, "info-made-visible")
		ol.If(ctxs[1].v, "%v", "info-f")
		ol.T(nil, "trace-still-there")
		ws := sink.take()
		ol.Info = saved
		ok := len(ws) == 3
		for _, w := range ws {
			ok = ok && bytes.HasPrefix(w, []byte("[trace] "))
		}
		c.Hold(ok, "one_line.one_write", "logger: Info = Trace; I(nil, …); If(ctx, …); T(nil, …)", fmt.Sprintf("%d lines", len(ws)), "3 lines labelled [trace]")
		c.Case("line/info-pointed-at-trace", "Info = Trace", true)
	}

	// 3d. a writer that is NOT an io.Closer (a bytes.Buffer, a network connection wrapper): every call still makes
	// exactly one write to it, a whole line that begins with the level label — nothing else (no colour escapes, which
	// are for the console) ever reaches the application's writer
	{
		plain := &c18plain{}
		ol.Close() // no closer is installed any more: the next writer is the only sink the library knows
		ol.Switch(plain)
		ol.T(nil, "t-line")
		ol.W(ctxs[1].v, "w-line")
		ol.Wf(nil, "%v", "wf-line")
		ol.E(c18obj(3), "e-line")
		ol.Ef(ctxs[1].v, "%v", "ef-line")
		ws := plain.take()
		okAll := len(ws) == 5
		for _, w := range ws {
			okAll = okAll && c18lineRe.Match(w) && bytes.Count(w, []byte("\n")) == 1 && w[len(w)-1] == '\n'
		}
		var shown []string
		for _, w := range ws {
			shown = append(shown, h.Trunc(strings.TrimSpace(string(w)), 40))
		}
		c.Hold(okAll, "one_line.one_write", "logger to a writer without Close(): T, W, Wf, E, Ef", fmt.Sprintf("%d writes: %q", len(ws), shown), "5 writes, each one whole line starting with its level label")
		c.Case("line/plain-writer", "non-closer", true)
		ol.Switch(sink)
	}

	// ids are unique for the life of the PROCESS: connections that live across a log rotation (Close, Switch to the
	// new file) keep their ids, and the contexts created after it get ids nobody carries
	{
		seen := map[int]string{}
		dup := ""
		mk := func(tag string, n int) {
			for i := 0; i < n; i++ {
				var ctx context.Context
				if i%3 == 2 {
					ctx = ol.AliasContext(context.Background(), nil)
				} else {
					ctx = ol.WithContext(context.Background())
				}
				id, _ := ol.VerifCid(ctx)
				if who, ok := seen[id]; ok && dup == "" {
					dup = fmt.Sprintf("id %d of %s#%d was already handed out to %s", id, tag, i, who)
				}
				seen[id] = fmt.Sprintf("%s#%d", tag, i)
			}
		}
		mk("before", 40)
		ol.Close()
		mk("closed", 10)
		ol.Switch(sink)
		mk("after", 40)
		ol.Switch(&c18plain{})
		mk("after-second-switch", 10)
		ol.Switch(sink)
		sink.take()
		c.Hold(dup == "", "ids_unique.across_log_rotation", "40 contexts; Close(); 10 contexts; Switch(w); 40 contexts; Switch(w2); 10 contexts", dup, "100 distinct ids")
		c.Case("alloc/rotation", "100", true)
	}

	// F20 regression (fixed finding): the documentation's own example, an object with Cid() = 100
	{
		c18log("trace", false, c18obj(100), []interface{}{"The log text."}, "")
		ws := sink.take()
		got := "no line"
		if len(ws) == 1 {
			got = c.O.Call("logger.parse", h.Hex(ws[0]))
		}
		c.Hold(got == fmt.Sprintf("pidcid %d 100", pid), "prefix_parse", "logger.line trace obj:100 ln:The-log-text.", got, "pidcid <pid> 100")
		c.Case("line/F20-witness", "logger.line trace obj:100 ln:The-log-text.", true)
	}
	for _, level := range c18levels {
		for _, cx := range ctxs {
			for mi, msg := range c18msgs {
				doLine(level, false, cx, []interface{}{msg}, "", true, "line/println")
				doLine(level, true, cx, []interface{}{msg}, "%v", true, "line/printf")
				if mi%4 == 0 {
					doLine(level, false, cx, []interface{}{msg, mi, "tail", 2.5, nil}, "", true, "line/println-multi")
					doLine(level, true, cx, []interface{}{mi, msg}, "n=%d m=%q", true, "line/printf-multi")
					doLine(level, true, cx, nil, msg+" literal", true, "line/printf-noargs")
				}
			}
			// Printf-family calls WITHOUT operands whose format carries the escape of a literal percent sign
			doLine(level, true, cx, nil, "disk 93%% used", true, "line/printf-noargs-percent")
			doLine(level, true, cx, nil, "%%", true, "line/printf-noargs-percent")
			doLine(level, true, cx, nil, "100%%%% sure, 50%%", true, "line/printf-noargs-percent")
			doLine(level, false, cx, nil, "", true, "line/println-empty")
			// outside the domain (newline in the message): correspondence only
			doLine(level, false, cx, []interface{}{"a\nb"}, "", false, "line/newline(corr-only)")
			doLine(level, true, cx, []interface{}{"end"}, "%v\n", false, "line/newline(corr-only)")
			doLine(level, true, cx, []interface{}{"a\n\nb"}, "%v", false, "line/newline(corr-only)")
		}
	}
	nl := c.N(400, 20000)
	for i := 0; i < nl; i++ {
		level := c18levels[r.Intn(4)]
		cx := ctxs[r.Intn(len(ctxs))]
		n := r.Intn(4)
		ops := make([]interface{}, n)
		for k := range ops {
			switch r.Intn(4) {
			case 0:
				ops[k] = r.Intn(1000) - 500
			case 1:
				ops[k] = c18msgs[r.Intn(len(c18msgs))]
			case 2:
				ops[k] = r.Bool()
			default:
				rs := make([]rune, r.Intn(10))
				for q := range rs {
					alphabet := []rune("abc []%:é日\t😀")
					rs[q] = alphabet[r.Intn(len(alphabet))]
				}
				ops[k] = string(rs)
			}
		}
		if r.Bool() {
			doLine(level, false, cx, ops, "", true, "line/random-println")
		} else {
			doLine(level, true, cx, ops, strings.Repeat("%v|", n), true, "line/random-printf")
		}
	}

	// ------------------------------------------------------------ 4. lines under real concurrency
	conc := func(G, K int) {
		in := fmt.Sprintf("logger.concurrent %d %d", G, K)
		sink.take()
		want := map[string]int{}
		var wmu sync.Mutex
		var wg sync.WaitGroup
		for g := 0; g < G; g++ {
			wg.Add(1)
			go func(g int) {
				defer wg.Done()
				var cx interface{}
				pfx := ""
				switch g % 4 {
				case 0:
					ctx := ol.WithContext(context.Background())
					id, _ := ol.VerifCid(ctx)
					cx, pfx = ctx, fmt.Sprintf("[%d][%d] ", pid, id)
				case 1:
					cx, pfx = c18obj(-g), fmt.Sprintf("[%d][%d] ", pid, -g)
				case 2:
					cx, pfx = nil, fmt.Sprintf("[%d] ", pid)
				default:
					cx, pfx = context.Background(), ""
				}
				local := map[string]int{}
				for i := 0; i < K; i++ {
					msg := fmt.Sprintf("g%d-i%d-%s", g, i, strings.Repeat("x", (g*7+i)%90))
					lvl := c18levels[(g+i)%4]
					if i%2 == 0 {
						c18log(lvl, true, cx, []interface{}{msg}, "%v")
					} else {
						c18log(lvl, true, cx, []interface{}{msg, i}, "%v #%d")
						msg = fmt.Sprintf("%s #%d", msg, i)
					}
					if lvl != "info" {
						local["["+lvl+"] "+pfx+msg+"\n"]++
					}
				}
				wmu.Lock()
				for k, v := range local {
					want[k] += v
				}
				wmu.Unlock()
			}(g)
		}
		wg.Wait()
		ws := sink.take()
		got := map[string]int{}
		broken := 0
		for _, w := range ws {
			m := c18lineRe.FindSubmatch(w)
			if m == nil || bytes.Count(w, []byte("\n")) != 1 || w[len(w)-1] != '\n' {
				broken++
				continue
			}
			got["["+string(m[1])+"] "+string(w[len(m[0]):])]++
		}
		diff := 0
		for k, v := range want {
			if got[k] != v {
				diff++
			}
		}
		for k := range got {
			if _, ok := want[k]; !ok {
				diff++
			}
		}
		c.Hold(broken == 0, "one_line.concurrent", in, fmt.Sprintf("%d of %d writes are not one whole line", broken, len(ws)), "0")
		c.Hold(diff == 0, "writer_sees_whole_lines", in, fmt.Sprintf("%d lines differ from the calls made (%d writes)", diff, len(ws)), "multiset of lines = calls")
		// the model's reader on the concatenated stream: splitting at newlines gives the same lines
		sort.Slice(ws, func(i, j int) bool { return bytes.Compare(ws[i], ws[j]) < 0 })
		for i := 0; i < len(ws) && i < 40; i++ {
			w := ws[(i*len(ws))/40%len(ws)]
			m := c18lineRe.FindSubmatch(w)
			if m == nil {
				continue
			}
			p := c.O.Call("logger.parse", h.Hex(w))
			body := string(w[len(m[0]):])
			wantP := "none"
			var a, b int
			if n, _ := fmt.Sscanf(body, "[%d][%d]", &a, &b); n == 2 {
				wantP = fmt.Sprintf("pidcid %d %d", a, b)
			} else if n, _ := fmt.Sscanf(body, "[%d]", &a); n == 1 {
				wantP = fmt.Sprintf("pid %d", a)
			}
			c.Eq("parse.concurrent", "logger.parse "+h.Trunc(string(w), 60), wantP, p)
		}
		c.Case("line/concurrent", in, true)
	}
	conc(32, 200)
	conc(8, 1000)
	if c.Thorough() {
		for i := 0; i < 10; i++ {
			conc(128, 500)
		}
	}
}

// c18stress: G goroutines × N contexts each through the real WithContext/AliasContext; uniqueness oracle.
func c18stress(c *h.Ctx, G, N int) {
	in := fmt.Sprintf("logger.stress %d %d", G, N)
	ids := make([][]int, G)
	badAlias := make([]int, G)
	var wg sync.WaitGroup
	start := make(chan struct{})
	for g := 0; g < G; g++ {
		wg.Add(1)
		go func(g int) {
			defer wg.Done()
			<-start
			for i := 0; i < N; i++ {
				var ctx context.Context
				if i%7 == 3 {
					ctx = ol.AliasContext(context.Background(), nil) // allocates
				} else {
					ctx = ol.WithContext(context.Background())
				}
				id, _ := ol.VerifCid(ctx)
				ids[g] = append(ids[g], id)
				if i%5 == 0 {
					a := ol.AliasContext(context.Background(), ctx)
					if aid, _ := ol.VerifCid(a); aid != id {
						badAlias[g]++
					}
				}
			}
		}(g)
	}
	close(start)
	wg.Wait()
	seen := make(map[int]struct{}, G*N)
	dups, bad := 0, 0
	for g := range ids {
		bad += badAlias[g]
		for _, id := range ids[g] {
			if _, ok := seen[id]; ok {
				dups++
			}
			seen[id] = struct{}{}
		}
	}
	c.Hold(dups == 0, "ids_unique", in, fmt.Sprintf("%d ids handed out, %d distinct, %d duplicates", G*N, len(seen), dups), "all distinct")
	c.Hold(bad == 0, "alias_equals_source", in, fmt.Sprintf("%d aliases differ", bad), "0")
	c.Case("alloc/stress", in, true)
}

// c18race (thorough tier): the race detector on a generated stress test in a scratch module that
// replaces the library with the tree under verification.
func c18race(c *h.Ctx) {
	repo := os.Getenv("VERIF_REPO")
	if repo == "" {
		repo = "/repo"
	}
	dir, err := os.MkdirTemp("", "c18race")
	if err != nil {
		c.Note("c18race: " + err.Error())
		return
	}
	defer os.RemoveAll(dir)
	os.WriteFile(filepath.Join(dir, "go.mod"), []byte("module c18race\n\ngo 1.23\n\nrequire github.com/ossrs/go-oryx-lib v0.0.0\n\nreplace github.com/ossrs/go-oryx-lib => "+repo+"\n"), 0o644)
	if b, err := os.ReadFile(filepath.Join(repo, "go.sum")); err == nil {
		os.WriteFile(filepath.Join(dir, "go.sum"), b, 0o644)
	}
	os.WriteFile(filepath.Join(dir, "race_test.go"), []byte(`package c18race

import (
	"context"
	"sync"
	"testing"

	ol "github.com/ossrs/go-oryx-lib/logger"
)

type sink struct{ mu sync.Mutex; n int }

func (s *sink) Write(p []byte) (int, error) { s.mu.Lock(); s.n++; s.mu.Unlock(); return len(p), nil }
func (s *sink) Close() error                { return nil }

type obj int

func (o obj) Cid() int { return int(o) }

func TestRace(t *testing.T) {
	ol.Switch(&sink{})
	var wg sync.WaitGroup
	for g := 0; g < 32; g++ {
		wg.Add(1)
		go func(g int) {
			defer wg.Done()
			for i := 0; i < 300; i++ {
				ctx := ol.WithContext(context.Background())
				a := ol.AliasContext(context.Background(), ctx)
				b := ol.AliasContext(context.Background(), nil)
				ol.T(ctx, "t", i); ol.Tf(a, "%v", i); ol.W(b, "w"); ol.Wf(nil, "%v", i)
				ol.E(obj(g), "e"); ol.Ef(context.Background(), "%v", i); ol.I(ctx, "i"); ol.If(ctx, "%v", i)
			}
		}(g)
	}
	wg.Wait()
}
`), 0o644)
	cmd := exec.Command("go", "test", "-race", "-count=1", "-vet=off", ".")
	cmd.Dir = dir
	cmd.Env = append(os.Environ(), "GOFLAGS=-mod=mod", "GOPROXY=off", "GOSUMDB=off", "GOTOOLCHAIN=local", "CGO_ENABLED=1")
	out, err := cmd.CombinedOutput()
	s := string(out)
	if err != nil && !strings.Contains(s, "DATA RACE") && !strings.Contains(s, "FAIL") {
		c.Note("c18race: race detector run unavailable: " + h.Trunc(s, 300))
		return
	}
	races := strings.Count(s, "WARNING: DATA RACE")
	where := ""
	if k := strings.Index(s, "WARNING: DATA RACE"); k >= 0 {
		where = h.Trunc(s[k:], 600)
	}
	c.Hold(races == 0 && err == nil, "no_data_race", "logger.race 32 300", fmt.Sprintf("%d races reported; %s", races, where), "0 races")
	c.Case("race-detector", "logger.race 32 300", true)
}
