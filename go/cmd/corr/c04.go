package main

// C04 — request/response matching with concurrent reader and writer.
// Deterministic schedule enumeration on the REAL Protocol: the transport's Write callback runs the
// reader's steps (ReadMessage + DecodeMessage of the peer's _result) before WritePacket returns, i.e.
// "the peer answers before the writer's call has returned". The same schedules are replayed on the
// Lean small-step model (txn.run); thorough tier adds a free-running goroutine stress (built with -race).

import (
	"errors"
	"bytes"
	"fmt"
	"io"
	"strings"
	"sync"

	"github.com/ossrs/go-oryx-lib/amf0"
	"github.com/ossrs/go-oryx-lib/rtmp"
	"verifharness/internal/h"
)

func init() { register("C04", c04) }

type hookWriter struct {
	buf     bytes.Buffer
	onWrite func()
	failNow bool // the bytes reach the peer, the call reports a failure all the same (a write-timeout wrapper)
}

var errC04Timeout = errors.New("c04: write deadline exceeded (bytes were delivered)")

func (w *hookWriter) Write(p []byte) (int, error) {
	w.buf.Write(p)
	if w.onWrite != nil {
		w.onWrite()
	}
	if w.failNow {
		return len(p), errC04Timeout
	}
	return len(p), nil
}

// controlWire: what a peer may send at any time between the responses — a ping request, a stream-begin event,
// a window acknowledgement size. The reader delivers them like any message; nothing about them concerns the
// request table or the writer.
func controlWire(k int) []byte {
	var wire bytes.Buffer
	peer := rtmp.NewProtocol(&h.RW{Writer: &wire})
	switch k % 3 {
	case 0:
		uc := rtmp.NewUserControl()
		uc.EventType, uc.EventData = rtmp.EventTypePingRequest, int32(1000+k)
		peer.WritePacket(uc, 0)
	case 1:
		uc := rtmp.NewUserControl()
		uc.EventType, uc.EventData = rtmp.EventTypeStreamBegin, 1
		peer.WritePacket(uc, 0)
	default:
		wa := rtmp.NewWindowAcknowledgementSize()
		wa.AckSize = 2500000
		peer.WritePacket(wa, 0)
	}
	return wire.Bytes()
}

// requestsWire: the bytes a writer puts on the wire for these requests when nothing else happens.
func requestsWire(reqs []txnReq) []byte {
	var wire bytes.Buffer
	p := rtmp.NewProtocol(&h.RW{Writer: &wire})
	for _, rq := range reqs {
		if rq.kind == "connect" {
			p.WritePacket(rtmp.NewConnectAppPacket(), 0)
		} else {
			pk := rtmp.NewCreateStreamPacket()
			pk.TransactionID = amf0.Number(rq.tid)
			p.WritePacket(pk, 0)
		}
	}
	return wire.Bytes()
}

// responseWire builds the peer's _result for request (kind, tid) as chunk-stream bytes.
// Every third response comes as an AMF3 command message (type 17: one format byte 0, then the same AMF0 body), as
// peers that negotiated object encoding 3 send them.
var c04RespN int

func responseWire(kind string, tid float64) []byte {
	var wire bytes.Buffer
	peer := rtmp.NewProtocol(&h.RW{Writer: &wire})
	var pk rtmp.Packet
	if kind == "connect" {
		pk = rtmp.NewConnectAppResPacket(amf0.Number(tid))
	} else {
		res := rtmp.NewCreateStreamResPacket(amf0.Number(tid))
		res.StreamID = amf0.Number(1)
		pk = res
	}
	c04RespN++
	if c04RespN%3 == 0 {
		body, _ := pk.MarshalBinary()
		peer.WriteMessage(rtmp.VerifNewMessage(3, rtmp.MessageType(17), 0, 0, append([]byte{0}, body...)))
	} else {
		peer.WritePacket(pk, 0)
	}
	return wire.Bytes()
}

type txnReq struct {
	kind string
	tid  float64
}

// runSchedule executes one schedule on the real code. events: "W<i>" (WritePacket i; the r's listed in
// inW[i] run inside its transport Write) and r's in after[i] run after it returned.
func runSchedule(reqs []txnReq, inW, after [][]int) (matched, failed []string, wrongType string) {
	matched, failed, wrongType, _ = runScheduleNoise(reqs, inW, after, false)
	return
}

// runScheduleNoise: with noise, every response is preceded by a control message of the peer; wire is what the
// endpoint put on the transport during the whole schedule.
func runScheduleNoise(reqs []txnReq, inW, after [][]int, noise bool) (matched, failed []string, wrongType string, wire []byte) {
	in := &bytes.Buffer{}
	hw := &hookWriter{}
	p := rtmp.NewProtocol(&h.RW{Reader: in, Writer: hw})
	defer func() { wire = append([]byte(nil), hw.buf.Bytes()...) }()
	nctl := 0
	process := func(j int) {
		if noise {
			in.Write(controlWire(nctl))
			nctl++
			m, err := p.ReadMessage()
			if err != nil {
				failed = append(failed, "control(read)")
				return
			}
			if pkt, err := p.DecodeMessage(m); err != nil {
				failed = append(failed, "control(decode)")
			} else {
				switch pkt.(type) {
				case *rtmp.UserControl, *rtmp.WindowAcknowledgementSize:
				default:
					wrongType += fmt.Sprintf("control:%T ", pkt)
				}
			}
		}
		in.Write(responseWire(reqs[j].kind, reqs[j].tid))
		m, err := p.ReadMessage()
		if err != nil {
			failed = append(failed, fmt.Sprintf("%v(read)", reqs[j].tid))
			return
		}
		pkt, err := p.DecodeMessage(m)
		if err != nil {
			failed = append(failed, fmt.Sprint(reqs[j].tid))
			return
		}
		ok := false
		switch pkt.(type) {
		case *rtmp.ConnectAppResPacket:
			ok = reqs[j].kind == "connect"
		case *rtmp.CreateStreamResPacket:
			ok = reqs[j].kind == "createStream"
		}
		if !ok {
			wrongType += fmt.Sprintf("%v:%T ", reqs[j].tid, pkt)
		}
		matched = append(matched, fmt.Sprint(reqs[j].tid))
	}
	for i, rq := range reqs {
		first := true
		hw.onWrite = func() {
			if !first {
				return
			}
			first = false
			for _, j := range inW[i] {
				process(j)
			}
		}
		var err error
		if rq.kind == "connect" {
			err = p.WritePacket(rtmp.NewConnectAppPacket(), 0)
		} else {
			pk := rtmp.NewCreateStreamPacket()
			pk.TransactionID = amf0.Number(rq.tid)
			err = p.WritePacket(pk, 0)
		}
		if err != nil {
			failed = append(failed, fmt.Sprintf("%v(write)", rq.tid))
		}
		hw.onWrite = nil
		for _, j := range after[i] {
			process(j)
		}
	}
	return
}

func joinOr(xs []string) string {
	if len(xs) == 0 {
		return "_"
	}
	return strings.Join(xs, ",")
}

func c04(c *h.Ctx) {
	order := c.O.Call("txn.order")
	c.Note("extracted txnOrder = " + order)
	maxN := c.N(3, 4)
	nsched := 0
	for n := 1; n <= maxN; n++ {
		// variants: all createStream; connect (fixed transaction id 1) at each position of the request sequence
		for variant := 0; variant <= n; variant++ {
			reqs := make([]txnReq, n)
			for i := range reqs {
				reqs[i] = txnReq{"createStream", float64(2 + i*3)}
			}
			if variant >= 1 {
				reqs[variant-1] = txnReq{"connect", 1}
			}
			// enumerate: response j goes to slot s_j in [2j, 2n) (even = inside Write of request s/2, odd = after it),
			// and all orders inside a slot.
			slots := make([]int, n)
			var rec func(j int)
			rec = func(j int) {
				if j == n {
					// all orderings within slots: enumerate permutations of responses consistent with slots
					perm := make([]int, 0, n)
					used := make([]bool, n)
					var permRec func()
					permRec = func() {
						if len(perm) == n {
							inW := make([][]int, n)
							after := make([][]int, n)
							var acts []string
							// group by slot in perm order
							for s := 0; s < 2*n; s++ {
								i := s / 2
								if s%2 == 0 {
									if order == "registerThenWrite" {
										acts = append(acts, "w", "w")
									} else {
										acts = append(acts, "w")
									}
								} else if order != "registerThenWrite" {
									acts = append(acts, "w")
								}
								for _, j := range perm {
									if slots[j] == s {
										if s%2 == 0 {
											inW[i] = append(inW[i], j)
										} else {
											after[i] = append(after[i], j)
										}
										acts = append(acts, fmt.Sprintf("r%d", int(reqs[j].tid)))
									}
								}
							}
							// (for writeThenRegister the reg step of request i comes after the inW slot: handled above)
							// every other schedule with control traffic of the peer between the responses
							nsched++
							noise := nsched%2 == 0
							matched, failed, wrong, wire := runScheduleNoise(reqs, inW, after, noise)
							if want := requestsWire(reqs); !bytes.Equal(wire, want) {
								c.Hold(false, "wire.exactly_the_requests_once", fmt.Sprintf("schedule n=%d inW=%v after=%v noise=%v", n, inW, after, noise),
									h.Trunc(h.Hex(wire), 400), h.Trunc(h.Hex(want), 400))
							}
							var tids []string
							for _, r := range reqs {
								tids = append(tids, fmt.Sprint(int(r.tid)))
							}
							in := fmt.Sprintf("txn.run current %s %s", strings.Join(tids, ","), strings.Join(acts, ","))
							model := c.O.Call("txn.run", "current", strings.Join(tids, ","), strings.Join(acts, ","))
							impl := fmt.Sprintf("matched=%s failed=%s", joinOr(matched), joinOr(failed))
							c.Eq("schedule", in, impl, strings.Join(strings.Fields(model)[:2], " "))
							c.Hold(len(failed) == 0, "no_spurious_failure", in, impl, "failed=_")
							c.Hold(wrong == "", "response_type", in, wrong, "each _result decoded as the response type of its request")
							c.Hold(len(matched) == n, "none_lost", in, impl, fmt.Sprintf("%d matched", n))
							c.Case(fmt.Sprintf("schedule/n=%d,connect-at=%d", n, variant), fmt.Sprintf("%s slots=%v inW=%v after=%v", in, slots, inW, after), true)
							return
						}
						for j := 0; j < n; j++ {
							if used[j] {
								continue
							}
							// keep slot order: the next response must not belong to an earlier slot than one already placed
							ok := true
							for _, q := range perm {
								if slots[q] > slots[j] {
									ok = false
								}
							}
							if !ok {
								continue
							}
							used[j] = true
							perm = append(perm, j)
							permRec()
							perm = perm[:len(perm)-1]
							used[j] = false
						}
					}
					permRec()
					return
				}
				for s := 2 * j; s < 2*n; s++ {
					slots[j] = s
					rec(j + 1)
				}
			}
			rec(0)
		}
	}

	// the transport DELIVERS the last request and reports a failure all the same (a deadline wrapper): the request
	// was handed to the transport, its response arrives afterwards and must be matched like any other
	for n := 1; n <= 3; n++ {
		for variant := 0; variant <= 1; variant++ {
			reqs := make([]txnReq, n)
			for i := range reqs {
				reqs[i] = txnReq{"createStream", float64(2 + i*3)}
			}
			if variant == 1 {
				reqs[n-1] = txnReq{"connect", 1}
			}
			in := &bytes.Buffer{}
			hw := &hookWriter{}
			p := rtmp.NewProtocol(&h.RW{Reader: in, Writer: hw})
			var werrs []string
			for i, rq := range reqs {
				hw.failNow = i == n-1
				var err error
				if rq.kind == "connect" {
					err = p.WritePacket(rtmp.NewConnectAppPacket(), 0)
				} else {
					pk := rtmp.NewCreateStreamPacket()
					pk.TransactionID = amf0.Number(rq.tid)
					err = p.WritePacket(pk, 0)
				}
				werrs = append(werrs, fmt.Sprint(err != nil))
			}
			delivered := bytes.Equal(hw.buf.Bytes(), requestsWire(reqs))
			var got []string
			for j := n - 1; j >= 0; j-- {
				in.Write(responseWire(reqs[j].kind, reqs[j].tid))
				m, err := p.ReadMessage()
				if err != nil {
					got = append(got, "read-err")
					continue
				}
				pkt, err := p.DecodeMessage(m)
				if err != nil {
					got = append(got, "unmatched")
					continue
				}
				got = append(got, fmt.Sprintf("%T", pkt))
			}
			id := fmt.Sprintf("write of the last of %d requests (%s) is delivered and reports an error; responses in reverse order", n, reqs[n-1].kind)
			ok := delivered && werrs[n-1] == "true"
			for _, g := range got {
				ok = ok && strings.HasSuffix(g, "ResPacket")
			}
			c.Hold(ok, "delivered_request_is_answerable", id, fmt.Sprintf("delivered=%v write-errors=%v responses=%v", delivered, werrs, got), "every response matched")
			c.Case(fmt.Sprintf("failed-write/n=%d,last=%s", n, reqs[n-1].kind), id, true)
		}
	}

	// transaction ids are AMF0 numbers (float64): ids that differ only in their fraction, or only above 2^32, are
	// different transactions — each response matches its own request, a response with an id nobody used is refused
	// and consumes nothing
	{
		in := &bytes.Buffer{}
		p := rtmp.NewProtocol(&h.RW{Reader: in, Writer: &bytes.Buffer{}})
		tids := []float64{2, 2.5, 4294967298, 3, 1e15 + 2, 0.5}
		for _, t := range tids {
			pk := rtmp.NewCreateStreamPacket()
			pk.TransactionID = amf0.Number(t)
			p.WritePacket(pk, 0)
		}
		answer := func(tid float64) string {
			in.Write(responseWire("createStream", tid))
			m, err := p.ReadMessage()
			if err != nil {
				return "read-err"
			}
			pkt, err := p.DecodeMessage(m)
			if err != nil {
				return "refused"
			}
			if r, ok := pkt.(*rtmp.CreateStreamResPacket); ok && float64(r.TransactionID) == tid {
				return "matched"
			}
			return fmt.Sprintf("%T", pkt)
		}
		var got []string
		got = append(got, "3.25:"+answer(3.25), "4294967299:"+answer(4294967299))
		for _, t := range []float64{3, 4294967298, 0.5, 2.5, 1e15 + 2, 2} {
			got = append(got, fmt.Sprintf("%v:%s", t, answer(t)))
		}
		got = append(got, "2(again):"+answer(2))
		want := "3.25:refused 4294967299:refused 3:matched 4.294967298e+09:matched 0.5:matched 2.5:matched 1.000000000000002e+15:matched 2:matched 2(again):refused"
		id := "requests with ids 2, 2.5, 2^32+2, 3, 1e15+2, 0.5; responses 3.25, 2^32+3, then each request's, then 2 again"
		c.Hold(strings.Join(got, " ") == want, "ids_are_numbers", id, strings.Join(got, " "), want)
		c.Case("ids/fractional-and-wide", id, true)
	}

	// a second _result for the same transaction is refused; a _result nobody asked for is refused
	{
		in := &bytes.Buffer{}
		p := rtmp.NewProtocol(&h.RW{Reader: in, Writer: &bytes.Buffer{}})
		pk := rtmp.NewCreateStreamPacket()
		pk.TransactionID = 9
		p.WritePacket(pk, 0)
		res := func(tid float64) string {
			in.Write(responseWire("createStream", tid))
			m, err := p.ReadMessage()
			if err != nil {
				return "read-err"
			}
			if _, err := p.DecodeMessage(m); err != nil {
				return "err"
			}
			return "ok"
		}
		r1, r2, r3 := res(9), res(9), res(77)
		c.Hold(r1 == "ok" && r2 == "err" && r3 == "err", "exactly_once", "createStream tid=9; _result 9; _result 9; _result 77", r1+" "+r2+" "+r3, "ok err err")
		c.Case("exactly-once", "tid=9 x2, 77", true)
	}

	// responses nobody is waiting for (answers to calls the library does not track, stray or duplicated _results) are
	// refused — and must not disturb the matching of the requests that ARE outstanding, whatever their number/order
	for _, script := range [][]float64{{2, 3, 4}, {9, 9, 9, 4}, {3, 4}, {0, -1, 4}, {2, 3, 5, 6, 7, 8, 4}} {
		in := &bytes.Buffer{}
		p := rtmp.NewProtocol(&h.RW{Reader: in, Writer: &bytes.Buffer{}})
		p.WritePacket(rtmp.NewConnectAppPacket(), 0)
		call := func(name string, tid float64) {
			pk := rtmp.NewCallPacket()
			pk.CommandName = amf0.String(name)
			pk.TransactionID = amf0.Number(tid)
			pk.CommandObject = amf0.NewNull()
			p.WritePacket(pk, 0)
		}
		call("releaseStream", 2)
		call("FCPublish", 3)
		cs := rtmp.NewCreateStreamPacket()
		cs.TransactionID = 4
		p.WritePacket(cs, 0)
		res := func(kind string, tid float64) string {
			in.Write(responseWire(kind, tid))
			m, err := p.ReadMessage()
			if err != nil {
				return "read-err"
			}
			pkt, err := p.DecodeMessage(m)
			if err != nil {
				return "err"
			}
			return fmt.Sprintf("%T", pkt)
		}
		var got []string
		for _, tid := range script {
			got = append(got, res("createStream", tid))
		}
		got = append(got, res("connect", 1))
		want := make([]string, len(script)+1)
		for i, tid := range script {
			want[i] = "err"
			if tid == 4 && i == len(script)-1 {
				want[i] = "*rtmp.CreateStreamResPacket"
			}
		}
		want[len(script)] = "*rtmp.ConnectAppResPacket"
		inS := fmt.Sprintf("connect(1), releaseStream(2), FCPublish(3), createStream(4) written; _results %v then _result 1", script)
		c.Hold(strings.Join(got, ",") == strings.Join(want, ","), "untracked_responses_do_not_disturb", inS, strings.Join(got, ","), strings.Join(want, ","))
		c.Case("untracked-responses", inS, true)
	}

	// a long session: thousands of requests on one connection, the peer answering through ONE long-lived writer that has
	// announced a small chunk size (so the command chunk stream carries far more than 2^16 chunks, with compressed headers
	// and continuation chunks), responses arriving in windows of up to five outstanding requests in rotating orders
	for _, peerChunk := range []uint32{1, 7, 128} {
		in := &bytes.Buffer{}
		p := rtmp.NewProtocol(&h.RW{Reader: in, Writer: &bytes.Buffer{}})
		peer := rtmp.NewProtocol(&h.RW{Writer: in})
		sc := rtmp.NewSetChunkSize()
		sc.ChunkSize = peerChunk
		peer.WritePacket(sc, 0)
		if m, err := p.ReadMessage(); err != nil || m.MessageType != rtmp.MessageTypeSetChunkSize {
			c.Hold(false, "no_spurious_failure", fmt.Sprintf("long session, peer chunk size %d: reading the Set Chunk Size", peerChunk), fmt.Sprint(err), "read")
			continue
		}
		total := c.N(2600, 9000)
		if peerChunk != 1 {
			total = c.N(600, 12000)
		}
		nok, bad := 0, ""
		tid := 2.0
		for done := 0; done < total && bad == ""; {
			w := 1 + (done/7)%5
			var tids []float64
			for k := 0; k < w; k++ {
				pk := rtmp.NewCreateStreamPacket()
				pk.TransactionID = amf0.Number(tid)
				if err := p.WritePacket(pk, 0); err != nil {
					bad = fmt.Sprintf("request %v: write: %v", tid, err)
				}
				tids = append(tids, tid)
				tid++
			}
			// answer in a rotated order
			rot := done % w
			for k := 0; k < w && bad == ""; k++ {
				t := tids[(k+rot)%w]
				res := rtmp.NewCreateStreamResPacket(amf0.Number(t))
				res.StreamID = amf0.Number(float64(done + k))
				peer.WritePacket(res, 0)
				m, err := p.ReadMessage()
				if err != nil {
					bad = fmt.Sprintf("response to %v (request #%d of the session): read: %v", t, done+k, h.Trunc(err.Error(), 200))
					break
				}
				pkt, err := p.DecodeMessage(m)
				if err != nil {
					bad = fmt.Sprintf("response to %v (request #%d of the session): decode: %v", t, done+k, h.Trunc(err.Error(), 200))
					break
				}
				r, ok := pkt.(*rtmp.CreateStreamResPacket)
				if !ok || float64(r.TransactionID) != t || float64(r.StreamID) != float64(done+k) {
					bad = fmt.Sprintf("response to %v (request #%d of the session): decoded as %T", t, done+k, pkt)
					break
				}
				nok++
			}
			done += w
		}
		id := fmt.Sprintf("long session: %d createStream requests on one connection, windows of 1..5 outstanding answered in rotating order, peer chunk size %d", total, peerChunk)
		c.Hold(bad == "", "none_lost", id, fmt.Sprintf("matched=%d; %s", nok, bad), "every response matched to its request")
		c.Case(fmt.Sprintf("long-session/chunk=%d", peerChunk), id, true)
	}

	// free-running goroutines (support for the runtime part; under -race in the thorough tier)
	rounds := c.N(20, 400)
	for round := 0; round < rounds; round++ {
		k := 1 + c.R.Intn(40)
		pr, pw := io.Pipe()
		var mu sync.Mutex
		hw := &hookWriter{}
		p := rtmp.NewProtocol(&h.RW{Reader: pr, Writer: hw})
		written := make(chan float64, k)
		next := 0
		tids := make([]float64, k)
		for i := range tids {
			tids[i] = float64(2 + i)
		}
		hw.onWrite = func() {
			mu.Lock()
			t := tids[next]
			next++
			mu.Unlock()
			written <- t // the request is on the wire: the peer may answer now
		}
		var wg sync.WaitGroup
		wg.Add(3)
		var nfail, nmatch int
		go func() { // writer
			defer wg.Done()
			for _, t := range tids {
				pk := rtmp.NewCreateStreamPacket()
				pk.TransactionID = amf0.Number(t)
				p.WritePacket(pk, 0)
			}
			close(written)
		}()
		go func() { // peer
			defer wg.Done()
			for t := range written {
				pw.Write(responseWire("createStream", t))
			}
			pw.Close()
		}()
		go func() { // reader
			defer wg.Done()
			for {
				m, err := p.ReadMessage()
				if err != nil {
					return
				}
				if _, err := p.DecodeMessage(m); err != nil {
					nfail++
				} else {
					nmatch++
				}
			}
		}()
		wg.Wait()
		in := fmt.Sprintf("goroutines: %d requests, peer answers as soon as each request reaches the transport", k)
		c.Hold(nfail == 0 && nmatch == k, "concurrent.no_spurious_failure", in, fmt.Sprintf("matched=%d failed=%d", nmatch, nfail), fmt.Sprintf("matched=%d failed=0", k))
		c.Case("goroutines", fmt.Sprintf("%s #%d", in, round), true)
	}
}
