package main

// C16 — JOSE. Part 1: the library's own encodings, one by one, against the Lean model
// (base64url, compact serialisation, signing input / AAD, PKCS#7, CBC-HMAC tag input, RFC 3394 key
// wrap with a toy block cipher implemented on both sides, fixed-width integers, header merge,
// parameter checks before Open). Part 2 (c16_matrix.go): the full algorithm matrix on the real
// library with real primitives applied to the model's inputs, bit flips, JWK and thumbprints.

import (
	"bytes"
	"crypto/cipher"
	"fmt"
	"math/big"
	"strings"

	"github.com/ossrs/go-oryx-lib/https/jose"
	josecipher "github.com/ossrs/go-oryx-lib/https/jose/cipher"
	"verifharness/internal/h"
)

func init() { register("C16", c16) }

// detRand: the library's randReader during the run — a splitmix stream forked from c.R.
type detRand struct{ r *h.Rand }

func (d detRand) Read(p []byte) (int, error) {
	copy(p, d.r.Bytes(len(p)))
	return len(p), nil
}

// toyBlock: the invertible 16-byte block function of Oryx.Jose.toyEnc/toyDec.
type toyBlock struct{ k int }

func (toyBlock) BlockSize() int { return 16 }
func (t toyBlock) Encrypt(dst, src []byte) {
	var c [16]byte
	for i := 0; i < 16; i++ {
		c[i] = src[i] + byte(t.k+7*i)
	}
	for i := 0; i < 16; i++ {
		dst[i] = c[(i+5)%16]
	}
}
func (t toyBlock) Decrypt(dst, src []byte) {
	var c [16]byte
	for i := 0; i < 16; i++ {
		c[(i+5)%16] = src[i]
	}
	for i := 0; i < 16; i++ {
		dst[i] = c[i] - byte(t.k+7*i)
	}
}

var _ cipher.Block = toyBlock{}

func c16text(s string) string { return h.Hex([]byte(s)) }

func c16res(b []byte, err error) string {
	if err != nil {
		return "err"
	}
	return "ok " + h.Hex(b)
}

func c16hexList(l [][]byte) string {
	if len(l) == 0 {
		return "_"
	}
	p := make([]string, len(l))
	for i, b := range l {
		p[i] = h.Hex(b)
	}
	return strings.Join(p, ",")
}

const c16alphabet = "ABCDEFGHIJKLMNOPQRSTUVWXYZabcdefghijklmnopqrstuvwxyz0123456789-_"

func c16sizes(r *h.Rand) int {
	switch r.Intn(6) {
	case 0:
		return r.Pick(0, 1, 2, 3, 4, 5)
	case 1:
		return r.Pick(15, 16, 17, 31, 32, 33, 47, 48, 49)
	case 2:
		return r.Pick(63, 64, 65, 255, 256, 257)
	default:
		return r.Intn(80)
	}
}

func c16(c *h.Ctx) {
	r := c.R
	old := jose.VerifSetRandReader(detRand{r.Fork()})
	defer jose.VerifSetRandReader(old)

	c16units(c, r)
	c16matrix(c, r)
	c16multi(c, r)
	c16zip(c, r)
	c16acme(c, r)
}

func c16units(c *h.Ctx, r *h.Rand) {
	// ------------------------------------------------------------ base64url
	nb := c.N(600, 30000)
	for i := 0; i < nb; i++ {
		b := r.Bytes(c16sizes(r))
		if i < 70 {
			b = r.Bytes(i) // every length 0..69
		}
		if r.Chance(10) {
			for k := range b {
				b[k] = byte(r.Pick(0, 0xff, 0xfb, 0xfc, 0x3e, 0x3f))
			}
		}
		in := "jose.b64 " + h.Hex(b)
		enc := jose.VerifBase64URLEncode(b)
		c.Eq("b64.enc", in, c16text(enc), c.O.Call("jose.b64", h.Hex(b)))
		dec, err := jose.VerifBase64URLDecode(enc)
		c.Hold(err == nil && bytes.Equal(dec, b), "b64.roundtrip", in, c16res(dec, err), "ok "+h.Hex(b))
		c.Hold(!strings.ContainsAny(enc, ".=\n\r ") && strings.Trim(enc, c16alphabet) == "", "b64.alphabet", in, enc, "alphabet only")
		c.Case("b64/encode", in, len(b) > 0)
	}
	// decoder: exhaustive over all 1- and 2-character strings of the alphabet + '=' '.' '\n', all final
	// characters for lengths 3 and 4 (trailing-bit leniency), then a malformed stream
	dec := func(s string, bucket string) {
		in := "jose.unb64 " + c16text(s)
		out := h.Safe(func() string { return c16res(jose.VerifBase64URLDecode(s)) })
		c.Eq("b64.dec", in, out, c.O.Call("jose.unb64", c16text(s)))
		// leniency, exactly: a text over the alphabet that decodes re-encodes to its canonical form
		if strings.HasPrefix(out, "ok") && strings.Trim(s, c16alphabet) == "" {
			b, _ := jose.VerifBase64URLDecode(s)
			c.Eq("b64.leniency_exact", in, c16text(jose.VerifBase64URLEncode(b)), c.O.Call("jose.canon", c16text(s)))
		}
		c.Case(bucket, in, true)
	}
	ext := c16alphabet + "=.\n\r +/"
	for i := 0; i < len(ext); i++ {
		dec(ext[i:i+1], "b64/decode-exhaustive-1")
		for j := 0; j < len(ext); j++ {
			dec(ext[i:i+1]+ext[j:j+1], "b64/decode-exhaustive-2")
		}
	}
	for j := 0; j < len(ext); j++ {
		dec("QU"+ext[j:j+1], "b64/decode-last-of-3")
		dec("QUJ"+ext[j:j+1], "b64/decode-last-of-4")
		dec("QUJDRE"+ext[j:j+1], "b64/decode-last-of-7")
		dec("QUJDR"+ext[j:j+1]+"=", "b64/decode-before-pad")
	}
	for _, s := range []string{"", "=", "==", "QQ==", "QQ=", "QQ", "QR", "QUI=", "QUI", "QUJ", "QUJD", "QUJD=", "QUJD==", "Q=Q=", "QQ==QQ==", "QUJDQQ==", "QUJD\nQQ", "QU\nJD", "\n", "\n\n\n\n", "QQ\n==", "QQ=\n=", "QQ==\n", "Q\rQ", " QQ", "QQ ", "Q.Q", "QUJD.QUJD", "QUJDRA", "QUJDRA=", "QUJDRA==", "QUJDRA===", "+/+/", "-_-_", "QUJ\x00"} {
		dec(s, "b64/decode-table")
	}
	nm := c.N(800, 40000)
	for i := 0; i < nm; i++ {
		b := r.Bytes(c16sizes(r) % 40)
		s := []byte(jose.VerifBase64URLEncode(b))
		switch r.Intn(6) {
		case 0: // flip one bit of one character
			if len(s) > 0 {
				s[r.Intn(len(s))] ^= 1 << uint(r.Intn(8))
			}
		case 1: // truncate
			s = s[:r.Intn(len(s)+1)]
		case 2: // insert a special character
			k := r.Intn(len(s) + 1)
			special := "=.\n\r +/"
			s = append(s[:k:k], append([]byte{special[r.Intn(len(special))]}, s[k:]...)...)
		case 3: // explicit padding
			s = append(s, bytes.Repeat([]byte("="), r.Intn(4))...)
		case 4: // change the last character only (trailing bits)
			if len(s) > 0 {
				s[len(s)-1] = c16alphabet[r.Intn(64)]
			}
		}
		dec(string(s), "b64/decode-mutated")
	}

	// ------------------------------------------------------------ compact serialisation, signing input, AAD
	nc := c.N(300, 10000)
	for i := 0; i < nc; i++ {
		n := r.Pick(3, 5)
		parts := make([][]byte, n)
		enc := make([]string, n)
		for k := range parts {
			parts[k] = r.Bytes(c16sizes(r) % 50)
			enc[k] = jose.VerifBase64URLEncode(parts[k])
		}
		text := strings.Join(enc, ".")
		in := "jose.compact.ser " + c16hexList(parts)
		c.Eq("compact.ser", in, c16text(text), c.O.Call("jose.compact.ser", c16hexList(parts)))
		want := "ok " + c16hexList(parts)
		c.Hold(c.O.Call("jose.compact.parse", fmt.Sprint(n), c16text(text)) == want, "compact.parse_serialize", in, "model parse", want)
		// whitespace anywhere is stripped before parsing
		ws := []byte(text)
		for q := 0; q < 3; q++ {
			k := r.Intn(len(ws) + 1)
			ws = append(ws[:k:k], append([]byte{" \t\n\r\f"[r.Intn(5)]}, ws[k:]...)...)
		}
		c.Hold(c.O.Call("jose.compact.parse", fmt.Sprint(n), c16text(string(ws))) == want, "compact.whitespace", in, "model parse", want)
		c.Eq("sigin", in, c16text(enc[0]+"."+enc[1]), c.O.Call("jose.sigin", h.Hex(parts[0]), h.Hex(parts[1])))
		c.Case(fmt.Sprintf("compact/%d-parts", n), in, true)
	}

	// ------------------------------------------------------------ PKCS#7
	for n := 0; n <= 70; n++ {
		for _, k := range []int{16, 8, 1, 32, 255} {
			b := r.Bytes(n)
			in := fmt.Sprintf("jose.pad %d %s", k, h.Hex(b))
			p := josecipher.VerifPadBuffer(append([]byte(nil), b...), k)
			c.Eq("pad", in, h.Hex(p), c.O.Call("jose.pad", fmt.Sprint(k), h.Hex(b)))
			u, err := josecipher.VerifUnpadBuffer(p, k)
			c.Hold(err == nil && bytes.Equal(u, b) && len(p)%k == 0 && len(p) > n && len(p) <= n+k, "pkcs7.roundtrip", in, c16res(u, err), "ok "+h.Hex(b))
			c.Case("pkcs7/pad", in, true)
		}
	}
	unpad := func(k int, b []byte, bucket string) {
		in := fmt.Sprintf("jose.unpad %d %s", k, h.Hex(b))
		out := h.Safe(func() string { return c16res(josecipher.VerifUnpadBuffer(append([]byte(nil), b...), k)) })
		c.Eq("unpad", in, out, c.O.Call("jose.unpad", fmt.Sprint(k), h.Hex(b)))
		c.Case(bucket, in, true)
	}
	unpad(16, nil, "pkcs7/unpad-empty(F28 regression)")
	{
		out := h.Safe(func() string { return c16res(josecipher.VerifUnpadBuffer(nil, 16)) })
		c.Hold(strings.HasPrefix(out, "err"), "no_panic", "jose.unpad 16 - (F28)", out, "err")
	}
	for last := 0; last < 256; last++ {
		b := bytes.Repeat([]byte{byte(last)}, 32)
		unpad(16, b, "pkcs7/unpad-all-last-bytes")
		b2 := r.Bytes(32)
		b2[31] = byte(last)
		unpad(16, b2, "pkcs7/unpad-all-last-bytes")
	}
	nu := c.N(400, 20000)
	for i := 0; i < nu; i++ {
		k := r.Pick(16, 16, 16, 8, 32)
		b := josecipher.VerifPadBuffer(r.Bytes(r.Intn(50)), k)
		switch r.Intn(4) {
		case 0:
			b[r.Intn(len(b))] ^= 1 << uint(r.Intn(8))
		case 1:
			b = b[:r.Intn(len(b)+1)]
		case 2:
			b[len(b)-1] = byte(r.Intn(40))
		}
		unpad(k, b, "pkcs7/unpad-mutated")
	}

	// ------------------------------------------------------------ key wrap with the toy cipher, byte for byte
	for n := 0; n <= 9; n++ {
		for rep := 0; rep < c.N(6, 200); rep++ {
			k := r.Intn(256)
			cek := r.Bytes(8 * n)
			in := fmt.Sprintf("jose.kw.wrap %d %s", k, h.Hex(cek))
			w, err := josecipher.KeyWrap(toyBlock{k}, cek)
			c.Eq("kw.wrap", in, c16res(w, err), c.O.Call("jose.kw.wrap", fmt.Sprint(k), h.Hex(cek)))
			if err == nil {
				u, err2 := josecipher.KeyUnwrap(toyBlock{k}, w)
				c.Hold(err2 == nil && bytes.Equal(u, cek) && len(w) == len(cek)+8, "kw.roundtrip", in, c16res(u, err2), "ok "+h.Hex(cek))
				c.Eq("kw.unwrap", in, c16res(u, err2), c.O.Call("jose.kw.unwrap", fmt.Sprint(k), h.Hex(w)))
				// single-bit flips of a wrapped key: model = implementation (the toy cipher has no diffusion, so
				// some flips unwrap to another key; rejection is AES's job and is exercised in the matrix)
				for q := 0; q < 4 && len(w) > 0; q++ {
					m := append([]byte(nil), w...)
					m[r.Intn(len(m))] ^= 1 << uint(r.Intn(8))
					u2, e2 := josecipher.KeyUnwrap(toyBlock{k}, m)
					c.Eq("kw.unwrap.flipped", "jose.kw.unwrap "+fmt.Sprint(k)+" "+h.Hex(m), c16res(u2, e2), c.O.Call("jose.kw.unwrap", fmt.Sprint(k), h.Hex(m)))
				}
			}
			c.Case(fmt.Sprintf("keywrap/%d-blocks", n), in, true)
		}
	}
	for _, l := range []int{0, 1, 7, 8, 9, 15, 16, 17, 23, 24, 25} {
		b := r.Bytes(l)
		in := fmt.Sprintf("jose.kw.unwrap 5 %s", h.Hex(b))
		out := h.Safe(func() string { return c16res(josecipher.KeyUnwrap(toyBlock{5}, b)) })
		c.Eq("kw.unwrap.malformed", in, out, c.O.Call("jose.kw.unwrap", "5", h.Hex(b)))
		in2 := fmt.Sprintf("jose.kw.wrap 5 %s", h.Hex(b))
		out2 := h.Safe(func() string { return c16res(josecipher.KeyWrap(toyBlock{5}, b)) })
		c.Eq("kw.wrap.malformed", in2, out2, c.O.Call("jose.kw.wrap", "5", h.Hex(b)))
		c.Case("keywrap/malformed-lengths", in, true)
	}
	// F15b regression (fixed finding): the empty wrapped key is an error, not a makeslice panic
	{
		out := h.Safe(func() string { return c16res(josecipher.KeyUnwrap(toyBlock{5}, nil)) })
		c.Hold(out == "err", "tamper.no_panic", "jose.kw.unwrap 5 -", out, "err")
		c.Hold(c.O.Call("jose.kw.unwrap0", "5", "-") == "panic", "f15b.model_witness", "jose.kw.unwrap0 5 -", "model", "panic")
		c.Case("keywrap/F15b-witness", "jose.kw.unwrap 5 -", true)
	}

	// ------------------------------------------------------------ fixed-width integers
	for _, size := range []int{32, 48, 66} {
		for i := 0; i < c.N(40, 2000); i++ {
			mk := func() *big.Int {
				b := r.Bytes(size)
				switch r.Intn(5) {
				case 0: // leading zero bytes
					for k := 0; k < 1+r.Intn(3); k++ {
						b[k] = 0
					}
				case 1:
					b = make([]byte, size)
					b[size-1] = byte(r.Intn(3))
				case 2:
					for k := range b {
						b[k] = 0xff
					}
				}
				return new(big.Int).SetBytes(b)
			}
			x, y := mk(), mk()
			in := fmt.Sprintf("jose.ecsig.enc %d %s %s", size, x, y)
			xb := jose.VerifFixedSizeBuffer(x.Bytes(), size)
			yb := jose.VerifFixedSizeBuffer(y.Bytes(), size)
			c.Eq("fixed", in, "ok "+h.Hex(xb), c.O.Call("jose.fixed", fmt.Sprint(size), x.String()))
			c.Eq("ecsig.enc", in, "ok "+h.Hex(append(append([]byte{}, xb...), yb...)), c.O.Call("jose.ecsig.enc", fmt.Sprint(size), x.String(), y.String()))
			back := c.O.Call("jose.ecsig.dec", fmt.Sprint(size), h.Hex(append(append([]byte{}, xb...), yb...)))
			c.Hold(back == fmt.Sprintf("ok %s %s", x, y) && len(xb) == size, "ecsig.roundtrip", in, back, fmt.Sprintf("ok %s %s", x, y))
			c.Case(fmt.Sprintf("fixed-width/%d", size), in, true)
		}
	}
	{
		out := h.Safe(func() string { return "ok " + h.Hex(jose.VerifFixedSizeBuffer([]byte{1, 2, 3}, 2)) })
		c.Eq("fixed.too-large", "jose.fixed 2 66051", out, c.O.Call("jose.fixed", "2", "66051"))
		c.Case("fixed-width/too-large(panic modelled)", "jose.fixed 2 66051", true)
	}

	// ------------------------------------------------------------ parameter checks before Open
	encs := []jose.ContentEncryption{jose.A128GCM, jose.A192GCM, jose.A256GCM, jose.A128CBC_HS256, jose.A192CBC_HS384, jose.A256CBC_HS512}
	lens := []int{0, 1, 3, 8, 11, 12, 13, 15, 16, 17, 24, 32}
	keyLens := []int{0, 15, 16, 17, 24, 31, 32, 33, 47, 48, 49, 63, 64, 65}
	pre := func(enc jose.ContentEncryption, kl, il, tl, cl int, bucket string) {
		in := fmt.Sprintf("jose.precheck %s %d %d %d %d", enc, kl, il, cl, tl)
		out := h.Safe(func() string {
			_, err := jose.VerifAEADDecrypt(enc, r.Bytes(kl), []byte("aad"), r.Bytes(il), r.Bytes(cl), r.Bytes(tl))
			if err != nil {
				return "err"
			}
			return "ok"
		})
		model := c.O.Call("jose.precheck", string(enc), fmt.Sprint(kl), fmt.Sprint(il), fmt.Sprint(cl), fmt.Sprint(tl))
		if model == "ok " { // Open is entered with well-sized parameters: random bytes do not authenticate
			model = "err"
		}
		c.Eq("precheck", in, out, model)
		c.Hold(out != "panic" || model == "panic", "tamper.no_panic", in, out, "err")
		c.Case(bucket, in, true)
	}
	for _, enc := range encs {
		for _, il := range lens {
			for _, tl := range lens {
				kl := 16
				if strings.Contains(string(enc), "CBC") {
					kl = 32
				}
				pre(enc, kl, il, tl, r.Pick(0, 16, 32), "precheck/iv×tag-grid")
			}
		}
		for _, kl := range keyLens {
			pre(enc, kl, r.Pick(12, 16), 16, 16, "precheck/key-lengths")
			pre(enc, kl, r.Pick(12, 16), 16, r.Pick(0, 3, 7), "precheck/key-lengths")
		}
	}
	for i := 0; i < c.N(300, 10000); i++ {
		pre(encs[r.Intn(6)], keyLens[r.Intn(len(keyLens))], lens[r.Intn(len(lens))], lens[r.Intn(len(lens))], r.Intn(40), "precheck/random")
	}
	// the model of the code before the repair: a 3-byte GCM IV reaches Open's documented panic
	c.Hold(c.O.Call("jose.precheck0", "A128GCM", "16", "3", "3", "16") == "panic", "f15a.model_witness", "jose.precheck0 A128GCM 16 3 3 16", "model", "panic")
	c.Hold(c.O.Call("jose.decres0", "-") == "err" && c.O.Call("jose.decres", "-") == "ok -", "f19.model_witness", "jose.decres0 -", "model", "err / ok -")
}
