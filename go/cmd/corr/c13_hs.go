package main

// C13, last clause — the opening handshake against its model (Model.WsHandshake, oracle domain `hs`):
// the RFC 2616 octet classes and the token / quoted-string / extension parsers of util.go (hooks), the decision and
// the 101 response of Upgrader.Upgrade for crafted requests (a ResponseWriter that can be hijacked), the request
// Dialer.Dial writes and its verdict on crafted responses (a scripted transport). The accept key is checked against
// an independent computation (SHA-1 and base64 of the standard library over the GUID literal of RFC 6455 section
// 1.3). Also here: the JSON entry points (json.go) of the quantifier's API list.

import (
	"bufio"
	"bytes"
	"crypto/sha1"
	"encoding/base64"
	"encoding/json"
	"errors"
	"fmt"
	"io"
	"net"
	"net/http"
	"net/textproto"
	"reflect"
	"sort"
	"strings"
	"time"

	ws "github.com/ossrs/go-oryx-lib/websocket"
	"verifharness/internal/h"
)

// hsAccept: Sec-WebSocket-Accept as RFC 6455 section 4.2.2 defines it.
func hsAccept(key string) string {
	s := sha1.Sum([]byte(key + "258EAFA5-E914-47DA-95CA-C5AB0DC85B11"))
	return base64.StdEncoding.EncodeToString(s[:])
}

func hsHex(s string) string { return h.Hex([]byte(s)) }

func hsList(xs []string) string {
	if len(xs) == 0 {
		return "_"
	}
	ys := make([]string, len(xs))
	for i, x := range xs {
		ys[i] = hsHex(x)
	}
	return strings.Join(ys, ",")
}

// hsHeader: a header block in the oracle's text form, entries in the given key order.
func hsHeader(keys []string, hd map[string][]string) string {
	if len(keys) == 0 {
		return "_"
	}
	var es []string
	for _, k := range keys {
		es = append(es, hsHex(k)+":"+hsList(hd[k]))
	}
	return strings.Join(es, ";")
}

func hsSortedKeys(hd map[string][]string) []string {
	var ks []string
	for k := range hd {
		ks = append(ks, k)
	}
	sort.Strings(ks)
	return ks
}

// hsSortEntries: canonical order of the entries of a header block given in text form
func hsSortEntries(s string) string {
	if s == "_" {
		return s
	}
	es := strings.Split(s, ";")
	sort.Strings(es)
	return strings.Join(es, ";")
}

func hsExts(es []map[string]string) string {
	if len(es) == 0 {
		return "_"
	}
	var out []string
	for _, e := range es {
		var kv []string
		for k, v := range e {
			kv = append(kv, hsHex(k)+"="+hsHex(v))
		}
		sort.Strings(kv)
		out = append(out, strings.Join(kv, "+"))
	}
	return strings.Join(out, "|")
}

var hsAlphabet = []string{" ", "\t", "\r", "\n", ",", ";", "=", "\"", "\\", "a", "B", "-", "_", "1", "(", "/", "\x00", "\x7f", "\x80", "\xff", "k", "\xe2\x84\xaa", "permessage-deflate", "x"}

func hsRandText(r *h.Rand, n int) string {
	var b strings.Builder
	for i := 0; i < n; i++ {
		b.WriteString(hsAlphabet[r.Intn(len(hsAlphabet))])
	}
	return b.String()
}

func hsOWS(r *h.Rand) string { return []string{"", "", " ", "  ", "\t", " \t "}[r.Intn(6)] }

// ---- fake http.ResponseWriter that can be hijacked ----

type hsRW struct {
	hdr      http.Header
	status   int
	body     bytes.Buffer
	conn     *wsFake
	early    []byte
	noHijack bool
}

func (w *hsRW) Header() http.Header { return w.hdr }
func (w *hsRW) Write(p []byte) (int, error) {
	if w.status == 0 {
		w.status = 200
	}
	return w.body.Write(p)
}
func (w *hsRW) WriteHeader(code int) {
	if w.status == 0 {
		w.status = code
	}
}
func (w *hsRW) Hijack() (net.Conn, *bufio.ReadWriter, error) {
	br := bufio.NewReader(bytes.NewReader(w.early))
	if len(w.early) > 0 {
		br.Peek(1)
	}
	return w.conn, bufio.NewReadWriter(br, bufio.NewWriter(w.conn)), nil
}

// hsParseResponse: status line + header lines (as written) of a raw response
func hsParseBlock(raw []byte) (first string, names []string, hd map[string][]string, ok bool) {
	s := string(raw)
	if !strings.HasSuffix(s, "\r\n\r\n") {
		return "", nil, nil, false
	}
	lines := strings.Split(strings.TrimSuffix(s, "\r\n\r\n"), "\r\n")
	hd = map[string][]string{}
	for _, l := range lines[1:] {
		i := strings.Index(l, ": ")
		if i < 0 {
			return "", nil, nil, false
		}
		k := l[:i]
		if _, seen := hd[k]; !seen {
			names = append(names, k)
		}
		hd[k] = append(hd[k], l[i+2:])
	}
	return lines[0], names, hd, true
}

// ---- scripted transport for Dial ----

type hsScript struct {
	wsFake
	req      bytes.Buffer
	respond  func(req []byte) []byte
	resp     *bytes.Reader
	deadline bool
}

func (s *hsScript) Write(p []byte) (int, error) {
	s.req.Write(p)
	return len(p), nil
}
func (s *hsScript) Read(p []byte) (int, error) {
	if s.resp == nil {
		if !bytes.HasSuffix(s.req.Bytes(), []byte("\r\n\r\n")) {
			return 0, io.ErrUnexpectedEOF
		}
		s.resp = bytes.NewReader(s.respond(s.req.Bytes()))
	}
	return s.resp.Read(p)
}

func c13Hs(c *h.Ctx) {
	r := c.R.Fork()

	// 1. the octet table, all 256 octets
	for b := 0; b < 256; b++ {
		c.Eq("hs.octet", fmt.Sprint(b), fmt.Sprint(ws.VerifOctetType(byte(b))), c.O.Call("hs.octet", fmt.Sprint(b)))
	}
	c.Case("hs/octets", "256", true)

	// 2. the lexers on texts over the interesting octets
	for i := 0; i < c.N(1500, 30000); i++ {
		s := hsRandText(r, r.Intn(9))
		if r.Chance(40) {
			s = "\"" + s
		}
		in := hsHex(s)
		c.Eq("hs.skip", in, hsHex(ws.VerifSkipSpace(s)), c.O.Call("hs.skip", in))
		t, rest := ws.VerifNextToken(s)
		c.Eq("hs.tok", in, hsHex(t)+" "+hsHex(rest), c.O.Call("hs.tok", in))
		q, rest2 := ws.VerifNextTokenOrQuoted(s)
		c.Eq("hs.tokq", in, hsHex(q)+" "+hsHex(rest2), c.O.Call("hs.tokq", in))
		c.Case("hs/lexers", in, len(s) > 0)
	}

	// 3. strings.EqualFold against the ASCII constants the client compares with
	for _, k := range []string{"websocket", "upgrade"} {
		vars := []string{k, strings.ToUpper(k), strings.Title(k), k + " ", " " + k, k[:len(k)-1], k + "x", ""}
		for i := 0; i < len(k); i++ {
			for _, rep := range []string{"\xe2\x84\xaa", "\xc5\xbf", "\xc5", "\xff", "\xe2\x84", "K", "S", "s", "k", "\xc4\xb1", "\xc4\xb0"} {
				vars = append(vars, k[:i]+rep+k[i+1:])
			}
		}
		for _, v := range vars {
			c.Eq("hs.fold", hsHex(v)+" "+k, b01(strings.EqualFold(v, k)), c.O.Call("hs.fold", hsHex(v), hsHex(k)))
		}
		c.Case("hs/fold/"+k, fmt.Sprint(len(vars)), true)
	}

	// 4. tokenListContainsValue: 1#token lists with optional white space; malformed variants
	toks := []string{"upgrade", "Upgrade", "UPGRADE", "keep-alive", "websocket", "WebSocket", "13", "8", "x", "close", "upgrade2", "pgrade"}
	for i := 0; i < c.N(800, 20000); i++ {
		value := []string{"upgrade", "websocket", "13"}[r.Intn(3)]
		var vals []string
		wellFormed, want := true, false
		for n := r.Intn(3); n >= 0; n-- {
			var b strings.Builder
			k := 1 + r.Intn(3)
			thisOK := true
			for j := 0; j < k; j++ {
				t := toks[r.Intn(len(toks))]
				if j > 0 {
					b.WriteString(",")
				}
				b.WriteString(hsOWS(r))
				if r.Chance(6) {
					t = []string{"", "\"upgrade\"", "up grade", "upgrade;q=1", "upgrade/1", "\x80"}[r.Intn(6)]
					wellFormed = false
				}
				b.WriteString(t)
				b.WriteString(hsOWS(r))
				if thisOK && strings.EqualFold(t, value) {
					want = true
				}
			}
			vals = append(vals, b.String())
		}
		in := hsHex(value) + " " + hsList(vals)
		got := ws.VerifTokenListContainsValue("Connection", vals, value)
		c.Eq("hs.tlcv", in, b01(got), c.O.Call("hs.tlcv", hsHex(value), hsList(vals)))
		if wellFormed {
			c.Hold(got == want, "handshake.token_list_membership", in, b01(got), b01(want))
		}
		c.Case(fmt.Sprintf("hs/tlcv/wf=%v/%v", wellFormed, got), in, true)
	}

	// 5. parseExtensions
	names := []string{"permessage-deflate", "x-webkit-deflate-frame", "foo", "permessage-deflate2", "Permessage-Deflate"}
	params := []string{"server_no_context_takeover", "client_no_context_takeover", "client_max_window_bits", "server_max_window_bits", "a"}
	for i := 0; i < c.N(800, 20000); i++ {
		var vals []string
		var want []map[string]string
		wellFormed := true
		for n := r.Intn(2); n >= 0; n-- {
			var b strings.Builder
			k := 1 + r.Intn(3)
			for j := 0; j < k; j++ {
				if j > 0 {
					b.WriteString(",")
				}
				e := map[string]string{"": names[r.Intn(len(names))]}
				b.WriteString(hsOWS(r) + e[""] + hsOWS(r))
				for p := r.Intn(4); p > 0; p-- {
					pk := params[r.Intn(len(params))]
					pv := ""
					b.WriteString(";" + hsOWS(r) + pk + hsOWS(r))
					switch r.Intn(4) {
					case 1:
						pv = []string{"15", "8", "abc"}[r.Intn(3)]
						b.WriteString("=" + hsOWS(r) + pv + hsOWS(r))
					case 2:
						pv = []string{"15", "a b", "q\"uote", "back\\slash", ""}[r.Intn(5)]
						b.WriteString("=" + hsOWS(r) + "\"" + strings.NewReplacer("\\", "\\\\", "\"", "\\\"").Replace(pv) + "\"" + hsOWS(r))
					}
					e[pk] = pv
				}
				if r.Chance(5) {
					b.WriteString([]string{"=", " x", "; ;", ";=1", "\"", ";a=\"unterminated", "/"}[r.Intn(7)])
					wellFormed = false
				}
				want = append(want, e)
			}
			vals = append(vals, b.String())
		}
		in := hsList(vals)
		got := hsExts(ws.VerifParseExtensions(vals))
		c.Eq("hs.ext", in, got, c.O.Call("hs.ext", in))
		if wellFormed {
			c.Hold(got == hsExts(want), "handshake.extension_list_parsed", in, got, hsExts(want))
		}
		c.Case(fmt.Sprintf("hs/ext/wf=%v", wellFormed), in, true)
	}

	// 6. header name spelling as net/textproto canonicalises it (the model's `transport`)
	for _, k := range []string{"upgrade", "CONNECTION", "Sec-WebSocket-Key", "sec-websocket-version", "Sec-Websocket-Extensions", "sec-webSocket-protocol", "x", "a-b-c", "A--b", "-a", "a-", "bad name", "bad\x80", "Sec_WebSocket", "1-2-x", ""} {
		c.Eq("hs.canon", hsHex(k), hsHex(textproto.CanonicalMIMEHeaderKey(k)), c.O.Call("hs.canon", hsHex(k)))
	}
	c.Case("hs/canon", "16", true)

	// 6b. computeAcceptKey against the Lean specification (SHA-1 and base64 written from the standards) and against
	// the standard library over the RFC's GUID; SHA-1 block boundaries (key lengths around 19/20 and 83/84 octets:
	// with the 36-octet GUID the padded message crosses 64 and 128 octets there)
	for _, n := range []int{0, 1, 16, 18, 19, 20, 24, 27, 28, 55, 83, 84, 91, 92, 200} {
		key := base64.StdEncoding.EncodeToString(r.Bytes(n))[:n]
		if n == 24 {
			key = "dGhlIHNhbXBsZSBub25jZQ=="
		}
		got := ws.VerifComputeAcceptKey(key)
		c.Eq("hs.accept", hsHex(key), hsHex(got), c.O.Call("hs.accept", hsHex(key)))
		c.Hold(got == hsAccept(key), "handshake.accept_key", "key "+key, got, hsAccept(key))
	}
	c.Case("hs/accept", "15", true)

	// 7. Upgrader.Upgrade on crafted requests
	connVals := []string{"Upgrade", "upgrade", "keep-alive, Upgrade", "keep-alive,upgrade ", "close", "", "Upgrade, ", "Upgrade;x", "keep-alive"}
	upgVals := []string{"websocket", "WebSocket", "websocket, h2c", "h2c", "", "web socket", "websocket/13"}
	verVals := []string{"13", "13, 8", "8, 13", "8", "", "13.0", " 13 "}
	keyVals := []string{"dGhlIHNhbXBsZSBub25jZQ==", "x3JJHMbDL1EzLkh9GBhXDw==", "", "not base64 at all", "AAAAAAAAAAAAAAAAAAAAAA=="}
	extVals := [][]string{nil, {"permessage-deflate"}, {"permessage-deflate; client_max_window_bits"}, {"permessage-deflate; server_no_context_takeover; client_no_context_takeover"},
		{"x-webkit-deflate-frame"}, {"foo, permessage-deflate"}, {"foo", "permessage-deflate; client_max_window_bits=15"}, {"permessage-deflate;", "bar"}, {"Permessage-Deflate"}, {"permessage-deflate=1"}, {"foo; a=\"b\\\"c\", permessage-deflate"}}
	protoVals := []string{"", "chat", "chat, superchat", " superchat ,chat", "chat,,x", ",", "SUPERCHAT", "chat\t"}
	for i := 0; i < c.N(1200, 30000); i++ {
		pick := func(xs []string, pValid int) string {
			if r.Chance(pValid) {
				return xs[0]
			}
			return xs[r.Intn(len(xs))]
		}
		hd := http.Header{}
		set := func(k, v string, always bool) {
			if v != "" || always && r.Chance(50) {
				hd[k] = []string{v}
			}
		}
		set("Connection", pick(connVals, 70), false)
		set("Upgrade", pick(upgVals, 70), false)
		set("Sec-Websocket-Version", pick(verVals, 70), false)
		set("Sec-Websocket-Key", pick(keyVals, 70), true)
		if r.Chance(10) && len(hd["Connection"]) > 0 { // a second Connection line
			hd["Connection"] = append([]string{"keep-alive"}, hd["Connection"]...)
		}
		if e := extVals[r.Intn(len(extVals))]; e != nil && r.Chance(60) {
			hd["Sec-Websocket-Extensions"] = e
		}
		set("Sec-Websocket-Protocol", protoVals[r.Intn(len(protoVals))], false)
		// the default origin policy (CheckOrigin nil): no Origin header, or its host equals the request's Host
		type originCase struct {
			v  string
			ok bool
		}
		oc := []originCase{{"", true}, {"http://example.com", true}, {"https://example.com", true}, {"http://example.com:8080", false}, {"https://other.example", false},
			{"http://EXAMPLE.com", false}, {"http://example.com/path?x=1", true}, {"%zz://bad origin", false}, {"null", false}}[r.Intn(9)]
		if oc.v != "" {
			hd["Origin"] = []string{oc.v}
		}
		defaultOrigin := r.Chance(35)
		method := "GET"
		if r.Chance(5) {
			method = []string{"POST", "get", "HEAD"}[r.Intn(3)]
		}
		originOk := !r.Chance(8)
		up := ws.Upgrader{EnableCompression: r.Bool(), ReadBufferSize: 256, WriteBufferSize: 256, CheckOrigin: func(*http.Request) bool { return originOk }}
		if defaultOrigin {
			up.CheckOrigin = nil
			originOk = oc.ok
		}
		subsArg := "nil"
		if r.Chance(50) {
			up.Subprotocols = [][]string{{}, {"chat"}, {"superchat", "chat"}, {"x", "superchat"}}[r.Intn(4)]
			subsArg = hsList(up.Subprotocols)
		}
		var respHdr http.Header
		respArg := "nil"
		if r.Chance(40) {
			respHdr = http.Header{}
			if r.Chance(50) {
				respHdr["Sec-Websocket-Protocol"] = []string{[]string{"chat", "mine", ""}[r.Intn(3)]}
			}
			if r.Chance(40) {
				respHdr["Set-Cookie"] = []string{"a=b", "c=d\r\nX-Injected: 1"}[:1+r.Intn(2)]
			}
			if r.Chance(8) {
				respHdr["Sec-Websocket-Extensions"] = []string{"permessage-deflate"}
			}
			if r.Chance(20) {
				respHdr["X-Tab"] = []string{"a\tb\x00c\x1fd\x7f"}
			}
			respArg = hsHeader(hsSortedKeys(respHdr), respHdr)
		}
		early := r.Chance(6)
		if r.Chance(40) {
			up.HandshakeTimeout = time.Duration(1+r.Intn(3)) * time.Second
		}
		req := &http.Request{Method: method, Header: hd, Host: "example.com", Proto: "HTTP/1.1", ProtoMajor: 1, ProtoMinor: 1}
		rw := &hsRW{hdr: http.Header{}, conn: newWsFake(nil)}
		rw.conn.SetDeadline(time.Now().Add(5 * time.Second)) // what net/http's server arms (ReadTimeout / WriteTimeout)
		if early {
			rw.early = []byte{0x81, 0x80, 0, 0, 0, 0}
		}
		key := hd.Get("Sec-Websocket-Key")
		{
			isUp := ws.IsWebSocketUpgrade(req)
			m1 := c.O.Call("hs.tlcv", hsHex("upgrade"), hsList(hd["Connection"]))
			m2 := c.O.Call("hs.tlcv", hsHex("websocket"), hsList(hd["Upgrade"]))
			c.Eq("hs.is_upgrade", hsHeader(hsSortedKeys(hd), hd), b01(isUp), b01(m1 == "1" && m2 == "1"))
		}
		in := fmt.Sprintf("Upgrade defaultOriginPolicy=%v compress=%v subprotocols=%s originOk=%v early=%v method=%s responseHeader=%s request=%s", defaultOrigin, up.EnableCompression, subsArg, originOk, early, method, respArg, hsHeader(hsSortedKeys(hd), hd))
		var conn *ws.Conn
		impl := h.Safe(func() string {
			var err error
			conn, err = up.Upgrade(rw, req, respHdr)
			if err != nil {
				if rw.status != 0 {
					return fmt.Sprintf("err %d", rw.status)
				}
				if strings.Contains(err.Error(), "client sent data before handshake is complete") {
					return "early"
				}
				return "err ? " + err.Error()
			}
			first, _, lines, ok := hsParseBlock(rw.conn.Written())
			if !ok || first != "HTTP/1.1 101 Switching Protocols" {
				return "accept with a malformed response: " + h.Trunc(string(rw.conn.Written()), 200)
			}
			cw, cr := ws.VerifCompression(conn)
			if cw != cr {
				return fmt.Sprintf("accept with write compression %v and read decompression %v", cw, cr)
			}
			return fmt.Sprintf("accept %s %s %s", b01(cw), hsHex(conn.Subprotocol()), hsSortEntries(hsHeader(hsSortedKeys(lines), lines)))
		})
		model := c.O.Call("hs.upgrade", hsHex(hsAccept(key)), b01(up.EnableCompression), subsArg, b01(originOk), b01(early), hsHex(method), respArg, hsHeader(hsSortedKeys(hd), hd))
		if f := strings.Fields(model); len(f) == 4 && f[0] == "accept" {
			model = strings.Join([]string{f[0], f[1], f[2], hsSortEntries(f[3])}, " ")
		}
		c.Eq("hs.upgrade", in, impl, model)
		bucket := strings.Fields(impl + " ?")[0]
		if strings.HasPrefix(impl, "err ") {
			bucket = impl
		}
		if strings.HasPrefix(impl, "accept ") {
			// the property itself, on the implementation: a session is set up only for a WebSocket upgrade request, the
			// accept key is the one RFC 6455 defines, compression is on only when both sides asked for it and then it is
			// announced to the client
			_, _, lines, _ := hsParseBlock(rw.conn.Written())
			cw, _ := ws.VerifCompression(conn)
			offered := false
			for _, e := range hd["Sec-Websocket-Extensions"] {
				offered = offered || strings.Contains(e, "permessage-deflate")
			}
			announced := len(lines["Sec-Websocket-Extensions"]) == 1 && strings.HasPrefix(lines["Sec-Websocket-Extensions"][0], "permessage-deflate")
			// the session outlives the handshake: no deadline of the HTTP server or of the handshake timeout stays armed
			rdl, wdl := rw.conn.Deadlines()
			c.Hold(rdl.IsZero() && wdl.IsZero(), "handshake.no_deadline_left_on_the_session", in+fmt.Sprintf(" HandshakeTimeout=%v", up.HandshakeTimeout), fmt.Sprintf("read deadline set: %v, write deadline set: %v", !rdl.IsZero(), !wdl.IsZero()), "none")
			c.Hold(len(lines["Sec-WebSocket-Accept"]) == 1 && lines["Sec-WebSocket-Accept"][0] == hsAccept(key), "handshake.accept_key", in, fmt.Sprint(lines["Sec-WebSocket-Accept"]), hsAccept(key))
			c.Hold(method == "GET" && key != "" && originOk, "handshake.only_upgrade_requests_accepted", in, impl, "GET with a key from an allowed origin")
			c.Hold(!cw || (up.EnableCompression && offered), "handshake.compression_only_when_offered_and_enabled", in, b01(cw), "off")
			c.Hold(cw == announced, "handshake.compression_announced_iff_on", in, fmt.Sprintf("on=%v announced=%v", cw, announced), "equal")
			injected := false
			for k := range lines {
				injected = injected || strings.HasPrefix(k, "X-Injected")
			}
			c.Hold(!injected, "handshake.no_response_splitting", in, "a header line made from an application header VALUE", "control octets replaced")
			bucket = fmt.Sprintf("accept/compress=%v/sub=%v", cw, conn.Subprotocol() != "")
		}
		c.Case("hs/upgrade/"+bucket, in, true)
	}

	// 7b. ws URIs: parseURL / hostPortNoPort against the model, and what Dial makes of them (dial address, request
	// target, Host header) against the values RFC 6455 section 3 gives
	type uriCase struct {
		uri, target, host, addr string // empty target: malformed
	}
	uris := []uriCase{
		{"ws://example.com/path", "/path", "example.com", "example.com:80"},
		{"ws://example.com", "/", "example.com", "example.com:80"},
		{"ws://example.com/", "/", "example.com", "example.com:80"},
		{"ws://example.com:8080/a/b?x=1&y=2", "/a/b?x=1&y=2", "example.com:8080", "example.com:8080"},
		{"ws://example.com?q=1", "/?q=1", "example.com", "example.com:80"},
		{"ws://example.com/?", "/", "example.com", "example.com:80"},
		{"ws://example.com/a?b?c/d", "/a?b?c/d", "example.com", "example.com:80"},
		{"ws://[::1]:9000/p", "/p", "[::1]:9000", "[::1]:9000"},
		{"ws://[::1]/p", "/p", "[::1]", "[::1]:80"},
		{"ws://example.com:80/%41%2f?%20", "/%41%2f?%20", "example.com:80", "example.com:80"},
		{"ws://user:pw@example.com/", "", "", ""},
		{"http://example.com/", "", "", ""},
		{"example.com/ws", "", "", ""},
		{"WS://example.com/", "", "", ""},
		{"ws:/example.com/", "", "", ""},
	}
	for i := 0; i < c.N(200, 4000); i++ { // generated variants for the model comparison
		u := []string{"ws://", "wss://", "ws:/", "w", ""}[r.Pick(0, 0, 0, 1, 1, 2, 3, 4)]
		for n := r.Intn(6); n > 0; n-- {
			u += []string{"a", "example.com", ":", "80", "/", "?", "@", "[", "]", "::1", "#", "x=1", "%2f", "//"}[r.Intn(14)]
		}
		uris = append(uris, uriCase{uri: u, target: "?"})
	}
	for _, uc := range uris {
		sch, host, target, hp, hnp, err := ws.VerifParseURL(uc.uri)
		impl := "err"
		if err == nil {
			impl = fmt.Sprintf("ok %s %s %s %s %s", hsHex(sch), hsHex(host), hsHex(target), hsHex(hp), hsHex(hnp))
		}
		c.Eq("hs.url", uc.uri, impl, c.O.Call("hs.url", hsHex(uc.uri)))
		if uc.target == "?" {
			c.Case("hs/url/generated", uc.uri, true)
			continue
		}
		var addr string
		var sc *hsScript
		d := ws.Dialer{HandshakeTimeout: time.Second, NetDial: func(network, a string) (net.Conn, error) {
			addr = a
			sc = &hsScript{respond: func([]byte) []byte { return []byte("HTTP/1.1 400 Bad Request\r\nContent-Length: 0\r\n\r\n") }}
			return sc, nil
		}}
		res := h.Safe(func() string {
			_, _, err := d.Dial(uc.uri, nil)
			if sc == nil {
				return "malformed: " + fmt.Sprint(err)
			}
			first, _, hd, ok := hsParseBlock(sc.req.Bytes())
			if !ok || len(hd["Host"]) != 1 {
				return "request not well-formed"
			}
			return fmt.Sprintf("%s | Host: %s | dial %s", first, hd["Host"][0], addr)
		})
		want := "malformed: malformed ws or wss URL"
		if uc.target != "" {
			want = fmt.Sprintf("GET %s HTTP/1.1 | Host: %s | dial %s", uc.target, uc.host, uc.addr)
		}
		c.Hold(res == want, "handshake.request_target_and_host", "Dial "+uc.uri, res, want)
		c.Case("hs/url/dial", uc.uri, true)
	}

	// 8. Dialer.Dial: the request it writes and its verdict on crafted responses
	type respVariant struct {
		status                 int
		upgrade, connection    string
		accept                 int // 0 right, 1 wrong, 2 missing, 3 right with white space around
		exts                   []string
		proto                  string
		lowerNames             bool
	}
	upgR := []string{"websocket", "WebSocket", "WEBSOCKET", "websoc\xe2\x84\xaaet", "web\xc5\xbfocket", "websocket, x", "", "websocke", "websocket "}
	conR := []string{"Upgrade", "upgrade", "UPGRADE", "keep-alive, Upgrade", "", "upgrad", "Upgrade "}
	extR := [][]string{nil, nil, {"permessage-deflate; server_no_context_takeover; client_no_context_takeover"}, {"permessage-deflate; client_no_context_takeover; server_no_context_takeover"},
		{"permessage-deflate"}, {"permessage-deflate; server_no_context_takeover"}, {"permessage-deflate; client_no_context_takeover; server_max_window_bits=10"},
		{"foo, permessage-deflate; server_no_context_takeover; client_no_context_takeover"}, {"foo", "permessage-deflate;server_no_context_takeover;client_no_context_takeover=\"x\""},
		{"permessage-deflate; server_no_context_takeover; client_no_context_takeover; bad bad"}, {"Permessage-Deflate; server_no_context_takeover; client_no_context_takeover"},
		{"permessage-deflate; server_no_context_takeover", "permessage-deflate; server_no_context_takeover; client_no_context_takeover"}}
	for i := 0; i < c.N(500, 12000); i++ {
		v := respVariant{status: 101, upgrade: upgR[0], connection: conR[0], proto: []string{"", "", "chat", "superchat"}[r.Intn(4)], exts: extR[r.Intn(len(extR))], lowerNames: r.Chance(20)}
		if r.Chance(25) {
			v.status = []int{200, 400, 100 + r.Intn(2)*1, 301, 403}[r.Intn(5)]
		}
		if r.Chance(35) {
			v.upgrade = upgR[r.Intn(len(upgR))]
		}
		if r.Chance(35) {
			v.connection = conR[r.Intn(len(conR))]
		}
		if r.Chance(30) {
			v.accept = r.Intn(4)
		}
		d := ws.Dialer{EnableCompression: r.Bool(), ReadBufferSize: 256, WriteBufferSize: 256, HandshakeTimeout: time.Duration(r.Intn(3)) * time.Second}
		if r.Chance(40) {
			d.Subprotocols = [][]string{{"chat"}, {"chat", "superchat"}, {"a", "b", "c"}}[r.Intn(3)]
		}
		var reqHdr http.Header
		if r.Chance(50) {
			reqHdr = http.Header{}
			if r.Chance(50) {
				reqHdr["Origin"] = []string{"http://example.com"}
			}
			if r.Chance(30) {
				reqHdr["Host"] = []string{"other.example"}
			}
			if r.Chance(25) {
				reqHdr["X-Custom"] = []string{"1", "2"}
			}
			if r.Chance(25) {
				reqHdr["Sec-Websocket-Protocol"] = []string{"mine"}
			}
			if r.Chance(12) {
				k := []string{"Upgrade", "Connection", "Sec-Websocket-Key", "Sec-Websocket-Version", "Sec-Websocket-Extensions"}[r.Intn(5)]
				reqHdr[k] = []string{"x"}
			}
		}
		var sc *hsScript
		var rawReq []byte
		var key string
		var parsedResp http.Header
		respond := func(req []byte) []byte {
			rawReq = append([]byte(nil), req...)
			_, _, hd, _ := hsParseBlock(req)
			if len(hd["Sec-WebSocket-Key"]) == 1 {
				key = hd["Sec-WebSocket-Key"][0]
			}
			var b bytes.Buffer
			name := func(s string) string {
				if v.lowerNames {
					return strings.ToLower(s)
				}
				return s
			}
			fmt.Fprintf(&b, "HTTP/1.1 %d %s\r\n", v.status, http.StatusText(v.status))
			if v.upgrade != "" {
				fmt.Fprintf(&b, "%s: %s\r\n", name("Upgrade"), v.upgrade)
			}
			if v.connection != "" {
				fmt.Fprintf(&b, "%s: %s\r\n", name("Connection"), v.connection)
			}
			switch v.accept {
			case 0:
				fmt.Fprintf(&b, "%s: %s\r\n", name("Sec-WebSocket-Accept"), hsAccept(key))
			case 1:
				fmt.Fprintf(&b, "%s: %s\r\n", name("Sec-WebSocket-Accept"), hsAccept(key+"x"))
			case 3:
				fmt.Fprintf(&b, "%s:   %s  \r\n", name("Sec-WebSocket-Accept"), hsAccept(key))
			}
			for _, e := range v.exts {
				fmt.Fprintf(&b, "%s: %s\r\n", name("Sec-WebSocket-Extensions"), e)
			}
			if v.proto != "" {
				fmt.Fprintf(&b, "%s: %s\r\n", name("Sec-WebSocket-Protocol"), v.proto)
			}
			if v.status != 101 {
				b.WriteString("Content-Length: 0\r\n")
			}
			b.WriteString("\r\n")
			if pr, err := http.ReadResponse(bufio.NewReader(bytes.NewReader(b.Bytes())), nil); err == nil {
				parsedResp = pr.Header
			}
			return b.Bytes()
		}
		d.NetDial = func(network, addr string) (net.Conn, error) {
			sc = &hsScript{respond: respond}
			return sc, nil
		}
		reqArg := "_"
		if reqHdr != nil {
			reqArg = hsHeader(hsSortedKeys(reqHdr), reqHdr)
		}
		in := fmt.Sprintf("Dial compress=%v subprotocols=%s requestHeader=%s response=%+v", d.EnableCompression, hsList(d.Subprotocols), reqArg, v)
		var conn *ws.Conn
		impl := h.Safe(func() string {
			var err error
			conn, _, err = d.Dial("ws://example.com/path", reqHdr)
			switch {
			case err == nil:
				cw, cr := ws.VerifCompression(conn)
				if cw != cr {
					return fmt.Sprintf("accept with write compression %v and read decompression %v", cw, cr)
				}
				return fmt.Sprintf("accept %s %s", b01(cw), hsHex(conn.Subprotocol()))
			case err == ws.ErrBadHandshake:
				return "bad"
			case strings.Contains(err.Error(), "duplicate header not allowed"):
				return "dup"
			case strings.Contains(err.Error(), "invalid compression negotiation"):
				return "invalid"
			}
			return "err " + err.Error()
		})
		// the request the client wrote (Host and User-Agent are added by net/http's Request.Write)
		mreq := c.O.Call("hs.request", b01(d.EnableCompression), hsList(d.Subprotocols), hsHex(key), reqArg)
		if impl == "dup" || mreq == "dup" {
			c.Eq("hs.request", in, impl, mreq)
			c.Case("hs/dial/dup", in, true)
			continue
		}
		first, _, hd, ok := hsParseBlock(rawReq)
		delete(hd, "Host")
		delete(hd, "User-Agent")
		wantFirst := "GET /path HTTP/1.1"
		c.Hold(ok && first == wantFirst, "handshake.request_line", in, first, wantFirst)
		mh := strings.TrimPrefix(mreq, "ok ")
		// the model lists a repeated name once per entry; the wire has one line per value
		c.Eq("hs.request", in, hsSortEntries(hsHeader(hsSortedKeys(hd), hd)), hsSortEntries(mh))
		c.Hold(len(hd["Sec-WebSocket-Key"]) == 1 && func() bool { b, err := base64.StdEncoding.DecodeString(key); return err == nil && len(b) == 16 }(), "handshake.challenge_key_is_16_random_octets", in, key, "base64 of 16 octets")
		// its verdict on the response, from what net/http parsed
		model := c.O.Call("hs.client", hsHex(hsAccept(key)), hsHex(key), fmt.Sprint(v.status), hsHeader(hsSortedKeys(parsedResp), parsedResp))
		c.Eq("hs.client", in, impl, model)
		if strings.HasPrefix(impl, "accept ") {
			rdl, wdl := sc.Deadlines()
			c.Hold(rdl.IsZero() && wdl.IsZero(), "handshake.no_deadline_left_on_the_session", in+fmt.Sprintf(" HandshakeTimeout=%v", d.HandshakeTimeout), fmt.Sprintf("read deadline set: %v, write deadline set: %v", !rdl.IsZero(), !wdl.IsZero()), "none")
			c.Hold(v.status == 101 && (v.accept == 0 || v.accept == 3), "handshake.client_checks_status_and_accept_key", in, impl, "101 and the right accept key")
			full := false
			for _, e := range v.exts {
				full = full || (strings.Contains(e, "permessage-deflate") && strings.Contains(e, "server_no_context_takeover") && strings.Contains(e, "client_no_context_takeover"))
			}
			cw, _ := ws.VerifCompression(conn)
			c.Hold(!cw || full, "handshake.client_compression_only_as_negotiated", in, b01(cw), "off unless permessage-deflate with both no_context_takeover parameters came back")
		}
		c.Case("hs/dial/"+strings.Fields(impl + " ?")[0], in, true)
	}
}

// c13JSON: WriteJSON / ReadJSON (json.go). The wire of WriteJSON is one text message holding the value's JSON
// encoding (encoding/json's Encoder adds a line feed); ReadJSON gives the value back; an empty message is an
// unexpected EOF, not io.EOF.
func c13JSON(c *h.Ctx) {
	r := c.R.Fork()
	type rec struct {
		A string                 `json:"a"`
		N []int                  `json:"n"`
		M map[string]interface{} `json:"m"`
	}
	for i := 0; i < c.N(60, 1500); i++ {
		server, deflate, B := r.Bool(), r.Bool(), r.Pick(1, 16, 125, 256, 4096)
		v := rec{A: strings.Repeat("é<& x", r.Pick(0, 1, 30, 300, 20000)), M: map[string]interface{}{"k": float64(r.Intn(1000)), "s": "v", "nil": nil}}
		for n := r.Pick(0, 1, 10, 5000); n > 0; n-- {
			v.N = append(v.N, r.Intn(1<<30))
		}
		in := fmt.Sprintf("WriteJSON role=%s deflate=%v B=%d len(a)=%d len(n)=%d", roleStr(server), deflate, B, len(v.A), len(v.N))
		res := h.Safe(func() string {
			tr := newWsFake(nil)
			conn := ws.VerifNewConn(tr, server, 0, B, deflate)
			if err := conn.WriteJSON(&v); err != nil {
				return "WriteJSON: " + err.Error()
			}
			if err := ws.WriteJSON(conn, []int{1, 2, 3}); err != nil {
				return "WriteJSON (package function): " + err.Error()
			}
			bad := conn.WriteJSON(map[string]interface{}{"f": func() {}}) // cannot be marshalled: an error, and the connection stays usable
			if bad == nil {
				return "WriteJSON of a func value: no error"
			}
			if err := conn.WriteJSON("after the failed one"); err != nil {
				return "WriteJSON after a failed WriteJSON: " + err.Error()
			}
			wire := tr.Written()
			rep := c.O.Call("ws.parse", roleStr(server), b01(deflate), h.Hex(wire))
			if !strings.HasPrefix(rep, "ok ") {
				return "wire does not parse: " + h.Trunc(rep, 200)
			}
			want, _ := json.Marshal(&v)
			p1 := ws.VerifNewConn(newWsFake(wire), !server, 0, 256, deflate)
			t, p, err := p1.ReadMessage()
			if err != nil || t != ws.TextMessage || !bytes.Equal(p, append(want, '\n')) {
				return fmt.Sprintf("peer ReadMessage: type %d, %d bytes (want %d), err=%v", t, len(p), len(want)+1, err)
			}
			p2 := ws.VerifNewConn(newWsFake(wire), !server, 0, 256, deflate)
			var back rec
			if err := p2.ReadJSON(&back); err != nil {
				return "ReadJSON: " + err.Error()
			}
			if !reflect.DeepEqual(back, v) {
				return "ReadJSON: value differs"
			}
			var arr []int
			if err := ws.ReadJSON(p2, &arr); err != nil || !reflect.DeepEqual(arr, []int{1, 2, 3}) {
				return fmt.Sprintf("ReadJSON (package function): %v %v", arr, err)
			}
			// the failed WriteJSON may have left a (possibly empty or partial) message on the wire; whatever it is, the
			// one written afterwards must arrive as a message of its own
			var s string
			for k := 0; k < 3; k++ {
				err = p2.ReadJSON(&s)
				if err == nil && s == "after the failed one" {
					break
				}
			}
			if s != "after the failed one" {
				return fmt.Sprintf("message after the failed WriteJSON: %q err=%v", s, err)
			}
			return "ok"
		})
		c.Hold(res == "ok", "json_api.roundtrip", in, res, "ok")
		c.Case(fmt.Sprintf("json/%s/deflate=%v", roleStr(server), deflate), in, true)
	}
	// an empty text message: ReadJSON reports io.ErrUnexpectedEOF (one value per message), the next message is intact
	for _, server := range []bool{false, true} {
		tr := newWsFake(nil)
		w := ws.VerifNewConn(tr, !server, 0, 64, false)
		w.WriteMessage(ws.TextMessage, nil)
		w.WriteJSON(7)
		p := ws.VerifNewConn(newWsFake(tr.Written()), server, 0, 64, false)
		var x int
		e1 := p.ReadJSON(&x)
		e2 := p.ReadJSON(&x)
		c.Hold(errors.Is(e1, io.ErrUnexpectedEOF) && e2 == nil && x == 7, "json_api.empty_message", "empty text message then 7, reader "+roleStr(server), fmt.Sprintf("%v / %v x=%d", e1, e2, x), "unexpected EOF, then 7")
		c.Case("json/empty", roleStr(server), true)
	}
}
