package main

// C14 — websocket reader: framing rules, sticky error + Close 1002, 64-bit lengths, read limit,
// ping→pong, cut streams. Real Conn (hook constructor) on an in-memory transport vs the Lean reader
// model (Model.WsRead) vs the conformant receiver of Spec.Ws.

import (
	"time"
	"bytes"
	"io"
	"fmt"
	"strconv"
	"strings"

	ws "github.com/ossrs/go-oryx-lib/websocket"
	"verifharness/internal/h"
)

func init() { register("C14", c14) }

type wsReadOut struct {
	msgs    []string // ty.hex (payload as delivered to the application)
	err     string
	partial int
	replies string
	sticky  bool
	panicky bool
}

func (o wsReadOut) String() string {
	m := "_"
	if len(o.msgs) > 0 {
		m = strings.Join(o.msgs, ",")
	}
	if o.panicky {
		return "panic"
	}
	return fmt.Sprintf("msgs=%s err=%s partial=%d replies=%s sticky=%s", m, o.err, o.partial, o.replies, b01(o.sticky))
}

var wsImplReadN int

// wsImplRead: ReadMessage until it fails, then twice more (sticky), on the real code.
func wsImplRead(c *h.Ctx, isServer, deflate bool, limit int64, rbuf int, stream []byte, input string) (out wsReadOut) {
	fake := newWsFake(stream)
	defer func() {
		if r := recover(); r != nil {
			out.panicky = true
		}
	}()
	conn := ws.VerifNewConn(fake, isServer, rbuf, 256, deflate)
	written := fake.Written
	if !isServer && wsImplReadN%3 == 0 {
		// the client-role connection as an application gets it: from Dial, the server's first frames arriving in one
		// piece with its handshake response
		if dc, wr, err := wsDialed(rbuf, 256, deflate, stream); err == nil {
			conn, written = dc, wr
		} else {
			out.err = "dial: " + err.Error()
			return out
		}
	}
	conn.SetReadLimit(limit)
	// what the application did to the WRITING side before (a write deadline that has since passed, one far in the
	// future, none) is not the reader's business: its replies — pongs, the close frames — go out under their own deadline
	switch wsImplReadN++; wsImplReadN % 4 {
	case 1:
		conn.SetWriteDeadline(time.Now().Add(-time.Hour))
	case 2:
		conn.SetWriteDeadline(time.Now().Add(time.Hour))
	}
	var first error
	for i := 0; i < 100000; i++ {
		t, p, err := conn.ReadMessage()
		if err != nil {
			first = err
			out.err = wsErrClass(err)
			out.partial = len(p)
			break
		}
		out.msgs = append(out.msgs, fmt.Sprintf("%d.%s", t, h.Hex(p)))
	}
	wire := written()
	out.sticky = true
	for i := 0; i < 2; i++ {
		_, p, err := conn.ReadMessage()
		if err == nil || len(p) != 0 || wsErrClass(err) != wsErrClass(first) {
			out.sticky = false
		}
	}
	if len(written()) != len(wire) {
		out.sticky = false
	}
	out.replies, _ = wsReplies(c, isServer, wire, "replies_wellformed", input)
	return out
}

func kvLine(s string) map[string]string {
	m := map[string]string{}
	for _, f := range strings.Fields(s) {
		if i := strings.IndexByte(f, '='); i > 0 {
			m[f[:i]] = f[i+1:]
		}
	}
	return m
}

// modelMsgs turns the model's/spec's message list (ty.c.raw) into what the application sees (ty.hex):
// compressed messages go through the harness's inflate (the model's `inflate` parameter).
func modelMsgs(s string) (msgs []string, inflateFailedAt int) {
	inflateFailedAt = -1
	if s == "_" || s == "" {
		return nil, -1
	}
	for i, tok := range strings.Split(s, ",") {
		p := strings.SplitN(tok, ".", 3)
		data := p[2]
		if p[1] == "1" {
			raw, err := wsInflate(h.UnHex(data))
			if err != nil {
				return msgs, i
			}
			data = h.Hex(raw)
		}
		msgs = append(msgs, p[0]+"."+data)
	}
	return msgs, -1
}

func hasPrefixList(full, pre []string) bool {
	if len(pre) > len(full) {
		return false
	}
	for i := range pre {
		if full[i] != pre[i] {
			return false
		}
	}
	return true
}

type c14Case struct {
	isServer bool
	deflate  bool
	limit    int64
	frames   []wsFrame
}

func roleStr(isServer bool) string {
	if isServer {
		return "s"
	}
	return "c"
}

// runFrames: a well-formed abstract frame sequence: implementation = model, and implementation vs
// the conformant receiver (the property).
func c14RunFrames(c *h.Ctx, bucket string, k c14Case, cuts bool) {
	fs := wsFramesStr(k.frames)
	in := fmt.Sprintf("ws.c14 %s %s %d %s", roleStr(k.isServer), b01(k.deflate), k.limit, fs)
	rep := c.O.Call("ws.c14", roleStr(k.isServer), b01(k.deflate), fmt.Sprint(k.limit), fs)
	parts := strings.Split(rep, "|")
	if len(parts) != 3 {
		c.Fail("correspondence", "oracle", h.Trunc(in, 600), "-", rep)
		return
	}
	stream := h.UnHex(parts[0])
	spec := kvLine(parts[1])
	model := kvLine(parts[2])
	rbuf := []int{0, 125, 256, 1024, 1, 13, 14, 15, 64, 100, 124, 126, 4096}[c.R.Intn(13)] // any read buffer size the caller may configure
	impl := wsImplRead(c, k.isServer, k.deflate, k.limit, rbuf, stream, h.Trunc(in, 600))
	tin := h.Trunc(in, 600)

	// --- correspondence: model = implementation
	mm, badAt := modelMsgs(model["msgs"])
	if badAt >= 0 {
		// undecodable compressed payload: the implementation must stop delivering there with an error
		c.Hold(!impl.panicky && len(impl.msgs) == badAt && hasPrefixList(mm, impl.msgs) && impl.err != "", "inflate_error", tin, impl.String(), "error at message "+fmt.Sprint(badAt))
		c.Case(bucket+"/bad-deflate", in, true)
		return
	}
	// With deflate negotiated an RSV1 message is STREAMED through compress/flate (a parameter of the model): when
	// the inflater itself rejects the payload mid-message — before the reader ever looks at the frame on which the
	// model/spec would have failed (e.g. the one exceeding the read limit) — there is nothing to compare the end
	// state with. What must still hold: no panic, an error, only whole earlier messages, the read limit.
	if k.deflate && (impl.err == "flate" || impl.err == "io-ueof") {
		c.Hold(!impl.panicky && hasPrefixList(mm, impl.msgs), "inflate_error", tin, impl.String(), "an error after a prefix of the model's messages")
		c14Limit(c, k.limit, k.deflate, model["msgs"], impl, tin)
		c.Case(bucket+"/inflate-error", in, true)
		return
	}
	mo := wsReadOut{msgs: mm, err: model["err"], replies: model["replies"], sticky: model["sticky"] == "1"}
	mo.partial, _ = strconv.Atoi(model["partial"])
	if k.deflate {
		impl.partial, mo.partial = 0, 0 // partial output of the flate reader is not modelled
	}
	c.Eq("ws.read", tin, impl.String(), mo.String())

	// --- property: implementation vs Spec.recv
	sm, _ := modelMsgs(spec["msgs"])
	c.Hold(strings.Join(impl.msgs, ",") == strings.Join(sm, ","), "refines.messages", tin, impl.String(), parts[1])
	end := spec["end"]
	switch {
	case end == "fail.1002":
		c.Hold(impl.err == "proto" && impl.sticky && strings.HasSuffix(","+impl.replies, ",8.03ea"), "refines.violation_1002_sticky", tin, impl.String(), parts[1])
	case end == "fail.1009":
		c.Hold(impl.err == "limit" && impl.sticky && strings.HasSuffix(","+impl.replies, ",8.03f1"), "refines.limit_1009", tin, impl.String(), parts[1])
	case strings.HasPrefix(end, "closed."):
		c.Hold(impl.err == "close."+end[len("closed."):] && impl.sticky, "refines.closed", tin, impl.String(), parts[1])
	case end == "more":
		c.Hold(impl.err == "ueof" && impl.sticky, "refines.open_then_eof", tin, impl.String(), parts[1])
	}
	c.Hold(impl.replies == spec["replies"], "refines.replies(ping_pong,close)", tin, impl.replies, spec["replies"])
	// 64-bit length with the top bit set is never accepted: it can only be the frame the receiver failed on
	for i, f := range k.frames {
		if f.Len >= 1<<63 {
			okTop := impl.err == "proto" || impl.err == "limit" || strings.HasPrefix(impl.err, "close.")
			c.Hold(okTop && len(impl.msgs) <= i, "len64_top_bit", tin, impl.String(), "protocol error at or before frame "+fmt.Sprint(i))
			break
		}
	}
	c14Limit(c, k.limit, k.deflate, model["msgs"], impl, tin)
	c.Case(bucket+"/"+strings.SplitN(end, ".", 2)[0]+"/"+impl.err[:min(len(impl.err), 5)], in, true)

	// --- every cut offset: an error, and never a short or extra message
	if cuts {
		for cut := 0; cut < len(stream); cut++ {
			c14RunStream(c, bucket+"/cut", k.isServer, k.deflate, k.limit, stream[:cut], impl.msgs)
		}
	}
}

// read limit L > 0: nothing longer than L (wire payload) is delivered, whole or partial.
func c14Limit(c *h.Ctx, limit int64, deflate bool, modelRaw string, impl wsReadOut, tin string) {
	if limit <= 0 {
		return
	}
	if !deflate {
		for _, m := range impl.msgs {
			n := 0
			if hx := m[strings.IndexByte(m, '.')+1:]; hx != "-" {
				n = len(hx) / 2
			}
			c.Hold(int64(n) <= limit, "read_limit", tin, impl.String(), fmt.Sprintf("no message longer than %d", limit))
		}
		c.Hold(int64(impl.partial) <= limit, "read_limit.partial", tin, impl.String(), fmt.Sprintf("no more than %d bytes handed out", limit))
	} else if modelRaw != "_" && modelRaw != "" {
		// compressed: the limit is on the wire payload (model's raw sizes, equal to the implementation's by ws.read)
		for _, tok := range strings.Split(modelRaw, ",") {
			p := strings.SplitN(tok, ".", 3)
			n := 0
			if p[2] != "-" {
				n = len(p[2]) / 2
			}
			c.Hold(int64(n) <= limit, "read_limit", tin, impl.String(), fmt.Sprintf("no wire payload longer than %d", limit))
		}
	}
}

// runStream: arbitrary bytes (cut, lying lengths, random): implementation = model; the read ends in
// an error; with `full` given, the delivered messages are a prefix of the full stream's.
func c14RunStream(c *h.Ctx, bucket string, isServer, deflate bool, limit int64, stream []byte, full []string) {
	hx := h.Hex(stream)
	in := fmt.Sprintf("ws.read %s %s %d %s", roleStr(isServer), b01(deflate), limit, hx)
	tin := h.Trunc(in, 600)
	model := kvLine(c.O.Call("ws.read", roleStr(isServer), b01(deflate), fmt.Sprint(limit), hx))
	impl := wsImplRead(c, isServer, deflate, limit, []int{0, 125, 256}[c.R.Intn(3)], stream, tin)
	mm, badAt := modelMsgs(model["msgs"])
	// with deflate negotiated an RSV1 message goes through compress/flate, which is a parameter of the model:
	// when the inflater itself rejects the (random/cut) payload there is nothing to compare with
	flateErr := deflate && (impl.err == "flate" || impl.err == "io-ueof")
	if flateErr {
		bucket += "/inflate-error"
	}
	if badAt < 0 && !flateErr {
		mo := wsReadOut{msgs: mm, err: model["err"], replies: model["replies"], sticky: model["sticky"] == "1"}
		mo.partial, _ = strconv.Atoi(model["partial"])
		if deflate {
			impl.partial, mo.partial = 0, 0
		}
		c.Eq("ws.read", tin, impl.String(), mo.String())
	}
	c.Hold(!impl.panicky, "no_panic", tin, impl.String(), "no panic")
	c.Hold(impl.err != "" && impl.err != "nil", "cut_never_short.error", tin, impl.String(), "the read ends in an error")
	if full != nil {
		c.Hold(hasPrefixList(full, impl.msgs), "cut_never_short.prefix", tin, impl.String(), "a prefix of "+h.Trunc(strings.Join(full, ","), 200))
	}
	c14Limit(c, limit, deflate, model["msgs"], impl, tin)
	c.Case(bucket+"/"+impl.err[:min(len(impl.err), 5)], in, true)
}

// ---- the abstract alphabet ----

type c14Sym struct {
	op      int
	fin     bool
	variant int // 0 plain, 1 rsv1, 2 rsv2, 3 rsv3, 4 wrong mask
	lenKind int
}

const (
	lkZero = iota
	lkSmall
	lk125
	lk126
	lkNonMin16
	lkNonMin64
	lkTop
	lkTopK
	lkMax
	lkCount
)

var c14Ops = []int{0, 1, 2, 8, 9, 10, 3, 11}

func (s c14Sym) frame(r *h.Rand, receiverIsServer bool) wsFrame {
	f := wsFrame{Fin: s.fin, Op: s.op, Key: "-"}
	switch s.variant {
	case 1:
		f.Rsv = 4
	case 2:
		f.Rsv = 2
	case 3:
		f.Rsv = 1
	}
	f.Masked = receiverIsServer != (s.variant == 4)
	if f.Masked {
		f.Key = h.Hex(r.Bytes(4))
	}
	n := 0
	switch s.lenKind {
	case lkZero:
		f.Form, n = 0, 0
	case lkSmall:
		f.Form, n = 0, 3
	case lk125:
		f.Form, n = 0, 125
	case lk126:
		f.Form, n = 1, 126
	case lkNonMin16:
		f.Form, n = 1, 3
	case lkNonMin64:
		f.Form, n = 2, 3
	case lkTop:
		f.Form, f.Len, n = 2, 1<<63, -1
	case lkTopK:
		f.Form, f.Len, n = 2, 1<<63+uint64(1+r.Intn(1000)), -1
	case lkMax:
		f.Form, f.Len, n = 2, 1<<64-1, -1
	}
	if n >= 0 {
		f.Len = uint64(n)
		if s.op == 8 && n >= 2 {
			// close body: valid code + ASCII text unless perturbed elsewhere
			body := append([]byte{0x03, 0xe8}, []byte(strings.Repeat("k", n-2))...)
			f.Payload = h.Hex(body)
		} else {
			f.Payload, _ = wsPayload(r, n)
		}
	} else {
		f.Payload = h.Hex(r.Bytes(r.Intn(4))) // whatever follows; the frame must be refused at its header
	}
	return f
}

func c14Base() []c14Sym {
	var out []c14Sym
	for _, op := range c14Ops {
		for _, fin := range []bool{false, true} {
			out = append(out, c14Sym{op: op, fin: fin, lenKind: lkSmall})
		}
	}
	return out
}

func c14Full() []c14Sym {
	var out []c14Sym
	for _, b := range c14Base() {
		for v := 0; v < 5; v++ {
			for lk := 0; lk < lkCount; lk++ {
				out = append(out, c14Sym{op: b.op, fin: b.fin, variant: v, lenKind: lk})
			}
		}
	}
	return out
}

// c14LimitSetLate: the read limit configured AFTER the connection was first used — between two messages, and in the
// middle of a fragmented message that the application is reading through its reader. From then on no message larger
// than the limit is delivered, the one in progress included (its earlier fragments count).
func c14LimitSetLate(c *h.Ctx) {
	frame := func(fin bool, op byte, masked bool, payload []byte) []byte {
		b0 := op
		if fin {
			b0 |= 0x80
		}
		b := []byte{b0, byte(len(payload))}
		if masked {
			b[1] |= 0x80
			b = append(b, 0, 0, 0, 0)
		}
		return append(b, payload...)
	}
	for _, isServer := range []bool{false, true} {
		for _, sz := range [][3]int{{10, 5, 12}, {10, 5, 15}, {10, 5, 14}, {1, 100, 50}, {60, 60, 119}, {60, 60, 120}, {0, 20, 10}} {
			first, second, limit := h.LCGBytes(sz[0], 1), h.LCGBytes(sz[1], 2), int64(sz[2])
			small := []byte("ok")
			stream := append(append(append(frame(true, 1, isServer, small), frame(false, 2, isServer, first)...), frame(true, 0, isServer, second)...), frame(true, 1, isServer, small)...)
			conn := ws.VerifNewConn(newWsFake(stream), isServer, 0, 256, false)
			in := fmt.Sprintf("role=%s: a 2-byte message; NextReader; read the %d-byte first fragment; SetReadLimit(%d); the %d-byte final fragment; a 2-byte message", roleStr(isServer), sz[0], limit, sz[1])
			res := h.Safe(func() string {
				if _, p, err := conn.ReadMessage(); err != nil || string(p) != "ok" {
					return fmt.Sprintf("first message: %q %v", p, err)
				}
				_, rd, err := conn.NextReader()
				if err != nil {
					return "NextReader: " + err.Error()
				}
				got := make([]byte, len(first))
				if _, err := io.ReadFull(rd, got); err != nil && len(first) > 0 {
					return "first fragment: " + err.Error()
				}
				conn.SetReadLimit(limit)
				rest, err := io.ReadAll(rd)
				total := len(first) + len(second)
				if int64(total) > limit {
					if err == nil {
						return fmt.Sprintf("a %d-byte message was delivered under a limit of %d", len(got)+len(rest), limit)
					}
					return "ok"
				}
				if err != nil || !bytes.Equal(append(got, rest...), append(append([]byte(nil), first...), second...)) {
					return fmt.Sprintf("a %d-byte message within the limit of %d: %d bytes, %v", total, limit, len(got)+len(rest), err)
				}
				if _, p, err := conn.ReadMessage(); err != nil || string(p) != "ok" {
					return fmt.Sprintf("the message after it: %q %v", p, err)
				}
				return "ok"
			})
			c.Hold(res == "ok", "read_limit.configured_after_first_use", in, res, "ok")
			c.Case("limit-set-late/"+roleStr(isServer), in, true)
		}
	}
}

func c14(c *h.Ctx) {
	r := c.R
	c14LimitSetLate(c)
	// 0. regression corpus: F14 and its siblings (fixed), as raw streams and as frames.
	pay100 := strings.Repeat("78", 100)
	for _, isServer := range []bool{false} {
		// F14: empty-looking frame with 64-bit length 2^63, then a 100-byte final continuation, limit 10
		c14RunStream(c, "corpus/F14", isServer, false, 10, h.UnHex("017f8000000000000000"+"8064"+pay100), nil)
		// F14b: 10-byte first fragment, continuation announcing 2^63-1 (sum wraps), 100 bytes follow
		c14RunStream(c, "corpus/F14b", isServer, false, 10, h.UnHex("010a"+strings.Repeat("78", 10)+"807f7fffffffffffffff"+pay100), nil)
		// F14c: no limit configured, the sum wraps
		c14RunStream(c, "corpus/F14c", isServer, false, 0, h.UnHex("017f7fffffffffffffff"), nil)
		// F20: RSV1 on continuation / ping while permessage-deflate is negotiated
		c14RunStream(c, "corpus/F20", isServer, true, 0, h.UnHex("010161"+"c00162"), nil)
		c14RunStream(c, "corpus/F20", isServer, true, 0, h.UnHex("c900"+"810161"), nil)
		// F21: close frame with a 1-byte body
		c14RunStream(c, "corpus/F21", isServer, false, 0, h.UnHex("880103"), nil)
	}
	c14RunFrames(c, "corpus/F14", c14Case{false, false, 10, []wsFrame{
		{Fin: false, Op: 1, Key: "-", Form: 2, Len: 1 << 63, Payload: "-"},
		{Fin: true, Op: 0, Key: "-", Form: 0, Len: 100, Payload: pay100}}}, false)
	c14RunFrames(c, "corpus/F20", c14Case{false, true, 0, []wsFrame{
		{Fin: false, Op: 1, Key: "-", Form: 0, Len: 1, Payload: "61"},
		{Fin: true, Rsv: 4, Op: 0, Key: "-", Form: 0, Len: 1, Payload: "62"}}}, false)
	c14RunFrames(c, "corpus/F21", c14Case{true, false, 0, []wsFrame{
		{Fin: true, Op: 8, Masked: true, Key: "01020304", Form: 0, Len: 1, Payload: "03"}}}, false)

	// close frames whose reason is not UTF-8, every reason length up to the 123-byte maximum: a protocol violation
	// that must be answered with a Close 1002 whatever the reason looks like (long, all-invalid, mostly ASCII)
	for _, n := range []int{1, 2, 3, 10, 21, 22, 23, 40, 84, 85, 86, 100, 122, 123} {
		for variant := 0; variant < 3; variant++ {
			reason := make([]byte, n)
			for i := range reason {
				switch variant {
				case 0:
					reason[i] = 0xff
				case 1:
					reason[i] = byte('a' + i%26)
				default:
					reason[i] = byte(0x80 + i%0x40)
				}
			}
			if variant == 1 {
				reason[n-1] = 0xc3 // truncated two-byte sequence at the end of an otherwise ASCII reason
			}
			body := append([]byte{0x03, 0xe8}, reason...)
			c14RunFrames(c, "close/invalid-utf8-reason", c14Case{false, false, 0, []wsFrame{
				{Fin: true, Op: 1, Key: "-", Form: 0, Len: 2, Payload: "6869"},
				{Fin: true, Op: 8, Key: "-", Form: 0, Len: uint64(len(body)), Payload: h.Hex(body)}}}, false)
		}
	}

	base, full := c14Base(), c14Full()
	limits := []int64{0, 2, 3, 5, 6, 7}

	// 1. depth 1: the whole alphabet, both roles, with and without negotiated deflate.
	for _, isServer := range []bool{false, true} {
		for _, deflate := range []bool{false, true} {
			for _, s := range full {
				if deflate && s.variant == 1 && (s.op == 1 || s.op == 2) {
					continue // compressed data frames need a real deflate payload: generated in part 4
				}
				c14RunFrames(c, "exh1", c14Case{isServer, deflate, limits[r.Intn(len(limits))], []wsFrame{s.frame(r, isServer)}}, false)
			}
		}
	}
	// 2. sequencing: base alphabet to depth 3 (quick) / 4 (thorough), every limit class on depth ≤ 2.
	depth := c.N(3, 4)
	var rec func(prefix []c14Sym)
	rec = func(prefix []c14Sym) {
		if len(prefix) > 0 {
			isServer := r.Bool()
			var fs []wsFrame
			for _, s := range prefix {
				fs = append(fs, s.frame(r, isServer))
			}
			ls := []int64{limits[r.Intn(len(limits))]}
			if len(prefix) <= 2 {
				ls = limits
			}
			for _, l := range ls {
				c14RunFrames(c, fmt.Sprintf("seq%d", len(prefix)), c14Case{isServer, false, l, fs}, len(prefix) == 2 && l == 0)
			}
		}
		if len(prefix) == depth {
			return
		}
		for _, s := range base {
			rec(append(append([]c14Sym(nil), prefix...), s))
		}
	}
	rec(nil)
	// 3. depth 2 (quick) / 3 (thorough): base prefix, last symbol from the full alphabet (incl. 2^63, 2^63+k, 2^64-1).
	pre := [][]c14Sym{}
	for _, a := range base {
		pre = append(pre, []c14Sym{a})
	}
	if c.Thorough() {
		for _, a := range base {
			for _, b := range base {
				pre = append(pre, []c14Sym{a, b})
			}
		}
	}
	for _, p := range pre {
		for _, s := range full {
			isServer := r.Bool()
			var fs []wsFrame
			for _, q := range p {
				fs = append(fs, q.frame(r, isServer))
			}
			fs = append(fs, s.frame(r, isServer))
			c14RunFrames(c, fmt.Sprintf("exh%d", len(fs)), c14Case{isServer, false, limits[r.Intn(len(limits))], fs}, false)
		}
	}
	// 4. long random mostly-valid sessions: fragmentation, interleaved control frames, boundary sizes,
	//    compressed messages (real deflate payloads), limits placed around the message sizes, one optional violation.
	nrand := c.N(250, 6000)
	for i := 0; i < nrand; i++ {
		c14Random(c, i)
	}
	// 5. malformed: random bytes, lying 64-bit lengths, close bodies (codes × UTF-8), both roles.
	nmal := c.N(400, 20000)
	for i := 0; i < nmal; i++ {
		isServer := r.Bool()
		var b []byte
		switch r.Intn(4) {
		case 0:
			b = r.Bytes(r.Intn(40))
		case 1: // a valid start then a huge announced length with few bytes behind it
			b = h.UnHex("0103616263")
			if isServer {
				b = h.UnHex("018301020304606063")
			}
			if r.Bool() {
				b = nil // no message in progress: the huge frame may be a complete message of its own
			}
			m := byte(0)
			if isServer {
				m = 0x80
			}
			// (a continuation out of place, or a complete / first data frame: a LEGAL frame may announce up to 2^63-1
			// bytes — the reader must neither trust nor pre-allocate that — and the stream then ends)
			b = append(b, []byte{byte(r.Pick(0x00, 0x80, 0x81, 0x82, 0x01, 0x02)), 127 | m}...)
			top := []uint64{1<<63 - 1, 1<<63 - 2, 1<<63 - 3, 1 << 62, 1 << 63, 1<<63 + 1, 1<<64 - 1, 1 << 32, 1 << 40, 1 << 48}[r.Intn(10)]
			for k := 7; k >= 0; k-- {
				b = append(b, byte(top>>(8*uint(k))))
			}
			if isServer {
				b = append(b, 0, 0, 0, 0)
			}
			b = append(b, r.Bytes(r.Intn(30))...)
		case 2: // close body: any 2-byte code around the interesting ranges + text with UTF-8 edge cases
			code := r.Pick(999, 1000, 1003, 1004, 1005, 1006, 1007, 1011, 1012, 1013, 1014, 1015, 1016, 2999, 3000, 4999, 5000, 0, 65535)
			texts := []string{"", "ok", "\xc3\xa9", "\xc0\xaf", "\xed\xa0\x80", "\xf4\x90\x80\x80", "\xe2\x82", "\xf0\x9f\x98\x80", "\xff"}
			body := append([]byte{byte(code >> 8), byte(code)}, texts[r.Intn(len(texts))]...)
			b = []byte{0x88, byte(len(body))}
			if isServer {
				b[1] |= 0x80
				b = append(b, 0, 0, 0, 0)
			}
			b = append(b, body...)
		default: // two-byte header sweep with a short tail
			b = append([]byte{byte(r.Intn(256)), byte(r.Intn(256))}, r.Bytes(r.Intn(14))...)
		}
		c14RunStream(c, "malformed", isServer, r.Chance(30), []int64{0, 0, 1, 5, 20}[r.Intn(5)], b, nil)
	}
	// 5b. a reader the application abandoned: NextReader for message 1, (part of it read or nothing), NextReader again
	// — the rest of message 1 is skipped — and then one more Read on the FIRST reader: it is finished (0, EOF) and
	// must not take a byte of message 2, which the second reader delivers whole.
	for _, isServer := range []bool{false, true} {
		for _, part := range []int{0, 3} {
			mk := func(fin bool, op int, payload []byte) []byte {
				b0 := byte(op)
				if fin {
					b0 |= 0x80
				}
				if isServer {
					return append(append([]byte{b0, 0x80 | byte(len(payload))}, 0, 0, 0, 0), payload...)
				}
				return append([]byte{b0, byte(len(payload))}, payload...)
			}
			m1a, m1b, m2 := []byte("first-message-part-one"), []byte("-and-part-two"), []byte("second message, complete")
			stream := append(append(mk(false, 1, m1a), mk(true, 0, m1b)...), mk(true, 2, m2)...)
			in := fmt.Sprintf("ws abandoned reader role=%s: NextReader; read %d bytes; NextReader; Read on the first reader; read the second to the end", roleStr(isServer), part)
			conn := ws.VerifNewConn(newWsFake(stream), isServer, 0, 256, false)
			res := h.Safe(func() string {
				_, r1, err := conn.NextReader()
				if err != nil {
					return "NextReader 1: " + err.Error()
				}
				if part > 0 {
					io.ReadFull(r1, make([]byte, part))
				}
				t2, r2, err := conn.NextReader()
				if err != nil {
					return "NextReader 2: " + err.Error()
				}
				n, e := r1.Read(make([]byte, 64))
				got, err := io.ReadAll(r2)
				if n != 0 || e != io.EOF {
					return fmt.Sprintf("superseded reader returned (%d, %v)", n, e)
				}
				if err != nil || t2 != ws.BinaryMessage || !bytes.Equal(got, m2) {
					return fmt.Sprintf("second message: type %d %q err=%v", t2, got, err)
				}
				return "ok"
			})
			c.Hold(res == "ok", "delivers_whole_messages.abandoned_reader", in, res, "ok")
			c.Case("abandoned-reader/"+roleStr(isServer), in, true)
		}
	}

	// 6. exhaustive first header byte × {7-bit len 0, 1} (all FIN/RSV/opcode combinations), both roles.
	for b0 := 0; b0 < 256; b0++ {
		for _, isServer := range []bool{false, true} {
			tail := "00"
			if isServer {
				tail = "8000000000"
			}
			c14RunStream(c, "exh-byte0", isServer, b0&1 == 1, 0, h.UnHex(fmt.Sprintf("%02x%s", b0, tail)), nil)
		}
	}
	// 7. UTF-8 validator and close-code table: spec vs model (same oracle call), vs the implementation via close frames above;
	//    here all 1- and 2-byte strings + codes 0..5100 are swept on the model/spec pair.
	for code := 0; code <= 5100; code++ {
		rep := c.O.Call("ws.closecode", fmt.Sprint(code))
		c.Hold(rep == "0 0" || rep == "1 1", "closecode.spec_eq_table", fmt.Sprint(code), rep, "equal")
	}
	c.Case("closecodes/0..5100", "sweep", true)
	// the same sweep on the implementation: a Close frame with that status and no reason, in both roles (every code
	// around the assigned ranges at the quick budget, every code 0..5100 at the thorough one)
	for code := 0; code <= 5100; code++ {
		near := (code >= 990 && code <= 1030) || (code >= 2990 && code <= 3010) || (code >= 4990 && code <= 5010) || code < 3
		if !near && !c.Thorough() && code%97 != int(c.Seed%97) {
			continue
		}
		for _, isServer := range []bool{false, true} {
			key := "-"
			if isServer {
				key = "00000000"
			}
			body := h.Hex([]byte{byte(code >> 8), byte(code)})
			// against the conformant receiver (Spec.recv) and the model: a text message, then the Close frame
			c14RunFrames(c, "closecode-sweep", c14Case{isServer, false, 0, []wsFrame{
				{Fin: true, Op: 1, Masked: isServer, Key: key, Form: 0, Len: 2, Payload: "6869"},
				{Fin: true, Op: 8, Masked: isServer, Key: key, Form: 0, Len: 2, Payload: body}}}, false)
		}
	}
	nutf := c.N(3000, 65536+256)
	for i := 0; i < nutf; i++ {
		var b []byte
		switch {
		case i < 256:
			b = []byte{byte(i)}
		case c.Thorough():
			b = []byte{byte((i - 256) >> 8), byte(i - 256)}
		default:
			b = r.Bytes(1 + r.Intn(5))
			if r.Bool() {
				b[0] = byte(r.Pick(0xc2, 0xe0, 0xed, 0xf0, 0xf4, 0xe1, 0xf1))
			}
		}
		rep := c.O.Call("ws.utf8", h.Hex(b))
		c.Hold(rep == "0 0" || rep == "1 1", "utf8.spec_eq_model", h.Hex(b), rep, "equal")
	}
	c.Case("utf8/sweep", "sweep", true)
}

func c14Random(c *h.Ctx, idx int) {
	r := c.R
	isServer := r.Bool()
	deflate := r.Chance(35)
	sizes := []int{0, 1, 2, 10, 124, 125, 126, 127, 300, 4095, 4096, 4097}
	if r.Chance(15) {
		sizes = append(sizes, 65535, 65536, 65537)
	}
	key := func(f *wsFrame) {
		f.Masked = isServer
		f.Key = "-"
		if isServer {
			f.Key = h.Hex(r.Bytes(4))
		}
	}
	var fs []wsFrame
	var msgSizes []int
	nmsg := 1 + r.Intn(5)
	violateAt := -1
	if r.Chance(40) {
		violateAt = r.Intn(nmsg)
	}
	ctrl := func() {
		for r.Chance(30) {
			op := r.Pick(9, 10, 9)
			n := r.Pick(0, 1, 5, 125)
			f := wsFrame{Fin: true, Op: op, Form: 0, Len: uint64(n)}
			f.Payload, _ = wsPayload(r, n)
			key(&f)
			fs = append(fs, f)
		}
	}
	for m := 0; m < nmsg; m++ {
		total := sizes[r.Intn(len(sizes))]
		data := r.Bytes(total)
		if total > 0 && r.Bool() {
			for i := range data {
				data[i] = byte('a' + i%7) // compressible
			}
		}
		compressed := deflate && r.Chance(60)
		wire := data
		if compressed {
			wire = wsDeflate(data, r.Pick(-2, 1, 6, 9))
			if r.Chance(4) {
				wire = r.Bytes(8) // garbage deflate stream
			}
		}
		msgSizes = append(msgSizes, len(wire))
		// fragment
		nfrag := 1 + r.Intn(4)
		if r.Chance(50) {
			nfrag = 1
		}
		cutsAt := []int{0}
		for i := 1; i < nfrag; i++ {
			cutsAt = append(cutsAt, r.Intn(len(wire)+1))
		}
		cutsAt = append(cutsAt, len(wire))
		for i := 1; i < len(cutsAt); i++ { // insertion sort
			for j := i; j > 0 && cutsAt[j] < cutsAt[j-1]; j-- {
				cutsAt[j], cutsAt[j-1] = cutsAt[j-1], cutsAt[j]
			}
		}
		ty := r.Pick(1, 2)
		for i := 0; i+1 < len(cutsAt); i++ {
			ctrl()
			part := wire[cutsAt[i]:cutsAt[i+1]]
			f := wsFrame{Fin: i+2 == len(cutsAt), Op: 0, Len: uint64(len(part)), Payload: h.Hex(part)}
			f.Form = wsMinForm(len(part))
			if r.Chance(5) && f.Form < 2 {
				f.Form++ // non-minimal encodings are accepted by the reader
			}
			if i == 0 {
				f.Op = ty
				if compressed {
					f.Rsv = 4
				}
			}
			key(&f)
			if m == violateAt && r.Chance(40) {
				switch r.Intn(7) {
				case 0:
					f.Rsv |= r.Pick(1, 2)
				case 1:
					f.Op = r.Pick(3, 7, 11, 15)
				case 2:
					f.Masked = !f.Masked
					f.Key = "-"
					if f.Masked {
						f.Key = "a1b2c3d4"
					}
				case 3:
					f.Op = ty // new data frame inside (or harmless at start)
				case 4:
					f.Op = 0 // continuation (violation when at start)
				case 5:
					f.Form, f.Len, f.Payload = 2, 1<<63+uint64(r.Intn(3)), "-"
				case 6:
					if !deflate || i > 0 {
						f.Rsv |= 4
					}
				}
				violateAt = -2
			}
			fs = append(fs, f)
		}
	}
	ctrl()
	if r.Chance(50) {
		// closing handshake from the peer
		body := []byte{}
		if r.Bool() {
			code := r.Pick(1000, 1001, 3000, 4999, 1005, 1006, 1015, 999, 2999, 5000)
			body = append([]byte{byte(code >> 8), byte(code)}, []string{"", "bye", "\xc3\xa9t\xc3\xa9", "\xc3\x28"}[r.Intn(4)]...)
		}
		f := wsFrame{Fin: true, Op: 8, Form: 0, Len: uint64(len(body)), Payload: h.Hex(body)}
		key(&f)
		fs = append(fs, f)
	}
	// limit around the message sizes
	limit := int64(0)
	if r.Chance(60) && len(msgSizes) > 0 {
		s := msgSizes[r.Intn(len(msgSizes))]
		limit = int64(s + r.Pick(-1, 0, 1, 1))
		if limit < 0 {
			limit = 0
		}
	}
	total := 0
	for _, s := range msgSizes {
		total += s
	}
	c14RunFrames(c, fmt.Sprintf("random/deflate=%s", b01(deflate)), c14Case{isServer, deflate, limit, fs}, total < 200 && idx%4 == 0)
}
