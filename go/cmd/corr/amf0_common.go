package main

// Shared by C05 and C06: canonical text of real amf0 values (through the verif hooks),
// tree/wire generators, the real decoder with its consumed-byte count.
//
// Canonical tree text (one token, same grammar as lean/Oracle/Amf0.lean):
//   n<16hex> b0 b1 s<hex> z u e o[k=v,…] a<count>[k=v,…] t[k=v,…]   (spec trees: v[v,…])
// The strict array's count field is not part of the text: nothing reads it since the repair of F6.

import (
	"reflect"
	"encoding/binary"
	"encoding/hex"
	"fmt"
	"math"
	"strings"

	"github.com/ossrs/go-oryx-lib/amf0"
	"verifharness/internal/h"
)

// ---------- canonical text of a library value ----------

func amfStr(a amf0.Amf0) string {
	var sb strings.Builder
	amfWrite(&sb, a)
	return sb.String()
}

func amfWrite(sb *strings.Builder, a amf0.Amf0) {
	switch amf0.VerifKind(a) {
	case 0:
		fmt.Fprintf(sb, "n%016x", math.Float64bits(float64(*a.(*amf0.Number))))
	case 1:
		if bool(*a.(*amf0.Boolean)) {
			sb.WriteString("b1")
		} else {
			sb.WriteString("b0")
		}
	case 2:
		sb.WriteString("s")
		sb.WriteString(hex.EncodeToString([]byte(string(*a.(*amf0.String)))))
	case 5:
		sb.WriteString("z")
	case 6:
		sb.WriteString("u")
	case 9:
		sb.WriteString("e")
	case 3, 8, 10:
		props, count, _ := amf0.VerifProps(a)
		switch amf0.VerifKind(a) {
		case 3:
			sb.WriteString("o[")
		case 8:
			fmt.Fprintf(sb, "a%d[", count)
		default:
			sb.WriteString("t[")
		}
		for i, p := range props {
			if i > 0 {
				sb.WriteByte(',')
			}
			sb.WriteString(hex.EncodeToString([]byte(p.Key)))
			sb.WriteByte('=')
			amfWrite(sb, p.Value)
		}
		sb.WriteByte(']')
	default:
		sb.WriteString("?")
	}
}

// ---------- abstract trees (generator side) ----------

type anode struct {
	kind  byte // 'n','b','s','z','u','e','o','a','t'
	bits  uint64
	b     bool
	s     []byte
	count uint32
	keys  [][]byte
	kids  []*anode
}

// build constructs the library value through the public API (+ the count constructors):
// containers are filled with Set, so a repeated key replaces the earlier property.
func (n *anode) build() amf0.Amf0 {
	switch n.kind {
	case 'n':
		return amf0.NewNumber(math.Float64frombits(n.bits))
	case 'b':
		return amf0.NewBoolean(n.b)
	case 's':
		return amf0.NewString(string(n.s))
	case 'z':
		return amf0.NewNull()
	case 'u':
		return amf0.NewUndefined()
	case 'e':
		a, _ := amf0.Discovery([]byte{9})
		return a
	case 'o':
		o := amf0.NewObject()
		for i, k := range n.keys {
			o.Set(string(k), n.kids[i].build())
		}
		return o
	case 'a':
		o := amf0.VerifNewEcmaArray(n.count)
		for i, k := range n.keys {
			o.Set(string(k), n.kids[i].build())
		}
		return o
	default:
		o := amf0.VerifNewStrictArray(n.count)
		for i, k := range n.keys {
			o.Set(string(k), n.kids[i].build())
		}
		return o
	}
}

// wire writes the node as bytes directly (independent of the library's encoder): every key is
// written, repeated or not; strict arrays write their count field as given.
func (n *anode) wire(out []byte) []byte {
	u16 := func(out []byte, k []byte) []byte {
		out = append(out, byte(len(k)>>8), byte(len(k)))
		return append(out, k...)
	}
	switch n.kind {
	case 'n':
		out = append(out, 0)
		return binary.BigEndian.AppendUint64(out, n.bits)
	case 'b':
		return append(out, 1, byte(n.bits)) // any byte value
	case 's':
		return u16(append(out, 2), n.s)
	case 'z':
		return append(out, 5)
	case 'u':
		return append(out, 6)
	case 'o', 'a', 't':
		switch n.kind {
		case 'o':
			out = append(out, 3)
		case 'a':
			out = binary.BigEndian.AppendUint32(append(out, 8), n.count)
		default:
			out = binary.BigEndian.AppendUint32(append(out, 10), n.count)
		}
		for i, k := range n.keys {
			out = u16(out, k)
			out = n.kids[i].wire(out)
		}
		if n.kind != 't' {
			out = append(out, 0, 0, 9)
		}
		return out
	}
	return out
}

// text is the tree the repaired decoder must produce for wire(): every property kept in order.
func (n *anode) text() string {
	var sb strings.Builder
	n.writeText(&sb)
	return sb.String()
}

func (n *anode) writeText(sb *strings.Builder) {
	switch n.kind {
	case 'n':
		fmt.Fprintf(sb, "n%016x", n.bits)
	case 'b':
		if byte(n.bits) != 0 {
			sb.WriteString("b1")
		} else {
			sb.WriteString("b0")
		}
	case 's':
		sb.WriteString("s" + hex.EncodeToString(n.s))
	case 'z':
		sb.WriteString("z")
	case 'u':
		sb.WriteString("u")
	case 'e':
		sb.WriteString("e")
	default:
		switch n.kind {
		case 'o':
			sb.WriteString("o[")
		case 'a':
			fmt.Fprintf(sb, "a%d[", n.count)
		default:
			sb.WriteString("t[")
		}
		for i, k := range n.keys {
			if i > 0 {
				sb.WriteByte(',')
			}
			sb.WriteString(hex.EncodeToString(k))
			sb.WriteByte('=')
			n.kids[i].writeText(sb)
		}
		sb.WriteByte(']')
	}
}

func (n *anode) nodes() int {
	c := 1
	for _, k := range n.kids {
		c += k.nodes()
	}
	return c
}

func (n *anode) depth() int {
	d := 0
	for _, k := range n.kids {
		if x := k.depth(); x > d {
			d = x
		}
	}
	return d + 1
}

// hasDupKeys: some container of the tree has a repeated key.
func (n *anode) hasDupKeys() bool {
	seen := map[string]bool{}
	for i, k := range n.keys {
		if seen[string(k)] {
			return true
		}
		seen[string(k)] = true
		if n.kids[i].hasDupKeys() {
			return true
		}
	}
	return false
}

func (n *anode) hasEmptyKey() bool {
	for i, k := range n.keys {
		if len(k) == 0 || n.kids[i].hasEmptyKey() {
			return true
		}
	}
	return false
}

// hasNonEmptyStrict: the tree contains a strict array with at least one element.
func (n *anode) hasNonEmptyStrict() bool {
	if n.kind == 't' && (len(n.kids) > 0 || n.count != 0) {
		return true
	}
	for _, k := range n.kids {
		if k.hasNonEmptyStrict() {
			return true
		}
	}
	return false
}

// ---------- generators ----------

var amfKeyAlphabet = []string{"", "a", "b", "a", "ab", "duration", "b", "", "width", "x"}

var amfNumBits = []uint64{
	0x0000000000000000, 0x8000000000000000, // +0, -0
	0x3ff0000000000000, 0xbff0000000000000, // ±1
	0x7ff0000000000000, 0xfff0000000000000, // ±Inf
	0x7ff8000000000000, 0x7ff8000000000001, 0xfff8dead0000beef, // quiet NaNs with payloads
	0x7ff0000000000001, 0xfff4000000000000, // signalling NaNs
	0x0000000000000001, 0x000fffffffffffff, // denormals
	0x7fefffffffffffff, 0x4059000000000000, 0x40c3880000000000, // max, 100, 10000
}

type amfGen struct {
	r       *h.Rand
	budget  int  // remaining nodes
	maxDep  int  // container nesting bound
	api     bool // API-built tree: may contain 'e', oversize strings, mismatching strict counts (rarely)
	bigOK   bool // allow 65535/65536-byte strings
	noStrEl bool // never generate non-empty strict arrays
}

func (g *amfGen) key() []byte {
	r := g.r
	switch r.Intn(40) {
	case 0:
		return r.Bytes(1 + r.Intn(4)) // arbitrary bytes, incl. 0x00 and 0x09
	case 1:
		return []byte(strings.Repeat("k", r.Pick(255, 256, 300, 126, 127, 128, 129, 63, 64, 65, 1+r.Intn(520))))
	case 2:
		if g.bigOK {
			return h.LCGBytes(65535, uint32(r.Intn(1000)))
		}
	}
	return []byte(amfKeyAlphabet[r.Intn(len(amfKeyAlphabet))])
}

func (g *amfGen) str() []byte {
	r := g.r
	switch r.Intn(30) {
	case 0:
		return nil
	case 1:
		return r.Bytes(r.Pick(255, 256, 257))
	case 2:
		if g.bigOK {
			return h.LCGBytes(r.Pick(65534, 65535), uint32(r.Intn(1000)))
		}
	case 3:
		if g.bigOK && g.api {
			return h.LCGBytes(r.Pick(65536, 65537, 70000), uint32(r.Intn(1000))) // not representable
		}
	case 4:
		return []byte{0, 0, 9}
	}
	return []byte([]string{"", "oryx", "onMetaData", "live", "x", "\x00", "héllo"}[r.Intn(7)])
}

func (g *amfGen) num() uint64 {
	if g.r.Chance(70) {
		return amfNumBits[g.r.Intn(len(amfNumBits))]
	}
	return g.r.U64()
}

func (g *amfGen) tree(depth int) *anode {
	r := g.r
	g.budget--
	leaf := depth >= g.maxDep || g.budget <= 0
	k := r.Intn(100)
	if depth == 0 && !leaf && k < 55 && r.Chance(80) {
		k = 55 + r.Intn(45) // the root is mostly a container
	}
	if leaf && k >= 55 {
		k = r.Intn(55)
	}
	switch {
	case k < 18:
		return &anode{kind: 'n', bits: g.num()}
	case k < 28:
		v := r.Bool()
		n := &anode{kind: 'b', b: v}
		if v {
			n.bits = 1
		}
		return n
	case k < 42:
		return &anode{kind: 's', s: g.str()}
	case k < 48:
		return &anode{kind: 'z'}
	case k < 54:
		return &anode{kind: 'u'}
	case k < 55:
		if g.api && r.Chance(30) {
			return &anode{kind: 'e'}
		}
		return &anode{kind: 'z'}
	}
	n := &anode{}
	switch {
	case k < 75:
		n.kind = 'o'
	case k < 90:
		n.kind = 'a'
	default:
		n.kind = 't'
	}
	cnt := r.Pick(0, 1, 1, 2, 2, 3, 4, 6, 9)
	if n.kind == 't' && g.noStrEl {
		cnt = 0
	}
	for i := 0; i < cnt && g.budget > 0; i++ {
		n.keys = append(n.keys, g.key())
		n.kids = append(n.kids, g.tree(depth+1))
	}
	switch n.kind {
	case 'a': // associative count: exact, approximate, zero, huge
		switch r.Intn(5) {
		case 0:
			n.count = 0
		case 1:
			n.count = uint32(len(n.kids)) + uint32(r.Intn(3))
		case 2:
			n.count = uint32(r.Pick(0x7fffffff, 0x80000000, 0xffffffff, 65536))
		default:
			n.count = uint32(len(n.kids))
		}
	case 't':
		n.count = uint32(len(n.kids))
	}
	return n
}

// ---------- the real decoder ----------

type amfDec struct {
	class    string // ok | err | panic
	val      amf0.Amf0
	consumed int
}

func libDecodeOnce(bs []byte) (a amf0.Amf0, class string) {
	class = h.Safe(func() string {
		x, err := amf0.Discovery(bs)
		if err != nil {
			return "err"
		}
		if err = x.UnmarshalBinary(bs); err != nil {
			return "err"
		}
		a = x
		return "ok"
	})
	return
}

// libDecode decodes bs and measures how many bytes the decoder consumed: the length of the shortest
// prefix that still decodes (success only ever depends on the bytes read, so success is monotone in
// the prefix length and a binary search finds the boundary; both sides of it are re-checked).
// amfInputAliased: decoded values that changed when the buffer they were decoded from was overwritten afterwards
// (reported by amfCheckRetained): a decoder must copy what it keeps — the caller reuses its read buffer for the
// next message.
var amfInputAliased []string

// amfReusable: one long-lived value per Go type, decoded into again and again; amfReuseBad: where that differed
var amfReusable = map[reflect.Type]amf0.Amf0{}
var amfReuseBad [][3]string

func libDecode(bs []byte) amfDec {
	// decode from a private buffer, note the value, scribble over the buffer, look at the value again
	buf := append([]byte(nil), bs...)
	a, class := libDecodeOnce(buf)
	if class != "ok" {
		return amfDec{class: class}
	}
	before := amfStr(a)
	for i := range buf {
		buf[i] ^= 0xA5
	}
	if after := amfStr(a); after != before && len(amfInputAliased) < 3 {
		amfInputAliased = append(amfInputAliased, fmt.Sprintf("decoded from %s: %s — after the input buffer was overwritten: %s", h.Trunc(h.Hex(bs), 120), h.Trunc(before, 160), h.Trunc(after, 160)))
	}
	// a REUSED value: decoding these bytes into the value that an earlier decode (of other bytes) filled gives the same
	// tree and the same Size() as decoding them into a fresh one — F29
	if t := reflect.TypeOf(a); true {
		if prev, ok := amfReusable[t]; ok {
			cl := h.Safe(func() string {
				if err := prev.UnmarshalBinary(append([]byte(nil), bs...)); err != nil {
					return "err"
				}
				return "ok"
			})
			if (cl != "ok" || amfStr(prev) != before || prev.Size() != a.Size()) && len(amfReuseBad) < 3 {
				got := cl
				if cl == "ok" {
					got = fmt.Sprintf("%s size %d", h.Trunc(amfStr(prev), 200), prev.Size())
				}
				amfReuseBad = append(amfReuseBad, [3]string{fmt.Sprintf("%s decoded into a value of the same type that an earlier decode had filled", h.Trunc(h.Hex(bs), 200)), got, fmt.Sprintf("%s size %d", h.Trunc(before, 200), a.Size())})
			}
			if cl != "ok" {
				delete(amfReusable, t)
			}
		} else {
			amfReusable[t] = a
			a, _ = libDecodeOnce(append([]byte(nil), bs...)) // the caller gets a value of its own
		}
	}
	lo, hi := 0, len(bs) // invariant: prefix lo fails (0 always fails), prefix hi succeeds
	for hi-lo > 1 {
		mid := (lo + hi) / 2
		cp := make([]byte, mid)
		copy(cp, bs[:mid])
		if _, cl := libDecodeOnce(cp); cl == "ok" {
			hi = mid
		} else {
			lo = mid
		}
	}
	return amfDec{class: "ok", val: a, consumed: hi}
}

// decLine is the canonical result line, same shape as the oracle's `amf0.dec`.
func (d amfDec) decLine(bs []byte) string {
	if d.class != "ok" {
		return d.class
	}
	return fmt.Sprintf("ok %d %d %s %s", d.consumed, d.val.Size(), amfStr(d.val), h.Hex(bs[d.consumed:]))
}

// Every marshalled slice is RETAINED (with a snapshot of its content at the time it was returned) and re-checked
// later by amfCheckRetained: bytes handed to the caller must not change when other values are marshalled afterwards
// (an application queues several encoded values before writing them).
type amfKept struct {
	b    []byte
	snap string
	desc string
}

var (
	amfRing      []amfKept
	amfRingBytes int
)

func libMarshal(a amf0.Amf0) (out []byte, class string) {
	class = h.Safe(func() string {
		b, err := a.MarshalBinary()
		if err != nil {
			return "err"
		}
		out = b
		return "ok"
	})
	if class == "ok" && len(out) > 0 && len(amfRing) < 3000 && amfRingBytes < 4<<20 {
		amfRing = append(amfRing, amfKept{out, string(out), h.Trunc(amfStr(a), 200)})
		amfRingBytes += len(out)
	}
	return
}

// amfCheckRetained verifies that every slice handed out by MarshalBinary so far still holds what it held then.
func amfCheckRetained(c *h.Ctx) {
	bad := 0
	for i, k := range amfRing {
		if string(k.b) != k.snap && bad < 3 {
			bad++
			c.Hold(false, "marshal.bytes_not_aliased", fmt.Sprintf("marshal #%d of %d retained values: %s", i, len(amfRing), k.desc),
				h.Trunc(h.Hex(k.b), 120), h.Trunc(h.Hex([]byte(k.snap)), 120))
		}
	}
	for _, m := range amfInputAliased {
		c.Hold(false, "decode.value_not_aliased_to_input", m, "changed", "unchanged")
	}
	amfInputAliased = nil
	for _, m := range amfReuseBad {
		c.Hold(false, "decode.reused_value_equals_fresh", m[0], m[1], m[2])
	}
	amfReuseBad = nil
	amfReusable = map[reflect.Type]amf0.Amf0{}
	c.Note(fmt.Sprintf("retained marshalled slices re-checked: %d", len(amfRing)))
	amfRing, amfRingBytes = nil, 0
}

func amfBucketSize(n int) string {
	switch {
	case n <= 1:
		return "1"
	case n <= 5:
		return "2-5"
	case n <= 20:
		return "6-20"
	case n <= 60:
		return "21-60"
	default:
		return "61+"
	}
}
