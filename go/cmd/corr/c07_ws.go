package main

// C07: WebSocket frame reader for the fuzz/mutation sweep (both roles, with and without
// permessage-deflate, with and without a read limit).

import (
	"io"

	"github.com/ossrs/go-oryx-lib/websocket"
	"verifharness/internal/h"
)

func init() {
	regDecoder(decoder{name: "websocket.ReadMessage/NextReader", maxLen: 65536,
		run: func(b []byte) {
			if len(b) == 0 {
				return
			}
			cfg := b[0]
			conn := websocket.VerifNewConn(newWsFake(b[1:]), cfg&1 == 1, 64+int(cfg&0x30)*16, 64, cfg&2 == 2)
			if cfg&4 == 4 {
				conn.SetReadLimit(int64(1 + cfg>>4))
			}
			for i := 0; i < 256; i++ {
				if cfg&8 == 8 {
					_, rd, err := conn.NextReader()
					if err != nil {
						return
					}
					io.Copy(io.Discard, rd)
				} else if _, _, err := conn.ReadMessage(); err != nil {
					return
				}
			}
		},
		seeds: func(r *h.Rand) [][]byte {
			var out [][]byte
			frame := func(first byte, masked bool, payload []byte) []byte {
				var f []byte
				f = append(f, first)
				m := byte(0)
				if masked {
					m = 0x80
				}
				switch n := len(payload); {
				case n < 126:
					f = append(f, m|byte(n))
				case n < 65536:
					f = append(f, m|126, byte(n>>8), byte(n))
				default:
					f = append(f, m|127, 0, 0, 0, 0, byte(n>>24), byte(n>>16), byte(n>>8), byte(n))
				}
				if masked {
					key := [4]byte{1, 2, 3, 4}
					f = append(f, key[:]...)
					p := append([]byte(nil), payload...)
					websocket.VerifMaskBytes(key, 0, p)
					payload = p
				}
				return append(f, payload...)
			}
			for _, server := range []bool{false, true} {
				cfg := byte(0)
				if server {
					cfg = 1
				}
				var s []byte
				s = append(s, frame(0x81, server, []byte("hello"))...)
				s = append(s, frame(0x01, server, r.Bytes(130))...)
				s = append(s, frame(0x89, server, []byte("ping"))...)
				s = append(s, frame(0x80, server, r.Bytes(3))...)
				s = append(s, frame(0x82, server, r.Bytes(300))...)
				s = append(s, frame(0x88, server, []byte{0x03, 0xe8, 'b', 'y', 'e'})...)
				for _, extra := range []byte{0, 2, 4, 8, 6, 12} {
					out = append(out, append([]byte{cfg | extra}, s...))
				}
				out = append(out, append([]byte{cfg | 2}, frame(0xc1, server, []byte{0x4a, 0x04, 0x00})...))                                                        // RSV1, deflate
				out = append(out, append([]byte{cfg}, append([]byte{0x82, 0x7f, 0x80, 0, 0, 0, 0, 0, 0, 0}, r.Bytes(20)...)...))                                    // 2^63 length
				out = append(out, append([]byte{cfg | 4}, append(frame(0x01, server, r.Bytes(10)), 0x80, 0x7f, 0x7f, 0xff, 0xff, 0xff, 0xff, 0xff, 0xff, 0xff)...)) // length overflow under a limit
			}
			return out
		}})
}
