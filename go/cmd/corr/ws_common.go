package main

// Shared pieces of the websocket drivers (C13, C14, C15): in-memory transports, the frame text
// form of lean/Oracle/Ws.lean, error classification, flate helpers.

import (
	"bytes"
	"compress/flate"
	"fmt"
	"io"
	"net"
	"strconv"
	"strings"
	"sync"
	"time"

	ws "github.com/ossrs/go-oryx-lib/websocket"
	"verifharness/internal/h"
)

type wsAddr struct{}

func (wsAddr) Network() string { return "mem" }
func (wsAddr) String() string  { return "mem" }

// wsFake: reads come from a fixed byte string (then io.EOF), writes are captured.
type wsFake struct {
	r      io.Reader
	mu     sync.Mutex
	w      bytes.Buffer
	writes [][]byte
	readDL, writeDL time.Time
	skew            time.Duration // virtual time that has passed on this transport (Advance)
}

// wsTimeout is what a net.Conn returns from Write once its write deadline has passed.
type wsTimeout struct{}

func (wsTimeout) Error() string   { return "i/o timeout (write deadline of the transport passed)" }
func (wsTimeout) Timeout() bool   { return true }
func (wsTimeout) Temporary() bool { return true }

// Advance lets d of (virtual) time pass on the transport.
func (c *wsFake) Advance(d time.Duration) {
	c.mu.Lock()
	c.skew += d
	c.mu.Unlock()
}

func newWsFake(in []byte) *wsFake { return &wsFake{r: bytes.NewReader(in)} }

func (c *wsFake) Read(p []byte) (int, error) { return c.r.Read(p) }
func (c *wsFake) Write(p []byte) (int, error) {
	c.mu.Lock()
	defer c.mu.Unlock()
	// like a net.Conn: a write after the armed write deadline fails
	if !c.writeDL.IsZero() && time.Now().Add(c.skew).After(c.writeDL) {
		return 0, wsTimeout{}
	}
	c.writes = append(c.writes, append([]byte(nil), p...))
	return c.w.Write(p)
}
func (c *wsFake) Written() []byte {
	c.mu.Lock()
	defer c.mu.Unlock()
	return append([]byte(nil), c.w.Bytes()...)
}
func (c *wsFake) Close() error                       { return nil }
func (c *wsFake) LocalAddr() net.Addr                { return wsAddr{} }
func (c *wsFake) RemoteAddr() net.Addr               { return wsAddr{} }
// the deadlines are remembered (the write deadline is enforced against real time plus Advance): what is armed on the transport when a call returns can be looked at
func (c *wsFake) SetDeadline(t time.Time) error {
	c.mu.Lock()
	c.readDL, c.writeDL = t, t
	c.mu.Unlock()
	return nil
}
func (c *wsFake) SetReadDeadline(t time.Time) error {
	c.mu.Lock()
	c.readDL = t
	c.mu.Unlock()
	return nil
}
func (c *wsFake) SetWriteDeadline(t time.Time) error {
	c.mu.Lock()
	c.writeDL = t
	c.mu.Unlock()
	return nil
}
func (c *wsFake) Deadlines() (read, write time.Time) {
	c.mu.Lock()
	defer c.mu.Unlock()
	return c.readDL, c.writeDL
}

// ---- frame text form: fin.rsv.opcode.masked.key.lenForm.len.payload ----

type wsFrame struct {
	Fin     bool
	Rsv     int // 4*RSV1 + 2*RSV2 + RSV3
	Op      int
	Masked  bool
	Key     string // byte field
	Form    int
	Len     uint64
	Payload string // byte field (hex, "-", or p:n:seed)
}

func (f wsFrame) String() string {
	return fmt.Sprintf("%s.%d.%d.%s.%s.%d.%d.%s", b01(f.Fin), f.Rsv, f.Op, b01(f.Masked), f.Key, f.Form, f.Len, f.Payload)
}

func wsFramesStr(fs []wsFrame) string {
	if len(fs) == 0 {
		return "_"
	}
	parts := make([]string, len(fs))
	for i, f := range fs {
		parts[i] = f.String()
	}
	return strings.Join(parts, ",")
}

func wsParseFrames(s string) []wsFrame {
	if s == "_" || s == "" {
		return nil
	}
	var out []wsFrame
	for _, tok := range strings.Split(s, ",") {
		p := strings.Split(tok, ".")
		if len(p) != 8 {
			panic("bad frame token " + h.Trunc(tok, 80))
		}
		rsv, _ := strconv.Atoi(p[1])
		op, _ := strconv.Atoi(p[2])
		form, _ := strconv.Atoi(p[5])
		l, _ := strconv.ParseUint(p[6], 10, 64)
		out = append(out, wsFrame{Fin: p[0] == "1", Rsv: rsv, Op: op, Masked: p[3] == "1", Key: p[4], Form: form, Len: l, Payload: p[7]})
	}
	return out
}

// minimal length form for a payload of n bytes.
func wsMinForm(n int) int {
	switch {
	case n < 126:
		return 0
	case n < 65536:
		return 1
	}
	return 2
}

// byte field for a payload: hex for short ones, an LCG descriptor (and the bytes) for long ones.
func wsPayload(r *h.Rand, n int) (field string, data []byte) {
	if n > 48 {
		seed := uint32(r.U64())
		return fmt.Sprintf("p:%d:%d", n, seed), h.LCGBytes(n, seed)
	}
	b := r.Bytes(n)
	return h.Hex(b), b
}

// ---- error classes of the read methods (lean: WsRead.RErr) ----

func wsErrClass(err error) string {
	if err == nil {
		return "nil"
	}
	if err == ws.ErrReadLimit {
		return "limit"
	}
	if err == ws.ErrCloseSent {
		return "close-sent"
	}
	if ce, ok := err.(*ws.CloseError); ok {
		if ce.Code == ws.CloseAbnormalClosure && ce.Text == io.ErrUnexpectedEOF.Error() {
			return "ueof"
		}
		return fmt.Sprintf("close.%d.%s", ce.Code, h.Hex([]byte(ce.Text)))
	}
	if err == io.EOF {
		return "eof"
	}
	if err == io.ErrUnexpectedEOF {
		return "io-ueof"
	}
	msg := err.Error()
	switch {
	case strings.HasPrefix(msg, "websocket: internal error"):
		return "internal"
	case strings.HasPrefix(msg, "websocket: "):
		return "proto"
	case strings.HasPrefix(msg, "flate: "):
		return "flate"
	}
	return "other"
}

// ---- flate (RFC 7692 no-context-takeover framing), used to build and to open compressed payloads ----

const wsDeflateTail = "\x00\x00\xff\xff"

// wsDeflate: the message payload RFC 7692 §7.2.1 prescribes: deflate with a sync flush, last 4 octets removed.
func wsDeflate(data []byte, level int) []byte {
	var b bytes.Buffer
	fw, _ := flate.NewWriter(&b, level)
	fw.Write(data)
	fw.Flush()
	out := b.Bytes()
	return out[:len(out)-4]
}

// wsInflate: RFC 7692 §7.2.2: append 00 00 ff ff and inflate (a final empty stored block stops the decoder).
func wsInflate(z []byte) ([]byte, error) {
	fr := flate.NewReader(io.MultiReader(bytes.NewReader(z), strings.NewReader(wsDeflateTail+"\x01\x00\x00\xff\xff")))
	return io.ReadAll(fr)
}

// reply frames written by an endpoint: parse with Spec.parse (sender = that endpoint) and reduce to
// opcode.payload with Close bodies cut to the status code (reason texts are not modelled).
func wsReplies(c *h.Ctx, senderIsServer bool, wire []byte, clause, input string) (string, bool) {
	if len(wire) == 0 {
		return "_", true
	}
	role := "c"
	if senderIsServer {
		role = "s"
	}
	rep := c.O.Call("ws.parse", role, "0", h.Hex(wire))
	if !strings.HasPrefix(rep, "ok ") {
		c.Hold(false, clause, input, "reply bytes "+h.Trunc(h.Hex(wire), 120)+" -> "+rep, "frames valid under Spec.parse")
		return rep, false
	}
	var parts []string
	for _, f := range wsParseFrames(rep[3:]) {
		pl := f.Payload
		if f.Op == 8 && len(pl) > 4 {
			pl = pl[:4]
		}
		parts = append(parts, fmt.Sprintf("%d.%s", f.Op, pl))
	}
	return strings.Join(parts, ","), true
}
