package main

// C15 — concurrent control frames: one data writer (1-3 frames, with and without `extra`), k <= 3
// control senders, a Close-frame sender and a transport closer, run against a scheduler-controlled
// net.Conn on which every transport Write parks until the harness releases it. Bounded enumeration of
// the start points of the other senders relative to the data writer's transport writes. The observed
// wire must be accepted by the model's invariant shape (`wsconc.accepts`) and by Spec.parse; after a
// Close frame every later write must fail with ErrCloseSent and leave the wire unchanged.

import (
	"io"
	"errors"
	"fmt"
	"runtime"
	"strings"
	"sync"
	"sync/atomic"
	"time"

	"bytes"
	"net"
	"net/http"

	ws "github.com/ossrs/go-oryx-lib/websocket"
	"verifharness/internal/h"
)

func init() { register("C15", c15) }

type parkedWrite struct {
	p     []byte
	grant chan int // number of bytes the transport accepts (>= len(p): all)
}

type schedConn struct {
	mu     sync.Mutex
	wire   []byte
	closed bool
	parked chan *parkedWrite
	nwrite int32
}

func newSchedConn() *schedConn { return &schedConn{parked: make(chan *parkedWrite, 16)} }

func (c *schedConn) Write(p []byte) (int, error) {
	atomic.AddInt32(&c.nwrite, 1)
	pw := &parkedWrite{p: append([]byte(nil), p...), grant: make(chan int, 1)}
	c.parked <- pw
	n := <-pw.grant
	c.mu.Lock()
	defer c.mu.Unlock()
	if n >= len(p) {
		c.wire = append(c.wire, p...)
		return len(p), nil
	}
	c.wire = append(c.wire, p[:n]...)
	return n, errors.New("use of closed network connection")
}
func (c *schedConn) Read(p []byte) (int, error)         { select {} }
func (c *schedConn) Close() error                       { c.mu.Lock(); c.closed = true; c.mu.Unlock(); return nil }
func (c *schedConn) LocalAddr() net.Addr                { return wsAddr{} }
func (c *schedConn) RemoteAddr() net.Addr               { return wsAddr{} }
func (c *schedConn) SetDeadline(t time.Time) error      { return nil }
func (c *schedConn) SetReadDeadline(t time.Time) error  { return nil }
func (c *schedConn) SetWriteDeadline(t time.Time) error { return nil }
func (c *schedConn) isClosed() bool                     { c.mu.Lock(); defer c.mu.Unlock(); return c.closed }
func (c *schedConn) snapshot() []byte {
	c.mu.Lock()
	defer c.mu.Unlock()
	return append([]byte(nil), c.wire...)
}

// a sender: a function performing its frame writes, the frames it is expected to produce, and results
type c15Sender struct {
	name     string
	run      func(conn *ws.Conn) error
	frames   []string // expected frame bytes (hex), program order
	isClose  bool
	closer   bool // closes the transport instead of writing
	err      error
	doneFlag int32
}

// c15Scenario: data writer shape + other senders with their start slots.
type c15Scenario struct {
	server   bool
	nframes  int
	extra    bool
	others   []string // kinds: "ping", "pong", "close", "xclose" (transport), "xclose-partial"
	slots    []int    // start slot per other sender: 0 = before the data writer starts, s = while its s-th transport write is parked, P+1 = after it finished
	dataSlot int      // unused (data writer starts after slot-0 senders)
}

const c15B = 16

func c15DataPayload(n int) []byte {
	b := make([]byte, n)
	for i := range b {
		b[i] = byte(0xd0 + i%13)
	}
	return b
}

// the data writer's call sequence for (nframes, extra); returns the message payload too.
func c15DataRun(server bool, nframes int, extra bool) (func(*ws.Conn) error, []byte) {
	W := c15B + 14
	if !extra || !server {
		total := (nframes-1)*c15B + 5
		data := c15DataPayload(total)
		return func(conn *ws.Conn) error {
			w, err := conn.NextWriter(ws.BinaryMessage)
			if err != nil {
				return err
			}
			// one Write (<= 2*len(writeBuf), so buffered): a frame goes out each time the buffer is full
			if _, err := w.Write(data); err != nil {
				return err
			}
			return w.Close()
		}, data
	}
	switch nframes {
	case 1:
		data := c15DataPayload(c15B + 7)
		return func(conn *ws.Conn) error { return conn.WriteMessage(ws.BinaryMessage, data) }, data // fast path: buf + extra
	case 2:
		a, b := c15DataPayload(3), c15DataPayload(2*W+1)
		return func(conn *ws.Conn) error {
			w, err := conn.NextWriter(ws.BinaryMessage)
			if err != nil {
				return err
			}
			if _, err := w.Write(a); err != nil {
				return err
			}
			if _, err := w.Write(b); err != nil { // > 2*len(writeBuf): buffered 3 bytes + extra, non-final
				return err
			}
			return w.Close()
		}, append(append([]byte(nil), a...), b...)
	default:
		a, b := c15DataPayload(2*W+1), c15DataPayload(2*W+2)
		return func(conn *ws.Conn) error {
			w, err := conn.NextWriter(ws.BinaryMessage)
			if err != nil {
				return err
			}
			if _, err := w.Write(a); err != nil {
				return err
			}
			if _, err := w.Write(b); err != nil {
				return err
			}
			return w.Close()
		}, append(append([]byte(nil), a...), b...)
	}
}

// expected frames of the data writer: run it alone on a plain in-memory conn, split by the spec parser.
// (client frames are masked with random keys: only their count and unmasked content are used there)
func c15SoloFrames(c *h.Ctx, server bool, run func(*ws.Conn) error) (frames []wsFrame, wire []byte, nwrites int) {
	fake := newWsFake(nil)
	conn := ws.VerifNewConn(fake, server, 0, c15B, false)
	run(conn)
	wire = fake.Written()
	rep := c.O.Call("ws.parse", roleStr(server), "0", h.Hex(wire))
	if strings.HasPrefix(rep, "ok ") {
		frames = wsParseFrames(rep[3:])
	}
	return frames, wire, len(fake.writes)
}

func c15FrameHex(c *h.Ctx, f wsFrame) string { return c.O.Call("ws.ser", f.String()) }

var c15ReadN int

func c15Run(c *h.Ctx, sc c15Scenario, id string) {
	role := roleStr(sc.server)
	dataRun, dataPayload := c15DataRun(sc.server, sc.nframes, sc.extra)
	soloFrames, _, P := c15SoloFrames(c, sc.server, dataRun)
	in := fmt.Sprintf("c15 role=%s frames=%d extra=%v others=%s slots=%v", role, sc.nframes, sc.extra, strings.Join(sc.others, ","), sc.slots)
	if !c.Hold(len(soloFrames) == sc.nframes, "harness.data_shape", in, fmt.Sprint(len(soloFrames)), fmt.Sprint(sc.nframes)) {
		return
	}
	tc := newSchedConn()
	conn := ws.VerifNewConn(tc, sc.server, 0, c15B, false)

	senders := []*c15Sender{{name: "data", run: dataRun}}
	if sc.server {
		for _, f := range soloFrames {
			senders[0].frames = append(senders[0].frames, c15FrameHex(c, f))
		}
	}
	for i, kind := range sc.others {
		i := i
		s := &c15Sender{name: kind}
		payload := []byte{byte(0xc0 + i), byte(i), 0x55}[:1+i%3]
		switch kind {
		case "ping", "pong":
			mt := ws.PingMessage
			if kind == "pong" {
				mt = ws.PongMessage
			}
			s.run = func(conn *ws.Conn) error { return conn.WriteControl(mt, payload, time.Time{}) }
			s.frames = []string{c15FrameHex(c, wsFrame{Fin: true, Op: mt, Key: "-", Len: uint64(len(payload)), Payload: h.Hex(payload)})}
		case "close":
			body := ws.FormatCloseMessage(1000, "")
			s.isClose = true
			s.run = func(conn *ws.Conn) error { return conn.WriteControl(ws.CloseMessage, body, time.Time{}) }
			s.frames = []string{c15FrameHex(c, wsFrame{Fin: true, Op: 8, Key: "-", Len: 2, Payload: h.Hex(body)})}
		case "xclose", "xclose-partial":
			s.closer = true
			s.run = func(conn *ws.Conn) error { return conn.Close() }
		}
		senders = append(senders, s)
	}

	var wg sync.WaitGroup
	var finished int32
	start := func(s *c15Sender) {
		wg.Add(1)
		go func() {
			defer wg.Done()
			defer atomic.AddInt32(&finished, 1)
			defer func() {
				if r := recover(); r != nil {
					s.err = fmt.Errorf("panic: %v", r)
				}
				atomic.StoreInt32(&s.doneFlag, 1)
			}()
			s.err = s.run(conn)
		}()
	}
	settle := func() {
		// let started goroutines reach their blocking point (parked write, lock wait, or completion)
		for i := 0; i < 4; i++ {
			runtime.Gosched()
			time.Sleep(40 * time.Microsecond)
		}
	}
	partial := false
	for _, k := range sc.others {
		if k == "xclose-partial" {
			partial = true
		}
	}
	var cut []string // frames that may appear cut at the end of the wire
	var cur *parkedWrite
	take := func(wait time.Duration) bool {
		if cur != nil {
			return true
		}
		select {
		case cur = <-tc.parked:
			return true
		case <-time.After(wait):
			return false
		}
	}
	release := func() {
		if cur == nil {
			return
		}
		n := len(cur.p)
		if tc.isClosed() {
			n = 0
			if partial {
				n = len(cur.p) / 2
			}
		}
		cur.grant <- n
		cur = nil
	}
	startSlot := func(slot int) {
		for i, s := range senders[1:] {
			if sc.slots[i] == slot {
				start(s)
				settle()
			}
		}
	}
	// slot 0: the others that go first; then the data writer; slots 1..P while its k-th write is parked
	startSlot(0)
	start(senders[0])
	settle()
	dataWrites := 0
	for guard := 0; guard < 400 && atomic.LoadInt32(&senders[0].doneFlag) == 0; guard++ {
		if !take(5 * time.Millisecond) {
			continue // the data writer is between two blocking points
		}
		if c15IsDataWrite(cur.p, sc.server) {
			dataWrites++
			startSlot(dataWrites) // these block on mu (held by the parked data write) or time-share with it
		}
		release()
		settle()
	}
	// after the data writer: the remaining slots, then drain
	for slot := dataWrites + 1; slot <= P+1; slot++ {
		startSlot(slot)
	}
	drained := make(chan struct{})
	go func() { wg.Wait(); close(drained) }()
	for {
		select {
		case <-drained:
			goto done
		case cur = <-tc.parked:
			release()
		case <-time.After(2 * time.Second):
			c.Hold(false, "harness.deadlock", in, "senders still blocked after 2s", "all writes complete")
			goto done
		}
	}
done:
	wire := tc.snapshot()

	// ---- checks ----
	closedTransport := tc.isClosed()
	closeOK := false
	for _, s := range senders {
		c.Hold(s.err == nil || !strings.HasPrefix(s.err.Error(), "panic"), "no_panic", in, fmt.Sprint(s.err), "no panic")
		if s.isClose && s.err == nil {
			closeOK = true
		}
	}
	wireHex := h.Hex(wire)
	if sc.server {
		var parts []string
		for _, s := range senders {
			if s.closer {
				continue
			}
			fs := "_"
			if len(s.frames) > 0 {
				fs = strings.Join(s.frames, ",")
			}
			mode := "p;"
			if s.err == nil {
				mode = "a;"
			}
			parts = append(parts, mode+fs)
			if s.err != nil && closedTransport {
				cut = append(cut, s.frames...)
			}
		}
		cutArg := "_"
		if len(cut) > 0 {
			cutArg = strings.Join(cut, ",")
		}
		acc := c.O.Call("wsconc.accepts", wireHex, strings.Join(parts, "|"), cutArg)
		c.Hold(acc == "1", "C15_wire.accepted_by_model_invariant", in, "wire="+h.Trunc(wireHex, 600), "an interleaving of whole frames in per-sender order ("+strings.Join(parts, "|")+")")
	}
	// the wire is whole well-formed frames under the independent parser (a cut tail only after a transport close)
	rep := c.O.Call("ws.parse", role, "0", wireHex)
	if !closedTransport {
		c.Hold(strings.HasPrefix(rep, "ok "), "C15_wire.spec_parse", in, h.Trunc(wireHex, 400), rep)
	} else {
		c.Hold(strings.HasPrefix(rep, "ok ") || rep == "incomplete", "C15_wire.spec_parse_or_cut", in, h.Trunc(wireHex, 400), rep)
	}
	if strings.HasPrefix(rep, "ok ") {
		frames := wsParseFrames(rep[3:])
		// data message intact and in order when its writer reported success
		var got []byte
		ndata := 0
		sawClose := -1
		for i, f := range frames {
			if f.Op <= 2 {
				got = append(got, h.UnHex(f.Payload)...)
				ndata++
			}
			if f.Op == 8 && sawClose < 0 {
				sawClose = i
			}
		}
		if senders[0].err == nil {
			c.Hold(bytes.Equal(got, dataPayload) && ndata == sc.nframes, "C15.data_message_intact", in, fmt.Sprintf("%d data frames, %d bytes", ndata, len(got)), fmt.Sprintf("%d frames, %d bytes", sc.nframes, len(dataPayload)))
		} else {
			c.Hold(bytes.HasPrefix(dataPayload, got), "C15.data_prefix", in, fmt.Sprintf("%d bytes", len(got)), "a prefix of the message")
		}
		// ... and the goroutine that READS at the other end (the library itself, opposite role) is handed that message
		// intact, through ReadMessage or through the message reader in small pieces, whatever control frames the
		// interleaving has put between its fragments
		if senders[0].err == nil {
			c15ReadN++
			back := ws.VerifNewConn(newWsFake(wire), !sc.server, 0, c15B, false)
			var gotMsg []byte
			res := h.Safe(func() string {
				if c15ReadN%2 == 0 {
					_, p, err := back.ReadMessage()
					if err != nil {
						return "ReadMessage: " + err.Error()
					}
					gotMsg = p
					return "ok"
				}
				_, rd, err := back.NextReader()
				if err != nil {
					return "NextReader: " + err.Error()
				}
				buf := make([]byte, 1+c15ReadN%7)
				for {
					n, err := rd.Read(buf)
					gotMsg = append(gotMsg, buf[:n]...)
					if err == io.EOF {
						return "ok"
					}
					if err != nil {
						return "message reader: " + err.Error()
					}
				}
			})
			c.Hold(res == "ok" && bytes.Equal(gotMsg, dataPayload), "C15.data_message_delivered_to_reader", in+" wire="+h.Trunc(wireHex, 300), fmt.Sprintf("%s, %d bytes", res, len(gotMsg)), fmt.Sprintf("ok, %d bytes", len(dataPayload)))
		}
		// nothing after a Close frame
		if sawClose >= 0 {
			c.Hold(sawClose == len(frames)-1, "after_close.nothing_follows", in, rep, "the Close frame is the last frame on the wire")
		}
		c.Hold(!closeOK || sawClose >= 0, "after_close.close_on_wire", in, rep, "a Close frame reported written is on the wire")
	}
	// after a Close frame has been sent: every later write fails with ErrCloseSent and the wire stays
	if closeOK {
		before := len(wire)
		doneCh := make(chan [3]error, 1)
		go func() {
			var r [3]error
			defer func() { // a panic of the library here is an outcome to report, not the end of the run
				if p := recover(); p != nil {
					for i := range r {
						if r[i] == nil {
							r[i] = fmt.Errorf("panic: %v", p)
						}
					}
					doneCh <- r
				}
			}()
			r[0] = conn.WriteControl(ws.PingMessage, []byte("late"), time.Time{})
			r[1] = conn.WriteMessage(ws.TextMessage, []byte("late"))
			_, r[2] = conn.NextWriter(ws.BinaryMessage)
			doneCh <- r
		}()
		select {
		case r := <-doneCh:
			c.Hold(r[0] == ws.ErrCloseSent && r[1] == ws.ErrCloseSent && r[2] == ws.ErrCloseSent, "after_close.err_close_sent", in, fmt.Sprint(r), "ErrCloseSent x3")
		case pw := <-tc.parked:
			pw.grant <- len(pw.p)
			c.Hold(false, "after_close.no_transport_write", in, "a transport write was attempted after the Close frame", "none")
		case <-time.After(2 * time.Second):
			c.Hold(false, "after_close.returns", in, "blocked", "ErrCloseSent")
		}
		c.Hold(len(tc.snapshot()) == before, "after_close.wire_frozen", in, fmt.Sprint(len(tc.snapshot())), fmt.Sprint(before))
	}
	// senders that lost to the latch report ErrCloseSent / the transport error, never success without a frame
	pattern := "unparsed"
	if strings.HasPrefix(rep, "ok ") {
		pattern = ""
		for _, f := range wsParseFrames(rep[3:]) {
			switch {
			case f.Op <= 2:
				pattern += "D"
			case f.Op == 8:
				pattern += "X"
			default:
				pattern += "c"
			}
		}
	} else if rep == "incomplete" {
		pattern = "cut"
	}
	bucket := fmt.Sprintf("%s/frames=%d/extra=%v/close=%v/xclose=%v/wire=%s", role, sc.nframes, sc.extra, closeOK, closedTransport, pattern)
	c.Case(bucket, in+" "+id, true)
}

// data writer transport writes: frames with opcode 0/2 (server) or their `extra` buffers (0xd0.. payload bytes).
func c15IsDataWrite(p []byte, server bool) bool {
	if len(p) == 0 {
		return false
	}
	op := p[0] & 0x0f
	fin := p[0]&0x70 == 0
	if fin && (op == 0 || op == 2) && len(p) >= 2 && (p[1]&0x80 != 0) == !server {
		// a data frame header (control senders only write 0x89/0x8a/0x88)
		return true
	}
	if p[0] >= 0xd0 && p[0] <= 0xdc && server {
		return true // `extra`: raw payload
	}
	return false
}

// c15Timeout: a control sender whose deadline expires while a data frame is stalled in the transport gives up
// WITHOUT touching the lock; a later control sender still has to wait for the data frame to finish.
func c15Timeout(c *h.Ctx, server bool, nframes int, extra bool) {
	in := fmt.Sprintf("wsconc timeout role=%s frames=%d extra=%v: data frame stalled; WriteControl(deadline 30ms) times out; second WriteControl waits", roleStr(server), nframes, extra)
	tc := newSchedConn()
	conn := ws.VerifNewConn(tc, server, 0, c15B, false)
	dataRun, payload := c15DataRun(server, nframes, extra)
	dataDone := make(chan error, 1)
	go func() {
		defer func() {
			if p := recover(); p != nil {
				dataDone <- fmt.Errorf("panic: %v", p)
			}
		}()
		dataDone <- dataRun(conn)
	}()
	var first *parkedWrite
	select {
	case first = <-tc.parked:
	case <-time.After(2 * time.Second):
		c.Hold(false, "C15.timeout.setup", in, "data writer never reached the transport", "a parked write")
		return
	}
	// A: deadline expires while the data writer holds the write lock inside the transport
	errA := conn.WriteControl(ws.PingMessage, []byte("A"), time.Now().Add(30*time.Millisecond))
	ne, isNet := errA.(net.Error)
	c.Hold(errA != nil && isNet && ne.Timeout(), "C15.timeout.returns_timeout", in, fmt.Sprint(errA), "a timeout error")
	// B: generous deadline; it must WAIT: no transport write may appear while the data frame is still stalled
	doneB := make(chan error, 1)
	go func() {
		defer func() {
			if p := recover(); p != nil {
				doneB <- fmt.Errorf("panic: %v", p)
			}
		}()
		doneB <- conn.WriteControl(ws.PingMessage, []byte("B"), time.Now().Add(5*time.Second))
	}()
	intruded := false
	select {
	case pw := <-tc.parked:
		intruded = true // somebody wrote to the transport while the data writer is parked inside its own frame
		pw.grant <- len(pw.p)
	case <-time.After(120 * time.Millisecond):
	}
	c.Hold(!intruded, "C15_wire.control_inside_data_frame", in, "a control frame reached the transport while a data frame was in progress (lock released by the timed-out sender)", "the second sender waits")
	// let everything finish
	first.grant <- len(first.p)
	deadline := time.After(3 * time.Second)
	var errData, errB error
	gotData, gotB := false, false
	for !(gotData && gotB) {
		select {
		case pw := <-tc.parked:
			pw.grant <- len(pw.p)
		case errData = <-dataDone:
			gotData = true
		case errB = <-doneB:
			gotB = true
		case <-deadline:
			c.Hold(false, "C15.timeout.completes", in, fmt.Sprintf("blocked: data returned=%v, second control returned=%v", gotData, gotB), "both return")
			return
		}
	}
	c.Hold(errData == nil && errB == nil, "C15.timeout.results", in, fmt.Sprintf("data=%v B=%v", errData, errB), "nil nil")
	wire := tc.snapshot()
	rep := c.O.Call("ws.parse", roleStr(server), "0", h.Hex(wire))
	okWire := strings.HasPrefix(rep, "ok ")
	var got []byte
	npings := 0
	if okWire {
		for _, f := range wsParseFrames(rep[3:]) {
			switch {
			case f.Op <= 2:
				got = append(got, h.UnHex(f.Payload)...)
			case f.Op == 9:
				npings++
			}
		}
	}
	c.Hold(okWire && bytes.Equal(got, payload) && npings == 1, "C15_wire.whole_frames", in, h.Trunc(rep, 200), "the data message intact, then exactly one ping (B); A left nothing on the wire")
	c.Case(fmt.Sprintf("timeout/%s/frames=%d/extra=%v", roleStr(server), nframes, extra), in, true)
}

// c15PingDuringMessage: the peer's Ping arrives while the application has a message writer open (the reading side
// answers it through the default handler): the Pong is a control frame BETWEEN the data frames, the data message stays
// one intact message, and the application's writer is not disturbed. Run as one legal interleaving of the reading
// and the writing goroutine (write part, read the ping, write the rest).
func c15PingDuringMessage(c *h.Ctx, server bool) {
	in := fmt.Sprintf("wsconc ping-during-message role=%s: NextWriter; Write(part 1 > buffer); peer Ping read and answered; Write(part 2); Close", roleStr(server))
	ping := []byte("are-you-there")
	// the peer's ping frame as this endpoint receives it (a server reads masked client frames)
	var inFrame []byte
	if server {
		key := [4]byte{9, 8, 7, 6}
		p := append([]byte(nil), ping...)
		ws.VerifMaskBytes(key, 0, p)
		inFrame = append(append([]byte{0x89, 0x80 | byte(len(ping))}, key[:]...), p...)
	} else {
		inFrame = append([]byte{0x89, byte(len(ping))}, ping...)
	}
	fake := newWsFake(inFrame)
	conn := ws.VerifNewConn(fake, server, 0, c15B, false)
	part1, part2 := c15DataPayload(c15B+9), c15DataPayload(23)
	res := h.Safe(func() string {
		w, err := conn.NextWriter(ws.BinaryMessage)
		if err != nil {
			return "NextWriter: " + err.Error()
		}
		if _, err := w.Write(part1); err != nil {
			return "Write 1: " + err.Error()
		}
		// the reading goroutine: processes the ping (default handler replies), then runs out of input
		if _, _, err := conn.NextReader(); err == nil {
			return "NextReader returned a data message"
		}
		if _, err := w.Write(part2); err != nil {
			return "Write 2 (after the ping was answered): " + err.Error()
		}
		if err := w.Close(); err != nil {
			return "Close: " + err.Error()
		}
		return "ok"
	})
	c.Hold(res == "ok", "C15.ping_during_message.writer_undisturbed", in, res, "ok")
	wire := fake.Written()
	rep := c.O.Call("ws.parse", roleStr(server), "0", h.Hex(wire))
	okWire := strings.HasPrefix(rep, "ok ")
	var data, pong []byte
	npong, nfinal := 0, 0
	if okWire {
		for _, f := range wsParseFrames(rep[3:]) {
			switch {
			case f.Op <= 2:
				data = append(data, h.UnHex(f.Payload)...)
				if f.Fin {
					nfinal++
				}
			case f.Op == 10:
				npong++
				pong = h.UnHex(f.Payload)
			}
		}
	}
	want := append(append([]byte(nil), part1...), part2...)
	c.Hold(okWire && bytes.Equal(data, want) && nfinal == 1 && npong == 1 && bytes.Equal(pong, ping), "C15_wire.ping_during_message", in, h.Trunc(rep, 300),
		"one intact binary message (one FIN), exactly one Pong with the Ping's payload between its frames")
	c.Case("ping-during-message/"+roleStr(server), in, true)
}

// deadlineConn: an in-memory transport that HONOURS the write deadline like a TCP connection or net.Pipe does — a
// Write after the armed deadline has passed fails with a timeout and puts nothing on the wire.
type deadlineConn struct {
	*wsFake
	dmu   sync.Mutex
	dl    time.Time
	stall int // > 0: the peer takes only this many bytes of the next Write and then stalls until the deadline
}

type c15TimeoutErr struct{}

func (c15TimeoutErr) Error() string   { return "i/o timeout" }
func (c15TimeoutErr) Timeout() bool   { return true }
func (c15TimeoutErr) Temporary() bool { return true }

func (c *deadlineConn) SetWriteDeadline(t time.Time) error {
	c.dmu.Lock()
	c.dl = t
	c.dmu.Unlock()
	return nil
}
func (c *deadlineConn) Write(p []byte) (int, error) {
	c.dmu.Lock()
	dl := c.dl
	c.dmu.Unlock()
	if !dl.IsZero() && time.Now().After(dl) {
		return 0, c15TimeoutErr{}
	}
	c.dmu.Lock()
	st := c.stall
	c.stall = 0
	c.dmu.Unlock()
	if st > 0 && st < len(p) && !dl.IsZero() {
		c.wsFake.Write(p[:st])
		time.Sleep(time.Until(dl) + time.Millisecond)
		return st, c15TimeoutErr{}
	}
	return c.wsFake.Write(p)
}

// c15StalledPeer: the peer takes the first bytes of a frame and stalls; the write times out with part of the frame
// on the wire. From then on the connection is dead for writing: a ping, a data message, a close — from whichever
// goroutine — must all fail and add NOTHING to the wire (anything more would sit inside the unfinished frame).
func c15StalledPeer(c *h.Ctx, server bool) {
	in := fmt.Sprintf("wsconc stalled-peer role=%s: SetWriteDeadline(60ms); WriteMessage(600B) of which the peer takes 10 bytes; then Ping, WriteMessage, Close", roleStr(server))
	tr := &deadlineConn{wsFake: newWsFake(nil)}
	conn := ws.VerifNewConn(tr, server, 0, 4096, false)
	var first error
	var later []string
	n0 := -1
	res := h.Safe(func() string {
		conn.SetWriteDeadline(time.Now().Add(60 * time.Millisecond))
		tr.dmu.Lock()
		tr.stall = 10
		tr.dmu.Unlock()
		first = conn.WriteMessage(ws.BinaryMessage, c15DataPayload(600))
		n0 = len(tr.Written())
		conn.SetWriteDeadline(time.Time{})
		e1 := conn.WriteControl(ws.PingMessage, []byte("p"), time.Now().Add(time.Second))
		e2 := conn.WriteMessage(ws.TextMessage, []byte("after"))
		e3 := conn.WriteControl(ws.CloseMessage, ws.FormatCloseMessage(1000, ""), time.Now().Add(time.Second))
		for _, e := range []error{e1, e2, e3} {
			later = append(later, fmt.Sprint(e != nil))
		}
		return "ok"
	})
	wire := tr.Written()
	c.Hold(res == "ok" && first != nil, "C15.stalled_peer.write_times_out", in, fmt.Sprint(res, " ", first), "a timeout error")
	// (n0 is 10, or 0 when this process was stalled past the deadline before the write began)
	c.Hold(res != "ok" || (len(wire) == n0 && n0 <= 10 && strings.Join(later, ",") == "true,true,true"), "C15_wire.nothing_inside_an_unfinished_frame", in,
		fmt.Sprintf("%d bytes on the wire after the timed-out write, %d at the end; later writes failed: %s", n0, len(wire), strings.Join(later, ",")), "nothing added after the timed-out write; later writes failed: true,true,true")
	c.Case("stalled-peer/"+roleStr(server), in, true)
}

// c15Deadlines: each write is governed by ITS OWN deadline. A control frame sent with a short deadline (an
// application ping; the automatic pong and close replies use now+1s) must not leave that deadline armed for the
// data writer that comes next and whose own deadline (none, or a later one set before the first message) has not
// changed; and after the Close frame every later write is refused with the close-sent error.
func c15Deadlines(c *h.Ctx, server bool, dataDeadline time.Duration) {
	// the ping's own deadline can only pass before it is written if this process is stalled for 300 ms: then the
	// scenario was not established and is tried again (never reported)
	for attempt := 0; attempt < 4; attempt++ {
		if c15DeadlinesOnce(c, server, dataDeadline) {
			return
		}
	}
	c.Note("C15 deadlines scenario could not be established (process stalled > 300 ms four times)")
}

func c15DeadlinesOnce(c *h.Ctx, server bool, dataDeadline time.Duration) bool {
	in := fmt.Sprintf("wsconc deadlines role=%s data-deadline=%v: WriteMessage; WriteControl(Ping, 300ms); wait 400ms; WriteMessage; WriteControl(Close); WriteMessage", roleStr(server), dataDeadline)
	tr := &deadlineConn{wsFake: newWsFake(nil)}
	conn := ws.VerifNewConn(tr, server, 0, c15B, false)
	d1, d2 := c15DataPayload(40), c15DataPayload(c15B+30)
	var afterClose error
	res := h.Safe(func() string {
		if dataDeadline > 0 {
			conn.SetWriteDeadline(time.Now().Add(dataDeadline)) // set ONCE, as an application with a session deadline does
		}
		if err := conn.WriteMessage(ws.BinaryMessage, d1); err != nil {
			return "WriteMessage 1: " + err.Error()
		}
		if err := conn.WriteControl(ws.PingMessage, []byte("p"), time.Now().Add(300*time.Millisecond)); err != nil {
			return "not-established"
		}
		time.Sleep(400 * time.Millisecond)
		if err := conn.WriteMessage(ws.BinaryMessage, d2); err != nil {
			return "WriteMessage 2 (its own deadline has not passed): " + err.Error()
		}
		if err := conn.WriteControl(ws.CloseMessage, ws.FormatCloseMessage(1000, ""), time.Now().Add(time.Second)); err != nil {
			return "WriteControl(Close): " + err.Error()
		}
		afterClose = conn.WriteMessage(ws.BinaryMessage, d1)
		return "ok"
	})
	if res == "not-established" {
		return false
	}
	c.Hold(res == "ok", "C15.deadline_of_a_control_frame_does_not_outlive_it", in, res, "ok")
	c.Hold(res != "ok" || afterClose == ws.ErrCloseSent, "after_close.nothing_follows", in, fmt.Sprint(afterClose), "ErrCloseSent")
	rep := c.O.Call("ws.parse", roleStr(server), "0", h.Hex(tr.Written()))
	okWire := strings.HasPrefix(rep, "ok ")
	var msgs [][]byte
	var cur []byte
	nclose, last := 0, -1
	if okWire {
		for i, f := range wsParseFrames(rep[3:]) {
			switch {
			case f.Op <= 2:
				cur = append(cur, h.UnHex(f.Payload)...)
				if f.Fin {
					msgs, cur = append(msgs, cur), nil
				}
			case f.Op == 8:
				nclose++
			}
			last = i
			_ = last
		}
	}
	whole := okWire && len(msgs) == 2 && bytes.Equal(msgs[0], d1) && bytes.Equal(msgs[1], d2) && nclose == 1
	c.Hold(res != "ok" || whole, "C15_wire.deadlines", in, h.Trunc(rep, 300), "two intact messages, a ping between them, one Close, nothing after it")
	c.Case(fmt.Sprintf("deadlines/%s/data-deadline=%v", roleStr(server), dataDeadline), in, true)
	return true
}

func c15(c *h.Ctx) {
	r := c.R
	for _, server := range []bool{true, false} {
		for nframes := 1; nframes <= 2; nframes++ {
			c15Timeout(c, server, nframes, server)
		}
		c15PingDuringMessage(c, server)
		c15Deadlines(c, server, 0)
		c15Deadlines(c, server, 5*time.Second)
		c15StalledPeer(c, server)
	}
	c15CloseWays(c)
	c15ViaHandshake(c)
	c15DeadlineDuringControl(c, true)
	c15DeadlineDuringControl(c, false)
	kinds := []string{"ping", "pong", "close", "xclose", "xclose-partial"}
	run := 0
	for _, server := range []bool{true, false} {
		for nframes := 1; nframes <= 3; nframes++ {
			for _, extra := range []bool{false, true} {
				if extra && !server {
					continue // `extra` is a server-only path
				}
				dataRun, _ := c15DataRun(server, nframes, extra)
				_, _, P := c15SoloFrames(c, server, dataRun)
				maxOthers := c.N(2, 3)
				// all multisets of other senders up to maxOthers, all slot assignments (bounded; sampled beyond the budget)
				var combos [][]string
				var gen func(prefix []string, from int)
				gen = func(prefix []string, from int) {
					if len(prefix) > 0 {
						combos = append(combos, append([]string(nil), prefix...))
					}
					if len(prefix) == maxOthers {
						return
					}
					for k := from; k < len(kinds); k++ {
						gen(append(prefix, kinds[k]), k)
					}
				}
				gen(nil, 0)
				for _, others := range combos {
					nclose := 0
					for _, k := range others {
						if k != "ping" && k != "pong" {
							nclose++
						}
					}
					if nclose > 1 && !c.Thorough() {
						continue
					}
					nslots := P + 2
					total := 1
					for range others {
						total *= nslots
					}
					budget := c.N(6, 60)
					for a := 0; a < total; a++ {
						pick := a
						if total > budget {
							if a >= budget {
								break
							}
							pick = r.Intn(total)
						}
						slots := make([]int, len(others))
						x := pick
						for i := range slots {
							slots[i] = x % nslots
							x /= nslots
						}
						run++
						c15Run(c, c15Scenario{server: server, nframes: nframes, extra: extra, others: others, slots: slots}, fmt.Sprint(run))
					}
				}
			}
		}
	}
}

// c15CloseWays: the Close frame sent by the WRITING goroutine itself, in each of the ways the API offers (WriteControl,
// WriteMessage, a prepared message), while other goroutines keep sending pings: once the Close frame is on the wire
// nothing follows it and every later write — the writer's own and the pingers' — fails with ErrCloseSent.
func c15CloseWays(c *h.Ctx) {
	body := ws.FormatCloseMessage(1000, "bye")
	for _, server := range []bool{false, true} {
		for way := 0; way < 3; way++ {
			for round := 0; round < c.N(4, 60); round++ {
				fake := newWsFake(nil)
				conn := ws.VerifNewConn(fake, server, 0, c15B, false)
				in := fmt.Sprintf("close by the writer role=%s way=%s round=%d: WriteMessage(data); Close frame; two goroutines ping throughout", roleStr(server), []string{"WriteControl", "WriteMessage", "WritePreparedMessage"}[way], round)
				data := h.LCGBytes(300+round, uint32(round))
				stop := make(chan struct{})
				var wg sync.WaitGroup
				lastErr := make([]error, 2)
				for g := 0; g < 2; g++ {
					wg.Add(1)
					go func(g int) {
						defer wg.Done()
						defer func() {
							if p := recover(); p != nil {
								lastErr[g] = fmt.Errorf("panic: %v", p)
							}
						}()
						for i := 0; i < 5000; i++ {
							if err := conn.WriteControl(ws.PingMessage, []byte{byte(g)}, time.Now().Add(time.Second)); err != nil {
								lastErr[g] = err
								return
							}
							select {
							case <-stop:
								// keep going a little after the close so that a ping that still gets through is seen
								if i%7 == 0 {
									time.Sleep(50 * time.Microsecond)
								}
							default:
							}
						}
					}(g)
				}
				res := h.Safe(func() string {
					if round%2 == 0 {
						if err := conn.WriteMessage(ws.BinaryMessage, data); err != nil {
							return "data: " + err.Error()
						}
					} else {
						// streamed from a source that hands its last bytes over together with io.EOF
						w, err := conn.NextWriter(ws.BinaryMessage)
						if err != nil {
							return "data: " + err.Error()
						}
						if _, err := io.Copy(w, &wsChunkReader{data: append([]byte(nil), data...), ks: []int{100, 50}, eofWithData: true}); err != nil {
							return "data copy: " + err.Error()
						}
						if err := w.Close(); err != nil {
							return "data close: " + err.Error()
						}
					}
					var err error
					switch way {
					case 0:
						err = conn.WriteControl(ws.CloseMessage, body, time.Now().Add(time.Second))
					case 1:
						err = conn.WriteMessage(ws.CloseMessage, body)
					default:
						pm, e := ws.NewPreparedMessage(ws.CloseMessage, body)
						if e != nil {
							return "NewPreparedMessage: " + e.Error()
						}
						err = conn.WritePreparedMessage(pm)
					}
					if err != nil {
						return "close: " + err.Error()
					}
					close(stop)
					e1 := conn.WriteMessage(ws.TextMessage, []byte("late"))
					_, e2 := conn.NextWriter(ws.BinaryMessage)
					e3 := conn.WriteControl(ws.PongMessage, nil, time.Now().Add(time.Second))
					if e1 != ws.ErrCloseSent || e2 != ws.ErrCloseSent || e3 != ws.ErrCloseSent {
						return fmt.Sprintf("writes after the Close frame: %v / %v / %v", e1, e2, e3)
					}
					return "ok"
				})
				select {
				case <-stop:
				default:
					close(stop)
				}
				wg.Wait()
				c.Hold(res == "ok", "after_close.err_close_sent", in, res, "ErrCloseSent for every write after the Close frame")
				if res == "ok" {
					c.Hold(lastErr[0] == ws.ErrCloseSent && lastErr[1] == ws.ErrCloseSent, "after_close.err_close_sent", in, fmt.Sprintf("pingers ended with %v / %v", lastErr[0], lastErr[1]), "ErrCloseSent")
					rep := c.O.Call("ws.parse", roleStr(server), "0", h.Hex(fake.Written()))
					okWire := strings.HasPrefix(rep, "ok ")
					var payload []byte
					if okWire {
						fs := wsParseFrames(rep[3:])
						okWire = len(fs) > 0 && fs[len(fs)-1].Op == 8
						for _, f := range fs[:len(fs)-1] {
							okWire = okWire && f.Op != 8
							if f.Op == 2 || f.Op == 0 {
								payload = append(payload, h.UnHex(f.Payload)...)
							}
						}
					}
					c.Hold(okWire, "after_close.nothing_follows", in, h.Trunc(rep, 300), "whole frames, exactly one Close frame, the last one")
					c.Hold(!okWire || bytes.Equal(payload, data), "C15_wire.data_message_intact", in, fmt.Sprintf("%d payload bytes on the wire", len(payload)), fmt.Sprintf("the %d bytes written", len(data)))
				}
				c.Case(fmt.Sprintf("close-ways/%s/way=%d", roleStr(server), way), in, true)
			}
		}
	}
}

// c15DeadlineDuringControl: over a transport that honours deadlines for writes already in progress (net.Pipe, like
// TCP): a ping sent with a generous deadline is stuck in the transport because the peer reads slowly; meanwhile the
// data-writing goroutine calls SetWriteDeadline with a short deadline for ITS next message. That deadline is the data
// writer's: the control frame in progress is not cut, it arrives whole, and the data message after it is intact.
func c15DeadlineDuringControl(c *h.Ctx, server bool) {
	in := fmt.Sprintf("wsconc role=%s over net.Pipe: WriteControl(Ping, 5s) stuck after the peer took 1 byte; SetWriteDeadline(now+40ms) by the data writer; 150 ms later the peer reads on; WriteMessage", roleStr(server))
	a, b := net.Pipe()
	defer a.Close()
	defer b.Close()
	conn := ws.VerifNewConn(a, server, 0, c15B, false)
	pingDone := make(chan error, 1)
	go func() {
		defer func() {
			if p := recover(); p != nil {
				pingDone <- fmt.Errorf("panic: %v", p)
			}
		}()
		pingDone <- conn.WriteControl(ws.PingMessage, []byte("0123456789"), time.Now().Add(5*time.Second))
	}()
	one := make([]byte, 1)
	b.SetReadDeadline(time.Now().Add(3 * time.Second))
	if _, err := io.ReadFull(b, one); err != nil {
		c.Note("C15 deadline-during-control scenario could not be established: " + err.Error())
		return
	}
	conn.SetWriteDeadline(time.Now().Add(40 * time.Millisecond))
	time.Sleep(150 * time.Millisecond)
	// the peer reads on: the rest of the ping, then the data message
	got := append([]byte(nil), one...)
	readAll := make(chan struct{})
	go func() {
		defer close(readAll)
		buf := make([]byte, 4096)
		for {
			b.SetReadDeadline(time.Now().Add(700 * time.Millisecond))
			n, err := b.Read(buf)
			got = append(got, buf[:n]...)
			if err != nil {
				return
			}
		}
	}()
	var errPing error
	select {
	case errPing = <-pingDone:
	case <-time.After(3 * time.Second):
		errPing = fmt.Errorf("WriteControl did not return")
	}
	data := c15DataPayload(60)
	conn.SetWriteDeadline(time.Now().Add(2 * time.Second))
	errData := conn.WriteMessage(ws.BinaryMessage, data)
	<-readAll
	rep := c.O.Call("ws.parse", roleStr(server), "0", h.Hex(got))
	okWire := strings.HasPrefix(rep, "ok ")
	var payload []byte
	pings := 0
	if okWire {
		for _, f := range wsParseFrames(rep[3:]) {
			if f.Op == 9 && h.Hex(h.UnHex(f.Payload)) == h.Hex([]byte("0123456789")) {
				pings++
			}
			if f.Op == 2 || f.Op == 0 {
				payload = append(payload, h.UnHex(f.Payload)...)
			}
		}
	}
	c.Hold(errPing == nil && errData == nil && okWire && pings == 1 && bytes.Equal(payload, data), "C15_wire.deadline_set_during_a_control_frame", in,
		fmt.Sprintf("ping: %v; data: %v; wire: %s", errPing, errData, h.Trunc(rep, 200)), "both nil; one whole ping and the data message on the wire")
	c.Case("deadline-during-control/"+roleStr(server), in, true)
}

// c15Handshaken gives a connection obtained the way applications obtain one — Upgrader.Upgrade on a hijacked
// connection, Dialer.Dial over a dialled transport — and a function returning what the endpoint has put on the
// transport AFTER the opening handshake.
func c15Handshaken(server bool, wbuf int) (*ws.Conn, func() []byte, error) {
	key := "dGhlIHNhbXBsZSBub25jZQ=="
	if server {
		hd := http.Header{"Connection": {"Upgrade"}, "Upgrade": {"websocket"}, "Sec-Websocket-Version": {"13"}, "Sec-Websocket-Key": {key}}
		req := &http.Request{Method: "GET", Header: hd, Host: "example.com", Proto: "HTTP/1.1", ProtoMajor: 1, ProtoMinor: 1}
		rw := &hsRW{hdr: http.Header{}, conn: newWsFake(nil)}
		up := ws.Upgrader{ReadBufferSize: 256, WriteBufferSize: wbuf}
		conn, err := up.Upgrade(rw, req, nil)
		if err != nil {
			return nil, nil, err
		}
		n := len(rw.conn.Written())
		return conn, func() []byte { return rw.conn.Written()[n:] }, nil
	}
	return wsDialed(256, wbuf, false, nil)
}

// wsDialed: a client connection from Dialer.Dial over a scripted transport; the server's 101 response and `after` (what
// the server sends first) arrive together, as one piece. The function returned gives what the client wrote after its
// handshake request.
func wsDialed(rbuf, wbuf int, deflate bool, after []byte) (*ws.Conn, func() []byte, error) {
	var sc *hsScript
	d := ws.Dialer{ReadBufferSize: rbuf, WriteBufferSize: wbuf, EnableCompression: deflate}
	d.NetDial = func(network, addr string) (net.Conn, error) {
		sc = &hsScript{respond: func(req []byte) []byte {
			k := ""
			for _, l := range strings.Split(string(req), "\r\n") {
				if strings.HasPrefix(strings.ToLower(l), "sec-websocket-key: ") {
					k = l[len("sec-websocket-key: "):]
				}
			}
			ext := ""
			if deflate {
				ext = "Sec-WebSocket-Extensions: permessage-deflate; server_no_context_takeover; client_no_context_takeover\r\n"
			}
			return append([]byte("HTTP/1.1 101 Switching Protocols\r\nUpgrade: websocket\r\nConnection: Upgrade\r\n"+ext+"Sec-WebSocket-Accept: "+hsAccept(k)+"\r\n\r\n"), after...)
		}}
		return sc, nil
	}
	conn, _, err := d.Dial("ws://example.com/path", nil)
	if err != nil {
		return nil, nil, err
	}
	n := sc.req.Len()
	return conn, func() []byte { return append([]byte(nil), sc.req.Bytes()[n:]...) }, nil
}

// c15ViaHandshake: the properties of the frame stream on connections that went through the opening handshake (whose
// buffers the handshake has used before the first frame): the FIRST data message of every size class, written while
// other goroutines send pings, then a Close.
func c15ViaHandshake(c *h.Ctx) {
	for _, server := range []bool{true, false} {
		for _, wbuf := range []int{256, 4096} {
			for _, size := range []int{0, 125, 126, 65535, 65536, 70000} {
				for way := 0; way < 2; way++ {
					in := fmt.Sprintf("role=%s, connection from the opening handshake (write buffer %d): first data message of %d bytes (%s) while 2 goroutines send 3 pings each; then Close", roleStr(server), wbuf, size, []string{"WriteMessage", "NextWriter + two Writes + Close"}[way])
					conn, wireOf, err := c15Handshaken(server, wbuf)
					if !c.Hold(err == nil, "C15.handshake_ok", in, fmt.Sprint(err), "a connection") {
						continue
					}
					payload := c15DataPayload(size)
					var wg sync.WaitGroup
					errs := make([]error, 3)
					for g := 0; g < 2; g++ {
						wg.Add(1)
						go func(g int) {
							defer wg.Done()
							defer func() {
								if p := recover(); p != nil {
									errs[g] = fmt.Errorf("panic: %v", p)
								}
							}()
							for i := 0; i < 3; i++ {
								if e := conn.WriteControl(ws.PingMessage, []byte{byte('a' + g), byte('0' + i)}, time.Now().Add(5*time.Second)); e != nil {
									errs[g] = e
								}
								runtime.Gosched()
							}
						}(g)
					}
					wg.Add(1)
					go func() {
						defer wg.Done()
						defer func() {
							if p := recover(); p != nil {
								errs[2] = fmt.Errorf("panic: %v", p)
							}
						}()
						if way == 0 {
							errs[2] = conn.WriteMessage(ws.BinaryMessage, payload)
							return
						}
						w, e := conn.NextWriter(ws.BinaryMessage)
						if e == nil {
							if _, e = w.Write(payload[:size/3]); e == nil {
								if _, e = w.Write(payload[size/3:]); e == nil {
									e = w.Close()
								}
							}
						}
						errs[2] = e
					}()
					wg.Wait()
					cerr := conn.WriteControl(ws.CloseMessage, ws.FormatCloseMessage(1000, "bye"), time.Now().Add(5*time.Second))
					c.Hold(errs[0] == nil && errs[1] == nil && errs[2] == nil && cerr == nil, "C15.no_spurious_failure", in, fmt.Sprint(errs, cerr), "all nil")
					wire := wireOf()
					rep := c.O.Call("ws.parse", roleStr(server), "0", h.Hex(wire))
					ok := strings.HasPrefix(rep, "ok ")
					var data []byte
					nping, nclose, last := 0, 0, -1
					if ok {
						fs := wsParseFrames(rep[3:])
						for i, f := range fs {
							switch {
							case f.Op <= 2:
								data = append(data, h.UnHex(f.Payload)...)
							case f.Op == 9:
								nping++
							case f.Op == 8:
								nclose++
								last = i
							}
						}
						ok = last == len(fs)-1
					}
					c.Hold(ok && bytes.Equal(data, payload) && nping == 6 && nclose == 1, "C15_wire.after_handshake", in, h.Trunc(rep, 300), fmt.Sprintf("whole frames: the %d-byte message, 6 pings, the Close last", size))
					// the reading end
					back := ws.VerifNewConn(newWsFake(wire), !server, 0, 256, false)
					var got []byte
					res := h.Safe(func() string {
						_, p, err := back.ReadMessage()
						if err != nil {
							return "ReadMessage: " + err.Error()
						}
						got = p
						if _, _, err = back.ReadMessage(); !ws.IsCloseError(err, 1000) {
							return fmt.Sprintf("after the message: %v", err)
						}
						return "ok"
					})
					c.Hold(res == "ok" && bytes.Equal(got, payload), "C15.data_message_delivered_to_reader", in, fmt.Sprintf("%s, %d bytes", res, len(got)), fmt.Sprintf("ok, %d bytes, then close 1000", size))
					c.Case(fmt.Sprintf("via-handshake/%s/size=%d", roleStr(server), size), in, true)
				}
			}
		}
	}
}
