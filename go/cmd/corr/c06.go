package main

// C06 — AMF0 wire format is the one defined by the AMF0 specification:
// the library vs the independent Lean Spec encoder/decoder (Oryx.Spec.Amf0), both ways,
// and all 256 marker bytes.

import (
	"bytes"
	"encoding/hex"
	"fmt"
	"strings"

	"github.com/ossrs/go-oryx-lib/amf0"
	"verifharness/internal/h"
)

func init() { register("C06", c06) }

// K1: the class of inputs of the open finding (non-empty strict arrays).
const k1Clause = "wire_is_spec.strict_array"
const k1Prefix = "K1 strict-array-nonempty "

// specText prints the node as a SPECIFICATION value: strict arrays are value lists `v[…]`.
func (n *anode) specText() string {
	var sb strings.Builder
	n.writeSpec(&sb)
	return sb.String()
}

func (n *anode) writeSpec(sb *strings.Builder) {
	switch n.kind {
	case 'o', 'a':
		if n.kind == 'o' {
			sb.WriteString("o[")
		} else {
			fmt.Fprintf(sb, "a%d[", n.count)
		}
		for i, k := range n.keys {
			if i > 0 {
				sb.WriteByte(',')
			}
			sb.WriteString(hex.EncodeToString(k))
			sb.WriteByte('=')
			n.kids[i].writeSpec(sb)
		}
		sb.WriteByte(']')
	case 't':
		sb.WriteString("v[")
		for i := range n.kids {
			if i > 0 {
				sb.WriteByte(',')
			}
			n.kids[i].writeSpec(sb)
		}
		sb.WriteByte(']')
	default:
		n.writeText(sb)
	}
}

func (n *anode) hasStrictElems() bool {
	if n.kind == 't' && len(n.kids) > 0 {
		return true
	}
	for _, k := range n.kids {
		if k.hasStrictElems() {
			return true
		}
	}
	return false
}

func num(f uint64) *anode { return &anode{kind: 'n', bits: f} }
func str(s string) *anode { return &anode{kind: 's', s: []byte(s)} }
func boolean(b bool) *anode {
	n := &anode{kind: 'b', b: b}
	if b {
		n.bits = 1
	}
	return n
}

func container(kind byte, count uint32, kv ...interface{}) *anode {
	n := &anode{kind: kind, count: count}
	for i := 0; i+1 < len(kv); i += 2 {
		n.keys = append(n.keys, []byte(kv[i].(string)))
		n.kids = append(n.kids, kv[i+1].(*anode))
	}
	return n
}

func strictOf(vals ...*anode) *anode {
	n := &anode{kind: 't', count: uint32(len(vals))}
	for _, v := range vals {
		n.keys = append(n.keys, nil)
		n.kids = append(n.kids, v)
	}
	return n
}

// onMetaData trees in the style of FFmpeg's flvenc, Flash Media Live Encoder and flvtool2/yamdi.
func metadataTrees(r *h.Rand) []*anode {
	f := func(x float64bits) *anode { return num(uint64(x)) }
	ffmpeg := func(count uint32) *anode {
		return container('a', count,
			"duration", f(0x4024000000000000), "width", f(0x4094000000000000), "height", f(0x4086800000000000),
			"videodatarate", f(0x408f400000000000), "framerate", f(0x4039000000000000), "videocodecid", f(0x401c000000000000),
			"audiodatarate", f(0x4060000000000000), "audiosamplerate", f(0x40e5888000000000), "audiosamplesize", f(0x4030000000000000),
			"stereo", boolean(true), "audiocodecid", f(0x4024000000000000), "encoder", str("Lavf58.29.100"), "filesize", f(0))
	}
	fmle := container('a', 0,
		"author", str(""), "copyright", str(""), "description", str(""), "keywords", str(""), "rating", str(""), "title", str(""),
		"presetname", str("Custom"), "creationdate", str("Tue Sep 29 20:00:00 2026\n"),
		"videodevice", str("USB Video Device"), "avclevel", f(0x403f000000000000), "avcprofile", f(0x4050800000000000),
		"videokeyframe_frequency", f(0x4014000000000000))
	yamdi := container('a', 9,
		"hasKeyframes", boolean(true), "hasMetadata", boolean(true), "canSeekToEnd", boolean(false),
		"metadatacreator", str("Yet Another Metadata Injector for FLV - Version 1.9"),
		"keyframes", container('o', 0,
			"filepositions", strictOf(f(0x4090000000000000), f(0x40c3880000000000), f(0x40d3880000000000)),
			"times", strictOf(f(0), f(0x4000000000000000), f(0x4010000000000000))),
		"cuePoints", strictOf())
	nested := container('o', 0, "matrix", strictOf(strictOf(f(0x3ff0000000000000), f(0)), strictOf(f(0), f(0x3ff0000000000000))),
		"empty", strictOf(), "tags", strictOf(str("a"), container('o', 0, "k", &anode{kind: 'z'}), &anode{kind: 'u'}))
	out := []*anode{ffmpeg(13), ffmpeg(0), ffmpeg(12), ffmpeg(uint32(13 + r.Intn(5))), ffmpeg(0xffffffff), fmle, yamdi, nested,
		strictOf(f(0x3ff0000000000000))}
	return out
}

type float64bits uint64

// c06SpecToLib: a specification-conformant encoding (Lean Spec encoder) is decoded by the library to that value.
func c06SpecToLib(c *h.Ctx, bucket string, n *anode) {
	s := n.specText()
	specBytes := c.O.Call("amf0.spec.enc", s)
	want := c.O.Call("amf0.ofspec", s)
	bs := h.UnHex(specBytes)
	tail := [][]byte{nil, {0, 0, 9}, {5}}[c.R.Intn(3)]
	full := append(append([]byte{}, bs...), tail...)
	d := libDecode(full)
	line := d.decLine(full)
	c.Eq("spec_to_lib.dec", "amf0.dec "+h.Trunc(h.Hex(full), 600), h.Trunc(line, 1500), h.Trunc(c.O.Call("amf0.dec", h.Hex(full)), 1500))
	c.Hold(d.class != "panic", "no_panic", "amf0.dec "+h.Trunc(h.Hex(full), 600), d.class, "ok|err")
	got := d.class
	okAll := false
	if d.class == "ok" {
		got = fmt.Sprintf("%s consumed=%d", amfStr(d.val), d.consumed)
		again, _ := libMarshal(d.val)
		okAll = amfStr(d.val) == want && d.consumed == len(bs) && bytes.Equal(again, bs)
		if amfStr(d.val) == want && d.consumed == len(bs) && !bytes.Equal(again, bs) {
			got += " remarshal=" + h.Trunc(h.Hex(again), 300)
		}
	}
	if n.hasStrictElems() {
		// finding K1: the library's strict array is a keyed list, the specification's is values only
		c.Hold(okAll, k1Clause, k1Prefix+h.Trunc(s, 400), h.Trunc(got, 600), h.Trunc(want, 600))
		c.Case(bucket+"/spec->lib/strict-elems(K1)", s, true)
		return
	}
	c.Hold(okAll, "spec_to_lib", "amf0.spec.enc "+h.Trunc(s, 600), h.Trunc(got, 600), fmt.Sprintf("%s consumed=%d", h.Trunc(want, 600), len(bs)))
	c.Case(bucket+"/spec->lib", s, true)
}

// c06LibToSpec: the bytes the library produces are the specification's bytes and decode, under the
// independent decoder, to the same value.
func c06LibToSpec(c *h.Ctx, bucket string, n *anode) {
	c06LibToSpecValue(c, bucket, n.build())
}

// c06LibToSpecValue: the same for a live value (whatever the application did to it since it was built).
func c06LibToSpecValue(c *h.Ctx, bucket string, a amf0.Amf0) {
	t := amfStr(a)
	out, cl := libMarshal(a)
	if !c.Hold(cl == "ok", "marshal_ok", "amf0.enc "+h.Trunc(t, 600), cl, "ok") {
		return
	}
	c.Eq("lib_to_spec.enc", "amf0.enc "+h.Trunc(t, 600), h.Trunc(h.Hex(out), 1500), h.Trunc(c.O.Call("amf0.enc", t), 1500))
	s := c.O.Call("amf0.tospec", t)
	specDec := c.O.Call("amf0.spec.dec", h.Hex(out))
	specEnc := c.O.Call("amf0.spec.enc", s)
	okAll := specDec == "ok "+s+" -" && specEnc == h.Hex(out)
	got := fmt.Sprintf("spec.dec=%s lib.bytes=%s", h.Trunc(specDec, 400), h.Trunc(h.Hex(out), 300))
	want := fmt.Sprintf("spec.dec=ok %s - lib.bytes=%s", h.Trunc(s, 400), h.Trunc(specEnc, 300))
	strictElems := false
	var walk func(x amf0.Amf0)
	walk = func(x amf0.Amf0) {
		props, _, ok := amf0.VerifProps(x)
		if !ok {
			return
		}
		if amf0.VerifKind(x) == 10 && len(props) > 0 {
			strictElems = true
		}
		for _, p := range props {
			walk(p.Value)
		}
	}
	walk(a)
	if strictElems {
		c.Hold(okAll, k1Clause, k1Prefix+h.Trunc(t, 400), got, want)
		c.Case(bucket+"/lib->spec/strict-elems(K1)", t, true)
		return
	}
	c.Hold(okAll, "lib_to_spec", "amf0.enc "+h.Trunc(t, 600), got, want)
	c.Case(bucket+"/lib->spec", t, true)
}

func c06(c *h.Ctx) {
	defer amfCheckRetained(c)
	r := c.R
	supported := map[int]bool{0: true, 1: true, 2: true, 3: true, 5: true, 6: true, 8: true, 10: true}

	// 1. all 256 marker bytes, exhaustively: top level and inside each container kind.
	tails := [][]byte{nil, {0}, {0, 0, 0, 0, 0, 0, 0, 0}, {0, 0, 9}, {0, 0, 0, 0, 0, 0, 9}, {0, 1, 'k', 5, 0, 0, 9},
		{0, 0, 0, 1, 0, 1, 'k', 5, 0, 0, 9}, {0xff, 0xff, 0xff, 0xff, 0xff, 0xff, 0xff, 0xff, 0xff}}
	for m := 0; m < 256; m++ {
		anyOK := false
		for ti, tail := range append(tails, r.Bytes(12)) {
			for ctx := 0; ctx < 4; ctx++ {
				var bs []byte
				switch ctx {
				case 0:
					bs = append([]byte{byte(m)}, tail...)
				case 1: // property of an object
					bs = append(append([]byte{3, 0, 1, 'p', byte(m)}, tail...), 0, 0, 9)
				case 2: // property of an ECMA array
					bs = append(append([]byte{8, 0, 0, 0, 1, 0, 1, 'p', byte(m)}, tail...), 0, 0, 9)
				default: // element of a strict array (library layout)
					bs = append([]byte{10, 0, 0, 0, 1, 0, 1, 'p', byte(m)}, tail...)
				}
				in := "amf0.dec " + h.Hex(bs)
				d := libDecode(bs)
				c.Eq("markers.dec", in, d.decLine(bs), c.O.Call("amf0.dec", h.Hex(bs)))
				c.Hold(d.class != "panic", "no_panic", in, d.class, "ok|err")
				if !supported[m] {
					// unsupported (and object-end out of place): an error, never skipped or mis-sized
					c.Hold(d.class == "err", "markers_total.unsupported_is_err", in, d.class, "err")
				} else if d.class == "ok" {
					anyOK = true
					v := d.val
					if ctx != 0 {
						props, _, _ := amf0.VerifProps(v)
						if len(props) >= 1 {
							v = props[0].Value
						}
					}
					c.Hold(int(amf0.VerifKind(v)) == m, "markers_total.kind", in, fmt.Sprint(amf0.VerifKind(v)), fmt.Sprint(m))
					c.Hold(d.val.Size() == d.consumed, "size_consumed", in, fmt.Sprint(d.val.Size()), fmt.Sprint(d.consumed))
				}
				c.Case(fmt.Sprintf("markers/ctx=%d/supported=%v/%s", ctx, supported[m], d.class), in, true)
			}
			_ = ti
		}
		if supported[m] {
			c.Hold(anyOK, "markers_total.supported_decodes", fmt.Sprintf("marker %d", m), "never ok", "ok for some tail")
		}
	}

	// 1b. the TYPED decoders (`(*String).UnmarshalBinary` … — what the RTMP packet decoders call for a command name, a
	// transaction id, a command object) given every marker byte: each accepts its own marker only; any other —
	// supported elsewhere or not (a long string where a string is expected) — is an error, never read under the
	// wrong layout and never mis-sized. When it accepts, the value and size are those of the generic decoder.
	{
		type typed struct {
			name   string
			marker int
			mk     func() amf0.Amf0
		}
		tds := []typed{
			{"String", 2, func() amf0.Amf0 { return amf0.NewString("") }},
			{"Number", 0, func() amf0.Amf0 { return amf0.NewNumber(0) }},
			{"Boolean", 1, func() amf0.Amf0 { return amf0.NewBoolean(false) }},
			{"Null", 5, func() amf0.Amf0 { return amf0.NewNull() }},
			{"Undefined", 6, func() amf0.Amf0 { return amf0.NewUndefined() }},
			{"Object", 3, func() amf0.Amf0 { return amf0.NewObject() }},
			{"EcmaArray", 8, func() amf0.Amf0 { return amf0.NewEcmaArray() }},
			{"StrictArray", 10, func() amf0.Amf0 { return amf0.NewStrictArray() }},
		}
		ttails := [][]byte{{0, 0, 0, 5, 'h', 'e', 'l', 'l', 'o'}, {0, 5, 'h', 'e', 'l', 'l', 'o'}, {0, 0, 0, 0, 0, 0, 0, 0}, {1}, {0, 0, 9},
			{0, 0, 0, 0, 0, 0, 9}, {0, 0, 0, 1, 0, 1, 'k', 5, 0, 0, 9}, {0, 1, 'k', 5, 0, 0, 9}}
		for _, td := range tds {
			for m := 0; m < 256; m++ {
				for _, tail := range ttails {
					bs := append([]byte{byte(m)}, tail...)
					in := fmt.Sprintf("amf0.%s.UnmarshalBinary %s", td.name, h.Hex(bs))
					v := td.mk()
					class := h.Safe(func() string {
						if err := v.UnmarshalBinary(bs); err != nil {
							return "err"
						}
						return "ok"
					})
					c.Hold(class != "panic" && !strings.HasPrefix(class, "panic"), "no_panic", in, class, "ok|err")
					if m != td.marker {
						c.Hold(class == "err", "markers_total.typed_decoder_refuses_other_markers", in, class, "err")
					} else if class == "ok" {
						d := libDecode(bs)
						same := d.class == "ok" && amfStr(d.val) == amfStr(v) && d.val.Size() == v.Size()
						c.Hold(same, "markers_total.typed_equals_generic", in, fmt.Sprintf("%s size %d", amfStr(v), v.Size()), d.decLine(bs))
					}
					c.Case(fmt.Sprintf("typed/%s/own=%v/%s", td.name, m == td.marker, class), in, true)
				}
			}
		}
	}

	// 2. the fixed strict-array witness of K1 and hand-written spec bytes (FFmpeg-style onMetaData message).
	{
		w := strictOf(num(0x3ff0000000000000))
		sb := c.O.Call("amf0.spec.enc", w.specText())
		c.Hold(sb == "0a00000001003ff0000000000000", "spec.enc.witness", "amf0.spec.enc "+w.specText(), sb, "0a00000001003ff0000000000000")
		c06SpecToLib(c, "witness", w)
		c06LibToSpec(c, "witness", container('t', 0, "", num(0x3ff0000000000000)))
		// a data message: "onMetaData" then an ECMA array, written by hand from the specification
		msg := h.UnHex("02000a6f6e4d65746144617461" + "0800000002" + "00086475726174696f6e" + "004024000000000000" + "00057769647468" + "004094000000000000" + "000009")
		c.Eq("spec.dec.handwritten", "amf0.spec.dec "+h.Hex(msg), c.O.Call("amf0.spec.dec", h.Hex(msg)), "ok s6f6e4d65746144617461 "+h.Hex(msg[13:]))
		d1 := libDecode(msg)
		ok1 := d1.class == "ok" && amfStr(d1.val) == "s6f6e4d65746144617461" && d1.val.Size() == 13
		c.Hold(ok1, "spec_to_lib", "handwritten onMetaData value 1", d1.decLine(msg), "ok 13 13 s6f6e4d65746144617461 …")
		if ok1 {
			rest := msg[d1.val.Size():]
			d2 := libDecode(rest)
			want := "ok 43 43 a2[6475726174696f6e=n4024000000000000,7769647468=n4094000000000000] -"
			c.Hold(d2.decLine(rest) == want, "spec_to_lib", "handwritten onMetaData value 2 (after advancing by Size())", d2.decLine(rest), want)
			c.Eq("spec.dec.handwritten", "amf0.spec.dec "+h.Hex(rest), c.O.Call("amf0.spec.dec", h.Hex(rest)), "ok a2[6475726174696f6e=n4024000000000000,7769647468=n4094000000000000] -")
		}
		c.Case("handwritten/onMetaData", h.Hex(msg), true)
	}

	// 2b. containers with MANY elements (the times / filepositions lists of FLV metadata have thousands of entries; the
	// count field is a U32). Objects and ECMA arrays: both directions against the specification. Strict arrays with
	// elements are finding K1 against the specification's layout; in the layout the library itself writes, the bytes it
	// produced must come back as all the elements, consumed to the last byte, and what follows the array in an enclosing
	// object must still be read as what it is ("never silently skipped or mis-sized").
	largeNs := []int{4097, 5000, 70000}
	if c.Thorough() {
		largeNs = []int{4095, 4096, 4097, 5000, 9000, 70000, 200000}
	}
	for _, n := range largeNs {
		// the model executable is compared up to 9000 elements (its list operations make it slow beyond that); the larger
		// sizes are checked on the implementation alone, against the hand-written bytes
		withOracle := n <= 9000
		kv := make([]interface{}, 0, 2*n)
		for i := 0; i < n; i++ {
			kv = append(kv, fmt.Sprintf("k%d", i), num(uint64(0x4000000000000000)+uint64(i)))
		}
		for _, kind := range []byte{'o', 'a'} {
			big := container(kind, uint32(n), kv...)
			if withOracle {
				c06SpecToLib(c, fmt.Sprintf("large/%c/%d", kind, n), big)
				c06LibToSpec(c, fmt.Sprintf("large/%c/%d", kind, n), big)
				continue
			}
			bs := big.wire(nil)
			id := fmt.Sprintf("container %c of %d elements, bytes written by hand from the specification", kind, n)
			d := libDecode(bs)
			got := d.class
			ok := false
			if d.class == "ok" {
				again, _ := libMarshal(d.val)
				ok = amfStr(d.val) == big.text() && d.consumed == len(bs) && d.val.Size() == len(bs) && bytes.Equal(again, bs)
				got = fmt.Sprintf("consumed=%d size=%d re-encoded=%d bytes", d.consumed, d.val.Size(), len(again))
			}
			c.Hold(ok, "spec_to_lib", id, got, fmt.Sprintf("consumed=%d size=%d re-encoded=%d bytes", len(bs), len(bs), len(bs)))
			c.Case(fmt.Sprintf("large/%c/%d", kind, n), id, true)
		}
		sa := container('t', uint32(n), kv...)
		outer := container('o', 0, "first", str("x"), "list", sa, "after", num(0x3ff0000000000000), "last", str("y"))
		for _, nd := range []*anode{sa, outer} {
			bs, cl := libMarshal(nd.build())
			id := fmt.Sprintf("strict array of %d elements in the library's layout (top level: %v), encoded by the library, decoded by the library", n, nd == sa)
			if !c.Hold(cl == "ok" && bytes.Equal(bs, nd.wire(nil)), "marshal_ok", id, cl, "ok, the hand-written bytes") {
				continue
			}
			d := libDecode(bs)
			got := d.class
			ok := false
			if d.class == "ok" {
				again, _ := libMarshal(d.val)
				ok = amfStr(d.val) == nd.text() && d.consumed == len(bs) && d.val.Size() == len(bs) && bytes.Equal(again, bs)
				got = fmt.Sprintf("consumed=%d size=%d re-encoded=%d bytes value=%s", d.consumed, d.val.Size(), len(again), h.Trunc(amfStr(d.val), 200))
			}
			c.Hold(ok, "lib_layout.large_strict_array", id, got, fmt.Sprintf("consumed=%d size=%d re-encoded=%d bytes value=%s", len(bs), len(bs), len(bs), h.Trunc(nd.text(), 200)))
			if withOracle {
				hx := h.Hex(bs)
				c.Eq("spec_to_lib.dec", "amf0.dec "+h.Trunc(hx, 300), h.Trunc(d.decLine(bs), 1500), h.Trunc(c.O.Call("amf0.dec", hx), 1500))
			}
			c.Case(fmt.Sprintf("large/t/%d", n), id, true)
		}
	}

	// 3. FFmpeg / Flash / yamdi-style metadata trees, both directions.
	for i, n := range metadataTrees(r) {
		c06SpecToLib(c, fmt.Sprintf("metadata/%d", i), n)
		c06LibToSpec(c, fmt.Sprintf("metadata/%d", i), n)
	}

	// 4. random trees, both directions; most without strict-array elements (the domain of C06_partial),
	// some with (the K1 class).
	nrand := c.N(1200, 30000)
	for i := 0; i < nrand; i++ {
		g := &amfGen{r: r, budget: r.Pick(1, 3, 8, 20, 60, 200), maxDep: r.Pick(1, 2, 3, 4, 6), bigOK: r.Chance(2), noStrEl: !r.Chance(12)}
		n := g.tree(0)
		c06SpecToLib(c, "random", n)
		g2 := &amfGen{r: r, budget: r.Pick(1, 3, 8, 20, 60, 200), maxDep: r.Pick(1, 2, 3, 4, 6), bigOK: r.Chance(2), noStrEl: !r.Chance(12)}
		c06LibToSpec(c, "random", g2.tree(0))
	}

	// 5. malformed / foreign input to the spec decoder vs the library: wherever BOTH decode a byte string
	// without strict-array elements they must agree on the value and on the bytes consumed.
	nmix := c.N(800, 20000)
	for i := 0; i < nmix; i++ {
		g := &amfGen{r: r, budget: r.Pick(2, 5, 12, 30), maxDep: r.Pick(1, 2, 3), noStrEl: true}
		w := g.tree(0).wire(nil)
		switch r.Intn(3) {
		case 0:
			if len(w) > 0 {
				w = w[:r.Intn(len(w)+1)]
			}
		case 1:
			if len(w) > 0 {
				w[r.Intn(len(w))] = byte(r.U64())
			}
		}
		in := "amf0.dec " + h.Hex(w)
		d := libDecode(w)
		sd := c.O.Call("amf0.spec.dec", h.Hex(w))
		c.Eq("mixed.dec", in, d.decLine(w), c.O.Call("amf0.dec", h.Hex(w)))
		cls := d.class + "/" + strings.Fields(sd)[0]
		if d.class == "ok" && strings.HasPrefix(sd, "ok ") {
			t := amfStr(d.val)
			if c.O.Call("amf0.compat", t) == "true" {
				want := "ok " + c.O.Call("amf0.tospec", t) + " " + h.Hex(w[d.consumed:])
				c.Hold(sd == want, "lib_and_spec_agree", in, h.Trunc(want, 600), h.Trunc(sd, 600))
			} else {
				cls += "/strict-elems"
			}
		} else if d.class == "ok" || strings.HasPrefix(sd, "ok ") {
			// one side decodes, the other does not: only legitimate when a strict array has elements (K1)
			t := ""
			if d.class == "ok" {
				t = amfStr(d.val)
			}
			strictInvolved := strings.Contains(t, "t[") && !strings.Contains(t, "t[]") || strings.Contains(sd, "v[") || bytes.Contains(w, []byte{10})
			c.Hold(strictInvolved, "lib_and_spec_agree", in, d.class, h.Trunc(sd, 300))
		}
		c.Case("mixed/"+cls, h.Hex(w), true)
	}
	// values that change AFTER they were marshalled: a nested container gets new properties, a *String / *Number inside
	// the tree is assigned in place; after every step the bytes the library produces are the specification's encoding of
	// the value as it is NOW (not of what it was when somebody last marshalled it)
	for i := 0; i < c.N(150, 3000); i++ {
		amfIncremental(c, func(stage string, root amf0.Amf0, nodes int) { c06LibToSpecValue(c, stage, root) })
	}

}
