package main

// C08 additions after seeded changes that the first driver missed:
//   * roots that themselves implement Unwrap() (net.OpError, os.PathError, fmt.Errorf("%w")): the root cause
//     recovered through the errors package must be EXACTLY the transport's error value, not something inside it;
//   * one-shot transport faults (a write fails once, later writes succeed — e.g. an expired deadline that is
//     then extended): the operation during which the fault fired must still report it.

import (
	"errors"
	"fmt"
	"io"
	"net"
	"os"
	"syscall"

	oe "github.com/ossrs/go-oryx-lib/errors"
	"github.com/ossrs/go-oryx-lib/flv"
	"github.com/ossrs/go-oryx-lib/rtmp"
	"verifharness/internal/h"
)

type oneShotWriter struct {
	calls  int
	failAt int
	accept int // bytes accepted by the failing call
	err    error
	fired  bool
	buf    []byte
}

func (w *oneShotWriter) Write(p []byte) (int, error) {
	w.calls++
	if w.calls-1 == w.failAt {
		w.fired = true
		n := w.accept
		if n > len(p) {
			n = len(p)
		}
		w.buf = append(w.buf, p[:n]...)
		return n, w.err
	}
	w.buf = append(w.buf, p...)
	return len(p), nil
}

func c08Extra(c *h.Ctx) {
	r := c.R
	// ---- roots with Unwrap()
	roots := []error{
		fmt.Errorf("transport: %w", io.ErrUnexpectedEOF),
		&net.OpError{Op: "read", Net: "tcp", Err: syscall.ECONNRESET},
		&os.PathError{Op: "write", Path: "/dev/null", Err: syscall.ENOSPC},
		&net.OpError{Op: "write", Net: "tcp", Err: os.NewSyscallError("write", syscall.EPIPE)},
		errors.Join(io.EOF, h.ErrInjected),
	}
	for ri, root := range roots {
		for n := 0; n < c.N(40, 400); n++ {
			e := root
			var msgs []string
			depth := r.Intn(6)
			for i := 0; i < depth; i++ {
				switch r.Intn(4) {
				case 0:
					e = oe.WithMessage(e, fmt.Sprintf("m%d", i))
					msgs = append([]string{fmt.Sprintf("m%d", i)}, msgs...)
				case 1:
					e = oe.WithStack(e)
				case 2:
					e = oe.Wrap(e, fmt.Sprintf("w%d", i))
					msgs = append([]string{fmt.Sprintf("w%d", i)}, msgs...)
				default:
					e = oe.Wrapf(e, "f%d-%s", i, "x")
					msgs = append([]string{fmt.Sprintf("f%d-x", i)}, msgs...)
				}
			}
			in := fmt.Sprintf("tower of %d layers over a root that has Unwrap(): %T", depth, root)
			got := oe.Cause(e)
			c.Hold(got == root, "tower.cause", in, fmt.Sprintf("%T %v", got, got), fmt.Sprintf("the root itself: %T %v", root, root))
			want := root.Error()
			for i := len(msgs) - 1; i >= 0; i-- {
				want = msgs[i] + ": " + want
			}
			c.Hold(e.Error() == want, "tower.message", in, e.Error(), want)
			c.Case(fmt.Sprintf("tower/unwrap-root-%d", ri), fmt.Sprintf("%s #%d", in, n), true)
		}
		// ... and the same roots as the transport's error under a real RTMP read and FLV read
		for cut := 0; cut < 40; cut++ {
			var wire []byte
			{
				wb := &oneShotWriter{failAt: -1}
				p := rtmp.NewProtocol(&h.RW{Writer: wb})
				p.WriteMessage(rtmp.VerifNewMessage(5, 9, 1, 0xFFFFFF, h.LCGBytes(150, 1)))
				wire = wb.buf
			}
			if cut > len(wire) {
				break
			}
			rd := &h.SegReader{Data: wire[:cut], R: r.Fork(), Mode: 1, End: root}
			p := rtmp.NewProtocol(&h.RW{Reader: rd, Writer: io.Discard})
			_, err := p.ReadMessage()
			in := fmt.Sprintf("rtmp read: transport fails with %T after %d bytes", root, cut)
			c.Hold(err != nil && oe.Cause(err) == root, "rtmp.cut.cause", in, fmt.Sprintf("%T %v", oe.Cause(err), err), "cause is exactly the transport's error")
			c.Case(fmt.Sprintf("rtmp/read/unwrap-root-%d", ri), in, true)
		}
	}

	// ---- one-shot write faults: FLV muxer
	type tag struct {
		ty   flv.TagType
		ts   uint32
		body []byte
	}
	tags := []tag{{flv.TagTypeVideo, 0, h.LCGBytes(30, 1)}, {flv.TagTypeAudio, 40, h.LCGBytes(1, 2)}, {flv.TagTypeScriptData, 1 << 24, nil}, {flv.TagTypeVideo, 80, h.LCGBytes(300, 3)}}
	// count the transport writes of a clean run
	clean := &oneShotWriter{failAt: -1}
	{
		m, _ := flv.NewMuxer(clean)
		m.WriteHeader(true, true)
		for _, t := range tags {
			m.WriteTag(t.ty, t.ts, t.body)
		}
	}
	for ci := 0; ci < clean.calls; ci++ {
		for _, accept := range []int{0, 3} {
			w := &oneShotWriter{failAt: ci, accept: accept, err: h.ErrInjected}
			m, _ := flv.NewMuxer(w)
			in := fmt.Sprintf("flv mux: transport write call %d of %d fails ONCE (accepting %d bytes), later writes succeed", ci, clean.calls, accept)
			before := w.fired
			err := m.WriteHeader(true, true)
			if w.fired && !before {
				c.Hold(err != nil && oe.Cause(err) == h.ErrInjected, "flv.wfault.oneshot", in+" [WriteHeader]", fmt.Sprint(err), "the injected error")
			}
			for ti, t := range tags {
				before = w.fired
				err := m.WriteTag(t.ty, t.ts, t.body)
				if w.fired && !before {
					c.Hold(err != nil && oe.Cause(err) == h.ErrInjected, "flv.wfault.oneshot", fmt.Sprintf("%s [WriteTag #%d]", in, ti), fmt.Sprint(err), "the injected error: an incompletely written tag is never reported as written")
				}
			}
			c.Case("flv/write/one-shot", in, true)
		}
	}
	// ---- one-shot write faults: RTMP writer (bufio.Writer keeps the first error: every later call fails too)
	cleanR := &oneShotWriter{failAt: -1}
	msgs := genSession(r.Fork(), 5, false)
	{
		p := rtmp.NewProtocol(&h.RW{Writer: cleanR})
		for _, m := range msgs {
			p.WriteMessage(rtmp.VerifNewMessage(m.cid, rtmp.MessageType(m.ty), m.sid, m.ts, m.payload))
		}
	}
	for ci := 0; ci < cleanR.calls; ci++ {
		w := &oneShotWriter{failAt: ci, accept: 1, err: h.ErrInjected}
		p := rtmp.NewProtocol(&h.RW{Writer: w})
		in := fmt.Sprintf("rtmp write: transport write call %d of %d fails once: write %s", ci, cleanR.calls, h.Trunc(rmsgsStr(msgs), 200))
		seen := false
		for mi, m := range msgs {
			before := w.fired
			err := p.WriteMessage(rtmp.VerifNewMessage(m.cid, rtmp.MessageType(m.ty), m.sid, m.ts, m.payload))
			if w.fired && !before {
				seen = true
				c.Hold(err != nil && oe.Cause(err) == h.ErrInjected, "rtmp.wfault.oneshot", fmt.Sprintf("%s [WriteMessage #%d]", in, mi), fmt.Sprint(err), "the injected error")
			} else if seen {
				c.Hold(err != nil, "rtmp.wfault.sticky", fmt.Sprintf("%s [WriteMessage #%d after the fault]", in, mi), fmt.Sprint(err), "an error (the stream is corrupt after a lost write)")
			}
		}
		c.Case("rtmp/write/one-shot", in, true)
	}
}
