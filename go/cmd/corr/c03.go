package main

// C03 — RTMP packets survive encode, wire and decode with the right type:
// implementation vs Lean model (Oryx.RtmpPkt) + the property predicates on the implementation
// (Size() = len(marshal), unmarshal(marshal) has equal fields and re-marshals identically, the kind
// arriving at the peer is the kind the protocol defines, a second _result for the same id is refused,
// a typed wait returns the first matching packet/message).
//
// Canonical packet text: see lean/Oracle/RtmpPkt.lean.

import (
	"io"
	"bytes"
	"encoding/hex"
	"fmt"
	"math"
	"sort"
	"strings"

	"github.com/ossrs/go-oryx-lib/amf0"
	"github.com/ossrs/go-oryx-lib/rtmp"
	"verifharness/internal/h"
)

func init() { register("C03", c03) }

var c03Kinds = []string{"connect", "connectRes", "createStream", "createStreamRes", "publish", "play", "call",
	"setChunkSize", "winAck", "setPeerBw", "userControl"}

func c03New(kind string) rtmp.Packet {
	switch kind {
	case "connect":
		return rtmp.NewConnectAppPacket()
	case "connectRes":
		return rtmp.NewConnectAppResPacket(0)
	case "createStream":
		return rtmp.NewCreateStreamPacket()
	case "createStreamRes":
		return rtmp.NewCreateStreamResPacket(0)
	case "publish":
		return rtmp.NewPublishPacket()
	case "play":
		return rtmp.NewPlayPacket()
	case "call":
		return rtmp.NewCallPacket()
	case "setChunkSize":
		return rtmp.NewSetChunkSize()
	case "winAck":
		return rtmp.NewWindowAcknowledgementSize()
	case "setPeerBw":
		return rtmp.NewSetPeerBandwidth()
	default:
		return rtmp.NewUserControl()
	}
}

func c03Kind(p rtmp.Packet) string {
	switch p.(type) {
	case *rtmp.ConnectAppPacket:
		return "connect"
	case *rtmp.ConnectAppResPacket:
		return "connectRes"
	case *rtmp.CreateStreamPacket:
		return "createStream"
	case *rtmp.CreateStreamResPacket:
		return "createStreamRes"
	case *rtmp.PublishPacket:
		return "publish"
	case *rtmp.PlayPacket:
		return "play"
	case *rtmp.CallPacket:
		return "call"
	case *rtmp.SetChunkSize:
		return "setChunkSize"
	case *rtmp.WindowAcknowledgementSize:
		return "winAck"
	case *rtmp.SetPeerBandwidth:
		return "setPeerBw"
	case *rtmp.UserControl:
		return "userControl"
	}
	return "?"
}

func c03Bits(n amf0.Number) uint64   { return math.Float64bits(float64(n)) }
func c03Num(bits uint64) amf0.Number { return amf0.Number(math.Float64frombits(bits)) }
func c03Tid(n amf0.Number) string    { return fmt.Sprintf("%016x", c03Bits(n)) }
func c03Str(s amf0.String) string {
	if len(s) == 0 {
		return "-"
	}
	return hex.EncodeToString([]byte(s))
}
func c03Opt(a amf0.Amf0) string {
	if a == nil {
		return "-"
	}
	return amfStr(a)
}
func c03OptObj(o *amf0.Object) string {
	if o == nil {
		return "-"
	}
	return amfStr(o)
}

// c03Text is the canonical text of a real packet (field values read from the real struct).
func c03Text(p rtmp.Packet) string {
	switch v := p.(type) {
	case *rtmp.ConnectAppPacket:
		return fmt.Sprintf("connect;%s;%s;%s;%s", c03Str(v.CommandName), c03Tid(v.TransactionID), amfStr(v.CommandObject), c03OptObj(v.Args))
	case *rtmp.ConnectAppResPacket:
		return fmt.Sprintf("connectRes;%s;%s;%s;%s", c03Str(v.CommandName), c03Tid(v.TransactionID), amfStr(v.CommandObject), c03OptObj(v.Args))
	case *rtmp.CreateStreamPacket:
		return fmt.Sprintf("createStream;%s;%s;%s", c03Str(v.CommandName), c03Tid(v.TransactionID), c03Opt(v.CommandObject))
	case *rtmp.CreateStreamResPacket:
		return fmt.Sprintf("createStreamRes;%s;%s;%s;%s", c03Str(v.CommandName), c03Tid(v.TransactionID), c03Opt(v.CommandObject), c03Tid(v.StreamID))
	case *rtmp.PublishPacket:
		return fmt.Sprintf("publish;%s;%s;%s;%s;%s", c03Str(v.CommandName), c03Tid(v.TransactionID), c03Opt(v.CommandObject), c03Str(v.StreamName), c03Str(v.StreamType))
	case *rtmp.PlayPacket:
		return fmt.Sprintf("play;%s;%s;%s;%s", c03Str(v.CommandName), c03Tid(v.TransactionID), c03Opt(v.CommandObject), c03Str(v.StreamName))
	case *rtmp.CallPacket:
		return fmt.Sprintf("call;%s;%s;%s;%s", c03Str(v.CommandName), c03Tid(v.TransactionID), c03Opt(v.CommandObject), c03Opt(v.Args))
	case *rtmp.SetChunkSize:
		return fmt.Sprintf("setChunkSize;%d", v.ChunkSize)
	case *rtmp.WindowAcknowledgementSize:
		return fmt.Sprintf("winAck;%d", v.AckSize)
	case *rtmp.SetPeerBandwidth:
		return fmt.Sprintf("setPeerBw;%d;%d", v.Bandwidth, uint8(v.LimitType))
	case *rtmp.UserControl:
		return fmt.Sprintf("userControl;%d;%d;%d", uint16(v.EventType), uint32(v.EventData), uint32(v.ExtraData))
	}
	return "?"
}

func c03OptWF(a amf0.Amf0) bool { return a == nil || goWF(a) }

// c03WF: the domain of the round-trip property computed on the real packet (independently of the model).
func c03WF(p rtmp.Packet) bool {
	objWF := func(name amf0.String, obj *amf0.Object, args *amf0.Object) bool {
		return len(name) <= 65535 && goWF(obj) && (args == nil || goWF(args))
	}
	varWF := func(name amf0.String, obj amf0.Amf0) bool { return len(name) <= 65535 && c03OptWF(obj) }
	switch v := p.(type) {
	case *rtmp.ConnectAppPacket:
		return objWF(v.CommandName, v.CommandObject, v.Args) && v.CommandName == "connect" && c03Bits(v.TransactionID) == 0x3ff0000000000000
	case *rtmp.ConnectAppResPacket:
		return objWF(v.CommandName, v.CommandObject, v.Args) && v.CommandName == "_result"
	case *rtmp.CreateStreamPacket:
		return varWF(v.CommandName, v.CommandObject)
	case *rtmp.CreateStreamResPacket:
		return varWF(v.CommandName, v.CommandObject) && v.CommandObject != nil
	case *rtmp.PublishPacket:
		return varWF(v.CommandName, v.CommandObject) && v.CommandObject != nil && len(v.StreamName) <= 65535 && len(v.StreamType) <= 65535
	case *rtmp.PlayPacket:
		return varWF(v.CommandName, v.CommandObject) && v.CommandObject != nil && len(v.StreamName) <= 65535
	case *rtmp.CallPacket:
		return varWF(v.CommandName, v.CommandObject) && c03OptWF(v.Args) && (v.CommandObject != nil || v.Args == nil)
	case *rtmp.SetChunkSize, *rtmp.WindowAcknowledgementSize, *rtmp.SetPeerBandwidth:
		return true
	case *rtmp.UserControl:
		if v.EventType == 0x1a && uint32(v.EventData) >= 256 {
			return false
		}
		if v.EventType != 3 && v.ExtraData != 0 {
			return false
		}
		return true
	}
	return false
}

// ---------- generators ----------

var c03TidBits = []uint64{
	0x3ff0000000000000, 0x4000000000000000, 0x4008000000000000, 0x4010000000000000, 0x4014000000000000, // 1..5
	0x0000000000000000, 0x8000000000000000, 0xbff0000000000000, // +0 -0 -1
	0x7ff8000000000000, 0x7ff8000000000001, 0xfff8000000000000, 0x7ff0000000000001, // NaNs
	0x7ff0000000000000, 0xfff0000000000000, // ±Inf
	0x7e37e43c8800759c, 0x0000000000000001, 0x3fe0000000000000, 0x433fffffffffffff, // 1e300, denormal, 0.5, 2^53-1
}

func c03GenTid(r *h.Rand) uint64 {
	switch {
	case r.Chance(45):
		return c03TidBits[r.Intn(5)]
	case r.Chance(70):
		return c03TidBits[r.Intn(len(c03TidBits))]
	}
	return r.U64()
}

var c03Names = []string{"connect", "createStream", "closeStream", "play", "pause", "onBWDone", "onStatus", "_result", "_error",
	"releaseStream", "FCPublish", "FCUnpublish", "publish", "|RtmpSampleAccess", "", "x", "Connect", "connect\x00", "_resul", "publish1"}

func c03GenStr(r *h.Rand, big bool) string {
	switch r.Intn(24) {
	case 0:
		return ""
	case 1:
		return string(r.Bytes(1 + r.Intn(5)))
	case 2:
		return strings.Repeat("s", r.Pick(255, 256, 257))
	case 3:
		if big {
			return string(h.LCGBytes(r.Pick(65534, 65535), uint32(r.Intn(1000))))
		}
	case 4:
		if big && r.Chance(30) {
			return string(h.LCGBytes(r.Pick(65536, 65537), uint32(r.Intn(1000)))) // not representable: outside the domain
		}
	}
	return []string{"live", "livestream", "oryx", "stream?vhost=a&token=b", "\x00", "héllo", "x"}[r.Intn(7)]
}

func c03GenName(r *h.Rand, def string, big bool) string {
	switch {
	case r.Chance(75):
		return def
	case r.Chance(85):
		return c03Names[r.Intn(len(c03Names))]
	}
	return c03GenStr(r, big)
}

func c03GenTree(r *h.Rand, big, api bool) *anode {
	g := &amfGen{r: r, budget: r.Pick(1, 2, 4, 8, 20), maxDep: r.Pick(1, 2, 3), bigOK: big && r.Chance(20), api: api}
	return g.tree(0)
}

func c03GenObject(r *h.Rand, big, api bool) *amf0.Object {
	g := &amfGen{r: r, budget: r.Pick(1, 2, 4, 8, 20), maxDep: r.Pick(1, 2, 3), bigOK: big && r.Chance(20), api: api}
	n := &anode{kind: 'o'}
	cnt := r.Pick(0, 1, 2, 3, 5)
	for i := 0; i < cnt && g.budget > 0; i++ {
		n.keys = append(n.keys, g.key())
		n.kids = append(n.kids, g.tree(1))
	}
	return n.build().(*amf0.Object)
}

// c03GenObj: the interface-typed command object / args: mostly null or an object, sometimes anything, sometimes absent.
func c03GenAny(r *h.Rand, absent int, big, api bool) amf0.Amf0 {
	switch {
	case r.Chance(absent):
		return nil
	case r.Chance(40):
		return amf0.NewNull()
	case r.Chance(50):
		return c03GenObject(r, big, api)
	}
	return c03GenTree(r, big, api).build()
}

var c03U32 = []uint32{0, 1, 2, 127, 128, 129, 255, 256, 4096, 65535, 65536, 1<<24 - 1, 1 << 24, 1<<31 - 1, 1 << 31, 1<<32 - 2, 1<<32 - 1, 0x01020304, 0xa1b2c3d4}

func c03GenU32(r *h.Rand) uint32 {
	if r.Chance(70) {
		return c03U32[r.Intn(len(c03U32))]
	}
	return uint32(r.U64())
}

// c03Gen builds a random packet of the kind through the public API. wfBias: percent of packets generated
// inside the well-formed domain (the rest may break the trailing-field rule, names, sizes).
func c03Gen(r *h.Rand, kind string, wfBias int, big bool) rtmp.Packet {
	wf := r.Chance(wfBias)
	api := !wf && r.Chance(30)
	absent := 0
	if !wf {
		absent = 30
	}
	switch kind {
	case "connect", "connectRes":
		var name string
		var tid uint64
		if kind == "connect" {
			name, tid = "connect", 0x3ff0000000000000
		} else {
			name, tid = "_result", c03GenTid(r)
		}
		if !wf {
			name, tid = c03GenName(r, name, big), c03GenTid(r)
		}
		obj := c03GenObject(r, big, api)
		var args *amf0.Object
		if r.Chance(40) {
			args = c03GenObject(r, big, api)
		}
		if kind == "connect" {
			p := rtmp.NewConnectAppPacket()
			p.CommandName, p.TransactionID, p.CommandObject, p.Args = amf0.String(name), c03Num(tid), obj, args
			return p
		}
		p := rtmp.NewConnectAppResPacket(c03Num(tid))
		p.CommandName, p.CommandObject, p.Args = amf0.String(name), obj, args
		return p
	case "createStream":
		p := rtmp.NewCreateStreamPacket()
		p.CommandName, p.TransactionID = amf0.String(c03GenName(r, "createStream", big)), c03Num(c03GenTid(r))
		p.CommandObject = c03GenAny(r, 20, big, api)
		return p
	case "createStreamRes":
		p := rtmp.NewCreateStreamResPacket(c03Num(c03GenTid(r)))
		p.CommandName = amf0.String(c03GenName(r, "_result", big))
		p.CommandObject = c03GenAny(r, absent, big, api)
		p.StreamID = c03Num(c03GenTid(r))
		return p
	case "publish":
		p := rtmp.NewPublishPacket()
		p.CommandName, p.TransactionID = amf0.String(c03GenName(r, "publish", big)), c03Num(c03GenTid(r))
		p.CommandObject = c03GenAny(r, absent, big, api)
		p.StreamName = amf0.String(c03GenStr(r, big))
		if r.Bool() {
			p.StreamType = amf0.String(c03GenStr(r, big))
		}
		return p
	case "play":
		p := rtmp.NewPlayPacket()
		p.CommandName, p.TransactionID = amf0.String(c03GenName(r, "play", big)), c03Num(c03GenTid(r))
		p.CommandObject = c03GenAny(r, absent, big, api)
		p.StreamName = amf0.String(c03GenStr(r, big))
		return p
	case "call":
		var p *rtmp.CallPacket
		if r.Chance(25) {
			p = rtmp.NewCloseStreamPacket()
		} else {
			p = rtmp.NewCallPacket()
			p.CommandName = amf0.String(c03GenName(r, c03Names[r.Intn(14)], big))
			p.CommandObject = c03GenAny(r, 25, big, api)
		}
		p.TransactionID = c03Num(c03GenTid(r))
		if p.CommandObject != nil || !wf {
			p.Args = c03GenAny(r, 50, big, api)
		}
		return p
	case "setChunkSize":
		p := rtmp.NewSetChunkSize()
		p.ChunkSize = c03GenU32(r)
		return p
	case "winAck":
		p := rtmp.NewWindowAcknowledgementSize()
		p.AckSize = c03GenU32(r)
		return p
	case "setPeerBw":
		p := rtmp.NewSetPeerBandwidth()
		p.Bandwidth, p.LimitType = c03GenU32(r), rtmp.LimitType(r.Pick(0, 1, 2, 3, 255, r.Intn(256)))
		return p
	default:
		p := rtmp.NewUserControl()
		p.EventType = rtmp.EventType(r.Pick(0, 1, 2, 3, 4, 5, 6, 7, 0x19, 0x1a, 0x1b, 0x1a00, 0x0300, 0xffff, r.Intn(65536)))
		c03FillUC(r, p, wf)
		return p
	}
}

func c03FillUC(r *h.Rand, p *rtmp.UserControl, wf bool) {
	p.EventData = int32(c03GenU32(r))
	if p.EventType == 0x1a && wf {
		p.EventData = int32(r.Pick(0, 1, 127, 128, 255, r.Intn(256)))
	}
	p.ExtraData = 0
	if p.EventType == 3 || !wf {
		p.ExtraData = int32(c03GenU32(r))
	}
}

func c03Marshal(p rtmp.Packet) (out []byte, class string) {
	class = h.Safe(func() string {
		b, err := p.MarshalBinary()
		if err != nil {
			return "err"
		}
		out = b
		return "ok"
	})
	if class == "ok" {
		keep("packet "+c03Kind(p), out)
	}
	return
}

// c03Unmarshal decodes into a freshly constructed packet of the kind; the result line has the shape of `rtmp.pkt.dec`.
func c03Unmarshal(kind string, data []byte) (rtmp.Packet, string) {
	var q rtmp.Packet
	line := h.Safe(func() string {
		x := c03New(kind)
		if err := x.UnmarshalBinary(data); err != nil {
			return "err"
		}
		q = x
		return "ok " + c03Text(x)
	})
	return q, line
}

const c03Cut = 1200

// c03Reused: one long-lived packet value per kind
var c03Reused = map[string]rtmp.Packet{}

// c03Codec runs every codec check for one packet.
func c03Codec(c *h.Ctx, bucket string, p rtmp.Packet) {
	kind := c03Kind(p)
	t := c03Text(p)
	in := "rtmp.pkt.enc " + h.Trunc(t, c03Cut)
	out, cl := c03Marshal(p)
	if !c.Hold(cl == "ok", "marshal_ok", in, cl, "ok") {
		return
	}
	size := p.Size()
	wf := c03WF(p)
	typ, cid := uint8(p.Type()), uint32(p.BetterCid())
	implEnc := fmt.Sprintf("%d %d %d %v %s", typ, cid, size, wf, h.Hex(out))
	c.Eq("enc", in, h.Trunc(implEnc, 3000), h.Trunc(c.O.Call("rtmp.pkt.enc", t), 3000))
	// property: marshalling yields exactly Size() bytes (every packet)
	c.Hold(len(out) == size, "marshal_len", in, fmt.Sprint(len(out)), fmt.Sprintf("Size()=%d", size))
	// property: protocol-defined message type and chunk stream of the kind
	wantTyp, wantCid := map[string]uint8{"setChunkSize": 1, "winAck": 5, "setPeerBw": 6, "userControl": 4}[kind], uint32(2)
	if wantTyp == 0 {
		wantTyp, wantCid = 20, 3
	}
	c.Hold(typ == wantTyp && cid == wantCid, "type_cid", in, fmt.Sprintf("%d/%d", typ, cid), fmt.Sprintf("%d/%d", wantTyp, wantCid))
	hx := h.Hex(out)
	din := fmt.Sprintf("rtmp.pkt.dec %s %s", kind, h.Trunc(hx, c03Cut))
	q, line := c03Unmarshal(kind, out)
	c.Eq("dec", din, h.Trunc(line, 3000), h.Trunc(c.O.Call("rtmp.pkt.dec", kind, hx), 3000))
	c.Hold(line != "panic", "decode_never_panics", din, line, "ok|err")
	// a REUSED packet value: one long-lived packet per kind is decoded into again and again (F29: a connect decoded into
	// a used ConnectAppPacket panicked); the result equals a fresh decode
	if q != nil {
		re := c03Reused[kind]
		if re == nil {
			re = c03New(kind)
			c03Reused[kind] = re
		}
		// compared on what a packet IS for the wire — its marshalled bytes and Size() — not on fields the decoded form does
		// not carry (the extra event data of a user control event without one)
		rline := h.Safe(func() string {
			if err := re.UnmarshalBinary(append([]byte(nil), out...)); err != nil {
				return "err"
			}
			b, cl := c03Marshal(re)
			return fmt.Sprintf("ok size %d %s %s", re.Size(), cl, h.Hex(b))
		})
		qb, qcl := c03Marshal(q)
		fresh := fmt.Sprintf("ok size %d %s %s", q.Size(), qcl, h.Hex(qb))
		c.Hold(rline == fresh, "unmarshal_marshal.reused_packet_equals_fresh", din+" into a packet value that earlier decodes had filled", h.Trunc(rline, 600), h.Trunc(fresh, 600))
		if !strings.HasPrefix(rline, "ok ") {
			delete(c03Reused, kind)
		}
	}
	if wf {
		// property: unmarshalling yields equal field values, the same Size(), and re-marshals identically
		if c.Hold(q != nil && line == "ok "+t, "unmarshal_marshal", in, h.Trunc(line, 1500), h.Trunc("ok "+t, 1500)) {
			again, cl2 := c03Marshal(q)
			c.Hold(cl2 == "ok" && bytes.Equal(again, out), "remarshal", in, h.Trunc(h.Hex(again), 600), h.Trunc(hx, 600))
			c.Hold(q.Size() == len(out), "size_after", in, fmt.Sprint(q.Size()), fmt.Sprint(len(out)))
		}
	} else if q != nil {
		// outside the domain: whatever decodes still re-marshals to Size() bytes
		again, cl2 := c03Marshal(q)
		c.Hold(cl2 == "ok" && len(again) == q.Size(), "marshal_len", din, fmt.Sprint(len(again)), fmt.Sprintf("Size()=%d", q.Size()))
	}
	c.Case(fmt.Sprintf("%s/%s,wf=%v", bucket, kind, wf), t, true)

	// the packet goes on being used after it was measured and marshalled: a property of its command object is
	// replaced by a value of another length, another one is added — Size() and MarshalBinary must describe the packet
	// as it is now (an application fills in connect parameters step by step and logs sizes in between)
	var objs []*amf0.Object
	switch x := p.(type) {
	case *rtmp.ConnectAppPacket:
		objs = []*amf0.Object{x.CommandObject, x.Args}
	case *rtmp.ConnectAppResPacket:
		objs = []*amf0.Object{x.CommandObject, x.Args}
	}
	for oi, o := range objs {
		if o == nil {
			continue
		}
		props, _, _ := amf0.VerifProps(o)
		key := "tcUrl"
		if len(props) > 0 {
			key = props[c.R.Intn(len(props))].Key
		}
		o.Set(key, amf0.NewString(strings.Repeat("v", 1+c.R.Intn(40))))
		again, cl3 := c03Marshal(p)
		c.Hold(cl3 == "ok" && len(again) == p.Size(), "marshal_len", in+" then Set("+key+", <other length>) on object "+fmt.Sprint(oi),
			fmt.Sprint(len(again)), fmt.Sprintf("Size()=%d", p.Size()))
		o.Set("added-"+fmt.Sprint(oi), amf0.NewNumber(float64(oi)))
		o.Set(key, amf0.NewNull())
		again, cl3 = c03Marshal(p)
		c.Hold(cl3 == "ok" && len(again) == p.Size(), "marshal_len", in+" then Set("+key+", …), Set(added, …), Set("+key+", null) on object "+fmt.Sprint(oi),
			fmt.Sprint(len(again)), fmt.Sprintf("Size()=%d", p.Size()))
	}
}

// ---------- dispatch ----------

// c03Table is the canonical text of the outstanding-transaction map.
func c03Table(p *rtmp.Protocol) string {
	m := rtmp.VerifTransactions(p)
	if len(m) == 0 {
		return "_"
	}
	type e struct {
		k uint64
		v string
	}
	var es []e
	for k, v := range m {
		es = append(es, e{math.Float64bits(k), v})
	}
	sort.Slice(es, func(i, j int) bool { return es[i].k < es[j].k })
	parts := make([]string, len(es))
	for i, x := range es {
		parts[i] = fmt.Sprintf("%016x=%s", x.k, c03Str(amf0.String(x.v)))
	}
	return strings.Join(parts, ",")
}

// c03Decode runs DecodeMessage on a message of the type with the payload; result line as `rtmp.dispatch` (without the table).
func c03Decode(p *rtmp.Protocol, typ uint8, payload []byte) (rtmp.Packet, string) {
	var q rtmp.Packet
	line := h.Safe(func() string {
		x, err := p.DecodeMessage(rtmp.VerifNewMessage(3, rtmp.MessageType(typ), 0, 0, payload))
		if err != nil {
			return "err"
		}
		q = x
		return "ok " + c03Text(x)
	})
	return q, line
}

// c03Spec: the kind the protocol defines for a command payload with that name, given the requests
// outstanding at the receiver (name by transaction-id bits; only positive ids are ever outstanding).
// "" = a response without an outstanding request (must be refused).
func c03Spec(name string, tid uint64, pending map[uint64]string) string {
	switch name {
	case "_result", "_error":
		req, ok := pending[tid]
		if !ok {
			return ""
		}
		switch req {
		case "connect":
			return "connectRes"
		case "createStream":
			return "createStreamRes"
		}
		return ""
	case "connect":
		return "connect"
	case "publish":
		return "publish"
	}
	return "call"
}

func c03Positive(bits uint64) bool {
	f := math.Float64frombits(bits)
	return f > 0
}

// c03NameTid extracts command name and transaction id of a command packet.
func c03NameTid(p rtmp.Packet) (string, uint64, bool) {
	switch v := p.(type) {
	case *rtmp.ConnectAppPacket:
		return string(v.CommandName), c03Bits(v.TransactionID), true
	case *rtmp.ConnectAppResPacket:
		return string(v.CommandName), c03Bits(v.TransactionID), true
	case *rtmp.CreateStreamPacket:
		return string(v.CommandName), c03Bits(v.TransactionID), true
	case *rtmp.CreateStreamResPacket:
		return string(v.CommandName), c03Bits(v.TransactionID), true
	case *rtmp.PublishPacket:
		return string(v.CommandName), c03Bits(v.TransactionID), true
	case *rtmp.PlayPacket:
		return string(v.CommandName), c03Bits(v.TransactionID), true
	case *rtmp.CallPacket:
		return string(v.CommandName), c03Bits(v.TransactionID), true
	}
	return "", 0, false
}

// endpoint of a session: a real Protocol, the spec's view of its outstanding requests.
type c03End struct {
	p       *rtmp.Protocol
	out     *bytes.Buffer
	pending map[uint64]string
}

var c03PairN int

// c03Pieces returns at most n bytes per Read.
type c03Pieces struct {
	r io.Reader
	n int
}

func (p *c03Pieces) Read(b []byte) (int, error) {
	if len(b) > p.n {
		b = b[:p.n]
	}
	return p.r.Read(b)
}

func c03Pair() (a, b *c03End) {
	ab, ba := &bytes.Buffer{}, &bytes.Buffer{}
	a = &c03End{out: ab, pending: map[uint64]string{}}
	b = &c03End{out: ba, pending: map[uint64]string{}}
	// every other pair reads through a transport that hands the bytes over in small pieces (a chunk header may arrive in
	// two reads, as it does on a socket and at the refill boundary of a buffered reader)
	c03PairN++
	var ra, rb io.Reader = ba, ab
	if c03PairN%2 == 0 {
		ra, rb = &c03Pieces{r: ba, n: 1 + c03PairN%5}, &c03Pieces{r: ab, n: 1 + c03PairN%7}
	}
	a.p = rtmp.NewProtocol(&h.RW{Reader: ra, Writer: ab})
	b.p = rtmp.NewProtocol(&h.RW{Reader: rb, Writer: ba})
	return
}

// send writes the packet with WritePacket and checks the registration against model and spec.
func (e *c03End) send(c *h.Ctx, pk rtmp.Packet, sid int, who string) bool {
	t := c03Text(pk)
	before := c03Table(e.p)
	in := fmt.Sprintf("rtmp.pkt.written %s %s", before, h.Trunc(t, c03Cut))
	st := h.Safe(func() string {
		if err := e.p.WritePacket(pk, sid); err != nil {
			return "err"
		}
		return "ok"
	})
	if !c.Hold(st == "ok", "write_packet", who+" "+in, st, "ok") {
		return false
	}
	c.Eq("written", in, c03Table(e.p), c.O.Call("rtmp.pkt.written", before, t))
	// spec: connect / createStream requests with a positive id and a name are outstanding from now on
	switch pk.(type) {
	case *rtmp.ConnectAppPacket, *rtmp.CreateStreamPacket:
		if name, tid, _ := c03NameTid(pk); c03Positive(tid) && name != "" {
			e.pending[tid] = name
		}
	}
	specTbl := c03SpecTable(e.pending)
	c.Hold(c03Table(e.p) == specTbl, "registered_iff_positive", in, c03Table(e.p), specTbl)
	return true
}

func c03SpecTable(pending map[uint64]string) string {
	if len(pending) == 0 {
		return "_"
	}
	var ks []uint64
	for k := range pending {
		ks = append(ks, k)
	}
	sort.Slice(ks, func(i, j int) bool { return ks[i] < ks[j] })
	parts := make([]string, len(ks))
	for i, k := range ks {
		parts[i] = fmt.Sprintf("%016x=%s", k, c03Str(amf0.String(pending[k])))
	}
	return strings.Join(parts, ",")
}

// recv reads one message from the peer and decodes it; pk is what the peer wrote. Checks model + property.
func (e *c03End) recv(c *h.Ctx, pk rtmp.Packet, sid int, who string) {
	want, _ := c03Marshal(pk)
	t := c03Text(pk)
	var m *rtmp.Message
	st := h.Safe(func() string {
		x, err := e.p.ReadMessage()
		if err != nil {
			return h.ErrClass(err)
		}
		m = x
		return "ok"
	})
	in0 := fmt.Sprintf("%s: peer WritePacket(%s, %d); ReadMessage", who, h.Trunc(t, c03Cut), sid)
	if !c.Hold(st == "ok", "wire.read", in0, st, "ok") {
		return
	}
	cid, typ, msid, ts, _ := rtmp.VerifMessageFields(m)
	c.Hold(bytes.Equal(m.Payload, want) && uint8(typ) == uint8(pk.Type()) && cid == uint32(pk.BetterCid()) && msid == uint32(sid) && ts == 0,
		"wire.message", in0, fmt.Sprintf("%d.%d.%d.%d.%s", cid, typ, msid, ts, h.Trunc(h.Hex(m.Payload), 300)),
		fmt.Sprintf("%d.%d.%d.0.%s", uint32(pk.BetterCid()), uint8(pk.Type()), uint32(sid), h.Trunc(h.Hex(want), 300)))
	before := c03Table(e.p)
	hx := h.Hex(m.Payload)
	in := fmt.Sprintf("rtmp.dispatch %s %d %s", before, uint8(typ), h.Trunc(hx, c03Cut))
	var q rtmp.Packet
	line := h.Safe(func() string {
		x, err := e.p.DecodeMessage(m)
		if err != nil {
			return "err"
		}
		q = x
		return "ok " + c03Text(x)
	})
	after := c03Table(e.p)
	c.Eq("dispatch", in, h.Trunc(line+" "+after, 3000), h.Trunc(c.O.Call("rtmp.dispatch", before, fmt.Sprint(uint8(typ)), hx), 3000))
	c.Hold(line != "panic", "decode_never_panics", in, line, "ok|err")
	// the property on the implementation
	kind := c03Kind(pk)
	name, tid, isCmd := c03NameTid(pk)
	spec := kind
	if isCmd {
		spec = c03Spec(name, tid, e.pending)
		if name == "_result" || name == "_error" {
			if _, ok := e.pending[tid]; ok {
				delete(e.pending, tid) // consumed by this response, whatever its body
			}
		}
	}
	pin := fmt.Sprintf("%s: %s arrives with outstanding %s", who, h.Trunc(t, c03Cut), before)
	// the round-trip claim is about packets as the library constructs them: well formed, named as their kind
	claim := c03WF(pk) && c03Proto(pk) && (spec == kind || (spec == "call" && (kind == "play" || kind == "createStream")))
	if spec == "" {
		// a response without an outstanding request is an error, never a guess (also: the second _result of an id)
		c.Hold(line == "err", "result_once", pin, h.Trunc(line, 300), "err")
	} else if q != nil {
		c.Hold(c03Kind(q) == spec, "wire_dispatch.kind", pin, c03Kind(q), spec)
		if claim {
			again, _ := c03Marshal(q)
			c.Hold(bytes.Equal(again, want), "wire_dispatch.remarshal", pin, h.Trunc(h.Hex(again), 600), h.Trunc(h.Hex(want), 600))
			if spec == kind {
				c.Hold(c03Text(q) == t, "wire_dispatch.fields", pin, h.Trunc(c03Text(q), 1200), h.Trunc(t, 1200))
			}
		}
	} else if claim {
		c.Hold(false, "wire_dispatch.decodes", pin, line, "ok "+spec)
	}
	specTbl := c03SpecTable(e.pending)
	c.Hold(after == specTbl, "consume_once", pin, after, specTbl)
}

// c03Proto: the command name is the one the packet's constructor sets (a generic call: any name the
// dispatch table leaves generic).
func c03Proto(pk rtmp.Packet) bool {
	name, _, isCmd := c03NameTid(pk)
	if !isCmd {
		return true
	}
	switch c03Kind(pk) {
	case "connect":
		return name == "connect"
	case "connectRes", "createStreamRes":
		return name == "_result"
	case "createStream":
		return name == "createStream"
	case "publish":
		return name == "publish"
	case "play":
		return name == "play"
	}
	return name != "connect" && name != "publish" && name != "_result" && name != "_error"
}

// c03Canon gives a command packet the name of its kind (a generic call: a name the table leaves generic).
func c03Canon(r *h.Rand, pk rtmp.Packet) {
	switch v := pk.(type) {
	case *rtmp.CreateStreamPacket:
		v.CommandName = "createStream"
	case *rtmp.PublishPacket:
		v.CommandName = "publish"
	case *rtmp.PlayPacket:
		v.CommandName = "play"
	case *rtmp.CallPacket:
		v.CommandName = amf0.String([]string{"closeStream", "onStatus", "pause", "releaseStream", "FCPublish", "onBWDone", "x"}[r.Intn(7)])
	}
}

func c03MsgText(pk rtmp.Packet, sid int) string {
	out, _ := c03Marshal(pk)
	return fmt.Sprintf("%d.%d.%d.0.%s", uint32(pk.BetterCid()), uint8(pk.Type()), uint32(sid), h.Hex(out))
}

// c03Expect: typed wait on endpoint e for the packets the peer wrote (pks); returns the impl line `ok idx TEXT` / err.
func c03Expect(e *c03End, kind string, pks []rtmp.Packet) string {
	return h.Safe(func() string {
		var m *rtmp.Message
		var q rtmp.Packet
		var err error
		switch kind {
		case "connect":
			var x *rtmp.ConnectAppPacket
			m, err = e.p.ExpectPacket(&x)
			q = x
		case "connectRes":
			var x *rtmp.ConnectAppResPacket
			m, err = e.p.ExpectPacket(&x)
			q = x
		case "createStream":
			var x *rtmp.CreateStreamPacket
			m, err = e.p.ExpectPacket(&x)
			q = x
		case "createStreamRes":
			var x *rtmp.CreateStreamResPacket
			m, err = e.p.ExpectPacket(&x)
			q = x
		case "publish":
			var x *rtmp.PublishPacket
			m, err = e.p.ExpectPacket(&x)
			q = x
		case "play":
			var x *rtmp.PlayPacket
			m, err = e.p.ExpectPacket(&x)
			q = x
		case "call":
			var x *rtmp.CallPacket
			m, err = e.p.ExpectPacket(&x)
			q = x
		case "setChunkSize":
			var x *rtmp.SetChunkSize
			m, err = e.p.ExpectPacket(&x)
			q = x
		case "winAck":
			var x *rtmp.WindowAcknowledgementSize
			m, err = e.p.ExpectPacket(&x)
			q = x
		case "setPeerBw":
			var x *rtmp.SetPeerBandwidth
			m, err = e.p.ExpectPacket(&x)
			q = x
		default:
			var x *rtmp.UserControl
			m, err = e.p.ExpectPacket(&x)
			q = x
		}
		if err != nil {
			return h.ErrClass(err)
		}
		return "ok " + c03Text(q) + " " + h.Hex(m.Payload)
	})
}

// remaining counts the messages the peer wrote that e has not read yet.
func (e *c03End) remaining() int {
	n := 0
	for {
		st := h.Safe(func() string {
			if _, err := e.p.ReadMessage(); err != nil {
				return "err"
			}
			return "ok"
		})
		if st != "ok" {
			return n
		}
		n++
	}
}

func c03(c *h.Ctx) {
	r := c.R
	defer keptCheck(c, "marshal.bytes_not_aliased")
	// 0. regression: F20 — a call packet that ends after the transaction id (no command object) made
	// publish / play / createStream-response decoding slice out of range.
	for _, x := range []struct{ kind, hx string }{
		{"publish", "0200077075626c697368000000000000000000"},
		{"play", "020004706c6179000000000000000000"},
		{"createStreamRes", "0200075f726573756c74004000000000000000"},
		{"call", "020004706c6179000000000000000000"},
		{"createStream", "02000c63726561746553747265616d004000000000000000"},
	} {
		bs := h.UnHex(x.hx)
		in := fmt.Sprintf("rtmp.pkt.dec %s %s", x.kind, x.hx)
		q, line := c03Unmarshal(x.kind, bs)
		c.Hold(line != "panic", "decode_never_panics", in, line, "ok|err")
		c.Eq("dec", in, line, c.O.Call("rtmp.pkt.dec", x.kind, x.hx))
		if q != nil {
			c.Hold(q.Size() == len(bs), "size_consumed", in, fmt.Sprint(q.Size()), fmt.Sprint(len(bs)))
		}
		c.Case("corpus/F20", in, true)
	}
	{
		// the same over the wire: publish truncated after the transaction id, decoded by the peer
		a, b := c03Pair()
		m := rtmp.VerifNewMessage(5, 20, 1, 0, h.UnHex("0200077075626c697368000000000000000000"))
		a.p.WriteMessage(m)
		line := h.Safe(func() string {
			rm, err := b.p.ReadMessage()
			if err != nil {
				return "read-" + h.ErrClass(err)
			}
			if _, err = b.p.DecodeMessage(rm); err != nil {
				return "err"
			}
			return "ok"
		})
		in := "rtmp.dispatch _ 20 0200077075626c697368000000000000000000"
		c.Hold(line != "panic", "decode_never_panics", in, line, "ok|err")
		c.Eq("dispatch", in, line+" _", c.O.Call("rtmp.dispatch", "_", "20", "0200077075626c697368000000000000000000"))
		c.Case("corpus/F20", "wire", true)
	}

	// 1. codec: random packets of every kind through the public API.
	ncodec := c.N(1300, 40000)
	for i := 0; i < ncodec; i++ {
		kind := c03Kinds[r.Intn(7)] // command packets; control packets have their own sweeps
		if r.Chance(8) {
			kind = c03Kinds[7+r.Intn(4)]
		}
		p := c03Gen(r, kind, 70, r.Chance(4))
		c03Codec(c, "codec", p)
	}

	// 2. user control: every event type (thorough) / boundaries + sample (quick), 1-, 4- and 8-byte bodies by the protocol rule.
	var evts []int
	if c.Thorough() {
		for e := 0; e < 65536; e++ {
			evts = append(evts, e)
		}
	} else {
		for e := 0; e < 64; e++ {
			evts = append(evts, e)
		}
		evts = append(evts, 0x19, 0x1a, 0x1b, 0xff, 0x100, 0x11a, 0x1a00, 0x1a1a, 0x0300, 0x0303, 0x7fff, 0x8000, 0x8003, 0x801a, 0xfffe, 0xffff)
		for i := 0; i < 500; i++ {
			evts = append(evts, r.Intn(65536))
		}
	}
	for _, e := range evts {
		p := rtmp.NewUserControl()
		p.EventType = rtmp.EventType(e)
		c03FillUC(r, p, true)
		out, _ := c03Marshal(p)
		wantLen := 2 + 4
		if e == 0x1a {
			wantLen = 2 + 1
		} else if e == 3 {
			wantLen = 2 + 8
		}
		in := "rtmp.pkt.enc " + c03Text(p)
		c.Hold(len(out) == wantLen && p.Size() == wantLen, "userControl_all_events.size", in, fmt.Sprintf("len=%d Size()=%d", len(out), p.Size()), fmt.Sprint(wantLen))
		c03Codec(c, "usercontrol", p)
	}

	// 3. control packets: all uint32 boundary values × limit types.
	for _, v := range c03U32 {
		a := rtmp.NewSetChunkSize()
		a.ChunkSize = v
		c03Codec(c, "control", a)
		b := rtmp.NewWindowAcknowledgementSize()
		b.AckSize = v
		c03Codec(c, "control", b)
		for _, l := range []int{0, 1, 2, 3, 127, 128, 255} {
			d := rtmp.NewSetPeerBandwidth()
			d.Bandwidth, d.LimitType = v, rtmp.LimitType(l)
			c03Codec(c, "control", d)
		}
	}

	// 4. malformed stream against every decoder: truncations at every offset, mutations, splices, random bytes.
	nmal := c.N(500, 10000)
	for i := 0; i < nmal; i++ {
		src := c03Gen(r, c03Kinds[r.Intn(len(c03Kinds))], 80, false)
		enc, _ := c03Marshal(src)
		kind := c03Kind(src)
		if r.Chance(25) {
			kind = c03Kinds[r.Intn(len(c03Kinds))] // decode as another kind
		}
		var inputs [][]byte
		switch r.Intn(5) {
		case 0: // every truncation of a short encoding
			if len(enc) <= 80 {
				for k := 0; k <= len(enc); k++ {
					inputs = append(inputs, enc[:k])
				}
			} else {
				for j := 0; j < 20; j++ {
					inputs = append(inputs, enc[:r.Intn(len(enc)+1)])
				}
			}
		case 1: // single-byte mutations
			for j := 0; j < 12 && len(enc) > 0; j++ {
				m := append([]byte{}, enc...)
				m[r.Intn(len(m))] = byte(r.Pick(0, 1, 2, 3, 5, 6, 8, 9, 10, 0xff, r.Intn(256)))
				inputs = append(inputs, m)
			}
		case 2: // trailing bytes
			for j := 0; j < 4; j++ {
				inputs = append(inputs, append(append([]byte{}, enc...), [][]byte{{0}, {5}, {3, 0, 0, 9}, {2, 0, 1, 'x'}, {0, 0, 9}, r.Bytes(1 + r.Intn(12))}[r.Intn(6)]...))
			}
		case 3: // random bytes
			for j := 0; j < 8; j++ {
				inputs = append(inputs, r.Bytes(r.Intn(24)))
			}
		default: // splice two encodings
			other, _ := c03Marshal(c03Gen(r, c03Kinds[r.Intn(len(c03Kinds))], 80, false))
			inputs = append(inputs, append(append([]byte{}, enc[:r.Intn(len(enc)+1)]...), other[r.Intn(len(other)+1):]...))
		}
		for _, bs := range inputs {
			hx := h.Hex(bs)
			in := fmt.Sprintf("rtmp.pkt.dec %s %s", kind, h.Trunc(hx, c03Cut))
			q, line := c03Unmarshal(kind, bs)
			c.Eq("dec", in, h.Trunc(line, 3000), h.Trunc(c.O.Call("rtmp.pkt.dec", kind, hx), 3000))
			c.Hold(line != "panic", "decode_never_panics", in, line, "ok|err")
			if q != nil {
				again, cl := c03Marshal(q)
				c.Hold(cl == "ok" && len(again) == q.Size(), "marshal_len", in, fmt.Sprint(len(again)), fmt.Sprintf("Size()=%d", q.Size()))
				c.Hold(q.Size() <= len(bs), "size_consumed", in, fmt.Sprint(q.Size()), fmt.Sprintf("<=%d", len(bs)))
			}
			cls := line
			if strings.HasPrefix(line, "ok") {
				cls = "ok"
			}
			c.Case(fmt.Sprintf("malformed/%s,%s", kind, cls), kind+" "+hx, true)
		}
	}

	// 5. DecodeMessage on arbitrary (type, payload, table) triples.
	ndisp := c.N(700, 15000)
	for i := 0; i < ndisp; i++ {
		e, _ := c03Pair()
		// outstanding requests registered the real way
		nreq := r.Pick(0, 0, 1, 2, 3)
		type reqT struct {
			tid     uint64
			connect bool
		}
		var reqs []reqT
		for j := 0; j < nreq; j++ {
			var pk rtmp.Packet
			if r.Bool() {
				x := rtmp.NewConnectAppPacket()
				x.TransactionID = c03Num(c03GenTid(r))
				if r.Chance(10) {
					x.CommandName = amf0.String(c03Names[r.Intn(len(c03Names))])
				}
				pk = x
			} else {
				x := rtmp.NewCreateStreamPacket()
				x.TransactionID = c03Num(c03GenTid(r))
				if r.Chance(10) {
					x.CommandName = amf0.String(c03Names[r.Intn(len(c03Names))])
				}
				pk = x
			}
			e.send(c, pk, 0, "dispatch-setup")
			_, tid, _ := c03NameTid(pk)
			_, isConnect := pk.(*rtmp.ConnectAppPacket)
			reqs = append(reqs, reqT{tid, isConnect})
		}
		src := c03Gen(r, c03Kinds[r.Intn(len(c03Kinds))], 80, false)
		if r.Chance(40) { // a response: mostly to one of the requests, with the matching layout
			tid, asConnect := c03GenTid(r), r.Bool()
			if len(reqs) > 0 && r.Chance(75) {
				q := reqs[r.Intn(len(reqs))]
				tid = q.tid
				if r.Chance(85) {
					asConnect = q.connect
				}
			}
			x := rtmp.NewCreateStreamResPacket(c03Num(tid))
			x.StreamID = c03Num(c03GenTid(r))
			src = x
			if asConnect {
				y := rtmp.NewConnectAppResPacket(c03Num(tid))
				y.CommandObject = c03GenObject(r, false, false)
				src = y
			}
			if r.Chance(15) {
				if y, ok := src.(*rtmp.CreateStreamResPacket); ok {
					y.CommandName = "_error"
				}
			}
		}
		payload, _ := c03Marshal(src)
		typ := uint8(src.Type())
		switch r.Intn(10) {
		case 0:
			typ = uint8(r.Pick(1, 2, 3, 4, 5, 6, 7, 8, 9, 15, 17, 18, 20, 22, 0, 255, r.Intn(256)))
		case 1, 2: // AMF3 command / data: one byte before the AMF0 body
			if typ == 20 {
				typ = uint8(r.Pick(17, 15))
				payload = append([]byte{byte(r.Pick(0, 0, 3, 17))}, payload...)
			}
		case 3:
			if typ == 20 {
				typ = 18 // AMF0 data
			}
		case 4:
			payload = payload[:r.Intn(len(payload)+1)]
		case 5:
			if len(payload) > 0 {
				payload = append([]byte{}, payload...)
				payload[r.Intn(len(payload))] ^= byte(1 << uint(r.Intn(8)))
			}
		}
		before := c03Table(e.p)
		hx := h.Hex(payload)
		in := fmt.Sprintf("rtmp.dispatch %s %d %s", before, typ, h.Trunc(hx, c03Cut))
		q, line := c03Decode(e.p, typ, payload)
		after := c03Table(e.p)
		c.Eq("dispatch", in, h.Trunc(line+" "+after, 3000), h.Trunc(c.O.Call("rtmp.dispatch", before, fmt.Sprint(typ), hx), 3000))
		c.Hold(line != "panic", "decode_never_panics", in, line, "ok|err")
		if q != nil {
			again, cl := c03Marshal(q)
			c.Hold(cl == "ok" && len(again) == q.Size(), "marshal_len", in, fmt.Sprint(len(again)), fmt.Sprintf("Size()=%d", q.Size()))
			// a second identical response is refused: the transaction was consumed
			if k := c03Kind(q); k == "connectRes" || k == "createStreamRes" {
				_, line2 := c03Decode(e.p, typ, payload)
				c.Hold(line2 == "err", "result_once", in+" ; again", h.Trunc(line2, 200), "err")
			}
		}
		cls := line
		if q != nil {
			cls = "ok-" + c03Kind(q)
		}
		c.Case(fmt.Sprintf("dispatch/type=%d,reqs=%d,%s", typ, nreq, cls), in, true)
	}

	// 6. two-endpoint sessions: A and B over an in-memory duplex; requests, responses (duplicate, missing,
	// reordered ids), commands and control traffic in both directions.
	nsess := c.N(120, 3000)
	for s := 0; s < nsess; s++ {
		a, b := c03Pair()
		ends := [2]*c03End{a, b}
		names := [2]string{"A", "B"}
		steps := 4 + r.Intn(14)
		var sent [2][]uint64 // request ids each side has sent (for building responses)
		var log []string
		for st := 0; st < steps; st++ {
			d := r.Intn(2)
			snd, rcv := ends[d], ends[1-d]
			var pk rtmp.Packet
			switch r.Intn(12) {
			case 0, 1: // connect request (transaction id 1, sometimes another)
				x := rtmp.NewConnectAppPacket()
				x.CommandObject = c03GenObject(r, false, false)
				if r.Chance(30) {
					x.Args = c03GenObject(r, false, false)
				}
				if r.Chance(20) {
					x.TransactionID = c03Num(c03GenTid(r))
				}
				pk = x
				sent[d] = append(sent[d], c03Bits(x.TransactionID))
			case 2, 3: // createStream request
				x := rtmp.NewCreateStreamPacket()
				x.TransactionID = c03Num(c03GenTid(r))
				pk = x
				sent[d] = append(sent[d], c03Bits(x.TransactionID))
			case 4, 5, 6: // a response to something the peer asked (or not: duplicate / missing / reordered ids)
				tid := c03GenTid(r)
				if n := len(sent[1-d]); n > 0 && r.Chance(80) {
					tid = sent[1-d][r.Intn(n)]
				}
				if r.Bool() {
					x := rtmp.NewCreateStreamResPacket(c03Num(tid))
					x.StreamID = c03Num(c03GenTid(r))
					if r.Chance(10) {
						x.CommandName = "_error"
					}
					pk = x
				} else {
					x := rtmp.NewConnectAppResPacket(c03Num(tid))
					x.CommandObject = c03GenObject(r, false, false)
					if r.Chance(30) {
						x.Args = c03GenObject(r, false, false)
					}
					pk = x
				}
			case 7:
				pk = c03Gen(r, "publish", 100, r.Chance(3))
			case 8:
				pk = c03Gen(r, "play", 100, false)
			case 9:
				pk = c03Gen(r, "call", 100, false)
			default:
				pk = c03Gen(r, c03Kinds[7+r.Intn(4)], 100, false)
				if x, ok := pk.(*rtmp.SetChunkSize); ok {
					x.ChunkSize = uint32(r.Pick(1, 2, 64, 128, 129, 4096, 65536, 1<<31-1))
				}
			}
			sid := r.Pick(0, 0, 1, 5)
			who := fmt.Sprintf("session %d step %d %s->%s", s, st, names[d], names[1-d])
			log = append(log, names[d]+":"+c03Kind(pk))
			if !snd.send(c, pk, sid, who) {
				break
			}
			rcv.recv(c, pk, sid, who)
		}
		c.Case(fmt.Sprintf("session/steps=%s", cls(steps)), strings.Join(log, ","), true)
	}

	// 6b. many requests outstanding at once (a client that pipelines its createStream calls): N requests with
	// distinct ids first, then the answers in a shuffled order, some twice. No bound on N is part of the property.
	nburst := c.N(12, 200)
	for s := 0; s < nburst; s++ {
		a, b := c03Pair()
		n := r.Pick(2, 17, 31, 32, 33, 34, 40, 63, 64, 65, 100, 129, 257, 20+r.Intn(300))
		if !c.Thorough() && s >= 8 {
			n = 2 + r.Intn(80)
		}
		var tids []uint64
		seen := map[uint64]bool{}
		alive := true
		if r.Bool() {
			x := rtmp.NewConnectAppPacket()
			x.CommandObject = c03GenObject(r, false, false)
			tids, seen[c03Bits(x.TransactionID)] = append(tids, c03Bits(x.TransactionID)), true
			alive = a.send(c, x, 0, fmt.Sprintf("burst %d connect", s))
			if alive {
				b.recv(c, x, 0, fmt.Sprintf("burst %d connect", s))
			}
		}
		for i := 0; alive && i < n; i++ {
			x := rtmp.NewCreateStreamPacket()
			tid := math.Float64bits(float64(2 + i))
			if r.Chance(20) {
				tid = c03GenTid(r)
			}
			if seen[tid] || !c03Positive(tid) {
				tid = math.Float64bits(float64(100000 + i))
			}
			seen[tid] = true
			x.TransactionID = c03Num(tid)
			tids = append(tids, tid)
			who := fmt.Sprintf("burst %d request %d/%d", s, i, n)
			if alive = a.send(c, x, 0, who); alive {
				b.recv(c, x, 0, who)
			}
		}
		order := r.Perm(len(tids))
		for i, j := range order {
			if !alive {
				break
			}
			tid := tids[j]
			reps := 1
			if r.Chance(10) {
				reps = 2 // the second one has no outstanding request any more
			}
			for k := 0; alive && k < reps; k++ {
				var pk rtmp.Packet
				if j == 0 && len(tids) > n { // the connect
					x := rtmp.NewConnectAppResPacket(c03Num(tid))
					x.CommandObject = c03GenObject(r, false, false)
					pk = x
				} else {
					x := rtmp.NewCreateStreamResPacket(c03Num(tid))
					x.StreamID = c03Num(math.Float64bits(float64(i)))
					pk = x
				}
				who := fmt.Sprintf("burst %d answer %d/%d (rep %d)", s, i, len(tids), k)
				if alive = b.send(c, pk, 0, who); alive {
					a.recv(c, pk, 0, who)
				}
			}
		}
		c.Case(fmt.Sprintf("burst/outstanding=%d..%d", len(tids)/32*32, len(tids)/32*32+31), fmt.Sprintf("burst n=%d", len(tids)), true)
	}

	// 6c. large packets behind a large chunk size: Set Chunk Size above the reader's own buffer sizes, then a connect
	// whose command object makes the payload cross them, then an ordinary request that must still arrive
	// (all uint32 control values: also sizes with the top bit set — both ends must take the same 32 bits)
	for _, cs := range []int{1, 128, 4095, 4096, 4097, 5000, 60000, 0x7fffffff, 0x80000001, 0x800000c8, 0x80001000, 0xffffff40, 0xffffffff} {
		for _, L := range []int{100, 4000, 4096, 4200, 9000, 20000} {
			if !c.Thorough() && (cs+L)%3 == 0 && cs < 0x7fffffff {
				continue
			}
			if cs == 1 {
				// chunk size 1: a 70 000-byte connect is 70 000 chunks on one chunk stream (more than a 16-bit counter holds)
				if L != 100 {
					continue
				}
				L = 70000
			}
			a, b := c03Pair()
			sc := rtmp.NewSetChunkSize()
			sc.ChunkSize = uint32(cs)
			who := fmt.Sprintf("large cs=%d payload~%d", cs, L)
			if !a.send(c, sc, 0, who+" setChunkSize") {
				continue
			}
			b.recv(c, sc, 0, who+" setChunkSize")
			x := rtmp.NewConnectAppPacket()
			x.CommandObject.Set("app", amf0.NewString("live"))
			x.CommandObject.Set("tcUrl", amf0.NewString(strings.Repeat("u", L)))
			if a.send(c, x, 0, who+" connect") {
				b.recv(c, x, 0, who+" connect")
			}
			y := rtmp.NewCreateStreamPacket()
			y.TransactionID = 2
			if a.send(c, y, 0, who+" createStream") {
				b.recv(c, y, 0, who+" createStream")
			}
			c.Case(fmt.Sprintf("large/cs=%d", cs), who, true)
		}
	}

	// 6d. packets relayed as messages with the timestamp they had (a relay forwards onStatus, metadata and calls under the
	// stream's clock, any 32-bit value) and through the AMF3 command / data message types (17, 15: one format byte, then
	// the AMF0 body): the packet arrives as its kind with its payload, and so do the packets behind it
	for _, ts := range []uint64{0, 1, 0xfffffe, 0xffffff, 0x1000000, 0x7fffffff, 0x80000000, 0x80000123, 0xfffffffe, 0xffffffff} {
		for _, amf3 := range []bool{false, true} {
			for _, L := range []int{10, 300} {
				a, b := c03Pair()
				call := rtmp.NewCallPacket()
				call.CommandName, call.TransactionID = "onStatus", 0
				call.CommandObject = amf0.NewNull()
				info := amf0.NewObject()
				info.Set("level", amf0.NewString("status")).Set("description", amf0.NewString(strings.Repeat("d", L)))
				call.Args = info
				payload, _ := c03Marshal(call)
				ty, wire := uint8(20), payload
				if amf3 {
					ty, wire = 17, append([]byte{0}, payload...)
				}
				who := fmt.Sprintf("relayed onStatus (%d bytes) as a type-%d message at timestamp %d, then a user control packet and closeStream", len(payload), ty, ts)
				st := h.Safe(func() string {
					if err := a.p.WriteMessage(rtmp.VerifNewMessage(5, rtmp.MessageType(ty), 1, ts, wire)); err != nil {
						return "write: " + err.Error()
					}
					uc := rtmp.NewUserControl()
					uc.EventType, uc.EventData = rtmp.EventType(0), 1
					if err := a.p.WritePacket(uc, 0); err != nil {
						return "write uc: " + err.Error()
					}
					cs := rtmp.NewCloseStreamPacket()
					if err := a.p.WritePacket(cs, 1); err != nil {
						return "write closeStream: " + err.Error()
					}
					m, err := b.p.ReadMessage()
					if err != nil {
						return "read: " + err.Error()
					}
					if !bytes.Equal(m.Payload, wire) || uint8(m.MessageType) != ty {
						return fmt.Sprintf("message arrived as type %d with %d bytes (equal=%v)", m.MessageType, len(m.Payload), bytes.Equal(m.Payload, wire))
					}
					q, err := b.p.DecodeMessage(m)
					if err != nil {
						return "decode: " + err.Error()
					}
					again, _ := c03Marshal(q)
					if c03Kind(q) != "call" || !bytes.Equal(again, payload) {
						return fmt.Sprintf("decoded as %s, re-marshals to %d bytes (equal=%v)", c03Kind(q), len(again), bytes.Equal(again, payload))
					}
					var puc *rtmp.UserControl
					if _, err := b.p.ExpectPacket(&puc); err != nil {
						return "the user control packet behind it: " + err.Error()
					}
					var pc *rtmp.CallPacket
					if _, err := b.p.ExpectPacket(&pc); err != nil || string(pc.CommandName) != "closeStream" {
						return fmt.Sprintf("closeStream behind it: %v", err)
					}
					return "ok"
				})
				c.Hold(st == "ok", "wire_dispatch.relayed_message", who, st, "ok")
				c.Case(fmt.Sprintf("relayed/amf3=%v", amf3), who, true)
			}
		}
	}

	// 7. typed waits: A writes a run of packets, B waits for a kind (ExpectPacket) or for message types (ExpectMessage).
	nwait := c.N(150, 4000)
	for s := 0; s < nwait; s++ {
		a, b := c03Pair()
		// B may have outstanding requests so that responses decode
		var reqIDs []uint64
		for j := r.Pick(0, 1, 2); j > 0; j-- {
			var pk rtmp.Packet
			if r.Bool() {
				pk = rtmp.NewConnectAppPacket()
			} else {
				x := rtmp.NewCreateStreamPacket()
				x.TransactionID = c03Num(c03TidBits[1+r.Intn(4)])
				pk = x
			}
			b.send(c, pk, 0, "wait-setup")
			_, tid, _ := c03NameTid(pk)
			reqIDs = append(reqIDs, tid)
		}
		n := 1 + r.Intn(8)
		var pks []rtmp.Packet
		var msgs []string
		for j := 0; j < n; j++ {
			var pk rtmp.Packet
			switch r.Intn(9) {
			case 0:
				pk = c03Gen(r, "connect", 100, false)
			case 1:
				pk = c03Gen(r, "publish", 100, false)
			case 2:
				pk = c03Gen(r, "play", 100, false)
			case 3:
				pk = c03Gen(r, "createStream", 100, false)
			case 4:
				pk = c03Gen(r, "call", 100, false)
			case 5: // response: for an outstanding request, or not (then the wait must fail there)
				tid, asCreate := c03GenTid(r), r.Bool()
				if len(reqIDs) > 0 && r.Chance(85) {
					tid = reqIDs[r.Intn(len(reqIDs))]
					if r.Chance(85) {
						asCreate = b.pending[tid] == "createStream"
					}
				}
				if asCreate {
					x := rtmp.NewCreateStreamResPacket(c03Num(tid))
					x.StreamID = c03Num(c03GenTid(r))
					pk = x
				} else {
					x := rtmp.NewConnectAppResPacket(c03Num(tid))
					pk = x
				}
			default:
				pk = c03Gen(r, c03Kinds[7+r.Intn(4)], 100, false)
				if x, ok := pk.(*rtmp.SetChunkSize); ok {
					x.ChunkSize = uint32(r.Pick(1, 64, 128, 4096, 1<<31-1))
				}
			}
			c03Canon(r, pk)
			if !a.send(c, pk, 0, "wait") {
				break
			}
			pks = append(pks, pk)
			msgs = append(msgs, c03MsgText(pk, 0))
		}
		mtext := strings.Join(msgs, ",")
		if r.Chance(70) {
			kind := c03Kinds[r.Intn(len(c03Kinds))]
			if len(pks) > 0 && r.Chance(60) { // mostly a kind that is on its way
				pk := pks[r.Intn(len(pks))]
				kind = c03Kind(pk)
				if kind == "play" || kind == "createStream" {
					kind = "call"
				}
			}
			before := c03Table(b.p)
			in := fmt.Sprintf("rtmp.expect.pkt %s %s %s", kind, before, h.Trunc(mtext, c03Cut))
			// spec: the first packet whose protocol kind is `kind`, provided everything before it decodes
			pend := map[uint64]string{}
			for k, v := range b.pending {
				pend[k] = v
			}
			wantIdx, wantErr, unknown := -1, false, false
			for i, pk := range pks {
				k := c03Kind(pk)
				if name, tid, isCmd := c03NameTid(pk); isCmd {
					k = c03Spec(name, tid, pend)
					if name == "_result" || name == "_error" {
						delete(pend, tid)
					}
					if k == "" {
						wantErr = true // a response without an outstanding request ends the wait with an error
						break
					}
					if own := c03Kind(pk); !(k == own || (k == "call" && (own == "play" || own == "createStream"))) {
						unknown = true // decoded by a decoder of another layout: outcome left to the model comparison
						break
					}
				}
				if k == kind {
					wantIdx = i
					break
				}
			}
			line := c03Expect(b, kind, pks)
			after := c03Table(b.p)
			left := b.remaining()
			impl := line
			if strings.HasPrefix(line, "ok ") {
				f := strings.Fields(line)
				impl = fmt.Sprintf("ok %d %s", len(pks)-left-1, f[1])
			}
			c.Eq("expect.pkt", in, h.Trunc(impl+" "+after, 3000), h.Trunc(c.O.Call("rtmp.expect.pkt", kind, before, mtext), 3000))
			c.Hold(line != "panic", "decode_never_panics", in, line, "ok|err")
			// property: typed wait returns the first arriving packet of the requested type
			switch {
			case unknown:
			case wantErr:
				c.Hold(line == "err", "expect_first", in, h.Trunc(line, 300), "err (a message before the match does not decode)")
			case wantIdx < 0:
				c.Hold(line == "err-eof", "expect_first", in, h.Trunc(line, 300), "err-eof (no packet of the kind)")
			default:
				w, _ := c03Marshal(pks[wantIdx])
				ok := strings.HasPrefix(line, "ok ") && strings.HasSuffix(line, " "+h.Hex(w)) && len(pks)-left-1 == wantIdx
				c.Hold(ok, "expect_first", in, h.Trunc(fmt.Sprintf("%s (index %d)", line, len(pks)-left-1), 400), fmt.Sprintf("message %d", wantIdx))
			}
			c.Case(fmt.Sprintf("expect.pkt/%s,n=%d,hit=%v,err=%v", kind, len(pks), wantIdx >= 0, wantErr), in, true)
		} else {
			var types []rtmp.MessageType
			var tys []string
			for j := r.Pick(0, 1, 1, 2, 3); j > 0; j-- {
				t := r.Pick(1, 4, 5, 6, 20, 18, 8, 9)
				types = append(types, rtmp.MessageType(t))
				tys = append(tys, fmt.Sprint(t))
			}
			tt := "_"
			if len(tys) > 0 {
				tt = strings.Join(tys, ",")
			}
			in := fmt.Sprintf("rtmp.expect.msg %s %s", tt, h.Trunc(mtext, c03Cut))
			wantIdx := -1
			for i, pk := range pks {
				hit := len(types) == 0
				for _, t := range types {
					hit = hit || uint8(t) == uint8(pk.Type())
				}
				if hit {
					wantIdx = i
					break
				}
			}
			var got *rtmp.Message
			line := h.Safe(func() string {
				m, err := b.p.ExpectMessage(types...)
				if err != nil {
					return h.ErrClass(err)
				}
				got = m
				return "ok"
			})
			left := b.remaining()
			impl := line
			if line == "ok" {
				impl = fmt.Sprintf("ok %d", len(pks)-left-1)
			}
			c.Eq("expect.msg", in, impl, c.O.Call("rtmp.expect.msg", tt, mtext))
			if wantIdx < 0 {
				c.Hold(line == "err-eof", "expect_first", in, line, "err-eof")
			} else {
				w, _ := c03Marshal(pks[wantIdx])
				c.Hold(got != nil && bytes.Equal(got.Payload, w) && len(pks)-left-1 == wantIdx, "expect_first", in, impl, fmt.Sprintf("ok %d", wantIdx))
			}
			c.Case(fmt.Sprintf("expect.msg/types=%d,n=%d,hit=%v", len(types), len(pks), wantIdx >= 0), in, true)
		}
	}
}
