package main

// C17 — JSON+ comment stripping is transparent: the real comment reader vs the Lean model
// (emitted bytes + final status, whole-input and chunked reads) vs the property itself:
// decoding the decorated text through the comment-aware reader = encoding/json on the
// undecorated text; raw bytes = undecorated bytes; every segmentation gives the same bytes.

import (
	"bufio"
	"bytes"
	ej "encoding/json"
	"fmt"
	"io"
	"io/ioutil"
	"reflect"
	"strings"
	"testing/iotest"

	oj "github.com/ossrs/go-oryx-lib/json"
	"verifharness/internal/h"
)

func init() { register("C17", c17) }

// chunkReader delivers data in reads of the given sizes (then whatever is left in one read).
type chunkReader struct {
	data  []byte
	sizes []int
}

func (r *chunkReader) Read(p []byte) (int, error) {
	if len(r.data) == 0 {
		return 0, io.EOF
	}
	n := len(r.data)
	for len(r.sizes) > 0 && r.sizes[0] == 0 {
		r.sizes = r.sizes[1:]
	}
	if len(r.sizes) > 0 {
		if r.sizes[0] < n {
			n = r.sizes[0]
		}
	}
	if n > len(p) {
		n = len(p)
	}
	if len(r.sizes) > 0 {
		r.sizes[0] -= n
	}
	copy(p, r.data[:n])
	r.data = r.data[n:]
	return n, nil
}

func jsRead(r io.Reader) string {
	return h.Safe(func() string {
		b, err := ioutil.ReadAll(oj.NewJsonPlusReader(r))
		if err != nil {
			return "err " + h.Hex(b)
		}
		return "ok " + h.Hex(b)
	})
}

// jsMixed consumes the comment reader the way applications combine the standard helpers: the first k bytes through
// Read with a short slice (sniffing the first byte, a bufio Peek), the rest through io.Copy (which uses WriteTo when a
// reader offers it) or through a bufio.Reader's WriteTo.
func jsMixed(in []byte, k, way int) string {
	return h.Safe(func() string {
		rd := oj.NewJsonPlusReader(bytes.NewReader(in))
		var out bytes.Buffer
		var err error
		switch way {
		case 0:
			head := make([]byte, k)
			var n int
			n, err = io.ReadFull(rd, head)
			out.Write(head[:n])
			if err == io.EOF || err == io.ErrUnexpectedEOF {
				err = nil
			} else if err == nil {
				_, err = io.Copy(&out, rd)
			}
		case 1:
			br := bufio.NewReaderSize(rd, 16+k)
			br.Peek(1 + k%16)
			_, err = br.WriteTo(&out)
		default:
			one := make([]byte, 1)
			for i := 0; i < k && err == nil; i++ {
				var n int
				n, err = rd.Read(one)
				out.Write(one[:n])
			}
			if err == io.EOF {
				err = nil
			} else if err == nil {
				_, err = io.Copy(&out, rd)
			}
		}
		if err != nil {
			return "err " + h.Hex(out.Bytes())
		}
		return "ok " + h.Hex(out.Bytes())
	})
}

func jsWhole(in []byte) string   { return jsRead(bytes.NewReader(in)) }
func jsOneByte(in []byte) string { return jsRead(iotest.OneByteReader(bytes.NewReader(in))) }
func jsDataErr(in []byte) string { return jsRead(iotest.DataErrReader(bytes.NewReader(in))) }
func jsChunks(in []byte, sizes []int) string {
	return jsRead(&chunkReader{data: in, sizes: append([]int(nil), sizes...)})
}

func chunkHex(in []byte, sizes []int) string {
	var ps []string
	rest := in
	for _, n := range sizes {
		if n > len(rest) {
			n = len(rest)
		}
		ps = append(ps, h.Hex(rest[:n]))
		rest = rest[n:]
	}
	if len(rest) > 0 || len(ps) == 0 {
		ps = append(ps, h.Hex(rest))
	}
	return strings.Join(ps, ",")
}

func randSizes(r *h.Rand, n int) []int {
	var s []int
	for left := n; left > 0; {
		k := 1 + r.Intn(1+r.Pick(1, 2, 3, 7, 40))
		if r.Chance(5) {
			k = 0 // a read of zero bytes is tolerated by the Scanner (up to 100 in a row)
		}
		s = append(s, k)
		left -= k
	}
	return s
}

// ---------- JSON documents as token lists ----------

type jtok struct {
	b   []byte
	str bool
}

type jdoc struct {
	toks                        []jtok
	escQuote, markerInStr, apos bool
}

var jsLetters = []string{"a", "b", "z", "0", " ", "é", "{", ":", ","}

// a string VALUE over the alphabet rich in quote, backslash, slash, star, apostrophe, newline
func genStrVal(r *h.Rand) string {
	var sb strings.Builder
	for n := r.Pick(0, 1, 2, 3, 5, 9); n > 0; n-- {
		switch r.Intn(12) {
		case 0, 1:
			sb.WriteByte('"')
		case 2, 3:
			sb.WriteByte('\\')
		case 4:
			sb.WriteByte('/')
		case 5:
			sb.WriteByte('*')
		case 6:
			sb.WriteByte('\'')
		case 7:
			sb.WriteByte('\n')
		case 8:
			sb.WriteString([]string{"//", "/*", "*/", "\\\"", "\\\\", "\"//", "\\\"/*", "'\""}[r.Intn(8)])
		default:
			sb.WriteString(jsLetters[r.Intn(len(jsLetters))])
		}
	}
	return sb.String()
}

// a JSON string literal for the value, with randomly chosen (valid) escape spellings
func (d *jdoc) litOf(r *h.Rand, s string) []byte {
	out := []byte{'"'}
	for _, ch := range s {
		switch ch {
		case '"':
			d.escQuote = true
			if r.Chance(15) {
				out = append(out, `\u0022`...)
			} else {
				out = append(out, '\\', '"')
			}
		case '\\':
			out = append(out, '\\', '\\')
		case '\n':
			out = append(out, '\\', 'n')
		case '/':
			d.markerInStr = true
			switch r.Intn(4) {
			case 0:
				out = append(out, '\\', '/')
			default:
				out = append(out, '/')
			}
		case '\'':
			d.apos = true
			out = append(out, '\'')
		default:
			out = append(out, string(ch)...)
		}
	}
	return append(out, '"')
}

func (d *jdoc) ws(r *h.Rand) {
	if r.Chance(40) {
		d.toks = append(d.toks, jtok{b: []byte([]string{" ", "\n", "\t", "  ", "\r\n", " \n "}[r.Intn(6)])})
	}
}

func (d *jdoc) punct(s string) { d.toks = append(d.toks, jtok{b: []byte(s)}) }

func (d *jdoc) gen(r *h.Rand, depth int) {
	d.ws(r)
	k := r.Intn(9)
	if depth <= 0 && k < 3 {
		k = 3 + r.Intn(6)
	}
	switch k {
	case 0, 1: // object
		d.punct("{")
		n := r.Intn(4)
		for i := 0; i < n; i++ {
			if i > 0 {
				d.punct(",")
			}
			d.ws(r)
			d.toks = append(d.toks, jtok{b: d.litOf(r, fmt.Sprintf("k%d", i)+genStrVal(r)), str: true})
			d.ws(r)
			d.punct(":")
			d.gen(r, depth-1)
		}
		d.ws(r)
		d.punct("}")
	case 2: // array
		d.punct("[")
		n := r.Intn(4)
		for i := 0; i < n; i++ {
			if i > 0 {
				d.punct(",")
			}
			d.gen(r, depth-1)
		}
		d.ws(r)
		d.punct("]")
	case 3, 4, 5, 6:
		d.toks = append(d.toks, jtok{b: d.litOf(r, genStrVal(r)), str: true})
	case 7:
		d.punct([]string{"0", "-1", "12.5", "1e9", "-0.25E-3", "123456789012"}[r.Intn(6)])
	default:
		d.punct([]string{"true", "false", "null"}[r.Intn(3)])
	}
	d.ws(r)
}

func (d *jdoc) plain() []byte {
	var b []byte
	for _, t := range d.toks {
		b = append(b, t.b...)
	}
	return b
}

var cmtAlpha = []string{"\"", "'", "\\", "/", "*", "//", "/*", "\\\"", "x", " ", "y", "{", "\"a\":1", "é", "\t", "\\"}

func genCmtBody(r *h.Rand, block bool) string {
	var sb strings.Builder
	for n := r.Pick(0, 0, 1, 2, 4, 8); n > 0; n-- {
		sb.WriteString(cmtAlpha[r.Intn(len(cmtAlpha))])
		if block && r.Chance(10) {
			sb.WriteByte('\n')
		}
	}
	s := sb.String()
	if block {
		for strings.Contains(s, "*/") {
			s = strings.Replace(s, "*/", "* /", -1)
		}
	}
	return s
}

// decorate inserts comments at token boundaries; returns the text, the number of comments, tail = ends in an unterminated line comment
func (d *jdoc) decorate(r *h.Rand, density int) (out []byte, n int, tail bool) {
	cm := func() {
		for k := r.Pick(1, 1, 1, 2, 3); k > 0; k-- {
			if r.Bool() {
				out = append(out, "//"+genCmtBody(r, false)+"\n"...)
			} else {
				out = append(out, "/*"+genCmtBody(r, true)+"*/"...)
			}
			n++
		}
	}
	for _, t := range d.toks {
		if r.Chance(density) {
			cm()
		}
		out = append(out, t.b...)
	}
	if r.Chance(density) {
		cm()
	}
	if r.Chance(25) {
		out = append(out, "//"+genCmtBody(r, false)...)
		n++
		tail = true
	}
	return
}

func decodeStd(b []byte) (interface{}, error) {
	var v interface{}
	err := ej.Unmarshal(b, &v)
	return v, err
}

func decodePlus(rd io.Reader) (v interface{}, err error) {
	defer func() {
		if r := recover(); r != nil {
			err = fmt.Errorf("panic: %v", r)
		}
	}()
	err = oj.Unmarshal(rd, &v)
	return
}

// jsCompare: model = implementation for one input (whole read + one segmentation).
func jsCompare(c *h.Ctx, in []byte, sizes []int) (whole string) {
	hx := h.Hex(in)
	whole = jsWhole(in)
	c.Eq("strip", "json.strip "+h.Trunc(hx, 3000), h.Trunc(whole, 3000), h.Trunc(c.O.Call("json.strip", hx), 3000))
	ch := chunkHex(in, sizes)
	c.Eq("chunks", "json.chunks "+h.Trunc(ch, 3000), h.Trunc(jsChunks(in, sizes), 3000), h.Trunc(c.O.Call("json.chunks", ch), 3000))
	return
}

var jsMixN int

// jsReads: Read calls with the given slice lengths on the comment reader over `in` (one piece, then EOF), in the form of
// the oracle's json.reads: hex | - | eof | err, stopping at the first eof / err.
func jsReads(in []byte, sizes []int) string {
	return h.Safe(func() string {
		rd := oj.NewJsonPlusReader(bytes.NewReader(in))
		var out []string
		for _, k := range sizes {
			buf := make([]byte, k)
			n, err := rd.Read(buf)
			switch {
			case err == io.EOF && n == 0:
				out = append(out, "eof")
			case err != nil && n == 0:
				out = append(out, "err")
			case err != nil:
				out = append(out, fmt.Sprintf("data-with-error:%s", h.Hex(buf[:n])))
			case n == 0:
				out = append(out, "-")
			default:
				out = append(out, h.Hex(buf[:n]))
			}
			if err != nil {
				break
			}
		}
		if len(out) == 0 {
			return "_"
		}
		return strings.Join(out, ",")
	})
}

// jsSegFree: every segmentation yields the same bytes and status (property, on the implementation).
func jsSegFree(c *h.Ctx, in []byte, sizes []int, whole string) {
	hx := h.Trunc(h.Hex(in), 3000)
	c.Hold(jsOneByte(in) == whole, "segmentation_free", "1-byte "+hx, h.Trunc(jsOneByte(in), 400), h.Trunc(whole, 400))
	c.Hold(jsDataErr(in) == whole, "segmentation_free", "data+eof "+hx, h.Trunc(jsDataErr(in), 400), h.Trunc(whole, 400))
	c.Hold(jsChunks(in, sizes) == whole, "segmentation_free", fmt.Sprintf("chunks%v %s", sizes, hx), h.Trunc(jsChunks(in, sizes), 400), h.Trunc(whole, 400))
	jsMixN++
	if k, way := 1+jsMixN%5, jsMixN%3; true {
		mixed := jsMixed(in, k, way)
		c.Hold(mixed == whole, "segmentation_free", fmt.Sprintf("first %d bytes through short Reads, the rest through io.Copy / bufio WriteTo (way %d) %s", k, way, hx), h.Trunc(mixed, 400), h.Trunc(whole, 400))
	}
	// the consumer side against the model of the reader's buffer (Props.C17.consumer_free): slices of any length, zero included
	if jsMixN%2 == 0 {
		var ks []int
		var ksS []string
		for i, budget := 0, len(in)+3; i < 40 && budget > 0; i++ {
			k := []int{0, 1, 1, 2, 3, 5, 8, 64, 4096}[(jsMixN/2+i*i+len(in))%9]
			ks = append(ks, k)
			ksS = append(ksS, fmt.Sprint(k))
			if k > 0 {
				budget -= k
			} else {
				budget--
			}
		}
		arg := strings.Join(ksS, ",")
		c.Eq("reads", "json.reads "+arg+" "+hx, h.Trunc(jsReads(in, ks), 3000), h.Trunc(c.O.Call("json.reads", arg, h.Hex(in)), 3000))
	}
	half := jsRead(iotest.HalfReader(bytes.NewReader(in)))
	c.Hold(half == whole, "segmentation_free", "half "+hx, h.Trunc(half, 400), h.Trunc(whole, 400))
}

// jsDocCheck: the property for one (undecorated, decorated) pair.
func jsDocCheck(c *h.Ctx, bucket string, plain, deco []byte, sizes []int, nontrivial bool) {
	in := "json.strip " + h.Trunc(h.Hex(deco), 3000)
	whole := jsCompare(c, deco, sizes)
	// raw bytes: exactly the undecorated text
	c.Hold(whole == "ok "+h.Hex(plain), "strip_decorated", in, h.Trunc(whole, 600), "ok "+h.Trunc(h.Hex(plain), 600))
	// values: comment-aware reader on the decorated text vs the standard decoder on the undecorated text
	want, werr := decodeStd(plain)
	got, gerr := decodePlus(bytes.NewReader(deco))
	c.Hold(werr == nil, "generator_valid_json", in, fmt.Sprint(werr), "nil")
	c.Hold(gerr == nil && reflect.DeepEqual(got, want), "decode_equal", in, fmt.Sprintf("%v err=%v", got, gerr), fmt.Sprintf("%v", want))
	got1, gerr1 := decodePlus(iotest.OneByteReader(bytes.NewReader(deco)))
	c.Hold(gerr1 == nil && reflect.DeepEqual(got1, want), "decode_equal", "1-byte "+in, fmt.Sprintf("%v err=%v", got1, gerr1), fmt.Sprintf("%v", want))
	got2, gerr2 := decodePlus(&chunkReader{data: append([]byte(nil), deco...), sizes: append([]int(nil), sizes...)})
	c.Hold(gerr2 == nil && reflect.DeepEqual(got2, want), "decode_equal", fmt.Sprintf("chunks%v %s", sizes, in), fmt.Sprintf("%v err=%v", got2, gerr2), fmt.Sprintf("%v", want))
	// a document without comments passes through byte for byte
	pw := jsWhole(plain)
	c.Hold(pw == "ok "+h.Hex(plain), "no_comment_identity", "json.strip "+h.Trunc(h.Hex(plain), 3000), h.Trunc(pw, 600), "ok "+h.Trunc(h.Hex(plain), 600))
	c.Eq("strip", "json.strip "+h.Trunc(h.Hex(plain), 3000), h.Trunc(pw, 3000), h.Trunc(c.O.Call("json.strip", h.Hex(plain)), 3000))
	jsSegFree(c, deco, sizes, whole)
	c.Case(bucket, h.Hex(deco)+fmt.Sprint(sizes), nontrivial)
}

func c17(c *h.Ctx) {
	r := c.R

	// 00. documents decoded one after the other through the package's Unmarshal: each decode is about ITS document
	// only — whatever an earlier call left undecoded (a document that stops being valid half-way, a second value
	// behind the first, long runs the decoder never reached) is gone with that call.
	{
		first := [][]byte{
			[]byte("[1] " + strings.Repeat(" ", 600) + " [7] "),
			[]byte("[1, 2" + strings.Repeat(" ", 900) + " oops " + strings.Repeat("9", 700) + "]"),
			[]byte(`{"a":1} ` + strings.Repeat("x", 2000)),
			[]byte(strings.Repeat("[", 300) + strings.Repeat("1,", 1200)),
			[]byte(`{"k": /* c */ tru` + strings.Repeat("e", 800) + `}`),
			[]byte("[" + strings.Repeat("1,", 3000) + "]"),
		}
		second := [][]byte{[]byte(`{"code":100}`), []byte(`[7, "x" /* c */, null] // t`), []byte(`"s"`), []byte(` {"a": {"b": [1, 2, 3]}} `)}
		for i, f := range first {
			for j, s2 := range second {
				decodePlus(bytes.NewReader(f)) // whatever it returns
				got, gerr := decodePlus(bytes.NewReader(s2))
				plain, _ := ioutil.ReadAll(oj.NewJsonPlusReader(bytes.NewReader(s2)))
				want, werr := decodeStd(plain)
				in := fmt.Sprintf("json.Unmarshal(first #%d, %d bytes) then json.Unmarshal(%s)", i, len(f), s2)
				c.Hold((gerr == nil) == (werr == nil) && fmt.Sprint(got) == fmt.Sprint(want), "strip_decorated.calls_are_independent", in,
					fmt.Sprint(got, " ", gerr), fmt.Sprint(want, " ", werr))
				c.Case("sequence/unmarshal-after-unmarshal", fmt.Sprint(i, j), true)
			}
		}
	}

	// 0. regression corpus: F13 (fixed), K4 (fixed), the repository's example document.
	for _, s := range []string{
		`{"a":"x\""}`, `{"a":"x\"//y","b":1}`, `["\\\""]`, `{"a":"x\\"}`, `{"k\"":"\\\\\"/*"}`, `"\"" // "`, `{"a":"it's","b":"x'y\"'"}`,
		"\n\t{\n\t\t\"code\":0, // An int error code, where 0 is success.\n\t\t\"data\": /*An interface{} data.*/ \"There is no error\",\n\t\t\"json+\": true // Both \"\" and '' is ok for json+\n\t}\n\t",
	} {
		plain := []byte(s)
		if strings.Contains(s, "json+") {
			plain = []byte("\n\t{\n\t\t\"code\":0, \t\t\"data\":  \"There is no error\",\n\t\t\"json+\": true \t}\n\t")
		} else if strings.HasSuffix(s, `// "`) {
			plain = []byte(`"\"" `)
		}
		jsDocCheck(c, "corpus/F13-and-example", plain, []byte(s), []int{1, 2, 3}, true)
	}
	{
		big1 := []byte("[" + strings.Repeat("1,", 40000) + "1]")                                        // marker-free, 80 KB
		big2 := []byte(`{"a":"` + strings.Repeat("x\\\"", 17500) + `"}`)                                // one 70 KB string
		big3 := []byte("[1, /*" + strings.Repeat("c", 70000) + "*/ 2] //" + strings.Repeat("t", 70000)) // 70 KB comments
		big3p := []byte("[1,  2] ")
		jsDocCheck(c, "corpus/K4-over-64KiB", big1, big1, []int{4096, 1, 70000}, true)
		jsDocCheck(c, "corpus/K4-over-64KiB", big2, big2, []int{65536, 1}, true)
		jsDocCheck(c, "corpus/K4-over-64KiB", big3p, big3, []int{65535, 3}, true)
	}

	// 1. exhaustive: every string over the 7-letter marker alphabet up to length 4 (quick) / 6 (thorough):
	//    model = implementation (bytes + status), whole and in 1-byte reads.
	alpha := []byte{'"', '\'', '/', '*', '\\', '\n', 'a'}
	maxLen := c.N(4, 6)
	var rec func(cur []byte)
	rec = func(cur []byte) {
		hx := h.Hex(cur)
		whole := jsWhole(cur)
		c.Eq("strip", "json.strip "+hx, whole, c.O.Call("json.strip", hx))
		one := jsOneByte(cur)
		c.Hold(one == whole, "segmentation_free", "1-byte "+hx, one, whole)
		if len(cur) >= 2 {
			k := 1 + r.Intn(len(cur)-1)
			ch := h.Hex(cur[:k]) + "," + h.Hex(cur[k:])
			c.Eq("chunks", "json.chunks "+ch, jsChunks(cur, []int{k}), c.O.Call("json.chunks", ch))
		}
		c.Case(fmt.Sprintf("exhaustive/len=%d/%s", len(cur), strings.Fields(whole)[0]), hx, true)
		if len(cur) < maxLen {
			for _, a := range alpha {
				rec(append(append([]byte(nil), cur...), a))
			}
		}
	}
	rec(nil)

	// 2. JSON values x decorations x segmentations.
	n := c.N(1500, 60000)
	for i := 0; i < n; i++ {
		d := &jdoc{}
		d.gen(r, r.Pick(0, 1, 2, 3, 4))
		plain := d.plain()
		density := r.Pick(0, 10, 30, 60, 100)
		deco, ncm, tail := d.decorate(r, density)
		sizes := randSizes(r, len(deco))
		b := fmt.Sprintf("doc/comments=%s", cls3(ncm))
		if d.escQuote {
			b += ",esc-quote"
		}
		if d.markerInStr {
			b += ",slash-in-str"
		}
		if d.apos {
			b += ",apos"
		}
		if tail {
			b += ",tail"
		}
		jsDocCheck(c, b, plain, deco, sizes, ncm > 0 || d.escQuote || d.markerInStr)
	}

	// 2b. long runs without any marker before a comment (a pretty-printed or padded document): the comment starts at every
	// offset around the sizes implementations buffer or scan by (1024, 2048, 3072, 4096, 8192), counted from the start of
	// the input, from the end of a string, and from the end of an earlier comment
	{
		var offs []int
		for _, base := range []int{512, 1024, 2048, 3072, 4096, 8192} {
			for d := -3; d <= 2; d++ {
				if c.Thorough() || base <= 4096 {
					offs = append(offs, base+d)
				}
			}
		}
		k := 0
		for _, off := range offs {
			for _, cm := range []string{"//c\n", "/*c*/", "// it's \"quoted\"\n", "/* ' */"} {
				for before := 0; before < 3; before++ {
					k++
					if !c.Thorough() && k%2 == 0 {
						continue
					}
					// the run: off bytes of white space and digits, ending right where the comment starts
					headP, headD := "[", "["
					switch before {
					case 1:
						headP, headD = "[\"s\",", "[\"s\","
					case 2:
						headP, headD = "[", "/*first*/["
					}
					pad := off - 1
					run := strings.Repeat(" ", pad/2) + "7," + strings.Repeat(" ", pad-pad/2-2)
					for shift := 0; shift < 2; shift++ {
						rn := run[shift:]
						plain := []byte(headP + rn + "1]")
						deco := []byte(headD + rn + cm + "1]")
						jsDocCheck(c, fmt.Sprintf("long-run/before=%d", before), plain, deco, randSizes(r, len(deco)), true)
					}
				}
			}
		}
	}

	// 3. malformed stream: random marker soup, mutated documents — model = implementation incl. error status,
	//    and segmentation freedom on the implementation.
	m := c.N(3000, 100000)
	soup := []byte("\"\"''//**\\\\\n\nab {:")
	for i := 0; i < m; i++ {
		var in []byte
		if r.Chance(60) {
			for k := r.Intn(40); k > 0; k-- {
				in = append(in, soup[r.Intn(len(soup))])
			}
		} else {
			d := &jdoc{}
			d.gen(r, 2)
			in, _, _ = d.decorate(r, 50)
			if len(in) > 0 {
				switch r.Intn(3) {
				case 0:
					in = in[:r.Intn(len(in)+1)]
				case 1:
					in[r.Intn(len(in))] = soup[r.Intn(len(soup))]
				default:
					k := r.Intn(len(in))
					in = append(in[:k:k], in[k+1:]...)
				}
			}
		}
		sizes := randSizes(r, len(in))
		whole := jsCompare(c, in, sizes)
		jsSegFree(c, in, sizes, whole)
		c.Hold(whole != "panic", "no_panic", "json.strip "+h.Hex(in), whole, "ok|err")
		c.Case("malformed/"+strings.Fields(whole)[0], h.Hex(in), true)
	}
}

func cls3(n int) string {
	switch {
	case n == 0:
		return "0"
	case n <= 3:
		return "1-3"
	default:
		return "4+"
	}
}
