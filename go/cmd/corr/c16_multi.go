package main

// C16: multi-signature JWS and multi-recipient JWE (JSON serialisation). Every signer's / recipient's key
// must verify / decrypt to the original payload; a bit flipped in ONE signature's protected header (or one
// recipient's encrypted key) must make verification / decryption with THAT key fail.

import (
	"strings"
	"bytes"
	"encoding/base64"
	"encoding/json"
	"fmt"

	"github.com/ossrs/go-oryx-lib/https/jose"
	"verifharness/internal/h"
)

func c16b64(s string) []byte {
	b, _ := base64.RawURLEncoding.DecodeString(s)
	return b
}

func c16multi(c *h.Ctx, r *h.Rand) {
	ks := c16makeKeys(c, r)
	ec := ks.ec["P-256"][0]
	ec384 := ks.ec["P-384"][0]
	type signer struct {
		alg  jose.SignatureAlgorithm
		priv interface{}
		pub  interface{}
		name string
	}
	pool := []signer{
		{jose.HS256, ks.syms[32][0], ks.syms[32][0], "HS256/k0"},
		{jose.HS256, ks.syms[32][1], ks.syms[32][1], "HS256/k1"},
		{jose.RS256, ks.rsa[0], &ks.rsa[0].PublicKey, "RS256/r0"},
		{jose.PS384, ks.rsa[1], &ks.rsa[1].PublicKey, "PS384/r1"},
		{jose.ES256, ec, &ec.PublicKey, "ES256"},
		{jose.ES384, ec384, &ec384.PublicKey, "ES384"},
		{jose.HS512, ks.syms[64][0], ks.syms[64][0], "HS512"},
	}
	outsider := ks.syms[32][0][:16]
	combos := [][]int{{0, 1}, {2, 4}, {0, 2, 4}, {3, 5, 6}, {1, 0}, {4, 2, 0}, {6, 3}}
	if c.Thorough() {
		for i := 0; i < len(pool); i++ {
			for j := 0; j < len(pool); j++ {
				if i != j {
					combos = append(combos, []int{i, j})
				}
			}
		}
	}
	for _, combo := range combos {
		ms := jose.NewMultiSigner()
		name := ""
		ok := true
		for _, i := range combo {
			if err := ms.AddRecipient(pool[i].alg, pool[i].priv); err != nil {
				ok = false
			}
			name += pool[i].name + "+"
		}
		payload := r.Bytes(r.Pick(0, 1, 16, 33))
		id := fmt.Sprintf("jose.jws.multi %s %d json", name, len(payload))
		if !c.Hold(ok, "C16_roundtrip.multi.new_signer", id, "error", "nil") {
			continue
		}
		obj, err := ms.Sign(payload)
		if !c.Hold(err == nil, "C16_roundtrip.multi.sign", id, fmt.Sprint(err), "nil") {
			continue
		}
		text := obj.FullSerialize()
		verify := func(t string, key interface{}) string {
			out, class := c16safe(func() ([]byte, error) {
				p, err := jose.ParseSigned(t)
				if err != nil {
					return nil, err
				}
				return p.Verify(key)
			})
			if class == "ok" && !bytes.Equal(out, payload) {
				return "wrong-payload"
			}
			return class
		}
		// every signer's key verifies the parsed object to the original payload
		for _, i := range combo {
			cl := verify(text, pool[i].pub)
			c.Hold(cl == "ok", "C16_roundtrip.multi", id+" verify with "+pool[i].name, cl, "ok")
		}
		c.Hold(verify(text, outsider) == "err", "C16_tamper.multi.other_key", id, verify(text, outsider), "err")
		// flip bits of ONE signature's protected header / signature: that signer's key must reject
		var raw struct {
			Payload    string                       `json:"payload"`
			Signatures []map[string]json.RawMessage `json:"signatures"`
		}
		if json.Unmarshal([]byte(text), &raw) != nil || len(raw.Signatures) != len(combo) {
			c.Hold(false, "C16_roundtrip.multi.shape", id, h.Trunc(text, 200), "general JSON serialisation with one entry per signer")
			continue
		}
		for si, i := range combo {
			for _, field := range []string{"protected", "signature"} {
				var val string
				json.Unmarshal(raw.Signatures[si][field], &val)
				oct := c16b64(val)
				nb := len(oct) * 8
				for q := 0; q < 6 && nb > 0; q++ {
					bit := r.Intn(nb)
					m := append([]byte(nil), oct...)
					m[bit/8] ^= 1 << uint(bit%8)
					// re-marshal with that one member replaced
					saved := raw.Signatures[si][field]
					nv, _ := json.Marshal(jose.VerifBase64URLEncode(m))
					raw.Signatures[si][field] = nv
					mut, _ := json.Marshal(raw)
					raw.Signatures[si][field] = saved
					cl := verify(string(mut), pool[i].pub)
					in := fmt.Sprintf("%s flip signatures[%d].%s bit %d, verify with %s", id, si, field, bit, pool[i].name)
					c.Hold(cl == "err", "C16_tamper.multi."+field, in, cl, "err")
				}
			}
		}
		c.Case(fmt.Sprintf("jws-multi/n=%d", len(combo)), id, true)
	}

	// multi-recipient JWE
	type rcpt struct {
		alg  jose.KeyAlgorithm
		enc  interface{}
		dec  interface{}
		name string
	}
	rpool := []rcpt{
		{jose.A128KW, ks.syms[16][0], ks.syms[16][0], "A128KW/k0"},
		{jose.A128KW, ks.syms[16][1], ks.syms[16][1], "A128KW/k1"},
		{jose.RSA_OAEP, &ks.rsa[0].PublicKey, ks.rsa[0], "RSA-OAEP/r0"},
		{jose.RSA1_5, &ks.rsa[1].PublicKey, ks.rsa[1], "RSA1_5/r1"},
		{jose.ECDH_ES_A128KW, &ec.PublicKey, ec, "ECDH-ES+A128KW"},
		{jose.A256GCMKW, ks.syms[32][0], ks.syms[32][0], "A256GCMKW"},
		{jose.RSA1_5, &ks.rsa[0].PublicKey, ks.rsa[0], "RSA1_5/r0"},
		{jose.RSA_OAEP_256, &ks.rsa[1].PublicKey, ks.rsa[1], "RSA-OAEP-256/r1"},
	}
	// fixed combinations first (every family next to every other, RSA entries for DIFFERENT keys in both orders: an
	// RSA1_5 key decryption "succeeds" with garbage for a foreign key, the recipient behind it must still get in),
	// then random selections in random order
	rcombos := [][]int{{0, 1}, {2, 4}, {0, 2, 4}, {3, 5, 1}, {5, 0}, {3, 2}, {2, 3}, {6, 7}, {7, 6}, {3, 6}, {6, 3, 2}, {3, 1, 6, 4}}
	for k := c.N(3, 40); k > 0; k-- {
		perm := r.Perm(len(rpool))
		rcombos = append(rcombos, perm[:2+r.Intn(3)])
	}
	for ci, combo := range rcombos {
		for _, encAlg := range []jose.ContentEncryption{jose.A128GCM, jose.A128CBC_HS256, jose.A256CBC_HS512} {
			if !c.Thorough() && (ci+len(encAlg))%2 == 1 {
				continue
			}
			me, err := jose.NewMultiEncrypter(encAlg)
			if err != nil {
				continue
			}
			name := ""
			ok := true
			for _, i := range combo {
				if me.AddRecipient(rpool[i].alg, rpool[i].enc) != nil {
					ok = false
				}
				name += rpool[i].name + "+"
			}
			pt := r.Bytes(r.Pick(0, 1, 16, 31))
			id := fmt.Sprintf("jose.jwe.multi %s %s %d json", name, encAlg, len(pt))
			if !c.Hold(ok, "C16_roundtrip.multi.new_encrypter", id, "error", "nil") {
				continue
			}
			obj, err := me.Encrypt(pt)
			if !c.Hold(err == nil, "C16_roundtrip.multi.encrypt", id, fmt.Sprint(err), "nil") {
				continue
			}
			text := obj.FullSerialize()
			decrypt := func(t string, key interface{}) string {
				out, class := c16safe(func() ([]byte, error) {
					p, err := jose.ParseEncrypted(t)
					if err != nil {
						return nil, err
					}
					return p.Decrypt(key)
				})
				if class == "ok" && !bytes.Equal(out, pt) {
					return "wrong-plaintext"
				}
				return class
			}
			for _, i := range combo {
				cl := decrypt(text, rpool[i].dec)
				c.Hold(cl == "ok", "C16_roundtrip.multi", id+" decrypt with "+rpool[i].name, cl, "ok")
			}
			// the recipient loop against the model (Oryx.Jose.jweDecryptLoop): for a caller key, what each entry in
			// order does under that key — r: an entry for this very key; w: RSA1_5 entry for ANOTHER RSA key (key
			// decryption hands back a random CEK, no error); n: anything else (key decryption fails). Callers: every
			// recipient, and keys that are no recipient at all.
			keyID := []string{"k0", "k1", "r0", "r1", "ec", "g0", "r0", "r1"}
			isRSA := func(id string) bool { return id[0] == 'r' }
			callers := []struct {
				id  string
				key interface{}
			}{{"k0", ks.syms[16][0]}, {"k1", ks.syms[16][1]}, {"r0", ks.rsa[0]}, {"r1", ks.rsa[1]}, {"ec", ec}, {"g0", ks.syms[32][0]},
				{"ec384", ks.ec["P-384"][0]}, {"g1", ks.syms[32][1]}}
			for _, cal := range callers {
				vec := ""
				for _, j := range combo {
					switch {
					case keyID[j] == cal.id:
						vec += "r"
					case rpool[j].alg == jose.RSA1_5 && isRSA(cal.id):
						vec += "w"
					default:
						vec += "n"
					}
				}
				cl := decrypt(text, cal.key)
				want := strings.Fields(c.O.Call("jose.jwe.multi", vec, "0"))[0]
				c.Eq("jwe.multi.loop", fmt.Sprintf("jose.jwe.multi %s 0 (%s, caller %s)", vec, id, cal.id), cl, want)
			}
			var raw map[string]json.RawMessage
			var rcps []map[string]json.RawMessage
			if json.Unmarshal([]byte(text), &raw) != nil || json.Unmarshal(raw["recipients"], &rcps) != nil || len(rcps) != len(combo) {
				c.Hold(false, "C16_roundtrip.multi.shape", id, h.Trunc(text, 200), "general JSON serialisation with one recipient entry per key")
				continue
			}
			for si, i := range combo {
				var val string
				json.Unmarshal(rcps[si]["encrypted_key"], &val)
				oct := c16b64(val)
				for q := 0; q < 4 && len(oct) > 0; q++ {
					bit := r.Intn(len(oct) * 8)
					m := append([]byte(nil), oct...)
					m[bit/8] ^= 1 << uint(bit%8)
					saved := rcps[si]["encrypted_key"]
					nv, _ := json.Marshal(jose.VerifBase64URLEncode(m))
					rcps[si]["encrypted_key"] = nv
					rb, _ := json.Marshal(rcps)
					rcps[si]["encrypted_key"] = saved
					savedR := raw["recipients"]
					raw["recipients"] = rb
					mut, _ := json.Marshal(raw)
					raw["recipients"] = savedR
					cl := decrypt(string(mut), rpool[i].dec)
					in := fmt.Sprintf("%s flip recipients[%d].encrypted_key bit %d, decrypt with %s", id, si, bit, rpool[i].name)
					// the changed entry no longer serves its recipient; the object still decrypts under that key only if
					// ANOTHER entry was made for the very same key (then that one is genuine and untouched)
					want := "err"
					for sj, j := range combo {
						if sj != si && keyID[j] == keyID[i] {
							want = "ok"
						}
					}
					c.Hold(cl == want, "C16_tamper.multi.encrypted_key", in, cl, want)
				}
			}
			c.Case(fmt.Sprintf("jwe-multi/n=%d,%s", len(combo), encAlg), id, true)
		}
	}
}
