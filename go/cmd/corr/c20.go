package main

// C20 — rate meters: the real kxps code (through the verif hook: scripted counter, explicit
// sampling times) vs the Lean model (exact integers; the float64 expression is recomputed here
// from the model's integers and compared bit for bit) vs the property's own per-window formula
// (independent reference tracker below, exact rationals).

import (
	"sync/atomic"
	"fmt"
	"math"
	"math/big"
	"strings"
	"time"

	"github.com/ossrs/go-oryx-lib/kxps"
	"verifharness/internal/h"
)

func init() { register("C20", c20) }

type kop struct {
	k   byte // S start, C close, g getters, s doSample, a sampleAverage (hook)
	ns  int64
	cnt uint64
}

func (o kop) String() string {
	switch o.k {
	case 's', 'a':
		return fmt.Sprintf("%c:%d:%d", o.k, o.ns, o.cnt)
	}
	return string(o.k)
}

func opsLine(kind string, ops []kop) string {
	parts := []string{"kxps.run", kind}
	for _, o := range ops {
		parts = append(parts, o.String())
	}
	return strings.Join(parts, " ")
}

func fbits(f float64) string { return fmt.Sprintf("%016x", math.Float64bits(f)) }

// kxRun executes the ops on the real code; one canonical output per op.
type kxStep struct {
	out  string
	rps  [3]float64 // after an 's'
	avg  float64    // after an 'a'
	pub  [3]float64 // after a 'g' that did not panic
	gpan [3]bool
}

func kxRun(kind string, ops []kop) []kxStep {
	var m *kxps.VerifMeter
	if kind == "kbps" {
		m = kxps.VerifNewKbps()
	} else {
		m = kxps.VerifNewKrps()
	}
	res := make([]kxStep, len(ops))
	for i, o := range ops {
		st := &res[i]
		switch o.k {
		case 'S':
			m.MarkStarted()
			st.out = "-"
		case 'C':
			if m.Kbps != nil {
				m.Kbps.Close()
			} else {
				m.Krps.Close()
			}
			st.out = "-"
		case 's':
			st.out = h.Safe(func() string {
				m.Src.V = o.cnt
				if err := m.DoSample(time.Unix(0, o.ns)); err != nil {
					return "err"
				}
				var ps []string
				for w := 0; w < 3; w++ {
					rps, cnt, last, _ := m.Window(w)
					st.rps[w] = rps
					ln := int64(0)
					if !last.IsZero() {
						ln = last.UnixNano()
					}
					ps = append(ps, fmt.Sprintf("%s:%d:%d", fbits(rps), cnt, ln))
				}
				return strings.Join(ps, ",")
			})
		case 'a':
			st.out = h.Safe(func() string {
				m.Src.V = o.cnt
				st.avg = m.SampleAverage(time.Unix(0, o.ns))
				return fbits(st.avg)
			})
		case 'g':
			var gs []func() float64
			if m.Kbps != nil {
				gs = []func() float64{m.Kbps.Kbps10s, m.Kbps.Kbps30s, m.Kbps.Kbps300s}
			} else {
				gs = []func() float64{m.Krps.Rps10s, m.Krps.Rps30s, m.Krps.Rps300s}
			}
			var ps []string
			for w, g := range gs {
				w, g := w, g
				o := h.Safe(func() string { st.pub[w] = g(); return fbits(st.pub[w]) })
				st.gpan[w] = o == "panic"
				ps = append(ps, o)
			}
			st.out = strings.Join(ps, ",")
		}
	}
	return res
}

// rateBits recomputes Go's float64 expression from the model's exact integers num/den.
//
//	rps:  float64(diff) * 1000 / float64(ms)         with num = diff*1000, den = ms
//	kbps: (that) * 8 / 1000                          with num = diff*1000*8, den = ms*1000
func rateBits(s string, scaled bool) string {
	nd := strings.Split(s, "/")
	if len(nd) != 2 {
		return "bad:" + s
	}
	num, ok1 := new(big.Int).SetString(nd[0], 10)
	den, ok2 := new(big.Int).SetString(nd[1], 10)
	if !ok1 || !ok2 {
		return "bad:" + s
	}
	exact := func(a *big.Int, k int64) (*big.Int, bool) {
		q, r := new(big.Int).QuoRem(a, big.NewInt(k), new(big.Int))
		return q, r.Sign() == 0
	}
	var ok bool
	if scaled {
		if num, ok = exact(num, 8); !ok {
			return "bad:" + s
		}
		if den, ok = exact(den, 1000); !ok {
			return "bad:" + s
		}
	}
	diff, ok := exact(num, 1000)
	if !ok || !diff.IsInt64() || !den.IsInt64() {
		return "bad:" + s
	}
	f := float64(diff.Int64()) * 1000 / float64(den.Int64())
	if scaled {
		f = f * 8 / 1000
	}
	return fbits(f)
}

// modelOut converts one model reply field into the implementation's canonical form.
func modelOut(o kop, kind, rep string) string {
	switch o.k {
	case 's':
		ws := strings.Split(rep, ",")
		for i, w := range ws {
			f := strings.SplitN(w, ":", 2)
			if len(f) != 2 {
				return "bad:" + rep
			}
			ws[i] = rateBits(f[0], false) + ":" + f[1]
		}
		return strings.Join(ws, ",")
	case 'a':
		return rateBits(rep, false)
	case 'g':
		ws := strings.Split(rep, ",")
		for i, w := range ws {
			if w != "panic" {
				ws[i] = rateBits(w, kind == "kbps")
			}
		}
		return strings.Join(ws, ",")
	}
	return rep
}

// ---------- the property's own formula (independent of the cascade code) ----------

var kxWinNs = [3]int64{10e9, 30e9, 300e9}

type refMeter struct {
	init    bool
	prevC   [3]uint64
	prevT   [3]int64
	rate    [3]*big.Rat
	started bool
	// average
	aInit bool
	aC    uint64
	aT    int64
}

func newRef() *refMeter {
	return &refMeter{rate: [3]*big.Rat{new(big.Rat), new(big.Rat), new(big.Rat)}}
}

func elapsedGE(now, prev, win int64) bool {
	d := new(big.Int).Sub(big.NewInt(now), big.NewInt(prev))
	return d.Cmp(big.NewInt(win)) >= 0
}

// observe: a window reports (increase since its previous sample) / (window length) when it
// samples; the 30 s window is consulted only when the 10 s one sampled, the 300 s one only
// when the 30 s one sampled; a stalled or backward counter reads 0.
func (r *refMeter) observe(now int64, c uint64) (fired [3]bool) {
	if c == 0 {
		return
	}
	if !r.init {
		r.init = true
		for i := range r.prevC {
			r.prevC[i], r.prevT[i] = c, now
		}
		return
	}
	for i := 0; i < 3; i++ {
		if !elapsedGE(now, r.prevT[i], kxWinNs[i]) {
			break
		}
		fired[i] = true
		inc := new(big.Int).Sub(new(big.Int).SetUint64(c), new(big.Int).SetUint64(r.prevC[i]))
		if inc.Sign() < 0 {
			inc.SetInt64(0)
		}
		r.rate[i] = new(big.Rat).SetFrac(inc, big.NewInt(kxWinNs[i]/1e9))
		r.prevC[i], r.prevT[i] = c, now
	}
	return
}

// average: total increase over the (millisecond-resolution) time since the first non-zero observation.
func (r *refMeter) average(now int64, c uint64) *big.Rat {
	if c == 0 {
		return new(big.Rat)
	}
	if !r.aInit {
		r.aInit, r.aC, r.aT = true, c, now
		return new(big.Rat)
	}
	inc := new(big.Int).Sub(new(big.Int).SetUint64(c), new(big.Int).SetUint64(r.aC))
	d := new(big.Int).Sub(big.NewInt(now), big.NewInt(r.aT))
	if d.Cmp(big.NewInt(math.MaxInt64)) > 0 { // time.Duration saturates
		d.SetInt64(math.MaxInt64)
	}
	ms := new(big.Int).Quo(d, big.NewInt(1e6))
	if inc.Sign() <= 0 || ms.Sign() <= 0 {
		return new(big.Rat)
	}
	return new(big.Rat).SetFrac(new(big.Int).Mul(inc, big.NewInt(1000)), ms)
}

// closeTo: the float the code reports is the exact rational up to float64 rounding
// (three roundings: conversion, multiplication, division — and two more for kbps).
func closeTo(f float64, q *big.Rat) bool {
	if math.IsNaN(f) || math.IsInf(f, 0) || f < 0 {
		return false
	}
	e, _ := q.Float64()
	if e == 0 {
		return f == 0
	}
	return math.Abs(f-e) <= e*math.Ldexp(1, -49)
}

const two63 = uint64(1) << 63

// ---------- generators ----------

var kxDt = []int64{0, 1, 9999999999, 10000000000, 10000000001, 19999999999, 20000000000, 29999999999, 30000000000,
	30000000001, 299999999999, 300000000000, 300000000001, 600000000000, 999999, 1000000, 1000001}

func genDt(r *h.Rand, mode int) int64 {
	switch r.Intn(10) {
	case 0, 1, 2, 3:
		if mode == 0 {
			return 10000000000 + int64(r.Intn(2000000)) // timer jitter
		}
		return 10000000000
	case 4:
		return kxDt[r.Intn(len(kxDt))]
	case 5:
		return int64(r.U64() % 10000000000) // sub-window
	case 6:
		return int64(r.U64() % 40000000000)
	case 7:
		return int64(r.U64() % 700000000000) // multi-window
	case 8:
		if mode >= 2 && r.Chance(30) {
			return -int64(r.U64() % 20000000000) // clock stepped backwards
		}
		return 10000000000
	default:
		return int64(1+r.Intn(40)) * 10000000000
	}
}

func genCount(r *h.Rand, prev uint64, mode int) uint64 {
	lim := two63 - 1
	switch mode {
	case 0: // non-decreasing, realistic
		inc := uint64(0)
		switch r.Intn(6) {
		case 0:
			inc = 0
		case 1:
			inc = 1
		case 2:
			inc = r.U64() % 1000
		case 3:
			inc = r.U64() % 1000000000
		case 4:
			inc = r.U64() % (1 << 40)
		default:
			inc = r.U64() % 100000
		}
		if prev > lim-inc {
			return lim
		}
		return prev + inc
	case 1, 2: // in-domain with stalls, jumps, resets and backward steps
		switch r.Intn(10) {
		case 0:
			return 0
		case 1:
			return uint64(1 + r.Intn(5))
		case 2:
			if prev > 0 {
				return prev - 1 - r.U64()%prev // backward
			}
			return prev
		case 3:
			return prev
		case 4:
			return []uint64{lim, lim - 1, 1 << 53, 1<<53 + 1, 1 << 62}[r.Intn(5)]
		case 5:
			return r.U64() % two63
		default:
			inc := r.U64() % 1000000
			if prev > lim-inc {
				return lim
			}
			return prev + inc
		}
	default: // whole uint64 range, boundary-biased
		switch r.Intn(8) {
		case 0:
			return []uint64{0, 1, two63 - 1, two63, two63 + 1, math.MaxUint64, math.MaxUint64 - 1, two63 + 5}[r.Intn(8)]
		case 1:
			return r.U64()
		case 2:
			return prev
		case 3:
			return prev - r.U64()%1000 // may wrap below 0
		default:
			return prev + r.U64()%1000000007 // may wrap past 2^64
		}
	}
}

var kxModes = []string{"regular", "irregular", "reset-backward", "beyond-2^63"}

func genHistory(r *h.Rand, mode, n int) []kop {
	var ops []kop
	var t int64
	switch r.Intn(5) {
	case 0:
		t = 0
	case 1:
		t = -int64(r.U64() % (1 << 50))
	case 2:
		t = int64(r.U64() % (1 << 61))
	default:
		t = 1500000000000000000 + int64(r.U64()%(1<<50))
	}
	var c uint64
	if r.Chance(70) {
		c = genCount(r, 0, mode)
	}
	startAt := 0
	if r.Chance(30) {
		startAt = r.Intn(n)
	}
	for i := 0; i < n; i++ {
		if i == startAt {
			ops = append(ops, kop{k: 'S'})
		}
		ops = append(ops, kop{k: 's', ns: t, cnt: c})
		if r.Chance(25) {
			ops = append(ops, kop{k: 'a', ns: t + int64(r.Intn(3))*int64(r.U64()%5000000000), cnt: c})
		}
		if r.Chance(20) {
			ops = append(ops, kop{k: 'g'})
		}
		if i == n-2 && r.Chance(10) {
			ops = append(ops, kop{k: 'C'})
		}
		t += genDt(r, mode)
		c = genCount(r, c, mode)
	}
	ops = append(ops, kop{k: 'g'})
	return ops
}

// kxCheck runs one op list through implementation, model and property reference.
func kxCheck(c *h.Ctx, bucket, kind string, ops []kop) {
	impl := kxRun(kind, ops)
	line := opsLine(kind, ops)
	rep := strings.Split(c.O.Call(line), ";")
	if len(rep) != len(ops) {
		c.Eq("run", line, fmt.Sprintf("%d outputs", len(ops)), fmt.Sprintf("%d outputs: %s", len(rep), h.Trunc(strings.Join(rep, ";"), 200)))
		c.Case(bucket, line, false)
		return
	}
	ref := newRef()
	inDomain := true
	nontrivial := false
	agree := true
	for i, o := range ops {
		prefix := opsLine(kind, ops[:i+1]) // minimal replay: the history up to the differing step
		if agree {                         // after the first disagreement only the property predicates are evaluated
			agree = c.Eq("step."+string(o.k), prefix, impl[i].out, modelOut(o, kind, rep[i]))
		}
		switch o.k {
		case 'S':
			ref.started = true
		case 'C':
			ref.started = false
		case 's':
			if o.cnt >= two63 {
				inDomain = false
			}
			for w := 0; w < 3; w++ {
				f := impl[i].rps[w]
				c.Hold(!math.IsNaN(f) && !math.IsInf(f, 0) && f >= 0, "nonneg_finite", prefix, fmt.Sprint(f), "finite, >= 0")
			}
			if !inDomain {
				c.Dist["event/step-beyond-domain"]++
				continue
			}
			prevC := ref.prevC
			fired := ref.observe(o.ns, o.cnt)
			for w := 0; w < 3; w++ {
				c.Hold(closeTo(impl[i].rps[w], ref.rate[w]), "window_rate", prefix,
					fmt.Sprintf("w%d=%v", w, impl[i].rps[w]), "w"+fmt.Sprint(w)+"="+ref.rate[w].FloatString(6))
				if fired[w] {
					c.Dist[fmt.Sprintf("event/fired-w%d", w)]++
					if o.cnt <= prevC[w] {
						c.Dist["event/stall-or-backward-fired"]++
						c.Hold(impl[i].rps[w] == 0, "stall_or_backward_zero", prefix, fmt.Sprint(impl[i].rps[w]), "0")
					} else {
						nontrivial = true
					}
				}
			}
		case 'a':
			f := impl[i].avg
			c.Hold(!math.IsNaN(f) && !math.IsInf(f, 0) && f >= 0, "nonneg_finite", prefix, fmt.Sprint(f), "finite, >= 0")
			if o.cnt >= two63 {
				inDomain = false
			}
			if inDomain {
				q := ref.average(o.ns, o.cnt)
				c.Hold(closeTo(f, q), "average", prefix, fmt.Sprint(f), q.FloatString(6))
				if q.Sign() > 0 {
					c.Dist["event/average-positive"]++
				}
			}
		case 'g':
			for w := 0; w < 3; w++ {
				c.Hold(impl[i].gpan[w] == !ref.started, "not_started_refused", prefix, impl[i].out, fmt.Sprintf("started=%v", ref.started))
			}
			if !ref.started {
				c.Dist["event/getter-refused"]++
			} else if inDomain {
				for w := 0; w < 3; w++ {
					if impl[i].gpan[w] {
						continue
					}
					q := new(big.Rat).Set(ref.rate[w])
					if kind == "kbps" {
						q.Mul(q, big.NewRat(8, 1000)) // bytes/s -> kbit/s
					}
					c.Hold(closeTo(impl[i].pub[w], q), "public_getter", prefix, fmt.Sprint(impl[i].pub[w]), q.FloatString(6))
				}
			}
		}
	}
	c.Case(bucket, line, nontrivial)
}

type c20src struct{ n uint64 }

func (s *c20src) NbRequests() uint64 { return atomic.LoadUint64(&s.n) }

// c20PublicAverage: the public, wall-clock entry point Average() of a started meter. Two reads a few dozen
// milliseconds apart with the counter changed in between: each is the increase since the first non-zero observation
// over the time since then AS OF THAT READ (bounds measured around the calls, so a slow machine cannot fail it).
func c20PublicAverage(c *h.Ctx) {
	src := &c20src{}
	atomic.StoreUint64(&src.n, 10)
	m := kxps.NewKrps(nil, src)
	lo0 := time.Now() // before Start: the sampler goroutine it launches may take the anchor
	if err := m.Start(); err != nil {
		c.Hold(false, "average.public", "krps.Start", err.Error(), "nil")
		return
	}
	defer m.Close()
	a0 := m.Average() // first non-zero observation: anchors, reports 0
	hi0 := time.Now()
	time.Sleep(40 * time.Millisecond)
	atomic.StoreUint64(&src.n, 1010)
	lo1 := time.Now()
	a1 := m.Average()
	hi1 := time.Now()
	time.Sleep(25 * time.Millisecond)
	atomic.StoreUint64(&src.n, 5010)
	lo2 := time.Now()
	a2 := m.Average()
	hi2 := time.Now()
	within := func(a float64, inc int64, lo, hi time.Duration) bool {
		msLo, msHi := int64(lo/time.Millisecond)-1, int64(hi/time.Millisecond)+1
		if msLo < 1 {
			msLo = 1
		}
		return a >= float64(inc)*1000/float64(msHi)-1e-9 && a <= float64(inc)*1000/float64(msLo)+1e-9
	}
	// the anchor was taken at the first Average() or by the sampler goroutine Start() launched: between Start and hi0
	in := "krps public Average(): count 10 at start; +1000 after 40 ms; +4000 after 25 ms more"
	ok1 := within(a1, 1000, lo1.Sub(hi0), hi1.Sub(lo0)+5*time.Millisecond)
	ok2 := within(a2, 5000, lo2.Sub(hi0), hi2.Sub(lo0)+5*time.Millisecond)
	c.Hold(a0 == 0 && ok1 && ok2, "average.public", in, fmt.Sprintf("a0=%v a1=%v a2=%v (elapsed %v / %v)", a0, a1, a2, hi1.Sub(lo0), hi2.Sub(lo0)),
		"0, then 1000/elapsed and 5000/elapsed per second as of each read")
	c.Case("average/public-wall-clock", in, true)
}

// c20dual: one statistics object of a connection, with a request counter AND a byte counter, handed to both meters.
type c20dual struct{ req, bytes uint64 }

func (s *c20dual) NbRequests() uint64 { return atomic.LoadUint64(&s.req) }
func (s *c20dual) TotalBytes() uint64 { return atomic.LoadUint64(&s.bytes) }

// c20DualSource: a request-rate meter and a bitrate meter over ONE source object whose two counters differ: each meter
// reports the rate of the counter it is a meter of (public entry points, wall clock, bounds measured around the calls).
func c20DualSource(c *h.Ctx) {
	src := &c20dual{req: 7, bytes: 1000}
	kr := kxps.NewKrps(nil, src)
	kb := kxps.NewKbps(nil, src)
	lo0 := time.Now() // before Start: the sampler goroutines it launches may take the anchors
	if err := kr.Start(); err != nil {
		c.Hold(false, "average.public", "krps.Start", err.Error(), "nil")
		return
	}
	defer kr.Close()
	if err := kb.Start(); err != nil {
		c.Hold(false, "average.public", "kbps.Start", err.Error(), "nil")
		return
	}
	defer kb.Close()
	r0, b0 := kr.Average(), kb.Average()
	hi0 := time.Now()
	time.Sleep(50 * time.Millisecond)
	atomic.StoreUint64(&src.req, 7+20)
	atomic.StoreUint64(&src.bytes, 1000+50000000)
	lo1 := time.Now()
	r1, b1 := kr.Average(), kb.Average()
	hi1 := time.Now()
	within := func(a float64, inc float64, lo, hi time.Duration) bool {
		msLo, msHi := float64(int64(lo/time.Millisecond)-1), float64(int64(hi/time.Millisecond)+1)
		if msLo < 1 {
			msLo = 1
		}
		return a >= inc*1000/msHi-1e-9 && a <= inc*1000/msLo+1e-9
	}
	in := "one source object with NbRequests() 7 -> 27 and TotalBytes() 1000 -> 50001000 over 50 ms, handed to NewKrps and to NewKbps; public Average() of both"
	okR := within(r1, 20, lo1.Sub(hi0), hi1.Sub(lo0)+5*time.Millisecond)
	okB := within(b1, 50000000.0*8/1000, lo1.Sub(hi0), hi1.Sub(lo0)+5*time.Millisecond)
	c.Hold(r0 == 0 && b0 == 0 && okR && okB, "average.public", in, fmt.Sprintf("first reads %v %v; then requests/s=%v kbit/s=%v (elapsed %v)", r0, b0, r1, b1, hi1.Sub(lo0)),
		"0 0, then 20/elapsed requests per second and 400000/elapsed kbit per second")
	c.Case("average/public-dual-source", in, true)
}

func c20(c *h.Ctx) {
	c20PublicAverage(c)
	c20DualSource(c)
	r := c.R

	// 0. regression corpus: the repository's own scripted walk, and the boundary of the stated domain.
	sec := func(s int64) int64 { return s * 1000000000 }
	walk := []kop{{k: 'S'}, {k: 's', ns: 0, cnt: 0}, {k: 's', ns: sec(10), cnt: 10}, {k: 's', ns: sec(20), cnt: 20}, {k: 's', ns: sec(30), cnt: 20},
		{k: 's', ns: sec(40), cnt: 30}, {k: 's', ns: sec(50), cnt: 30}, {k: 's', ns: sec(310), cnt: 40}, {k: 's', ns: sec(320), cnt: 40},
		{k: 's', ns: sec(340), cnt: 40}, {k: 's', ns: sec(610), cnt: 40}, {k: 'g'},
		{k: 'a', ns: 0, cnt: 0}, {k: 'a', ns: sec(10), cnt: 10}, {k: 'a', ns: sec(10), cnt: 20}, {k: 'a', ns: sec(20), cnt: 20}}
	kxCheck(c, "corpus/repo-test-walk", "rps", walk)
	kxCheck(c, "corpus/repo-test-walk", "kbps", walk)

	// The documented boundary (DESIGN 8/C20): beyond counts < 2^63 a backward step of more than 2^63
	// is indistinguishable from a wrap. Lean: Props.C20.backward_wrap_witness. Reported as a known finding.
	{
		ops := []kop{{k: 's', ns: 0, cnt: two63 + 5}, {k: 's', ns: sec(10), cnt: 1}}
		impl := kxRun("rps", ops)
		line := opsLine("rps", ops)
		rep := strings.Split(c.O.Call(line), ";")
		c.Eq("step.s", line, impl[1].out, modelOut(ops[1], "rps", rep[len(rep)-1]))
		c.Hold(impl[1].rps[0] == 0, "stall_or_backward_zero", line, fmt.Sprint(impl[1].rps[0]), "0 (counter went backwards)")
		c.Case("corpus/boundary-2^63-backward", line, true)
	}
	// a genuine wrap of a non-decreasing counter past 2^64 reads as its true increase
	{
		ops := []kop{{k: 's', ns: 0, cnt: math.MaxUint64 - 9}, {k: 's', ns: sec(10), cnt: 90}}
		impl := kxRun("rps", ops)
		line := opsLine("rps", ops)
		rep := strings.Split(c.O.Call(line), ";")
		c.Eq("step.s", line, impl[1].out, modelOut(ops[1], "rps", rep[len(rep)-1]))
		c.Hold(impl[1].rps[0] == 10, "wrap_reads_increase", line, fmt.Sprint(impl[1].rps[0]), "10")
		c.Case("corpus/wrap-2^64", line, true)
	}

	// 1. boundary grid: (first observation) x (gap) x (second count) x (third step), all windows' edges.
	cnts := []uint64{1, 2, 1000, 1 << 53, 1<<53 + 1, two63 - 1}
	deltas := []int64{-1000, -1, 0, 1, 7, 1000000, 1 << 54}
	for _, c0 := range cnts {
		for _, dt := range kxDt {
			for _, dc := range deltas {
				var c1 uint64
				if dc < 0 {
					if uint64(-dc) > c0 {
						continue
					}
					c1 = c0 - uint64(-dc)
				} else {
					c1 = c0 + uint64(dc)
					if c1 >= two63 {
						continue
					}
				}
				ops := []kop{{k: 'S'}, {k: 's', ns: 5, cnt: c0}, {k: 's', ns: 5 + dt, cnt: c1}, {k: 'g'},
					{k: 's', ns: 5 + dt + 30000000000, cnt: c1 + 3}, {k: 'a', ns: 5, cnt: c0}, {k: 'a', ns: 5 + dt, cnt: c1}, {k: 'g'}}
				kind := "rps"
				if (dt+dc)&1 == 1 {
					kind = "kbps"
				}
				kxCheck(c, "grid/edges", kind, ops)
			}
		}
	}

	// 2. random histories.
	n := c.N(600, 30000)
	for i := 0; i < n; i++ {
		mode := i % len(kxModes)
		kind := "rps"
		if r.Bool() {
			kind = "kbps"
		}
		steps := 5 + r.Intn(c.N(50, 90))
		kxCheck(c, "hist/"+kxModes[mode]+"/"+kind, kind, genHistory(r, mode, steps))
	}

	// 3. extreme times: Time.Sub saturation in the average, windows at the ends of the int64 nanosecond range.
	ext := []int64{math.MinInt64, math.MinInt64 + 1, -(1 << 62) - (1 << 61), -1, 0, 1, 1<<62 + 1<<61, math.MaxInt64 - 10000000000, math.MaxInt64 - 1, math.MaxInt64}
	for _, t0 := range ext {
		for _, t1 := range ext {
			ops := []kop{{k: 's', ns: t0, cnt: 7}, {k: 'a', ns: t0, cnt: 7}, {k: 's', ns: t1, cnt: 1007}, {k: 'a', ns: t1, cnt: 1007}}
			kxCheck(c, "hist/extreme-times", "rps", ops)
		}
	}

	// 4. the public Average() (wall clock): after the first observation is planted 1000 s in the past
	// through the hook, the reported value must be the model's for one of the milliseconds the call spanned.
	for i := 0; i < c.N(20, 200); i++ {
		kind := "rps"
		if i&1 == 1 {
			kind = "kbps"
		}
		c0 := 1 + r.U64()%1000000
		c1 := c0 + r.U64()%(1<<uint(10+r.Intn(50)))
		var m *kxps.VerifMeter
		if kind == "kbps" {
			m = kxps.VerifNewKbps()
		} else {
			m = kxps.VerifNewKrps()
		}
		canon := fmt.Sprintf("public-average %s %d %d", kind, c0, c1)
		refused := h.Safe(func() string {
			if m.Kbps != nil {
				m.Kbps.Average()
			} else {
				m.Krps.Average()
			}
			return "ok"
		})
		c.Hold(refused == "panic", "not_started_refused", canon, refused, "panic")
		m.MarkStarted()
		before := time.Now()
		t0 := before.UnixNano() - 1000000000000
		m.Src.V = c0
		m.SampleAverage(time.Unix(0, t0))
		m.Src.V = c1
		var v float64
		if m.Kbps != nil {
			v = m.Kbps.Average()
		} else {
			v = m.Krps.Average()
		}
		after := time.Now()
		ok := false
		var cands []string
		for ms := (before.UnixNano() - t0) / 1000000; ms <= (after.UnixNano()-t0)/1000000+1 && len(cands) < 50; ms++ {
			rep := strings.Split(c.O.Call("kxps.run", kind, "S", fmt.Sprintf("a:%d:%d", t0, c0), fmt.Sprintf("A:%d:%d", t0+ms*1000000, c1)), ";")
			b := rateBits(rep[len(rep)-1], kind == "kbps")
			cands = append(cands, b)
			if b == fbits(v) {
				ok = true
			}
		}
		c.Hold(ok, "public_average", canon, fbits(v), strings.Join(cands, "|"))
		c.Trace()
		c.Case("public-average/"+kind, canon, c1 > c0)
	}
}
