package main

// C10 — FLV audio/video tag bodies: packagers vs Lean model; round trip, first-byte fields,
// canonical re-encoding, rate tables, enum helper totality.

import (
	"bytes"
	"fmt"
	"strings"

	"github.com/ossrs/go-oryx-lib/aac"
	"github.com/ossrs/go-oryx-lib/flv"
	"verifharness/internal/h"
)

func init() { register("C10", c10) }

type aFrame struct {
	fmt, rate, size, ch, trait uint8
	level                      uint16
	raw                        []byte
}

func (f aFrame) str() string {
	return fmt.Sprintf("%d %d %d %d %d %d %s", f.fmt, f.rate, f.size, f.ch, f.trait, f.level, h.Hex(f.raw))
}

func (f aFrame) goFrame() *flv.AudioFrame {
	return &flv.AudioFrame{SoundFormat: flv.AudioCodec(f.fmt), SoundRate: flv.AudioSamplingRate(f.rate),
		SoundSize: flv.AudioSampleBits(f.size), SoundType: flv.AudioChannels(f.ch),
		Trait: flv.AudioFrameTrait(f.trait), AudioLevel: f.level, Raw: f.raw}
}

// canonical = the domain of the round-trip theorem (Oryx.Flv.AudioFrame.Canonical).
func (f aFrame) canonical() bool {
	if f.fmt >= 16 || f.size >= 2 || f.ch >= 2 {
		return false
	}
	switch f.fmt {
	case 10:
		return f.rate < 4 && f.level == 0
	case 13:
		return (f.trait&4 == 4 || f.rate == 0) && (f.trait&8 == 8 || f.level == 0)
	}
	return f.rate < 4 && f.trait == 0 && f.level == 0
}

func audioEnc(f aFrame) string {
	return h.Safe(func() string {
		p, _ := flv.NewAudioPackager()
		b, err := p.Encode(f.goFrame())
		if err != nil {
			return "err"
		}
		return h.Hex(b)
	})
}

func audioDec(b []byte) string {
	return h.Safe(func() string {
		p, _ := flv.NewAudioPackager()
		f, err := p.Decode(b)
		if err != nil {
			return "err"
		}
		return "ok " + aFrame{uint8(f.SoundFormat), uint8(f.SoundRate), uint8(f.SoundSize), uint8(f.SoundType),
			uint8(f.Trait), f.AudioLevel, f.Raw}.str()
	})
}

// audioReenc decodes and re-encodes with the real packager (canonical-tag clause).
func audioReenc(b []byte) string {
	return h.Safe(func() string {
		p, _ := flv.NewAudioPackager()
		f, err := p.Decode(b)
		if err != nil {
			return "err"
		}
		o, err := p.Encode(f)
		if err != nil {
			return "err"
		}
		return h.Hex(o)
	})
}

type vFrame struct {
	codec, ft, trait uint8
	cts              uint32 // uint32(int32 CTS)
	raw              []byte
}

func (f vFrame) str() string {
	return fmt.Sprintf("%d %d %d %d %s", f.codec, f.ft, f.trait, f.cts, h.Hex(f.raw))
}
func (f vFrame) canonical() bool {
	if f.codec >= 16 || f.ft >= 16 {
		return false
	}
	if f.codec == 7 || f.codec == 12 {
		return f.cts < 1<<24
	}
	return f.trait == 0 && f.cts == 0
}
func videoEnc(f vFrame) string {
	return h.Safe(func() string {
		p, _ := flv.NewVideoPackager()
		b, err := p.Encode(&flv.VideoFrame{CodecID: flv.VideoCodec(f.codec), FrameType: flv.VideoFrameType(f.ft),
			Trait: flv.VideoFrameTrait(f.trait), CTS: int32(f.cts), Raw: f.raw})
		if err != nil {
			return "err"
		}
		return h.Hex(b)
	})
}
func videoDec(b []byte) string {
	return h.Safe(func() string {
		p, _ := flv.NewVideoPackager()
		f, err := p.Decode(b)
		if err != nil {
			return "err"
		}
		return "ok " + vFrame{uint8(f.CodecID), uint8(f.FrameType), uint8(f.Trait), uint32(f.CTS), f.Raw}.str()
	})
}
func videoReenc(b []byte) string {
	return h.Safe(func() string {
		p, _ := flv.NewVideoPackager()
		f, err := p.Decode(b)
		if err != nil {
			return "err"
		}
		o, err := p.Encode(f)
		if err != nil {
			return "err"
		}
		return h.Hex(o)
	})
}

var c10RawLens = []int{0, 1, 2, 3, 4, 5, 100}

// audioFrameCase: correspondence + the property clauses for one frame.
func audioFrameCase(c *h.Ctx, bucket string, f aFrame) {
	in := "flv.audio.enc " + f.str()
	enc := audioEnc(f)
	c.Eq("audio.enc", in, enc, c.O.Call(strings.Fields(in)...))
	c.Hold(enc != "panic" && enc != "err", "audio.enc_ok", in, enc, "bytes")
	if enc == "panic" || enc == "err" {
		c.Case(bucket, in, false)
		return
	}
	b := h.UnHex(enc)
	dec := audioDec(b)
	c.Eq("audio.dec", "flv.audio.dec "+enc, dec, c.O.Call("flv.audio.dec", enc))
	if f.canonical() {
		c.Hold(dec == "ok "+f.str(), "audio_roundtrip", in, dec, "ok "+f.str())
		// first byte = SoundFormat UB[4] SoundRate UB[2] SoundSize UB[1] SoundType UB[1] (E.4.2.1);
		// for Opus the rate bits are 0 (the rate travels behind the trait byte)
		rate := f.rate
		if f.fmt == 13 {
			rate = 0
		}
		want := c.O.Call("flv.spec.audiobyte", fmt.Sprint(f.fmt), fmt.Sprint(rate), fmt.Sprint(f.size), fmt.Sprint(f.ch))
		c.Hold(len(b) > 0 && fmt.Sprint(b[0]) == want && b[0]>>4 == f.fmt, "audio_first_byte", in, enc, "first byte "+want)
	}
	c.Case(bucket, in, true)
}

func videoFrameCase(c *h.Ctx, bucket string, f vFrame) {
	in := "flv.video.enc " + f.str()
	enc := videoEnc(f)
	c.Eq("video.enc", in, enc, c.O.Call(strings.Fields(in)...))
	c.Hold(enc != "panic" && enc != "err", "video.enc_ok", in, enc, "bytes")
	if enc == "panic" || enc == "err" {
		c.Case(bucket, in, false)
		return
	}
	b := h.UnHex(enc)
	dec := videoDec(b)
	c.Eq("video.dec", "flv.video.dec "+enc, dec, c.O.Call("flv.video.dec", enc))
	if f.canonical() {
		c.Hold(dec == "ok "+f.str(), "video_roundtrip", in, dec, "ok "+f.str())
		want := c.O.Call("flv.spec.videobyte", fmt.Sprint(f.ft), fmt.Sprint(f.codec))
		c.Hold(len(b) > 0 && fmt.Sprint(b[0]) == want && b[0]&0x0f == f.codec && b[0]>>4 == f.ft,
			"video_first_byte", in, enc, "first byte "+want)
	}
	c.Case(bucket, in, true)
}

// audioTagCase: decode side for an arbitrary tag body.
func audioTagCase(c *h.Ctx, bucket string, b []byte) {
	hx := h.Hex(b)
	in := "flv.audio.dec " + hx
	dec := audioDec(b)
	c.Eq("audio.dec", in, dec, c.O.Call("flv.audio.dec", hx))
	c.Hold(dec != "panic", "no_panic", in, dec, "ok|err")
	// canonical tag bodies re-encode to themselves: every accepted body, except an Opus body whose
	// (unused) rate bits 2-3 of the first byte are set
	if strings.HasPrefix(dec, "ok ") && !(b[0]>>4 == 13 && b[0]&0x0c != 0) {
		re := audioReenc(b)
		c.Hold(re == hx, "audio_canonical_tag_rt", in, re, hx)
	}
	c.Case(bucket+"/"+strings.Fields(dec)[0], in, true)
}

func videoTagCase(c *h.Ctx, bucket string, b []byte) {
	hx := h.Hex(b)
	in := "flv.video.dec " + hx
	dec := videoDec(b)
	c.Eq("video.dec", in, dec, c.O.Call("flv.video.dec", hx))
	c.Hold(dec != "panic", "no_panic", in, dec, "ok|err")
	if strings.HasPrefix(dec, "ok ") {
		re := videoReenc(b)
		c.Hold(re == hx, "video_canonical_tag_rt", in, re, hx)
	}
	c.Case(bucket+"/"+strings.Fields(dec)[0], in, true)
}

func c10(c *h.Ctx) {
	r := c.R

	// 0a. one packager, several frames, every tag RETAINED until all are encoded: a tag handed out must stay
	// what it was (no aliasing of packager-internal buffers), and must still decode to its own frame.
	{
		ap, _ := flv.NewAudioPackager()
		vp, _ := flv.NewVideoPackager()
		type kept struct {
			tag  []byte
			snap string
			in   string
			aud  bool
		}
		var keep []kept
		for i := 0; i < 40; i++ {
			if i%2 == 0 {
				f := &flv.AudioFrame{SoundFormat: flv.AudioCodec(r.Pick(10, 13, 2, 13)), SoundRate: flv.AudioSamplingRate(3), SoundSize: 1, SoundType: 1, Raw: r.Bytes(1 + r.Intn(12))}
				if f.SoundFormat == 13 {
					f.SoundRate = 0
					f.Trait = flv.AudioFrameTrait(r.Pick(0, 4, 8, 12))
					if f.Trait&4 == 4 {
						f.SoundRate = flv.AudioSamplingRate(r.Pick(8, 12, 16, 24, 48))
					}
					if f.Trait&8 == 8 {
						f.AudioLevel = uint16(r.Intn(65536))
					}
				}
				if b, err := ap.Encode(f); err == nil {
					keep = append(keep, kept{b, h.Hex(b), fmt.Sprintf("retained audio #%d fmt=%d trait=%d raw=%s", i, f.SoundFormat, f.Trait, h.Hex(f.Raw)), true})
				}
			} else {
				f := flv.NewVideoFrame()
				f.CodecID, f.FrameType, f.Trait, f.CTS, f.Raw = flv.VideoCodec(r.Pick(7, 12, 2)), flv.VideoFrameType(1+r.Intn(5)), flv.VideoFrameTrait(r.Intn(2)), int32(r.Pick(0, 1, 0x10000, 0xffffff)), r.Bytes(r.Intn(12))
				if f.CodecID == 2 {
					f.Trait, f.CTS = 0, 0
				}
				if b, err := vp.Encode(f); err == nil {
					keep = append(keep, kept{b, h.Hex(b), fmt.Sprintf("retained video #%d codec=%d cts=%d raw=%s", i, f.CodecID, f.CTS, h.Hex(f.Raw)), false})
				}
			}
		}
		for _, k := range keep {
			c.Hold(h.Hex(k.tag) == k.snap, "encode.tag_not_aliased", k.in, h.Hex(k.tag), k.snap)
			c.Case("retained-tags", k.in, true)
		}
		// the same (long-lived) packagers decode all the tags; every decoded frame is HELD, then compared with
		// what a fresh packager decodes: no state may leak from one Decode to the next or into a returned frame.
		type dec struct{ got, want, in string }
		var heldA []*flv.AudioFrame
		var heldV []*flv.VideoFrame
		var wants []dec
		for _, k := range keep {
			tag := h.UnHex(k.snap)
			if k.aud {
				f, err := ap.Decode(tag)
				if err == nil {
					heldA = append(heldA, f)
					wants = append(wants, dec{"", audioDec(tag), k.in})
				}
			} else {
				f, err := vp.Decode(tag)
				if err == nil {
					heldV = append(heldV, f)
					wants = append(wants, dec{"", videoDec(tag), k.in})
				}
			}
		}
		ia, iv := 0, 0
		for i, k := range keep {
			_ = i
			if k.aud && ia < len(heldA) {
				f := heldA[ia]
				ia++
				got := "ok " + aFrame{uint8(f.SoundFormat), uint8(f.SoundRate), uint8(f.SoundSize), uint8(f.SoundType), uint8(f.Trait), f.AudioLevel, f.Raw}.str()
				c.Hold(got == audioDec(h.UnHex(k.snap)), "decode.frame_not_aliased", k.in, got, audioDec(h.UnHex(k.snap)))
			} else if !k.aud && iv < len(heldV) {
				f := heldV[iv]
				iv++
				got := "ok " + vFrame{uint8(f.CodecID), uint8(f.FrameType), uint8(f.Trait), uint32(f.CTS), f.Raw}.str()
				c.Hold(got == videoDec(h.UnHex(k.snap)), "decode.frame_not_aliased", k.in, got, videoDec(h.UnHex(k.snap)))
			}
		}
		_ = wants
	}

	// 0b. remux with edits on ONE long-lived packager: decode a tag, change the frame (another payload of the same
	// length, of another length, another composition time), encode it again with the same packager — the result is
	// what a fresh packager encodes for the frame as it is NOW; nothing of the tag it came from may come back.
	{
		vp, _ := flv.NewVideoPackager()
		ap, _ := flv.NewAudioPackager()
		for i := 0; i < c.N(120, 3000); i++ {
			if i%2 == 0 {
				src := flv.NewVideoFrame()
				src.CodecID, src.FrameType, src.Trait, src.CTS, src.Raw = flv.VideoCodec(r.Pick(7, 12, 2, 4)), flv.VideoFrameType(1+r.Intn(5)), flv.VideoFrameTrait(r.Intn(2)), int32(r.Pick(0, 1, 500)), r.Bytes(r.Intn(10))
				if src.CodecID != 7 && src.CodecID != 12 {
					src.Trait, src.CTS = 0, 0
				}
				tag, err := vp.Encode(src)
				if err != nil {
					continue
				}
				f, err := vp.Decode(tag)
				if err != nil {
					continue
				}
				edit := r.Intn(3)
				switch edit {
				case 0:
					f.Raw = r.Bytes(len(f.Raw)) // same length, other bytes, another slice
				case 1:
					f.Raw = r.Bytes(1 + r.Intn(12))
				default:
					if f.CodecID == 7 || f.CodecID == 12 {
						f.CTS = int32(r.Intn(1 << 20))
					} else {
						f.Raw = r.Bytes(len(f.Raw))
					}
				}
				got, e1 := vp.Encode(f)
				fp, _ := flv.NewVideoPackager()
				cp := *f
				want, e2 := fp.Encode(&cp)
				in := fmt.Sprintf("video remux: Decode(%s); edit %d -> raw=%s cts=%d; Encode on the same packager", h.Hex(tag), edit, h.Hex(f.Raw), f.CTS)
				c.Hold((e1 == nil) == (e2 == nil) && bytes.Equal(got, want), "encode.frame_as_it_is_now", in, h.Hex(got), h.Hex(want))
				c.Case("remux/video", in, true)
			} else {
				src := &flv.AudioFrame{SoundFormat: flv.AudioCodec(r.Pick(10, 13, 2)), SoundRate: 3, SoundSize: 1, SoundType: 1, Raw: r.Bytes(1 + r.Intn(10))}
				if src.SoundFormat == 13 {
					src.SoundRate = 0
				}
				tag, err := ap.Encode(src)
				if err != nil {
					continue
				}
				f, err := ap.Decode(tag)
				if err != nil {
					continue
				}
				if r.Bool() {
					f.Raw = r.Bytes(len(f.Raw))
				} else {
					f.Raw = r.Bytes(1 + r.Intn(12))
				}
				got, e1 := ap.Encode(f)
				fp, _ := flv.NewAudioPackager()
				cp := *f
				want, e2 := fp.Encode(&cp)
				in := fmt.Sprintf("audio remux: Decode(%s); raw -> %s; Encode on the same packager", h.Hex(tag), h.Hex(f.Raw))
				c.Hold((e1 == nil) == (e2 == nil) && bytes.Equal(got, want), "encode.frame_as_it_is_now", in, h.Hex(got), h.Hex(want))
				c.Case("remux/audio", in, true)
			}
		}
	}

	// 0. fixed regression cases (F7, F8, F9) — the formerly failing inputs.
	for _, v := range []int{4, 8, 12, 16, 24, 48} { // F7
		in := fmt.Sprintf("flv.tohz %d", v)
		impl := h.Safe(func() string { return fmt.Sprintf("ok %d", flv.AudioSamplingRate(v).ToHz()) })
		c.Eq("tohz", in, impl, c.O.Call("flv.tohz", fmt.Sprint(v)))
		c.Hold(impl != "panic", "no_panic", in, impl, "ok")
		in = fmt.Sprintf("flv.opustohz %d", v)
		impl = h.Safe(func() string { return fmt.Sprintf("ok %d", flv.AudioSamplingRate(v).OpusToHz()) })
		c.Eq("opustohz", in, impl, c.O.Call("flv.opustohz", fmt.Sprint(v)))
		c.Hold(impl != "panic", "no_panic", in, impl, "ok")
		c.Case("regression/F7-tohz", in, true)
	}
	for _, rate := range []uint8{8, 12, 24} { // F8
		audioFrameCase(c, "regression/F8-opus-rate", aFrame{fmt: 13, rate: rate, size: 1, ch: 1, trait: 6, raw: []byte{0xaa}})
	}
	audioFrameCase(c, "regression/F9-short-body", aFrame{fmt: 2, rate: 3, size: 1, ch: 1}) // body 2f
	videoFrameCase(c, "regression/F9-short-body", vFrame{codec: 2, ft: 5, raw: []byte{0}}) // body 52 00
	videoFrameCase(c, "regression/F9-short-body", vFrame{codec: 2, ft: 1})                 // body 12

	// 1. rate tables and enum helpers over all 256 values.
	for v := 0; v < 256; v++ {
		vs := fmt.Sprint(v)
		impl := h.Safe(func() string { return fmt.Sprintf("ok %d", flv.AudioSamplingRate(v).ToHz()) })
		c.Eq("tohz", "flv.tohz "+vs, impl, c.O.Call("flv.tohz", vs))
		c.Hold(impl != "panic", "no_panic", "flv.tohz "+vs, impl, "ok")
		if want := c.O.Call("flv.spec.hz", vs); want != "none" {
			c.Hold(impl == "ok "+want, "rates.flv", "flv.tohz "+vs, impl, "ok "+want)
		}
		impl2 := h.Safe(func() string { return fmt.Sprintf("ok %d", flv.AudioSamplingRate(v).OpusToHz()) })
		c.Eq("opustohz", "flv.opustohz "+vs, impl2, c.O.Call("flv.opustohz", vs))
		c.Hold(impl2 != "panic", "no_panic", "flv.opustohz "+vs, impl2, "ok")
		if want := c.O.Call("flv.spec.opushz", vs); want != "none" {
			c.Hold(impl2 == "ok "+want, "rates.opus", "flv.opustohz "+vs, impl2, "ok "+want)
		}
		c.Case("helpers/tohz", "tohz "+vs, true)
		strs := map[string]func() string{
			"TagType":           func() string { return flv.TagType(v).String() },
			"AudioFrameTrait":   func() string { return flv.AudioFrameTrait(v).String() },
			"AudioChannels":     func() string { return flv.AudioChannels(v).String() },
			"AudioSampleBits":   func() string { return flv.AudioSampleBits(v).String() },
			"AudioSamplingRate": func() string { return flv.AudioSamplingRate(v).String() },
			"AudioCodec":        func() string { return flv.AudioCodec(v).String() },
			"VideoFrameType":    func() string { return flv.VideoFrameType(v).String() },
			"VideoCodec":        func() string { return flv.VideoCodec(v).String() },
			"VideoFrameTrait":   func() string { return flv.VideoFrameTrait(v).String() },
		}
		for _, name := range []string{"TagType", "AudioFrameTrait", "AudioChannels", "AudioSampleBits", "AudioSamplingRate",
			"AudioCodec", "VideoFrameType", "VideoCodec", "VideoFrameTrait"} {
			f := strs[name]
			impl := h.Safe(func() string { return "ok " + f() })
			in := "flv.str " + name + " " + vs
			c.Eq("str", in, impl, c.O.Call("flv.str", name, vs))
			c.Hold(impl != "panic", "no_panic", in, impl, "ok")
			c.Case("helpers/String", in, true)
		}
		// From/OpusFrom (pointer receivers; translated by extract/facts_flv.go): all aac index values
		impl3 := h.Safe(func() string {
			var a, b flv.AudioSamplingRate
			var ch flv.AudioChannels
			a.From(aac.SampleRateIndex(v))
			b.OpusFrom(aac.SampleRateIndex(v))
			ch.From(aac.Channels(v))
			return fmt.Sprintf("ok %d %d %d", a, b, ch)
		})
		c.Eq("from", "flv.from "+vs, impl3, c.O.Call("flv.from", vs))
		c.Hold(impl3 != "panic", "no_panic", "flv.from "+vs, impl3, "ok")
		c.Case("helpers/From", "from "+vs, true)
	}

	// 2. audio frames: all 16 formats x rate/size/channel bits x trait-flag subsets x raw lengths.
	aacTraits := []uint8{0, 1, 2, 0x7f, 0xff}
	levels := []uint16{0, 1, 255, 256, 0xabcd, 65535}
	opusRates := []uint8{8, 12, 16, 24, 48}
	for f := 0; f < 16; f++ {
		for rate := 0; rate < 4; rate++ {
			for size := 0; size < 2; size++ {
				for ch := 0; ch < 2; ch++ {
					for _, n := range c10RawLens {
						base := aFrame{fmt: uint8(f), rate: uint8(rate), size: uint8(size), ch: uint8(ch), raw: r.Bytes(n)}
						switch f {
						case 10:
							for _, t := range aacTraits {
								x := base
								x.trait = t
								audioFrameCase(c, "audio/aac", x)
							}
						case 13:
							// all 16 subsets of the trait bits {1,2,4,8}
							for t := 0; t < 16; t++ {
								x := base
								x.trait = uint8(t)
								if t&4 == 4 {
									// rate byte present: every defined Opus rate in turn, plus the 2-bit value
									x.rate = opusRates[(rate+size*4+ch*8+n)%len(opusRates)]
									if (rate+n)%4 == 3 {
										x.rate = uint8(rate)
									}
								} else if rate != 0 {
									// rate without a carrier: not canonical (correspondence only)
									audioFrameCase(c, "audio/opus-noncanonical", x)
									continue
								}
								if t&8 == 8 {
									x.level = levels[(rate+size+ch+n+t)%len(levels)]
								}
								audioFrameCase(c, fmt.Sprintf("audio/opus/trait=%d", t), x)
							}
						default:
							audioFrameCase(c, "audio/plain", base)
						}
					}
				}
			}
		}
	}
	// every defined Opus rate x all SR-carrying trait subsets x all levels (small raw)
	for _, rate := range opusRates {
		for t := 0; t < 16; t++ {
			if t&4 == 0 {
				continue
			}
			for _, lv := range levels {
				if t&8 == 0 && lv != 0 {
					continue
				}
				audioFrameCase(c, fmt.Sprintf("audio/opus-rates/rate=%d", rate),
					aFrame{fmt: 13, rate: rate, size: uint8(t & 1), ch: uint8(t >> 1 & 1), trait: uint8(t), level: lv, raw: r.Bytes(r.Pick(0, 1, 5))})
			}
		}
	}
	// Opus: all 256 rate bytes and all 256 trait bytes
	for v := 0; v < 256; v++ {
		audioFrameCase(c, "audio/opus-sweep/rate", aFrame{fmt: 13, rate: uint8(v), size: 1, ch: 0, trait: 6, raw: []byte{1, 2}})
		x := aFrame{fmt: 13, size: 0, ch: 1, trait: uint8(v), raw: []byte{9}}
		if v&4 == 4 {
			x.rate = 48
		}
		if v&8 == 8 {
			x.level = 0x1234
		}
		audioFrameCase(c, "audio/opus-sweep/trait", x)
		audioFrameCase(c, "audio/aac-sweep/trait", aFrame{fmt: 10, rate: 3, size: 1, ch: 1, trait: uint8(v), raw: []byte{0x12, 0x10}})
	}
	// non-canonical frames (out-of-width fields): correspondence only
	for i := 0; i < c.N(300, 5000); i++ {
		audioFrameCase(c, "audio/random-fields", aFrame{fmt: uint8(r.Intn(20)), rate: uint8(r.Pick(0, 1, 3, 4, 8, 255)), size: uint8(r.Intn(3)),
			ch: uint8(r.Intn(3)), trait: uint8(r.Intn(256)), level: uint16(r.U64()), raw: r.Bytes(r.Intn(6))})
	}

	// 3. video frames: all frame types x codec ids x traits x composition times x raw lengths.
	ctss := []uint32{0, 1, 255, 256, 65535, 65536, 0x123456, 1<<24 - 1}
	k := 0
	for ft := 0; ft < 16; ft++ {
		for codec := 0; codec < 16; codec++ {
			for _, n := range c10RawLens {
				x := vFrame{codec: uint8(codec), ft: uint8(ft), raw: r.Bytes(n)}
				if codec == 7 || codec == 12 {
					for _, t := range []uint8{0, 1, 2, 3, 255} {
						x.trait = t
						x.cts = ctss[k%len(ctss)]
						k++
						videoFrameCase(c, "video/avc-hevc", x)
					}
				} else {
					videoFrameCase(c, "video/plain", x)
				}
			}
		}
	}
	for _, cts := range ctss {
		for _, codec := range []uint8{7, 12} {
			videoFrameCase(c, "video/cts", vFrame{codec: codec, ft: 1, trait: 1, cts: cts, raw: []byte{0, 0, 0, 1, 0x65}})
		}
	}
	for i := 0; i < c.N(300, 5000); i++ { // non-canonical: negative / > 24-bit CTS, wide fields
		videoFrameCase(c, "video/random-fields", vFrame{codec: uint8(r.Pick(2, 7, 12, 16, 23, 255)), ft: uint8(r.Intn(20)),
			trait: uint8(r.Intn(4)), cts: uint32(r.U64()), raw: r.Bytes(r.Intn(6))})
	}

	// 4. tag bodies, decode side: all 256 first bytes x trait bytes x tails.
	traits := []int{0, 1, 2, 4, 6, 8, 10, 12, 14, 15, 0x80, 0xff}
	if c.Thorough() {
		traits = nil
		for t := 0; t < 256; t++ {
			traits = append(traits, t)
		}
	}
	for b0 := 0; b0 < 256; b0++ {
		audioTagCase(c, "tag/audio/first-byte-only", []byte{byte(b0)})
		videoTagCase(c, "tag/video/first-byte-only", []byte{byte(b0)})
		for _, t := range traits {
			if !(b0>>4 == 10 || b0>>4 == 13) && t > 2 && !c.Thorough() {
				continue
			}
			for _, n := range c10RawLens {
				audioTagCase(c, "tag/audio/sweep", append([]byte{byte(b0), byte(t)}, r.Bytes(n)...))
			}
		}
		for _, n := range c10RawLens {
			videoTagCase(c, "tag/video/sweep", append([]byte{byte(b0)}, r.Bytes(n)...))
		}
	}
	audioTagCase(c, "tag/audio/empty", nil)
	videoTagCase(c, "tag/video/empty", nil)

	// 5. malformed stream: truncations and mutations of valid bodies, random bytes.
	for i := 0; i < c.N(2000, 60000); i++ {
		var b []byte
		switch r.Intn(3) {
		case 0:
			b = r.Bytes(r.Intn(12))
		case 1:
			e := audioEnc(aFrame{fmt: uint8(r.Pick(2, 10, 13, 13, 13)), rate: uint8(r.Pick(0, 3, 16, 24)), size: uint8(r.Intn(2)), ch: uint8(r.Intn(2)),
				trait: uint8(r.Intn(16)), level: uint16(r.U64()), raw: r.Bytes(r.Intn(5))})
			b = h.UnHex(e)
		default:
			e := videoEnc(vFrame{codec: uint8(r.Pick(2, 4, 7, 12)), ft: uint8(r.Intn(6)), trait: uint8(r.Intn(3)), cts: uint32(r.Intn(1 << 24)), raw: r.Bytes(r.Intn(5))})
			b = h.UnHex(e)
		}
		if r.Bool() && len(b) > 0 {
			b = b[:r.Intn(len(b)+1)]
		}
		if r.Bool() && len(b) > 0 {
			b = append([]byte(nil), b...)
			b[r.Intn(len(b))] = byte(r.U64())
		}
		audioTagCase(c, "malformed/audio", b)
		videoTagCase(c, "malformed/video", b)
	}
}
