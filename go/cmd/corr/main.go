// corr: correspondence + property-oracle driver. One sub-command per property.
// Calls the real library in-process (built with -tags verif against /repo's
// working tree) and the Lean model through the `oracle` executable.
package main

import (
	"runtime/debug"
	"strconv"
	"time"
	"encoding/json"
	"flag"
	"fmt"
	"os"
	"sort"

	"verifharness/internal/h"
)

var registry = map[string]func(*h.Ctx){}

func register(id string, f func(*h.Ctx)) { registry[id] = f }

func main() {
	tier := flag.String("tier", "quick", "quick|thorough")
	seed := flag.Uint64("seed", 1, "VERIF_SEED")
	oracle := flag.String("oracle", "", "path to the oracle executable")
	replays := flag.String("replays", "replays", "directory for replay files")
	findings := flag.String("findings", "known_findings.json", "known findings file")
	flag.Parse()
	if flag.NArg() != 1 {
		ids := []string{}
		for k := range registry {
			ids = append(ids, k)
		}
		sort.Strings(ids)
		fmt.Fprintf(os.Stderr, "usage: corr [flags] <property>; known: %v\n", ids)
		os.Exit(2)
	}
	id := flag.Arg(0)
	f, ok := registry[id]
	if !ok {
		fmt.Fprintf(os.Stderr, "no correspondence driver for %s\n", id)
		os.Exit(2)
	}
	var o *h.Oracle
	if *oracle != "" {
		var err error
		o, err = h.StartOracle(*oracle)
		if err != nil {
			fmt.Fprintf(os.Stderr, "oracle: %v\n", err)
			os.Exit(2)
		}
		defer o.Close()
	}
	ctx := h.NewCtx(id, *tier, *seed, o, *replays, h.LoadFindings(*findings))
	emit := func() {
		res := ctx.Result()
		enc := json.NewEncoder(os.Stdout)
		enc.SetIndent("", " ")
		enc.Encode(res)
	}
	stall := 300 * time.Second
	if *tier == "thorough" {
		stall = 900 * time.Second
	}
	if v, err := strconv.Atoi(os.Getenv("VERIF_STALL_S")); err == nil && v > 0 {
		stall = time.Duration(v) * time.Second
	}
	ctx.StartWatchdog(stall, func(report string) {
		// every property here implies that the library's calls return: a stuck run is a failure of the scenario
		// that was started after the last completed case
		ctx.Fail("property", "terminates", report, "a library call has not returned (goroutine dump in the input field)", "every operation returns")
		emit()
		os.Exit(0)
	})
	func() {
		// a panic that escapes the driver (library code called outside a recovering wrapper): still a result, with
		// the panic, its stack and the last completed case as the failing input
		defer func() {
			if r := recover(); r != nil {
				ctx.Fail("property", "no_panic", fmt.Sprintf("the driver was stopped by a panic after case: %s\n%s", ctx.LastCase(), h.Trunc(string(debug.Stack()), 6000)),
					fmt.Sprintf("panic: %v", r), "no panic")
			}
		}()
		f(ctx)
	}()
	emit()
}
