package main

// C02 — RTMP reader decodes every spec-conformant chunk stream.
//
// The harness generates ABSTRACT traces (lists of chunk events), asks the Lean oracle for the wire
// bytes and the messages the RTMP 1.0 §5.3 chunker semantics assigns to them (Oryx.Spec.RtmpChunk —
// the definitions the theorems of Props/C02.lean are about), feeds the bytes to the REAL
// Protocol.ReadMessage through a segmenting transport and checks
//   property        messages read = spec messages, in completion order, then clean EOF;
//   correspondence  = output of the Lean model reader on the same bytes;
//   reject          rule-breaking mutations of conformant traces end in an error, after exactly
//                   the messages of the conformant prefix.
// The generator below keeps its own sender state only to PRODUCE conformant traces; the oracle
// re-validates every trace (accepted events, messages, extended-delta flag) so a generator bug
// shows up as a `spec.vs_generator` difference, not as a silent loss of coverage.

import (
	"bytes"
	"fmt"
	"strings"
	"time"

	"github.com/ossrs/go-oryx-lib/rtmp"
	"verifharness/internal/h"
)

func init() { register("C02", c02) }

type cev struct {
	cid, form, fmt int
	ts             uint64
	length, ty     int
	sid            uint32
	data           []byte
	desc           string
}

func (e cev) str() string {
	return fmt.Sprintf("%d.%d.%d.%d.%d.%d.%d.%s", e.cid, e.form, e.fmt, e.ts, e.length, e.ty, e.sid, e.desc)
}

func traceStr(tr []cev) string {
	if len(tr) == 0 {
		return "_"
	}
	p := make([]string, len(tr))
	for i, e := range tr {
		p[i] = e.str()
	}
	return strings.Join(p, ",")
}

// ---------- generator-side sender ----------

type gcs struct {
	ts, delta  uint64
	length, ty int
	sid        uint32
	body       []byte // predetermined body (control messages), nil = generated chunk by chunk
	payload    []byte // bytes sent so far of the open message
	busy       bool
	form       int
}

type gsender struct {
	r        *h.Rand
	chunk    int
	cs       map[int]*gcs
	tr       []cev
	msgs     []string
	extDelta bool
	nSet     int
	maxCid   int
	fmts     [4]int
	forms    [4]int
	extTs    bool
	multi    bool // some message took more than one chunk
	inter    bool // a chunk of another stream appeared inside a message
	lastCid  int
}

func newSender(r *h.Rand) *gsender {
	return &gsender{r: r, chunk: 128, cs: map[int]*gcs{}}
}

var c02ChunkSet = []uint32{1, 2, 128, 4096, 3, 127, 129, 7, 60, 1000}

func be32(v uint32) []byte { return []byte{byte(v >> 24), byte(v >> 16), byte(v >> 8), byte(v)} }

// ctlLen gives a legal body length for the control types (0 = free).
func ctlLen(r *h.Rand, ty int) int {
	switch ty {
	case 1, 3, 5:
		return 4
	case 6:
		return 5
	case 4:
		return r.Pick(6, 6, 10)
	}
	return -1
}

func (g *gsender) ctlBody(ty, length int, setTo uint32) []byte {
	switch ty {
	case 1:
		if setTo == 0 {
			setTo = c02ChunkSet[g.r.Intn(len(c02ChunkSet))]
		}
		return be32(setTo)
	case 3, 5:
		return g.r.Bytes(4)
	case 6:
		return g.r.Bytes(5)
	case 4:
		if length == 10 {
			return append([]byte{0, 3}, g.r.Bytes(8)...)
		}
		return append([]byte{0, byte(g.r.Pick(0, 1, 2, 4, 6, 7))}, g.r.Bytes(4)...)
	}
	return nil
}

func (g *gsender) busy(cid int) bool {
	c := g.cs[cid]
	return c != nil && c.busy
}

// begin starts a message on an idle chunk stream and emits its first chunk. Fields a header type
// omits are taken from the chunk stream (so the event is conformant by construction); for control
// types the length is forced to a legal one. setTo != 0 fixes the value of a Set Chunk Size.
func (g *gsender) begin(cid, form, fmt int, tsField uint64, length, ty int, sid uint32, setTo uint32) {
	c := g.cs[cid]
	if c == nil {
		c = &gcs{}
		g.cs[cid] = c
	}
	switch fmt {
	case 1:
		sid = c.sid
	case 2:
		sid, length, ty = c.sid, c.length, c.ty
	case 3:
		sid, length, ty, tsField = c.sid, c.length, c.ty, c.delta
	}
	if fmt <= 1 {
		if l := ctlLen(g.r, ty); l >= 0 {
			length = l
		}
	}
	if fmt != 0 && tsField >= 0xFFFFFF {
		g.extDelta = true
	}
	if tsField >= 0xFFFFFF {
		g.extTs = true
	}
	if fmt == 0 {
		c.ts = tsField
	} else {
		c.ts = (c.ts + tsField) & 0xFFFFFFFF
	}
	c.delta, c.length, c.ty, c.sid = tsField, length, ty, sid
	c.body = g.ctlBody(ty, length, setTo)
	c.payload = nil
	c.busy = true
	g.emit(cid, form, fmt)
}

// cont emits the next (type 3) chunk of the open message on cid.
func (g *gsender) cont(cid, form int) { g.emit(cid, form, 3) }

func (g *gsender) emit(cid, form, fmt int) {
	c := g.cs[cid]
	n := c.length - len(c.payload)
	if n > g.chunk {
		n = g.chunk
	}
	var data []byte
	var desc string
	if c.body != nil {
		data = c.body[len(c.payload) : len(c.payload)+n]
		desc = h.Hex(data)
	} else {
		data, desc = payloadOf(g.r, n)
	}
	if len(c.payload) > 0 {
		g.multi = true
	}
	if g.lastCid != 0 && g.lastCid != cid && g.busy(g.lastCid) {
		g.inter = true
	}
	g.lastCid = cid
	c.payload = append(c.payload, data...)
	g.tr = append(g.tr, cev{cid: cid, form: form, fmt: fmt, ts: c.delta, length: c.length, ty: c.ty, sid: c.sid, data: data, desc: desc})
	g.fmts[fmt]++
	g.forms[form]++
	if cid > g.maxCid {
		g.maxCid = cid
	}
	c.form = form
	if len(c.payload) == c.length {
		c.busy = false
		g.msgs = append(g.msgs, fmt_msg(cid, c.ty, c.sid, c.ts&0x7FFFFFFF, c.payload))
		if c.ty == 1 {
			g.chunk = int(uint32(c.payload[0])<<24 | uint32(c.payload[1])<<16 | uint32(c.payload[2])<<8 | uint32(c.payload[3]))
			g.nSet++
		}
		c.payload = nil
	}
}

func fmt_msg(cid, ty int, sid uint32, ts uint64, payload []byte) string {
	return fmt.Sprintf("%d.%d.%d.%d.%s", cid, ty, sid, ts, h.Hex(payload))
}

// whole sends a complete message (all its chunks back to back).
func (g *gsender) whole(cid, form, fmt int, tsField uint64, length, ty int, sid uint32, setTo uint32) {
	g.begin(cid, form, fmt, tsField, length, ty, sid, setTo)
	for g.busy(cid) {
		g.cont(cid, form)
	}
}

func (g *gsender) setChunk(v int) {
	if v != g.chunk {
		g.whole(2, 1, 0, 0, 4, 1, 0, uint32(v))
	}
}

// ---------- running one trace ----------

// readAllMsgs reads until the first error or max messages.
func readAllMsgs(p *rtmp.Protocol, max int) ([]string, string) { return readAllMsgsLag(p, max, 0, nil) }

// readAllMsgsLag reads like readAllMsgs while the application, as applications do, hands the messages it received to
// DecodeMessage some messages LATER than the read loop got them (lag > 0), and now and then decodes a message that came
// from elsewhere (foreign, e.g. relayed from another connection). DecodeMessage turns a message into a packet; what the
// reader does with the peer's chunk stream is governed by what the peer sent on this connection and by nothing else.
func readAllMsgsLag(p *rtmp.Protocol, max, lag int, foreign *rtmp.Message) ([]string, string) {
	var got []string
	var held []*rtmp.Message
	status := h.Safe(func() string {
		for i := 0; i < max; i++ {
			m, err := p.ReadMessage()
			if err != nil {
				return errClass(err)
			}
			if lag > 0 {
				held = append(held, m)
				if len(held) > lag {
					p.DecodeMessage(held[0])
					held = held[1:]
				}
				if foreign != nil && i%3 == 1 {
					p.DecodeMessage(foreign)
				}
			}
			cid, ty, sid, ts, plen := rtmp.VerifMessageFields(m)
			if int(plen) != len(m.Payload) {
				return "bad-length-field"
			}
			got = append(got, fmt_msg(int(cid), int(ty), sid, ts, m.Payload))
		}
		return "ok"
	})
	return got, status
}

// maskTs blanks the timestamp field of every message of a canonical message list.
func maskTs(msgs string) string {
	if msgs == "_" {
		return msgs
	}
	ms := strings.Split(msgs, ",")
	for i, m := range ms {
		f := strings.Split(m, ".")
		if len(f) == 5 {
			f[3] = "*"
			ms[i] = strings.Join(f, ".")
		}
	}
	return strings.Join(ms, ",")
}

func joinMsgs(ms []string) string {
	if len(ms) == 0 {
		return "_"
	}
	return strings.Join(ms, ",")
}

type specRep struct {
	wire                []byte
	msgs                string
	nmsgs               int
	accepted, total     int
	noExt, ends, strict bool
	abs                 string // messages under the "extended field is absolute" reading (= msgs when "=")
	raw                 string
}

func specChunk(c *h.Ctx, trS string) specRep {
	rep := c.O.Call("rtmp.spec.chunk", trS)
	f := strings.Split(rep, " ")
	if len(f) != 7 {
		panic("rtmp.spec.chunk: bad reply " + h.Trunc(rep, 200) + " for " + h.Trunc(trS, 300))
	}
	var s specRep
	s.raw = rep
	s.wire = h.UnHex(f[0])
	s.msgs = f[1]
	if f[1] != "_" {
		s.nmsgs = strings.Count(f[1], ",") + 1
	}
	fmt.Sscanf(f[2], "%d/%d", &s.accepted, &s.total)
	s.noExt, s.ends, s.strict = f[3] == "1", f[4] == "1", f[5] == "1"
	s.abs = f[6]
	if s.abs == "=" {
		s.abs = s.msgs
	}
	return s
}

func implRead(c *h.Ctx, wire []byte, mode, max int) (string, string, uint32) {
	rd := &h.SegReader{Data: wire, R: c.R.Fork(), Mode: mode}
	pr := rtmp.NewProtocol(&h.RW{Reader: rd, Writer: &bytes.Buffer{}})
	if c.R.Chance(40) {
		// the reading endpoint has itself announced a chunk size for what IT sends (and sent something): that concerns
		// its output only; how it reads the peer's stream is governed by what the peer announces
		sc := rtmp.NewSetChunkSize()
		sc.ChunkSize = uint32(c.R.Pick(1, 64, 200, 4096, 65536))
		pr.WritePacket(sc, 0)
		pr.WriteMessage(rtmp.VerifNewMessage(5, 9, 1, 0, make([]byte, 300)))
	}
	lag := 0
	var foreign *rtmp.Message
	if c.R.Chance(35) {
		lag = c.R.Pick(1, 1, 2, 3)
		if c.R.Chance(30) {
			foreign = rtmp.VerifNewMessage(2, 1, 0, 0, be32(uint32(c.R.Pick(1, 77, 128, 60000))))
		}
	}
	got, status := readAllMsgsLag(pr, max, lag, foreign)
	in, _ := rtmp.VerifChunkSizes(pr)
	return joinMsgs(got), status, in
}

// dropLast removes the last space separated field (the model's count of unread bytes).
func dropLast(s string) string {
	if i := strings.LastIndex(s, " "); i >= 0 {
		return s[:i]
	}
	return s
}

// runConformant checks one generated conformant trace; returns the oracle's reply.
func runConformant(c *h.Ctx, bucket string, g *gsender, mode int) specRep {
	trS := traceStr(g.tr)
	in := h.Trunc(trS, 1500)
	s := specChunk(c, trS)
	// generator sanity against the spec: every event accepted, same messages (Go arithmetic), same flag
	c.Eq("spec.vs_generator", in, fmt.Sprintf("%s %d/%d noext=%v", h.Trunc(joinMsgs(g.msgs), 400), len(g.tr), len(g.tr), !g.extDelta),
		fmt.Sprintf("%s %d/%d noext=%v", h.Trunc(s.msgs, 400), s.accepted, s.total, s.noExt))
	if c.Evaluations%16 == 0 {
		// the oracle's one-pass reply against the very definitions the theorems use
		c.Eq("spec.defs", in, fmt.Sprintf("%s 1 %s %s %s", s.msgs, b01(s.noExt), b01(s.ends), b01(s.strict)), c.O.Call("rtmp.spec.defs", trS))
	}
	got, status, inChunk := implRead(c, s.wire, mode, s.nmsgs+2)
	ok := got == s.msgs && status == "err-eof"
	if s.noExt {
		c.Hold(ok, "decode", in, h.Trunc(status+" "+got, 600), h.Trunc("err-eof "+s.msgs, 600))
	} else {
		c.Hold(ok, "decode.extts_delta", "K2 "+in, h.Trunc(status+" "+got, 600), h.Trunc("err-eof "+s.msgs, 600))
		// the known deviation is confined to the timestamps: everything else must still be the spec's
		c.Hold(maskTs(got) == maskTs(s.msgs) && status == "err-eof", "decode.extts_delta.rest", in,
			h.Trunc(status+" "+maskTs(got), 600), h.Trunc("err-eof "+maskTs(s.msgs), 600))
		// ... and the timestamps are exactly those of the "extended field is an absolute time" reading
		// (Props.C02.C02_reader_is_absext_variant)
		c.Hold(got == s.abs && status == "err-eof", "decode.extts_delta.absext", in,
			h.Trunc(status+" "+got, 600), h.Trunc("err-eof "+s.abs, 600))
	}
	if s.noExt {
		c.Eq("spec.absext_coincides", in, s.msgs, s.abs)
		// the reader has followed every Set Chunk Size
		c.Hold(int(inChunk) == g.chunk, "decode.chunksize", in, fmt.Sprint(inChunk), fmt.Sprint(g.chunk))
	}
	m := c.O.Call("rtmp.spec.read", fmt.Sprint(s.nmsgs+2), trS)
	c.Eq("read", in, fmt.Sprintf("%s %s %d", got, status, inChunk), dropLast(m))
	kind := "noext"
	if !s.noExt {
		kind = "extdelta(K2)"
	}
	c.Case(fmt.Sprintf("%s/%s,seg=%d", bucket, kind, mode), trS, len(g.tr) > 0)
	return s
}

// runReject checks a rule-breaking trace: tr[idx] is the first event the rules reject.
func runReject(c *h.Ctx, rule string, tr []cev, idx, mode int) {
	trS := traceStr(tr)
	in := h.Trunc(trS, 1500)
	s := specChunk(c, trS)
	c.Eq("spec.vs_generator", in, fmt.Sprintf("%d/%d", idx, len(tr)), fmt.Sprintf("%d/%d", s.accepted, s.total))
	got, status, inChunk := implRead(c, s.wire, mode, s.nmsgs+2)
	// never a mis-decoded message: exactly the messages completed before the break, then an error
	if s.noExt {
		c.Hold(got == s.msgs && status == "err", "reject."+rule, in, h.Trunc(status+" "+got, 600), h.Trunc("err "+s.msgs, 600))
	}
	m := c.O.Call("rtmp.spec.read", fmt.Sprint(s.nmsgs+2), trS)
	c.Eq("read", in, fmt.Sprintf("%s %s %d", got, status, inChunk), dropLast(m))
	c.Case(fmt.Sprintf("reject/%s,seg=%d", rule, mode), trS, true)
}

// ---------- abstract alphabet ----------

type cidForm struct{ cid, form int }

var c02CidForms = []cidForm{{2, 1}, {3, 1}, {63, 1}, {64, 2}, {64, 3}, {319, 2}, {319, 3}, {320, 3}, {65599, 3}}
var c02Ts = []uint64{0, 1, 0xFFFFFE, 0xFFFFFF, 0x1000000, 1<<31 - 1, 1<<32 - 1}
var c02Chunks = []int{1, 2, 128, 4096}
var c02Types = []int{9, 8, 18, 20, 15, 17, 22, 0, 255, 7}

func lenClasses(ch int) []int { return []int{1, ch, ch + 1, 2*ch + 1} }

// otherForm gives the other legal basic-header form of a chunk stream id in 64..319.
func otherForm(cf cidForm, flip bool) int {
	if flip && cf.cid >= 64 && cf.cid <= 319 {
		return 5 - cf.form
	}
	return cf.form
}

type msgSpec struct {
	fmt     int
	tsClass int
	lenIdx  int
}

// sameStream builds: [Set Chunk Size] then the messages, all on one chunk stream, back to back.
func sameStream(r *h.Rand, ch int, cf cidForm, ms []msgSpec, rot int) *gsender {
	g := newSender(r)
	g.setChunk(ch)
	lens := lenClasses(ch)
	for i, m := range ms {
		ty := c02Types[(rot+i)%len(c02Types)]
		sid := uint32([]uint32{1, 0, 0x01020304, 0xFFFFFFFF}[(rot+i)%4])
		g.whole(cf.cid, otherForm(cf, i%2 == 1), m.fmt, c02Ts[m.tsClass], lens[m.lenIdx], ty, sid, 0)
	}
	return g
}

// twoStreams: message 1 on A and message 2 on B with their chunks interleaved, then message 3 on A.
func twoStreams(r *h.Rand, ch int, a, b cidForm, ms [3]msgSpec, rot int) *gsender {
	g := newSender(r)
	g.setChunk(ch)
	lens := lenClasses(ch)
	g.begin(a.cid, a.form, 0, c02Ts[ms[0].tsClass], lens[ms[0].lenIdx], c02Types[rot%len(c02Types)], 1, 0)
	g.begin(b.cid, b.form, 0, c02Ts[ms[1].tsClass], lens[ms[1].lenIdx], c02Types[(rot+1)%len(c02Types)], 2, 0)
	for g.busy(a.cid) || g.busy(b.cid) {
		if g.busy(a.cid) {
			g.cont(a.cid, otherForm(a, true))
		}
		if g.busy(b.cid) {
			g.cont(b.cid, b.form)
		}
		if !g.busy(a.cid) && ms[2].fmt >= 0 {
			// third message on A while B may still be inside its message
			g.begin(a.cid, a.form, ms[2].fmt, c02Ts[ms[2].tsClass], lens[ms[2].lenIdx], c02Types[(rot+2)%len(c02Types)], 1, 0)
			ms[2].fmt = -1
		}
	}
	if ms[2].fmt >= 0 {
		g.whole(a.cid, a.form, ms[2].fmt, c02Ts[ms[2].tsClass], lens[ms[2].lenIdx], c02Types[(rot+2)%len(c02Types)], 1, 0)
	}
	return g
}

// enumerate calls f for every assignment of (fmt, ts class, len class) to messages 2..d (message 1
// is type 0 with every ts and len class); a type 2/3 message inherits its length (one len class), a
// type-3 message its delta (one ts class). fullLen=false rotates the length class instead of
// enumerating it.
func enumerate(d int, fullLen bool, f func(ms []msgSpec)) {
	ms := make([]msgSpec, d)
	rot := 0
	var rec func(i int)
	rec = func(i int) {
		if i == d {
			cp := make([]msgSpec, d)
			copy(cp, ms)
			f(cp)
			return
		}
		fmts := []int{0, 1, 2, 3}
		if i == 0 {
			fmts = []int{0}
		}
		for _, ft := range fmts {
			nts := len(c02Ts)
			if ft == 3 {
				nts = 1
			}
			for t := 0; t < nts; t++ {
				nl := 4
				if ft >= 2 || !fullLen {
					nl = 1
				}
				for l := 0; l < nl; l++ {
					li := l
					if !fullLen && ft < 2 {
						rot++
						li = rot % 4
					}
					ms[i] = msgSpec{ft, t, li}
					rec(i + 1)
				}
			}
		}
	}
	rec(0)
}

// ---------- random long traces ----------

func genTsField(r *h.Rand, allowExt bool, isDelta bool) uint64 {
	for {
		var v uint64
		switch r.Intn(10) {
		case 0, 1, 2:
			v = c02Ts[r.Intn(len(c02Ts))]
		case 3:
			v = uint64(r.Pick(0xFFFFFD, 0xFFFFFE, 0xFFFFFF, 0x1000000, 0x7FFFFFFE, 0x80000000, 0xFFFFFFFE))
		case 4:
			v = r.U64() & 0xFFFFFFFF
		default:
			v = uint64(r.Intn(5000))
		}
		if isDelta && !allowExt && v >= 0xFFFFFF {
			continue
		}
		return v
	}
}

func randomTrace(r *h.Rand, nStreams, nMsgs int, allowExt bool) *gsender {
	g := newSender(r)
	// the chunk streams of this trace: the class boundaries first, then random ids
	pool := []cidForm{}
	for i := 0; i < nStreams; i++ {
		var cid int
		switch {
		case i < 3 && r.Chance(70):
			cid = r.Pick(2, 3, 63, 64, 319, 320, 65599)
		case r.Chance(40):
			cid = 2 + r.Intn(62)
		case r.Chance(50):
			cid = 64 + r.Intn(256)
		default:
			cid = 320 + r.Intn(65280)
		}
		dup := false
		for _, p := range pool {
			if p.cid == cid {
				dup = true
			}
		}
		if dup {
			continue
		}
		form := 1
		if cid >= 64 {
			form = 3
			if cid <= 319 && r.Bool() {
				form = 2
			}
		}
		pool = append(pool, cidForm{cid, form})
	}
	started := 0
	steps := 0
	for (started < nMsgs || anyBusy(g, pool)) && steps < 20000 {
		steps++
		// continue an open message or start a new one
		var open, idle []cidForm
		for _, p := range pool {
			if g.busy(p.cid) {
				open = append(open, p)
			} else {
				idle = append(idle, p)
			}
		}
		if len(open) > 0 && (started >= nMsgs || len(idle) == 0 || r.Chance(60)) {
			p := open[r.Intn(len(open))]
			g.cont(p.cid, otherForm(p, r.Bool()))
			continue
		}
		p := idle[r.Intn(len(idle))]
		c := g.cs[p.cid]
		ft := 0
		if c != nil {
			ft = r.Pick(0, 1, 1, 2, 2, 3, 3)
			if ft == 3 && c.delta >= 0xFFFFFF && !allowExt {
				ft = r.Pick(0, 1, 2)
			}
		} else if p.cid == 2 && r.Chance(50) {
			ft = 1 // librtmp form
		}
		ch := g.chunk
		if ch > 1500 {
			ch = 1500 // only for choosing lengths
		}
		length := r.Pick(0, 1, 2, ch-1, ch, ch+1, 2*ch, 2*ch+1, 3*ch+1, 1+r.Intn(300), 1+r.Intn(300))
		if length < 0 {
			length = 0
		}
		if length > 9000 {
			length = 9000
		}
		ty := c02Types[r.Intn(len(c02Types))]
		if r.Chance(12) {
			ty = 1
		} else if r.Chance(10) {
			ty = r.Pick(3, 4, 5, 6)
		}
		sid := uint32(r.Pick(0, 1, 2, 0x01020304, 0xFFFFFFFF))
		g.begin(p.cid, otherForm(p, r.Bool()), ft, genTsField(r, allowExt, ft != 0), length, ty, sid, 0)
		started++
	}
	return g
}

func anyBusy(g *gsender, pool []cidForm) bool {
	for _, p := range pool {
		if g.busy(p.cid) {
			return true
		}
	}
	return false
}

// ---------- rule-breaking mutations ----------

// mutations returns rule-breaking variants of a conformant trace: (rule, trace, index of the break).
func mutations(r *h.Rand, tr []cev) (out []struct {
	rule string
	tr   []cev
	idx  int
}) {
	add := func(rule string, i int, e cev) {
		cp := make([]cev, i+1, len(tr))
		copy(cp, tr[:i])
		cp[i] = e
		// keep what followed: the reader must stop at the break whatever comes after
		cp = append(cp, tr[i+1:]...)
		out = append(out, struct {
			rule string
			tr   []cev
			idx  int
		}{rule, cp, i})
	}
	seen := map[int]bool{}
	busy := map[int]bool{}
	got := map[int]int{}
	var cont, first []int
	for i, e := range tr {
		if busy[e.cid] {
			cont = append(cont, i)
		} else if !seen[e.cid] {
			first = append(first, i)
		}
		seen[e.cid] = true
		got[e.cid] += len(e.data)
		busy[e.cid] = got[e.cid] < e.length
		if !busy[e.cid] {
			got[e.cid] = 0
		}
	}
	if len(cont) > 0 {
		i := cont[r.Intn(len(cont))]
		e := tr[i]
		e.fmt = 0
		add("type0_inside_message", i, e)
		i = cont[r.Intn(len(cont))]
		e = tr[i]
		e.fmt = 1
		switch r.Intn(3) {
		case 0:
			e.length++
		case 1:
			if e.length > 1 {
				e.length--
			} else {
				e.length += 2
			}
		default:
			e.length = (e.length + 1 + r.Intn(70000)) % (1 << 24)
			if e.length == tr[i].length {
				e.length++
			}
		}
		add("length_changed", i, e)
	}
	if len(first) > 0 {
		i := first[r.Intn(len(first))]
		e := tr[i]
		e.fmt = 1 + r.Intn(3)
		if e.cid == 2 && e.fmt == 1 {
			e.fmt = 2 + r.Intn(2)
		}
		add("fresh_not_type0", i, e)
	}
	return
}

// ---------- driver ----------

func c02(c *h.Ctx) {
	r := c.R
	mode := 0
	nextMode := func() int { mode = (mode + 1) % 4; return mode }
	t0 := time.Now()
	lap := func(what string) {
		c.Note(fmt.Sprintf("%s: %d cases so far, %.1fs", what, c.Evaluations, time.Since(t0).Seconds()))
	}

	// fixed regression inputs of repaired defects (raw wire, independent of the oracle's chunker)
	type fixed struct{ clause, in, wire, want string }
	for _, fx := range []fixed{
		// F1: 3-byte basic header 01 00 01 = chunk stream 64 + 0 + 1*256 = 320
		{"basic_header.3byte", "wire 010001 000005 000002 09 01000000 aabb", "0100010000050000020901000000aabb", "320.9.1.5.aabb"},
		{"basic_header.3byte", "wire 01ffff 000005 000002 09 01000000 aabb", "01ffff0000050000020901000000aabb", "65599.9.1.5.aabb"},
		// F2: librtmp ping on a fresh chunk stream 2 with a type-1 header
		{"ping_form", "wire 42 000000 000006 04 0006 00000d0f", "4200000000000604000600000d0f", "2.4.0.0.000600000d0f"},
	} {
		got, status, _ := implRead(c, h.UnHex(fx.wire), 0, 3)
		c.Hold(got == fx.want && status == "err-eof", fx.clause, fx.in, status+" "+got, "err-eof "+fx.want)
		m := c.O.Call("rtmp.read", "128", "3", fx.wire)
		c.Eq("read", fx.in, got+" "+status+" 128", dropLast(m))
		c.Case("regression", fx.in, true)
	}

	// chunk sizes above 64 KiB with messages longer than 64 KiB (a conformant sender may announce up to 2^31-1)
	for _, cs := range []struct{ chunk, length int }{{131072, 70000}, {0xffffff, 200000}, {65537, 65537}, {1 << 24, 65536}} {
		g := newSender(r.Fork())
		g.setChunk(cs.chunk)
		g.whole(6, 1, 0, 7, cs.length, 9, 1, 0)
		g.whole(6, 1, 3, 0, 0, 0, 0, 0) // type 3 starts the next message: same length, delta = 7
		g.whole(64, 2, 0, 1000, 300, 8, 1, 0)
		runConformant(c, "large-chunk-size", g, nextMode())
	}

	// many chunk streams on one connection (the id space has 65598 of them): every stream keeps the header state that
	// the compressed headers refer to, however many other streams the peer has opened in between
	for _, n := range []int{65, 66, 100, 130, c.N(300, 2000)} {
		g := newSender(r.Fork())
		cidOf := func(i int) (int, int) {
			switch {
			case i < 62:
				return 2 + i, 1
			case i < 90:
				return 2 + i, 2 + i%2
			}
			return 320 + (i-90)*31, 3
		}
		for i := 0; i < n; i++ {
			cid, form := cidOf(i)
			g.whole(cid, form, 0, uint64(1000+i), 1+i%5, 9, 1, 0)
		}
		for i := 0; i < n; i += 1 + i%3 {
			cid, form := cidOf(i)
			g.whole(cid, form, 1+i%3, uint64(10+i%7), 1+i%4, 8, 1, 0)
		}
		runConformant(c, "many-streams", g, nextMode())
	}
	for i := 0; i < c.N(3, 20); i++ {
		runConformant(c, "many-streams.random", randomTrace(r.Fork(), 80+r.Intn(120), 300, false), nextMode())
	}

	// sweep of chunk stream ids in every legal basic-header form (quick: all of 2..319, 3-byte form sampled)
	step := c.N(257, 1)
	sweep := func(cid, form int) {
		g := newSender(r.Fork())
		g.whole(cid, form, 0, uint64(cid), 1+cid%3, 9, 1, 0)
		runConformant(c, "sweep.cid/form="+fmt.Sprint(form), g, nextMode())
	}
	for cid := 2; cid <= 63; cid++ {
		sweep(cid, 1)
	}
	for cid := 64; cid <= 319; cid++ {
		sweep(cid, 2)
		sweep(cid, 3)
	}
	for cid := 320; cid <= 65599; cid += step {
		sweep(cid, 3)
	}
	for _, cid := range []int{320, 321, 575, 576, 65343, 65344, 65598, 65599} {
		sweep(cid, 3)
	}

	lap("sweep.cid")
	// bounded-exhaustive: one chunk stream, depth 2 (full alphabet) and 3 (length class and chunk size
	// rotating); thorough: depth 3 full (chunk size rotating), depth 4 rotating
	rot := 0
	runSame := func(d int, fullLen bool, chunks []int) {
		enumerate(d, fullLen, func(ms []msgSpec) {
			for _, ch := range chunks {
				rot++
				cf := c02CidForms[rot%len(c02CidForms)]
				if cf.cid == 2 && rot%2 == 0 {
					ms[0].fmt = 1 // librtmp form as the first header of chunk stream 2
				} else {
					ms[0].fmt = 0
				}
				g := sameStream(r.Fork(), ch, cf, ms, rot)
				runConformant(c, fmt.Sprintf("exhaustive.same/depth=%d", d), g, nextMode())
			}
		})
	}
	if c.Thorough() {
		runSame(2, true, c02Chunks)
	} else {
		// quick: the 4096-byte chunk size (8 KiB messages) with the length class rotating
		runSame(2, true, []int{1, 2, 128})
		runSame(2, false, []int{4096})
	}
	lap("exhaustive.same depth 2")
	if c.Thorough() {
		// depth 3 over the full alphabet (chunk size rotating), depth 4 with the length class rotating too
		rr := 0
		enumerate(3, true, func(ms []msgSpec) {
			rr++
			runSameOne(c, r, ms, c02Chunks[rr%4], &rot, nextMode())
		})
		lap("exhaustive.same depth 3")
		enumerate(4, false, func(ms []msgSpec) {
			// at most one extended delta per depth-4 trace (the K2 bucket is covered at depth 2 and 3)
			next := 0
			for _, m := range ms[1:] {
				if (m.fmt == 1 || m.fmt == 2) && c02Ts[m.tsClass] >= 0xFFFFFF {
					next++
				}
			}
			if next > 1 {
				return
			}
			rr++
			runSameOne(c, r, ms, c02Chunks[rr%4], &rot, nextMode())
		})
	} else {
		rr := 0
		enumerate(3, false, func(ms []msgSpec) {
			rr++
			runSameOne(c, r, ms, c02Chunks[rr%4], &rot, nextMode())
		})
	}
	lap("exhaustive.same deeper")
	// two interleaved chunk streams, third message with every header type and ts class
	for _, ch := range c02Chunks {
		for ft := 0; ft < 4; ft++ {
			for t1 := 0; t1 < len(c02Ts); t1++ {
				nts := len(c02Ts)
				if ft == 3 {
					nts = 1
				}
				for t3 := 0; t3 < nts; t3++ {
					rot++
					a := c02CidForms[rot%len(c02CidForms)]
					b := c02CidForms[(rot+1+rot/9%7)%len(c02CidForms)]
					if a.cid == b.cid {
						b = c02CidForms[(rot+2)%len(c02CidForms)]
						if a.cid == b.cid {
							b = c02CidForms[(rot+4)%len(c02CidForms)]
						}
					}
					ms := [3]msgSpec{{0, t1, 1 + rot%3}, {0, (t1 + t3) % len(c02Ts), 1 + (rot/3)%3}, {ft, t3, rot % 4}}
					g := twoStreams(r.Fork(), ch, a, b, ms, rot)
					runConformant(c, "exhaustive.two_streams", g, nextMode())
				}
			}
		}
	}

	lap("exhaustive.two_streams")
	// long random traces, up to 40 interleaved chunk streams, Set Chunk Size in between;
	// rule-breaking mutations and a malformed stream derived from them
	nrand := c.N(300, 3000)
	for i := 0; i < nrand; i++ {
		ns := 1 + r.Intn(6)
		if r.Chance(35) {
			ns = 1 + r.Intn(40)
		}
		allowExt := r.Chance(12)
		g := randomTrace(r.Fork(), ns, 2+r.Intn(c.N(30, 60)), allowExt)
		md := nextMode()
		bucket := fmt.Sprintf("random/streams=%s,setchunk=%s,multi=%v,interleaved=%v", streamsCls(len(g.cs)), setCls(g.nSet), g.multi, g.inter)
		s := runConformant(c, bucket, g, md)
		if g.extDelta {
			continue
		}
		for _, mu := range mutations(r, g.tr) {
			runReject(c, mu.rule, mu.tr, mu.idx, md)
		}
		// malformed stream: truncation and byte mutation of the conformant wire (model = implementation)
		if i%4 == 0 && len(s.wire) > 0 && len(s.wire) < 20000 {
			for k := 0; k < 3; k++ {
				w := append([]byte(nil), s.wire...)
				var what string
				if k == 0 {
					w = w[:r.Intn(len(w))]
					what = "truncated"
				} else {
					for j := 0; j <= r.Intn(3); j++ {
						w[r.Intn(len(w))] ^= byte(1 << uint(r.Intn(8)))
					}
					what = "bitflip"
				}
				got, status, inChunk := implRead(c, w, md, s.nmsgs+3)
				m := c.O.Call("rtmp.read", "128", fmt.Sprint(s.nmsgs+3), h.Hex(w))
				in := "rtmp.read 128 " + fmt.Sprint(s.nmsgs+3) + " " + h.Trunc(h.Hex(w), 1200)
				c.Eq("read.malformed", in, fmt.Sprintf("%s %s %d", got, status, inChunk), dropLast(m))
				c.Hold(status != "panic", "read.no_panic", in, status, "no panic")
				c.Case("malformed/"+what+"/"+status, h.Hex(w), true)
			}
		}
	}
	lap("random + reject + malformed")
}

func init() { _ = time.Now }

func runSameOne(c *h.Ctx, r *h.Rand, ms []msgSpec, ch int, rot *int, mode int) {
	*rot++
	cf := c02CidForms[*rot%len(c02CidForms)]
	if cf.cid == 2 && *rot%2 == 0 {
		ms[0].fmt = 1
	}
	g := sameStream(r.Fork(), ch, cf, ms, *rot)
	runConformant(c, fmt.Sprintf("exhaustive.same/depth=%d", len(ms)), g, mode)
}

func setCls(n int) string {
	switch {
	case n == 0:
		return "0"
	case n < 4:
		return "1-3"
	default:
		return "4+"
	}
}

func streamsCls(n int) string {
	switch {
	case n <= 1:
		return "1"
	case n <= 4:
		return "2-4"
	case n <= 10:
		return "5-10"
	default:
		return "11-40"
	}
}
