package main

// C11 — ADTS framing and AudioSpecificConfig: implementation vs Lean model vs ISO 13818-7 writer.
//
// Canonical forms: config = "object.sampleRate.channels" (decimal); bytes = hex ("-" empty) or
// parts joined by "+" (hex | p:len:seed); decode result = "ok RAW LEFT cfg" | "err cfg" | "panic cfg"
// where cfg is the receiver's config AFTER the call (Decode/UnmarshalBinary assign before they validate).

import (
	"bytes"
	"fmt"
	"strings"

	"github.com/ossrs/go-oryx-lib/aac"
	"verifharness/internal/h"
)

func init() { register("C11", c11) }

type aacCfg struct{ o, s, c uint8 }

func (k aacCfg) String() string { return fmt.Sprintf("%d.%d.%d", k.o, k.s, k.c) }
func (k aacCfg) asc() aac.AudioSpecificConfig {
	return aac.AudioSpecificConfig{Object: aac.ObjectType(k.o), SampleRate: aac.SampleRateIndex(k.s), Channels: aac.Channels(k.c)}
}
func cfgOf(a *aac.AudioSpecificConfig) aacCfg {
	return aacCfg{uint8(a.Object), uint8(a.SampleRate), uint8(a.Channels)}
}

// accepted configuration set, written independently of the library (the property's domain).
func aacAccepted(k aacCfg) bool {
	okObj := k.o == 1 || k.o == 2 || k.o == 3 || k.o == 5 || k.o == 29
	return okObj && k.s >= 1 && k.s <= 12 && k.c >= 1 && k.c <= 7
}

// ADTS profile (2 bits) of an accepted object type, and the object type a decoder reports for it.
func aacProfileOf(o uint8) uint8 {
	switch o {
	case 1:
		return 0
	case 3:
		return 2
	default: // LC, HE, HEv2
		return 1
	}
}

// c11SetASC collects disagreements of the public configuration entry point SetASC with the configuration it
// was given (reported by c11 under clause adts.setasc); c11Flip alternates the two ways of configuring.
var (
	c11SetASC []string
	c11Flip   int
)

// newADTS returns a codec whose configuration is st. For configurations the library accepts every other codec is
// configured through the public SetASC with the two AudioSpecificConfig bytes packed here (ISO 14496-3 1.6.2.1:
// 5 bits object, 4 bits frequency index, 4 bits channels), after a different configuration was set first, so the
// codec's history never shows; the others (and all unaccepted configurations) are set through ASC().
func newADTS(st aacCfg) aac.ADTS {
	a, _ := aac.NewADTS()
	c11Flip++
	if aacAccepted(st) && c11Flip%2 == 0 {
		other := aacCfg{2, uint8(1 + (int(st.s)+c11Flip)%12), uint8(1 + (int(st.c)+c11Flip/2)%7)}
		pack := func(k aacCfg) []byte {
			v := uint16(k.o)<<11 | uint16(k.s)<<7 | uint16(k.c)<<3
			return []byte{byte(v >> 8), byte(v)}
		}
		e1 := a.SetASC(pack(other))
		e2 := a.SetASC(pack(st))
		if got := cfgOf(a.ASC()); e1 != nil || e2 != nil || got != st {
			if len(c11SetASC) < 8 {
				c11SetASC = append(c11SetASC, fmt.Sprintf("SetASC(%s) then SetASC(%s): errs %v/%v, ASC()=%s want %s", h.Hex(pack(other)), h.Hex(pack(st)), e1, e2, got, st))
			}
			*a.ASC() = st.asc()
		}
		return a
	}
	*a.ASC() = st.asc()
	return a
}

// adtsDec runs the real Decode on a receiver whose config is st.
func adtsDec(st aacCfg, data []byte) (res string, raw, left []byte, after aacCfg) {
	a := newADTS(st)
	tag := h.Safe(func() string {
		r, l, err := a.Decode(data)
		if err != nil {
			return "err"
		}
		raw, left = r, l
		return "ok"
	})
	after = cfgOf(a.ASC())
	if tag == "ok" {
		return fmt.Sprintf("ok %s %s %s", h.Hex(raw), h.Hex(left), after), raw, left, after
	}
	return tag + " " + after.String(), nil, nil, after
}

func adtsEnc(k aacCfg, raw []byte) (string, []byte) {
	var out []byte
	s := h.Safe(func() string {
		a := newADTS(k)
		b, err := a.Encode(raw)
		if err != nil {
			return "err"
		}
		out = b
		return "ok " + h.Hex(b)
	})
	return s, out
}

func ascDec(st aacCfg, data []byte) string {
	a := st.asc()
	tag := h.Safe(func() string {
		if err := a.UnmarshalBinary(data); err != nil {
			return "err"
		}
		return "ok"
	})
	return tag + " " + cfgOf(&a).String()
}

func ascEnc(k aacCfg) (string, []byte) {
	var out []byte
	s := h.Safe(func() string {
		a := k.asc()
		b, err := a.MarshalBinary()
		if err != nil {
			return "err"
		}
		out = b
		return "ok " + h.Hex(b)
	})
	return s, out
}

// adtsStreamCfgs: what ASC() reported after each frame of the last adtsStream call.
var adtsStreamCfgs []aacCfg

// adtsStream is the documented caller loop: decode until nothing is left.
// It also reports whether every non-empty remainder started at a sync word.
func adtsStream(st aacCfg, data []byte) (res string, raws [][]byte, lefts [][]byte) {
	a := newADTS(st)
	adtsStreamCfgs = adtsStreamCfgs[:0]
	res = h.Safe(func() string {
		left := data
		for len(left) > 0 {
			r, l, err := a.Decode(left)
			if err != nil {
				return "err"
			}
			raws = append(raws, r)
			lefts = append(lefts, l)
			adtsStreamCfgs = append(adtsStreamCfgs, cfgOf(a.ASC()))
			left = l
		}
		if len(raws) == 0 {
			return "ok _"
		}
		parts := make([]string, len(raws))
		for i, r := range raws {
			parts[i] = h.Hex(r)
		}
		return "ok " + strings.Join(parts, ",")
	})
	return
}

func rtag(f func() string) string {
	return h.Safe(func() string { return "ok:" + f() })
}

func aacEnum(v uint8) string {
	return strings.Join([]string{
		rtag(func() string { return fmt.Sprint(uint8(aac.ObjectType(v).ToProfile())) }),
		rtag(func() string { return fmt.Sprint(uint8(aac.Profile(v).ToObjectType())) }),
		rtag(func() string { return fmt.Sprint(aac.SampleRateIndex(v).ToHz()) }),
		rtag(func() string { return aac.ObjectType(v).String() }),
		rtag(func() string { return aac.Profile(v).String() }),
		rtag(func() string { return aac.SampleRateIndex(v).String() }),
		rtag(func() string { return aac.Channels(v).String() }),
	}, " ")
}

// one frame of the independent writer (Lean Spec.Adts.Frame.write through the oracle).
type specFrame struct {
	id, pa, prof, sfi, priv, ch, orig, home, cb, cs, bf, crc int
	raw                                                      string // byte field (hex or p:len:seed)
}

func (f specFrame) args() []string {
	return []string{fmt.Sprint(f.id), fmt.Sprint(f.pa), fmt.Sprint(f.prof), fmt.Sprint(f.sfi), fmt.Sprint(f.priv),
		fmt.Sprint(f.ch), fmt.Sprint(f.orig), fmt.Sprint(f.home), fmt.Sprint(f.cb), fmt.Sprint(f.cs),
		fmt.Sprint(f.bf), fmt.Sprint(f.crc), f.raw}
}
func (f specFrame) String() string { return "adts.spec " + strings.Join(f.args(), " ") }
func (f specFrame) write(c *h.Ctx) []byte {
	return h.UnHex(c.O.Call(append([]string{"adts.spec"}, f.args()...)...))
}
func (f specFrame) hdrLen() int {
	if f.pa == 0 {
		return 9
	}
	return 7
}

// what a decoder must report for a spec frame with an acceptable header.
func (f specFrame) accepted() bool {
	return f.prof <= 2 && f.sfi >= 1 && f.sfi <= 12 && f.ch >= 1 && f.ch <= 7
}
func (f specFrame) cfg() aacCfg { return aacCfg{uint8(f.prof + 1), uint8(f.sfi), uint8(f.ch)} }

func randCare(r *h.Rand, f *specFrame) {
	f.priv, f.orig, f.home, f.cb, f.cs = r.Intn(2), r.Intn(2), r.Intn(2), r.Intn(2), r.Intn(2)
	f.bf = r.Pick(0, 63, 2047, r.Intn(2048))
	f.crc = r.Pick(0, 0xffff, 0xfff1, r.Intn(65536))
}

var aacLens = []int{1, 2, 7, 8, 255, 256, 2047, 2048, 8183, 8184}
var aacObjs = []uint8{1, 2, 3, 5, 29}

func payload(r *h.Rand, n int) (field string, b []byte) {
	if n <= 48 {
		b = r.Bytes(n)
		return h.Hex(b), b
	}
	seed := uint32(r.U64())
	return fmt.Sprintf("p:%d:%d", n, seed), h.LCGBytes(n, seed)
}

func startsWithSync(b []byte) bool { return len(b) >= 2 && b[0] == 0xff && b[1]&0xf0 == 0xf0 }

func c11(c *h.Ctx) {
	r := c.R
	zero := aacCfg{}

	// 0a. one encoder, several frames of varying sizes, every frame RETAINED and concatenated afterwards (the
	// property's "concatenation of frames"): a frame handed out must not be overwritten by a later Encode.
	{
		cfg := aacCfg{2, 4, 2}
		a := newADTS(cfg)
		var frames [][]byte
		var snaps []string
		var raws [][]byte
		for i := 0; i < 24; i++ {
			raw := r.Bytes(r.Pick(300, 1, 7, 50, 299, 2))
			if b, err := a.Encode(raw); err == nil {
				frames = append(frames, b)
				snaps = append(snaps, h.Hex(b))
				raws = append(raws, raw)
			}
		}
		var stream []byte
		for i, f := range frames {
			c.Hold(h.Hex(f) == snaps[i], "encode.frame_not_aliased", fmt.Sprintf("retained frame #%d of %d raw=%dB", i, len(frames), len(raws[i])), h.Trunc(h.Hex(f), 60), h.Trunc(snaps[i], 60))
			stream = append(stream, f...)
		}
		d := newADTS(aacCfg{})
		okAll := true
		for i := range frames {
			raw, left, err := d.Decode(stream)
			if err != nil || !bytes.Equal(raw, raws[i]) {
				okAll = false
				break
			}
			stream = left
		}
		c.Hold(okAll && len(stream) == 0, "adts_concat.retained", fmt.Sprintf("%d frames encoded by one encoder, kept, concatenated, decoded one at a time", len(frames)), fmt.Sprint(okAll), "every raw block back, nothing left")
		c.Case("retained-frames", fmt.Sprint(len(frames)), true)
	}

	// Correspondence mismatches are collected and reported after the whole run, so that the harness's
	// violation cap is filled by property violations (Hold) first when a change breaks both.
	type mismatch struct{ clause, input, impl, model string }
	var pending []mismatch
	eq := func(clause, input, impl, model string) {
		c.Trace()
		if impl != model && len(pending) < 5 {
			pending = append(pending, mismatch{clause, input, impl, model})
		}
	}
	defer func() {
		for _, m := range pending {
			c.Fail("correspondence", m.clause, m.input, m.impl, m.model)
		}
	}()

	// 0. fixed regression inputs of repaired defects (always first).
	{
		// F11: SampleRateIndexForbidden.ToHz() panicked (table one element short).
		for _, v := range []uint8{16, 17, 18, 255} {
			in := fmt.Sprintf("aac.enum %d", v)
			impl := aacEnum(v)
			c.Hold(!strings.Contains(impl, "panic"), "enum.total", in, impl, "no panic")
			eq("enum", in, impl, c.O.Call("aac.enum", fmt.Sprint(v)))
			c.Case("regression/F11", in, true)
		}
		// F10: CRC-protected frame; raw was taken as frame_length-7 (2 bytes of the next frame leaked / error at end).
		next := []byte{0xff, 0xf1, 0x50, 0x80, 0x01, 0x00, 0xfc, 0x09}
		f := specFrame{id: 0, pa: 0, prof: 1, sfi: 4, ch: 2, bf: 2047, crc: 0xaabb, raw: "010203"}
		w := f.write(c)
		c.Hold(h.Hex(w) == "fff05080019ffcaabb010203", "spec.bytes", f.String(), h.Hex(w), "fff05080019ffcaabb010203")
		for _, tail := range [][]byte{nil, next} {
			data := append(append([]byte{}, w...), tail...)
			in := "adts.dec 0.0.0 " + h.Hex(data)
			impl, raw, left, _ := adtsDec(zero, data)
			c.Hold(impl != "panic" && bytes.Equal(raw, []byte{1, 2, 3}) && bytes.Equal(left, tail), "spec.decode", in, impl, "ok 010203 "+h.Hex(tail)+" 2.4.2")
			eq("adts.dec", in, impl, c.O.Call("adts.dec", "0.0.0", h.Hex(data)))
			c.Case("regression/F10", in, true)
		}
	}

	// 0b. the raw block is opaque: payloads that themselves look like ADTS (a complete frame — the output of an earlier
	// Encode —, a frame with its length field off by one, a bare sync word, a frame of another configuration) get a
	// header of their own like any other payload and come back unchanged
	for _, k := range []aacCfg{{2, 4, 2}, {1, 3, 1}, {5, 11, 2}} {
		_, inner := adtsEnc(k, []byte{1, 2, 3, 4, 5, 6, 7, 8, 9})
		_, innerOther := adtsEnc(aacCfg{2, 8, 1}, make([]byte, 40))
		if len(inner) < 8 {
			continue
		}
		short := append([]byte(nil), inner[:len(inner)-1]...)
		long := append(append([]byte(nil), inner...), 0)
		for _, raw := range [][]byte{inner, innerOther, short, long, {0xff, 0xf1}, {0xff, 0xf1, 0x50, 0x80, 0x00, 0xff, 0xfc}, append(append([]byte(nil), inner...), inner...)} {
			in := fmt.Sprintf("adts.enc %s %s (a payload that looks like ADTS)", k, h.Hex(raw))
			impl, out := adtsEnc(k, raw)
			eq("adts.enc", in, impl, c.O.Call("adts.enc", k.String(), h.Hex(raw)))
			dimpl, got, left, _ := adtsDec(zero, out)
			c.Hold(len(out) == len(raw)+7 && dimpl != "panic" && bytes.Equal(got, raw) && len(left) == 0, "adts_roundtrip.opaque_payload", in, fmt.Sprintf("%d bytes encoded; decoded %s", len(out), h.Trunc(dimpl, 120)), fmt.Sprintf("%d bytes encoded; the payload back", len(raw)+7))
			c.Case("opaque-payload", in, true)
		}
	}

	// 1. enum helpers: all 256 values; total; ToHz = ISO table.
	for v := 0; v < 256; v++ {
		in := fmt.Sprintf("aac.enum %d", v)
		impl := aacEnum(uint8(v))
		eq("enum", in, impl, c.O.Call("aac.enum", fmt.Sprint(v)))
		c.Hold(!strings.Contains(impl, "panic"), "enum.total", in, impl, "no panic")
		iso := c.O.Call("aac.spec.hz", fmt.Sprint(v))
		hz := "?"
		if fs := strings.Fields(impl); len(fs) > 2 {
			hz = fs[2]
		}
		if iso != "none" {
			c.Hold(hz == "ok:"+iso, "sr_table", in, hz, "ok:"+iso)
		} else {
			c.Hold(hz == "ok:0", "sr_table", in, hz, "ok:0")
		}
		c.Case("enum/exhaustive", in, true)
	}

	// 2. AudioSpecificConfig.
	ascCase := func(b0, b1 int, tail []byte, st aacCfg, bucket string) {
		data := append([]byte{byte(b0), byte(b1)}, tail...)
		in := fmt.Sprintf("asc.dec %s %s", st, h.Hex(data))
		impl := ascDec(st, data)
		eq("asc.dec", in, impl, c.O.Call("asc.dec", st.String(), h.Hex(data)))
		want := aacCfg{uint8(b0 >> 3), uint8((b0&7)<<1 | b1>>7), uint8((b1 >> 3) & 15)}
		acc := aacAccepted(want)
		if acc {
			c.Hold(impl == "ok "+want.String(), "asc.accept_iff", in, impl, "ok "+want.String())
			// marshal∘unmarshal = identity on the 13 significant bits
			m, _ := ascEnc(want)
			exp := "ok " + h.Hex([]byte{byte(b0), byte(b1) & 0xf8})
			c.Hold(m == exp, "asc.bit_exact", in, m, exp)
		} else {
			c.Hold(strings.HasPrefix(impl, "err"), "asc.accept_iff", in, impl, "err")
		}
		c.Case(bucket+fmt.Sprintf("/accepted=%v", acc), in, true)
	}
	if c.Thorough() {
		for v := 0; v < 65536; v++ {
			ascCase(v>>8, v&255, nil, zero, "asc/exhaustive-65536")
		}
	} else {
		// every first byte x boundary second bytes (top bit = rate lsb, channel nibble 0/1/7/8/15, low 3 bits)
		for b0 := 0; b0 < 256; b0++ {
			for _, b1 := range []int{0x00, 0x07, 0x08, 0x0f, 0x10, 0x38, 0x3f, 0x40, 0x78, 0x7f, 0x80, 0x88, 0x90, 0xb8, 0xbf, 0xc0, 0xf8, 0xff} {
				ascCase(b0, b1, nil, zero, "asc/boundary-grid")
			}
		}
		for i := 0; i < 3000; i++ {
			ascCase(r.Intn(256), r.Intn(256), nil, zero, "asc/random")
		}
	}
	for i := c.N(300, 3000); i > 0; i-- { // trailing bytes are ignored; prior receiver state is overwritten
		ascCase(r.Intn(256), r.Intn(256), r.Bytes(1+r.Intn(4)), aacCfg{uint8(r.Intn(32)), uint8(r.Intn(16)), uint8(r.Intn(16))}, "asc/tail+state")
	}
	for _, d := range [][]byte{nil, {0x12}, {0xff}} { // too short: error, receiver untouched
		st := aacCfg{2, 4, 2}
		in := fmt.Sprintf("asc.dec %s %s", st, h.Hex(d))
		impl := ascDec(st, d)
		eq("asc.dec", in, impl, c.O.Call("asc.dec", st.String(), h.Hex(d)))
		c.Hold(impl == "err "+st.String(), "asc.short", in, impl, "err "+st.String())
		c.Case("asc/short", in, true)
	}
	// marshal from fields: every 5-bit object x 4-bit rate x 4-bit channels (+ out-of-width values)
	for o := 0; o < 32; o++ {
		for s := 0; s < 16; s++ {
			for ch := 0; ch < 16; ch++ {
				k := aacCfg{uint8(o), uint8(s), uint8(ch)}
				in := "asc.enc " + k.String()
				m, out := ascEnc(k)
				eq("asc.enc", in, m, c.O.Call("asc.enc", k.String()))
				if aacAccepted(k) {
					exp := []byte{byte(o<<3 | s>>1), byte((s&1)<<7 | ch<<3)}
					c.Hold(bytes.Equal(out, exp), "asc.layout", in, m, "ok "+h.Hex(exp))
					back := ascDec(zero, out)
					c.Hold(back == "ok "+k.String(), "asc.roundtrip", in, back, "ok "+k.String())
				} else {
					c.Hold(m == "err", "asc.reject", in, m, "err")
				}
				c.Case(fmt.Sprintf("asc/enc-grid/accepted=%v", aacAccepted(k)), in, true)
			}
		}
	}
	for i := c.N(200, 2000); i > 0; i-- {
		k := aacCfg{uint8(r.Intn(256)), uint8(r.Intn(256)), uint8(r.Intn(256))}
		in := "asc.enc " + k.String()
		m, _ := ascEnc(k)
		eq("asc.enc", in, m, c.O.Call("asc.enc", k.String()))
		c.Hold(aacAccepted(k) || m == "err", "asc.reject", in, m, "err")
		c.Case("asc/enc-wide", in, true)
	}

	// 3. library encoder: every accepted config x boundary lengths.
	nlen := c.N(4, len(aacLens))
	combo := 0
	for _, o := range aacObjs {
		for s := 1; s <= 12; s++ {
			for ch := 1; ch <= 7; ch++ {
				k := aacCfg{o, uint8(s), uint8(ch)}
				for j := 0; j < nlen; j++ {
					n := aacLens[(combo*3+j*(len(aacLens)/nlen))%len(aacLens)]
					field, raw := payload(r, n)
					in := fmt.Sprintf("adts.enc %s %s", k, field)
					enc, out := adtsEnc(k, raw)
					eq("adts.enc", in, enc, c.O.Call("adts.enc", k.String(), field))
					// wire = the ISO writer's bytes for this profile/index/channels/raw. The bits the standard leaves
					// to the writer (ID, protection, private, original, home, copyright, buffer fullness, CRC) are read
					// from the library's output; everything else - sync word, layer, field positions, the 13-bit length,
					// number_of_raw_data_blocks = 0 - must then coincide byte for byte.
					sf := specFrame{id: 0, pa: 1, prof: int(aacProfileOf(o)), sfi: s, ch: ch, bf: 63, raw: field}
					if len(out) >= 7 {
						sf.id, sf.pa = int(out[1]>>3&1), int(out[1]&1)
						sf.priv, sf.orig, sf.home = int(out[2]>>1&1), int(out[3]>>5&1), int(out[3]>>4&1)
						sf.cb, sf.cs = int(out[3]>>3&1), int(out[3]>>2&1)
						sf.bf = int(out[5]&0x1f)<<6 | int(out[6]>>2)
						if sf.pa == 0 && len(out) >= 9 {
							sf.crc = int(out[7])<<8 | int(out[8])
						}
					}
					sw := sf.write(c)
					c.Hold(bytes.Equal(out, sw), "adts.is_spec", in, h.Trunc(h.Hex(out), 64), h.Trunc(h.Hex(sw), 64))
					// round trip: same raw, nothing left, reports profile / index / channels
					exp := aacCfg{aacProfileOf(o) + 1, uint8(s), uint8(ch)}
					st := zero
					if r.Chance(30) {
						st = aacCfg{uint8(r.Intn(256)), uint8(r.Intn(256)), uint8(r.Intn(256))}
					}
					dec, draw, dleft, after := adtsDec(st, out)
					okrt := strings.HasPrefix(dec, "ok ") && bytes.Equal(draw, raw) && len(dleft) == 0 && after == exp &&
						uint8(aac.ObjectType(after.o).ToProfile()) == uint8(aac.ObjectType(o).ToProfile())
					c.Hold(okrt, "adts.roundtrip", in, h.Trunc(dec, 120), fmt.Sprintf("ok <raw %d bytes> - %s", n, exp))
					eq("adts.dec", "adts.dec "+st.String()+" <encoded> of "+in, dec,
						c.O.Call("adts.dec", st.String(), h.Hex(out)))
					c.Case(fmt.Sprintf("enc/obj=%d/len=%d", o, n), in, true)
				}
				combo++
			}
		}
	}
	// every raw length 1..8184 (the 13-bit length straddles bytes 3..5): round trip on the implementation;
	// thorough also compares every frame with the model's encoder. Configs rotate with the length.
	for n := 1; n <= 8184; n++ {
		k := aacCfg{aacObjs[n%5], uint8(1 + n%12), uint8(1 + n%7)}
		seed := uint32(r.U64())
		raw := h.LCGBytes(n, seed)
		in := fmt.Sprintf("adts.enc %s p:%d:%d", k, n, seed)
		enc, out := adtsEnc(k, raw)
		dec, draw, dleft, after := adtsDec(zero, out)
		exp := aacCfg{aacProfileOf(k.o) + 1, k.s, k.c}
		okrt := strings.HasPrefix(enc, "ok ") && len(out) == n+7 && strings.HasPrefix(dec, "ok ") && bytes.Equal(draw, raw) &&
			len(dleft) == 0 && after == exp
		c.Hold(okrt, "adts.roundtrip", in, h.Trunc(dec, 120), fmt.Sprintf("ok <raw %d bytes> - %s", n, exp))
		if c.Thorough() || n%64 == 0 {
			eq("adts.enc", in, enc, c.O.Call("adts.enc", k.String(), fmt.Sprintf("p:%d:%d", n, seed)))
		}
		c.Case(fmt.Sprintf("enc/every-length/%dxx", n/1000), in, true)
	}

	// encoder outside the property's domain (correspondence only): rejected configs, empty and oversized raw.
	for o := 0; o < 32; o++ {
		for s := 0; s < 16; s++ {
			for ch := 0; ch < 9; ch++ {
				k := aacCfg{uint8(o), uint8(s), uint8(ch)}
				if aacAccepted(k) && (o+s+ch)%7 != 0 {
					continue
				}
				in := fmt.Sprintf("adts.enc %s ab", k)
				enc, _ := adtsEnc(k, []byte{0xab})
				eq("adts.enc", in, enc, c.O.Call("adts.enc", k.String(), "ab"))
				c.Hold(aacAccepted(k) || enc == "err", "adts.enc_reject", in, enc, "err")
				c.Case(fmt.Sprintf("enc/grid/accepted=%v", aacAccepted(k)), in, true)
			}
		}
	}
	for _, n := range []int{0, 8185, 8192, 65528, 65529, 65530, 70000} {
		k := aacCfg{2, 4, 2}
		field, raw := payload(r, n)
		in := fmt.Sprintf("adts.enc %s %s", k, field)
		enc, _ := adtsEnc(k, raw)
		eq("adts.enc", in, h.Trunc(enc, 200), h.Trunc(c.O.Call("adts.enc", k.String(), field), 200))
		c.Case("enc/outside-domain-lengths", in, true)
	}

	// 4. independent ISO 13818-7 writer: profile x rate x channels x id x protection, exhaustively, x lengths.
	combo = 0
	for prof := 0; prof < 4; prof++ {
		for sfi := 0; sfi < 16; sfi++ {
			for ch := 0; ch < 8; ch++ {
				for id := 0; id < 2; id++ {
					for pa := 0; pa < 2; pa++ {
						for j := 0; j < nlen; j++ {
							n := aacLens[(combo*3+j*(len(aacLens)/nlen))%len(aacLens)]
							if pa == 0 && n > 8182 {
								n -= 2 // frame length is 13 bits: 9 + raw <= 8191
							}
							field, raw := payload(r, n)
							f := specFrame{id: id, pa: pa, prof: prof, sfi: sfi, ch: ch, raw: field}
							randCare(r, &f)
							w := f.write(c)
							// a second frame behind it in a third of the cases: the remainder must be exactly that frame
							var tail []byte
							if r.Chance(33) {
								tail = specFrame{id: 1, pa: r.Intn(2), prof: 1, sfi: 4, ch: 2, bf: 2047, crc: r.Intn(65536), raw: "0a0b"}.write(c)
							}
							data := append(append([]byte{}, w...), tail...)
							in := fmt.Sprintf("decode(%s)+%s", f, h.Hex(tail))
							dec, draw, dleft, after := adtsDec(zero, data)
							c.Hold(len(w) == f.hdrLen()+n, "spec.frame_size", in, fmt.Sprint(len(w)), fmt.Sprint(f.hdrLen()+n))
							if f.accepted() {
								ok := strings.HasPrefix(dec, "ok ") && bytes.Equal(draw, raw) && bytes.Equal(dleft, tail) && after == f.cfg() &&
									(len(dleft) == 0 || startsWithSync(dleft))
								c.Hold(ok, "spec.decode", in, h.Trunc(dec, 120), fmt.Sprintf("ok <raw %d bytes> %s %s", n, h.Hex(tail), f.cfg()))
							} // headers outside the accepted set: correspondence only (the model rejects them too)
							hl := f.hdrLen()
							eq("adts.dec", "adts.dec 0.0.0 of "+in, dec,
								c.O.Call("adts.dec", "0.0.0", h.Hex(w[:hl])+"+"+field+"+"+h.Hex(tail)))
							c.Case(fmt.Sprintf("spec/id=%d,pa=%d,accepted=%v/len=%d", id, pa, f.accepted(), n), in, true)
						}
						combo++
					}
				}
			}
		}
	}

	// 5. multi-frame streams (library frames and ISO-writer frames mixed, configs change mid-stream).
	for i := c.N(300, 6000); i > 0; i-- {
		k := 1 + r.Intn(6)
		var data []byte
		var raws [][]byte
		var bounds []int
		var desc []string
		var wantCfgs []aacCfg
		var prevO uint8
		var prevS, prevCh int
		for j := 0; j < k; j++ {
			var n int
			switch r.Intn(10) {
			case 0:
				n = aacLens[r.Intn(len(aacLens))]
			case 1:
				n = r.Pick(1, 2, 3)
			default:
				n = 1 + r.Intn(40)
			}
			o, s, ch := aacObjs[r.Intn(5)], 1+r.Intn(12), 1+r.Intn(7)
			if j > 0 && r.Chance(60) {
				// same stream, ONE field of the configuration changes (a decoder that keys anything on part of the
				// header must notice each of them): profile, frequency index, or channels by a small step
				o, s, ch = prevO, prevS, prevCh
				switch r.Intn(4) {
				case 0:
					o = aacObjs[r.Intn(5)]
				case 1:
					s = 1 + r.Intn(12)
				case 2:
					ch = 1 + (ch-1+r.Pick(1, 2, 3, 4))%7
				}
			}
			prevO, prevS, prevCh = o, s, ch
			wantCfgs = append(wantCfgs, aacCfg{aacProfileOf(o) + 1, uint8(s), uint8(ch)})
			var w []byte
			if r.Bool() {
				_, raw := payload(r, n)
				_, w = adtsEnc(aacCfg{o, uint8(s), uint8(ch)}, raw)
				raws = append(raws, raw)
				desc = append(desc, fmt.Sprintf("lib(%d.%d.%d,%d)", o, s, ch, n))
			} else {
				f := specFrame{id: r.Intn(2), pa: r.Intn(2), prof: int(aacProfileOf(o)), sfi: s, ch: ch}
				if f.pa == 0 && n > 8182 {
					n = 8182
				}
				field, raw := payload(r, n)
				f.raw = field
				randCare(r, &f)
				w = f.write(c)
				raws = append(raws, raw)
				desc = append(desc, fmt.Sprintf("iso(id%d,pa%d,%d.%d.%d,%d)", f.id, f.pa, f.prof, s, ch, n))
			}
			data = append(data, w...)
			bounds = append(bounds, len(data))
		}
		in := "adts.stream 0.0.0 " + strings.Join(desc, "+")
		res, got, lefts := adtsStream(zero, data)
		ok := strings.HasPrefix(res, "ok") && len(got) == k
		for j := 0; ok && j < k; j++ {
			ok = bytes.Equal(got[j], raws[j]) && bytes.Equal(lefts[j], data[bounds[j]:]) && (len(lefts[j]) == 0 || startsWithSync(lefts[j]))
		}
		c.Hold(ok, "adts.concat", in, h.Trunc(res, 160), fmt.Sprintf("%d frames, each remainder at the next sync word", k))
		if ok {
			// after each frame the decoder reports THAT frame's profile, frequency index and channels
			c.Hold(fmt.Sprint(adtsStreamCfgs) == fmt.Sprint(wantCfgs), "adts.stream_reports_config", in+" "+h.Trunc(h.Hex(data), 4000), fmt.Sprint(adtsStreamCfgs), fmt.Sprint(wantCfgs))
		}
		eq("adts.stream", in, res, c.O.Call("adts.stream", "0.0.0", h.Hex(data)))
		c.Case(fmt.Sprintf("stream/frames=%d", k), in+fmt.Sprint(len(data)), true)
	}

	// 5b. LONG streams: well over 64 KiB of frames behind the one being decoded (buffer lengths do not fit 16 bits),
	// sizes chosen so that (bytes remaining) mod 65536 is smaller than a frame now and then
	for round := 0; round < c.N(2, 12); round++ {
		nfr := 110 + r.Intn(40)
		size := r.Pick(700, 1000, 333, 8184)
		if size == 8184 {
			nfr = 12 + r.Intn(6)
		}
		var data []byte
		var raws [][]byte
		cfg := aacCfg{2, uint8(1 + r.Intn(12)), uint8(1 + r.Intn(7))}
		for j := 0; j < nfr; j++ {
			raw := h.LCGBytes(size-r.Intn(3), uint32(round*1000+j))
			_, w := adtsEnc(cfg, raw)
			raws = append(raws, raw)
			data = append(data, w...)
		}
		in := fmt.Sprintf("adts.stream 0.0.0 long: %d library frames of ~%d bytes (%d bytes in all), cfg %s", nfr, size, len(data), cfg)
		res, got, _ := adtsStream(zero, data)
		ok := strings.HasPrefix(res, "ok") && len(got) == nfr
		for j := 0; ok && j < nfr; j++ {
			ok = bytes.Equal(got[j], raws[j])
		}
		c.Hold(ok, "adts.concat", in, h.Trunc(res, 120)+fmt.Sprintf(" (%d frames decoded)", len(got)), fmt.Sprintf("%d frames", nfr))
		c.Case("stream/long", in, true)
	}

	// 6. malformed stream: every truncation, header mutations, length lies, random bytes.
	mal := func(bucket string, st aacCfg, data []byte) {
		in := fmt.Sprintf("adts.dec %s %s", st, h.Hex(data))
		dec, _, _, _ := adtsDec(st, data)
		eq("adts.dec", h.Trunc(in, 300), dec, c.O.Call("adts.dec", st.String(), h.Hex(data)))
		c.Hold(!strings.HasPrefix(dec, "panic"), "no_panic", h.Trunc(in, 300), h.Trunc(dec, 100), "ok|err")
		c.Case(bucket+"/"+strings.Fields(dec)[0], in, true)
	}
	for pa := 0; pa < 2; pa++ {
		w := specFrame{id: pa, pa: pa, prof: 1, sfi: 4, ch: 2, bf: 2047, crc: 0x1234, raw: "0102030405"}.write(c)
		w = append(w, 0xff, 0xf1)
		for cut := 0; cut <= len(w); cut++ {
			mal("malformed/every-cut", aacCfg{2, 4, 2}, w[:cut])
		}
		for pos := 0; pos < 9; pos++ { // every value of every header byte
			for v := 0; v < 256; v++ {
				m := append([]byte{}, w...)
				m[pos] = byte(v)
				mal(fmt.Sprintf("malformed/header-byte-%d", pos), zero, m)
			}
		}
	}
	for i := c.N(2000, 60000); i > 0; i-- {
		st := zero
		if r.Chance(30) {
			st = aacCfg{uint8(r.Intn(32)), uint8(r.Intn(16)), uint8(r.Intn(16))}
		}
		var data []byte
		switch r.Intn(4) {
		case 0:
			data = r.Bytes(r.Intn(20))
		case 1:
			data = append([]byte{0xff, byte(0xf0 | r.Intn(16))}, r.Bytes(r.Intn(30))...)
		default:
			f := specFrame{id: r.Intn(2), pa: r.Intn(2), prof: r.Intn(4), sfi: r.Intn(16), ch: r.Intn(8), raw: h.Hex(r.Bytes(1 + r.Intn(12)))}
			randCare(r, &f)
			data = f.write(c)
			if r.Bool() {
				data = data[:r.Intn(len(data)+1)]
			}
			for k := r.Intn(3); k > 0 && len(data) > 0; k-- {
				data[r.Intn(len(data))] ^= byte(1 << r.Intn(8))
			}
			if r.Chance(25) { // frame-length lie
				fl := r.Pick(0, 1, 6, 7, 8, 9, 10, 8191, r.Intn(8192))
				if len(data) >= 6 {
					data[3] = data[3]&0xfc | byte(fl>>11)
					data[4] = byte(fl >> 3)
					data[5] = data[5]&0x1f | byte(fl<<5)
				}
			}
			if r.Bool() {
				data = append(data, r.Bytes(r.Intn(12))...)
			}
		}
		mal("malformed/random", st, data)
	}
	// frame_length below the header size on an input longer than 65535 bytes (uint16 wrap of the raw size)
	for _, fl := range []int{0, 6, 8} {
		for pa := 0; pa < 2; pa++ {
			hdr := []byte{0xff, byte(0xf0 | pa), 0x50, byte(0x80 | fl>>11), byte(fl >> 3), byte(fl<<5) | 0x1f, 0xfc}
			seed := uint32(r.U64())
			field := fmt.Sprintf("%s+p:66000:%d", h.Hex(hdr), seed)
			data := append(append([]byte{}, hdr...), h.LCGBytes(66000, seed)...)
			in := "adts.dec 0.0.0 " + field
			dec, _, _, _ := adtsDec(zero, data)
			eq("adts.dec", in, dec, c.O.Call("adts.dec", "0.0.0", field))
			c.Hold(!strings.HasPrefix(dec, "panic"), "no_panic", in, h.Trunc(dec, 100), "ok|err")
			c.Case("malformed/short-frame-length-on-64k-input", in, true)
		}
	}
	// the public configuration entry point: every codec configured through SetASC reported the configuration given
	for _, m := range c11SetASC {
		c.Hold(false, "adts.setasc", m, "differs", "the configuration set")
	}
	c.Case("setasc/configured-through-public-entry-point", fmt.Sprint(c11Flip/2), len(c11SetASC) == 0)
}
