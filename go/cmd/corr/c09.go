package main

// C09 — FLV mux/demux and layout: implementation vs Lean model vs independent Annex E writer.

import (
	"bytes"
	"crypto/sha256"
	"fmt"
	"io"
	"strings"

	oerrors "github.com/ossrs/go-oryx-lib/errors"
	"github.com/ossrs/go-oryx-lib/flv"
	"verifharness/internal/h"
)

func init() { register("C09", c09) }

// flvTag is one generated tag; desc is the body descriptor sent to the oracle (hex or p:len:seed).
type flvTag struct {
	ty   uint8
	ts   uint32
	body []byte
	desc string
}

func (t flvTag) str() string { return fmt.Sprintf("%d.%d.%s", t.ty, t.ts, h.Hex(t.body)) }
func (t flvTag) arg() string { return fmt.Sprintf("%d.%d.%s", t.ty, t.ts, t.desc) }

func flvTagsStr(ts []flvTag) string {
	if len(ts) == 0 {
		return "_"
	}
	p := make([]string, len(ts))
	for i, t := range ts {
		p[i] = t.str()
	}
	return strings.Join(p, ",")
}
func flvTagsArg(ts []flvTag) string {
	if len(ts) == 0 {
		return "_"
	}
	p := make([]string, len(ts))
	for i, t := range ts {
		p[i] = t.arg()
	}
	return strings.Join(p, ",")
}

func flvBody(r *h.Rand, n int) ([]byte, string) {
	if n <= 48 {
		b := r.Bytes(n)
		return b, h.Hex(b)
	}
	seed := uint32(r.U64())
	return h.LCGBytes(n, seed), fmt.Sprintf("p:%d:%d", n, seed)
}

// short keeps small canonical strings and replaces large ones by prefix + length + digest
// (still different whenever the strings differ).
func short(s string) string {
	if len(s) <= 400 {
		return s
	}
	sum := sha256.Sum256([]byte(s))
	return fmt.Sprintf("%s…(len=%d sha256=%x)", s[:200], len(s), sum[:8])
}

func b01(b bool) string {
	if b {
		return "1"
	}
	return "0"
}

func flvErrClass(err error) string {
	switch oerrors.Cause(err) {
	case io.EOF:
		return "err-eof"
	case io.ErrUnexpectedEOF:
		return "err-ueof"
	}
	return "err"
}

// flvMux runs the real muxer.
// flvCallerTouched: tags whose bytes (or the bytes BEHIND them in the caller's buffer) changed while they were muxed.
var flvCallerTouched []string

func flvMux(hv, ha bool, tags []flvTag) (out []byte, res string) {
	// the bodies are handed to the muxer the way a demuxing / remuxing application holds them: consecutive
	// sub-slices of ONE buffer, each with spare capacity behind it (the next tag's bytes). Writing a tag must not
	// touch a single byte of that buffer.
	total := 0
	for _, t := range tags {
		total += len(t.body)
	}
	if total <= 1<<22 {
		arena := make([]byte, 0, total+16)
		for _, t := range tags {
			arena = append(arena, t.body...)
		}
		arena = append(arena, bytes.Repeat([]byte{0x5a}, 16)...)
		snap := append([]byte(nil), arena...)
		shared := make([]flvTag, len(tags))
		off := 0
		for i, t := range tags {
			shared[i] = t
			shared[i].body = arena[off : off+len(t.body)] // cap reaches to the end of the arena
			off += len(t.body)
		}
		tags = shared
		defer func() {
			if !bytes.Equal(arena, snap) && len(flvCallerTouched) < 3 {
				i := 0
				for i < len(arena) && arena[i] == snap[i] {
					i++
				}
				flvCallerTouched = append(flvCallerTouched, fmt.Sprintf("%d tags muxed from one %d-byte buffer: byte %d of the caller's buffer changed from %02x to %02x", len(tags), len(arena), i, snap[i], arena[i]))
			}
		}()
	}
	res = h.Safe(func() string {
		// the writer is, in turn, a plain buffer and a file-like writer that can also seek (what an application muxing
		// to disk hands over): the bytes in it after Close are the file
		flvMuxN++
		var buf bytes.Buffer
		mf := &flvMemFile{}
		var w io.Writer = &buf
		if flvMuxN%2 == 0 {
			w = mf
		}
		defer func() {
			if flvMuxN%2 == 0 {
				out = mf.b
			}
		}()
		m, err := flv.NewMuxer(w)
		if err != nil {
			return "err"
		}
		if err := m.WriteHeader(hv, ha); err != nil {
			return flvErrClass(err)
		}
		for _, t := range tags {
			if err := m.WriteTag(flv.TagType(t.ty), t.ts, t.body); err != nil {
				return flvErrClass(err)
			}
		}
		m.Close()
		out = buf.Bytes()
		return "ok"
	})
	return
}

var flvMuxN int

// flvMemFile: an in-memory io.WriteSeeker.
type flvMemFile struct {
	b   []byte
	pos int
}

func (f *flvMemFile) Write(p []byte) (int, error) {
	if need := f.pos + len(p); need > len(f.b) {
		f.b = append(f.b, make([]byte, need-len(f.b))...)
	}
	copy(f.b[f.pos:], p)
	f.pos += len(p)
	return len(p), nil
}

func (f *flvMemFile) Seek(off int64, whence int) (int64, error) {
	switch whence {
	case io.SeekStart:
		f.pos = int(off)
	case io.SeekCurrent:
		f.pos += int(off)
	default:
		f.pos = len(f.b) + int(off)
	}
	if f.pos < 0 {
		f.pos = 0
	}
	return int64(f.pos), nil
}

// readers with different segmentations of the same byte stream -------------------------------

type segReader struct {
	b   []byte
	r   *h.Rand
	max int
}

func (s *segReader) Read(p []byte) (int, error) {
	if len(s.b) == 0 {
		return 0, io.EOF
	}
	if len(p) == 0 {
		return 0, nil
	}
	n := 1
	if s.max > 1 {
		n = 1 + s.r.Intn(s.max)
	}
	if n > len(p) {
		n = len(p)
	}
	if n > len(s.b) {
		n = len(s.b)
	}
	copy(p, s.b[:n])
	s.b = s.b[n:]
	return n, nil
}

// dataErrReader returns the final bytes together with io.EOF (allowed by the io.Reader contract).
type dataErrReader struct{ b []byte }

func (s *dataErrReader) Read(p []byte) (int, error) {
	n := copy(p, s.b)
	s.b = s.b[n:]
	if len(s.b) == 0 {
		return n, io.EOF
	}
	return n, nil
}

func flvReader(kind int, data []byte, r *h.Rand) io.Reader {
	switch kind {
	case 1:
		return &segReader{b: data, max: 1}
	case 2:
		return &segReader{b: data, r: r.Fork(), max: 1 + r.Pick(2, 7, 13, 300, 70000)}
	case 3:
		return &dataErrReader{b: data}
	}
	return bytes.NewReader(data)
}

var flvReaderNames = []string{"whole", "1byte", "seeded", "data+eof"}

// flvDemux runs the real demuxer the way the model's `demux` does: ReadHeader, then
// ReadTagHeader/ReadTag(size) until the first error. Canonical: "ok ver hv ha tags stop".
func flvDemux(rd io.Reader) (res string, tags []flvTag) {
	res = h.Safe(func() string {
		d, err := flv.NewDemuxer(rd)
		if err != nil {
			return "err"
		}
		defer d.Close()
		ver, hv, ha, err := d.ReadHeader()
		if err != nil {
			return flvErrClass(err)
		}
		stop := ""
		func() {
			defer func() {
				if r := recover(); r != nil {
					stop = "panic"
				}
			}()
			for {
				ty, size, ts, err := d.ReadTagHeader()
				if err != nil {
					stop = flvErrClass(err)
					return
				}
				body, err := d.ReadTag(size)
				if err != nil {
					stop = flvErrClass(err)
					return
				}
				tags = append(tags, flvTag{ty: uint8(ty), ts: ts, body: body})
			}
		}()
		return fmt.Sprintf("ok %d %s %s %s %s", ver, b01(hv), b01(ha), flvTagsStr(tags), stop)
	})
	return
}

// fileArg describes a muxed file to the oracle without hex-dumping large bodies.
func flvFileArg(file []byte, tags []flvTag) string {
	if len(file) < 13 {
		return h.Hex(file)
	}
	parts := []string{h.Hex(file[:13])}
	off := 13
	for _, t := range tags {
		n := len(t.body)
		if off+11+n+4 > len(file) {
			break
		}
		parts = append(parts, h.Hex(file[off:off+11]))
		if n > 0 {
			parts = append(parts, t.desc)
		}
		parts = append(parts, h.Hex(file[off+11+n:off+15+n]))
		off += 15 + n
	}
	if off < len(file) {
		parts = append(parts, h.Hex(file[off:]))
	}
	return strings.Join(parts, "+")
}

func sizeBucket(n int) string {
	switch {
	case n == 0:
		return "0"
	case n < 255:
		return "1-254"
	case n <= 256:
		return "255-256"
	case n < 65535:
		return "257-65534"
	case n <= 65536:
		return "65535-65536"
	case n < 1<<24-1:
		return "65537-2^24-2"
	}
	return "2^24-1"
}

func tsBucket(ts uint32) string {
	switch {
	case ts < 1<<24-2:
		return "<2^24-2"
	case ts <= 1<<24+1:
		return "~2^24"
	case ts >= 1<<32-2:
		return "~2^32-1"
	}
	return ">2^24"
}

// flvFileCase: all clauses of the property for one (flags, tags) file.
func flvFileCase(c *h.Ctx, bucket string, hv, ha bool, tags []flvTag, readers []int) {
	in := fmt.Sprintf("flv.mux %s %s %s", b01(hv), b01(ha), flvTagsArg(tags))
	inT := h.Trunc(in, 400)
	file, res := flvMux(hv, ha, tags)
	c.Hold(res == "ok", "mux.ok", inT, res, "ok")
	if res != "ok" {
		c.Case(bucket, in, false)
		return
	}
	fx := h.Hex(file)
	// model = implementation
	c.Eq("mux", inT, short(fx), short(c.O.Call(strings.Fields(in)...)))
	// property: the bytes are exactly the Annex E layout (independent writer)
	spec := c.O.Call("flv.spec.file", b01(ha), b01(hv), flvTagsArg(tags))
	c.Hold(spec == fx, "mux.is_spec", inT, short(fx), short(spec))
	// structural layout facts an independent parser would check, directly on the implementation's bytes
	c.Hold(flvLayoutOK(file, hv, ha, tags), "mux.layout", inT, short(fx), "Annex E layout")
	want := fmt.Sprintf("ok 1 %s %s %s err-eof", b01(hv), b01(ha), flvTagsStr(tags))
	// property: round trip, whatever the reader's segmentation
	for _, k := range readers {
		got, _ := flvDemux(flvReader(k, file, c.R))
		c.Hold(got == want, "demux_mux."+flvReaderNames[k], inT, short(got), short(want))
	}
	// property: a file from the independent writer demuxes to the same tags
	if spec != fx {
		got, _ := flvDemux(bytes.NewReader(h.UnHex(spec)))
		c.Hold(got == want, "demux_spec", inT, short(got), short(want))
	} else {
		c.Trace() // identical bytes: covered by demux_mux above
	}
	// model = implementation on the demux side
	got, _ := flvDemux(bytes.NewReader(file))
	m := c.O.Call("flv.demux", flvFileArg(file, tags))
	c.Eq("demux", "flv.demux "+h.Trunc(flvFileArg(file, tags), 400), short(got), short(m))
	c.Case(bucket, in, true)
}

// flvLayoutOK re-parses the implementation's bytes with a tiny independent Annex E reader
// (PreviousTagSize included — the library's own demuxer skips it).
func flvLayoutOK(file []byte, hv, ha bool, tags []flvTag) bool {
	if len(file) < 13 || string(file[:3]) != "FLV" || file[3] != 1 {
		return false
	}
	var fl byte
	if ha {
		fl += 4
	}
	if hv {
		fl += 1
	}
	if file[4] != fl || !bytes.Equal(file[5:9], []byte{0, 0, 0, 9}) || !bytes.Equal(file[9:13], []byte{0, 0, 0, 0}) {
		return false
	}
	p := file[13:]
	for _, t := range tags {
		n := len(t.body)
		if len(p) < 15+n {
			return false
		}
		if p[0] != t.ty || int(p[1])*65536+int(p[2])*256+int(p[3]) != n {
			return false
		}
		ts := uint64(p[7])*16777216 + uint64(p[4])*65536 + uint64(p[5])*256 + uint64(p[6])
		if ts != uint64(t.ts) || p[8] != 0 || p[9] != 0 || p[10] != 0 {
			return false
		}
		if !bytes.Equal(p[11:11+n], t.body) {
			return false
		}
		q := p[11+n:]
		if uint64(q[0])*16777216+uint64(q[1])*65536+uint64(q[2])*256+uint64(q[3]) != uint64(11+n) {
			return false
		}
		p = q[4:]
	}
	return len(p) == 0
}

func c09(c *h.Ctx) {
	r := c.R
	defer func() {
		for _, m := range flvCallerTouched {
			c.Hold(false, "mux.caller_buffer_untouched", m, "changed", "unchanged")
		}
		flvCallerTouched = nil
	}()
	allReaders := []int{0, 1, 2, 3}

	// 0. fixed regression cases (F20: ReadTag size+4 wrapped in uint32 and panicked).
	for _, sz := range []uint32{0xfffffffc, 0xfffffffd, 0xfffffffe, 0xffffffff, 0xfffffffb, 0, 1, 4} {
		for _, data := range [][]byte{nil, {1, 2, 3}, {1, 2, 3, 4}, {1, 2, 3, 4, 5, 6, 7, 8}} {
			in := fmt.Sprintf("flv.tag.dec %d %s", sz, h.Hex(data))
			rd := bytes.NewReader(data)
			impl := h.Safe(func() string {
				d, _ := flv.NewDemuxer(rd)
				b, err := d.ReadTag(sz)
				if err != nil {
					return flvErrClass(err)
				}
				return fmt.Sprintf("ok %s %d", h.Hex(b), rd.Len())
			})
			c.Eq("tag.dec", in, impl, c.O.Call(strings.Fields(in)...))
			c.Hold(impl != "panic", "no_panic", in, impl, "ok|err")
			c.Case("regression/F20-readtag-size", in, true)
		}
	}

	// 1. headers: all four flag combinations, no tags.
	for _, hv := range []bool{false, true} {
		for _, ha := range []bool{false, true} {
			flvFileCase(c, "header/flags", hv, ha, nil, allReaders)
			in := fmt.Sprintf("flv.hdr.enc %s %s", b01(hv), b01(ha))
			file, _ := flvMux(hv, ha, nil)
			c.Eq("hdr.enc", in, h.Hex(file), c.O.Call(strings.Fields(in)...))
		}
	}

	// 2. boundary grid: sizes x timestamps, one tag per file, every flag combination in turn.
	sizes := []int{0, 1, 255, 256, 65535, 65536}
	stamps := []uint32{0, 1, 1<<24 - 2, 1<<24 - 1, 1 << 24, 1<<24 + 1, 0x12345678, 1<<31 - 1, 1 << 31, 1<<32 - 2, 1<<32 - 1}
	types := []uint8{8, 9, 18, 0, 255}
	k := 0
	for _, n := range sizes {
		for _, ts := range stamps {
			body, desc := flvBody(r, n)
			t := flvTag{ty: types[k%len(types)], ts: ts, body: body, desc: desc}
			readers := allReaders
			if n >= 65535 && !c.Thorough() {
				readers = []int{0, 1 + k%3}
			}
			flvFileCase(c, fmt.Sprintf("grid/size=%s,ts=%s", sizeBucket(n), tsBucket(ts)), k&1 == 1, k&2 == 2, []flvTag{t}, readers)
			k++
		}
	}
	// sizes around the buffer sizes an implementation is likely to use internally (4096 and multiples, minus the
	// 11-byte tag header and the 4-byte trailer): a tag followed by a second one, every reader in turn
	for _, base := range []int{4096, 8192, 16384, 32768} {
		for d := -16; d <= 4; d++ {
			n := base + d
			if !c.Thorough() && base > 4096 && d%4 != 0 {
				continue
			}
			body, desc := flvBody(r, n)
			small, sdesc := flvBody(r, 3)
			tags := []flvTag{{ty: 9, ts: uint32(n), body: body, desc: desc}, {ty: 8, ts: uint32(n + 1), body: small, desc: sdesc}}
			flvFileCase(c, fmt.Sprintf("internal-buffer-sizes/%d", base), true, true, tags, []int{k % 4})
			k++
		}
	}
	if c.Thorough() {
		for i, ts := range []uint32{1<<24 + 1, 1<<32 - 1} {
			body, desc := flvBody(r, 1<<24-1)
			t := flvTag{ty: 9, ts: ts, body: body, desc: desc}
			flvFileCase(c, "grid/size=2^24-1,ts="+tsBucket(ts), i == 0, true, []flvTag{t}, []int{0, 1, 2})
		}
	}

	// 2b. the 24-bit size boundary in EVERY tier, on the implementation alone (no 16 MiB lists in the oracle):
	// layout by the independent re-parser (PreviousTagSize = 11 + size needs all 32 bits there) and round trip.
	for _, n := range []int{1<<24 - 12, 1<<24 - 11, 1<<24 - 2, 1<<24 - 1} {
		body := h.LCGBytes(n, uint32(n))
		t := flvTag{ty: 9, ts: 1<<24 + 1, body: body, desc: fmt.Sprintf("p:%d:%d", n, n)}
		in := fmt.Sprintf("flv.mux 1 1 9:%d:p:%d:%d (implementation only)", t.ts, n, n)
		file, res := flvMux(true, true, []flvTag{t})
		c.Hold(res == "ok", "mux.ok", in, res, "ok")
		if res == "ok" {
			c.Hold(flvLayoutOK(file, true, true, []flvTag{t}), "mux.layout", in, fmt.Sprintf("%d bytes, trailer %x", len(file), file[len(file)-4:]), "Annex E layout, PreviousTagSize = 11 + size")
			ok := h.Safe(func() string {
				d, _ := flv.NewDemuxer(bytes.NewReader(file))
				if _, _, _, err := d.ReadHeader(); err != nil {
					return "header err"
				}
				ty, sz, ts, err := d.ReadTagHeader()
				if err != nil || uint8(ty) != 9 || int(sz) != n || ts != t.ts {
					return fmt.Sprintf("tag header %v %v %v %v", ty, sz, ts, err)
				}
				b, err := d.ReadTag(sz)
				if err != nil || !bytes.Equal(b, body) {
					return "body differs"
				}
				if _, _, _, err := d.ReadTagHeader(); flvErrClass(err) != "err-eof" {
					return "no clean EOF"
				}
				return "ok"
			})
			c.Hold(ok == "ok", "demux_mux.whole", in, ok, "ok")
		}
		c.Case("grid/size~2^24(impl-only)", in, true)
	}

	// 3. random files: 0..8 tags, boundary-biased sizes and timestamps.
	pickSize := func() int {
		switch r.Intn(10) {
		case 0:
			return 0
		case 1:
			return r.Pick(1, 2, 254, 255, 256, 257)
		case 2:
			if r.Chance(30) {
				return r.Pick(65534, 65535, 65536, 65537)
			}
			return 300 + r.Intn(3000)
		default:
			return r.Intn(64)
		}
	}
	pickTs := func() uint32 {
		switch r.Intn(6) {
		case 0:
			return uint32(1<<24 - 3 + r.Intn(6))
		case 1:
			return uint32(1<<32 - 1 - uint64(r.Intn(4)))
		case 2:
			return uint32(r.U64())
		case 3:
			return uint32(r.Intn(3)) << 24
		default:
			return uint32(r.Intn(100000))
		}
	}
	nfiles := c.N(150, 4000)
	for i := 0; i < nfiles; i++ {
		nt := r.Intn(9)
		tags := make([]flvTag, nt)
		for j := range tags {
			ty := uint8(r.Pick(8, 9, 18))
			if r.Chance(10) {
				ty = uint8(r.Intn(256))
			}
			body, desc := flvBody(r, pickSize())
			tags[j] = flvTag{ty: ty, ts: pickTs(), body: body, desc: desc}
		}
		flvFileCase(c, fmt.Sprintf("random/tags=%d", nt), r.Bool(), r.Bool(), tags, allReaders)
	}

	// 4. malformed stream: every truncation of small files, mutations, random bytes.
	// Correspondence incl. error class; no panic; a truncated file yields a prefix of its tags, then EOF.
	nmal := c.N(60, 1500)
	for i := 0; i < nmal; i++ {
		nt := 1 + r.Intn(3)
		tags := make([]flvTag, nt)
		for j := range tags {
			body, desc := flvBody(r, r.Pick(0, 1, 2, 5, 17))
			tags[j] = flvTag{ty: uint8(r.Pick(8, 9, 18)), ts: pickTs(), body: body, desc: desc}
		}
		file, _ := flvMux(r.Bool(), r.Bool(), tags)
		for cut := 0; cut <= len(file); cut++ {
			data := file[:cut]
			kind := r.Intn(4)
			got, gtags := flvDemux(flvReader(kind, data, r))
			in := "flv.demux " + h.Hex(data)
			c.Eq("demux", in, got, c.O.Call("flv.demux", h.Hex(data)))
			c.Hold(!strings.Contains(got, "panic"), "no_panic", in, got, "ok|err")
			// whole tags inside the first `cut` bytes, in order, nothing else
			want, off := 0, 13
			for _, t := range tags {
				off += 15 + len(t.body)
				if off <= cut {
					want++
				}
			}
			okp := len(gtags) == want
			for j := 0; okp && j < want; j++ {
				okp = gtags[j].str() == tags[j].str()
			}
			if cut < 13 {
				okp = got == "err-eof"
			} else {
				okp = okp && strings.HasSuffix(got, " err-eof")
			}
			c.Hold(okp, "cut.prefix", in, got, fmt.Sprintf("first %d tags then err-eof", want))
			c.Case("malformed/cut/"+strings.Fields(got)[0], in, true)
		}
		for m := 0; m < 8; m++ {
			data := append([]byte(nil), file...)
			data[r.Intn(len(data))] = byte(r.U64())
			if r.Bool() {
				data = data[:r.Intn(len(data)+1)]
			}
			got, _ := flvDemux(flvReader(r.Intn(4), data, r))
			in := "flv.demux " + h.Hex(data)
			c.Eq("demux", in, got, c.O.Call("flv.demux", h.Hex(data)))
			c.Hold(!strings.Contains(got, "panic"), "no_panic", in, got, "ok|err")
			c.Case("malformed/mutated/"+strings.Fields(got)[0], in, true)
		}
		data := r.Bytes(r.Intn(40))
		if r.Bool() && len(data) >= 3 {
			copy(data, "FLV")
		}
		got, _ := flvDemux(bytes.NewReader(data))
		in := "flv.demux " + h.Hex(data)
		c.Eq("demux", in, got, c.O.Call("flv.demux", h.Hex(data)))
		c.Hold(!strings.Contains(got, "panic"), "no_panic", in, got, "ok|err")
		c.Case("malformed/random/"+strings.Fields(got)[0], in, true)
	}

	// 5. the three reader calls one by one (values + bytes left in the reader).
	for i := 0; i < c.N(200, 5000); i++ {
		data := r.Bytes(r.Intn(20))
		if r.Chance(60) && len(data) >= 3 {
			copy(data, "FLV")
		}
		hx := h.Hex(data)
		rd := bytes.NewReader(data)
		impl := h.Safe(func() string {
			d, _ := flv.NewDemuxer(rd)
			v, hv, ha, err := d.ReadHeader()
			if err != nil {
				return flvErrClass(err)
			}
			return fmt.Sprintf("ok %d %s %s %d", v, b01(hv), b01(ha), rd.Len())
		})
		c.Eq("hdr.dec", "flv.hdr.dec "+hx, impl, c.O.Call("flv.hdr.dec", hx))
		c.Hold(impl != "panic", "no_panic", "flv.hdr.dec "+hx, impl, "ok|err")
		rd = bytes.NewReader(data)
		impl2 := h.Safe(func() string {
			d, _ := flv.NewDemuxer(rd)
			ty, size, ts, err := d.ReadTagHeader()
			if err != nil {
				return flvErrClass(err)
			}
			return fmt.Sprintf("ok %d %d %d %d", ty, size, ts, rd.Len())
		})
		c.Eq("taghdr.dec", "flv.taghdr.dec "+hx, impl2, c.O.Call("flv.taghdr.dec", hx))
		c.Hold(impl2 != "panic", "no_panic", "flv.taghdr.dec "+hx, impl2, "ok|err")
		c.Case("calls/"+strings.Fields(impl)[0]+"/"+strings.Fields(impl2)[0], hx, true)
	}
}
