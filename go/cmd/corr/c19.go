package main

// C19 — HTTP API envelope: real handlers (Data/Error/CplxError/Write*/Success/WriteVersion) served by a
// loopback httptest server, real ApiRequest against it; Lean model (Oryx.Http) through the oracle.

import (
	"bytes"
	"encoding/json"
	"errors"
	"fmt"
	"io"
	"math"
	"net/http"
	"net/http/httptest"
	"net/url"
	"os"
	"regexp"
	"sort"
	"strings"
	"sync"

	oh "github.com/ossrs/go-oryx-lib/http"
	ol "github.com/ossrs/go-oryx-lib/logger"
	"verifharness/internal/h"
)

func init() { register("C19", c19) }

// ---------- canonical text of JSON trees (same grammar as Oracle/Http.lean) ----------

func c19hex(s string) string {
	if s == "" {
		return ""
	}
	return h.Hex([]byte(s))
}

var c19intRe = regexp.MustCompile(`^-?[0-9]+$`)

func c19num(lit string) string {
	if c19intRe.MatchString(lit) {
		if lit == "-0" {
			return "i0"
		}
		return "i" + lit
	}
	f, _ := json.Number(lit).Float64()
	return fmt.Sprintf("r%d:%s", int64(f), c19hex(lit))
}

// canonical text of a decoded JSON document (json.Decoder with UseNumber).
func c19canonDecoded(v interface{}) string {
	switch x := v.(type) {
	case nil:
		return "n"
	case bool:
		if x {
			return "t"
		}
		return "f"
	case json.Number:
		return c19num(string(x))
	case string:
		return "s" + c19hex(x)
	case []interface{}:
		parts := make([]string, len(x))
		for i, e := range x {
			parts[i] = c19canonDecoded(e)
		}
		return "[" + strings.Join(parts, ",") + "]"
	case map[string]interface{}:
		keys := make([]string, 0, len(x))
		for k := range x {
			keys = append(keys, k)
		}
		sort.Strings(keys)
		parts := make([]string, len(keys))
		for i, k := range keys {
			parts[i] = c19hex(k) + ":" + c19canonDecoded(x[k])
		}
		return "{" + strings.Join(parts, ",") + "}"
	}
	return "?"
}

// c19canonBody: "J<tree>" if the bytes are one JSON document, else "X".
func c19canonBody(b []byte) string {
	d := json.NewDecoder(bytes.NewReader(b))
	d.UseNumber()
	var v interface{}
	if err := d.Decode(&v); err != nil {
		return "X"
	}
	if _, err := d.Token(); err != io.EOF {
		return "X"
	}
	return "J" + c19canonDecoded(v)
}

// ---------- value generator: a Go value and its canonical tree ----------

type c19val struct {
	v     interface{}
	canon string
	bad   bool
}

var c19strings = []string{"", "a", "hello world", `quote"inside`, `back\slash`, "tab\tnl\ncr\r", "\x00\x01\x1f\x7f", "é ü ñ", "日本語", "  ", "<script>&amp;</script>", "😀", `{"code":0}`, `"`, `\"`, "/*c*/ //d", "null", "\ufeffbom", strings.Repeat("x", 300),
	"cpu 100% busy", "%s%d%v%!", "%", "%%", "50%-off", `lit\u0026eral`, `\u003c\u003e`, `a\\u0026b`, `x\u00e9`, "&<>\u2028\u2029", `\n is two characters`, strings.Repeat("chunked-", 700), strings.Repeat("é", 3000)}

func c19str(r *h.Rand) string {
	if r.Chance(70) {
		return c19strings[r.Intn(len(c19strings))]
	}
	n := r.Intn(12)
	rs := make([]rune, n)
	for i := range rs {
		switch r.Intn(6) {
		case 0:
			rs[i] = rune(r.Intn(0x20))
		case 1:
			rs[i] = rune(0x80 + r.Intn(0x700))
		case 2:
			rs[i] = rune(0x4e00 + r.Intn(0x1000))
		case 3:
			rs[i] = []rune{'"', '\\', '/', '<', '>', '&', '\'', '(', ')'}[r.Intn(9)]
		case 4:
			rs[i] = rune(0x1f600 + r.Intn(60))
		default:
			rs[i] = rune('a' + r.Intn(26))
		}
	}
	return string(rs)
}

type c19struct struct {
	A int         `json:"a"`
	B string      // no tag: key "B"
	C interface{} `json:"c,omitempty"`
}

func c19gen(r *h.Rand, depth int) c19val {
	k := r.Intn(12)
	if depth <= 0 && k >= 6 {
		k = r.Intn(6)
	}
	switch k {
	case 0:
		return c19val{nil, "n", false}
	case 1:
		b := r.Bool()
		if b {
			return c19val{true, "t", false}
		}
		return c19val{false, "f", false}
	case 2:
		n := []int{0, 1, -1, 42, -404, 1<<31 - 1, -(1 << 31), 1<<53 - 1, -(1<<53 - 1), math.MaxInt64, math.MinInt64}[r.Intn(11)]
		if r.Bool() {
			n = r.Intn(2000) - 1000
		}
		return c19val{n, fmt.Sprintf("i%d", n), false}
	case 3:
		f := []float64{0.5, -0.5, 1.25, 3.0, 1e-7, -123456.789, 1e14 + 0.5, 2.5e-300}[r.Intn(8)]
		lit, _ := json.Marshal(f)
		return c19val{f, c19num(string(lit)), false}
	case 4, 5:
		s := c19str(r)
		return c19val{s, "s" + c19hex(s), false}
	case 6, 7:
		n := r.Intn(4)
		vs := make([]interface{}, n)
		parts := make([]string, n)
		bad := false
		for i := range vs {
			e := c19gen(r, depth-1)
			vs[i], parts[i] = e.v, e.canon
			bad = bad || e.bad
		}
		return c19val{vs, "[" + strings.Join(parts, ",") + "]", bad}
	case 8, 9:
		n := r.Intn(4)
		m := map[string]interface{}{}
		cm := map[string]string{}
		bad := false
		for i := 0; i < n; i++ {
			key := c19str(r)
			if len(key) > 40 {
				key = key[:40]
			}
			e := c19gen(r, depth-1)
			m[key], cm[key] = e.v, e.canon
		}
		keys := make([]string, 0, len(m))
		for k := range m {
			keys = append(keys, k)
		}
		sort.Strings(keys)
		parts := make([]string, len(keys))
		for i, k := range keys {
			parts[i] = c19hex(k) + ":" + cm[k]
			bad = bad || strings.Contains(cm[k], "!")
		}
		return c19val{m, "{" + strings.Join(parts, ",") + "}", bad}
	case 10:
		e := c19gen(r, depth-1)
		s := c19struct{A: r.Intn(100) - 50, B: c19str(r)}
		parts := []string{"42:s" + c19hex(s.B), "61:" + fmt.Sprintf("i%d", s.A)}
		if e.v != nil {
			s.C = e.v
			parts = append(parts, "63:"+e.canon)
		}
		return c19val{s, "{" + strings.Join(parts, ",") + "}", e.bad}
	default:
		switch r.Intn(4) {
		case 0:
			return c19val{make(chan int), "!", true}
		case 1:
			return c19val{func() {}, "!", true}
		case 2:
			return c19val{math.NaN(), "!", true}
		default:
			return c19val{math.Inf(1), "!", true}
		}
	}
}

// ---------- error kinds ----------

type c19app struct {
	code int
	text string
}

func (e c19app) Code() int     { return e.code }
func (e c19app) Error() string { return e.text }

type c19appSt struct {
	c19app
	st int
}

func (e c19appSt) Status() int { return e.st }

// application errors that also expose a reason the way github.com/pkg/errors-style wrappers do (a Cause() method): the
// answer is decided by what the error IS (its own Code()), not by what it was caused by
type c19appCause struct {
	c19app
	reason error
}

func (e c19appCause) Cause() error { return e.reason }

type c19appStCause struct {
	c19appSt
	reason error
}

func (e c19appStCause) Cause() error { return e.reason }

type c19plainSt struct {
	text string
	st   int
}

func (e c19plainSt) Error() string { return e.text }
func (e c19plainSt) Status() int   { return e.st }

type c19case struct {
	kind   string // data | cplx | sys | app | plain | version | raw
	val    interface{}
	err    error
	code   int
	text   string
	entry  int // which API entry point
	status int
	raw    []byte
}

var (
	c19mu  sync.Mutex
	c19cur c19case
)

func c19serve(w http.ResponseWriter, r *http.Request) {
	c19mu.Lock()
	cs := c19cur
	c19mu.Unlock()
	switch cs.kind {
	case "data":
		switch cs.entry % 3 {
		case 0:
			oh.Data(nil, cs.val).ServeHTTP(w, r)
		case 1:
			oh.WriteData(nil, w, r, cs.val)
		default:
			if cs.val == nil {
				oh.Success(nil, w, r)
			} else {
				oh.WriteData(nil, w, r, cs.val)
			}
		}
	case "cplx":
		switch cs.entry % 4 {
		case 0:
			oh.CplxError(nil, oh.SystemError(cs.code), cs.text).ServeHTTP(w, r)
		case 1:
			oh.WriteCplxError(nil, w, r, oh.SystemError(cs.code), cs.text)
		case 2:
			oh.Error(nil, oh.SystemComplexError{Code: oh.SystemError(cs.code), Message: cs.text}).ServeHTTP(w, r)
		default:
			oh.WriteError(nil, w, r, oh.SystemComplexError{Code: oh.SystemError(cs.code), Message: cs.text})
		}
	case "version":
		oh.WriteVersion(w, r, cs.text)
	case "raw":
		w.WriteHeader(cs.status)
		w.Write(cs.raw)
	default:
		if cs.entry%2 == 0 {
			oh.Error(nil, cs.err).ServeHTTP(w, r)
		} else {
			oh.WriteError(nil, w, r, cs.err)
		}
	}
}

type c19resp struct {
	status int
	ctype  string
	server string
	body   []byte
}

// c19send: the same resource asked for with another method and a body (a posted form, a JSON body, a multipart form):
// the response is a function of the resource and of the QUERY's callback parameter only.
func c19send(method, u, ctype, body string) (c19resp, error) {
	req, err := http.NewRequest(method, u, strings.NewReader(body))
	if err != nil {
		return c19resp{}, err
	}
	if ctype != "" {
		req.Header.Set("Content-Type", ctype)
	}
	resp, err := http.DefaultClient.Do(req)
	if err != nil {
		return c19resp{}, err
	}
	defer resp.Body.Close()
	b, err := io.ReadAll(resp.Body)
	return c19resp{resp.StatusCode, resp.Header.Get("Content-Type"), resp.Header.Get("Server"), b}, err
}

var c19bodies = []struct{ method, ctype, body string }{
	{"POST", "application/x-www-form-urlencoded", "callback=posted&x=1"},
	{"PUT", "application/x-www-form-urlencoded", "x=1&callback=put"},
	{"PATCH", "application/x-www-form-urlencoded", "callback="},
	{"POST", "application/json", `{"callback":"j"}`},
	{"POST", "multipart/form-data; boundary=XX", "--XX\r\nContent-Disposition: form-data; name=\"callback\"\r\n\r\nmp\r\n--XX--\r\n"},
	{"POST", "", ""},
	{"DELETE", "", ""},
}
var c19sendN int

func c19get(u string) (c19resp, error) {
	resp, err := http.Get(u)
	if err != nil {
		return c19resp{}, err
	}
	defer resp.Body.Close()
	b, err := io.ReadAll(resp.Body)
	return c19resp{resp.StatusCode, resp.Header.Get("Content-Type"), resp.Header.Get("Server"), b}, err
}

// canonical text of a real response, in the form of Oracle.Http.respStr.
func c19respStr(r c19resp, cb string) string {
	body := ""
	switch {
	case strings.HasPrefix(r.ctype, "text/plain"):
		body = "T" + c19hex(string(r.body))
	case r.ctype == oh.HttpJavaScript:
		inner := "?"
		if bytes.HasPrefix(r.body, []byte(cb+"(")) && bytes.HasSuffix(r.body, []byte(")")) {
			inner = c19canonBody(r.body[len(cb)+1 : len(r.body)-1])
		}
		body = "P" + c19hex(cb) + ":" + inner
	default:
		body = c19canonBody(r.body)
	}
	return fmt.Sprintf("%d %s server=%v %s", r.status, r.ctype, r.server == oh.Server, body)
}

func c19client(u string) (string, int, []byte, error) {
	var code int
	var body []byte
	var err error
	s := h.Safe(func() string {
		code, body, err = oh.ApiRequest(u)
		if err != nil {
			return fmt.Sprintf("fail %d", code)
		}
		return fmt.Sprintf("ok %d", code)
	})
	return s, code, body, err
}

type c19discard struct{}

func (c19discard) Write(p []byte) (int, error) { return len(p), nil }
func (c19discard) Close() error                { return nil }

func c19opt(s string) string {
	if s == "" {
		return "-"
	}
	return c19hex(s)
}

func c19(c *h.Ctx) {
	r := c.R
	ol.Switch(c19discard{}) // an io.Closer: otherwise the logger writes colour escapes to os.Stdout
	oh.Server = "OryxVerif/1"
	srv := httptest.NewServer(http.HandlerFunc(c19serve))
	defer srv.Close()
	pid := os.Getpid()
	nset := 0
	set := func(cs c19case) {
		c19mu.Lock()
		c19cur = cs
		// the Server header is configuration (an exported variable): it is re-configured between requests now
		// and then, and every response must carry the value configured when it was served
		if nset++; nset%7 == 3 {
			oh.Server = fmt.Sprintf("OryxVerif/%d", 1+nset/7%5)
		}
		c19mu.Unlock()
	}
	callbacks := []string{"cb", "jQuery123_456", "a.b.c", "f", "x(y", "é", `q"`}
	withCb := func(cb string) string {
		if cb == "" {
			return srv.URL + "/api"
		}
		return srv.URL + "/api?callback=" + url.QueryEscape(cb)
	}
	small := func(code int) bool { return code > -(1<<53) && code < 1<<53 }

	// ------------------------------------------------------------------ success path
	doData := func(v c19val, entry int, cb string, bucket string) {
		set(c19case{kind: "data", val: v.v, entry: entry})
		merr := ""
		if _, err := json.Marshal(map[string]interface{}{"code": 0, "server": pid, "data": v.v}); err != nil {
			merr = err.Error()
		}
		in := fmt.Sprintf("http.data %d %s %s %s", pid, c19opt(cb), v.canon, c19opt(merr))
		plain, err := c19get(withCb(""))
		if !c.Hold(err == nil, "transport", in, fmt.Sprint(err), "nil") {
			return
		}
		model := c.O.Call("http.data", fmt.Sprint(pid), "-", v.canon, c19opt(merr))
		c.Eq("respond.data", in, c19respStr(plain, ""), model)
		cres, code, cbody, cerr := c19client(withCb(""))
		c.Eq("client", in, cres, c.O.Call("http.client", fmt.Sprint(plain.status), c19canonBody(plain.body)))
		if !v.bad {
			want := fmt.Sprintf("J{636f6465:i0,64617461:%s,736572766572:i%d}", v.canon, pid)
			c.Hold(plain.status == 200 && plain.ctype == "application/json" && plain.server == oh.Server,
				"success_reads_zero.headers", in, fmt.Sprintf("%d %s %s", plain.status, plain.ctype, plain.server), "200 application/json "+oh.Server)
			c.Hold(c19canonBody(plain.body) == want, "success_reads_zero.envelope", in, c19canonBody(plain.body), want)
			c.Hold(cerr == nil && code == 0, "success_reads_zero", in, cres, "ok 0")
			c.Hold(bytes.Equal(cbody, plain.body), "success_reads_zero.body", in, h.Hex(cbody), h.Hex(plain.body))
		} else {
			c.Hold(plain.status == 500 && cerr != nil, "unmarshalable_is_error", in, fmt.Sprintf("%d %s", plain.status, cres), "500 fail 500")
			c.Hold(string(plain.body) == merr+"\n", "unmarshalable_is_error.body", in, h.Trunc(string(plain.body), 80), merr)
		}
		// the same with another method / a body: what decides the form of the response is the query, not the body
		{
			c19sendN++
			bd := c19bodies[c19sendN%len(c19bodies)]
			other, err := c19send(bd.method, withCb(""), bd.ctype, bd.body)
			c.Hold(err == nil && other.status == plain.status && other.ctype == plain.ctype && bytes.Equal(other.body, plain.body), "method_and_body_do_not_matter",
				fmt.Sprintf("%s; then %s with Content-Type %q and body %q, no callback in the query", in, bd.method, bd.ctype, bd.body),
				fmt.Sprintf("%v %d %s %s", err, other.status, other.ctype, h.Trunc(string(other.body), 200)), fmt.Sprintf("<nil> %d %s %s", plain.status, plain.ctype, h.Trunc(string(plain.body), 200)))
			if cb != "" && !v.bad {
				o2, err := c19send(bd.method, withCb(cb), bd.ctype, bd.body)
				c.Hold(err == nil && o2.ctype == "application/javascript" && string(o2.body) == cb+"("+string(plain.body)+")", "method_and_body_do_not_matter",
					fmt.Sprintf("%s; then %s with Content-Type %q and body %q, callback=%s in the query", in, bd.method, bd.ctype, bd.body, cb),
					fmt.Sprintf("%v %s %s", err, o2.ctype, h.Trunc(string(o2.body), 200)), "application/javascript "+h.Trunc(cb+"("+string(plain.body)+")", 200))
			}
		}
		if cb != "" {
			wr, err := c19get(withCb(cb))
			if c.Hold(err == nil, "transport", in, fmt.Sprint(err), "nil") {
				c.Eq("respond.data.cb", in, c19respStr(wr, cb), c.O.Call("http.data", fmt.Sprint(pid), c19opt(cb), v.canon, c19opt(merr)))
				if !v.bad {
					c.Hold(string(wr.body) == cb+"("+string(plain.body)+")" && wr.ctype == "application/javascript" && wr.status == plain.status && wr.server == oh.Server,
						"callback_wraps_same_json", in, h.Trunc(wr.ctype+" "+string(wr.body), 200), h.Trunc(cb+"("+string(plain.body)+")", 200))
				} else {
					c.Hold(wr.status == 500 && bytes.Equal(wr.body, plain.body), "unmarshalable_is_error.cb", in, fmt.Sprint(wr.status), "500")
				}
				// the client does not speak JSONP: correspondence only
				cres2, _, _, _ := c19client(withCb(cb))
				c.Eq("client.jsonp", in, cres2, c.O.Call("http.client", fmt.Sprint(wr.status), c19canonBody(wr.body)))
			}
		}
		c.Case(bucket, in, true)
	}
	fixed := []c19val{{nil, "n", false}, {"", "s", false}, {`{"code":1}`, "s" + c19hex(`{"code":1}`), false},
		{map[string]interface{}{"code": 5}, "{636f6465:i5}", false}, {[]interface{}{}, "[]", false}, {map[string]interface{}{}, "{}", false},
		{make(chan int), "!", true}, {math.NaN(), "!", true}, {map[string]interface{}{"a": []interface{}{func() {}}}, "{61:[!]}", true}}
	for i, v := range fixed {
		doData(v, i, callbacks[i%len(callbacks)], "data/fixed")
	}
	for i, s := range c19strings {
		doData(c19val{s, "s" + c19hex(s), false}, 0, "", "data/string-table")
		// and wrapped by a callback (format verbs in the JSON must come through untouched)
		doData(c19val{s, "s" + c19hex(s), false}, 0, callbacks[i%len(callbacks)], "data/string-table+callback")
	}
	// envelopes larger than the server's write buffer are sent chunked (no Content-Length): the client must read them whole
	for _, n := range []int{300, 3000} {
		l := make([]interface{}, n)
		canon := "["
		for i := range l {
			l[i] = float64(i)
			if i > 0 {
				canon += ","
			}
			canon += "i" + fmt.Sprint(i)
		}
		doData(c19val{l, canon + "]", false}, 0, "", "data/large-list")
	}
	nd := c.N(700, 20000)
	for i := 0; i < nd; i++ {
		v := c19gen(r, 1+r.Intn(4))
		cb := ""
		if r.Chance(40) {
			cb = callbacks[r.Intn(len(callbacks))]
		}
		b := "data/tree"
		if v.bad {
			b = "data/unmarshalable"
		}
		if cb != "" {
			b += "+callback"
		}
		doData(v, r.Intn(3), cb, b)
	}

	// ------------------------------------------------------------------ error paths
	codes := []int{1, -1, 2, 100, -100, 404, -404, 500, 1<<31 - 1, -(1 << 31), 1 << 31, 1<<53 - 1, -(1<<53 - 1)}
	huge := []int{1 << 53, 1<<53 + 1, -(1<<53 + 1), math.MaxInt64, math.MinInt64, math.MaxInt64 - 1}
	statuses := []int{300, 400, 401, 403, 404, 409, 418, 451, 499, 500, 501, 503, 599, 600, 999}
	texts := append([]string{`{"code":0}`, `{"code":0,"data":null}`, ` {"code":0} `, `{"code":0,"server":1,"data":"x"}`, "not found", "", "null", "0"}, c19strings[:12]...)
	doErr := func(kind string, code int, text string, st int, entry int, cb string, bucket string, inDomain bool) {
		var e error
		stS := "-"
		switch kind {
		case "cplx":
		case "sys":
			e = oh.SystemError(code)
		case "app":
			e = c19app{code, text}
			reasons := []error{errors.New("disk full"), oh.SystemError(100), c19app{7, "inner"}, io.EOF}
			if (code+entry)%3 == 0 {
				e = c19appCause{c19app{code, text}, reasons[(code+entry)/3%4&3]}
			}
			if st != 0 {
				e = c19appSt{c19app{code, text}, st}
				if (code+entry)%3 == 0 {
					e = c19appStCause{c19appSt{c19app{code, text}, st}, reasons[(code+entry)/3%4&3]}
				}
				stS = fmt.Sprint(st)
			}
		case "plain":
			e = errors.New(text)
			if st != 0 {
				e = c19plainSt{text, st}
				stS = fmt.Sprint(st)
			}
		}
		set(c19case{kind: kind, err: e, code: code, text: text, entry: entry})
		in := fmt.Sprintf("http.err %s %d %s %s %s", kind, code, c19opt(text), stS, c19opt(cb))
		plain, err := c19get(withCb(""))
		if !c.Hold(err == nil, "transport", in, fmt.Sprint(err), "nil") {
			return
		}
		c.Eq("respond.err", in, c19respStr(plain, ""), c.O.Call("http.err", kind, fmt.Sprint(code), c19opt(text), stS, "-"))
		cres, gotCode, _, cerr := c19client(withCb(""))
		if small(code) {
			c.Eq("client", in, cres, c.O.Call("http.client", fmt.Sprint(plain.status), c19canonBody(plain.body)))
		}
		if inDomain {
			want := code
			if kind == "plain" {
				want = 500
				if st != 0 {
					want = st
				}
			}
			c.Hold(cerr != nil, "never_confused", in, cres, fmt.Sprintf("fail %d", want))
			if kind != "plain" {
				c.Hold(cerr != nil && gotCode != 0, "error_reads_nonzero", in, cres, fmt.Sprintf("fail %d", want))
			}
			if small(code) && kind != "plain" {
				c.Hold(gotCode == want, "error_reads_nonzero.code", in, cres, fmt.Sprintf("fail %d", want))
			}
			if kind == "plain" {
				c.Hold(plain.status == want && string(plain.body) == text+"\n" && plain.server == oh.Server, "error.plain_status", in,
					fmt.Sprintf("%d %q", plain.status, h.Trunc(string(plain.body), 60)), fmt.Sprintf("%d", want))
			} else {
				c.Hold(plain.status == 200 && plain.ctype == "application/json" && plain.server == oh.Server, "error.coded_headers", in,
					fmt.Sprintf("%d %s", plain.status, plain.ctype), "200 application/json")
			}
		}
		if cb != "" {
			wr, err := c19get(withCb(cb))
			if c.Hold(err == nil, "transport", in, fmt.Sprint(err), "nil") {
				c.Eq("respond.err.cb", in, c19respStr(wr, cb), c.O.Call("http.err", kind, fmt.Sprint(code), c19opt(text), stS, c19opt(cb)))
				if kind != "plain" {
					c.Hold(string(wr.body) == cb+"("+string(plain.body)+")" && wr.ctype == "application/javascript",
						"callback_wraps_same_json", in, h.Trunc(string(wr.body), 200), h.Trunc(cb+"("+string(plain.body)+")", 200))
				}
			}
		}
		c.Case(bucket, in, true)
	}
	// F18 regression witnesses first (fixed finding: must hold now)
	doErr("plain", 0, `{"code":0}`, 0, 0, "", "error/plain/F18-witness", true)
	doErr("plain", 0, `{"code":0}`, 0, 1, "cb", "error/plain/F18-witness", true)
	doErr("plain", 0, `{"code":0}`, 404, 0, "", "error/plain/F18-witness", true)
	doErr("plain", 0, `{"code":0,"data":null}`, 503, 1, "", "error/plain/F18-witness", true)
	i := 0
	for _, kind := range []string{"cplx", "sys", "app"} {
		for _, code := range codes {
			for _, text := range []string{texts[i%len(texts)], texts[(i+5)%len(texts)]} {
				cb := ""
				if i%3 == 0 {
					cb = callbacks[i%len(callbacks)]
				}
				st := 0
				if kind == "app" && i%2 == 0 {
					st = statuses[i%len(statuses)]
				}
				doErr(kind, code, text, st, i, cb, "error/"+kind, true)
				i++
			}
		}
		for _, code := range huge {
			doErr(kind, code, "huge", 0, i, "", "error/"+kind+"/code-beyond-2^53", true)
			i++
		}
		doErr(kind, 0, "zero", 0, i, "", "error/"+kind+"/code-zero(outside-domain,corr-only)", false)
	}
	for _, text := range texts {
		doErr("plain", 0, text, 0, i, callbacks[i%len(callbacks)], "error/plain/default-500", true)
		i++
		for _, st := range statuses {
			doErr("plain", 0, text, st, i, "", "error/plain/own-status", true)
			i++
		}
		for _, st := range []int{200, 201, 299} {
			doErr("plain", 0, text, st, i, "", "error/plain/status-2xx(outside-domain,corr-only)", false)
			i++
		}
	}
	ne := c.N(300, 10000)
	for j := 0; j < ne; j++ {
		kind := []string{"cplx", "sys", "app", "plain"}[r.Intn(4)]
		code := r.Intn(20001) - 10000
		if r.Chance(30) {
			code = codes[r.Intn(len(codes))]
		}
		if code == 0 {
			code = -3
		}
		st := 0
		if (kind == "app" || kind == "plain") && r.Bool() {
			st = statuses[r.Intn(len(statuses))]
		}
		cb := ""
		if r.Chance(30) {
			cb = callbacks[r.Intn(len(callbacks))]
		}
		text := c19str(r)
		if r.Chance(25) {
			text = texts[r.Intn(len(texts))]
		}
		doErr(kind, code, text, st, r.Intn(4), cb, "error/"+kind+"/random", true)
	}

	// ------------------------------------------------------------------ version helper (property only)
	for _, v := range []string{"1.2.3", "1.2.3-4", "0.0.0", "10.20", "7", "", "a.b.c-d", "1.2.3-4-5", "3.0.0-rc1"} {
		set(c19case{kind: "version", text: v})
		in := "version " + c19opt(v)
		resp, err := c19get(withCb(""))
		if c.Hold(err == nil, "transport", in, fmt.Sprint(err), "nil") {
			var env struct {
				Code   *int `json:"code"`
				Server int  `json:"server"`
				Data   struct {
					Major, Minor, Revision, Extra *int
					Version, Signature            string
				} `json:"data"`
			}
			jerr := json.Unmarshal(resp.body, &env)
			cres, _, _, _ := c19client(withCb(""))
			ok := jerr == nil && env.Code != nil && *env.Code == 0 && env.Server == pid && env.Data.Version == v && env.Data.Signature == oh.Server &&
				env.Data.Major != nil && env.Data.Minor != nil && env.Data.Revision != nil && env.Data.Extra != nil && cres == "ok 0"
			c.Hold(ok, "version.envelope", in, h.Trunc(string(resp.body), 200)+" "+cres, "envelope with data.version, client ok 0")
		}
		c.Case("version", in, true)
	}

	// ------------------------------------------------------------------ client on arbitrary (status, body)
	raws := []string{`{"code":0}`, `{"code":1}`, `{"code":-1}`, `{"code":0.5}`, `{"code":1.5}`, `{"code":-0.9}`, `{"code":1e2}`, `{"code":0e5}`, `{"code":-0}`,
		`{"code":"0"}`, `{"code":null}`, `{"code":true}`, `{"code":[0]}`, `{"code":{}}`, `{}`, `{"data":1}`, `{"Code":0}`, `null`, `[]`, `0`, `"x"`, `true`,
		``, `{`, `{"code":0`, `{"code":0}}`, `{"code":0} x`, ` {"code":0}`, "{\"code\":0}\n", `cb({"code":0})`, `{"code":0,"code":7}`, `{"code":7,"code":0}`,
		`{"code":0,"data":{"code":9}}`, `{"code":123456789012}`, "\xff\xfe", `{"code":0,"data":"` + strings.Repeat("y", 5000) + `"}`}
	rawStatuses := []int{200, 201, 204, 299, 300, 400, 404, 500, 503, 999}
	doRaw := func(st int, body string, bucket string) {
		in := fmt.Sprintf("http.client %d %s", st, c19opt(body))
		canon := c19canonBody([]byte(body))
		// unexported parser through the hook (no transport)
		pres := h.Safe(func() string {
			code, _, err := oh.VerifApiParse("u", []byte(body))
			if err != nil {
				return fmt.Sprintf("fail %d", code)
			}
			return fmt.Sprintf("ok %d", code)
		})
		c.Eq("apiParse", in, pres, c.O.Call("http.parse", canon))
		if st == 204 && body != "" { // net/http refuses a body with 204
			c.Case(bucket, in, true)
			return
		}
		set(c19case{kind: "raw", status: st, raw: []byte(body)})
		cres, code, _, cerr := c19client(withCb(""))
		c.Eq("client.raw", in, cres, c.O.Call("http.client", fmt.Sprint(st), canon))
		if st < 200 || st > 299 {
			c.Hold(cerr != nil || code != 0, "never_confused.status", in, cres, fmt.Sprintf("fail %d", st))
		}
		c.Case(bucket, in, true)
	}
	for _, b := range raws {
		for _, st := range rawStatuses {
			doRaw(st, b, "client/raw-table")
		}
	}
	nr := c.N(200, 5000)
	for j := 0; j < nr; j++ {
		v := c19gen(r, 2)
		var body string
		switch r.Intn(4) {
		case 0:
			b, _ := json.Marshal(map[string]interface{}{"code": r.Intn(5) - 2, "data": nil})
			body = string(b)
		case 1:
			b, err := json.Marshal(v.v)
			if err != nil {
				b = []byte("{}")
			}
			body = string(b)
		case 2:
			b, _ := json.Marshal(map[string]interface{}{"code": float64(r.Intn(9)-4) / 2})
			body = string(b)
		default:
			b, _ := json.Marshal(map[string]interface{}{"code": 0, "data": "x"})
			k := r.Intn(len(b))
			b[k] ^= byte(1 << uint(r.Intn(8)))
			body = string(b)
		}
		doRaw(rawStatuses[r.Intn(len(rawStatuses))], body, "client/raw-random")
	}
}
