package main

// C16 part 2: the algorithm matrix on the real library. For every object the model supplies the
// INPUT of each primitive (signing input, AAD, CBC-HMAC tag input, padded plaintext, r‖s split) and
// the harness applies the real Go primitive to it and compares with what the library produced.

import (
	"bytes"
	"crypto"
	"crypto/aes"
	"crypto/cipher"
	"crypto/ecdsa"
	"crypto/elliptic"
	"crypto/hmac"
	"crypto/rsa"
	"crypto/sha256"
	"crypto/sha512"
	"crypto/x509"
	"encoding/json"
	"encoding/pem"
	"fmt"
	"hash"
	"math/big"
	"strings"

	"github.com/ossrs/go-oryx-lib/https/jose"
	josecipher "github.com/ossrs/go-oryx-lib/https/jose/cipher"
	"verifharness/internal/h"
)

type c16keys struct {
	rsa  [2]*rsa.PrivateKey
	ec   map[string][]*ecdsa.PrivateKey // per curve: two ordinary keys, then keys with a leading-zero coordinate
	syms map[int][2][]byte
}

func c16ecKey(r *h.Rand, crv elliptic.Curve) *ecdsa.PrivateKey {
	n := crv.Params().N
	d := new(big.Int).SetBytes(r.Bytes((n.BitLen() + 7) / 8))
	d.Mod(d, new(big.Int).Sub(n, big.NewInt(1)))
	d.Add(d, big.NewInt(1))
	k := &ecdsa.PrivateKey{D: d}
	k.Curve = crv
	k.X, k.Y = crv.ScalarBaseMult(d.Bytes())
	return k
}

func c16curveSize(crv elliptic.Curve) int { return (crv.Params().BitSize + 7) / 8 }

func c16makeKeys(c *h.Ctx, r *h.Rand) *c16keys {
	ks := &c16keys{ec: map[string][]*ecdsa.PrivateKey{}, syms: map[int][2][]byte{}}
	for i, p := range []string{c16rsaPEM0, c16rsaPEM1} {
		blk, _ := pem.Decode([]byte(p))
		k, err := x509.ParsePKCS1PrivateKey(blk.Bytes)
		if err != nil {
			panic(err)
		}
		ks.rsa[i] = k
	}
	for _, crv := range []elliptic.Curve{elliptic.P256(), elliptic.P384(), elliptic.P521()} {
		name := crv.Params().Name
		ks.ec[name] = []*ecdsa.PrivateKey{c16ecKey(r, crv), c16ecKey(r, crv)}
		// keys whose X or Y has a leading zero byte (about 1 in 128)
		want := c.N(1, 3)
		size := c16curveSize(crv)
		for tries := 0; tries < 4000 && len(ks.ec[name]) < 2+want; tries++ {
			k := c16ecKey(r, crv)
			if len(k.X.Bytes()) < size || len(k.Y.Bytes()) < size {
				ks.ec[name] = append(ks.ec[name], k)
			}
		}
	}
	for _, n := range []int{16, 24, 32, 48, 64} {
		ks.syms[n] = [2][]byte{r.Bytes(n), r.Bytes(n)}
	}
	return ks
}

func c16safe(f func() ([]byte, error)) (out []byte, class string) {
	defer func() {
		if rec := recover(); rec != nil {
			out, class = nil, "panic"
		}
	}()
	b, err := f()
	if err != nil {
		return nil, "err"
	}
	return b, "ok"
}

func c16hash(alg string) (crypto.Hash, func() hash.Hash) {
	switch alg[2:] {
	case "256":
		return crypto.SHA256, sha256.New
	case "384":
		return crypto.SHA384, sha512.New384
	default:
		return crypto.SHA512, sha512.New
	}
}

func c16digest(hf func() hash.Hash, b []byte) []byte {
	x := hf()
	x.Write(b)
	return x.Sum(nil)
}

// c16jsonReplace re-marshals a JSON object with one top-level string member replaced.
func c16jsonReplace(text, field, value string) string {
	var m map[string]json.RawMessage
	if json.Unmarshal([]byte(text), &m) != nil {
		return text
	}
	v, _ := json.Marshal(value)
	m[field] = v
	out, _ := json.Marshal(m)
	return string(out)
}

type c16field struct {
	name   string
	octets []byte
}

// c16flips drives the tamper checks for one serialised object.
//
//	text     the serialisation; compact = dot-separated base64url fields
//	fields   the octets of every field, in compact order (JSON: named members)
//	eval     parse + verify/decrypt the mutated text with the right key: ("ok", payload) | "err" | "panic"
func c16flips(c *h.Ctx, r *h.Rand, id string, compact bool, text string, fields []c16field, payload []byte,
	eval func(string) ([]byte, string), perField, textFlips int, exhaustive bool) {
	build := func(fi int, oct []byte) string {
		if compact {
			parts := strings.Split(text, ".")
			parts[fi] = jose.VerifBase64URLEncode(oct)
			return strings.Join(parts, ".")
		}
		return c16jsonReplace(text, fields[fi].name, jose.VerifBase64URLEncode(oct))
	}
	// (a) every / sampled single-bit flip of the OCTETS of each field
	for fi, f := range fields {
		nbits := len(f.octets) * 8
		if nbits == 0 {
			continue
		}
		count := perField
		if exhaustive || count > nbits {
			count = nbits
		}
		for q := 0; q < count; q++ {
			bit := q
			if count < nbits {
				bit = r.Intn(nbits)
			}
			m := append([]byte(nil), f.octets...)
			m[bit/8] ^= 1 << uint(bit%8)
			_, class := eval(build(fi, m))
			in := fmt.Sprintf("%s flip %s bit %d", id, f.name, bit)
			c.Hold(class == "err", "C16_tamper."+f.name, in, class, "err")
			c.Hold(class != "panic", "tamper.no_panic", in, class, "err")
			c.Case("tamper/octet-flip/"+f.name, in, true)
		}
	}
	if !compact {
		return
	}
	// (b) single-bit flips of the serialised TEXT; flips that leave every field's octets unchanged
	// (base64 trailing bits) are counted separately and must still succeed with the same payload
	orig := make([]string, len(fields))
	for i, f := range fields {
		orig[i] = h.Hex(f.octets)
	}
	nbits := len(text) * 8
	count := textFlips
	if exhaustive || count > nbits {
		count = nbits
	}
	for q := 0; q < count; q++ {
		bit := q
		if count < nbits {
			bit = r.Intn(nbits)
		}
		m := []byte(text)
		m[bit/8] ^= 1 << uint(bit%8)
		mt := string(m)
		noop := false
		if parts := strings.Split(strings.Map(func(x rune) rune {
			if strings.ContainsRune(" \t\n\f\r", x) {
				return -1
			}
			return x
		}, mt), "."); len(parts) == len(fields) {
			noop = true
			for i, p := range parts {
				d, err := jose.VerifBase64URLDecode(p)
				if err != nil || h.Hex(d) != orig[i] {
					noop = false
					break
				}
			}
		}
		out, class := eval(mt)
		in := fmt.Sprintf("%s textflip bit %d", id, bit)
		if noop {
			c.Hold(class == "ok" && bytes.Equal(out, payload), "tamper.noop_same_octets", in, class, "ok (decoded octets unchanged)")
			c.Case("tamper/text-flip/no-op(same octets)", in, true)
		} else {
			c.Hold(class == "err", "C16_tamper.text", in, class, "err")
			c.Hold(class != "panic", "tamper.no_panic", in, class, "err")
			c.Case("tamper/text-flip/effective", in, true)
		}
	}
}

type c16nonce struct{ n int }

func (s *c16nonce) Nonce() (string, error) { s.n++; return fmt.Sprintf("nonce-%d", s.n), nil }

func c16matrix(c *h.Ctx, r *h.Rand) {
	ks := c16makeKeys(c, r)
	sizes := []int{0, 1, 15, 16, 17, 31, 32, 33, 100}
	payloadOf := func(n int) []byte {
		b := r.Bytes(n)
		if n >= 32 && r.Bool() { // compressible
			copy(b, bytes.Repeat([]byte("abcd"), n/4))
		}
		return b
	}

	// =================================================================== JWS
	type sigCase struct {
		alg         jose.SignatureAlgorithm
		priv, pub   interface{}
		other       interface{}
		curve       string
		keyKindName string
	}
	var sigs []sigCase
	for _, a := range []jose.SignatureAlgorithm{jose.HS256, jose.HS384, jose.HS512} {
		sigs = append(sigs, sigCase{a, ks.syms[32][0], ks.syms[32][0], ks.syms[32][1], "", "oct"})
		sigs = append(sigs, sigCase{a, &jose.JsonWebKey{Key: ks.syms[64][0], KeyID: "k1"}, &jose.JsonWebKey{Key: ks.syms[64][0], KeyID: "k1"}, ks.syms[64][1], "", "jwk(oct)"})
	}
	for _, a := range []jose.SignatureAlgorithm{jose.RS256, jose.RS384, jose.RS512, jose.PS256, jose.PS384, jose.PS512} {
		sigs = append(sigs, sigCase{a, ks.rsa[0], &ks.rsa[0].PublicKey, &ks.rsa[1].PublicKey, "", "rsa"})
		sigs = append(sigs, sigCase{a, &jose.JsonWebKey{Key: ks.rsa[1], KeyID: "r"}, &jose.JsonWebKey{Key: &ks.rsa[1].PublicKey}, &ks.rsa[0].PublicKey, "", "jwk(rsa)"})
	}
	for a, crv := range map[jose.SignatureAlgorithm]string{jose.ES256: "P-256", jose.ES384: "P-384", jose.ES512: "P-521"} {
		for i, k := range ks.ec[crv] {
			kind := "ec"
			if i >= 2 {
				kind = "ec(leading-zero coordinate)"
			}
			sigs = append(sigs, sigCase{a, k, &k.PublicKey, &ks.ec[crv][(i+1)%2].PublicKey, crv, kind})
		}
	}
	// map iteration order is random: sort for determinism
	for i := 0; i < len(sigs); i++ {
		for j := i + 1; j < len(sigs); j++ {
			if string(sigs[j].alg)+sigs[j].keyKindName < string(sigs[i].alg)+sigs[i].keyKindName {
				sigs[i], sigs[j] = sigs[j], sigs[i]
			}
		}
	}
	ecShort := 0
	for si, sc := range sigs {
		szs := sizes
		if !c.Thorough() {
			szs = []int{0, sizes[1+(si%(len(sizes)-1))], 16}
		}
		for zi, n := range szs {
			for _, compact := range []bool{true, false} {
				payload := payloadOf(n)
				id := fmt.Sprintf("jose.jws %s %s %d %s", sc.alg, sc.keyKindName, n, map[bool]string{true: "compact", false: "json"}[compact])
				signer, err := jose.NewSigner(sc.alg, sc.priv)
				if !c.Hold(err == nil, "C16_roundtrip.new_signer", id, fmt.Sprint(err), "nil") {
					continue
				}
				if zi%2 == 1 {
					signer.SetNonceSource(&c16nonce{}) // the ACME use: nonce in the protected header, JWK embedded
				}
				if (zi+si)%3 == 2 {
					signer.SetEmbedJwk(false) // only the key id goes into the header; verification needs the key all the same
				}
				obj, err := signer.Sign(payload)
				if !c.Hold(err == nil, "C16_roundtrip.sign", id, fmt.Sprint(err), "nil") {
					continue
				}
				var text string
				if compact {
					text, err = obj.CompactSerialize()
					if !c.Hold(err == nil, "C16_roundtrip.serialize", id, fmt.Sprint(err), "nil") {
						continue
					}
				} else {
					text = obj.FullSerialize()
				}
				eval := func(t string) ([]byte, string) {
					return c16safe(func() ([]byte, error) {
						p, err := jose.ParseSigned(t)
						if err != nil {
							return nil, err
						}
						return p.Verify(sc.pub)
					})
				}
				out, class := eval(text)
				c.Hold(class == "ok" && bytes.Equal(out, payload), "C16_roundtrip", id, class+" "+h.Hex(out), "ok "+h.Hex(payload))
				parsed, perr := jose.ParseSigned(text)
				if perr != nil || len(parsed.Signatures) != 1 {
					c.Case("jws/"+string(sc.alg), id, true)
					continue
				}
				prot, pay, sig := jose.VerifJWSParts(parsed, 0)
				// the library's signing input = model's, over the protected octets AS RECEIVED
				msin := c.O.Call("jose.sigin", h.Hex(prot), h.Hex(pay))
				c.Eq("jws.signing_input", id, c16text(string(jose.VerifJWSAuthData(parsed, 0))), msin)
				input := h.UnHex(msin)
				if compact {
					c.Eq("jws.compact", id, c16text(text), c.O.Call("jose.compact.ser", c16hexList([][]byte{prot, pay, sig})))
					c.Eq("jws.compact.parse", id, "ok "+c16hexList([][]byte{prot, pay, sig}), c.O.Call("jose.compact.parse", "3", c16text(text)))
				}
				// the real primitive applied to the MODEL's signing input accepts the library's signature
				ch, hf := c16hash(string(sc.alg))
				okPrim := false
				switch string(sc.alg)[:2] {
				case "HS":
					key := sc.pub
					if j, ok := key.(*jose.JsonWebKey); ok {
						key = j.Key
					}
					mac := hmac.New(hf, key.([]byte))
					mac.Write(input)
					okPrim = hmac.Equal(mac.Sum(nil), sig)
				case "RS", "PS":
					pub := sc.pub
					if j, ok := pub.(*jose.JsonWebKey); ok {
						pub = j.Key
					}
					if string(sc.alg)[:2] == "RS" {
						okPrim = rsa.VerifyPKCS1v15(pub.(*rsa.PublicKey), ch, c16digest(hf, input), sig) == nil
					} else {
						okPrim = rsa.VerifyPSS(pub.(*rsa.PublicKey), ch, c16digest(hf, input), sig, nil) == nil
					}
				case "ES":
					size := c16curveSize(sc.pub.(*ecdsa.PublicKey).Curve)
					rs := strings.Fields(c.O.Call("jose.ecsig.dec", fmt.Sprint(size), h.Hex(sig)))
					if len(rs) == 3 && rs[0] == "ok" {
						rr, _ := new(big.Int).SetString(rs[1], 10)
						ss, _ := new(big.Int).SetString(rs[2], 10)
						okPrim = ecdsa.Verify(sc.pub.(*ecdsa.PublicKey), c16digest(hf, input), rr, ss)
						c.Hold(len(sig) == 2*size, "ecsig.fixed_width", id, fmt.Sprint(len(sig)), fmt.Sprint(2*size))
						if len(rr.Bytes()) < size || len(ss.Bytes()) < size {
							ecShort++
							c.Case("jws/ecdsa-r-or-s-with-leading-zero", id, true)
						}
						c.Eq("ecsig.enc", id, "ok "+h.Hex(sig), c.O.Call("jose.ecsig.enc", fmt.Sprint(size), rs[1], rs[2]))
					}
				}
				c.Hold(okPrim, "jws.primitive_over_model_input", id, "signature rejected by the Go primitive over the model's signing input", "accepted")
				// another key
				_, oc := c16safe(func() ([]byte, error) { return parsed.Verify(sc.other) })
				c.Hold(oc == "err", "C16_tamper.other_key", id, oc, "err")
				// bit flips
				fields := []c16field{{"protected", prot}, {"payload", pay}, {"signature", sig}}
				exhaustive := c.Thorough() && zi == 1 && compact || (!c.Thorough() && si%7 == 0 && zi == 1 && compact && string(sc.alg)[:2] != "RS" && string(sc.alg)[:2] != "PS")
				c16flips(c, r, id, compact, text, fields, payload, eval, c.N(6, 64), c.N(24, 400), exhaustive)
				c.Case("jws/"+string(sc.alg)+"/"+sc.keyKindName, id, true)
			}
		}
	}
	// keep looking for an ECDSA signature whose r or s has a leading zero byte (about 1 in 128)
	for tries := 0; ecShort == 0 && tries < c.N(400, 3000); tries++ {
		k := ks.ec["P-256"][0]
		signer, _ := jose.NewSigner(jose.ES256, k)
		obj, err := signer.Sign([]byte{byte(tries), byte(tries >> 8)})
		if err != nil {
			break
		}
		text, _ := obj.CompactSerialize()
		p, _ := jose.ParseSigned(text)
		_, _, sig := jose.VerifJWSParts(p, 0)
		if sig[0] == 0 || sig[32] == 0 {
			ecShort++
			out, err := p.Verify(&k.PublicKey)
			id := fmt.Sprintf("jose.jws ES256 searched-leading-zero-r-or-s try %d", tries)
			c.Hold(err == nil && len(sig) == 64 && len(out) == 2, "C16_roundtrip", id, fmt.Sprint(err), "ok")
			c.Case("jws/ecdsa-r-or-s-with-leading-zero", id, true)
		}
	}
	c.Note(fmt.Sprintf("ECDSA signatures with a leading-zero r or s exercised: %d", ecShort))

	// =================================================================== JWE
	type encCase struct {
		alg          jose.KeyAlgorithm
		encKey       interface{}
		decKey       interface{}
		otherDec     interface{}
		kind         string
		symmetricKEK []byte
	}
	ecp := ks.ec["P-256"]
	ec521 := ks.ec["P-521"]
	mkEnc := func(enc jose.ContentEncryption) []encCase {
		cekLen := map[jose.ContentEncryption]int{jose.A128GCM: 16, jose.A192GCM: 24, jose.A256GCM: 32, jose.A128CBC_HS256: 32, jose.A192CBC_HS384: 48, jose.A256CBC_HS512: 64}[enc]
		return []encCase{
			{jose.RSA1_5, &ks.rsa[0].PublicKey, ks.rsa[0], ks.rsa[1], "rsa", nil},
			{jose.RSA_OAEP, &ks.rsa[0].PublicKey, ks.rsa[0], ks.rsa[1], "rsa", nil},
			{jose.RSA_OAEP_256, &jose.JsonWebKey{Key: &ks.rsa[1].PublicKey, KeyID: "rk"}, &jose.JsonWebKey{Key: ks.rsa[1]}, ks.rsa[0], "jwk(rsa)", nil},
			{jose.A128KW, ks.syms[16][0], ks.syms[16][0], ks.syms[16][1], "oct", ks.syms[16][0]},
			{jose.A192KW, ks.syms[24][0], ks.syms[24][0], ks.syms[24][1], "oct", ks.syms[24][0]},
			{jose.A256KW, ks.syms[32][0], ks.syms[32][0], ks.syms[32][1], "oct", ks.syms[32][0]},
			{jose.DIRECT, ks.syms[cekLen][0], ks.syms[cekLen][0], ks.syms[cekLen][1], "oct", nil},
			{jose.ECDH_ES, &ecp[0].PublicKey, ecp[0], ecp[1], "ec", nil},
			{jose.ECDH_ES_A128KW, &ecp[len(ecp)-1].PublicKey, ecp[len(ecp)-1], ecp[0], "ec(leading-zero coordinate)", nil},
			{jose.ECDH_ES_A192KW, &ks.ec["P-384"][0].PublicKey, ks.ec["P-384"][0], ks.ec["P-384"][1], "ec", nil},
			{jose.ECDH_ES_A256KW, &ec521[0].PublicKey, ec521[0], ec521[1], "ec", nil},
			{jose.A128GCMKW, ks.syms[16][0], ks.syms[16][0], ks.syms[16][1], "oct", nil},
			{jose.A192GCMKW, ks.syms[24][0], ks.syms[24][0], ks.syms[24][1], "oct", nil},
			{jose.A256GCMKW, &jose.JsonWebKey{Key: ks.syms[32][0], KeyID: "gk"}, &jose.JsonWebKey{Key: ks.syms[32][0]}, ks.syms[32][1], "jwk(oct)", nil},
		}
	}
	encs := []jose.ContentEncryption{jose.A128GCM, jose.A192GCM, jose.A256GCM, jose.A128CBC_HS256, jose.A192CBC_HS384, jose.A256CBC_HS512}
	combo := 0
	for ei, enc := range encs {
		for ai, ec := range mkEnc(enc) {
			for zi, zip := range []jose.CompressionAlgorithm{jose.NONE, jose.DEFLATE} {
				szs := sizes
				if !c.Thorough() {
					szs = []int{0, sizes[1+((ei*14+ai+zi)%(len(sizes)-1))]}
				}
				for ni, n := range szs {
					for _, compact := range []bool{true, false} {
						combo++
						if !c.Thorough() && ni == 1 && compact != ((ei+ai+zi)%2 == 0) {
							continue // quick tier: the non-empty size in one serialisation per combination
						}
						payload := payloadOf(n)
						var aad []byte
						if !compact && combo%3 != 0 {
							aad = r.Bytes(r.Pick(0, 1, 7, 20))
							if len(aad) == 0 {
								aad = []byte{}
							}
						}
						zname := "none"
						if zip != jose.NONE {
							zname = "DEF"
						}
						aname := "aad=nil"
						if aad != nil {
							aname = fmt.Sprintf("aad=%d", len(aad))
						}
						id := fmt.Sprintf("jose.jwe %s %s %s %d %s %s", ec.alg, enc, zname, n, map[bool]string{true: "compact", false: "json"}[compact], aname)
						e, err := jose.NewEncrypter(ec.alg, enc, ec.encKey)
						if !c.Hold(err == nil, "C16_roundtrip.new_encrypter", id, fmt.Sprint(err), "nil") {
							continue
						}
						e.SetCompression(zip)
						obj, err := e.EncryptWithAuthData(payload, aad)
						if !c.Hold(err == nil, "C16_roundtrip.encrypt", id, fmt.Sprint(err), "nil") {
							continue
						}
						var text string
						if compact {
							text, err = obj.CompactSerialize()
							if !c.Hold(err == nil, "C16_roundtrip.serialize", id, fmt.Sprint(err), "nil") {
								continue
							}
						} else {
							text = obj.FullSerialize()
						}
						var gotAad []byte
						eval := func(t string) ([]byte, string) {
							return c16safe(func() ([]byte, error) {
								p, err := jose.ParseEncrypted(t)
								if err != nil {
									return nil, err
								}
								out, err := p.Decrypt(ec.decKey)
								if err == nil {
									gotAad = p.GetAuthData()
								}
								return out, err
							})
						}
						out, class := eval(text)
						c.Hold(class == "ok" && bytes.Equal(out, payload), "C16_roundtrip", id, class+" "+h.Hex(out), "ok "+h.Hex(payload))
						// the object as returned by Encrypt (not parsed) decrypts too — twice — and decrypting it must not
						// change it: it still serialises to the same text afterwards (Decrypt works on the object's own buffers)
						for rep := 0; rep < 2; rep++ {
							fo, fclass := c16safe(func() ([]byte, error) { return obj.Decrypt(ec.decKey) })
							c.Hold(fclass == "ok" && bytes.Equal(fo, payload), "C16_roundtrip.fresh_object", fmt.Sprintf("%s decrypt #%d of the object returned by Encrypt", id, rep+1), fclass+" "+h.Hex(fo), "ok "+h.Hex(payload))
						}
						var text2 string
						if compact {
							text2, _ = obj.CompactSerialize()
						} else {
							text2 = obj.FullSerialize()
						}
						c.Hold(text2 == text, "C16_roundtrip.decrypt_does_not_modify", id, h.Trunc(text2, 120), h.Trunc(text, 120))
						c.Hold(class != "ok" || bytes.Equal(gotAad, aad), "C16_roundtrip.aad", id, h.Hex(gotAad), h.Hex(aad))
						parsed, perr := jose.ParseEncrypted(text)
						if perr != nil {
							c.Case("jwe/"+string(ec.alg)+"/"+string(enc), id, true)
							continue
						}
						prot, paad, iv, ct, tag, eks := jose.VerifJWEParts(parsed)
						aadArg := "none"
						if paad != nil {
							aadArg = h.Hex(paad)
						}
						maad := c.O.Call("jose.aad", h.Hex(prot), aadArg)
						c.Eq("jwe.aad", id, c16text(string(jose.VerifJWEAuthData(parsed))), maad)
						if compact {
							c.Eq("jwe.compact", id, c16text(text), c.O.Call("jose.compact.ser", c16hexList([][]byte{prot, eks[0], iv, ct, tag})))
							c.Eq("jwe.compact.parse", id, "ok "+c16hexList([][]byte{prot, eks[0], iv, ct, tag}), c.O.Call("jose.compact.parse", "5", c16text(text)))
						}
						// recover the CEK with real primitives where the key management is symmetric/direct, then open
						// the content with the real AEAD primitives over the MODEL's AAD / tag input / padding
						var cek []byte
						switch {
						case ec.alg == jose.DIRECT:
							cek = ec.decKey.([]byte)
						case ec.symmetricKEK != nil:
							blk, _ := aes.NewCipher(ec.symmetricKEK)
							cek, _ = josecipher.KeyUnwrap(blk, eks[0])
							c.Hold(len(eks[0]) == len(cek)+8, "kw.length", id, fmt.Sprint(len(eks[0])), fmt.Sprint(len(cek)+8))
						}
						if cek != nil && zip == jose.NONE {
							authData := h.UnHex(maad)
							full := append(append([]byte{}, ct...), tag...)
							if strings.Contains(string(enc), "GCM") {
								blk, _ := aes.NewCipher(cek)
								g, _ := cipher.NewGCM(blk)
								pt, err := g.Open(nil, iv, full, authData)
								c.Hold(err == nil && bytes.Equal(pt, payload) && len(iv) == 12 && len(tag) == 16, "jwe.gcm_over_model_aad", id, fmt.Sprint(err), "opens to the payload")
							} else {
								half := len(cek) / 2
								_, hf := c16hash("xx" + map[int]string{16: "256", 24: "384", 32: "512"}[half])
								cbcCt, cbcTag := full[:len(full)-half], full[len(full)-half:]
								mac := hmac.New(hf, cek[:half])
								mac.Write(h.UnHex(c.O.Call("jose.taginput", h.Hex(authData), h.Hex(iv), h.Hex(cbcCt))))
								c.Hold(hmac.Equal(mac.Sum(nil)[:half], cbcTag), "jwe.cbc_tag_over_model_input", id, "HMAC over the model's tag input differs from the library's tag", "equal")
								blk, _ := aes.NewCipher(cek[half:])
								if len(iv) == 16 && len(cbcCt)%16 == 0 {
									pt := make([]byte, len(cbcCt))
									cipher.NewCBCDecrypter(blk, iv).CryptBlocks(pt, cbcCt)
									c.Eq("jwe.cbc_padding", id, h.Hex(pt), c.O.Call("jose.pad", "16", h.Hex(payload)))
								} else {
									c.Hold(false, "jwe.cbc_shape", id, fmt.Sprintf("iv %d ct %d", len(iv), len(cbcCt)), "iv 16, ct multiple of 16")
								}
							}
						}
						// another key of the same kind
						_, oc := c16safe(func() ([]byte, error) { return parsed.Decrypt(ec.otherDec) })
						c.Hold(oc == "err", "C16_tamper.other_key", id, oc, "err")
						// bit flips
						fields := []c16field{{"protected", prot}, {"encrypted_key", eks[0]}, {"iv", iv}, {"ciphertext", ct}, {"tag", tag}}
						if !compact && paad != nil {
							fields = append(fields, c16field{"aad", paad})
						}
						slow := ec.kind == "rsa" || ec.kind == "jwk(rsa)" || strings.HasPrefix(string(ec.alg), "ECDH")
						exhaustive := compact && ni == 1 && zi == 0 && (c.Thorough() && (!slow || ei == 0) || !c.Thorough() && !slow && (ei*14+ai)%9 == 0)
						per, tf := c.N(3, 48), c.N(10, 300)
						if slow {
							per, tf = c.N(1, 16), c.N(3, 100)
						}
						c16flips(c, r, id, compact, text, fields, payload, eval, per, tf, exhaustive)
						bucket := "jwe/" + string(ec.alg) + "/" + string(enc)
						if n == 0 && zip == jose.NONE {
							bucket = "jwe/F19-empty-plaintext/" + string(enc)
						}
						c.Case(bucket, id, true)
					}
				}
			}
		}
	}

	// =================================================================== F15 regression cases (fixed findings)
	for _, w := range []struct{ name, text string }{
		{"jose.jwe F15a 3-byte GCM iv", `{"protected":"eyJhbGciOiJkaXIiLCJlbmMiOiJBMTI4R0NNIn0","iv":"AAAA","ciphertext":"AAAA","tag":"AAAAAAAAAAAAAAAAAAAAAA"}`},
		{"jose.jwe F15b empty encrypted_key A128KW", `{"protected":"eyJhbGciOiJBMTI4S1ciLCJlbmMiOiJBMTI4R0NNIn0","iv":"AAAAAAAAAAAAAAAA","ciphertext":"AAAA","tag":"AAAAAAAAAAAAAAAAAAAAAA"}`},
		{"jose.jwe F15c only unprotected header", `{"unprotected":{"alg":"dir","enc":"A128GCM"},"iv":"AAAAAAAAAAAAAAAA","ciphertext":"AAAA","tag":"AAAAAAAAAAAAAAAAAAAAAA"}`},
		{"jose.jwe compact 3-byte GCM iv", "eyJhbGciOiJkaXIiLCJlbmMiOiJBMTI4R0NNIn0..AAAA.AAAA.AAAAAAAAAAAAAAAAAAAAAA"},
		{"jose.jwe no protected, zip in unprotected", `{"unprotected":{"alg":"dir","enc":"A128GCM","zip":"DEF"},"iv":"AAAAAAAAAAAAAAAA","ciphertext":"AAAA","tag":"AAAAAAAAAAAAAAAAAAAAAA"}`},
		{"jose.jwe empty object", `{}`},
		{"jose.jwe header only", `{"header":{"alg":"A128KW","enc":"A128CBC-HS256"}}`},
		{"jose.jwe recipients without keys", `{"protected":"eyJlbmMiOiJBMTI4R0NNIn0","recipients":[{"header":{"alg":"A128KW"}},{"header":{"alg":"A128GCMKW"}}],"iv":"AAAA","ciphertext":"","tag":""}`},
		{"jose.jwe ECDH-ES without epk", `{"protected":"eyJhbGciOiJFQ0RILUVTIiwiZW5jIjoiQTEyOEdDTSJ9","iv":"AAAAAAAAAAAAAAAA","ciphertext":"AAAA","tag":"AAAAAAAAAAAAAAAAAAAAAA"}`},
	} {
		for kn, key := range map[string]interface{}{"oct": ks.syms[16][0], "rsa": ks.rsa[0], "ec": ecp[0]} {
			_, class := c16safe(func() ([]byte, error) {
				p, err := jose.ParseEncrypted(w.text)
				if err != nil {
					return nil, err
				}
				jose.VerifJWEAuthData(p)
				return p.Decrypt(key)
			})
			c.Hold(class == "err", "tamper.no_panic", w.name, class, "err")
			c.Case("jwe/F15-witnesses-and-neighbours", w.name+" key="+kn, true)
		}
	}
	// the repaired computeAuthData on an object without protected header: AAD = "" [ "." b64(aad) ]
	if p, err := jose.ParseEncrypted(`{"unprotected":{"alg":"dir","enc":"A128GCM"},"aad":"QUJD","iv":"AAAAAAAAAAAAAAAA","ciphertext":"AAAA","tag":"AAAAAAAAAAAAAAAAAAAAAA"}`); err == nil {
		got := h.Safe(func() string { return c16text(string(jose.VerifJWEAuthData(p))) })
		c.Eq("jwe.aad.no_protected", "jose.aad - 414243", got, c.O.Call("jose.aad", "-", "414243"))
	}

	// =================================================================== malformed stream through the parsers
	seedsE := []string{}
	{
		e, _ := jose.NewEncrypter(jose.A128KW, jose.A128CBC_HS256, ks.syms[16][0])
		o, _ := e.EncryptWithAuthData([]byte("malformed-stream seed"), []byte("aad"))
		seedsE = append(seedsE, o.FullSerialize())
		e2, _ := jose.NewEncrypter(jose.A128GCMKW, jose.A128GCM, ks.syms[16][0])
		o2, _ := e2.Encrypt([]byte("seed two"))
		t2, _ := o2.CompactSerialize()
		seedsE = append(seedsE, t2, o2.FullSerialize())
	}
	for i := 0; i < c.N(600, 30000); i++ {
		s := []byte(seedsE[r.Intn(len(seedsE))])
		switch r.Intn(5) {
		case 0:
			s = s[:r.Intn(len(s)+1)]
		case 1:
			s[r.Intn(len(s))] = byte(r.Intn(256))
		case 2:
			k := r.Intn(len(s))
			s = append(s[:k:k], s[k+r.Intn(len(s)-k):]...)
		case 3:
			s[r.Intn(len(s))] ^= 1 << uint(r.Intn(8))
		default:
			k := r.Intn(len(s) + 1)
			s = append(s[:k:k], append([]byte(`"","iv":"`), s[k:]...)...)
		}
		_, class := c16safe(func() ([]byte, error) {
			p, err := jose.ParseEncrypted(string(s))
			if err != nil {
				return nil, err
			}
			return p.Decrypt(ks.syms[16][0])
		})
		in := "jose.jwe malformed " + h.Hex(s)
		c.Hold(class != "panic", "tamper.no_panic", in, class, "err")
		c.Hold(class != "ok" || true, "malformed.accounted", in, class, "")
		c.Case("jwe/malformed-stream/"+class, in, true)
	}

	// =================================================================== header merge precedence
	hv := func(set bool, v string) string {
		if !set {
			return ""
		}
		return v
	}
	for i := 0; i < c.N(150, 4000); i++ {
		type hd struct{ alg, enc, zip, kid string }
		mk := func(tag string) (*hd, string, string) {
			if r.Chance(20) {
				return nil, "none", ""
			}
			x := &hd{hv(r.Bool(), []string{"dir", "A128KW", "A256GCMKW"}[r.Intn(3)]), hv(r.Bool(), []string{"A128GCM", "A256CBC-HS512"}[r.Intn(2)]), hv(r.Chance(30), "DEF"), hv(r.Bool(), "kid-"+tag)}
			m := map[string]string{}
			for k, v := range map[string]string{"alg": x.alg, "enc": x.enc, "zip": x.zip, "kid": x.kid} {
				if v != "" {
					m[k] = v
				}
			}
			j, _ := json.Marshal(m)
			return x, fmt.Sprintf("%s|%s|%s|%s|-", c16text(x.alg), c16text(x.enc), c16text(x.zip), c16text(x.kid)), string(j)
		}
		p, pm, pj := mk("p")
		u, um, uj := mk("u")
		rc, rm, rj := mk("r")
		doc := map[string]interface{}{"iv": "AAAAAAAAAAAAAAAA", "ciphertext": "AAAA", "tag": "AAAAAAAAAAAAAAAAAAAAAA"}
		if p != nil {
			doc["protected"] = jose.VerifBase64URLEncode([]byte(pj))
		}
		if u != nil {
			doc["unprotected"] = json.RawMessage(uj)
		}
		if rc != nil {
			doc["header"] = json.RawMessage(rj)
		}
		text, _ := json.Marshal(doc)
		in := fmt.Sprintf("jose.merge %s %s %s", pm, um, rm)
		model := c.O.Call("jose.merge", pm, um, rm)
		parsed, err := jose.ParseEncrypted(string(text))
		mf := strings.Split(model, "|")
		if err != nil {
			// the only parse error possible here: merged alg or enc missing
			c.Hold(len(mf) == 5 && (mf[0] == "-" || mf[1] == "-"), "merge.missing_alg_enc", in, "parse error", model)
		} else {
			a, e, z, k := jose.VerifMergedHeader(parsed, 0)
			c.Eq("merge", in, fmt.Sprintf("%s|%s|%s|%s|-", c16text(a), c16text(e), c16text(z), c16text(k)), model)
		}
		c.Case("header-merge", in, true)
	}

	// =================================================================== JWK codec, coordinates, thumbprints
	b64 := func(b []byte) string { return string(h.UnHex(c.O.Call("jose.b64", h.Hex(b)))) }
	for crv, keys := range ks.ec {
		for i, k := range keys {
			size := c16curveSize(k.Curve)
			for _, priv := range []bool{false, true} {
				id := fmt.Sprintf("jose.jwk EC %s key%d priv=%v", crv, i, priv)
				var key interface{} = &k.PublicKey
				if priv {
					key = k
				}
				jwk := jose.JsonWebKey{Key: key, KeyID: "kid-1", Algorithm: "ES", Use: "sig"}
				raw, err := jwk.MarshalJSON()
				if !c.Hold(err == nil, "jwk.marshal", id, fmt.Sprint(err), "nil") {
					continue
				}
				var m map[string]string
				json.Unmarshal(raw, &m)
				xb, e1 := jose.VerifBase64URLDecode(m["x"])
				yb, e2 := jose.VerifBase64URLDecode(m["y"])
				c.Hold(e1 == nil && e2 == nil && len(xb) == size && len(yb) == size, "jwk.ec_fixed_width", id, fmt.Sprintf("%d %d", len(xb), len(yb)), fmt.Sprint(size))
				c.Eq("jwk.ec_coords", id, fmt.Sprintf("ok %s %s", h.Hex(xb), h.Hex(yb)), c.O.Call("jose.eccoords.enc", fmt.Sprint(size), k.X.String(), k.Y.String()))
				c.Eq("jwk.curve_size", id, fmt.Sprint(size), c.O.Call("jose.curvesize", fmt.Sprint(k.Curve.Params().BitSize)))
				var back jose.JsonWebKey
				err = back.UnmarshalJSON(raw)
				same := err == nil && back.KeyID == "kid-1" && back.Algorithm == "ES" && back.Use == "sig"
				if same {
					switch bk := back.Key.(type) {
					case *ecdsa.PublicKey:
						same = !priv && bk.X.Cmp(k.X) == 0 && bk.Y.Cmp(k.Y) == 0 && bk.Curve == k.Curve
					case *ecdsa.PrivateKey:
						same = priv && bk.X.Cmp(k.X) == 0 && bk.Y.Cmp(k.Y) == 0 && bk.D.Cmp(k.D) == 0 && bk.Curve == k.Curve
					default:
						same = false
					}
				}
				c.Hold(same, "jwk.roundtrip", id, fmt.Sprint(err), "same key")
				// RFC 7638 thumbprint from the template with the model's encodings
				fx := h.UnHex(strings.TrimPrefix(c.O.Call("jose.fixed", fmt.Sprint(size), k.X.String()), "ok "))
				fy := h.UnHex(strings.TrimPrefix(c.O.Call("jose.fixed", fmt.Sprint(size), k.Y.String()), "ok "))
				want := sha256.Sum256([]byte(fmt.Sprintf(`{"crv":"%s","kty":"EC","x":"%s","y":"%s"}`, crv, b64(fx), b64(fy))))
				tp, err := jwk.Thumbprint(crypto.SHA256)
				c.Hold(err == nil && bytes.Equal(tp, want[:]), "jwk.thumbprint", id, h.Hex(tp), h.Hex(want[:]))
				bucket := "jwk/ec"
				if len(k.X.Bytes()) < size || len(k.Y.Bytes()) < size {
					bucket = "jwk/ec-leading-zero-coordinate"
				}
				c.Case(bucket, id, true)
			}
		}
	}
	for i, k := range ks.rsa {
		for _, priv := range []bool{false, true} {
			id := fmt.Sprintf("jose.jwk RSA key%d priv=%v", i, priv)
			var key interface{} = &k.PublicKey
			if priv {
				key = k
			}
			jwk := jose.JsonWebKey{Key: key, KeyID: "r"}
			raw, err := jwk.MarshalJSON()
			if !c.Hold(err == nil, "jwk.marshal", id, fmt.Sprint(err), "nil") {
				continue
			}
			var back jose.JsonWebKey
			err = back.UnmarshalJSON(raw)
			same := err == nil
			if same {
				switch bk := back.Key.(type) {
				case *rsa.PublicKey:
					same = !priv && bk.N.Cmp(k.N) == 0 && bk.E == k.E
				case *rsa.PrivateKey:
					same = priv && bk.N.Cmp(k.N) == 0 && bk.E == k.E && bk.D.Cmp(k.D) == 0 && bk.Primes[0].Cmp(k.Primes[0]) == 0 && bk.Primes[1].Cmp(k.Primes[1]) == 0
				default:
					same = false
				}
			}
			c.Hold(same, "jwk.roundtrip", id, fmt.Sprint(err), "same key")
			eb := big.NewInt(int64(k.E)).Bytes()
			want := sha256.Sum256([]byte(fmt.Sprintf(`{"e":"%s","kty":"RSA","n":"%s"}`, b64(eb), b64(k.N.Bytes()))))
			tp, err := jwk.Thumbprint(crypto.SHA256)
			c.Hold(err == nil && bytes.Equal(tp, want[:]), "jwk.thumbprint", id, h.Hex(tp), h.Hex(want[:]))
			c.Case("jwk/rsa", id, true)
		}
	}
	for _, n := range []int{16, 32, 64} {
		id := fmt.Sprintf("jose.jwk oct %d", n)
		jwk := jose.JsonWebKey{Key: ks.syms[n][0], KeyID: "s"}
		raw, err := jwk.MarshalJSON()
		var back jose.JsonWebKey
		if err == nil {
			err = back.UnmarshalJSON(raw)
		}
		kb, _ := back.Key.([]byte)
		c.Hold(err == nil && bytes.Equal(kb, ks.syms[n][0]), "jwk.roundtrip", id, fmt.Sprint(err), "same key")
		_, terr := jwk.Thumbprint(crypto.SHA256)
		c.Hold(terr != nil, "jwk.thumbprint.oct_is_error", id, "digest", "error (not a wrong digest)")
		c.Case("jwk/oct", id, true)
	}
}
