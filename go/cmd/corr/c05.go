package main

// C05 — AMF0 values round-trip and report their exact encoded size:
// implementation vs Lean model (Oryx.Amf0) + the property predicates on the implementation.

import (
	"bytes"
	"fmt"
	"github.com/ossrs/go-oryx-lib/rtmp"
	"strings"
	"sync"
	"time"

	"github.com/ossrs/go-oryx-lib/amf0"
	"verifharness/internal/h"
)

func init() { register("C05", c05) }

func distinctKeys(keys [][]byte) int {
	seen := map[string]bool{}
	for _, k := range keys {
		seen[string(k)] = true
	}
	return len(seen)
}

// randomStrictCounts gives API-built strict arrays an arbitrary count FIELD (0 as NewStrictArray
// leaves it, the number of properties, or anything else): marshalling must not depend on it.
func randomStrictCounts(r *h.Rand, n *anode) {
	if n.kind == 't' {
		n.count = uint32(r.Pick(0, 0, distinctKeys(n.keys), len(n.keys)+1, 0xffffffff))
	}
	for _, k := range n.kids {
		randomStrictCounts(r, k)
	}
}

// goWF: the domain of the round-trip property, computed on the real value (strings and keys at most
// 65535 bytes, no objectEOF value).
func goWF(a amf0.Amf0) bool {
	switch amf0.VerifKind(a) {
	case 2:
		return len(string(*a.(*amf0.String))) <= 65535
	case 9:
		return false
	case 3, 8, 10:
		props, _, _ := amf0.VerifProps(a)
		for _, p := range props {
			if len(p.Key) > 65535 || !goWF(p.Value) {
				return false
			}
		}
	}
	return true
}

// c05Decodable runs every check that applies to a byte string the library decodes.
// want, when non-empty, is the tree the decoder must produce (keys in wire order).
func c05Decodable(c *h.Ctx, clause string, bs []byte, want string, wantConsumed int) amfDec {
	hx := h.Hex(bs)
	in := "amf0.dec " + h.Trunc(hx, 600)
	d := libDecode(bs)
	line := d.decLine(bs)
	c.Eq(clause+".dec", in, h.Trunc(line, 1500), h.Trunc(c.O.Call("amf0.dec", hx), 1500))
	c.Hold(d.class != "panic", "no_panic", in, d.class, "ok|err")
	if d.class != "ok" {
		return d
	}
	// the property: Size() afterwards = bytes consumed
	size := d.val.Size()
	c.Hold(size == d.consumed, "size_consumed", in, fmt.Sprintf("Size()=%d", size), fmt.Sprintf("consumed=%d", d.consumed))
	if want != "" {
		c.Hold(amfStr(d.val) == want, "decode_tree", in, h.Trunc(amfStr(d.val), 600), h.Trunc(want, 600))
		c.Hold(d.consumed == wantConsumed, "decode_consumed", in, fmt.Sprint(d.consumed), fmt.Sprint(wantConsumed))
	}
	// a caller that advances by Size() stays aligned on the next value
	next := []byte{2, 0, 4, 'n', 'e', 'x', 't'}
	if size <= len(bs) {
		two := append(append([]byte{}, bs[:d.consumed]...), next...)
		if a2, cl := libDecodeOnce(two); cl == "ok" && a2.Size() <= len(two) {
			b2, cl2 := libDecodeOnce(two[a2.Size():])
			got := cl2
			if cl2 == "ok" {
				got = amfStr(b2)
			}
			c.Hold(got == "s6e657874", "aligned_next", in, got, "s6e657874")
		} else {
			c.Hold(false, "aligned_next", in, cl, "ok")
		}
	}
	// the decoded tree re-marshals to Size() bytes and decodes back to itself
	again, cl := libMarshal(d.val)
	c.Hold(cl == "ok" && len(again) == size, "remarshal_len", in, fmt.Sprintf("%s len=%d", cl, len(again)), fmt.Sprintf("Size()=%d", size))
	if cl == "ok" {
		d2 := libDecode(again)
		got := d2.class
		if d2.class == "ok" {
			got = amfStr(d2.val)
		}
		c.Hold(got == amfStr(d.val), "redecode", in, h.Trunc(got, 600), h.Trunc(amfStr(d.val), 600))
	}
	return d
}

// c05Tree runs the checks for one API-built value.
func c05Tree(c *h.Ctx, bucket string, a amf0.Amf0, nodes int) {
	t := amfStr(a)
	in := "amf0.enc " + h.Trunc(t, 600)
	out, cl := libMarshal(a)
	if !c.Hold(cl == "ok", "marshal_ok", in, cl, "ok") {
		return
	}
	c.Eq("enc", in, h.Trunc(h.Hex(out), 1500), h.Trunc(c.O.Call("amf0.enc", t), 1500))
	c.Eq("size", "amf0.size "+h.Trunc(t, 600), fmt.Sprint(a.Size()), c.O.Call("amf0.size", t))
	wf := goWF(a)
	c.Eq("wf", "amf0.wf "+h.Trunc(t, 600), fmt.Sprint(wf), c.O.Call("amf0.wf", t))
	// property: marshalling yields exactly Size() bytes (every tree)
	c.Hold(len(out) == a.Size(), "encode_len", in, fmt.Sprint(len(out)), fmt.Sprintf("Size()=%d", a.Size()))
	tail := [][]byte{nil, {0}, {0, 0, 9}, {9}, c.R.Bytes(1 + c.R.Intn(5))}[c.R.Intn(5)]
	bs := append(append([]byte{}, out...), tail...)
	if wf {
		// property: unmarshalling yields an equal tree, keys in order, consuming exactly those bytes
		d := c05Decodable(c, "tree", bs, t, len(out))
		if d.class == "ok" {
			again, _ := libMarshal(d.val)
			c.Hold(bytes.Equal(again, out), "reencode", in, h.Trunc(h.Hex(again), 600), h.Trunc(h.Hex(out), 600))
			c.Hold(d.val.Size() == len(out), "size_after", in, fmt.Sprint(d.val.Size()), fmt.Sprint(len(out)))
		} else {
			c.Hold(false, "decode_encode", in, d.class, "ok "+h.Trunc(t, 300))
		}
	} else {
		// outside the domain (oversize string or key, objectEOF value): model = implementation only
		hx := h.Hex(bs)
		d := libDecode(bs)
		c.Eq("tree.dec", "amf0.dec "+h.Trunc(hx, 600), h.Trunc(d.decLine(bs), 1500), h.Trunc(c.O.Call("amf0.dec", hx), 1500))
		c.Hold(d.class != "panic", "no_panic", "amf0.dec "+h.Trunc(hx, 600), d.class, "ok|err")
	}
	c.Case(fmt.Sprintf("%s/wf=%v,nodes=%s", bucket, wf, amfBucketSize(nodes)), t, true)
}

func c05(c *h.Ctx) {
	defer amfCheckRetained(c)
	r := c.R

	// 0a. containers with thousands of elements (every container kind, alone and nested in an object that has further
	// properties after it): decode(encode v) = v, Size() = bytes produced = bytes consumed. The model executable is
	// compared up to 5000 elements; beyond that the implementation is checked against the hand-written bytes.
	{
		sizes := []int{4097, 70000}
		if c.Thorough() {
			sizes = []int{4095, 4096, 4097, 5000, 65535, 65536, 70000, 300000}
		}
		for _, n := range sizes {
			kv := make([]interface{}, 0, 2*n)
			for i := 0; i < n; i++ {
				kv = append(kv, fmt.Sprintf("k%d", i), num(uint64(0x4000000000000000)+uint64(i)))
			}
			for _, kind := range []byte{'o', 'a', 't'} {
				inner := container(kind, uint32(n), kv...)
				for _, nd := range []*anode{inner, container('o', 0, "first", str("x"), "big", inner, "after", num(0x3ff0000000000000))} {
					v := nd.build()
					bs, cl := libMarshal(v)
					id := fmt.Sprintf("container %c of %d elements (nested: %v)", kind, n, nd != inner)
					if !c.Hold(cl == "ok" && bytes.Equal(bs, nd.wire(nil)) && v.Size() == len(bs), "encode_large", id, fmt.Sprintf("%s, %d bytes, Size()=%d", cl, len(bs), v.Size()), fmt.Sprintf("ok, %d bytes", len(nd.wire(nil)))) {
						continue
					}
					if n <= 5000 && (c.Thorough() || kind == 't') {
						c05Decodable(c, "large", bs, nd.text(), len(bs))
					} else {
						d := libDecode(bs)
						ok := d.class == "ok" && amfStr(d.val) == nd.text() && d.consumed == len(bs) && d.val.Size() == len(bs)
						got := d.class
						if d.class == "ok" {
							got = fmt.Sprintf("consumed=%d Size()=%d", d.consumed, d.val.Size())
						}
						c.Hold(ok, "decode_tree", id, got, fmt.Sprintf("consumed=%d Size()=%d and the same tree", len(bs), len(bs)))
					}
					c.Case(fmt.Sprintf("large/%c/%d", kind, n), id, true)
				}
			}
		}
	}

	// 0. regression corpus: the failing inputs of F5 and F6 (fixed) and their neighbours.
	for _, hx := range []string{
		"03000161050001610500000905",                               // F5: object with a repeated key (+ trailing null)
		"030001" + "6f" + "03000161050001610500000900017a05000009", // F5 nested: inner repeated key, outer next property
		"0a00000002000161050001610500016205",                       // strict array, repeated key inside count 2 (+1 extra property)
		"0800000001000161050001610600000900",                       // ECMA array with a repeated key
		"03000005000009",                                           // empty key with a real value
		"0300000500000500000009",                                   // empty key repeated
	} {
		bs := h.UnHex(hx)
		c05Decodable(c, "corpus", bs, "", 0)
		c.Case("corpus/F5", hx, true)
	}
	{
		// F5 exact: consumed 12, Size() 12, both properties kept in order
		bs := h.UnHex("030001610500016105000009")
		c05Decodable(c, "corpus", bs, "o[61=z,61=z]", 12)
		c.Case("corpus/F5", "F5", true)
		// F6: NewStrictArray().Set("x", 1.0)
		s := amf0.NewStrictArray()
		s.Set("x", amf0.NewNumber(1))
		out, _ := libMarshal(s)
		c.Hold(h.Hex(out) == "0a00000001000178003ff0000000000000", "F6.count", "NewStrictArray().Set(x,1.0)", h.Hex(out), "0a00000001000178003ff0000000000000")
		d := libDecode(out)
		got := d.class
		if d.class == "ok" {
			got = amfStr(d.val)
		}
		c.Hold(got == "t[78=n3ff0000000000000]", "decode_encode", "F6 NewStrictArray().Set(x,1.0)", got, "t[78=n3ff0000000000000]")
		c05Tree(c, "corpus/F6", s, 2)
	}

	// 0b. values are independent of each other: decoding INTO one value (the typed UnmarshalBinary the package's own
	// tests use) must not change any other value — in particular not the values later constructors hand out
	{
		cases := []struct {
			name string
			mk   func() amf0.Amf0
			into []byte
			want string
		}{
			{"Boolean(false)", func() amf0.Amf0 { return amf0.NewBoolean(false) }, []byte{1, 1}, "0100"},
			{"Boolean(true)", func() amf0.Amf0 { return amf0.NewBoolean(true) }, []byte{1, 0}, "0101"},
			{"Null", func() amf0.Amf0 { return amf0.NewNull() }, []byte{5}, "05"},
			{"Undefined", func() amf0.Amf0 { return amf0.NewUndefined() }, []byte{6}, "06"},
			{"Number(0)", func() amf0.Amf0 { return amf0.NewNumber(0) }, []byte{0, 0x40, 0x59, 0, 0, 0, 0, 0, 0}, "000000000000000000"},
			{"String()", func() amf0.Amf0 { return amf0.NewString("") }, []byte{2, 0, 2, 'h', 'i'}, "020000"},
		}
		for _, k := range cases {
			held := k.mk() // a value the application already holds
			k.mk().UnmarshalBinary(k.into)
			fresh := k.mk()
			o1, _ := libMarshal(held)
			o2, _ := libMarshal(fresh)
			id := fmt.Sprintf("New%s; New%s.UnmarshalBinary(%s); New%s", k.name, k.name, h.Hex(k.into), k.name)
			c.Hold(h.Hex(o1) == k.want && h.Hex(o2) == k.want, "values_are_independent", id, h.Hex(o1)+" / "+h.Hex(o2), k.want+" / "+k.want)
			c.Case("independent-values", id, true)
		}
	}

	// 1. API-built random trees: depth ≤ 6, ≤ 200 nodes, keys from a small alphabet.
	ntree := c.N(1500, 40000)
	for i := 0; i < ntree; i++ {
		g := &amfGen{r: r, budget: r.Pick(1, 3, 8, 20, 60, 200), maxDep: r.Pick(1, 2, 3, 4, 6), api: true, bigOK: r.Chance(3)}
		n := g.tree(0)
		randomStrictCounts(r, n)
		a := n.build()
		c05Tree(c, fmt.Sprintf("tree/depth=%d", n.depth()), a, n.nodes())
	}

	// 2. property bag: Set/Get sequences against the model (replace-in-place, append, first match).
	nbag := c.N(300, 6000)
	for i := 0; i < nbag; i++ {
		var a amf0.Amf0
		var set func(string, amf0.Amf0)
		var get func(string) amf0.Amf0
		switch r.Intn(3) {
		case 0:
			o := amf0.NewObject()
			a, set, get = o, func(k string, v amf0.Amf0) { o.Set(k, v) }, o.Get
		case 1:
			o := amf0.VerifNewEcmaArray(uint32(r.Intn(4)))
			a, set, get = o, func(k string, v amf0.Amf0) { o.Set(k, v) }, o.Get
		default:
			o := amf0.VerifNewStrictArray(uint32(r.Intn(4)))
			a, set, get = o, func(k string, v amf0.Amf0) { o.Set(k, v) }, o.Get
		}
		// half of the bags start from a decoded container with repeated keys
		if r.Bool() {
			g := &amfGen{r: r, budget: 8, maxDep: 1}
			n := g.tree(0)
			if n.kind == 'o' || n.kind == 'a' {
				if x, cl := libDecodeOnce(n.wire(nil)); cl == "ok" {
					a = x
					switch o := x.(type) {
					case *amf0.Object:
						set, get = func(k string, v amf0.Amf0) { o.Set(k, v) }, o.Get
					case *amf0.EcmaArray:
						set, get = func(k string, v amf0.Amf0) { o.Set(k, v) }, o.Get
					}
				}
			}
		}
		model := amfStr(a)
		steps := 1 + r.Intn(8)
		for j := 0; j < steps; j++ {
			k := amfKeyAlphabet[r.Intn(len(amfKeyAlphabet))]
			g := &amfGen{r: r, budget: 3, maxDep: 1, api: true}
			v := g.tree(1).build()
			kx := h.Hex([]byte(k))
			in := fmt.Sprintf("amf0.set %s %s %s", model, kx, amfStr(v))
			set(k, v)
			model = c.O.Call("amf0.set", model, kx, amfStr(v))
			c.Eq("set", in, amfStr(a), model)
			gk := amfKeyAlphabet[r.Intn(len(amfKeyAlphabet))]
			got := "nil"
			if x := get(gk); x != nil {
				got = amfStr(x)
			}
			c.Eq("get", fmt.Sprintf("amf0.get %s %s", model, h.Hex([]byte(gk))), got, c.O.Call("amf0.get", model, h.Hex([]byte(gk))))
			model = amfStr(a)
		}
		out, _ := libMarshal(a)
		c.Hold(len(out) == a.Size(), "encode_len", "amf0.enc "+model, fmt.Sprint(len(out)), fmt.Sprint(a.Size()))
		c.Case(fmt.Sprintf("bag/steps=%d", steps), model, true)
	}

	// 2b. trees that grow and change AFTER they were measured: a nested container reached through Get (or kept by
	// the caller) gets new properties, a *String / *Number inside the tree is assigned in place, and after every
	// step the root is measured and marshalled again — Size() must describe the tree as it is now, not as it was
	// the last time somebody asked.
	ninc := c.N(250, 5000)
	for i := 0; i < ninc; i++ {
		c05Incremental(c)
	}

	// 3. grammar-generated decodable byte strings (written directly, not by the library): repeated keys,
	// empty keys, approximate ECMA counts, non-0/1 booleans, trailing bytes.
	nwire := c.N(1500, 40000)
	for i := 0; i < nwire; i++ {
		g := &amfGen{r: r, budget: r.Pick(1, 3, 8, 20, 60, 200), maxDep: r.Pick(1, 2, 3, 4, 6), bigOK: r.Chance(2)}
		n := g.tree(0)
		if r.Chance(30) {
			forceBoolBytes(r, n)
		}
		w := n.wire(nil)
		tail := [][]byte{nil, nil, {0, 0, 9}, {3}, r.Bytes(1 + r.Intn(6))}[r.Intn(5)]
		bs := append(append([]byte{}, w...), tail...)
		c05Decodable(c, "wire", bs, n.text(), len(w))
		c.Case(fmt.Sprintf("wire/dup=%v,emptykey=%v,nodes=%s,tail=%v", n.hasDupKeys(), n.hasEmptyKey(), amfBucketSize(n.nodes()), len(tail) > 0), h.Hex(bs), true)
	}

	// 4. malformed stream: truncations at every offset, mutations, length lies, random bytes.
	nmal := c.N(600, 12000)
	for i := 0; i < nmal; i++ {
		g := &amfGen{r: r, budget: r.Pick(2, 5, 12, 30), maxDep: r.Pick(1, 2, 3)}
		w := g.tree(0).wire(nil)
		var cases [][]byte
		switch r.Intn(4) {
		case 0: // every truncation of a short encoding
			if len(w) > 48 {
				w = w[:48]
			}
			for k := 0; k <= len(w); k++ {
				cases = append(cases, append([]byte{}, w[:k]...))
			}
		case 1: // single-byte mutations
			for k := 0; k < 6 && len(w) > 0; k++ {
				m := append([]byte{}, w...)
				p := r.Intn(len(m))
				m[p] = []byte{0, 1, 2, 3, 4, 5, 6, 7, 8, 9, 10, 11, 12, 13, 16, 17, 0xff, byte(r.U64())}[r.Intn(18)]
				cases = append(cases, m)
			}
		case 2: // random bytes behind a supported marker
			m := append([]byte{[]byte{0, 1, 2, 3, 5, 6, 8, 10}[r.Intn(8)]}, r.Bytes(r.Intn(24))...)
			cases = append(cases, m)
		default: // splice: a valid value cut and continued by another valid value
			w2 := (&amfGen{r: r, budget: 6, maxDep: 2}).tree(0).wire(nil)
			cut := r.Intn(len(w) + 1)
			cases = append(cases, append(append([]byte{}, w[:cut]...), w2...))
		}
		for _, bs := range cases {
			d := c05Decodable(c, "malformed", bs, "", 0)
			c.Case("malformed/"+d.class, h.Hex(bs), true)
		}
	}

	// 4b. deep nesting, decode history, independent decoders.
	// (i) "arbitrary nesting": chains of containers far deeper than anything the generators above produce;
	// (ii) whatever was decoded before — values that decode, values that are cut off deep inside — a value decodes as it
	// would in a fresh process (a canary value is decoded again after every batch);
	// (iii) decoders running side by side on different goroutines do not know of each other.
	{
		chain := func(depth int, kind byte) []byte {
			var w []byte
			for i := 0; i < depth; i++ {
				switch kind {
				case 8:
					w = append(w, 8, 0, 0, 0, 1, 0, 1, 'a')
				default:
					w = append(w, 3, 0, 1, 'a')
				}
			}
			w = append(w, 0, 0x40, 0x09, 0x21, 0xfb, 0x54, 0x44, 0x2d, 0x18)
			for i := 0; i < depth; i++ {
				w = append(w, 0, 0, 9)
			}
			return w
		}
		for _, depth := range []int{64, 127, 128, 129, 200, 255, 256, 257, 1000, 5000} {
			for _, kind := range []byte{3, 8} {
				w := chain(depth, kind)
				a, cl := libDecodeOnce(w)
				in := fmt.Sprintf("%d containers (marker %d) nested in each other around one number", depth, kind)
				if c.Hold(cl == "ok", "decode_encode.deep_nesting", in, cl, "ok") {
					out, mcl := libMarshal(a)
					c.Hold(mcl == "ok" && bytes.Equal(out, w) && a.Size() == len(w), "decode_encode.deep_nesting", in, fmt.Sprintf("%s size %d, %d bytes", mcl, a.Size(), len(out)), fmt.Sprintf("ok size %d", len(w)))
				}
				c.Case("deep/"+amfBucketSize(depth), in, true)
			}
		}
		canary := h.UnHex("0300036170700200046c6976650003617267" + "0a00000002000178003ff0000000000000000179" + "08000000010001610101000009" + "000009")
		canaryOK := func(when string) {
			a, cl := libDecodeOnce(canary)
			got := cl
			if cl == "ok" {
				got = fmt.Sprintf("ok %s size %d", amfStr(a), a.Size())
			}
			c.Hold(cl == "ok" && a.Size() == len(canary), "decode_encode.independent_of_history", "a small object decoded "+when, got, fmt.Sprintf("ok … size %d", len(canary)))
		}
		canaryOK("first")
		deep := chain(3000, 3)
		for i := 0; i < 400; i++ {
			switch i % 4 {
			case 0:
				libDecodeOnce(deep)
			case 1:
				libDecodeOnce(deep[:len(deep)-1-r.Intn(len(deep)/2)]) // cut off deep inside: the error unwinds 3000 levels
			case 2:
				libDecodeOnce(chain(3000+i, 8))
			default:
				libDecodeOnce(append([]byte{3, 0, 1, 'a', 0xff}, deep...)) // an unsupported marker under a container
			}
			if i%50 == 49 {
				canaryOK(fmt.Sprintf("after %d decodes of deeply nested values, a quarter of them cut off deep inside, a quarter with a bad marker", i+1))
			}
		}
		c.Case("history/deep", "400", true)
		// concurrent independent decoders
		{
			var wg sync.WaitGroup
			bad := make([]string, 8)
			mid := chain(100, 3)
			for g := 0; g < 8; g++ {
				wg.Add(1)
				go func(g int) {
					defer wg.Done()
					for i := 0; i < 60; i++ {
						for _, w := range [][]byte{mid, canary} {
							a, cl := libDecodeOnce(w)
							if cl != "ok" || a.Size() != len(w) {
								bad[g] = fmt.Sprintf("goroutine %d, decode %d: %s", g, i, cl)
								return
							}
						}
					}
				}(g)
			}
			wg.Wait()
			for _, b := range bad {
				if b != "" {
					c.Hold(false, "decode_encode.independent_decoders", "8 goroutines each decoding its own 100-deep object and a small object 60 times", b, "ok")
					break
				}
			}
			c.Case("history/concurrent", "8x60", true)
		}
	}

	// 4c. the callers that advance by Size(): RTMP command packets decode their AMF0 fields one after the other, each
	// time stepping over what the previous field's Size() reports. Payloads with values of every size class are decoded
	// into ONE long-lived packet of each kind as well as into fresh ones: Size() is the payload's length and the packet
	// marshals back to the payload.
	{
		type mk struct {
			name  string
			fresh func() rtmp.Packet
		}
		kinds := []mk{{"call", func() rtmp.Packet { return rtmp.NewCallPacket() }}, {"connect", func() rtmp.Packet { return rtmp.NewConnectAppPacket() }},
			{"connectRes", func() rtmp.Packet { return rtmp.NewConnectAppResPacket(1) }}, {"createStreamRes", func() rtmp.Packet { return rtmp.NewCreateStreamResPacket(2) }},
			{"publish", func() rtmp.Packet { return rtmp.NewPublishPacket() }}, {"play", func() rtmp.Packet { return rtmp.NewPlayPacket() }}}
		vals := func(i int) amf0.Amf0 {
			switch i % 6 {
			case 0:
				return amf0.NewString(strings.Repeat("s", r.Pick(0, 1, 30, 300)))
			case 1:
				return amf0.NewNumber(float64(i))
			case 2:
				o := amf0.NewObject()
				for k := r.Intn(4); k >= 0; k-- {
					o.Set(fmt.Sprintf("k%d", k), amf0.NewString(strings.Repeat("v", r.Intn(40))))
				}
				return o
			case 3:
				return amf0.NewNull()
			case 4:
				e := amf0.NewEcmaArray()
				e.Set("x", amf0.NewNumber(1)).Set("y", amf0.NewBoolean(true))
				return e
			}
			return amf0.NewBoolean(i%4 == 1)
		}
		for _, k := range kinds {
			reused := k.fresh()
			for i := 0; i < c.N(24, 300); i++ {
				src := k.fresh()
				switch x := src.(type) {
				case *rtmp.CallPacket:
					x.CommandName, x.TransactionID = amf0.String(strings.Repeat("n", 1+r.Intn(9))), amf0.Number(i)
					x.CommandObject = vals(i + 3)
					if i%3 != 0 {
						x.Args = vals(i)
					}
				case *rtmp.ConnectAppPacket:
					x.CommandObject.Set("app", amf0.NewString(strings.Repeat("a", r.Intn(50)))).Set("n", vals(i))
					if i%2 == 0 {
						x.Args = amf0.NewObject()
						x.Args.Set("opt", vals(i+1))
					}
				case *rtmp.ConnectAppResPacket:
					x.CommandObject.Set("fmsVer", amf0.NewString(strings.Repeat("f", r.Intn(20))))
					if i%2 == 1 {
						x.Args = amf0.NewObject()
						x.Args.Set("code", amf0.NewString("NetConnection.Connect.Success")).Set("v", vals(i))
					}
				case *rtmp.CreateStreamResPacket:
					x.StreamID = amf0.Number(i)
				case *rtmp.PublishPacket:
					x.StreamName, x.StreamType = amf0.String(strings.Repeat("p", r.Intn(60))), amf0.String([]string{"live", "record", ""}[i%3])
				case *rtmp.PlayPacket:
					x.StreamName = amf0.String(strings.Repeat("q", r.Intn(60)))
				}
				payload, err := src.MarshalBinary()
				if err != nil {
					continue
				}
				for pass, dst := range []rtmp.Packet{k.fresh(), reused} {
					in := fmt.Sprintf("rtmp %s payload %s decoded into %s", k.name, h.Trunc(h.Hex(payload), 300), []string{"a fresh packet", "a packet that earlier payloads were decoded into"}[pass])
					res := h.Safe(func() string {
						if err := dst.UnmarshalBinary(append([]byte(nil), payload...)); err != nil {
							return "err"
						}
						out, err := dst.MarshalBinary()
						if err != nil {
							return "marshal err"
						}
						return fmt.Sprintf("ok size %d %s", dst.Size(), h.Hex(out))
					})
					c.Hold(res == fmt.Sprintf("ok size %d %s", len(payload), h.Hex(payload)), "size_consumed.packet_fields", in, h.Trunc(res, 400), fmt.Sprintf("ok size %d and the same bytes", len(payload)))
				}
				c.Case("packets/"+k.name, h.Hex(payload), true)
			}
		}
	}

	// 5. thorough only: timing of the nested-container family the cost model charges (finding K3, C07's).
	if c.Thorough() {
		var ms []string
		for _, depth := range []int{2000, 4000, 8000} {
			var w []byte
			for i := 0; i < depth; i++ {
				w = append(w, 3, 0, 1, 'a')
			}
			w = append(w, 5)
			for i := 0; i < depth; i++ {
				w = append(w, 0, 0, 9)
			}
			t0 := time.Now()
			_, cl := libDecodeOnce(w)
			ms = append(ms, fmt.Sprintf("depth %d (%d bytes): %s in %d ms, model cost %s", depth, len(w), cl, time.Since(t0).Milliseconds(), c.O.Call("amf0.cost", h.Hex(w))))
		}
		c.Note("K3 (reported under C07): nested objects decode in Θ(n·depth), each child re-walked by Size(): " + strings.Join(ms, "; "))
	}
}

// forceBoolBytes gives boolean nodes arbitrary byte values on the wire (any non-zero byte is true).
func forceBoolBytes(r *h.Rand, n *anode) {
	if n.kind == 'b' {
		n.bits = uint64(r.Pick(0, 1, 2, 9, 255))
	}
	for _, k := range n.kids {
		forceBoolBytes(r, k)
	}
}

func amfSetOn(a amf0.Amf0, k string, v amf0.Amf0) {
	switch o := a.(type) {
	case *amf0.Object:
		o.Set(k, v)
	case *amf0.EcmaArray:
		o.Set(k, v)
	case *amf0.StrictArray:
		o.Set(k, v)
	}
}

func amfGetFrom(a amf0.Amf0, k string) amf0.Amf0 {
	switch o := a.(type) {
	case *amf0.Object:
		return o.Get(k)
	case *amf0.EcmaArray:
		return o.Get(k)
	case *amf0.StrictArray:
		return o.Get(k)
	}
	return nil
}

// c05Incremental: one tree built in several steps with observations (Size, MarshalBinary, a decode of the result)
// between the steps. Every container, string and number that was ever put into the tree stays reachable to the
// "application" and may be changed later, wherever it sits.
func c05Incremental(c *h.Ctx) {
	amfIncremental(c, func(stage string, root amf0.Amf0, nodes int) { c05Tree(c, stage, root, nodes) })
}

// amfIncremental builds a tree step by step (new properties anywhere, strings and numbers assigned in place) and calls
// check after most steps and at the end.
func amfIncremental(c *h.Ctx, check func(stage string, root amf0.Amf0, nodes int)) {
	r := c.R
	var root amf0.Amf0
	switch r.Intn(3) {
	case 0:
		root = amf0.NewObject()
	case 1:
		root = amf0.NewEcmaArray()
	default:
		root = amf0.NewStrictArray()
	}
	type slot struct {
		parent amf0.Amf0
		key    string
		val    amf0.Amf0
	}
	conts := []slot{{nil, "", root}}
	var strs []*amf0.String
	var nums []*amf0.Number
	keys := []string{"a", "b", "duration", "width", "x", "meta", "k", strings.Repeat("k", r.Pick(126, 127, 128, 129, 130, 255, 256))}
	steps := 2 + r.Intn(9)
	nodes := 1
	for j := 0; j < steps; j++ {
		switch k := r.Intn(10); {
		case k < 6: // a new property (or a replaced one) somewhere in the tree
			at := conts[r.Intn(len(conts))]
			target := at.val
			if at.parent != nil && r.Bool() {
				// reach the container the way an application holding only the root would
				if x := amfGetFrom(at.parent, at.key); x != nil {
					target = x
				}
			}
			key := keys[r.Intn(len(keys))]
			var v amf0.Amf0
			switch r.Intn(6) {
			case 0:
				v = amf0.NewObject()
			case 1:
				v = amf0.NewEcmaArray()
			case 2, 3:
				sv := amf0.NewString([]string{"", "oryx", "onMetaData", strings.Repeat("s", r.Intn(300))}[r.Intn(4)])
				strs, v = append(strs, sv), sv
			case 4:
				nv := amf0.NewNumber(float64(r.Intn(1000)))
				nums, v = append(nums, nv), nv
			default:
				v = [](func() amf0.Amf0){func() amf0.Amf0 { return amf0.NewNull() }, amf0.NewUndefined, func() amf0.Amf0 { return amf0.NewBoolean(true) }}[r.Intn(3)]()
			}
			amfSetOn(target, key, v)
			nodes++
			if _, _, ok := amf0.VerifProps(v); ok {
				conts = append(conts, slot{target, key, v})
			}
		case k < 8 && len(strs) > 0: // a string somewhere in the tree assigned in place
			*strs[r.Intn(len(strs))] = amf0.String(strings.Repeat("z", r.Pick(0, 1, 5, 40, 300)))
		case len(nums) > 0:
			*nums[r.Intn(len(nums))] = amf0.Number(float64(r.Intn(1 << 20)))
		default:
			continue
		}
		// observe after most steps (an unobserved step followed by an observed one is a case of its own)
		if r.Chance(75) {
			if len(conts) > 1 && r.Bool() {
				_ = conts[r.Intn(len(conts))].val.Size()
			}
			check(fmt.Sprintf("incremental/step=%d", j), root, nodes)
		}
	}
	check("incremental/final", root, nodes)
}
