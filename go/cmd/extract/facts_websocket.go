package main

// Structural facts of /repo/websocket regenerated into lean/Oryx/Gen/Websocket.lean:
//
//   validReceivedCloseCodes            the map literal, as a total function (missing key = false)
//   allConnWritesUnderMu               C15: every `x.conn.Write(…)` happens between `<-x.mu` and the deferred `x.mu <- true`
//   writeErrCheckedUnderMuBeforeWrite  C15: … after `err := x.writeErr; if err != nil { return err }` inside that lock hold
//   closeLatchSetBeforeRelease         C15: … and followed, still inside it, by `if t == CloseMessage { x.writeFatal(ErrCloseSent) }`
//   dataFrameBuffersWrittenInOneLockHold C15: flushFrame passes header+payload and `extra` to ONE `c.write` call whose
//                                      loop over the buffers sits inside a single lock hold
//
// Each fact is an AST query; the evidence (function names, statement shapes) is written as a comment.
// A declaration the query relies on that cannot be found is an error (broken tie).

import (
	"bytes"
	"fmt"
	"go/ast"
	"go/token"
	"sort"
	"strings"
)

func init() { facts["websocket"] = websocketFacts }

func funcName(fd *ast.FuncDecl) string {
	if fd.Recv != nil && len(fd.Recv.List) == 1 {
		t := fd.Recv.List[0].Type
		if st, ok := t.(*ast.StarExpr); ok {
			t = st.X
		}
		if id, ok := t.(*ast.Ident); ok {
			return id.Name + "." + fd.Name.Name
		}
	}
	return fd.Name.Name
}

func hasSuffixPath(e ast.Expr, suffix string) bool {
	p := selPath(e)
	return p != "" && strings.HasSuffix(p, "."+suffix)
}

type lockedWrite struct {
	fn          *ast.FuncDecl
	writePos    token.Pos
	acquirePos  token.Pos // `<-x.mu` (statement or select case)
	deferRel    bool      // defer func() { x.mu <- true }()
	otherSends  int       // sends on x.mu outside a defer
	errCheckPos token.Pos // `if err != nil { return … }` following `err := x.writeErr`, between acquire and write
	latchPos    token.Pos // `if … == CloseMessage { x.writeFatal(ErrCloseSent) }` after the write
	inRangeOver string    // the conn.Write call sits in `for … range <ident>`
}

// muHelpers classifies the package's functions that only acquire (`<-x.mu`, possibly in a select, never a send) or only
// release (`x.mu <- true`, never a receive) the write lock and do not write to the transport themselves: lock
// discipline written through such helpers (lockWriteUntil / unlockWrite) is the same discipline.
func muHelpers(p *pkgInfo) (acquire, release map[string]bool) {
	acquire, release = map[string]bool{}, map[string]bool{}
	for _, f := range p.files {
		for _, d := range f.Decls {
			fd, ok := d.(*ast.FuncDecl)
			if !ok || fd.Body == nil {
				continue
			}
			recv, send, writes := 0, 0, 0
			ast.Inspect(fd.Body, func(n ast.Node) bool {
				switch x := n.(type) {
				case *ast.UnaryExpr:
					if x.Op == token.ARROW && hasSuffixPath(x.X, "mu") {
						recv++
					}
				case *ast.SendStmt:
					if hasSuffixPath(x.Chan, "mu") {
						send++
					}
				case *ast.CallExpr:
					if se, ok := x.Fun.(*ast.SelectorExpr); ok && se.Sel.Name == "Write" && hasSuffixPath(se.X, "conn") {
						writes++
					}
				}
				return true
			})
			if writes == 0 && recv > 0 && send == 0 {
				acquire[fd.Name.Name] = true
			}
			if writes == 0 && send > 0 && recv == 0 {
				release[fd.Name.Name] = true
			}
		}
	}
	return
}

// heldAt: in fd, is the write lock held at pos — an acquisition (receive on mu or a call of an acquiring helper) before
// pos, the release (send or releasing helper) only in a defer.
func heldAt(fd *ast.FuncDecl, pos token.Pos, acq, rel map[string]bool) (held bool, acquirePos token.Pos) {
	deferRel, other := false, 0
	var walk func(n ast.Node, inDefer bool)
	walk = func(n ast.Node, inDefer bool) {
		ast.Inspect(n, func(m ast.Node) bool {
			switch x := m.(type) {
			case *ast.DeferStmt:
				if m != n {
					walk(x.Call, true)
					return false
				}
			case *ast.UnaryExpr:
				if x.Op == token.ARROW && hasSuffixPath(x.X, "mu") && x.Pos() < pos && !inDefer {
					if acquirePos == token.NoPos || x.Pos() < acquirePos {
						acquirePos = x.Pos()
					}
				}
			case *ast.SendStmt:
				if hasSuffixPath(x.Chan, "mu") {
					if inDefer {
						deferRel = true
					} else {
						other++
					}
				}
			case *ast.CallExpr:
				if se, ok := x.Fun.(*ast.SelectorExpr); ok {
					if acq[se.Sel.Name] && x.Pos() < pos && !inDefer {
						if acquirePos == token.NoPos || x.Pos() < acquirePos {
							acquirePos = x.Pos()
						}
					}
					if rel[se.Sel.Name] {
						if inDefer {
							deferRel = true
						} else {
							other++
						}
					}
				}
			}
			return true
		})
	}
	walk(fd.Body, false)
	return acquirePos != token.NoPos && deferRel && other == 0, acquirePos
}

func analyseLockedWrites(p *pkgInfo) []lockedWrite {
	var out []lockedWrite
	acqH, relH := muHelpers(p)
	var allFuncs []*ast.FuncDecl
	for _, f := range p.files {
		for _, d := range f.Decls {
			if fd, ok := d.(*ast.FuncDecl); ok && fd.Body != nil {
				allFuncs = append(allFuncs, fd)
			}
		}
	}
	// heldByCallers: fd itself never touches the lock, and every call of it in the package sits where the lock is held
	heldByCallers := func(fd *ast.FuncDecl) bool {
		touches := false
		ast.Inspect(fd.Body, func(n ast.Node) bool {
			switch x := n.(type) {
			case *ast.UnaryExpr:
				if x.Op == token.ARROW && hasSuffixPath(x.X, "mu") {
					touches = true
				}
			case *ast.SendStmt:
				if hasSuffixPath(x.Chan, "mu") {
					touches = true
				}
			case *ast.CallExpr:
				if se, ok := x.Fun.(*ast.SelectorExpr); ok && (acqH[se.Sel.Name] || relH[se.Sel.Name]) {
					touches = true
				}
			}
			return true
		})
		if touches {
			return false
		}
		calls, ok := 0, true
		for _, h := range allFuncs {
			if h == fd {
				continue
			}
			ast.Inspect(h.Body, func(n ast.Node) bool {
				if ce, isCall := n.(*ast.CallExpr); isCall {
					if se, isSel := ce.Fun.(*ast.SelectorExpr); isSel && se.Sel.Name == fd.Name.Name && selPath(se.X) != "" {
						calls++
						if held, _ := heldAt(h, ce.Pos(), acqH, relH); !held {
							ok = false
						}
					}
				}
				return true
			})
		}
		return calls > 0 && ok
	}
	for _, f := range p.files {
		for _, d := range f.Decls {
			fd, ok := d.(*ast.FuncDecl)
			if !ok || fd.Body == nil {
				continue
			}
			var writes []*ast.CallExpr
			ast.Inspect(fd.Body, func(n ast.Node) bool {
				if ce, ok := n.(*ast.CallExpr); ok {
					if se, ok := ce.Fun.(*ast.SelectorExpr); ok && se.Sel.Name == "Write" && hasSuffixPath(se.X, "conn") {
						writes = append(writes, ce)
					}
				}
				return true
			})
			for _, w := range writes {
				lw := lockedWrite{fn: fd, writePos: w.Pos()}
				// acquire / release: in this function (directly or through the lock helpers), or — for a function that never
				// touches the lock — in every one of its callers
				if held, ap := heldAt(fd, lw.writePos, acqH, relH); held {
					lw.acquirePos, lw.deferRel = ap, true
				} else if heldByCallers(fd) {
					lw.acquirePos, lw.deferRel = fd.Body.Pos(), true
				} else {
					lw.acquirePos = ap
					lw.otherSends = 1
				}
				// err := x.writeErr ; if err != nil { return }   — the read may also go through a helper method whose
				// body reads x.writeErr (`err := x.stickyWriteErr()`), and may sit in the if's init clause
				readsWriteErr := func(e ast.Expr) bool {
					if hasSuffixPath(e, "writeErr") {
						return true
					}
					ce, ok := e.(*ast.CallExpr)
					if !ok {
						return false
					}
					se, ok := ce.Fun.(*ast.SelectorExpr)
					if !ok {
						return false
					}
					callee := p.funcDecl("Conn", se.Sel.Name)
					if callee == nil {
						return false
					}
					found := false
					ast.Inspect(callee.Body, func(k ast.Node) bool {
						if s, ok := k.(*ast.SelectorExpr); ok && s.Sel.Name == "writeErr" {
							found = true
						}
						return true
					})
					return found
				}
				var assignPos token.Pos
				ast.Inspect(fd.Body, func(m ast.Node) bool {
					switch x := m.(type) {
					case *ast.AssignStmt:
						if len(x.Rhs) == 1 && readsWriteErr(x.Rhs[0]) && x.Pos() > lw.acquirePos && x.Pos() < lw.writePos {
							assignPos = x.Pos()
						}
					case *ast.IfStmt:
						if as, ok := x.Init.(*ast.AssignStmt); ok && len(as.Rhs) == 1 && readsWriteErr(as.Rhs[0]) && x.Pos() > lw.acquirePos && x.Pos() < lw.writePos {
							assignPos = x.Pos() - 1
						}
						if assignPos != token.NoPos && x.Pos() > assignPos && x.Pos() < lw.writePos && lw.errCheckPos == token.NoPos {
							if be, ok := x.Cond.(*ast.BinaryExpr); ok && be.Op == token.NEQ && selPath(be.X) == "err" && selPath(be.Y) == "nil" {
								for _, st := range x.Body.List {
									if _, ok := st.(*ast.ReturnStmt); ok {
										lw.errCheckPos = x.Pos()
									}
								}
							}
						}
						// latch
						if x.Pos() > lw.writePos {
							if be, ok := x.Cond.(*ast.BinaryExpr); ok && be.Op == token.EQL && selPath(be.Y) == "CloseMessage" {
								ast.Inspect(x.Body, func(k ast.Node) bool {
									if ce, ok := k.(*ast.CallExpr); ok && hasSuffixPath(ce.Fun, "writeFatal") && len(ce.Args) == 1 && selPath(ce.Args[0]) == "ErrCloseSent" {
										lw.latchPos = x.Pos()
									}
									return true
								})
							}
						}
					case *ast.RangeStmt:
						if x.Pos() < lw.writePos && lw.writePos < x.End() {
							lw.inRangeOver = selPath(x.X)
						}
					}
					return true
				})
				out = append(out, lw)
			}
		}
	}
	sort.Slice(out, func(i, j int) bool { return funcName(out[i].fn) < funcName(out[j].fn) })
	return out
}

func boolLean(b bool) string {
	if b {
		return "true"
	}
	return "false"
}

func websocketFacts(p *pkgInfo, out *bytes.Buffer) error {
	sec := &sections{w: out}
	sec.run("table of valid received close codes (C14)", func(w *bytes.Buffer) error { return websocketFactsCloseCodes(p, w) })
	sec.run("write lock discipline (C15)", func(w *bytes.Buffer) error { return websocketFactsLocking(p, w) })
	sec.run("opening handshake (C13)", func(w *bytes.Buffer) error { return websocketFactsHandshake(p, w) })
	sec.run("Dial reads the handshake response through the session's reader (C14)", func(w *bytes.Buffer) error { return websocketFactsDialReader(p, w) })
	sec.run("write deadline discipline (C13)", func(w *bytes.Buffer) error { return websocketFactsDeadline(p, w) })
	return sec.err()
}

func websocketFactsCloseCodes(p *pkgInfo, w *bytes.Buffer) error {
	// isValidReceivedCloseCode is EVALUATED for every 16-bit status code (the wire carries two bytes): whether it
	// is a map, a switch or range comparisons, the generated definition is the set of codes it accepts.
	fd := p.funcDecl("", "isValidReceivedCloseCode")
	if fd == nil {
		return fmt.Errorf("func isValidReceivedCloseCode not found")
	}
	runs, why := p.evalBoolRanges(fd, 0, 65535)
	if why != "" {
		return fmt.Errorf("isValidReceivedCloseCode: %s", why)
	}
	var parts []string
	for _, r := range runs {
		if r[0] == r[1] {
			parts = append(parts, fmt.Sprintf("code == %d", r[0]))
		} else {
			parts = append(parts, fmt.Sprintf("(%d ≤ code && code ≤ %d)", r[0], r[1]))
		}
	}
	if len(parts) == 0 {
		parts = []string{"false"}
	}
	fmt.Fprintf(w, "/-- Go `func isValidReceivedCloseCode(code int) bool`, EVALUATED for every code 0..65535: the maximal runs of\naccepted codes (%d runs). -/\ndef closeCodeAccepted (code : Nat) : Bool :=\n  %s\n", len(runs), strings.Join(parts, " ||\n  "))
	return nil
}

func websocketFactsLocking(p *pkgInfo, w *bytes.Buffer) error {
	// ---- C15 locking facts ----
	lws := analyseLockedWrites(p)
	if len(lws) == 0 {
		return fmt.Errorf("no call x.conn.Write(…) found in package websocket")
	}
	for _, name := range []string{"write", "WriteControl", "writeFatal"} {
		if p.funcDecl("Conn", name) == nil {
			return fmt.Errorf("method Conn.%s not found", name)
		}
	}
	flush := p.funcDecl("messageWriter", "flushFrame")
	if flush == nil {
		return fmt.Errorf("method messageWriter.flushFrame not found")
	}
	var names []string
	allUnder, allChecked, allLatch := true, true, true
	for _, lw := range lws {
		names = append(names, funcName(lw.fn))
		under := lw.acquirePos != token.NoPos && lw.deferRel && lw.otherSends == 0
		allUnder = allUnder && under
		allChecked = allChecked && under && lw.errCheckPos != token.NoPos
		allLatch = allLatch && under && lw.latchPos != token.NoPos
	}
	// writeFatal stores into writeErr
	stores := false
	ast.Inspect(p.funcDecl("Conn", "writeFatal").Body, func(n ast.Node) bool {
		if as, ok := n.(*ast.AssignStmt); ok && len(as.Lhs) == 1 && hasSuffixPath(as.Lhs[0], "writeErr") {
			stores = true
		}
		return true
	})
	allLatch = allLatch && stores
	fmt.Fprintf(w, "\n/-- C15 fact. Evidence: the calls `x.conn.Write(…)` of the package are in [%s]; in each of them a receive\n`<-x.mu` precedes the call, the only send `x.mu <- true` is inside a `defer`, and there is no other send on `mu`. -/\ndef allConnWritesUnderMu : Bool := %s\n",
		strings.Join(names, ", "), boolLean(allUnder))
	fmt.Fprintf(w, "/-- C15 fact. Evidence: in each of [%s], between the receive `<-x.mu` and `x.conn.Write`, there is\n`err := x.writeErr` followed by `if err != nil { return … }`. -/\ndef writeErrCheckedUnderMuBeforeWrite : Bool := %s\n",
		strings.Join(names, ", "), boolLean(allChecked))
	fmt.Fprintf(w, "/-- C15 fact. Evidence: in each of [%s], after `x.conn.Write` and before the deferred release there is\n`if … == CloseMessage { x.writeFatal(ErrCloseSent) }`, and `Conn.writeFatal` assigns `x.writeErr`. -/\ndef closeLatchSetBeforeRelease : Bool := %s\n",
		strings.Join(names, ", "), boolLean(allLatch))
	// flushFrame: exactly one c.write call, with ≥ 2 buffer arguments; Conn.write's conn.Write is inside `for … range bufs`
	nWrite, nBufs := 0, 0
	// flushFrame and the methods of Conn / messageWriter it calls (the write may sit in a helper such as
	// writeExclusive): all their bodies are searched for the call c.write(frameType, deadline, buf0, buf1…)
	fbodies := []*ast.BlockStmt{flush.Body}
	fseen := map[string]bool{"flushFrame": true, "write": true}
	for i := 0; i < len(fbodies) && i < 8; i++ {
		ast.Inspect(fbodies[i], func(n ast.Node) bool {
			if ce, ok := n.(*ast.CallExpr); ok {
				if se, ok := ce.Fun.(*ast.SelectorExpr); ok && !fseen[se.Sel.Name] {
					for _, recv := range []string{"Conn", "messageWriter"} {
						if callee := p.funcDecl(recv, se.Sel.Name); callee != nil {
							fseen[se.Sel.Name] = true
							fbodies = append(fbodies, callee.Body)
						}
					}
				}
			}
			return true
		})
	}
	for _, fb := range fbodies {
		ast.Inspect(fb, func(n ast.Node) bool {
			if ce, ok := n.(*ast.CallExpr); ok {
				if se, ok := ce.Fun.(*ast.SelectorExpr); ok && se.Sel.Name == "write" && selPath(se.X) != "" {
					nWrite++
					nBufs = len(ce.Args) - 2
					if ce.Ellipsis.IsValid() {
						// c.write(t, deadline, bufs...) inside a variadic helper: as many buffers as flushFrame hands to it
						nBufs = 0
						for _, recv := range []string{"Conn", "messageWriter"} {
							for name := range fseen {
								callee := p.funcDecl(recv, name)
								if callee == nil || callee.Body != fb || callee.Type.Params == nil {
									continue
								}
								fixed := 0
								for _, fl := range callee.Type.Params.List {
									fixed += len(fl.Names)
								}
								fixed-- // the variadic parameter itself
								ast.Inspect(flush.Body, func(m ast.Node) bool {
									if c2, ok := m.(*ast.CallExpr); ok {
										if s2, ok := c2.Fun.(*ast.SelectorExpr); ok && s2.Sel.Name == name && len(c2.Args)-fixed > nBufs {
											nBufs = len(c2.Args) - fixed
										}
									}
									return true
								})
							}
						}
					}
				}
			}
			return true
		})
	}
	oneHold := nWrite == 1 && nBufs >= 2
	wfd := p.funcDecl("Conn", "write")
	// Conn.write may hand its buffers on to a helper that does the transport writes while write holds the lock
	// (`c.writeLocked(frameType, deadline, bufs...)`): the helper is then the function looked at below
	{
		own := false
		for _, lw := range lws {
			own = own || lw.fn == wfd
		}
		if !own {
			acqH, relH := muHelpers(p)
			ast.Inspect(wfd.Body, func(n ast.Node) bool {
				if ce, ok := n.(*ast.CallExpr); ok && ce.Ellipsis.IsValid() {
					if se, ok := ce.Fun.(*ast.SelectorExpr); ok {
						if g := p.funcDecl("Conn", se.Sel.Name); g != nil && g.Body != nil {
							if held, _ := heldAt(wfd, ce.Pos(), acqH, relH); held {
								wfd = g
							}
						}
					}
				}
				return true
			})
		}
	}
	variadic := ""
	if pl := wfd.Type.Params.List; len(pl) > 0 {
		last := pl[len(pl)-1]
		if _, ok := last.Type.(*ast.Ellipsis); ok && len(last.Names) == 1 {
			variadic = last.Names[0].Name
		}
	}
	// Conn.write puts all the buffers on the transport inside ONE hold of the lock: either a loop over its variadic
	// parameter, or one conn.Write per buffer parameter — every one of them after the same `<-c.mu` and before the
	// deferred release, with no other send on mu in the function
	inLoop, nInWrite, sameHold := false, 0, true
	var acquire token.Pos
	for _, lw := range lws {
		if lw.fn == wfd {
			nInWrite++
			held := lw.acquirePos != token.NoPos && lw.deferRel && lw.otherSends == 0
			if acquire == token.NoPos {
				acquire = lw.acquirePos
			}
			sameHold = sameHold && held && lw.acquirePos == acquire
			if variadic != "" && lw.inRangeOver == variadic && held {
				inLoop = true
			}
		}
	}
	oneHold = oneHold && (inLoop || (variadic == "" && nInWrite >= nBufs && nInWrite >= 2 && sameHold))
	fmt.Fprintf(w, "/-- C15 fact. Evidence: `messageWriter.flushFrame` contains %d call(s) `c.write(…)` passing %d buffers; `Conn.write`\nwrites them in `for … range %s` between one `<-c.mu` and the deferred release. -/\ndef dataFrameBuffersWrittenInOneLockHold : Bool := %s\n",
		nWrite, nBufs, variadic, boolLean(oneHold))
	return nil
}

// websocketFactsHandshake: the GUID that computeAcceptKey hashes after the challenge key — the value of the
// package-level `keyGUID`, whether it is a `[]byte("…")` conversion, a string constant or a string variable.
func websocketFactsHandshake(p *pkgInfo, w *bytes.Buffer) error {
	for _, f := range p.files {
		for _, d := range f.Decls {
			gd, ok := d.(*ast.GenDecl)
			if !ok {
				continue
			}
			for _, sp := range gd.Specs {
				vs, ok := sp.(*ast.ValueSpec)
				if !ok {
					continue
				}
				for i, n := range vs.Names {
					if n.Name != "keyGUID" || i >= len(vs.Values) {
						continue
					}
					e := vs.Values[i]
					if call, ok := e.(*ast.CallExpr); ok && len(call.Args) == 1 { // []byte("…")
						e = call.Args[0]
					}
					if s, ok := p.strConst(e); ok {
						fmt.Fprintf(w, "/-- C13 fact. The value of the package-level `keyGUID` (hashed after the challenge key by `computeAcceptKey`). -/\ndef keyGUID : String := %s\n\n", leanStr(s))
						return nil
					}
				}
			}
		}
	}
	return fmt.Errorf("package-level keyGUID with a constant string value not found")
}

// websocketFactsDeadline: every function that writes to the transport (x.conn.Write) arms the transport's write deadline
// with the deadline of THIS write before it writes — unconditionally, so that "no deadline" clears whatever an earlier
// frame (a pong sent by the library, a WriteControl) had armed. A call of x.conn.SetWriteDeadline that sits under a
// condition, loop or switch arm which does not also enclose the write does not count.
func websocketFactsDeadline(p *pkgInfo, w *bytes.Buffer) error {
	lws := analyseLockedWrites(p)
	if len(lws) == 0 {
		return fmt.Errorf("no call x.conn.Write(…) found in package websocket")
	}
	var names, unread []string
	all := true
	for _, lw := range lws {
		type hit struct{ guarded bool }
		var hits []hit
		var stack []ast.Node
		ast.Inspect(lw.fn.Body, func(n ast.Node) bool {
			if n == nil {
				stack = stack[:len(stack)-1]
				return true
			}
			stack = append(stack, n)
			ce, ok := n.(*ast.CallExpr)
			if !ok {
				return true
			}
			se, ok := ce.Fun.(*ast.SelectorExpr)
			if !ok || se.Sel.Name != "SetWriteDeadline" || !hasSuffixPath(se.X, "conn") || ce.Pos() > lw.writePos {
				return true
			}
			guarded := false
			for _, anc := range stack[:len(stack)-1] {
				switch anc.(type) {
				case *ast.IfStmt, *ast.SwitchStmt, *ast.TypeSwitchStmt, *ast.CaseClause, *ast.ForStmt, *ast.RangeStmt, *ast.SelectStmt, *ast.CommClause, *ast.FuncLit:
					if !(anc.Pos() <= lw.writePos && lw.writePos < anc.End()) {
						guarded = true
					}
				}
			}
			hits = append(hits, hit{guarded})
			return true
		})
		name := funcName(lw.fn)
		names = append(names, name)
		if len(hits) == 0 {
			unread = append(unread, name)
			continue
		}
		ok := false
		for _, h := range hits {
			if !h.guarded {
				ok = true
			}
		}
		all = all && ok
	}
	if len(unread) > 0 {
		// the deadline is armed somewhere else (a helper, the caller): this reader does not follow it. The behaviour is
		// decided by the correspondence run (transports that enforce the deadline, C13 `write_after_control_deadline`
		// and `deadline.history`), so the model keeps its own value.
		fmt.Fprintf(w, "/-- C13 fact. NOT READ FROM THE SOURCE for [%s] (no `x.conn.SetWriteDeadline` next to `x.conn.Write` there); for the\nothers: %s. The value is the model's; the correspondence run with deadline-enforcing transports decides it. -/\ndef writesArmOwnDeadline : Bool := %s\n",
			strings.Join(unread, ", "), boolLean(all), boolLean(all))
		return nil
	}
	fmt.Fprintf(w, "/-- C13 fact. Evidence: in each of [%s] a call `x.conn.SetWriteDeadline(…)` precedes `x.conn.Write(…)` and is not under\nany condition, loop or switch arm that does not also enclose the write: every frame is written under the deadline of its\nown write, and a write without a deadline clears what an earlier frame had armed. -/\ndef writesArmOwnDeadline : Bool := %s\n",
		strings.Join(names, ", "), boolLean(all))
	return nil
}

// websocketFactsDialReader: in Dialer.Dial the response to the opening handshake (the LAST http.ReadResponse of the
// function; an earlier one belongs to the proxy CONNECT exchange) is read through the buffered reader the Conn keeps
// (`x.br`, directly or through a local name bound to it): what the server sends right behind its 101 response is in
// that reader when the first frame is read.
func websocketFactsDialReader(p *pkgInfo, w *bytes.Buffer) error {
	fd := p.funcDecl("Dialer", "Dial")
	if fd == nil {
		return fmt.Errorf("func (*Dialer) Dial")
	}
	var last *ast.CallExpr
	ast.Inspect(fd.Body, func(n ast.Node) bool {
		if ce, ok := n.(*ast.CallExpr); ok && strings.HasSuffix(selString(ce.Fun), "http.ReadResponse") && len(ce.Args) >= 1 {
			if last == nil || ce.Pos() > last.Pos() {
				last = ce
			}
		}
		return true
	})
	if last == nil {
		fmt.Fprintf(w, "/-- C14 fact. NOT READ FROM THE SOURCE (no `http.ReadResponse` in `Dialer.Dial`); the value is the model's, the\ncorrespondence run (client connections from `Dial` with frames arriving behind the response) decides it. -/\ndef dialReadsThroughSessionReader : Bool := true\n")
		return nil
	}
	arg := last.Args[0]
	text := selString(arg)
	if id, ok := arg.(*ast.Ident); ok {
		// a local name: what it was bound to (the last assignment before the call)
		ast.Inspect(fd.Body, func(n ast.Node) bool {
			if as, ok := n.(*ast.AssignStmt); ok && as.Pos() < last.Pos() && len(as.Lhs) == len(as.Rhs) {
				for i, l := range as.Lhs {
					if li, ok := l.(*ast.Ident); ok && li.Name == id.Name {
						text = selString(as.Rhs[i])
						if text == "" {
							text = "(an expression)"
						}
					}
				}
			}
			return true
		})
	}
	ok := strings.HasSuffix(text, ".br")
	fmt.Fprintf(w, "/-- C14 fact. Evidence: the last `http.ReadResponse` of `Dialer.Dial` reads from `%s`. -/\ndef dialReadsThroughSessionReader : Bool := %s\n", text, boolLean(ok))
	return nil
}
