package main

import (
	"bytes"
	"fmt"
	"go/ast"
	"go/token"
	"strings"
)

// Structural facts of rtmp/rtmp.go (no line numbers; evidence in comments).

func init() { facts["rtmp"] = rtmpFacts }

func selString(e ast.Expr) string {
	switch x := e.(type) {
	case *ast.Ident:
		return x.Name
	case *ast.SelectorExpr:
		return selString(x.X) + "." + x.Sel.Name
	case *ast.IndexExpr:
		return selString(x.X) + "[]"
	case *ast.ParenExpr:
		return selString(x.X)
	case *ast.StarExpr:
		return selString(x.X)
	}
	return "?"
}

// firstPos returns the position of the first node under root satisfying pred (token.NoPos if none).
func firstPos(root ast.Node, pred func(ast.Node) bool) token.Pos {
	pos := token.NoPos
	ast.Inspect(root, func(n ast.Node) bool {
		if n == nil || pos != token.NoPos {
			return false
		}
		if pred(n) {
			pos = n.Pos()
			return false
		}
		return true
	})
	return pos
}

func isCallTo(n ast.Node, suffix string) bool {
	c, ok := n.(*ast.CallExpr)
	return ok && strings.HasSuffix(selString(c.Fun), suffix)
}

func rtmpFacts(p *pkgInfo, w *bytes.Buffer) error {
	// 1. WriteMessage assigns the output chunk size (the writer follows its own Set Chunk Size).
	wm := p.funcDecl("Protocol", "WriteMessage")
	if wm == nil {
		return fmt.Errorf("func (*Protocol) WriteMessage")
	}
	follows := firstPos(wm.Body, func(n ast.Node) bool {
		as, ok := n.(*ast.AssignStmt)
		if !ok {
			return false
		}
		for _, l := range as.Lhs {
			if strings.HasSuffix(selString(l), "output.opt.chunkSize") {
				return true
			}
		}
		return false
	}) != token.NoPos
	// it must also be guarded by the message type being Set Chunk Size
	guarded := firstPos(wm.Body, func(n ast.Node) bool {
		be, ok := n.(*ast.BinaryExpr)
		return ok && be.Op == token.EQL && (selString(be.Y) == "MessageTypeSetChunkSize" || selString(be.X) == "MessageTypeSetChunkSize")
	}) != token.NoPos
	fmt.Fprintf(w, "/-- `WriteMessage` assigns `output.opt.chunkSize` (%v) under a `== MessageTypeSetChunkSize` test (%v). -/\ndef writerFollowsOwnSetChunkSize : Bool := %v\n",
		follows, guarded, follows && guarded)

	// 2. WritePacket: is the transaction registered before the message can reach the transport?
	wp := p.funcDecl("Protocol", "WritePacket")
	if wp == nil {
		return fmt.Errorf("func (*Protocol) WritePacket")
	}
	posWrite := firstPos(wp.Body, func(n ast.Node) bool { return isCallTo(n, ".WriteMessage") })
	posReg := firstPos(wp.Body, func(n ast.Node) bool { return isCallTo(n, ".onPacketWriten") })
	if posWrite == token.NoPos || posReg == token.NoPos {
		return fmt.Errorf("WritePacket: calls to WriteMessage / onPacketWriten")
	}
	order := "writeThenRegister"
	if posReg < posWrite {
		order = "registerThenWrite"
	}
	fmt.Fprintf(w, "inductive TxnOrder | registerThenWrite | writeThenRegister\n  deriving DecidableEq, Repr\n")
	fmt.Fprintf(w, "/-- In `WritePacket`, the first call of `onPacketWriten` (stores into `input.transactions`) comes %s the first call of `WriteMessage`. -/\ndef txnOrder : TxnOrder := .%s\n",
		map[bool]string{true: "before", false: "after"}[posReg < posWrite], order)

	// 3. onPacketWriten stores into the map under the mutex.
	opw := p.funcDecl("Protocol", "onPacketWriten")
	if opw == nil {
		return fmt.Errorf("func (*Protocol) onPacketWriten")
	}
	posLock := firstPos(opw.Body, func(n ast.Node) bool { return isCallTo(n, "ltransactions.Lock") })
	posStore := firstPos(opw.Body, func(n ast.Node) bool {
		as, ok := n.(*ast.AssignStmt)
		if !ok {
			return false
		}
		for _, l := range as.Lhs {
			if strings.HasSuffix(selString(l), "input.transactions[]") {
				return true
			}
		}
		return false
	})
	regLocked := posLock != token.NoPos && posStore != token.NoPos && posLock < posStore
	fmt.Fprintf(w, "/-- `onPacketWriten` takes `ltransactions.Lock()` before storing into `input.transactions`. -/\ndef txnRegisterUnderLock : Bool := %v\n", regLocked)

	// 4. parseAMFObject: lookup and delete inside one function literal that locks first.
	pa := p.funcDecl("Protocol", "parseAMFObject")
	if pa == nil {
		return fmt.Errorf("func (*Protocol) parseAMFObject")
	}
	oneLock := false
	ast.Inspect(pa.Body, func(n ast.Node) bool {
		fl, ok := n.(*ast.FuncLit)
		if !ok {
			return true
		}
		l := firstPos(fl.Body, func(n ast.Node) bool { return isCallTo(n, "ltransactions.Lock") })
		look := firstPos(fl.Body, func(n ast.Node) bool {
			ix, ok := n.(*ast.IndexExpr)
			return ok && strings.HasSuffix(selString(ix.X), "input.transactions")
		})
		del := firstPos(fl.Body, func(n ast.Node) bool {
			c, ok := n.(*ast.CallExpr)
			if !ok || selString(c.Fun) != "delete" || len(c.Args) != 2 {
				return false
			}
			return strings.HasSuffix(selString(c.Args[0]), "input.transactions")
		})
		unlockDeferred := firstPos(fl.Body, func(n ast.Node) bool {
			d, ok := n.(*ast.DeferStmt)
			return ok && isCallTo(d.Call, "ltransactions.Unlock")
		})
		if l != token.NoPos && look != token.NoPos && del != token.NoPos && unlockDeferred != token.NoPos && l < look && look < del {
			oneLock = true
		}
		return true
	})
	fmt.Fprintf(w, "/-- `parseAMFObject` looks the transaction up and deletes it inside one function literal that locks first and unlocks by defer. -/\ndef txnLookupDeleteUnderOneLock : Bool := %v\n", oneLock)

	// 5. no other function touches input.transactions
	var others []string
	for _, f := range p.files {
		for _, d := range f.Decls {
			fd, ok := d.(*ast.FuncDecl)
			if !ok || fd.Body == nil {
				continue
			}
			switch fd.Name.Name {
			case "onPacketWriten", "parseAMFObject", "NewProtocol":
				continue
			}
			if firstPos(fd.Body, func(n ast.Node) bool {
				se, ok := n.(*ast.SelectorExpr)
				return ok && se.Sel.Name == "transactions"
			}) != token.NoPos {
				others = append(others, fd.Name.Name)
			}
		}
	}
	fmt.Fprintf(w, "/-- Functions other than onPacketWriten / parseAMFObject / NewProtocol that mention `transactions`. -/\ndef txnOtherAccessors : List String := [%s]\n", quoteAll(others))
	return nil
}
