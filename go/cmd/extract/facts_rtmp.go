package main

import (
	"regexp"
	"bytes"
	"fmt"
	"go/ast"
	"go/constant"
	"go/printer"
	"go/token"
	"go/types"
	"sort"
	"strings"
)

// Structural facts of rtmp/rtmp.go (no line numbers; evidence in comments).

func init() { facts["rtmp"] = rtmpFacts }

func selString(e ast.Expr) string {
	switch x := e.(type) {
	case *ast.Ident:
		return x.Name
	case *ast.SelectorExpr:
		return selString(x.X) + "." + x.Sel.Name
	case *ast.IndexExpr:
		return selString(x.X) + "[]"
	case *ast.ParenExpr:
		return selString(x.X)
	case *ast.StarExpr:
		return selString(x.X)
	}
	return "?"
}

// firstPos returns the position of the first node under root satisfying pred (token.NoPos if none).
func firstPos(root ast.Node, pred func(ast.Node) bool) token.Pos {
	pos := token.NoPos
	ast.Inspect(root, func(n ast.Node) bool {
		if n == nil || pos != token.NoPos {
			return false
		}
		if pred(n) {
			pos = n.Pos()
			return false
		}
		return true
	})
	return pos
}

func isCallTo(n ast.Node, suffix string) bool {
	c, ok := n.(*ast.CallExpr)
	return ok && strings.HasSuffix(selString(c.Fun), suffix)
}

func rtmpFacts(p *pkgInfo, out *bytes.Buffer) error {
	sec := &sections{w: out}
	sec.run("WriteMessage follows its own Set Chunk Size (C01)", func(w *bytes.Buffer) error { return rtmpFactsWriter(p, w) })
	sec.run("transaction bookkeeping order and locking (C04)", func(w *bytes.Buffer) error { return rtmpFactsTxn(p, w) })
	sec.run("DecodeMessage leaves the reader's settings alone (C02)", func(w *bytes.Buffer) error { return rtmpFactsDecodePure(p, w) })
	sec.run("Expect* hand a failed read straight back (C08)", func(w *bytes.Buffer) error { return rtmpFactsExpect(p, w) })
	return sec.err()
}

func rtmpFactsWriter(p *pkgInfo, w *bytes.Buffer) error {
	// 1. WriteMessage assigns the output chunk size (the writer follows its own Set Chunk Size).
	wm := p.funcDecl("Protocol", "WriteMessage")
	if wm == nil {
		return fmt.Errorf("func (*Protocol) WriteMessage")
	}
	// WriteMessage together with the methods of Protocol it calls (the update may sit in a helper such as
	// onMessageWriten): all their bodies are searched
	bodies := []ast.Node{wm.Body}
	seen := map[string]bool{"WriteMessage": true}
	for i := 0; i < len(bodies) && i < 8; i++ {
		ast.Inspect(bodies[i], func(n ast.Node) bool {
			if ce, ok := n.(*ast.CallExpr); ok {
				if se, ok := ce.Fun.(*ast.SelectorExpr); ok && !seen[se.Sel.Name] {
					if callee := p.funcDecl("Protocol", se.Sel.Name); callee != nil {
						seen[se.Sel.Name] = true
						bodies = append(bodies, callee.Body)
					}
				}
			}
			return true
		})
	}
	anyBody := func(pred func(ast.Node) bool) bool {
		for _, b := range bodies {
			if firstPos(b, pred) != token.NoPos {
				return true
			}
		}
		return false
	}
	follows := anyBody(func(n ast.Node) bool {
		as, ok := n.(*ast.AssignStmt)
		if !ok {
			return false
		}
		for _, l := range as.Lhs {
			if strings.HasSuffix(selString(l), "output.opt.chunkSize") {
				return true
			}
		}
		return false
	})
	// it must also be guarded by the message type being Set Chunk Size
	guarded := anyBody(func(n ast.Node) bool {
		// `== MessageTypeSetChunkSize` around the update, `!= MessageTypeSetChunkSize` with an early return before
		// it, or a switch arm for it
		if cc, ok := n.(*ast.CaseClause); ok {
			for _, e := range cc.List {
				if selString(e) == "MessageTypeSetChunkSize" {
					return true
				}
			}
		}
		be, ok := n.(*ast.BinaryExpr)
		return ok && (be.Op == token.EQL || be.Op == token.NEQ) && (selString(be.Y) == "MessageTypeSetChunkSize" || selString(be.X) == "MessageTypeSetChunkSize")
	})
	fmt.Fprintf(w, "/-- `WriteMessage` assigns `output.opt.chunkSize` (%v) under a `== MessageTypeSetChunkSize` test (%v). -/\ndef writerFollowsOwnSetChunkSize : Bool := %v\n",
		follows, guarded, follows && guarded)
	return nil
}

func rtmpFactsTxn(p *pkgInfo, w *bytes.Buffer) error {
	// 2. WritePacket: is the transaction registered before the message can reach the transport?
	wp := p.funcDecl("Protocol", "WritePacket")
	if wp == nil {
		return fmt.Errorf("func (*Protocol) WritePacket")
	}
	posWrite := firstPos(wp.Body, func(n ast.Node) bool { return isCallTo(n, ".WriteMessage") })
	posReg := firstPos(wp.Body, func(n ast.Node) bool { return isCallTo(n, ".onPacketWriten") })
	if posWrite == token.NoPos || posReg == token.NoPos {
		return fmt.Errorf("WritePacket: calls to WriteMessage / onPacketWriten")
	}
	order := "writeThenRegister"
	if posReg < posWrite {
		order = "registerThenWrite"
	}
	fmt.Fprintf(w, "inductive TxnOrder | registerThenWrite | writeThenRegister\n  deriving DecidableEq, Repr\n")
	fmt.Fprintf(w, "/-- In `WritePacket`, the first call of `onPacketWriten` (stores into `input.transactions`) comes %s the first call of `WriteMessage`. -/\ndef txnOrder : TxnOrder := .%s\n",
		map[bool]string{true: "before", false: "after"}[posReg < posWrite], order)

	// 3. onPacketWriten stores into the map under the mutex.
	opw := p.funcDecl("Protocol", "onPacketWriten")
	if opw == nil {
		return fmt.Errorf("func (*Protocol) onPacketWriten")
	}
	posLock := firstPos(opw.Body, func(n ast.Node) bool { return isCallTo(n, "ltransactions.Lock") })
	posStore := firstPos(opw.Body, func(n ast.Node) bool {
		as, ok := n.(*ast.AssignStmt)
		if !ok {
			return false
		}
		for _, l := range as.Lhs {
			if strings.HasSuffix(selString(l), "input.transactions[]") {
				return true
			}
		}
		return false
	})
	regLocked := posLock != token.NoPos && posStore != token.NoPos && posLock < posStore
	fmt.Fprintf(w, "/-- `onPacketWriten` takes `ltransactions.Lock()` before storing into `input.transactions`. -/\ndef txnRegisterUnderLock : Bool := %v\n", regLocked)

	// 4. parseAMFObject: lookup and delete inside one function literal that locks first.
	pa := p.funcDecl("Protocol", "parseAMFObject")
	if pa == nil {
		return fmt.Errorf("func (*Protocol) parseAMFObject")
	}
	oneLock := false
	lookupHelpers := map[string]bool{}
	// the bodies to look at: the function literals inside parseAMFObject and the methods of the same receiver it calls
	// (the lookup may be a closure or a helper method)
	type lbody struct {
		name string
		body *ast.BlockStmt
	}
	var bodies []lbody
	ast.Inspect(pa.Body, func(n ast.Node) bool {
		switch x := n.(type) {
		case *ast.FuncLit:
			bodies = append(bodies, lbody{"", x.Body})
		case *ast.CallExpr:
			if se, ok := x.Fun.(*ast.SelectorExpr); ok {
				if fd := p.funcDecl("Protocol", se.Sel.Name); fd != nil && fd.Body != nil && fd.Name.Name != "parseAMFObject" {
					bodies = append(bodies, lbody{fd.Name.Name, fd.Body})
				}
			}
		}
		return true
	})
	for _, lb := range bodies {
		fl := lb
		l := firstPos(fl.body, func(n ast.Node) bool { return isCallTo(n, "ltransactions.Lock") })
		look := firstPos(fl.body, func(n ast.Node) bool {
			ix, ok := n.(*ast.IndexExpr)
			return ok && strings.HasSuffix(selString(ix.X), "input.transactions")
		})
		del := firstPos(fl.body, func(n ast.Node) bool {
			c, ok := n.(*ast.CallExpr)
			if !ok || selString(c.Fun) != "delete" || len(c.Args) != 2 {
				return false
			}
			return strings.HasSuffix(selString(c.Args[0]), "input.transactions")
		})
		unlockDeferred := firstPos(fl.body, func(n ast.Node) bool {
			d, ok := n.(*ast.DeferStmt)
			return ok && isCallTo(d.Call, "ltransactions.Unlock")
		})
		if l != token.NoPos && look != token.NoPos && del != token.NoPos && unlockDeferred != token.NoPos && l < look && look < del {
			oneLock = true
			if fl.name != "" {
				lookupHelpers[fl.name] = true
			}
		}
	}
	fmt.Fprintf(w, "/-- `parseAMFObject` looks the transaction up and deletes it inside one function literal that locks first and unlocks by defer. -/\ndef txnLookupDeleteUnderOneLock : Bool := %v\n", oneLock)

	// 5. no other function touches input.transactions
	var others []string
	for _, f := range p.files {
		for _, d := range f.Decls {
			fd, ok := d.(*ast.FuncDecl)
			if !ok || fd.Body == nil {
				continue
			}
			switch fd.Name.Name {
			case "onPacketWriten", "parseAMFObject", "NewProtocol":
				continue
			}
			if lookupHelpers[fd.Name.Name] {
				continue // the lookup-and-delete itself, written as a method that parseAMFObject calls
			}
			if firstPos(fd.Body, func(n ast.Node) bool {
				se, ok := n.(*ast.SelectorExpr)
				return ok && se.Sel.Name == "transactions"
			}) != token.NoPos {
				others = append(others, fd.Name.Name)
			}
		}
	}
	fmt.Fprintf(w, "/-- Functions other than onPacketWriten / parseAMFObject / NewProtocol that mention `transactions`. -/\ndef txnOtherAccessors : List String := [%s]\n", quoteAll(others))
	return nil
}

// ---------------------------------------------------------------------------
// Packet layer (C03): command names as bytes, BetterCid()/Type() of every packet type,
// the switch arms of DecodeMessage / parseAMFObject / onPacketWriten as tables.

func init() {
	prev := facts["rtmp"]
	facts["rtmp"] = func(p *pkgInfo, w *bytes.Buffer) error {
		sec := &sections{w: w}
		sec.run("chunk layer", func(b *bytes.Buffer) error { return prev(p, b) })
		w.WriteString("\n")
		sec.run("packet layer: constructors, dispatch tables, registration (C03)", func(b *bytes.Buffer) error { return rtmpPacketFacts(p, b) })
		return sec.err()
	}
}

// declOfFunc finds the declaration of a method object.
func (p *pkgInfo) declOfFunc(obj types.Object) *ast.FuncDecl {
	for _, f := range p.files {
		for _, d := range f.Decls {
			if fd, ok := d.(*ast.FuncDecl); ok && p.info.Defs[fd.Name] == obj {
				return fd
			}
		}
	}
	return nil
}

// constReturn: the body is exactly `return <constant>`.
func (p *pkgInfo) constReturn(fd *ast.FuncDecl) (val, src string, ok bool) {
	if fd == nil || fd.Body == nil || len(fd.Body.List) != 1 {
		return "", "", false
	}
	ret, isRet := fd.Body.List[0].(*ast.ReturnStmt)
	if !isRet || len(ret.Results) != 1 {
		return "", "", false
	}
	v, _, good := p.constOf(ret.Results[0])
	return v, selString(ret.Results[0]), good
}

// armOutcome classifies the body of one switch arm.
func armOutcome(body []ast.Stmt) string {
	out := ""
	// an arm containing a nested switch: transaction lookup, then dispatch on the request name
	for _, st := range body {
		ast.Inspect(st, func(n ast.Node) bool {
			if _, ok := n.(*ast.SwitchStmt); ok {
				out = "response"
			}
			return out == ""
		})
	}
	if out != "" {
		return out
	}
	for _, st := range body {
		ast.Inspect(st, func(n ast.Node) bool {
			if out != "" || n == nil {
				return false
			}
			switch x := n.(type) {
			case *ast.CallExpr:
				name := selString(x.Fun)
				if strings.HasSuffix(name, ".parseAMFObject") {
					out = "parseAMFObject"
				} else if id, ok := x.Fun.(*ast.Ident); ok && strings.HasPrefix(id.Name, "New") {
					out = id.Name
				}
			case *ast.AssignStmt:
				if len(x.Lhs) == 1 && len(x.Rhs) == 1 {
					if se, ok := x.Rhs[0].(*ast.SliceExpr); ok && se.High == nil && se.Low != nil {
						if lit, ok := se.Low.(*ast.BasicLit); ok && lit.Value == "1" && selString(x.Lhs[0]) == selString(se.X) {
							out = "skipOneByte"
						}
					}
				}
			case *ast.ReturnStmt:
				if len(x.Results) > 0 {
					if id, ok := x.Results[0].(*ast.Ident); ok && id.Name == "nil" {
						out = "rejected"
					}
				}
			}
			return out == ""
		})
		if out != "" {
			return out
		}
	}
	return out
}

type swArm struct {
	keys    []string // constant values (Lean terms)
	outcome string
}

// switchArms reads a `switch tag { case consts: … }` with constant cases. strKeys: keys are strings, rendered as byte lists.
func (p *pkgInfo) switchArms(sw *ast.SwitchStmt, strKeys bool) (arms []swArm, def string, err error) {
	def = ""
	for _, cc := range sw.Body.List {
		c := cc.(*ast.CaseClause)
		o := armOutcome(c.Body)
		if o == "" {
			return nil, "", fmt.Errorf("switch on %s: unrecognised arm body", selString(sw.Tag))
		}
		if c.List == nil {
			def = o
			continue
		}
		var keys []string
		for _, e := range c.List {
			tv, ok := p.info.Types[e]
			if !ok || tv.Value == nil {
				return nil, "", fmt.Errorf("switch on %s: non-constant case", selString(sw.Tag))
			}
			if strKeys {
				if tv.Value.Kind() != constant.String {
					return nil, "", fmt.Errorf("switch on %s: case is not a string constant", selString(sw.Tag))
				}
				keys = append(keys, leanBytes(constant.StringVal(tv.Value)))
			} else {
				t, _ := constVal(tv.Value)
				keys = append(keys, t)
			}
		}
		arms = append(arms, swArm{keys, o})
	}
	return
}

func emitArmTable(w *bytes.Buffer, doc, fn, argName, argTy string, arms []swArm, def string) {
	fmt.Fprintf(w, "/-- %s -/\ndef %s (%s : %s) : Ctor :=\n", doc, fn, argName, argTy)
	for _, a := range arms {
		conds := make([]string, len(a.keys))
		for i, k := range a.keys {
			conds[i] = argName + " = " + k
		}
		fmt.Fprintf(w, "  if %s then .%s else\n", strings.Join(conds, " ∨ "), leanName(a.outcome))
	}
	fmt.Fprintf(w, "  .%s\n", leanName(def))
}

// switchesOn returns the switch statements of fd (outermost first, nested included) whose tag prints as tag.
func switchesOn(fd *ast.FuncDecl, tag string) []*ast.SwitchStmt {
	var out []*ast.SwitchStmt
	ast.Inspect(fd.Body, func(n ast.Node) bool {
		if s, ok := n.(*ast.SwitchStmt); ok && s.Tag != nil && selString(s.Tag) == tag {
			out = append(out, s)
		}
		return true
	})
	return out
}

func rtmpPacketFacts(p *pkgInfo, w *bytes.Buffer) error {
	// A. command names as byte strings (the model compares amf0 strings byte-wise)
	var cmds []string
	for _, f := range p.files {
		for _, d := range f.Decls {
			gd, ok := d.(*ast.GenDecl)
			if !ok || gd.Tok != token.CONST {
				continue
			}
			for _, sp := range gd.Specs {
				for _, id := range sp.(*ast.ValueSpec).Names {
					obj, ok := p.info.Defs[id].(*types.Const)
					if !ok || !strings.HasPrefix(id.Name, "command") || obj.Val().Kind() != constant.String {
						continue
					}
					cmds = append(cmds, fmt.Sprintf("/-- bytes of Go const `%s` = %s -/\ndef %sBytes : List UInt8 := %s\n",
						id.Name, leanStr(constant.StringVal(obj.Val())), id.Name, leanBytes(constant.StringVal(obj.Val()))))
				}
			}
		}
	}
	if len(cmds) == 0 {
		return fmt.Errorf("command name constants")
	}
	sort.Strings(cmds)
	for _, c := range cmds {
		w.WriteString(c)
	}

	// B. BetterCid()/Type() of every struct type that has both (own or promoted from an embedded struct)
	var tnames []string
	scope := p.pkg.Scope()
	for _, n := range scope.Names() {
		tn, ok := scope.Lookup(n).(*types.TypeName)
		if !ok {
			continue
		}
		if _, ok := tn.Type().Underlying().(*types.Struct); !ok {
			continue
		}
		tnames = append(tnames, n)
	}
	sort.Strings(tnames)
	var packetTypes []string
	for _, n := range tnames {
		T := scope.Lookup(n).Type()
		ms := types.NewMethodSet(types.NewPointer(T))
		sc, st := ms.Lookup(p.pkg, "BetterCid"), ms.Lookup(p.pkg, "Type")
		if sc == nil || st == nil {
			continue
		}
		for _, m := range []struct {
			sel  *types.Selection
			name string
		}{{sc, "BetterCid"}, {st, "Type"}} {
			fd := p.declOfFunc(m.sel.Obj())
			val, src, ok := p.constReturn(fd)
			if !ok {
				return fmt.Errorf("(*%s).%s is not `return <constant>`", n, m.name)
			}
			recv := "?"
			if fd.Recv != nil && len(fd.Recv.List) == 1 {
				recv = selString(fd.Recv.List[0].Type)
			}
			fmt.Fprintf(w, "/-- Go `(*%s).%s()` (declared on `%s`) returns `%s`. -/\ndef %s_%s : Nat := %s\n", n, m.name, recv, src, n, m.name, val)
		}
		packetTypes = append(packetTypes, n)
	}
	if len(packetTypes) == 0 {
		return fmt.Errorf("no type with BetterCid() and Type()")
	}
	fmt.Fprintf(w, "/-- Struct types that have `BetterCid()` and `Type()`. -/\ndef packetTypes : List String := [%s]\n", quoteAll(packetTypes))

	// C. DecodeMessage: the two switches on m.MessageType
	dm := p.funcDecl("Protocol", "DecodeMessage")
	if dm == nil {
		return fmt.Errorf("func (*Protocol) DecodeMessage")
	}
	// the switches on the message type — in DecodeMessage itself or in the helpers of the package it calls (the
	// dispatch may be split into `packetBytes` / `discoverPacket`), recognised by the TYPE of the tag
	var sws []*ast.SwitchStmt
	seenFn := map[*ast.FuncDecl]bool{}
	var collect func(fd *ast.FuncDecl, depth int)
	collect = func(fd *ast.FuncDecl, depth int) {
		if fd == nil || fd.Body == nil || seenFn[fd] || depth > 2 {
			return
		}
		seenFn[fd] = true
		ast.Inspect(fd.Body, func(n ast.Node) bool {
			switch x := n.(type) {
			case *ast.SwitchStmt:
				if x.Tag != nil {
					if tv, ok := p.info.Types[x.Tag]; ok && tv.Type != nil && strings.HasSuffix(tv.Type.String(), ".MessageType") {
						sws = append(sws, x)
					}
				}
			case *ast.CallExpr:
				var obj types.Object
				switch f := x.Fun.(type) {
				case *ast.SelectorExpr:
					obj = p.info.Uses[f.Sel]
				case *ast.Ident:
					obj = p.info.Uses[f]
				}
				if fn, ok := obj.(*types.Func); ok && fn.Pkg() == p.pkg && fn.Name() != "parseAMFObject" {
					collect(p.declOfFunc(fn), depth+1)
				}
			}
			return true
		})
	}
	collect(dm, 0)
	var skip []string
	var ctorArms []swArm
	ctorDef := ""
	nCtor := 0
	for _, sw := range sws {
		arms, def, err := p.switchArms(sw, false)
		if err != nil {
			return err
		}
		isSkip := len(arms) > 0
		for _, a := range arms {
			if a.outcome != "skipOneByte" {
				isSkip = false
			}
		}
		if isSkip && def == "" {
			for _, a := range arms {
				skip = append(skip, a.keys...)
			}
			continue
		}
		if def == "" {
			return fmt.Errorf("DecodeMessage: dispatch switch without default")
		}
		ctorArms, ctorDef = arms, def
		nCtor++
	}
	if nCtor != 1 {
		return fmt.Errorf("DecodeMessage: expected one dispatch switch on m.MessageType, found %d", nCtor)
	}
	conds := make([]string, len(skip))
	for i, k := range skip {
		conds[i] = "t = " + k
	}
	if len(conds) == 0 {
		conds = []string{"False"}
	}
	fmt.Fprintf(w, "/-- Go `DecodeMessage`: message types for which the payload is advanced by one byte (`p = p[1:]`) before decoding. -/\ndef decodeMessageSkipsOneByte (t : Nat) : Bool := decide (%s)\n", strings.Join(conds, " ∨ "))
	// D. parseAMFObject: outer switch on the command name, inner switch on the request name
	pa := p.funcDecl("Protocol", "parseAMFObject")
	if pa == nil {
		return fmt.Errorf("func (*Protocol) parseAMFObject")
	}
	outer, inner := switchesOn(pa, "commandName"), switchesOn(pa, "requestName")
	if len(outer) != 1 || len(inner) != 1 {
		return fmt.Errorf("parseAMFObject: switch on commandName / requestName")
	}
	oa, od, err := p.switchArms(outer[0], true)
	if err != nil {
		return err
	}
	if od == "" {
		return fmt.Errorf("parseAMFObject: switch on commandName without default")
	}
	ia, id, err := p.switchArms(inner[0], true)
	if err != nil {
		return err
	}
	if id == "" {
		return fmt.Errorf("parseAMFObject: switch on requestName without default")
	}

	// the outcomes of the switch arms: every packet constructor of the package (a function `New…` returning a pointer
	// to a packet type), plus the three non-constructor outcomes, plus whatever else an arm does
	ctorType := map[string]string{}
	for _, f := range p.files {
		for _, d := range f.Decls {
			fd, ok := d.(*ast.FuncDecl)
			if !ok || fd.Recv != nil || !strings.HasPrefix(fd.Name.Name, "New") || fd.Type.Results == nil || len(fd.Type.Results.List) != 1 {
				continue
			}
			st, ok := fd.Type.Results.List[0].Type.(*ast.StarExpr)
			if !ok {
				continue
			}
			if id, ok := st.X.(*ast.Ident); ok {
				for _, n := range packetTypes {
					if n == id.Name {
						ctorType[fd.Name.Name] = n
					}
				}
			}
		}
	}
	for _, o := range []string{"response", "parseAMFObject", "rejected"} {
		ctorType[o] = ""
	}
	for _, arms := range [][]swArm{ctorArms, oa, ia} {
		for _, a := range arms {
			if _, ok := ctorType[a.outcome]; !ok {
				ctorType[a.outcome] = ""
			}
		}
	}
	for _, d := range []string{ctorDef, od, id} {
		if _, ok := ctorType[d]; !ok {
			ctorType[d] = ""
		}
	}
	var ctors []string
	for n := range ctorType {
		ctors = append(ctors, n)
	}
	sort.Strings(ctors)
	fmt.Fprintf(w, "/-- What a switch arm of `DecodeMessage` / `parseAMFObject` does: call a packet constructor `NewT…`,\n`parseAMFObject` (choose by command name), `response` (look the transaction id up, then choose by the request's\nname) or `rejected` (`return nil, err`). All packet constructors of the package are listed. -/\ninductive Ctor where\n")
	for _, n := range ctors {
		fmt.Fprintf(w, "  | %s\n", leanName(n))
	}
	fmt.Fprintf(w, "  deriving DecidableEq, Repr\n")
	fmt.Fprintf(w, "/-- The packet type a constructor returns (\"\" for the non-constructor outcomes). -/\ndef ctorGoType : Ctor → String\n")
	for _, n := range ctors {
		fmt.Fprintf(w, "  | .%s => %s\n", leanName(n), leanStr(ctorType[n]))
	}
	emitArmTable(w, "Go `DecodeMessage`: the switch on `m.MessageType` that creates the packet, arm by arm in source order (`NewT` = `pkt = NewT()`, `parseAMFObject` = by command name, `rejected` = `return nil, err`).",
		"decodeMessageArm", "t", "Nat", ctorArms, ctorDef)

	emitArmTable(w, "Go `parseAMFObject`: switch on the command name (`response` = the arm that looks the transaction id up and switches on the request name).",
		"parseCommandArm", "name", "List UInt8", oa, od)
	emitArmTable(w, "Go `parseAMFObject`: switch on the name of the request the transaction id belongs to.",
		"parseResponseArm", "name", "List UInt8", ia, id)

	// E. onPacketWriten: the packet types whose (tid, name) is registered, and the registering condition
	opw := p.funcDecl("Protocol", "onPacketWriten")
	if opw == nil {
		return fmt.Errorf("func (*Protocol) onPacketWriten")
	}
	reg := map[string]bool{}
	foundTS := false
	tidLocal, nameLocal := "tid", "name"
	ast.Inspect(opw.Body, func(n ast.Node) bool {
		ts, ok := n.(*ast.TypeSwitchStmt)
		if !ok {
			return true
		}
		foundTS = true
		for _, cc := range ts.Body.List {
			c := cc.(*ast.CaseClause)
			assigns := false
			for _, st := range c.Body {
				// two locals (whatever they are called) take the packet's transaction id and command name
				if as, ok := st.(*ast.AssignStmt); ok && len(as.Lhs) == 2 &&
					len(as.Rhs) == 2 && strings.HasSuffix(selString(as.Rhs[0]), ".TransactionID") && strings.HasSuffix(selString(as.Rhs[1]), ".CommandName") {
					assigns = true
					tidLocal, nameLocal = selString(as.Lhs[0]), selString(as.Lhs[1])
				}
			}
			for _, e := range c.List {
				if assigns {
					reg[selString(e)] = true
				}
			}
		}
		return false
	})
	if !foundTS {
		return fmt.Errorf("onPacketWriten: type switch")
	}
	for _, n := range packetTypes {
		fmt.Fprintf(w, "/-- `onPacketWriten` takes `tid, name` from a `*%s`: %v. -/\ndef onPacketWritenRegisters_%s : Bool := %v\n", n, reg[n], n, reg[n])
		delete(reg, n)
	}
	if len(reg) != 0 {
		return fmt.Errorf("onPacketWriten: type switch case on a type without BetterCid/Type")
	}
	// the registering condition: the first `&&` / comparison expression over those two locals (in an `if` or assigned
	// to a flag that guards an early return), printed with the locals called tid and name
	cond := ""
	mentions := func(e ast.Expr, name string) bool {
		found := false
		ast.Inspect(e, func(x ast.Node) bool {
			if id, ok := x.(*ast.Ident); ok && id.Name == name {
				found = true
			}
			return true
		})
		return found
	}
	ast.Inspect(opw.Body, func(n ast.Node) bool {
		be, ok := n.(*ast.BinaryExpr)
		if !ok || cond != "" || !mentions(be, tidLocal) {
			return true
		}
		var b bytes.Buffer
		printer.Fprint(&b, p.fset, be)
		txt := b.String()
		re := func(s, from, to string) string {
			return regexp.MustCompile(`\b`+regexp.QuoteMeta(from)+`\b`).ReplaceAllString(s, to)
		}
		cond = re(re(txt, tidLocal, "tid"), nameLocal, "name")
		return false
	})
	fmt.Fprintf(w, "/-- The condition under which `onPacketWriten` stores `transactions[tid] = name`. -/\ndef onPacketWritenCondition : String := %s\n", leanStr(cond))
	return nil
}

// rtmpFactsExpect: in ExpectPacket and ExpectMessage the branch taken when ReadMessage fails returns at once (the
// error, wrapped): no retry, no look at what kind of error it is. The branch is the `if` whose init is the call of
// ReadMessage (or that follows the assignment from it) and whose condition is `err != nil`.
func rtmpFactsExpect(p *pkgInfo, w *bytes.Buffer) error {
	var names, unread []string
	all := true
	for _, name := range []string{"ExpectPacket", "ExpectMessage"} {
		fd := p.funcDecl("Protocol", name)
		if fd == nil {
			return fmt.Errorf("func (*Protocol) %s", name)
		}
		names = append(names, name)
		callsRead := func(n ast.Node) bool {
			return n != nil && firstPos(n, func(k ast.Node) bool { return isCallTo(k, ".ReadMessage") }) != token.NoPos
		}
		found, ok := false, true
		ast.Inspect(fd.Body, func(n ast.Node) bool {
			blk, isBlk := n.(*ast.BlockStmt)
			if !isBlk {
				return true
			}
			for i, st := range blk.List {
				ifs, isIf := st.(*ast.IfStmt)
				if !isIf {
					continue
				}
				be, isBin := ifs.Cond.(*ast.BinaryExpr)
				if !isBin || be.Op != token.NEQ || selPath(be.X) != "err" || selPath(be.Y) != "nil" {
					continue
				}
				if !(ifs.Init != nil && callsRead(ifs.Init)) && !(i > 0 && callsRead(blk.List[i-1])) {
					continue
				}
				found = true
				if len(ifs.Body.List) == 0 {
					ok = false
					continue
				}
				if _, isRet := ifs.Body.List[0].(*ast.ReturnStmt); !isRet {
					ok = false
				}
			}
			return true
		})
		if !found {
			unread = append(unread, name)
			continue
		}
		all = all && ok
	}
	if len(unread) > 0 {
		fmt.Fprintf(w, "/-- C08 fact. NOT READ FROM THE SOURCE for [%s] (no `if … ReadMessage() …; err != nil` there); the value is the\nmodel's, the correspondence run (transports that fail once and carry on, every offset) decides it. -/\ndef expectReturnsFirstError : Bool := %s\n", strings.Join(unread, ", "), boolLean(all))
		return nil
	}
	fmt.Fprintf(w, "/-- C08 fact. Evidence: in each of [%s] the `if` that tests the error of `ReadMessage()` has a `return` as its first\nstatement: a failed read is handed back at once (wrapped), whatever the error says about itself. -/\ndef expectReturnsFirstError : Bool := %s\n", strings.Join(names, ", "), boolLean(all))
	return nil
}

// rtmpFactsDecodePure: the exported DecodeMessage (a message -> packet helper that applications call on messages they
// hold, in any order and at any time) and the methods of Protocol it calls assign nothing under `input.opt` — the chunk
// size and window the reader applies to the peer's stream change only while the stream is being read.
func rtmpFactsDecodePure(p *pkgInfo, w *bytes.Buffer) error {
	dm := p.funcDecl("Protocol", "DecodeMessage")
	if dm == nil {
		return fmt.Errorf("func (*Protocol) DecodeMessage")
	}
	bodies := []ast.Node{dm.Body}
	names := []string{"DecodeMessage"}
	seen := map[string]bool{"DecodeMessage": true}
	for i := 0; i < len(bodies) && i < 12; i++ {
		ast.Inspect(bodies[i], func(n ast.Node) bool {
			if ce, ok := n.(*ast.CallExpr); ok {
				if se, ok := ce.Fun.(*ast.SelectorExpr); ok && !seen[se.Sel.Name] {
					if callee := p.funcDecl("Protocol", se.Sel.Name); callee != nil && callee.Body != nil {
						seen[se.Sel.Name] = true
						bodies = append(bodies, callee.Body)
						names = append(names, se.Sel.Name)
					}
				}
			}
			return true
		})
	}
	var hits []string
	for i, b := range bodies {
		ast.Inspect(b, func(n ast.Node) bool {
			switch x := n.(type) {
			case *ast.AssignStmt:
				for _, l := range x.Lhs {
					if strings.Contains(selString(l), "input.opt") {
						hits = append(hits, names[i]+": "+selString(l))
					}
				}
			case *ast.IncDecStmt:
				if strings.Contains(selString(x.X), "input.opt") {
					hits = append(hits, names[i]+": "+selString(x.X))
				}
			}
			return true
		})
	}
	ev := "no assignment under `input.opt` in [" + strings.Join(names, ", ") + "]"
	if len(hits) > 0 {
		ev = "assignments: " + strings.Join(hits, "; ")
	}
	fmt.Fprintf(w, "/-- C02 fact. Evidence: %s. -/\ndef decodeMessageLeavesReaderSettings : Bool := %s\n", ev, boolLean(len(hits) == 0))
	return nil
}
