package main

import (
	"bytes"
	"fmt"
	"go/ast"
	"sort"
	"strings"
)

// flv: the three pointer-receiver conversion helpers
//
//	func (v *AudioChannels) From(a aac.Channels)
//	func (v *AudioSamplingRate) From(a aac.SampleRateIndex)
//	func (v *AudioSamplingRate) OpusFrom(a aac.SampleRateIndex)
//
// are translated mechanically when their body is a single
// `switch a { case consts…: *v = Const; …; default: *v = Const }` (the generic enum-helper
// translator only handles value receivers without parameters). A missing function or another
// body shape is a broken tie.
func init() { facts["flv"] = flvFacts }

func flvFacts(p *pkgInfo, w *bytes.Buffer) error {
	want := map[string]bool{"AudioChannels_From": false, "AudioSamplingRate_From": false, "AudioSamplingRate_OpusFrom": false}
	type item struct{ name, text string }
	var items []item
	for _, f := range p.files {
		for _, d := range f.Decls {
			fd, ok := d.(*ast.FuncDecl)
			if !ok || fd.Recv == nil || len(fd.Recv.List) != 1 || fd.Body == nil {
				continue
			}
			star, ok := fd.Recv.List[0].Type.(*ast.StarExpr)
			if !ok {
				continue
			}
			tid, ok := star.X.(*ast.Ident)
			if !ok {
				continue
			}
			name := tid.Name + "_" + fd.Name.Name
			if _, ok := want[name]; !ok {
				continue
			}
			txt, err := flvFromHelper(p, fd, tid.Name, name)
			if err != nil {
				return fmt.Errorf("%s: %v", name, err)
			}
			want[name] = true
			items = append(items, item{name, txt})
		}
	}
	var missing []string
	for k, ok := range want {
		if !ok {
			missing = append(missing, k)
		}
	}
	sort.Strings(missing)
	if len(missing) > 0 {
		return fmt.Errorf("conversion helpers not found: %s", strings.Join(missing, ", "))
	}
	sort.Slice(items, func(i, j int) bool { return items[i].name < items[j].name })
	for _, it := range items {
		w.WriteString(it.text)
	}
	return nil
}

func flvFromHelper(p *pkgInfo, fd *ast.FuncDecl, tname, name string) (string, error) {
	if len(fd.Recv.List[0].Names) != 1 {
		return "", fmt.Errorf("unnamed receiver")
	}
	recv := fd.Recv.List[0].Names[0].Name
	if fd.Type.Params == nil || len(fd.Type.Params.List) != 1 || len(fd.Type.Params.List[0].Names) != 1 {
		return "", fmt.Errorf("expected exactly one named parameter")
	}
	param := fd.Type.Params.List[0].Names[0].Name
	if len(fd.Body.List) != 1 {
		return "", fmt.Errorf("body is not a single statement")
	}
	sw, ok := fd.Body.List[0].(*ast.SwitchStmt)
	if !ok || sw.Init != nil || sw.Tag == nil {
		return "", fmt.Errorf("body is not a switch")
	}
	if id, ok := sw.Tag.(*ast.Ident); !ok || id.Name != param {
		return "", fmt.Errorf("switch is not on the parameter")
	}
	assigned := func(body []ast.Stmt) (string, error) {
		if len(body) != 1 {
			return "", fmt.Errorf("case body is not a single statement")
		}
		as, ok := body[0].(*ast.AssignStmt)
		if !ok || len(as.Lhs) != 1 || len(as.Rhs) != 1 {
			return "", fmt.Errorf("case body is not an assignment")
		}
		st, ok := as.Lhs[0].(*ast.StarExpr)
		if !ok {
			return "", fmt.Errorf("assignment is not to *%s", recv)
		}
		if id, ok := st.X.(*ast.Ident); !ok || id.Name != recv {
			return "", fmt.Errorf("assignment is not to *%s", recv)
		}
		v, ty, ok := p.constOf(as.Rhs[0])
		if !ok || ty != "Nat" {
			return "", fmt.Errorf("assigned value is not a natural constant")
		}
		return v, nil
	}
	var arms []string
	def := ""
	for _, cc := range sw.Body.List {
		c := cc.(*ast.CaseClause)
		val, err := assigned(c.Body)
		if err != nil {
			return "", err
		}
		if c.List == nil {
			def = val
			continue
		}
		var conds []string
		for _, e := range c.List {
			cv, ty, ok := p.constOf(e)
			if !ok || ty != "Nat" {
				return "", fmt.Errorf("non-constant case")
			}
			conds = append(conds, "a = "+cv)
		}
		arms = append(arms, fmt.Sprintf("if %s then %s", strings.Join(conds, " ∨ "), val))
	}
	if def == "" {
		return "", fmt.Errorf("no default clause")
	}
	body := strings.Join(arms, "\n  else ")
	if body != "" {
		body += "\n  else "
	}
	return fmt.Sprintf("/-- Go `func (%s *%s) %s(%s …)`: switch on the argument; the value assigned to `*%s`. -/\ndef %s (a : Nat) : Nat :=\n  %s%s\n",
		recv, tname, fd.Name.Name, param, recv, name, body, def), nil
}
