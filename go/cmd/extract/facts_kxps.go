package main

// Structural facts of package kxps for C20: window lengths (assigned in newKxps, not
// plain constants), the cascade order and gating in doSample, the millisecond divisor
// and rate scale in sample.sample, the source text of the three expressions the
// property hinges on, the kbit/s scaling and the started guard of the public getters.

import (
	"bytes"
	"fmt"
	"go/ast"
	"go/constant"
	"go/printer"
	"go/token"
	"strings"
)

func (p *pkgInfo) funcDecl(recv, name string) *ast.FuncDecl {
	for _, f := range p.files {
		for _, d := range f.Decls {
			fd, ok := d.(*ast.FuncDecl)
			if !ok || fd.Name.Name != name || fd.Body == nil {
				continue
			}
			r := ""
			if fd.Recv != nil && len(fd.Recv.List) == 1 {
				t := fd.Recv.List[0].Type
				if st, ok := t.(*ast.StarExpr); ok {
					t = st.X
				}
				if id, ok := t.(*ast.Ident); ok {
					r = id.Name
				}
			}
			if r == recv {
				return fd
			}
		}
	}
	return nil
}

func (p *pkgInfo) src(n ast.Node) string {
	var b bytes.Buffer
	printer.Fprint(&b, p.fset, n)
	return strings.Join(strings.Fields(b.String()), " ")
}

func (p *pkgInfo) intConst(e ast.Expr) (string, bool) {
	tv, ok := p.info.Types[e]
	if !ok || tv.Value == nil {
		return "", false
	}
	v := constant.ToInt(tv.Value)
	if v.Kind() != constant.Int {
		return "", false
	}
	return v.ExactString(), true
}

// selPath renders a.b.c selector chains ("" if the expression is anything else).
func selPath(e ast.Expr) string {
	switch x := e.(type) {
	case *ast.Ident:
		return x.Name
	case *ast.SelectorExpr:
		if s := selPath(x.X); s != "" {
			return s + "." + x.Sel.Name
		}
	}
	return ""
}

func init() {
	facts["kxps"] = func(p *pkgInfo, w *bytes.Buffer) error {
		// 1. window lengths: `v.<field>.interval = <constant>` in newKxps, source order.
		nk := p.funcDecl("", "newKxps")
		if nk == nil {
			return fmt.Errorf("func newKxps")
		}
		type win struct{ field, ns string }
		var wins []win
		ast.Inspect(nk.Body, func(n ast.Node) bool {
			as, ok := n.(*ast.AssignStmt)
			if !ok || len(as.Lhs) != 1 || len(as.Rhs) != 1 {
				return true
			}
			parts := strings.Split(selPath(as.Lhs[0]), ".")
			if len(parts) == 3 && parts[2] == "interval" {
				if v, ok := p.intConst(as.Rhs[0]); ok {
					wins = append(wins, win{parts[1], v})
				}
			}
			return true
		})
		if len(wins) == 0 {
			return fmt.Errorf("newKxps: no `v.<window>.interval = <constant>` assignment")
		}
		fmt.Fprintf(w, "/-- Window lengths in nanoseconds: `v.<field>.interval = …` in `newKxps` (source order). -/\n")
		var ws []string
		for _, x := range wins {
			fmt.Fprintf(w, "def interval_%s : Nat := %s\n", x.field, x.ns)
			ws = append(ws, fmt.Sprintf("(%s, %s)", leanStr(x.field), x.ns))
		}
		fmt.Fprintf(w, "def windows : List (String × Nat) := [%s]\n", strings.Join(ws, ", "))

		// 2. sample.sample: firing test, counter difference, zero test, ms divisor, rate scale.
		ss := p.funcDecl("sample", "sample")
		if ss == nil {
			return fmt.Errorf("method (*sample).sample")
		}
		var fireCond, diffExpr, zeroCond, msDiv, scale string
		for _, st := range ss.Body.List {
			switch s := st.(type) {
			case *ast.IfStmt:
				if len(s.Body.List) == 1 {
					if ret, ok := s.Body.List[0].(*ast.ReturnStmt); ok && len(ret.Results) == 1 && p.src(ret.Results[0]) == "false" {
						fireCond = p.src(s.Cond)
					}
				}
				if len(s.Body.List) == 2 {
					if as, ok := s.Body.List[0].(*ast.AssignStmt); ok && selPath(as.Lhs[0]) == "v.rps" && p.src(as.Rhs[0]) == "0" {
						zeroCond = p.src(s.Cond)
					}
				}
			case *ast.AssignStmt:
				if len(s.Lhs) != 1 || len(s.Rhs) != 1 {
					continue
				}
				switch selPath(s.Lhs[0]) {
				case "diff":
					diffExpr = p.src(s.Rhs[0])
				case "interval":
					ast.Inspect(s.Rhs[0], func(n ast.Node) bool {
						if be, ok := n.(*ast.BinaryExpr); ok && be.Op == token.QUO {
							if v, ok := p.intConst(be.Y); ok {
								msDiv = v
							}
						}
						return true
					})
				case "v.rps":
					// float64(diff) * <scale> / float64(interval)
					if q, ok := s.Rhs[0].(*ast.BinaryExpr); ok && q.Op == token.QUO {
						if m, ok := q.X.(*ast.BinaryExpr); ok && m.Op == token.MUL {
							if v, ok := p.intConst(m.Y); ok && p.src(m.X) == "float64(diff)" && p.src(q.Y) == "float64(interval)" {
								scale = v
							}
						}
					}
				}
			}
		}
		if fireCond == "" || diffExpr == "" || zeroCond == "" || msDiv == "" || scale == "" {
			return fmt.Errorf("(*sample).sample: expected shape not found (fire=%q diff=%q zero=%q msDiv=%q scale=%q)", fireCond, diffExpr, zeroCond, msDiv, scale)
		}
		fmt.Fprintf(w, "/-- `(*sample).sample`: the window does not fire while this condition holds. -/\ndef fireCond : String := %s\n", leanStr(fireCond))
		fmt.Fprintf(w, "/-- `(*sample).sample`: the counter difference. -/\ndef diffExpr : String := %s\n", leanStr(diffExpr))
		fmt.Fprintf(w, "/-- `(*sample).sample`: the rate is set to 0 under this condition. -/\ndef zeroCond : String := %s\n", leanStr(zeroCond))
		fmt.Fprintf(w, "/-- `interval := int(v.interval / <this>)` (nanoseconds per millisecond). -/\ndef msDivisor : Nat := %s\n", msDiv)
		fmt.Fprintf(w, "/-- `v.rps = float64(diff) * <this> / float64(interval)`. -/\ndef rateScale : Nat := %s\n", scale)

		// 3. doSample: cascade order; every window is consulted as `if !v.<w>.sample(now, count) { return }`.
		ds := p.funcDecl("kxps", "doSample")
		if ds == nil {
			return fmt.Errorf("method (*kxps).doSample")
		}
		var order, initOrder []string
		gated := true
		initGuard := ""
		// the statements of doSample with calls of other methods of the same receiver (`v.helper(…)` as a statement)
		// replaced by the helper's statements: the cascade may be written in one method or split into helpers
		var flat []ast.Stmt
		var flatten func(list []ast.Stmt, depth int)
		flatten = func(list []ast.Stmt, depth int) {
			for _, st := range list {
				if es, ok := st.(*ast.ExprStmt); ok && depth < 3 {
					if ce, ok := es.X.(*ast.CallExpr); ok {
						parts := strings.Split(selPath(ce.Fun), ".")
						if len(parts) == 2 {
							if callee := p.funcDecl("kxps", parts[1]); callee != nil {
								flatten(callee.Body.List, depth+1)
								continue
							}
						}
					}
				}
				flat = append(flat, st)
			}
		}
		flatten(ds.Body.List, 0)
		bareLast := ""
		for _, st := range flat {
			if es, ok := st.(*ast.ExprStmt); ok {
				// a window consulted by a bare call: allowed for the LAST window only (nothing is gated by it)
				if ce, ok := es.X.(*ast.CallExpr); ok {
					parts := strings.Split(selPath(ce.Fun), ".")
					if len(parts) == 3 && parts[2] == "sample" {
						order = append(order, parts[1])
						bareLast = parts[1]
					}
				}
				continue
			}
			is, ok := st.(*ast.IfStmt)
			if !ok {
				continue
			}
			if bareLast != "" {
				gated = false // something conditional follows an ungated window
			}
			// the initialisation may sit in a helper called from the guarded block
			if len(is.Body.List) > 0 {
				var body []ast.Stmt
				saved := flat
				flat = nil
				flatten(is.Body.List, 1)
				body, flat = flat, saved
				is = &ast.IfStmt{Cond: is.Cond, Body: &ast.BlockStmt{List: body}, Else: is.Else, Init: is.Init}
			}
			// initialisation guard: body calls .initialize
			var inits []string
			ast.Inspect(is.Body, func(n ast.Node) bool {
				if ce, ok := n.(*ast.CallExpr); ok {
					parts := strings.Split(selPath(ce.Fun), ".")
					if len(parts) == 3 && parts[2] == "initialize" {
						inits = append(inits, parts[1])
					}
				}
				return true
			})
			if len(inits) > 0 {
				initGuard = p.src(is.Cond)
				initOrder = inits
				continue
			}
			ast.Inspect(is.Cond, func(n ast.Node) bool {
				ce, ok := n.(*ast.CallExpr)
				if !ok {
					return true
				}
				parts := strings.Split(selPath(ce.Fun), ".")
				if len(parts) == 3 && parts[2] == "sample" {
					order = append(order, parts[1])
					un, isNot := is.Cond.(*ast.UnaryExpr)
					bare := len(is.Body.List) == 1
					if bare {
						ret, ok := is.Body.List[0].(*ast.ReturnStmt)
						bare = ok && len(ret.Results) == 0
					}
					if !(isNot && un.Op == token.NOT && un.X == ast.Expr(ce) && bare && is.Else == nil) {
						gated = false
					}
				}
				return true
			})
		}
		// a sample call anywhere else (not a gate `if !call { return }`, not the bare last one) breaks the cascade shape
		total := 0
		for _, st := range flat {
			ast.Inspect(st, func(n ast.Node) bool {
				if ce, ok := n.(*ast.CallExpr); ok {
					parts := strings.Split(selPath(ce.Fun), ".")
					if len(parts) == 3 && parts[2] == "sample" {
						total++
					}
				}
				return true
			})
		}
		if total != len(order) || (bareLast != "" && order[len(order)-1] != bareLast) {
			gated = false
		}
		if len(order) == 0 || initGuard == "" {
			return fmt.Errorf("(*kxps).doSample: cascade / initialisation guard not found")
		}
		fmt.Fprintf(w, "/-- `doSample`: windows in the order they are consulted. -/\ndef cascadeOrder : List String := [%s]\n", quoteAll(order))
		fmt.Fprintf(w, "/-- `doSample`: every window is consulted as `if !v.<w>.sample(now, count) { return }`. -/\ndef cascadeGated : Bool := %v\n", gated)
		fmt.Fprintf(w, "/-- `doSample`: first-observation guard and the windows it initialises. -/\ndef initGuard : String := %s\ndef initOrder : List String := [%s]\n", leanStr(initGuard), quoteAll(initOrder))

		// 4. public getters: started guard and unit scaling.
		type getter struct{ recv, name string }
		scaled := []getter{{"kbps", "Kbps10s"}, {"kbps", "Kbps30s"}, {"kbps", "Kbps300s"}, {"kbps", "Average"}}
		plain := []getter{{"krps", "Rps10s"}, {"krps", "Rps30s"}, {"krps", "Rps300s"}, {"krps", "Average"}}
		guardAll := true
		mul, div := "", ""
		uniform := true
		plainAll := true
		for _, g := range append(append([]getter{}, scaled...), plain...) {
			fd := p.funcDecl(g.recv, g.name)
			if fd == nil {
				return fmt.Errorf("method (*%s).%s", g.recv, g.name)
			}
			ok := false
			if len(fd.Body.List) >= 1 {
				if is, isIf := fd.Body.List[0].(*ast.IfStmt); isIf && p.src(is.Cond) == "!v.imp.started" && len(is.Body.List) == 1 {
					if es, isE := is.Body.List[0].(*ast.ExprStmt); isE {
						if ce, isC := es.X.(*ast.CallExpr); isC && p.src(ce.Fun) == "panic" {
							ok = true
						}
					}
				}
			}
			guardAll = guardAll && ok
			ret, isRet := fd.Body.List[len(fd.Body.List)-1].(*ast.ReturnStmt)
			if !isRet || len(ret.Results) != 1 {
				return fmt.Errorf("(*%s).%s: no single return", g.recv, g.name)
			}
			if g.recv == "kbps" {
				q, ok1 := ret.Results[0].(*ast.BinaryExpr)
				if !ok1 || q.Op != token.QUO {
					return fmt.Errorf("(*kbps).%s: return is not `x * m / d`", g.name)
				}
				m, ok2 := q.X.(*ast.BinaryExpr)
				if !ok2 || m.Op != token.MUL {
					return fmt.Errorf("(*kbps).%s: return is not `x * m / d`", g.name)
				}
				mv, ok3 := p.intConst(m.Y)
				dv, ok4 := p.intConst(q.Y)
				if _, isCall := m.X.(*ast.CallExpr); !ok3 || !ok4 || !isCall {
					return fmt.Errorf("(*kbps).%s: return is not `call() * m / d`", g.name)
				}
				if mul == "" {
					mul, div = mv, dv
				} else if mul != mv || div != dv {
					uniform = false
				}
			} else {
				if _, isCall := ret.Results[0].(*ast.CallExpr); !isCall {
					plainAll = false
				}
			}
		}
		fmt.Fprintf(w, "/-- Every public rate getter of kbps/krps starts with `if !v.imp.started { panic(…) }`. -/\ndef startedGuardAll : Bool := %v\n", guardAll)
		fmt.Fprintf(w, "/-- kbps getters return `imp.X() * kbpsMul / kbpsDiv` (factors of the first getter; `kbpsUniform`: all four agree). -/\ndef kbpsMul : Nat := %s\ndef kbpsDiv : Nat := %s\ndef kbpsUniform : Bool := %v\n", mul, div, uniform)
		fmt.Fprintf(w, "/-- krps getters return `imp.X()` unscaled. -/\ndef krpsPlain : Bool := %v\n", plainAll)
		return nil
	}
}
