package main

// Structural facts of /repo/logger for C18 (connection ids and log lines):
//   - cidAlloc: how WithContext increments the process-wide counter
//       plain `X += 1` / `X++` / `X = X + 1`           -> plainRMW
//       sync/atomic Add (function or method)             -> atomicAdd
//       increment and every read between Lock()/Unlock() -> mutexed
//     any other access to the counter that is not covered by the same discipline
//     (e.g. an atomic add followed by a plain read of the variable) degrades to plainRMW;
//   - the counter's initial value;
//   - the prefix format strings of format/formatf/contextFormat/contextFormatf (source order);
//   - per level logger: label constant, whether Switch(w) installs w (or a discard writer), log flags.

import (
	"bytes"
	"fmt"
	"go/ast"
	"go/token"
	"go/types"
	"strings"
)

func (p *pkgInfo) methodDecl(name string) *ast.FuncDecl {
	for _, f := range p.files {
		for _, d := range f.Decls {
			if fd, ok := d.(*ast.FuncDecl); ok && fd.Recv != nil && fd.Name.Name == name {
				return fd
			}
		}
	}
	return nil
}

func (p *pkgInfo) pkgVar(id *ast.Ident) *types.Var {
	obj := p.info.Uses[id]
	if obj == nil {
		obj = p.info.Defs[id]
	}
	v, ok := obj.(*types.Var)
	if !ok || v.Parent() == nil || p.pkg == nil || v.Parent() != p.pkg.Scope() {
		return nil
	}
	return v
}

func isAtomicAddCall(c *ast.CallExpr) (target *ast.Ident, ok bool) {
	sel, isSel := c.Fun.(*ast.SelectorExpr)
	if !isSel {
		return nil, false
	}
	// atomic.AddInt64(&X, n)
	if x, isId := sel.X.(*ast.Ident); isId && x.Name == "atomic" && strings.HasPrefix(sel.Sel.Name, "Add") && len(c.Args) == 2 {
		if u, isU := c.Args[0].(*ast.UnaryExpr); isU && u.Op == token.AND {
			if id, isId := u.X.(*ast.Ident); isId {
				return id, true
			}
		}
	}
	// X.Add(n) on an atomic.IntN variable
	if sel.Sel.Name == "Add" && len(c.Args) == 1 {
		if id, isId := sel.X.(*ast.Ident); isId {
			return id, true
		}
	}
	return nil, false
}

func init() {
	facts["logger"] = func(p *pkgInfo, w *bytes.Buffer) error {
		wc := p.topFunc("WithContext")
		if wc == nil || wc.Body == nil {
			return fmt.Errorf("func WithContext not found")
		}
		// 1. the increment site
		var counter *types.Var
		kind := ""
		evidence := ""
		var incPos token.Pos
		atomicArgs := map[*ast.Ident]bool{} // identifiers that occur as the target of an atomic add
		ast.Inspect(wc.Body, func(x ast.Node) bool {
			switch s := x.(type) {
			case *ast.IncDecStmt:
				if id, ok := s.X.(*ast.Ident); ok && s.Tok == token.INC {
					if v := p.pkgVar(id); v != nil && counter == nil {
						counter, kind, evidence, incPos = v, "plainRMW", id.Name+"++", s.Pos()
					}
				}
			case *ast.AssignStmt:
				if len(s.Lhs) == 1 {
					if id, ok := s.Lhs[0].(*ast.Ident); ok {
						if v := p.pkgVar(id); v != nil && counter == nil {
							if s.Tok == token.ADD_ASSIGN {
								counter, kind, evidence, incPos = v, "plainRMW", id.Name+" += …", s.Pos()
							} else if s.Tok == token.ASSIGN {
								if be, ok := s.Rhs[0].(*ast.BinaryExpr); ok && be.Op == token.ADD {
									counter, kind, evidence, incPos = v, "plainRMW", id.Name+" = "+id.Name+" + …", s.Pos()
								}
							}
						}
					}
				}
			case *ast.CallExpr:
				if id, ok := isAtomicAddCall(s); ok {
					if v := p.pkgVar(id); v != nil {
						atomicArgs[id] = true
						if counter == nil {
							counter, kind, evidence, incPos = v, "atomicAdd", exprName(s.Fun)+"(&"+id.Name+", …)", s.Pos()
						}
					}
				}
			}
			return true
		})
		if counter == nil {
			return fmt.Errorf("WithContext: no increment of a package-level counter found (+=, ++, = x + 1, atomic Add)")
		}
		// 2. Lock()/Unlock() around the increment (mutexed)
		var lockPos, unlockPos token.Pos
		deferredUnlock := false
		ast.Inspect(wc.Body, func(x ast.Node) bool {
			switch s := x.(type) {
			case *ast.DeferStmt:
				if sel, ok := s.Call.Fun.(*ast.SelectorExpr); ok && sel.Sel.Name == "Unlock" {
					deferredUnlock = true
				}
				return false
			case *ast.CallExpr:
				if sel, ok := s.Fun.(*ast.SelectorExpr); ok {
					if sel.Sel.Name == "Lock" && lockPos == 0 {
						lockPos = s.Pos()
					}
					if sel.Sel.Name == "Unlock" {
						unlockPos = s.Pos()
					}
				}
			}
			return true
		})
		locked := func(pos token.Pos) bool {
			return lockPos != 0 && lockPos < pos && (deferredUnlock || (unlockPos != 0 && pos < unlockPos))
		}
		if kind == "plainRMW" && locked(incPos) {
			kind = "mutexed"
			evidence += " between Lock() and Unlock()"
		}
		// 3. every other access to the counter in the package must follow the same discipline
		stray := ""
		for _, f := range p.files {
			for _, d := range f.Decls {
				fd, ok := d.(*ast.FuncDecl)
				if !ok || fd.Body == nil {
					continue
				}
				ast.Inspect(fd.Body, func(x ast.Node) bool {
					// skip the arguments of atomic calls: &X there is the disciplined access
					if c, ok := x.(*ast.CallExpr); ok {
						if sel, ok := c.Fun.(*ast.SelectorExpr); ok {
							if xi, ok := sel.X.(*ast.Ident); ok && xi.Name == "atomic" {
								return false
							}
							if xi, ok := sel.X.(*ast.Ident); ok && p.pkgVar(xi) == counter && (sel.Sel.Name == "Add" || sel.Sel.Name == "Load") {
								return false
							}
						}
					}
					id, ok := x.(*ast.Ident)
					if !ok || p.pkgVar(id) != counter {
						return true
					}
					switch kind {
					case "atomicAdd":
						stray = "plain access to " + id.Name + " in " + fd.Name.Name + " besides the atomic add"
					case "mutexed":
						if fd != wc || !locked(id.Pos()) {
							stray = "access to " + id.Name + " outside the critical section in " + fd.Name.Name
						}
					}
					return true
				})
			}
		}
		if stray != "" {
			evidence += "; BUT " + stray
			kind = "plainRMW"
		}
		fmt.Fprintf(w, "/-- How `WithContext` increments the process-wide connection-id counter. -/\ninductive CidAlloc where\n  | plainRMW | atomicAdd | mutexed\n  deriving DecidableEq, Repr\n")
		fmt.Fprintf(w, "/-- `WithContext`: `%s` on package variable `%s`. -/\ndef cidAlloc : CidAlloc := .%s\n", evidence, counter.Name(), kind)
		// initial value
		initVal := int64(-1)
		for _, f := range p.files {
			for _, d := range f.Decls {
				gd, ok := d.(*ast.GenDecl)
				if !ok || gd.Tok != token.VAR {
					continue
				}
				for _, sp := range gd.Specs {
					vs := sp.(*ast.ValueSpec)
					for i, id := range vs.Names {
						if p.info.Defs[id] == counter && i < len(vs.Values) {
							if v, ok := p.intConst64(vs.Values[i]); ok {
								initVal = v
							}
						}
					}
				}
			}
		}
		if initVal < 0 {
			return fmt.Errorf("initial value of the counter %s not found", counter.Name())
		}
		fmt.Fprintf(w, "/-- Initial value of `%s` (the first id handed out is one more). -/\ndef cidInitial : Nat := %d\n", counter.Name(), initVal)

		// 4. AliasContext copies the source's value under the same key
		ac := p.topFunc("AliasContext")
		if ac == nil {
			return fmt.Errorf("func AliasContext not found")
		}
		copies, fallsBack := false, false
		ast.Inspect(ac.Body, func(x ast.Node) bool {
			if c, ok := x.(*ast.CallExpr); ok {
				if exprName(c.Fun) == "context.WithValue" && len(c.Args) == 3 && exprName(c.Args[2]) == "cid" {
					copies = true
				}
				if exprName(c.Fun) == "WithContext" {
					fallsBack = true
				}
			}
			return true
		})
		fmt.Fprintf(w, "/-- `AliasContext`: returns `context.WithValue(parent, cidKey, cid)` with the source's `cid`; otherwise `WithContext(parent)`. -/\ndef aliasCopiesSourceCid : Bool := %v\ndef aliasFallsBackToWithContext : Bool := %v\n", copies, fallsBack)

		// 5. prefix format strings
		for _, name := range []string{"format", "formatf", "contextFormat", "contextFormatf"} {
			fd := p.methodDecl(name)
			if fd == nil {
				return fmt.Errorf("method %s not found", name)
			}
			var lits []string
			ast.Inspect(fd.Body, func(x ast.Node) bool {
				if bl, ok := x.(*ast.BasicLit); ok && bl.Kind == token.STRING {
					if s, ok := p.strConst(bl); ok {
						lits = append(lits, s)
					}
				}
				return true
			})
			// the literals are the prefix templates the model instantiates: each must be one ("[%v]…"). A body that builds
			// the prefix some other way (strconv, concatenation) is not read: the model then keeps ITS OWN templates — said
			// so in the generated file — and what the code prints is decided by the correspondence run alone, which
			// compares every line with the model's, byte for byte.
			readable := len(lits) > 0
			for _, l := range lits {
				if !strings.HasPrefix(l, "[%v]") {
					readable = false
				}
			}
			if !readable {
				def := map[string][]string{"format": {"[%v] ", "[%v][%v] "}, "formatf": {"[%v] ", "[%v][%v] "}, "contextFormat": {"[%v][%v]"}, "contextFormatf": {"[%v][%v] "}}[name]
				fmt.Fprintf(w, "/-- `loggerPlus.%s`: NOT READ FROM THE SOURCE (the prefix is not built from `[%%v]…` format literals); these are the\nmodel's own templates, tied to the code by the correspondence run only. -/\ndef %sLits : List String := [%s]\n", name, name, quoteAll(def))
				continue
			}
			fmt.Fprintf(w, "/-- `loggerPlus.%s`: string literals in source order (nil context first, then id-carrying). -/\ndef %sLits : List String := [%s]\n", name, name, quoteAll(lits))
		}

		// 5b. the non-context.Context branch of contextFormat/contextFormatf hands the ORIGINAL ctx
		// parameter to format/formatf (not a variable that shadows it — the type assertion's result)
		passes := true
		for _, pair := range [][2]string{{"contextFormat", "format"}, {"contextFormatf", "formatf"}} {
			fd := p.methodDecl(pair[0])
			found := false
			var params []*ast.Ident
			for _, fl := range fd.Type.Params.List {
				params = append(params, fl.Names...)
			}
			ast.Inspect(fd.Body, func(x ast.Node) bool {
				c, ok := x.(*ast.CallExpr)
				if !ok || len(c.Args) == 0 {
					return true
				}
				sel, ok := c.Fun.(*ast.SelectorExpr)
				if !ok || sel.Sel.Name != pair[1] {
					return true
				}
				found = true
				id, ok := c.Args[0].(*ast.Ident)
				isParam := false
				if ok {
					for _, pid := range params {
						if p.info.Uses[id] != nil && p.info.Uses[id] == p.info.Defs[pid] {
							isParam = true
						}
					}
				}
				if !isParam {
					passes = false
				}
				return true
			})
			if !found {
				return fmt.Errorf("%s: call of v.%s(ctx, …) not found", pair[0], pair[1])
			}
		}
		fmt.Fprintf(w, "/-- `contextFormat`/`contextFormatf`: the first argument of `v.format`/`v.formatf` is the function's own `ctx` parameter (false: a shadowing variable — the nil result of the failed type assertion). -/\ndef fallbackPassesOriginalCtx : Bool := %v\n", passes)

		// 6. Switch: per level the writer, label and flags
		sw := p.topFunc("Switch")
		if sw == nil {
			return fmt.Errorf("func Switch not found")
		}
		wparam := ""
		if sw.Type.Params != nil && len(sw.Type.Params.List) == 1 && len(sw.Type.Params.List[0].Names) == 1 {
			wparam = sw.Type.Params.List[0].Names[0].Name
		}
		type lv struct {
			name, label string
			toW         bool
			flags       int64
		}
		var lvs []lv
		// The four assignments are looked for in Switch and in the package's own functions it calls (parameters are
		// followed through the calls: `resetLoggers(discard, w, w, w)` → `Trace = newLevelLogger(trace, label)` →
		// `NewLoggerPlus(log.New(w, label, flags))`).
		var wobj types.Object
		if wparam != "" {
			wobj = p.info.Defs[sw.Type.Params.List[0].Names[0]]
		}
		type bound struct {
			e   ast.Expr
			env map[types.Object]interface{}
		}
		var follow func(e ast.Expr, env map[types.Object]interface{}) (ast.Expr, map[types.Object]interface{})
		follow = func(e ast.Expr, env map[types.Object]interface{}) (ast.Expr, map[types.Object]interface{}) {
			for k := 0; k < 8; k++ {
				id, ok := e.(*ast.Ident)
				if !ok {
					return e, env
				}
				b, ok := env[p.info.Uses[id]].(bound)
				if !ok {
					return e, env
				}
				e, env = b.e, b.env
			}
			return e, env
		}
		localFunc := func(c *ast.CallExpr) *ast.FuncDecl {
			id, ok := c.Fun.(*ast.Ident)
			if !ok {
				return nil
			}
			fd := p.topFunc(id.Name)
			if fd == nil || fd.Body == nil || fd.Recv != nil {
				return nil
			}
			return fd
		}
		bind := func(fd *ast.FuncDecl, c *ast.CallExpr, env map[types.Object]interface{}) map[types.Object]interface{} {
			ne := map[types.Object]interface{}{}
			i := 0
			for _, f := range fd.Type.Params.List {
				for _, n := range f.Names {
					if i < len(c.Args) {
						ne[p.info.Defs[n]] = bound{c.Args[i], env}
					}
					i++
				}
			}
			return ne
		}
		var resolve func(e ast.Expr, env map[types.Object]interface{}, depth int) (ast.Expr, map[types.Object]interface{})
		resolve = func(e ast.Expr, env map[types.Object]interface{}, depth int) (ast.Expr, map[types.Object]interface{}) {
			e, env = follow(e, env)
			if c, ok := e.(*ast.CallExpr); ok && depth < 4 && exprName(c.Fun) != "NewLoggerPlus" {
				if fd := localFunc(c); fd != nil && len(fd.Body.List) == 1 {
					if r, ok := fd.Body.List[0].(*ast.ReturnStmt); ok && len(r.Results) == 1 {
						return resolve(r.Results[0], bind(fd, c, env), depth+1)
					}
				}
			}
			return e, env
		}
		var walk func(body *ast.BlockStmt, env map[types.Object]interface{}, depth int)
		walk = func(body *ast.BlockStmt, env map[types.Object]interface{}, depth int) {
			for _, st := range body.List {
				if es, ok := st.(*ast.ExprStmt); ok && depth < 4 {
					if c, ok := es.X.(*ast.CallExpr); ok {
						if fd := localFunc(c); fd != nil {
							walk(fd.Body, bind(fd, c, env), depth+1)
						}
					}
					continue
				}
				as, ok := st.(*ast.AssignStmt)
				if !ok || len(as.Lhs) != 1 || len(as.Rhs) != 1 {
					continue
				}
				rhs, renv := resolve(as.Rhs[0], env, depth)
				c1, ok := rhs.(*ast.CallExpr)
				if !ok || exprName(c1.Fun) != "NewLoggerPlus" || len(c1.Args) != 1 {
					continue
				}
				a0, aenv := follow(c1.Args[0], renv)
				c2, ok := a0.(*ast.CallExpr)
				if !ok || exprName(c2.Fun) != "log.New" || len(c2.Args) != 3 {
					continue
				}
				wr, _ := follow(c2.Args[0], aenv)
				lb, _ := follow(c2.Args[1], aenv)
				fe, _ := follow(c2.Args[2], aenv)
				fl, _ := p.intConst64(fe)
				toW := false
				if id, ok := wr.(*ast.Ident); ok && wobj != nil && p.info.Uses[id] == wobj {
					toW = true
				}
				lvs = append(lvs, lv{exprName(as.Lhs[0]), exprName(lb), toW, fl})
			}
		}
		walk(sw.Body, map[types.Object]interface{}{}, 0)
		if len(lvs) != 4 {
			return fmt.Errorf("Switch: expected four `X = NewLoggerPlus(log.New(w|discard, label, flags))`, found %d", len(lvs))
		}
		w.WriteString("/-- `Switch(w)`: (level variable, label, installs `w` (false: a discard writer), `log` flags). -/\ndef switchLevels : List (String × String × Bool × Nat) := [")
		for i, l := range lvs {
			if i > 0 {
				w.WriteString(", ")
			}
			fmt.Fprintf(w, "(%s, %s, %v, %d)", leanStr(l.name), l.label, l.toW, l.flags)
		}
		w.WriteString("]\n")
		return nil
	}
}
