package main

import (
	"bytes"
	"fmt"
	"strings"
)

// facts: per-package structural-fact extractors (AST queries). Each writes Lean
// definitions and returns an error when a declaration it relies on is not found
// (a broken tie, reported — never silently skipped).
var facts = map[string]func(*pkgInfo, *bytes.Buffer) error{}

// sections runs independent groups of facts: a group whose declarations are not found writes nothing but a
// comment naming what is missing (so only the models that use ITS definitions stop building — a property whose
// model does not mention them is unaffected) and the run goes on with the next group. The errors are joined
// and still reported as a broken tie of the package.
type sections struct {
	w    *bytes.Buffer
	errs []string
}

func (s *sections) run(name string, fn func(w *bytes.Buffer) error) {
	var b bytes.Buffer
	if err := fn(&b); err != nil {
		fmt.Fprintf(s.w, "-- FACTS MISSING (%s): %s\n\n", name, strings.ReplaceAll(err.Error(), "\n", " "))
		s.errs = append(s.errs, name+": "+err.Error())
		return
	}
	s.w.Write(b.Bytes())
}

func (s *sections) err() error {
	if len(s.errs) == 0 {
		return nil
	}
	return fmt.Errorf("%s", strings.Join(s.errs, "; "))
}
