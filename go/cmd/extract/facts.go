package main

import "bytes"

// facts: per-package structural-fact extractors (AST queries). Each writes Lean
// definitions and returns an error when a declaration it relies on is not found
// (a broken tie, reported — never silently skipped).
var facts = map[string]func(*pkgInfo, *bytes.Buffer) error{}
