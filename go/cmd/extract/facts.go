package main

import (
	"bytes"
	"fmt"
	"go/ast"
	"go/token"
	"strings"
)

// facts: per-package structural-fact extractors (AST queries). Each writes Lean
// definitions and returns an error when a declaration it relies on is not found
// (a broken tie, reported — never silently skipped).
var facts = map[string]func(*pkgInfo, *bytes.Buffer) error{}

// sections runs independent groups of facts: a group whose declarations are not found writes nothing but a
// comment naming what is missing (so only the models that use ITS definitions stop building — a property whose
// model does not mention them is unaffected) and the run goes on with the next group. The errors are joined
// and still reported as a broken tie of the package.
type sections struct {
	w    *bytes.Buffer
	errs []string
}

func (s *sections) run(name string, fn func(w *bytes.Buffer) error) {
	var b bytes.Buffer
	if err := fn(&b); err != nil {
		fmt.Fprintf(s.w, "-- FACTS MISSING (%s): %s\n\n", name, strings.ReplaceAll(err.Error(), "\n", " "))
		s.errs = append(s.errs, name+": "+err.Error())
		return
	}
	s.w.Write(b.Bytes())
}

func (s *sections) err() error {
	if len(s.errs) == 0 {
		return nil
	}
	return fmt.Errorf("%s", strings.Join(s.errs, "; "))
}

// singleDef: the right-hand side of the ONLY statement in fd that defines or assigns the local variable id
// (`x := e`, `x = e`, `var x = e`), or nil when there is none or more than one (or it is a parameter).
func (p *pkgInfo) singleDef(fd *ast.FuncDecl, id *ast.Ident) ast.Expr {
	obj := p.info.Uses[id]
	if obj == nil {
		obj = p.info.Defs[id]
	}
	if obj == nil || obj.Parent() == p.pkg.Scope() {
		return nil
	}
	var rhs []ast.Expr
	same := func(l ast.Expr) bool {
		li, ok := l.(*ast.Ident)
		if !ok {
			return false
		}
		o := p.info.Defs[li]
		if o == nil {
			o = p.info.Uses[li]
		}
		return o == obj
	}
	ast.Inspect(fd, func(n ast.Node) bool {
		switch s := n.(type) {
		case *ast.AssignStmt:
			for i, l := range s.Lhs {
				if same(l) {
					if len(s.Lhs) == len(s.Rhs) && (s.Tok == token.DEFINE || s.Tok == token.ASSIGN) {
						rhs = append(rhs, s.Rhs[i])
					} else {
						rhs = append(rhs, nil)
					}
				}
			}
		case *ast.ValueSpec:
			for i, l := range s.Names {
				if same(l) && i < len(s.Values) {
					rhs = append(rhs, s.Values[i])
				}
			}
		case *ast.IncDecStmt:
			if same(s.X) {
				rhs = append(rhs, nil)
			}
		}
		return true
	})
	if len(rhs) == 1 {
		return rhs[0]
	}
	return nil
}
