package main

// Structural facts of package amf0: the `Discovery` dispatch table
// (marker byte -> constructor called / rejected), read from the switch statement.

import (
	"go/types"
	"bytes"
	"fmt"
	"go/ast"
	"sort"
	"strings"
)

func init() { facts["amf0"] = factsAmf0 }

// discoveryOutcome classifies the first result of a `return x, err` statement:
// `NewT(...)` -> "NewT"; `&T{}` -> "T"; `nil` -> "rejected".
func discoveryOutcome(ret *ast.ReturnStmt) (string, error) {
	if len(ret.Results) != 2 {
		return "", fmt.Errorf("Discovery: return with %d results", len(ret.Results))
	}
	switch x := ret.Results[0].(type) {
	case *ast.Ident:
		if x.Name == "nil" {
			return "rejected", nil
		}
	case *ast.CallExpr:
		if id, ok := x.Fun.(*ast.Ident); ok {
			return id.Name, nil
		}
	case *ast.UnaryExpr:
		if cl, ok := x.X.(*ast.CompositeLit); ok {
			if id, ok := cl.Type.(*ast.Ident); ok {
				return id.Name, nil
			}
		}
	}
	return "", fmt.Errorf("Discovery: unrecognised return expression")
}

func factsAmf0(p *pkgInfo, w *bytes.Buffer) error {
	var fd *ast.FuncDecl
	for _, f := range p.files {
		for _, d := range f.Decls {
			if x, ok := d.(*ast.FuncDecl); ok && x.Recv == nil && x.Name.Name == "Discovery" {
				fd = x
			}
		}
	}
	if fd == nil || fd.Body == nil {
		return fmt.Errorf("func Discovery not found")
	}
	var sw *ast.SwitchStmt
	swIdx := -1
	for i, st := range fd.Body.List {
		if s, ok := st.(*ast.SwitchStmt); ok && s.Tag != nil {
			sw, swIdx = s, i
		}
	}
	if sw == nil {
		return fmt.Errorf("Discovery: switch on the marker not found")
	}
	// what happens after the switch (an arm with an empty body, or no matching arm, ends up here)
	after := ""
	for _, st := range fd.Body.List[swIdx+1:] {
		if ret, ok := st.(*ast.ReturnStmt); ok {
			o, err := discoveryOutcome(ret)
			if err != nil {
				return err
			}
			after = o
			break
		}
	}
	if after == "" {
		// no statement after the switch: every arm returns and a `default:` arm says what an unlisted marker gets
		for _, cc := range sw.Body.List {
			if c := cc.(*ast.CaseClause); c.List == nil && len(c.Body) > 0 {
				if ret, ok := c.Body[0].(*ast.ReturnStmt); ok {
					o, err := discoveryOutcome(ret)
					if err != nil {
						return err
					}
					after = o
				}
			}
		}
	}
	if after == "" {
		return fmt.Errorf("Discovery: neither a return after the switch nor a default arm that returns")
	}
	type arm struct {
		vals    []string
		outcome string
	}
	var arms []arm
	def := after
	outcomes := map[string]bool{"rejected": true, after: true}
	for _, cc := range sw.Body.List {
		c := cc.(*ast.CaseClause)
		o := after
		if len(c.Body) > 0 {
			ret, ok := c.Body[0].(*ast.ReturnStmt)
			if !ok {
				return fmt.Errorf("Discovery: case body is not a return")
			}
			var err error
			if o, err = discoveryOutcome(ret); err != nil {
				return err
			}
		}
		outcomes[o] = true
		if c.List == nil {
			def = o
			continue
		}
		var vals []string
		for _, e := range c.List {
			cv, _, ok := p.constOf(e)
			if !ok {
				return fmt.Errorf("Discovery: non-constant case")
			}
			vals = append(vals, "m = "+cv)
		}
		arms = append(arms, arm{vals, o})
	}
	var names []string
	for o := range outcomes {
		names = append(names, o)
	}
	sort.Strings(names)
	fmt.Fprintf(w, "/-- Outcome of Go `Discovery` for a marker byte: the constructor whose fresh value is returned\n(`NewT` for `return NewT(..), nil`, `T` for `return &T{}, nil`) or `rejected` (`return nil, err`; also an arm\nwith an empty body and a marker without an arm, which reach the error return after the switch). -/\n")
	fmt.Fprintf(w, "inductive DiscoveryResult where\n")
	for _, n := range names {
		fmt.Fprintf(w, "  | %s\n", leanName(n))
	}
	fmt.Fprintf(w, "  deriving DecidableEq, Repr\n\n")
	fmt.Fprintf(w, "/-- Go `func Discovery`: the switch on `marker(p[0])`, arm by arm in source order. -/\ndef discovery (m : Nat) : DiscoveryResult :=\n")
	for _, a := range arms {
		fmt.Fprintf(w, "  if %s then .%s else\n", strings.Join(a.vals, " ∨ "), leanName(a.outcome))
	}
	fmt.Fprintf(w, "  .%s\n", leanName(def))
	// K3: does the container decoder advance by what the child consumed (O(1)) or re-walk it with Size()?
	// Looked for anywhere in the package (the decoder may be one method or split into helpers, its locals may have
	// any names): a slice expression `x[y.consumed():]` advancing past a child, and the fallback `x[y.Size():]` for
	// a child VALUE only in the else branch of an `if c, ok := y.(consumer); ok {…} else {…}`.
	// The advance is recognised by what it calls, wherever it is written: directly in a slice expression
	// (`x[y.consumed():]`, `x[y.Size():]`) or through a helper of the package (`x[bytesTaken(y):]` whose body asserts
	// `consumer` and falls back to `Size()`). A `Size()` of a child VALUE counts as guarded when the function it is
	// written in asserts the `consumer` interface (the fallback of that assertion), unguarded otherwise.
	usesConsumed, usesSize, guarded, sizeOutsideElse := false, false, false, false
	isAmf0Value := func(e ast.Expr) bool {
		tv, ok := p.info.Types[e]
		return ok && tv.Type != nil && tv.Type.String() == p.pkg.Path()+".Amf0"
	}
	funcs := map[string]*ast.FuncDecl{}
	for _, f := range p.files {
		for _, d := range f.Decls {
			if fd, ok := d.(*ast.FuncDecl); ok && fd.Body != nil && fd.Recv == nil {
				funcs[fd.Name.Name] = fd
			}
		}
	}
	assertsConsumer := func(n ast.Node) bool {
		found := false
		ast.Inspect(n, func(x ast.Node) bool {
			if ta, ok := x.(*ast.TypeAssertExpr); ok {
				if id, ok := ta.Type.(*ast.Ident); ok && id.Name == "consumer" {
					found = true
				}
			}
			return true
		})
		return found
	}
	// classify one "how far to advance" expression written inside function body `encl`
	var classify func(e ast.Expr, encl ast.Node, depth int)
	classify = func(e ast.Expr, encl ast.Node, depth int) {
		c, ok := e.(*ast.CallExpr)
		if !ok {
			return
		}
		switch fn := c.Fun.(type) {
		case *ast.SelectorExpr:
			switch fn.Sel.Name {
			case "consumed":
				usesConsumed = true
			case "Size":
				if isAmf0Value(fn.X) {
					usesSize = true
					if assertsConsumer(encl) {
						guarded = true
					} else {
						sizeOutsideElse = true
					}
				}
			}
		case *ast.Ident:
			if g := funcs[fn.Name]; g != nil && depth < 3 {
				ast.Inspect(g.Body, func(x ast.Node) bool {
					if r, ok := x.(*ast.ReturnStmt); ok {
						for _, res := range r.Results {
							classify(res, g.Body, depth+1)
						}
					}
					return true
				})
			}
		}
	}
	for _, f := range p.files {
		for _, d := range f.Decls {
			fd, ok := d.(*ast.FuncDecl)
			if !ok || fd.Body == nil {
				continue
			}
			ast.Inspect(fd.Body, func(n ast.Node) bool {
				if x, ok := n.(*ast.SliceExpr); ok && x.High == nil && x.Low != nil {
					classify(x.Low, fd.Body, 0)
				}
				return true
			})
		}
	}
	guarded = guarded && !sizeOutsideElse
	// every container type implements consumed()
	impl := 0
	for _, t := range []string{"Object", "EcmaArray", "StrictArray"} {
		// by method set (declared on the type itself or promoted from an embedded struct)
		if obj := p.pkg.Scope().Lookup(t); obj != nil {
			if types.NewMethodSet(types.NewPointer(obj.Type())).Lookup(p.pkg, "consumed") != nil {
				impl++
			}
		}
	}
	fmt.Fprintf(w, "/-- `objectBase.unmarshal` advances past a decoded child by `consumed()` (%v) for the %d/3 container types that\nimplement it, falling back to `a.Size()` (%v) only in the else branch of the `consumer` assertion (%v). When false the\ndecoder re-walks every child with `Size()` (quadratic on nested containers, finding K3). -/\ndef childAdvanceIsConstant : Bool := %v\n",
		usesConsumed, impl, usesSize, guarded, usesConsumed && guarded && impl == 3)
	return nil
}
