package main

// Structural facts of /repo/http for C19 (HTTP API envelope):
//   - the order of the type assertions in Error() (error-kind dispatch order),
//   - the default status of the plain-error branch and whether HTTPStatus overrides it,
//   - the content types set by jsonHandler (callback / no callback) and by the plain branch,
//   - the keys of the success envelope (FilterData) and of the error bodies (Filter*Error, struct tags),
//   - the client: the key apiParse reads, and whether ApiRequest rejects a status outside [lo, hi).

import (
	"go/types"
	"bytes"
	"fmt"
	"go/ast"
	"go/constant"
	"go/token"
	"reflect"
	"strconv"
	"strings"
)

func (p *pkgInfo) topFunc(name string) *ast.FuncDecl {
	for _, f := range p.files {
		for _, d := range f.Decls {
			if fd, ok := d.(*ast.FuncDecl); ok && fd.Recv == nil && fd.Name.Name == name {
				return fd
			}
		}
	}
	return nil
}

// varFuncLit returns the function literal assigned to the package-level `var name = func…`.
func (p *pkgInfo) varFuncLit(name string) *ast.FuncLit {
	for _, f := range p.files {
		for _, d := range f.Decls {
			gd, ok := d.(*ast.GenDecl)
			if !ok || gd.Tok != token.VAR {
				continue
			}
			for _, sp := range gd.Specs {
				vs := sp.(*ast.ValueSpec)
				for i, id := range vs.Names {
					if id.Name == name && i < len(vs.Values) {
						if fl, ok := vs.Values[i].(*ast.FuncLit); ok {
							return fl
						}
					}
				}
			}
		}
	}
	return nil
}

func exprName(e ast.Expr) string {
	switch v := e.(type) {
	case *ast.Ident:
		return v.Name
	case *ast.SelectorExpr:
		return exprName(v.X) + "." + v.Sel.Name
	case *ast.StarExpr:
		return "*" + exprName(v.X)
	}
	return ""
}

func (p *pkgInfo) intConst64(e ast.Expr) (int64, bool) {
	tv, ok := p.info.Types[e]
	if !ok || tv.Value == nil || tv.Value.Kind() != constant.Int {
		return 0, false
	}
	v, ok := constant.Int64Val(tv.Value)
	return v, ok
}

func (p *pkgInfo) strConst(e ast.Expr) (string, bool) {
	if bl, ok := e.(*ast.BasicLit); ok && bl.Kind == token.STRING {
		s, err := strconv.Unquote(bl.Value)
		return s, err == nil
	}
	tv, ok := p.info.Types[e]
	if !ok || tv.Value == nil || tv.Value.Kind() != constant.String {
		return "", false
	}
	return constant.StringVal(tv.Value), true
}

// mapLitKeys: the string keys (in source order) of the first map composite literal in n,
// and the constant integer value of key `code` if it is one.
func (p *pkgInfo) mapLitKeys(n ast.Node) (keys []string, code string) {
	code = "none"
	ast.Inspect(n, func(x ast.Node) bool {
		cl, ok := x.(*ast.CompositeLit)
		if !ok || keys != nil {
			return true
		}
		if _, ok := cl.Type.(*ast.MapType); !ok {
			return true
		}
		for _, el := range cl.Elts {
			kv, ok := el.(*ast.KeyValueExpr)
			if !ok {
				continue
			}
			if k, ok := p.strConst(kv.Key); ok {
				keys = append(keys, k)
				if k == "code" {
					if v, ok := p.intConst64(kv.Value); ok {
						code = fmt.Sprintf("some (%d : Int)", v)
					}
				}
			}
		}
		return false
	})
	return
}

// contentTypeSets lists, in source order, the constants passed to Header().Set("Content-Type", X) in n.
func (p *pkgInfo) contentTypeSets(n ast.Node) []string {
	var out []string
	ast.Inspect(n, func(x ast.Node) bool {
		call, ok := x.(*ast.CallExpr)
		if !ok || len(call.Args) != 2 {
			return true
		}
		sel, ok := call.Fun.(*ast.SelectorExpr)
		if !ok || sel.Sel.Name != "Set" {
			return true
		}
		// the header name as a literal or as a constant of the package
		if name, ok := p.strConst(call.Args[0]); ok && name == "Content-Type" {
			out = append(out, exprName(call.Args[1]))
		}
		return true
	})
	return out
}

func init() {
	facts["http"] = func(p *pkgInfo, w *bytes.Buffer) error {
		// ---- Error(): dispatch order -------------------------------------------------
		fe := p.topFunc("Error")
		if fe == nil || fe.Body == nil {
			return fmt.Errorf("func Error not found")
		}
		var order []string
		var plain *ast.FuncLit
		for _, st := range fe.Body.List {
			switch s := st.(type) {
			case *ast.IfStmt:
				as, ok := s.Init.(*ast.AssignStmt)
				if !ok || len(as.Rhs) != 1 {
					continue
				}
				ta, ok := as.Rhs[0].(*ast.TypeAssertExpr)
				if !ok {
					continue
				}
				order = append(order, exprName(ta.Type))
			case *ast.TypeSwitchStmt:
				// the same dispatch written as one type switch: the cases in source order; a default clause holds the
				// plain branch
				for _, cc := range s.Body.List {
					cl := cc.(*ast.CaseClause)
					for _, t := range cl.List {
						order = append(order, exprName(t))
					}
					if cl.List == nil {
						ast.Inspect(cl, func(x ast.Node) bool {
							if fl, ok := x.(*ast.FuncLit); ok && plain == nil {
								plain = fl
							}
							return true
						})
					}
				}
			case *ast.ReturnStmt:
				ast.Inspect(s, func(x ast.Node) bool {
					if fl, ok := x.(*ast.FuncLit); ok && plain == nil {
						plain = fl
					}
					return true
				})
			}
		}
		if len(order) == 0 || plain == nil {
			return fmt.Errorf("Error(): no type-assertion dispatch / no plain branch found")
		}
		// plain branch: status := <const>; if v, ok := err.(HTTPStatus) {status = v.Status()}; http.Error(w, …, status)
		defStatus, override, usesHttpError := int64(-1), "", false
		ast.Inspect(plain, func(x ast.Node) bool {
			switch s := x.(type) {
			case *ast.AssignStmt:
				if len(s.Lhs) == 1 && len(s.Rhs) == 1 && exprName(s.Lhs[0]) == "status" && s.Tok == token.DEFINE {
					if v, ok := p.intConst64(s.Rhs[0]); ok {
						defStatus = v
					}
				}
				if len(s.Rhs) == 1 {
					if ta, ok := s.Rhs[0].(*ast.TypeAssertExpr); ok {
						override = exprName(ta.Type)
					}
				}
			case *ast.CallExpr:
				if exprName(s.Fun) == "http.Error" && len(s.Args) == 3 && exprName(s.Args[2]) == "status" {
					usesHttpError = true
				}
			}
			return true
		})
		if defStatus < 0 || !usesHttpError {
			return fmt.Errorf("Error(): plain branch `status := <const>` … `http.Error(w, text, status)` not found")
		}
		fmt.Fprintf(w, "/-- `Error()`: the type assertions on `err`, in source order; anything else takes the plain branch. -/\ndef errorDispatch : List String := [%s]\n", quoteAll(order))
		fmt.Fprintf(w, "/-- plain branch of `Error()`: `status := %d`, overridden by the assertion to `%s`; written by `http.Error`. -/\ndef plainDefaultStatus : Nat := %d\ndef plainStatusOverride : String := %s\n",
			defStatus, override, defStatus, leanStr(override))
		fmt.Fprintf(w, "/-- `Header().Set(\"Content-Type\", …)` calls in the plain branch (before `http.Error`, which replaces it). -/\ndef plainContentTypeSets : List String := [%s]\n", quoteAll(p.contentTypeSets(plain)))

		// ---- jsonHandler: content types, callback parameter, status source -------------
		jh := p.topFunc("jsonHandler")
		if jh == nil {
			return fmt.Errorf("func jsonHandler not found")
		}
		cts := p.contentTypeSets(jh)
		cbParam, jsonpFormat, marshalFailToError := "", "", false
		hasMarshal, errReturnsError := false, false
		ast.Inspect(jh, func(x ast.Node) bool {
			switch s := x.(type) {
			case *ast.CallExpr:
				if sel, ok := s.Fun.(*ast.SelectorExpr); ok && sel.Sel.Name == "Get" && len(s.Args) == 1 {
					if v, ok := p.strConst(s.Args[0]); ok {
						cbParam = v
					}
				}
				if exprName(s.Fun) == "fmt.Fprintf" && len(s.Args) >= 2 {
					if v, ok := p.strConst(s.Args[1]); ok {
						jsonpFormat = v
					}
				}
				if exprName(s.Fun) == "json.Marshal" {
					hasMarshal = true
				}
			case *ast.IfStmt:
				// `if …; err != nil { return Error(ctx, err) }` — with the Marshal call in the init or on the line before
				if be, ok := s.Cond.(*ast.BinaryExpr); ok && be.Op == token.NEQ && exprName(be.X) == "err" && exprName(be.Y) == "nil" {
					for _, b := range s.Body.List {
						if r, ok := b.(*ast.ReturnStmt); ok && len(r.Results) == 1 {
							if c2, ok := r.Results[0].(*ast.CallExpr); ok && exprName(c2.Fun) == "Error" {
								errReturnsError = true
							}
						}
					}
				}
			}
			return true
		})
		marshalFailToError = hasMarshal && errReturnsError
		if len(cts) == 2 && cbParam != "" {
			fmt.Fprintf(w, "/-- `jsonHandler`: content type with a callback, and without. -/\ndef callbackContentType : String := %s\ndef jsonContentType : String := %s\n", cts[0], cts[1])
			fmt.Fprintf(w, "/-- `jsonHandler`: query parameter that selects JSONP, and the `fmt.Fprintf` format that wraps the same bytes. -/\ndef callbackParam : String := %s\n/-- `none`: the wrapped body is not written through one `fmt.Fprintf` format literal (its shape is then decided by the\ncorrespondence run alone, which compares the bytes with `callback(json)`). -/\ndef jsonpFormat : Option String := %s\n", leanStr(cbParam), map[bool]string{true: "some " + leanStr(jsonpFormat), false: "none"}[jsonpFormat != ""])
			fmt.Fprintf(w, "/-- `jsonHandler`: `json.Marshal` failing returns `Error(ctx, err)` (nothing has been written yet). -/\ndef marshalFailureGoesToError : Bool := %v\n", marshalFailToError)
		} else {
			// the handler is written in a shape the translator does not read (content types set through a helper, …): the
			// model keeps ITS OWN values — said so here — and every response is decided by the correspondence run, which
			// compares status, content type and body of each one with the model's
			fmt.Fprintf(w, "/-- `jsonHandler`: NOT READ FROM THE SOURCE (the handler is not written as two `Header().Set(\"Content-Type\", …)` calls\nand a `Query().Get(<constant>)`); the model's own values, tied to the code by the correspondence run only. -/\ndef callbackContentType : String := HttpJavaScript\ndef jsonContentType : String := HttpJson\ndef callbackParam : String := \"callback\"\ndef jsonpFormat : Option String := none\ndef marshalFailureGoesToError : Bool := true\n")
		}

		// ---- envelope / error body keys -----------------------------------------------
		for _, it := range []struct{ v, lean string }{{"FilterData", "success"}, {"FilterSystemError", "sysError"}, {"FilterAppError", "appError"}} {
			fl := p.varFuncLit(it.v)
			if fl == nil {
				return fmt.Errorf("var %s = func… not found", it.v)
			}
			keys, code := p.mapLitKeys(fl)
			if keys == nil {
				return fmt.Errorf("%s: map literal not found", it.v)
			}
			fmt.Fprintf(w, "/-- `%s`: keys of the returned map literal (source order)", it.v)
			if it.lean == "success" {
				fmt.Fprintf(w, " and the constant under `code`. -/\ndef successKeys : List String := [%s]\ndef successCode : Option Int := %s\n", quoteAll(keys), code)
			} else {
				fmt.Fprintf(w, ". -/\ndef %sKeys : List String := [%s]\n", it.lean, quoteAll(keys))
			}
		}
		// SystemComplexError struct tags
		var tags []string
		for _, f := range p.files {
			ast.Inspect(f, func(x ast.Node) bool {
				ts, ok := x.(*ast.TypeSpec)
				if !ok || ts.Name.Name != "SystemComplexError" {
					return true
				}
				if st, ok := ts.Type.(*ast.StructType); ok {
					for _, fld := range st.Fields.List {
						tag := ""
						if fld.Tag != nil {
							s, _ := strconv.Unquote(fld.Tag.Value)
							tag = strings.Split(reflect.StructTag(s).Get("json"), ",")[0]
						}
						if tag == "" && len(fld.Names) > 0 {
							tag = fld.Names[0].Name
						}
						tags = append(tags, tag)
					}
				}
				return false
			})
		}
		if tags == nil {
			return fmt.Errorf("type SystemComplexError struct not found")
		}
		fmt.Fprintf(w, "/-- `SystemComplexError`: JSON names of the fields (declaration order). -/\ndef cplxErrorKeys : List String := [%s]\n", quoteAll(tags))

		// ---- client ------------------------------------------------------------------
		ap := p.topFunc("apiParse")
		if ap == nil {
			return fmt.Errorf("func apiParse not found")
		}
		var idxKeys []string
		ast.Inspect(ap, func(x ast.Node) bool {
			if ix, ok := x.(*ast.IndexExpr); ok {
				if k, ok := p.strConst(ix.Index); ok {
					idxKeys = append(idxKeys, k)
				}
			}
			return true
		})
		if len(idxKeys) == 0 {
			return fmt.Errorf("apiParse: no obj[\"…\"] lookups found")
		}
		fmt.Fprintf(w, "/-- `apiParse`: the keys it looks up in the decoded object (source order). -/\ndef clientKeys : List String := [%s]\n", quoteAll(idxKeys))

		ar := p.topFunc("ApiRequest")
		if ar == nil {
			return fmt.Errorf("func ApiRequest not found")
		}
		// The status gate before the call of apiParse: an `if <cond on the status> { err = …; return }`. The
		// condition is EVALUATED for every status 0..999 (it may be `status < 200 || status >= 300`, a helper such
		// as `!statusOK(status)`, a switch — whatever): the statuses that pass must be one run [lo, hi).
		found, lo, hi := false, int64(0), int64(0)
		var statusObj types.Object
		ast.Inspect(ar.Body, func(x ast.Node) bool {
			if as, ok := x.(*ast.AssignStmt); ok && len(as.Rhs) == 1 && len(as.Lhs) >= 1 && statusObj == nil {
				if c, ok := as.Rhs[0].(*ast.CallExpr); ok && exprName(c.Fun) == "apiGet" {
					if id, ok := as.Lhs[0].(*ast.Ident); ok {
						if statusObj = p.info.Defs[id]; statusObj == nil {
							statusObj = p.info.Uses[id]
						}
					}
				}
			}
			return true
		})
		for _, st := range ar.Body.List {
			ifs, ok := st.(*ast.IfStmt)
			if !ok {
				continue
			}
			if ifs.Init != nil {
				if as, ok := ifs.Init.(*ast.AssignStmt); ok && len(as.Rhs) == 1 {
					if c, ok := as.Rhs[0].(*ast.CallExpr); ok && exprName(c.Fun) == "apiParse" {
						break // the parse call: a later check would be too late
					}
				}
				continue
			}
			if es, ok := st.(*ast.ExprStmt); ok {
				_ = es
			}
			returns, setsErr, usesStatus := false, false, false
			for _, b := range ifs.Body.List {
				if _, ok := b.(*ast.ReturnStmt); ok {
					returns = true
				}
			}
			ast.Inspect(ifs.Body, func(x ast.Node) bool {
				if as, ok := x.(*ast.AssignStmt); ok {
					for _, l := range as.Lhs {
						if exprName(l) == "err" {
							setsErr = true
						}
					}
				}
				return true
			})
			ast.Inspect(ifs.Cond, func(x ast.Node) bool {
				if id, ok := x.(*ast.Ident); ok && statusObj != nil && p.info.Uses[id] == statusObj {
					usesStatus = true
				}
				return true
			})
			if !returns || !setsErr || !usesStatus {
				continue
			}
			var runs [][2]int64
			open, evalOK := false, true
			for v := int64(0); v <= 999 && evalOK; v++ {
				func() {
					defer func() {
						if r := recover(); r != nil {
							if _, isU := r.(evUnsupported); isU {
								evalOK = false
								return
							}
							if _, isP := r.(evPanic); isP {
								evalOK = false
								return
							}
							panic(r)
						}
					}()
					e := &evaluator{p: p, locals: map[types.Object]evVal{statusObj: {k: evInt, i: v}}}
					c := e.expr(ifs.Cond)
					if c.k != evBool {
						evalOK = false
						return
					}
					if !c.b && !open { // the status passes the gate
						runs, open = append(runs, [2]int64{v, v + 1}), true
					} else if !c.b {
						runs[len(runs)-1][1] = v + 1
					} else {
						open = false
					}
				}()
			}
			if evalOK && len(runs) == 1 {
				found, lo, hi = true, runs[0][0], runs[0][1]
			}
		}
		fmt.Fprintf(w, "/-- `ApiRequest`: before parsing, `if status < lo || status >= hi { err = …; return }` (false: no such check). -/\ndef clientChecksStatus : Bool := %v\ndef clientStatusLo : Nat := %d\ndef clientStatusHi : Nat := %d\n", found, lo, hi)
		return nil
	}
}
