package main

import (
	"bytes"
	"fmt"
)

// facts for package aac: `SampleRateIndex.ToHz` under the short name the model uses. The method itself is
// translated like every other enum helper (printed when it is a plain switch or an index into a local table,
// EVALUATED over all 256 receiver values otherwise — see eval.go) as `SampleRateIndex_ToHz`. A receiver value
// outside the frequency table that no guard catches shows as `.panic` in the evaluated table (and breaks the
// totality theorem), whatever the guard and the table look like in the source.
func init() { facts["aac"] = factsAac }

func factsAac(p *pkgInfo, w *bytes.Buffer) error {
	if fd := p.funcDecl("SampleRateIndex", "ToHz"); fd == nil {
		return fmt.Errorf("func (v SampleRateIndex) ToHz() not found")
	}
	w.WriteString("/-- Go `func (v SampleRateIndex) ToHz()` (the translated helper under the name the model uses). -/\n" +
		"def ToHz (v : Nat) : Res Nat := SampleRateIndex_ToHz v\n")
	return nil
}
