package main

import (
	"bytes"
	"fmt"
	"go/ast"
	"go/token"
	"strings"
)

// facts for package aac: `SampleRateIndex.ToHz` as a table lookup with an optional
// bounds guard. The generic enum-helper translator (main.go, shape B) only knows the
// unguarded `tbl := []T{…}; return tbl[v]` form; here both forms are translated
// under ONE name so that removing the guard changes the generated definition (and
// breaks the totality theorem) instead of making the model stop compiling:
//
//	tbl := []int{c0, c1, …}
//	[ if int(v) >= len(tbl) { return D } ]     // optional guard
//	return tbl[v]
//
// becomes  toHzTable = [c0, c1, …],  toHzGuard = some D | none,  ToHz v.
func init() { facts["aac"] = factsAac }

func factsAac(p *pkgInfo, w *bytes.Buffer) error {
	var fd *ast.FuncDecl
	for _, f := range p.files {
		for _, d := range f.Decls {
			x, ok := d.(*ast.FuncDecl)
			if !ok || x.Recv == nil || x.Name.Name != "ToHz" || len(x.Recv.List) != 1 {
				continue
			}
			if id, ok := x.Recv.List[0].Type.(*ast.Ident); ok && id.Name == "SampleRateIndex" {
				fd = x
			}
		}
	}
	if fd == nil || fd.Body == nil || len(fd.Recv.List[0].Names) != 1 {
		return fmt.Errorf("func (v SampleRateIndex) ToHz() not found")
	}
	recv := fd.Recv.List[0].Names[0].Name
	isRecv := func(e ast.Expr) bool {
		for {
			switch x := e.(type) {
			case *ast.ParenExpr:
				e = x.X
				continue
			case *ast.CallExpr: // conversion int(v), uint(v), …
				if len(x.Args) == 1 {
					if tv, ok := p.info.Types[x.Fun]; ok && tv.IsType() {
						e = x.Args[0]
						continue
					}
				}
			}
			break
		}
		id, ok := e.(*ast.Ident)
		return ok && id.Name == recv
	}
	st := fd.Body.List
	if len(st) != 2 && len(st) != 3 {
		return fmt.Errorf("SampleRateIndex.ToHz: unrecognised body shape (%d statements)", len(st))
	}
	as, ok := st[0].(*ast.AssignStmt)
	if !ok || len(as.Lhs) != 1 || len(as.Rhs) != 1 {
		return fmt.Errorf("SampleRateIndex.ToHz: first statement is not `tbl := []int{…}`")
	}
	tbl, ok1 := as.Lhs[0].(*ast.Ident)
	cl, ok2 := as.Rhs[0].(*ast.CompositeLit)
	if !ok1 || !ok2 {
		return fmt.Errorf("SampleRateIndex.ToHz: first statement is not `tbl := []int{…}`")
	}
	var vals []string
	for _, e := range cl.Elts {
		v, ty, ok := p.constOf(e)
		if !ok || ty != "Nat" {
			return fmt.Errorf("SampleRateIndex.ToHz: non-constant / negative table element")
		}
		vals = append(vals, v)
	}
	guard := "none"
	if len(st) == 3 {
		is, ok := st[1].(*ast.IfStmt)
		if !ok || is.Init != nil || is.Else != nil || len(is.Body.List) != 1 {
			return fmt.Errorf("SampleRateIndex.ToHz: middle statement is not a plain guard")
		}
		be, ok := is.Cond.(*ast.BinaryExpr)
		if !ok || be.Op != token.GEQ || !isRecv(be.X) {
			return fmt.Errorf("SampleRateIndex.ToHz: guard condition is not `v >= len(tbl)`")
		}
		ce, ok := be.Y.(*ast.CallExpr)
		if !ok || len(ce.Args) != 1 {
			return fmt.Errorf("SampleRateIndex.ToHz: guard condition is not `v >= len(tbl)`")
		}
		fn, ok1 := ce.Fun.(*ast.Ident)
		arg, ok2 := ce.Args[0].(*ast.Ident)
		if !ok1 || !ok2 || fn.Name != "len" || arg.Name != tbl.Name {
			return fmt.Errorf("SampleRateIndex.ToHz: guard condition is not `v >= len(tbl)`")
		}
		ret, ok := is.Body.List[0].(*ast.ReturnStmt)
		if !ok || len(ret.Results) != 1 {
			return fmt.Errorf("SampleRateIndex.ToHz: guard body is not a single return")
		}
		d, ty, ok := p.constOf(ret.Results[0])
		if !ok || ty != "Nat" {
			return fmt.Errorf("SampleRateIndex.ToHz: guard returns a non-constant")
		}
		guard = "some " + d
	}
	ret, ok := st[len(st)-1].(*ast.ReturnStmt)
	if !ok || len(ret.Results) != 1 {
		return fmt.Errorf("SampleRateIndex.ToHz: last statement is not `return tbl[v]`")
	}
	ix, ok := ret.Results[0].(*ast.IndexExpr)
	if !ok || !isRecv(ix.Index) {
		return fmt.Errorf("SampleRateIndex.ToHz: last statement is not `return tbl[v]`")
	}
	if x, ok := ix.X.(*ast.Ident); !ok || x.Name != tbl.Name {
		return fmt.Errorf("SampleRateIndex.ToHz: last statement is not `return tbl[v]`")
	}
	fmt.Fprintf(w, "/-- Go `SampleRateIndex.ToHz`: the %d-element slice literal `%s`. -/\ndef toHzTable : List Nat := [%s]\n",
		len(vals), tbl.Name, strings.Join(vals, ", "))
	fmt.Fprintf(w, "/-- Go `SampleRateIndex.ToHz`: `some d` when `if %s >= len(%s) { return d }` precedes the lookup, `none` when the lookup is unguarded. -/\ndef toHzGuard : Option Nat := %s\n",
		recv, tbl.Name, guard)
	w.WriteString("/-- Go `func (v SampleRateIndex) ToHz()` with Go indexing semantics (out of range = panic unless guarded). -/\n" +
		"def ToHz (v : Nat) : Res Nat :=\n" +
		"  match toHzGuard with\n" +
		"  | some d => if v ≥ toHzTable.length then .ok d else idx toHzTable v\n" +
		"  | none => idx toHzTable v\n")
	return nil
}
