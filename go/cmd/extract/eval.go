package main

// A small evaluator for the library's enum helpers (methods without parameters on named 8-bit integer types:
// String, ToHz, ToProfile, …). When the body is not one of the shapes the static translator prints as it stands
// (a switch on the receiver, an index into a local table), the method is EVALUATED for every value of the
// receiver's type (all 256) from its syntax tree and the resulting table is printed in a canonical form. Whatever
// the body looks like — a switch, a package-level lookup array with a bounds check, a map with a comma-ok test,
// range comparisons, a helper's helper — the generated definition says what the method returns, so a rewrite
// that keeps the function keeps the definition, and one that changes a value changes the definition (and the
// theorems over it are re-checked).
//
// Supported: return / if (with an init `x := e` or `x, ok := m[k]`) / switch (tag or tagless, no fallthrough) /
// blocks / `x := e`; identifiers (receiver, locals, constants, package-level variables initialised by literals of
// constants), literals, unary and binary operators on integers, strings and booleans, conversions between
// integer types (with wrap-around of the target size), len, indexing of arrays, slices, strings and maps
// (out-of-range = the Go panic), calls of other parameterless methods of the same receiver type. Anything else:
// the helper stays untranslated, as before.

import (
	"fmt"
	"go/ast"
	"go/constant"
	"go/token"
	"go/types"
	"sort"
	"strings"
)

type evKind int

const (
	evInt evKind = iota
	evStr
	evBool
	evList
	evMap
)

type evVal struct {
	k    evKind
	i    int64
	s    string
	b    bool
	list []evVal
	m    map[string]evVal // key: canonical text of the key value
}

func (v evVal) key() string {
	switch v.k {
	case evInt:
		return fmt.Sprint("i", v.i)
	case evStr:
		return "s" + v.s
	case evBool:
		return fmt.Sprint("b", v.b)
	}
	return "?"
}

type evPanic struct{}
type evUnsupported struct{ why string }

type evaluator struct {
	p      *pkgInfo
	locals map[types.Object]evVal
	depth  int
}

func (e *evaluator) bad(format string, a ...interface{}) { panic(evUnsupported{fmt.Sprintf(format, a...)}) }

func (e *evaluator) fromConst(c constant.Value) evVal {
	switch c.Kind() {
	case constant.Int:
		if i, ok := constant.Int64Val(c); ok {
			return evVal{k: evInt, i: i}
		}
	case constant.String:
		return evVal{k: evStr, s: constant.StringVal(c)}
	case constant.Bool:
		return evVal{k: evBool, b: constant.BoolVal(c)}
	}
	e.bad("constant of kind %v", c.Kind())
	return evVal{}
}

// wrap applies Go's conversion to a sized integer type.
func wrapInt(i int64, t types.Type) int64 {
	b, ok := t.Underlying().(*types.Basic)
	if !ok {
		return i
	}
	switch b.Kind() {
	case types.Uint8:
		return int64(uint8(i))
	case types.Uint16:
		return int64(uint16(i))
	case types.Uint32:
		return int64(uint32(i))
	case types.Int8:
		return int64(int8(i))
	case types.Int16:
		return int64(int16(i))
	case types.Int32:
		return int64(int32(i))
	}
	return i
}

func (e *evaluator) pkgVar(obj types.Object) (evVal, bool) {
	for _, f := range e.p.files {
		for _, d := range f.Decls {
			gd, ok := d.(*ast.GenDecl)
			if !ok || gd.Tok != token.VAR {
				continue
			}
			for _, sp := range gd.Specs {
				vs := sp.(*ast.ValueSpec)
				for i, id := range vs.Names {
					if e.p.info.Defs[id] == obj && i < len(vs.Values) {
						return e.expr(vs.Values[i]), true
					}
				}
			}
		}
	}
	return evVal{}, false
}

func (e *evaluator) composite(cl *ast.CompositeLit) evVal {
	tv := e.p.info.Types[cl]
	switch tv.Type.Underlying().(type) {
	case *types.Map:
		m := map[string]evVal{}
		for _, el := range cl.Elts {
			kv, ok := el.(*ast.KeyValueExpr)
			if !ok {
				e.bad("map literal element")
			}
			m[e.expr(kv.Key).key()] = e.expr(kv.Value)
		}
		return evVal{k: evMap, m: m}
	case *types.Slice, *types.Array:
		var list []evVal
		next := int64(0)
		zero := evVal{k: evInt}
		var elemT types.Type
		switch t := tv.Type.Underlying().(type) {
		case *types.Slice:
			elemT = t.Elem()
		case *types.Array:
			elemT = t.Elem()
		}
		if b, ok := elemT.Underlying().(*types.Basic); ok {
			switch {
			case b.Info()&types.IsString != 0:
				zero = evVal{k: evStr}
			case b.Info()&types.IsBoolean != 0:
				zero = evVal{k: evBool}
			}
		}
		put := func(ix int64, v evVal) {
			if ix < 0 || ix > 1<<16 {
				e.bad("literal index %d", ix)
			}
			for int64(len(list)) <= ix {
				list = append(list, zero)
			}
			list[ix] = v
		}
		for _, el := range cl.Elts {
			if kv, ok := el.(*ast.KeyValueExpr); ok {
				k := e.expr(kv.Key)
				if k.k != evInt {
					e.bad("array literal key")
				}
				next = k.i
				put(next, e.expr(kv.Value))
			} else {
				put(next, e.expr(el))
			}
			next++
		}
		if at, ok := tv.Type.Underlying().(*types.Array); ok {
			for int64(len(list)) < at.Len() {
				list = append(list, zero)
			}
		}
		return evVal{k: evList, list: list}
	}
	e.bad("composite literal of type %s", tv.Type)
	return evVal{}
}

func (e *evaluator) expr(x ast.Expr) evVal {
	if tv, ok := e.p.info.Types[x]; ok && tv.Value != nil {
		return e.fromConst(tv.Value)
	}
	switch n := x.(type) {
	case *ast.ParenExpr:
		return e.expr(n.X)
	case *ast.Ident:
		obj := e.p.info.Uses[n]
		if obj == nil {
			obj = e.p.info.Defs[n]
		}
		if v, ok := e.locals[obj]; ok {
			return v
		}
		if _, isVar := obj.(*types.Var); isVar && obj.Parent() == e.p.pkg.Scope() {
			if v, ok := e.pkgVar(obj); ok {
				return v
			}
		}
		e.bad("identifier %s", n.Name)
	case *ast.CompositeLit:
		return e.composite(n)
	case *ast.UnaryExpr:
		v := e.expr(n.X)
		switch {
		case n.Op == token.NOT && v.k == evBool:
			return evVal{k: evBool, b: !v.b}
		case n.Op == token.SUB && v.k == evInt:
			return evVal{k: evInt, i: wrapInt(-v.i, e.p.info.Types[x].Type)}
		case n.Op == token.ADD && v.k == evInt:
			return v
		}
		e.bad("unary %s", n.Op)
	case *ast.BinaryExpr:
		if n.Op == token.LAND || n.Op == token.LOR {
			l := e.expr(n.X)
			if l.k != evBool {
				e.bad("logical operand")
			}
			if (n.Op == token.LAND && !l.b) || (n.Op == token.LOR && l.b) {
				return l
			}
			return e.expr(n.Y)
		}
		l, r := e.expr(n.X), e.expr(n.Y)
		if l.k != r.k {
			e.bad("operands of different kinds")
		}
		cmp := func(c int) evVal {
			switch n.Op {
			case token.EQL:
				return evVal{k: evBool, b: c == 0}
			case token.NEQ:
				return evVal{k: evBool, b: c != 0}
			case token.LSS:
				return evVal{k: evBool, b: c < 0}
			case token.LEQ:
				return evVal{k: evBool, b: c <= 0}
			case token.GTR:
				return evVal{k: evBool, b: c > 0}
			case token.GEQ:
				return evVal{k: evBool, b: c >= 0}
			}
			e.bad("operator %s", n.Op)
			return evVal{}
		}
		switch l.k {
		case evInt:
			rt := e.p.info.Types[x].Type
			switch n.Op {
			case token.ADD:
				return evVal{k: evInt, i: wrapInt(l.i+r.i, rt)}
			case token.SUB:
				return evVal{k: evInt, i: wrapInt(l.i-r.i, rt)}
			case token.MUL:
				return evVal{k: evInt, i: wrapInt(l.i*r.i, rt)}
			case token.QUO, token.REM:
				if r.i == 0 {
					panic(evPanic{})
				}
				if n.Op == token.QUO {
					return evVal{k: evInt, i: wrapInt(l.i/r.i, rt)}
				}
				return evVal{k: evInt, i: wrapInt(l.i%r.i, rt)}
			case token.AND:
				return evVal{k: evInt, i: l.i & r.i}
			case token.OR:
				return evVal{k: evInt, i: l.i | r.i}
			case token.XOR:
				return evVal{k: evInt, i: wrapInt(l.i^r.i, rt)}
			case token.SHL:
				if r.i < 0 || r.i > 62 {
					e.bad("shift count")
				}
				return evVal{k: evInt, i: wrapInt(l.i<<uint(r.i), rt)}
			case token.SHR:
				if r.i < 0 || r.i > 62 {
					e.bad("shift count")
				}
				return evVal{k: evInt, i: l.i >> uint(r.i)}
			}
			c := 0
			if l.i < r.i {
				c = -1
			} else if l.i > r.i {
				c = 1
			}
			return cmp(c)
		case evStr:
			if n.Op == token.ADD {
				return evVal{k: evStr, s: l.s + r.s}
			}
			return cmp(strings.Compare(l.s, r.s))
		case evBool:
			if n.Op == token.EQL {
				return evVal{k: evBool, b: l.b == r.b}
			}
			if n.Op == token.NEQ {
				return evVal{k: evBool, b: l.b != r.b}
			}
		}
		e.bad("binary %s", n.Op)
	case *ast.IndexExpr:
		base, ix := e.expr(n.X), e.expr(n.Index)
		switch base.k {
		case evList:
			if ix.k != evInt {
				e.bad("index kind")
			}
			if ix.i < 0 || ix.i >= int64(len(base.list)) {
				panic(evPanic{})
			}
			return base.list[ix.i]
		case evStr:
			if ix.i < 0 || ix.i >= int64(len(base.s)) {
				panic(evPanic{})
			}
			return evVal{k: evInt, i: int64(base.s[ix.i])}
		case evMap:
			if v, ok := base.m[ix.key()]; ok {
				return v
			}
			// the zero value of the map's element type
			mt := e.p.info.Types[n.X].Type.Underlying().(*types.Map)
			if b, ok := mt.Elem().Underlying().(*types.Basic); ok {
				switch {
				case b.Info()&types.IsString != 0:
					return evVal{k: evStr}
				case b.Info()&types.IsBoolean != 0:
					return evVal{k: evBool}
				case b.Info()&types.IsInteger != 0:
					return evVal{k: evInt}
				}
			}
			e.bad("zero value of map element")
		}
		e.bad("index into %v", base.k)
	case *ast.CallExpr:
		// conversion T(x)
		if tv, ok := e.p.info.Types[n.Fun]; ok && tv.IsType() && len(n.Args) == 1 {
			v := e.expr(n.Args[0])
			if b, ok := tv.Type.Underlying().(*types.Basic); ok {
				if b.Info()&types.IsInteger != 0 && v.k == evInt {
					return evVal{k: evInt, i: wrapInt(v.i, tv.Type)}
				}
				if b.Info()&types.IsString != 0 && v.k == evStr {
					return v
				}
			}
			e.bad("conversion to %s", tv.Type)
		}
		if id, ok := n.Fun.(*ast.Ident); ok && id.Name == "len" && len(n.Args) == 1 {
			if _, isBuiltin := e.p.info.Uses[id].(*types.Builtin); isBuiltin {
				v := e.expr(n.Args[0])
				switch v.k {
				case evList:
					return evVal{k: evInt, i: int64(len(v.list))}
				case evStr:
					return evVal{k: evInt, i: int64(len(v.s))}
				case evMap:
					return evVal{k: evInt, i: int64(len(v.m))}
				}
			}
		}
		if id, ok := n.Fun.(*ast.Ident); ok && id.Name == "append" && len(n.Args) >= 1 && !n.Ellipsis.IsValid() {
			if _, isBuiltin := e.p.info.Uses[id].(*types.Builtin); isBuiltin {
				base := e.expr(n.Args[0])
				if base.k != evList {
					e.bad("append to a non-list")
				}
				out := append([]evVal(nil), base.list...)
				for _, a := range n.Args[1:] {
					out = append(out, e.expr(a))
				}
				return evVal{k: evList, list: out}
			}
		}
		if se, ok := n.Fun.(*ast.SelectorExpr); ok && len(n.Args) == 2 {
			if fn, ok := e.p.info.Uses[se.Sel].(*types.Func); ok && fn.FullName() == "strings.Join" {
				l, sep := e.expr(n.Args[0]), e.expr(n.Args[1])
				if l.k != evList || sep.k != evStr {
					e.bad("strings.Join arguments")
				}
				parts := make([]string, len(l.list))
				for i, x := range l.list {
					if x.k != evStr {
						e.bad("strings.Join element")
					}
					parts[i] = x.s
				}
				return evVal{k: evStr, s: strings.Join(parts, sep.s)}
			}
		}
		// a package-level function or a method of this package with parameters of basic types: bind and evaluate
		if v, ok := e.callLocal(n); ok {
			return v
		}
		// another parameterless method on an integer-typed value: x.M()
		if se, ok := n.Fun.(*ast.SelectorExpr); ok && len(n.Args) == 0 {
			if sel, ok := e.p.info.Selections[se]; ok && sel.Kind() == types.MethodVal {
				if fn, ok := sel.Obj().(*types.Func); ok {
					if fd := e.p.declOfFunc(fn); fd != nil && fd.Body != nil && fd.Recv != nil && len(fd.Recv.List[0].Names) == 1 {
						recv := e.expr(se.X)
						if recv.k == evInt && e.depth < 8 {
							sub := &evaluator{p: e.p, locals: map[types.Object]evVal{}, depth: e.depth + 1}
							sub.locals[e.p.info.Defs[fd.Recv.List[0].Names[0]]] = recv
							if r, ok := sub.block(fd.Body.List); ok {
								return r
							}
							e.bad("callee %s does not return", fn.Name())
						}
					}
				}
			}
		}
		e.bad("call %s", e.p.src(n.Fun))
	}
	e.bad("expression %T", x)
	return evVal{}
}

func (e *evaluator) define(lhs ast.Expr, v evVal) {
	id, ok := lhs.(*ast.Ident)
	if !ok {
		e.bad("assignment target")
	}
	if id.Name == "_" {
		return
	}
	obj := e.p.info.Defs[id]
	if obj == nil {
		obj = e.p.info.Uses[id]
	}
	if obj == nil {
		e.bad("assignment to %s", id.Name)
	}
	if _, isVar := obj.(*types.Var); !isVar || obj.Parent() == e.p.pkg.Scope() {
		e.bad("assignment to a package-level name")
	}
	e.locals[obj] = v
}

func (e *evaluator) assign(as *ast.AssignStmt) {
	if as.Tok != token.DEFINE && as.Tok != token.ASSIGN {
		e.bad("assignment operator %s", as.Tok)
	}
	if len(as.Lhs) == 2 && len(as.Rhs) == 1 {
		ix, ok := as.Rhs[0].(*ast.IndexExpr)
		if !ok {
			e.bad("two-value assignment")
		}
		base, k := e.expr(ix.X), e.expr(ix.Index)
		if base.k != evMap {
			e.bad("comma-ok on a non-map")
		}
		v, found := base.m[k.key()]
		if !found {
			v = e.expr(&ast.IndexExpr{X: ix.X, Index: ix.Index}) // zero value path
		}
		e.define(as.Lhs[0], v)
		e.define(as.Lhs[1], evVal{k: evBool, b: found})
		return
	}
	if len(as.Lhs) != len(as.Rhs) {
		e.bad("assignment arity")
	}
	vals := make([]evVal, len(as.Rhs))
	for i, r := range as.Rhs {
		vals[i] = e.expr(r)
	}
	for i, l := range as.Lhs {
		e.define(l, vals[i])
	}
}

// block executes statements; ok is true when a return was reached.
func (e *evaluator) block(stmts []ast.Stmt) (evVal, bool) {
	for _, st := range stmts {
		switch s := st.(type) {
		case *ast.ReturnStmt:
			if len(s.Results) != 1 {
				e.bad("return arity")
			}
			return e.expr(s.Results[0]), true
		case *ast.BlockStmt:
			if v, ok := e.block(s.List); ok {
				return v, true
			}
		case *ast.AssignStmt:
			e.assign(s)
		case *ast.DeclStmt:
			gd, ok := s.Decl.(*ast.GenDecl)
			if !ok || gd.Tok != token.VAR {
				e.bad("declaration")
			}
			for _, sp := range gd.Specs {
				vs := sp.(*ast.ValueSpec)
				if len(vs.Values) == 0 {
					// zero value of a basic type
					for _, id := range vs.Names {
						zero := evVal{k: evInt}
						if _, isSlice := e.p.info.Defs[id].Type().Underlying().(*types.Slice); isSlice {
							e.define(id, evVal{k: evList})
							continue
						}
						b, ok := e.p.info.Defs[id].Type().Underlying().(*types.Basic)
						switch {
						case !ok:
							e.bad("var of a non-basic type without initialiser")
						case b.Info()&types.IsString != 0:
							zero = evVal{k: evStr}
						case b.Info()&types.IsBoolean != 0:
							zero = evVal{k: evBool}
						case b.Info()&types.IsInteger == 0:
							e.bad("var of type %s without initialiser", b)
						}
						e.define(id, zero)
					}
					continue
				}
				if len(vs.Values) != len(vs.Names) {
					e.bad("var initialiser arity")
				}
				for i, id := range vs.Names {
					e.define(id, e.expr(vs.Values[i]))
				}
			}
		case *ast.IfStmt:
			cur := s
			for cur != nil {
				if cur.Init != nil {
					as, ok := cur.Init.(*ast.AssignStmt)
					if !ok {
						e.bad("if init")
					}
					e.assign(as)
				}
				c := e.expr(cur.Cond)
				if c.k != evBool {
					e.bad("condition")
				}
				if c.b {
					if v, ok := e.block(cur.Body.List); ok {
						return v, true
					}
					break
				}
				switch el := cur.Else.(type) {
				case nil:
					cur = nil
				case *ast.IfStmt:
					cur = el
				case *ast.BlockStmt:
					if v, ok := e.block(el.List); ok {
						return v, true
					}
					cur = nil
				default:
					e.bad("else")
				}
			}
		case *ast.SwitchStmt:
			if s.Init != nil {
				as, ok := s.Init.(*ast.AssignStmt)
				if !ok {
					e.bad("switch init")
				}
				e.assign(as)
			}
			var tag *evVal
			if s.Tag != nil {
				t := e.expr(s.Tag)
				tag = &t
			}
			var chosen, def *ast.CaseClause
			for _, cc := range s.Body.List {
				c := cc.(*ast.CaseClause)
				if c.List == nil {
					def = c
					continue
				}
				for _, ce := range c.List {
					v := e.expr(ce)
					if (tag != nil && v.k == tag.k && v.key() == tag.key()) || (tag == nil && v.k == evBool && v.b) {
						chosen = c
						break
					}
				}
				if chosen != nil {
					break
				}
			}
			if chosen == nil {
				chosen = def
			}
			if chosen != nil {
				for _, b := range chosen.Body {
					if br, ok := b.(*ast.BranchStmt); ok && br.Tok == token.FALLTHROUGH {
						e.bad("fallthrough")
					}
				}
				if v, ok := e.block(chosen.Body); ok {
					return v, true
				}
			}
		default:
			e.bad("statement %T", st)
		}
	}
	return evVal{}, false
}

// evalTabulate evaluates a parameterless method of a named uint8/int8 type for every receiver value and prints
// the table canonically: values with the same result are grouped, groups in the order of their smallest member,
// the most frequent result last as the default. Returns "" and a reason when the body is outside the subset.
func (p *pkgInfo) evalTabulate(fd *ast.FuncDecl) (string, string) {
	if fd.Recv == nil || len(fd.Recv.List) != 1 || fd.Body == nil || len(fd.Recv.List[0].Names) != 1 {
		return "", "no named receiver"
	}
	if fd.Type.Params != nil && len(fd.Type.Params.List) != 0 {
		return "", "has parameters"
	}
	if fd.Type.Results == nil || len(fd.Type.Results.List) != 1 {
		return "", "not single result"
	}
	recvT := p.info.Types[fd.Recv.List[0].Type].Type
	if _, isPtr := recvT.(*types.Pointer); isPtr {
		return "", "pointer receiver"
	}
	tname, ok := isIntNamed(recvT)
	if !ok {
		return "", "receiver not a named integer"
	}
	b := recvT.Underlying().(*types.Basic)
	lo, hi := int64(0), int64(255)
	switch b.Kind() {
	case types.Uint8:
	case types.Int8:
		lo, hi = -128, 127
	default:
		return "", "receiver type is wider than 8 bits (no exhaustive evaluation)"
	}
	recvObj := p.info.Defs[fd.Recv.List[0].Names[0]]
	type outcome struct {
		text string
		ty   string
	}
	results := map[int64]outcome{}
	why := ""
	for v := lo; v <= hi && why == ""; v++ {
		func() {
			defer func() {
				if r := recover(); r != nil {
					switch x := r.(type) {
					case evPanic:
						results[v] = outcome{".panic", ""}
					case evUnsupported:
						why = "not evaluable: " + x.why
					default:
						panic(r)
					}
				}
			}()
			e := &evaluator{p: p, locals: map[types.Object]evVal{recvObj: {k: evInt, i: v}}}
			r, ok := e.block(fd.Body.List)
			if !ok {
				why = "not evaluable: no return reached"
				return
			}
			switch r.k {
			case evStr:
				results[v] = outcome{".ok " + leanStr(r.s), "String"}
			case evInt:
				if r.i < 0 {
					results[v] = outcome{fmt.Sprintf(".ok (%d)", r.i), "Int"}
				} else {
					results[v] = outcome{fmt.Sprintf(".ok %d", r.i), "Nat"}
				}
			case evBool:
				results[v] = outcome{fmt.Sprintf(".ok %v", r.b), "Bool"}
			default:
				why = "not evaluable: result kind"
			}
		}()
	}
	if why != "" {
		return "", why
	}
	if lo < 0 {
		return "", "signed receiver (table over Nat not defined)"
	}
	rty := ""
	groups := map[string][]int64{}
	for v := lo; v <= hi; v++ {
		o := results[v]
		if o.ty != "" {
			if rty != "" && rty != o.ty && !(rty == "Int" && o.ty == "Nat") && !(rty == "Nat" && o.ty == "Int") {
				return "", "results of different types"
			}
			if rty == "" || o.ty == "Int" {
				rty = o.ty
			}
		}
		groups[o.text] = append(groups[o.text], v)
	}
	if rty == "" {
		return "", "panics for every value"
	}
	var keys []string
	for k := range groups {
		keys = append(keys, k)
	}
	def := keys[0]
	for _, k := range keys {
		if len(groups[k]) > len(groups[def]) || (len(groups[k]) == len(groups[def]) && groups[k][0] > groups[def][0]) {
			def = k
		}
	}
	sort.Slice(keys, func(i, j int) bool { return groups[keys[i]][0] < groups[keys[j]][0] })
	var sb strings.Builder
	fmt.Fprintf(&sb, "/-- Go `func (%s %s) %s()`: EVALUATED for all 256 receiver values (the body is not a plain switch on the\nreceiver); values with the same result grouped, the most frequent result last. -/\ndef %s_%s (v : Nat) : Res %s :=\n",
		fd.Recv.List[0].Names[0].Name, tname, fd.Name.Name, tname, fd.Name.Name, rty)
	for _, k := range keys {
		if k == def {
			continue
		}
		var conds []string
		for _, v := range groups[k] {
			conds = append(conds, fmt.Sprintf("v = %d", v))
		}
		fmt.Fprintf(&sb, "  if %s then %s else\n", strings.Join(conds, " ∨ "), k)
	}
	fmt.Fprintf(&sb, "  %s\n", def)
	return sb.String(), ""
}

// evalBoolRanges evaluates a package-level `func f(x int…) bool` for every x in [lo, hi] and returns the maximal
// runs of arguments it accepts.
func (p *pkgInfo) evalBoolRanges(fd *ast.FuncDecl, lo, hi int64) (runs [][2]int64, why string) {
	if fd == nil || fd.Body == nil || fd.Recv != nil || fd.Type.Params == nil || len(fd.Type.Params.List) != 1 ||
		len(fd.Type.Params.List[0].Names) != 1 || fd.Type.Results == nil || len(fd.Type.Results.List) != 1 {
		return nil, "not a function of one named parameter with one result"
	}
	param := p.info.Defs[fd.Type.Params.List[0].Names[0]]
	open := false
	for v := lo; v <= hi && why == ""; v++ {
		func() {
			defer func() {
				if r := recover(); r != nil {
					switch x := r.(type) {
					case evPanic:
						why = fmt.Sprintf("panics for %d", v)
					case evUnsupported:
						why = "not evaluable: " + x.why
					default:
						panic(r)
					}
				}
			}()
			e := &evaluator{p: p, locals: map[types.Object]evVal{param: {k: evInt, i: v}}}
			r, ok := e.block(fd.Body.List)
			if !ok || r.k != evBool {
				why = "not evaluable: no boolean result"
				return
			}
			if r.b && !open {
				runs = append(runs, [2]int64{v, v})
				open = true
			} else if r.b {
				runs[len(runs)-1][1] = v
			} else {
				open = false
			}
		}()
	}
	return runs, why
}

// callLocal evaluates a call of a function or method declared in this package (any number of parameters and a
// single result), binding receiver and parameters to the evaluated arguments.
func (e *evaluator) callLocal(n *ast.CallExpr) (evVal, bool) {
	if e.depth >= 8 {
		return evVal{}, false
	}
	var fn *types.Func
	var recvExpr ast.Expr
	switch f := n.Fun.(type) {
	case *ast.Ident:
		fn, _ = e.p.info.Uses[f].(*types.Func)
	case *ast.SelectorExpr:
		if sel, ok := e.p.info.Selections[f]; ok && sel.Kind() == types.MethodVal {
			fn, _ = sel.Obj().(*types.Func)
			recvExpr = f.X
		}
	}
	if fn == nil || fn.Pkg() != e.p.pkg {
		return evVal{}, false
	}
	fd := e.p.declOfFunc(fn)
	if fd == nil || fd.Body == nil || fd.Type.Results == nil || len(fd.Type.Results.List) != 1 {
		return evVal{}, false
	}
	sub := &evaluator{p: e.p, locals: map[types.Object]evVal{}, depth: e.depth + 1}
	if recvExpr != nil {
		if fd.Recv == nil || len(fd.Recv.List) != 1 || len(fd.Recv.List[0].Names) != 1 {
			return evVal{}, false
		}
		sub.locals[e.p.info.Defs[fd.Recv.List[0].Names[0]]] = e.expr(recvExpr)
	}
	var params []*ast.Ident
	if fd.Type.Params != nil {
		for _, fl := range fd.Type.Params.List {
			params = append(params, fl.Names...)
		}
	}
	if len(params) != len(n.Args) || n.Ellipsis.IsValid() {
		return evVal{}, false
	}
	if recvExpr != nil && len(params) == 0 {
		return evVal{}, false // the parameterless-method path below handles it
	}
	for i, id := range params {
		sub.locals[e.p.info.Defs[id]] = e.expr(n.Args[i])
	}
	r, ok := sub.block(fd.Body.List)
	if !ok {
		e.bad("callee %s does not return", fn.Name())
	}
	return r, true
}
