package main

// Structural facts of package https/jose for C16: the SHAPE of the RFC 7638 thumbprint inputs — the text the
// functions ecThumbprintInput / rsaThumbprintInput return, with every non-constant part replaced by a hole `%s`.
// Whether the text is built by fmt.Sprintf over a template constant or by concatenation, the shape is the same;
// a member renamed, reordered, added or dropped changes it.

import (
	"bytes"
	"fmt"
	"go/ast"
	"go/constant"
	"go/token"
	"regexp"
)

func init() { facts["https/jose"] = factsJose }

var verbRe = regexp.MustCompile(`%[+#-]?[0-9]*[a-zA-Z]`)

// stringShape: constant parts verbatim, anything else a hole.
func (p *pkgInfo) stringShape(fd *ast.FuncDecl, e ast.Expr, depth int) string {
	if tv, ok := p.info.Types[e]; ok && tv.Value != nil && tv.Value.Kind() == constant.String {
		return constant.StringVal(tv.Value)
	}
	switch x := e.(type) {
	case *ast.ParenExpr:
		return p.stringShape(fd, x.X, depth)
	case *ast.BinaryExpr:
		if x.Op == token.ADD {
			return p.stringShape(fd, x.X, depth) + p.stringShape(fd, x.Y, depth)
		}
	case *ast.CallExpr:
		if p.src(x.Fun) == "fmt.Sprintf" && len(x.Args) >= 1 {
			if tv, ok := p.info.Types[x.Args[0]]; ok && tv.Value != nil && tv.Value.Kind() == constant.String {
				return verbRe.ReplaceAllString(constant.StringVal(tv.Value), "%s")
			}
		}
	case *ast.Ident:
		if depth < 4 {
			if def := p.singleDef(fd, x); def != nil {
				return p.stringShape(fd, def, depth+1)
			}
		}
	}
	return "%s"
}

func factsJose(p *pkgInfo, w *bytes.Buffer) error {
	for _, name := range []string{"ecThumbprintInput", "rsaThumbprintInput"} {
		fd := p.funcDecl("", name)
		if fd == nil {
			return fmt.Errorf("func %s not found", name)
		}
		shape := ""
		ast.Inspect(fd.Body, func(n ast.Node) bool {
			if ret, ok := n.(*ast.ReturnStmt); ok && len(ret.Results) == 2 {
				if s := p.stringShape(fd, ret.Results[0], 0); len(s) > len(shape) {
					shape = s // the success return (the error returns give "")
				}
			}
			return true
		})
		if shape == "" {
			return fmt.Errorf("%s: no `return <text>, nil` found", name)
		}
		fmt.Fprintf(w, "/-- `%s`: the text it returns, non-constant parts as holes. -/\ndef %sShape : String := %s\n", name, name[:len(name)-len("Input")], leanStr(shape))
	}
	return nil
}
