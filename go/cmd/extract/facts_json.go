package main

// Structural facts of package json for C17: the JSON+ marker tables (composite literals in
// NewJsonPlusReader, not constants), how the split function searches the end marker, the
// escape byte of indexEnd and the scanner's buffer limit.

import (
	"bytes"
	"fmt"
	"go/ast"
	"go/constant"
	"go/token"
	"strings"
)

func leanBytes(s string) string {
	var ps []string
	for i := 0; i < len(s); i++ {
		ps = append(ps, fmt.Sprint(s[i]))
	}
	return "[" + strings.Join(ps, ", ") + "]"
}

func init() {
	facts["json"] = func(p *pkgInfo, w *bytes.Buffer) error {
		fd := p.funcDecl("", "NewJsonPlusReader")
		if fd == nil {
			return fmt.Errorf("func NewJsonPlusReader")
		}
		tables := map[string]string{}
		var argOrder []string
		for _, st := range fd.Body.List {
			switch s := st.(type) {
			case *ast.AssignStmt:
				if len(s.Lhs) != 1 || len(s.Rhs) != 1 {
					continue
				}
				id, ok := s.Lhs[0].(*ast.Ident)
				cl, ok2 := s.Rhs[0].(*ast.CompositeLit)
				if !ok || !ok2 {
					continue
				}
				var elems []string
				for _, e := range cl.Elts {
					// []byte("…") conversion of a constant string, or a constant bool
					if ce, ok := e.(*ast.CallExpr); ok && len(ce.Args) == 1 {
						if tv, ok := p.info.Types[ce.Args[0]]; ok && tv.Value != nil && tv.Value.Kind() == constant.String {
							elems = append(elems, leanBytes(constant.StringVal(tv.Value)))
							continue
						}
					}
					if tv, ok := p.info.Types[e]; ok && tv.Value != nil && tv.Value.Kind() == constant.Bool {
						elems = append(elems, fmt.Sprint(constant.BoolVal(tv.Value)))
						continue
					}
					return fmt.Errorf("NewJsonPlusReader: element of %s is neither []byte(const) nor a constant bool", id.Name)
				}
				tables[id.Name] = "[" + strings.Join(elems, ", ") + "]"
			case *ast.ReturnStmt:
				if len(s.Results) == 1 {
					if ce, ok := s.Results[0].(*ast.CallExpr); ok && p.src(ce.Fun) == "NewCommentReader" {
						for _, a := range ce.Args[1:] {
							argOrder = append(argOrder, p.src(a))
						}
					}
				}
			}
		}
		if len(argOrder) != 4 {
			return fmt.Errorf("NewJsonPlusReader: `return NewCommentReader(r, start, end, isComments, required)` not found")
		}
		names := []string{"startMatches", "endMatches", "isComments", "requiredMatches"}
		types := []string{"List (List UInt8)", "List (List UInt8)", "List Bool", "List Bool"}
		for i, n := range names {
			t, ok := tables[argOrder[i]]
			if !ok {
				return fmt.Errorf("NewJsonPlusReader: table %s (argument %d of NewCommentReader) is not a literal", argOrder[i], i+1)
			}
			fmt.Fprintf(w, "/-- JSON+ table passed as `%s` to NewCommentReader. -/\ndef %s : %s := %s\n", n, n, types[i], t)
		}

		// split function inside NewCommentReader: how `extra` (position of the end marker) is found.
		cr := p.funcDecl("", "NewCommentReader")
		if cr == nil {
			return fmt.Errorf("func NewCommentReader")
		}
		endSearch, bufferMax := "", "default"
		ast.Inspect(cr.Body, func(n ast.Node) bool {
			switch s := n.(type) {
			case *ast.AssignStmt:
				if len(s.Lhs) == 1 && len(s.Rhs) == 1 && selPath(s.Lhs[0]) == "extra" {
					if _, isCall := s.Rhs[0].(*ast.CallExpr); isCall && endSearch == "" {
						endSearch = p.src(s.Rhs[0])
					}
				}
			case *ast.CallExpr:
				if strings.HasSuffix(selPath(s.Fun), ".s.Buffer") && len(s.Args) == 2 {
					bufferMax = p.src(s.Args[1])
					if v, ok := p.intConst(s.Args[1]); ok {
						bufferMax = v
					}
				}
			}
			return true
		})
		if endSearch == "" {
			return fmt.Errorf("NewCommentReader: `extra = <call>` not found in the split function")
		}
		fmt.Fprintf(w, "/-- Split function: how the end marker is searched in `left`. -/\ndef endSearch : String := %s\n", leanStr(endSearch))
		fmt.Fprintf(w, "/-- Second argument of `Scanner.Buffer` (maximum token size), `default` = bufio.MaxScanTokenSize (64 KiB). -/\ndef scannerMax : String := %s\n", leanStr(bufferMax))

		// indexEnd: the escape byte.
		esc := ""
		if ie := p.funcDecl("", "indexEnd"); ie != nil {
			ast.Inspect(ie.Body, func(n ast.Node) bool {
				if be, ok := n.(*ast.BinaryExpr); ok && be.Op == token.EQL {
					if v, ok := p.intConst(be.Y); ok && strings.HasPrefix(p.src(be.X), "data[") {
						esc = v
					}
				}
				return true
			})
		}
		if esc == "" {
			esc = "none"
			fmt.Fprintf(w, "/-- `indexEnd` not present: end markers are searched without escape handling. -/\ndef escapeByte : Option Nat := none\n")
		} else {
			fmt.Fprintf(w, "/-- `indexEnd`: the byte that escapes the next byte inside a quoted region. -/\ndef escapeByte : Option Nat := some %s\n", esc)
		}
		return nil
	}
}
