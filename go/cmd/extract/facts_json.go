package main

// Structural facts of package json for C17: the JSON+ marker tables (composite literals in
// NewJsonPlusReader, not constants), how the split function searches the end marker, the
// escape byte of indexEnd and the scanner's buffer limit.

import (
	"bytes"
	"fmt"
	"go/ast"
	"go/constant"
	"go/token"
	"strings"
)

func leanBytes(s string) string {
	var ps []string
	for i := 0; i < len(s); i++ {
		ps = append(ps, fmt.Sprint(s[i]))
	}
	return "[" + strings.Join(ps, ", ") + "]"
}

func init() {
	facts["json"] = func(p *pkgInfo, w *bytes.Buffer) error {
		fd := p.funcDecl("", "NewJsonPlusReader")
		if fd == nil {
			return fmt.Errorf("func NewJsonPlusReader")
		}
		tables := map[string]string{}
		var argOrder []string
		// the tables may be locals of NewJsonPlusReader or package-level variables initialised by a literal
		type litDef struct {
			id *ast.Ident
			cl *ast.CompositeLit
		}
		var lits []litDef
		for _, f := range p.files {
			for _, d := range f.Decls {
				if gd, ok := d.(*ast.GenDecl); ok && gd.Tok == token.VAR {
					for _, sp := range gd.Specs {
						if vs, ok := sp.(*ast.ValueSpec); ok {
							for i, n := range vs.Names {
								if i < len(vs.Values) {
									if cl, ok := vs.Values[i].(*ast.CompositeLit); ok {
										lits = append(lits, litDef{n, cl})
									}
								}
							}
						}
					}
				}
			}
		}
		for _, st := range fd.Body.List {
			if s, ok := st.(*ast.AssignStmt); ok && len(s.Lhs) == 1 && len(s.Rhs) == 1 {
				id, ok := s.Lhs[0].(*ast.Ident)
				cl, ok2 := s.Rhs[0].(*ast.CompositeLit)
				if ok && ok2 {
					lits = append(lits, litDef{id, cl})
				}
			}
		}
		for _, ld := range lits {
			id, cl := ld.id, ld.cl
			{
				{
					var elems []string
					bad := false
					for _, e := range cl.Elts {
						// []byte("…") conversion of a constant string, or a constant bool
						if ce, ok := e.(*ast.CallExpr); ok && len(ce.Args) == 1 {
							if tv, ok := p.info.Types[ce.Args[0]]; ok && tv.Value != nil && tv.Value.Kind() == constant.String {
								elems = append(elems, leanBytes(constant.StringVal(tv.Value)))
								continue
							}
						}
						if tv, ok := p.info.Types[e]; ok && tv.Value != nil && tv.Value.Kind() == constant.Bool {
							elems = append(elems, fmt.Sprint(constant.BoolVal(tv.Value)))
							continue
						}
						bad = true // some other literal of the package: not one of the tables
					}
					if !bad {
						tables[id.Name] = "[" + strings.Join(elems, ", ") + "]"
					}
				}
			}
		}
		for _, st := range fd.Body.List {
			switch s := st.(type) {
			case *ast.ReturnStmt:
				if len(s.Results) == 1 {
					if ce, ok := s.Results[0].(*ast.CallExpr); ok && p.src(ce.Fun) == "NewCommentReader" {
						for _, a := range ce.Args[1:] {
							argOrder = append(argOrder, p.src(a))
						}
					}
				}
			}
		}
		if len(argOrder) != 4 {
			return fmt.Errorf("NewJsonPlusReader: `return NewCommentReader(r, start, end, isComments, required)` not found")
		}
		names := []string{"startMatches", "endMatches", "isComments", "requiredMatches"}
		types := []string{"List (List UInt8)", "List (List UInt8)", "List Bool", "List Bool"}
		for i, n := range names {
			t, ok := tables[argOrder[i]]
			if !ok {
				return fmt.Errorf("NewJsonPlusReader: table %s (argument %d of NewCommentReader) is not a literal", argOrder[i], i+1)
			}
			fmt.Fprintf(w, "/-- JSON+ table passed as `%s` to NewCommentReader. -/\ndef %s : %s := %s\n", n, n, types[i], t)
		}

		// how the end marker of a region is searched: the call of indexEnd (or, if there is none, of bytes.Index)
		// anywhere in the package outside indexEnd itself, printed by SHAPE — local names are resolved through their
		// single defining assignment and then dropped, so renaming locals or moving the split function into a helper
		// does not change the fact:  indexEnd(_:[]byte, _:[][]byte[_], !_:[]bool[_])
		endSearch, bufferMax := "", "default"
		var shape func(fd *ast.FuncDecl, e ast.Expr, depth int) string
		shape = func(fd *ast.FuncDecl, e ast.Expr, depth int) string {
			switch x := e.(type) {
			case *ast.ParenExpr:
				return shape(fd, x.X, depth)
			case *ast.UnaryExpr:
				return x.Op.String() + shape(fd, x.X, depth)
			case *ast.IndexExpr:
				return shape(fd, x.X, depth) + "[_]"
			case *ast.Ident:
				if depth < 4 {
					if def := p.singleDef(fd, x); def != nil {
						return shape(fd, def, depth+1)
					}
				}
			}
			if tv, ok := p.info.Types[e]; ok && tv.Type != nil {
				return "_:" + tv.Type.String()
			}
			return "_"
		}
		for _, want := range []string{"indexEnd", "bytes.Index"} {
			for _, f := range p.files {
				for _, d := range f.Decls {
					fd, ok := d.(*ast.FuncDecl)
					if !ok || fd.Body == nil || fd.Name.Name == "indexEnd" {
						continue
					}
					ast.Inspect(fd.Body, func(n ast.Node) bool {
						ce, ok := n.(*ast.CallExpr)
						if !ok || endSearch != "" || p.src(ce.Fun) != want {
							return true
						}
						var args []string
						for _, a := range ce.Args {
							args = append(args, shape(fd, a, 0))
						}
						endSearch = want + "(" + strings.Join(args, ", ") + ")"
						return true
					})
				}
			}
			if endSearch != "" {
				break
			}
		}
		for _, f := range p.files {
			ast.Inspect(f, func(n ast.Node) bool {
				if s, ok := n.(*ast.CallExpr); ok && strings.HasSuffix(selPath(s.Fun), ".s.Buffer") && len(s.Args) == 2 {
					bufferMax = p.src(s.Args[1])
					if v, ok := p.intConst(s.Args[1]); ok {
						bufferMax = v
					}
				}
				return true
			})
		}
		if endSearch == "" {
			return fmt.Errorf("no call of indexEnd or bytes.Index that searches the end marker of a region")
		}
		fmt.Fprintf(w, "/-- How the end marker of a region is searched (callee and argument shapes, local names resolved and dropped). -/\ndef endSearch : String := %s\n", leanStr(endSearch))
		fmt.Fprintf(w, "/-- Second argument of `Scanner.Buffer` (maximum token size), `default` = bufio.MaxScanTokenSize (64 KiB). -/\ndef scannerMax : String := %s\n", leanStr(bufferMax))

		// indexEnd: the escape byte.
		esc := ""
		if ie := p.funcDecl("", "indexEnd"); ie != nil {
			ast.Inspect(ie.Body, func(n ast.Node) bool {
				if be, ok := n.(*ast.BinaryExpr); ok && be.Op == token.EQL {
					// <byte slice>[i] == <constant>, whatever the slice is called
					if ix, isIx := be.X.(*ast.IndexExpr); isIx {
						if tv, okT := p.info.Types[ix.X]; okT && tv.Type != nil && tv.Type.String() == "[]byte" {
							if v, ok := p.intConst(be.Y); ok {
								esc = v
							}
						}
					}
				}
				return true
			})
		}
		if esc == "" {
			esc = "none"
			fmt.Fprintf(w, "/-- `indexEnd` not present: end markers are searched without escape handling. -/\ndef escapeByte : Option Nat := none\n")
		} else {
			fmt.Fprintf(w, "/-- `indexEnd`: the byte that escapes the next byte inside a quoted region. -/\ndef escapeByte : Option Nat := some %s\n", esc)
		}
		return nil
	}
}
