// extract: the translator. Parses the current /repo sources (go/parser + go/types)
// and regenerates lean/Oryx/Gen/*.lean:
//
//   - every package-level integer/string constant of the modelled packages;
//   - every "enum helper" (method on a named integer type, no parameters) whose body is
//     a switch on the receiver returning constants, or an index into a slice literal
//     (Go indexing semantics: out of range = panic);
//   - structural facts (see facts.go) with the AST evidence in a comment.
//
// No line numbers are emitted so that unrelated edits do not perturb the files.
package main

import (
	"bytes"
	"flag"
	"fmt"
	"go/ast"
	"go/build"
	"go/constant"
	"go/importer"
	"go/parser"
	"go/token"
	"go/types"
	"os"
	"path/filepath"
	"sort"
	"strings"
	"sync"
)

type pkgInfo struct {
	name  string
	dir   string
	fset  *token.FileSet
	files []*ast.File
	info  *types.Info
	pkg   *types.Package
}

var repo string

func loadPkg(rel string) (*pkgInfo, error) {
	dir := filepath.Join(repo, rel)
	ctx := build.Default
	ctx.BuildTags = nil // hooks (tag verif) are never part of the model
	bp, err := ctx.ImportDir(dir, 0)
	if err != nil {
		return nil, err
	}
	fset := token.NewFileSet()
	var files []*ast.File
	for _, f := range bp.GoFiles {
		af, err := parser.ParseFile(fset, filepath.Join(dir, f), nil, parser.ParseComments)
		if err != nil {
			return nil, err
		}
		files = append(files, af)
	}
	info := &types.Info{Types: map[ast.Expr]types.TypeAndValue{}, Defs: map[*ast.Ident]types.Object{}, Uses: map[*ast.Ident]types.Object{}, Selections: map[*ast.SelectorExpr]*types.Selection{}}
	conf := types.Config{Importer: importer.ForCompiler(fset, "source", nil), Error: func(error) {}, FakeImportC: true}
	pkg, _ := conf.Check(rel, fset, files, info)
	return &pkgInfo{name: bp.Name, dir: dir, fset: fset, files: files, info: info, pkg: pkg}, nil
}

func leanName(s string) string {
	// Lean identifiers: keep Go names; escape the few that clash.
	switch s {
	case "end", "at", "from", "in", "open", "then", "else", "do", "by", "fun", "let", "have", "show", "with", "where":
		return s + "_"
	}
	return s
}

func leanStr(s string) string {
	var b strings.Builder
	b.WriteByte('"')
	for _, r := range s {
		switch {
		case r == '"':
			b.WriteString("\\\"")
		case r == '\\':
			b.WriteString("\\\\")
		case r == '\n':
			b.WriteString("\\n")
		case r == '\t':
			b.WriteString("\\t")
		case r == '\r':
			b.WriteString("\\r")
		case r < 0x20 || r == 0x7f:
			fmt.Fprintf(&b, "\\x%02x", r)
		default:
			b.WriteRune(r)
		}
	}
	b.WriteByte('"')
	return b.String()
}

// constVal renders a constant value as a Lean term of type Int/Nat/String, or "" if unsupported.
func constVal(v constant.Value) (term, typ string) {
	if v == nil {
		return "", ""
	}
	switch v.Kind() {
	case constant.Int:
		s := v.ExactString()
		if strings.HasPrefix(s, "-") {
			return "(" + s + ")", "Int"
		}
		return s, "Nat"
	case constant.String:
		return leanStr(constant.StringVal(v)), "String"
	case constant.Bool:
		if constant.BoolVal(v) {
			return "true", "Bool"
		}
		return "false", "Bool"
	}
	return "", ""
}

func (p *pkgInfo) emitConsts(w *bytes.Buffer) {
	type kv struct{ name, term, typ, gotype string }
	var out []kv
	for _, f := range p.files {
		for _, d := range f.Decls {
			gd, ok := d.(*ast.GenDecl)
			if !ok || gd.Tok != token.CONST {
				continue
			}
			for _, sp := range gd.Specs {
				vs := sp.(*ast.ValueSpec)
				for _, id := range vs.Names {
					if id.Name == "_" {
						continue
					}
					obj, ok := p.info.Defs[id].(*types.Const)
					if !ok {
						continue
					}
					term, typ := constVal(obj.Val())
					if term == "" {
						continue
					}
					out = append(out, kv{id.Name, term, typ, types.TypeString(obj.Type(), func(*types.Package) string { return "" })})
				}
			}
		}
	}
	sort.Slice(out, func(i, j int) bool { return out[i].name < out[j].name })
	for _, c := range out {
		fmt.Fprintf(w, "/-- Go const `%s %s` -/\ndef %s : %s := %s\n", c.name, c.gotype, leanName(c.name), c.typ, c.term)
	}
}

// package-level `var x = []T{consts...}` / `map[K]bool{k: true, ...}` tables
func (p *pkgInfo) emitVarTables(w *bytes.Buffer) {
	type kv struct{ name, text string }
	var out []kv
	for _, f := range p.files {
		for _, d := range f.Decls {
			gd, ok := d.(*ast.GenDecl)
			if !ok || gd.Tok != token.VAR {
				continue
			}
			for _, sp := range gd.Specs {
				vs := sp.(*ast.ValueSpec)
				if len(vs.Names) != 1 || len(vs.Values) != 1 {
					continue
				}
				cl, ok := vs.Values[0].(*ast.CompositeLit)
				if !ok || len(cl.Elts) == 0 {
					continue
				}
				var vals []string
				ty := ""
				good := true
				isMap := false
				for _, e := range cl.Elts {
					if kve, ok := e.(*ast.KeyValueExpr); ok {
						// map[K]bool{k: true}: keep the keys whose value is the constant true
						isMap = true
						k, kt, ok1 := p.constOf(kve.Key)
						v, _, ok2 := p.constOf(kve.Value)
						if !ok1 || !ok2 || (v != "true" && v != "false") {
							good = false
							break
						}
						if v == "true" {
							vals = append(vals, k)
							ty = kt
						}
						continue
					}
					v, t, ok := p.constOf(e)
					if !ok {
						good = false
						break
					}
					vals = append(vals, v)
					ty = t
				}
				if !good || ty == "" {
					continue
				}
				if isMap {
					sort.Strings(vals)
				}
				kind := "slice/array literal"
				if isMap {
					kind = "map literal: keys mapped to true, sorted"
				}
				lname := leanName(vs.Names[0].Name)
				if isMap {
					lname += "Keys" // a package's own facts may define the map as a function under the plain name
				}
				out = append(out, kv{vs.Names[0].Name, fmt.Sprintf("/-- Go package-level `var %s` (%s) -/\ndef %s : List %s := [%s]\n",
					vs.Names[0].Name, kind, lname, ty, strings.Join(vals, ", "))})
			}
		}
	}
	sort.Slice(out, func(i, j int) bool { return out[i].name < out[j].name })
	for _, c := range out {
		w.WriteString(c.text)
	}
}

// enum helpers -----------------------------------------------------------

func isIntNamed(t types.Type) (string, bool) {
	n, ok := t.(*types.Named)
	if !ok {
		return "", false
	}
	b, ok := n.Underlying().(*types.Basic)
	if !ok || b.Info()&types.IsInteger == 0 {
		return "", false
	}
	return n.Obj().Name(), true
}

func (p *pkgInfo) constOf(e ast.Expr) (string, string, bool) {
	tv, ok := p.info.Types[e]
	if !ok || tv.Value == nil {
		return "", "", false
	}
	t, ty := constVal(tv.Value)
	return t, ty, t != ""
}

// translate one helper; returns Lean def text or "" with a reason.
func (p *pkgInfo) enumHelper(fd *ast.FuncDecl) (string, string) {
	if fd.Recv == nil || len(fd.Recv.List) != 1 || fd.Body == nil {
		return "", "no receiver"
	}
	if fd.Type.Params != nil && len(fd.Type.Params.List) != 0 {
		return "", "has parameters"
	}
	if fd.Type.Results == nil || len(fd.Type.Results.List) != 1 {
		return "", "not single result"
	}
	recvT := p.info.Types[fd.Recv.List[0].Type].Type
	tname, ok := isIntNamed(recvT)
	if !ok {
		return "", "receiver not a named integer"
	}
	if len(fd.Recv.List[0].Names) != 1 {
		return "", "unnamed receiver"
	}
	recv := fd.Recv.List[0].Names[0].Name
	name := tname + "_" + fd.Name.Name
	stmts := fd.Body.List
	isRecv := func(e ast.Expr) bool {
		for {
			if pe, ok := e.(*ast.ParenExpr); ok {
				e = pe.X
				continue
			}
			break
		}
		id, ok := e.(*ast.Ident)
		return ok && id.Name == recv
	}
	// shape A: single switch on receiver
	if len(stmts) >= 1 {
		if sw, ok := stmts[0].(*ast.SwitchStmt); ok && sw.Init == nil && sw.Tag != nil && isRecv(sw.Tag) {
			var arms []string
			def := ""
			rty := ""
			for _, cc := range sw.Body.List {
				c := cc.(*ast.CaseClause)
				if len(c.Body) == 0 {
					return "", "empty case body"
				}
				ret, ok := c.Body[0].(*ast.ReturnStmt)
				if !ok || len(ret.Results) != 1 {
					return "", "case body is not a single return"
				}
				val, ty, ok := p.constOf(ret.Results[0])
				if !ok {
					return "", "non-constant return"
				}
				rty = ty
				if c.List == nil {
					def = val
					continue
				}
				var conds []string
				for _, e := range c.List {
					cv, _, ok := p.constOf(e)
					if !ok {
						return "", "non-constant case"
					}
					conds = append(conds, "v = "+cv)
				}
				arms = append(arms, fmt.Sprintf("if %s then .ok %s", strings.Join(conds, " ∨ "), val))
			}
			if def == "" {
				// fallthrough to the statements after the switch
				if len(stmts) == 2 {
					if ret, ok := stmts[1].(*ast.ReturnStmt); ok && len(ret.Results) == 1 {
						if val, _, ok := p.constOf(ret.Results[0]); ok {
							def = val
						}
					}
				}
				if def == "" {
					return "", "no constant default"
				}
			}
			body := strings.Join(arms, "\n  else ")
			if body != "" {
				body += "\n  else "
			}
			return fmt.Sprintf("/-- Go `func (%s %s) %s()`: switch on the receiver. -/\ndef %s (v : Nat) : Res %s :=\n  %s.ok %s\n",
				recv, tname, fd.Name.Name, name, rty, body, def), ""
		}
	}
	// shape B: tbl := []T{consts...}; return tbl[v]
	if len(stmts) == 2 {
		as, ok1 := stmts[0].(*ast.AssignStmt)
		ret, ok2 := stmts[1].(*ast.ReturnStmt)
		if ok1 && ok2 && len(as.Lhs) == 1 && len(as.Rhs) == 1 && len(ret.Results) == 1 {
			cl, ok := as.Rhs[0].(*ast.CompositeLit)
			ix, ok3 := ret.Results[0].(*ast.IndexExpr)
			if ok && ok3 && isRecv(ix.Index) {
				if lid, ok := as.Lhs[0].(*ast.Ident); ok {
					if xid, ok := ix.X.(*ast.Ident); ok && xid.Name == lid.Name {
						var vals []string
						rty := "Nat"
						for _, e := range cl.Elts {
							v, ty, ok := p.constOf(e)
							if !ok {
								return "", "non-constant table element"
							}
							rty = ty
							vals = append(vals, v)
						}
						return fmt.Sprintf("/-- Go `func (%s %s) %s()`: index into a %d-element slice literal (panics out of range). -/\ndef %s (v : Nat) : Res %s :=\n  idx [%s] v\n",
							recv, tname, fd.Name.Name, len(vals), name, rty, strings.Join(vals, ", ")), ""
					}
				}
			}
		}
	}
	return "", "unrecognised body shape"
}

func (p *pkgInfo) emitHelpers(w *bytes.Buffer) {
	type item struct{ name, text string }
	var items []item
	var skipped []string
	for _, f := range p.files {
		for _, d := range f.Decls {
			fd, ok := d.(*ast.FuncDecl)
			if !ok || fd.Recv == nil {
				continue
			}
			recvT := p.info.Types[fd.Recv.List[0].Type].Type
			if recvT == nil {
				continue
			}
			tn, ok := isIntNamed(recvT)
			if !ok {
				continue
			}
			txt, why := p.enumHelper(fd)
			if txt == "" {
				// not one of the printable shapes: evaluate the method over the whole receiver type
				if t2, why2 := p.evalTabulate(fd); t2 != "" {
					txt = t2
				} else if why2 != "" {
					why += "; " + why2
				}
			}
			if txt == "" {
				skipped = append(skipped, fmt.Sprintf("%s.%s (%s)", tn, fd.Name.Name, why))
				continue
			}
			items = append(items, item{tn + "_" + fd.Name.Name, txt})
		}
	}
	sort.Slice(items, func(i, j int) bool { return items[i].name < items[j].name })
	var names []string
	for _, it := range items {
		w.WriteString(it.text)
		names = append(names, it.name)
	}
	sort.Strings(skipped)
	fmt.Fprintf(w, "/-- Enum helpers translated mechanically. -/\ndef translatedHelpers : List String := [%s]\n", quoteAll(names))
	fmt.Fprintf(w, "/-- Methods on integer types the translator does not handle (modelled by hand or not at all). -/\ndef untranslatedHelpers : List String := [%s]\n", quoteAll(skipped))
}

func quoteAll(xs []string) string {
	q := make([]string, len(xs))
	for i, x := range xs {
		q[i] = leanStr(x)
	}
	return strings.Join(q, ", ")
}

// title: Lean module name of a package path (last path element, capitalised): "https/jose" -> "Jose".
func title(s string) string {
	if i := strings.LastIndex(s, "/"); i >= 0 {
		s = s[i+1:]
	}
	return strings.ToUpper(s[:1]) + s[1:]
}

func genPkg(rel, out string) (res struct {
	log  string
	fail bool
}) {
	p, err := loadPkg(rel)
	if err != nil {
		res.log = fmt.Sprintf("extract: %s: %v\n", rel, err)
		res.fail = true
		return
	}
	var w bytes.Buffer
	fmt.Fprintf(&w, "/- GENERATED by go/cmd/extract from /repo/%s on every run — do not edit. -/\nimport Oryx.Base.Bytes\nnamespace Oryx.Gen.%s\nopen Oryx\n\n", rel, title(rel))
	p.emitConsts(&w)
	w.WriteString("\n")
	p.emitVarTables(&w)
	w.WriteString("\n")
	p.emitHelpers(&w)
	if fn, ok := facts[rel]; ok {
		w.WriteString("\n")
		if err := fn(p, &w); err != nil {
			res.log += fmt.Sprintf("extract: %s: structural fact not found: %v\n", rel, err)
			res.fail = true
		}
	}
	fmt.Fprintf(&w, "\nend Oryx.Gen.%s\n", title(rel))
	path := filepath.Join(out, title(rel)+".lean")
	old, _ := os.ReadFile(path)
	if !bytes.Equal(old, w.Bytes()) {
		if err := os.WriteFile(path, w.Bytes(), 0o644); err != nil {
			res.log += err.Error() + "\n"
			res.fail = true
		}
		res.log += fmt.Sprintf("extract: %s regenerated (changed)\n", filepath.Base(path))
	} else {
		res.log += fmt.Sprintf("extract: %s unchanged\n", filepath.Base(path))
	}
	return
}

func main() {
	out := flag.String("out", "", "output directory (lean/Oryx/Gen)")
	flag.StringVar(&repo, "repo", "/repo", "repository root")
	flag.Parse()
	if *out == "" {
		fmt.Fprintln(os.Stderr, "usage: extract -repo /repo -out lean/Oryx/Gen")
		os.Exit(2)
	}
	if abs, err := filepath.Abs(*out); err == nil {
		*out = abs
	}
	if abs, err := filepath.Abs(repo); err == nil {
		repo = abs
	}
	os.Chdir(repo)
	os.MkdirAll(*out, 0o755)
	pkgs := []string{"amf0", "rtmp", "flv", "aac", "avc", "websocket", "json", "kxps", "logger", "http", "https/jose", "errors"}
	failed := false
	type result struct {
		log  string
		fail bool
	}
	results := make([]result, len(pkgs))
	var wg sync.WaitGroup
	for i, rel := range pkgs {
		wg.Add(1)
		go func(i int, rel string) {
			defer wg.Done()
			results[i] = genPkg(rel, *out)
		}(i, rel)
	}
	wg.Wait()
	for _, r := range results {
		fmt.Print(r.log)
		failed = failed || r.fail
	}
	if failed {
		os.Exit(1)
	}
}
