module verifharness

go 1.23

require github.com/ossrs/go-oryx-lib v0.0.0

replace github.com/ossrs/go-oryx-lib => /repo
