package h

import (
	"errors"
	"io"
)

// SegReader delivers a byte string in seeded segments (down to 1 byte per Read),
// then ends with End (io.EOF by default). Mode 0: 1 byte per Read; 1: random 1..7;
// 2: random 1..4096; 3: whatever the caller asks.
type SegReader struct {
	Data []byte
	R    *Rand
	Mode int
	End  error
	Pos  int
}

func (s *SegReader) Read(p []byte) (int, error) {
	if s.Pos >= len(s.Data) {
		if s.End != nil {
			return 0, s.End
		}
		return 0, io.EOF
	}
	n := len(p)
	switch s.Mode {
	case 0:
		n = 1
	case 1:
		n = 1 + s.R.Intn(7)
	case 2:
		n = 1 + s.R.Intn(4096)
	}
	if n > len(p) {
		n = len(p)
	}
	if n > len(s.Data)-s.Pos {
		n = len(s.Data) - s.Pos
	}
	copy(p, s.Data[s.Pos:s.Pos+n])
	s.Pos += n
	return n, nil
}

// ErrInjected is the sentinel transport error used by fault-injection runs.
var ErrInjected = errors.New("injected transport fault")

// FaultWriter accepts FailAt Write calls (or FailAtByte bytes when >= 0), then fails with Err.
type FaultWriter struct {
	Buf        []byte
	Calls      int
	FailAtCall int // -1: never
	Err        error
}

func (w *FaultWriter) Write(p []byte) (int, error) {
	if w.FailAtCall >= 0 && w.Calls >= w.FailAtCall {
		w.Calls++
		return 0, w.Err
	}
	w.Calls++
	w.Buf = append(w.Buf, p...)
	return len(p), nil
}

// RW glues a reader and a writer into an io.ReadWriter.
type RW struct {
	io.Reader
	io.Writer
}
