// Package h is the shared core of the correspondence harness: oracle client,
// deterministic RNG, evidence accounting, violation/replay reporting.
package h

import (
	"runtime"
	"sync/atomic"
	"bufio"
	"crypto/sha256"
	"encoding/hex"
	"encoding/json"
	"fmt"
	oe "github.com/ossrs/go-oryx-lib/errors"
	"io"
	"os"
	"os/exec"
	"path/filepath"
	"sort"
	"strings"
	"time"
)

// ---------- RNG: splitmix64, every random choice derives from one state ----------

type Rand struct{ s uint64 }

func NewRand(seed uint64) *Rand {
	// finalise the seed first: otherwise seed n+1's stream is seed n's stream shifted by one draw
	z := seed + 0x9E3779B97F4A7C15
	z = (z ^ (z >> 30)) * 0xBF58476D1CE4E5B9
	z = (z ^ (z >> 27)) * 0x94D049BB133111EB
	return &Rand{s: z ^ (z >> 31)}
}

func (r *Rand) U64() uint64 {
	r.s += 0x9E3779B97F4A7C15
	z := r.s
	z = (z ^ (z >> 30)) * 0xBF58476D1CE4E5B9
	z = (z ^ (z >> 27)) * 0x94D049BB133111EB
	return z ^ (z >> 31)
}
func (r *Rand) Intn(n int) int {
	if n <= 0 {
		return 0
	}
	return int(r.U64() % uint64(n))
}
func (r *Rand) Bool() bool        { return r.U64()&1 == 1 }
func (r *Rand) Chance(p int) bool { return r.Intn(100) < p } // p percent
func (r *Rand) Bytes(n int) []byte {
	b := make([]byte, n)
	for i := range b {
		b[i] = byte(r.U64())
	}
	return b
}
func (r *Rand) Pick(xs ...int) int { return xs[r.Intn(len(xs))] }
func (r *Rand) Fork() *Rand        { return &Rand{s: r.U64()} }

// Perm returns a permutation of 0..n-1 (Fisher-Yates over this generator).
func (r *Rand) Perm(n int) []int {
	p := make([]int, n)
	for i := range p {
		p[i] = i
	}
	for i := n - 1; i > 0; i-- {
		j := r.Intn(i + 1)
		p[i], p[j] = p[j], p[i]
	}
	return p
}

// LCGBytes expands the payload descriptor p:<n>:<seed>; identical to Oryx.lcgBytes.
func LCGBytes(n int, seed uint32) []byte {
	b := make([]byte, n)
	s := seed
	for i := range b {
		s = s*1664525 + 1013904223
		b[i] = byte(s >> 16)
	}
	return b
}

func Hex(b []byte) string {
	if len(b) == 0 {
		return "-"
	}
	return hex.EncodeToString(b)
}

func UnHex(s string) []byte {
	if s == "-" {
		return nil
	}
	if strings.HasPrefix(s, "p:") {
		var n int
		var seed uint32
		fmt.Sscanf(s, "p:%d:%d", &n, &seed)
		return LCGBytes(n, seed)
	}
	b, err := hex.DecodeString(s)
	if err != nil {
		panic("bad hex " + s)
	}
	return b
}

// ---------- oracle client ----------

// Oracle multiplexes the line protocol over one executable per model domain (oracle_<domain> in a directory):
// a domain's process is started at its first request. When a domain's executable is missing — its Lean model no
// longer builds against the regenerated tables — the copy kept from the last run where it did build
// (<dir>/last-good/) is used instead and the domain is recorded as stale: the caller then knows that this run
// compared the implementation with the model of an EARLIER tree. Domains nobody calls are never started, so a
// model that stopped building disturbs only the checks that use it. A path to a single executable (all domains
// in one process) is accepted too.
type Oracle struct {
	dir    string
	single *oracleProc
	procs  map[string]*oracleProc
	Calls  int
	Used   map[string]int  // domain -> number of requests
	Stale  map[string]bool // domains served by a last-good executable
}

type oracleProc struct {
	cmd *exec.Cmd
	in  *bufio.Writer
	out *bufio.Reader
}

// oracleDomains: op prefix -> domain, first match wins (same order as lean/Oracle/All.lean).
var oracleDomains = [][2]string{
	{"avc.", "avc"},
	{"rtmp.pkt.", "rtmppkt"}, {"rtmp.dispatch", "rtmppkt"}, {"rtmp.expect.", "rtmppkt"},
	{"rtmp.", "rtmp"},
	{"flv.", "flv"},
	{"amf0.", "amf0"},
	{"adts.", "aac"}, {"asc.", "aac"}, {"aac.", "aac"},
	{"kxps.", "kxps"},
	{"json.", "json"},
	{"txn.", "txn"},
	{"http.", "http"},
	{"logger.", "logger"},
	{"jose.", "jose"},
	{"err.", "errors"}, {"c08.", "errors"},
	{"hs.", "hs"},
	{"ws", "ws"},
}

var traceOracle = os.Getenv("VERIF_TRACE") != ""

func startProc(path string) (*oracleProc, error) {
	cmd := exec.Command(path)
	stdin, err := cmd.StdinPipe()
	if err != nil {
		return nil, err
	}
	stdout, err := cmd.StdoutPipe()
	if err != nil {
		return nil, err
	}
	cmd.Stderr = os.Stderr
	if err := cmd.Start(); err != nil {
		return nil, err
	}
	return &oracleProc{cmd: cmd, in: bufio.NewWriterSize(stdin, 1<<20), out: bufio.NewReaderSize(stdout, 1<<20)}, nil
}

func StartOracle(path string) (*Oracle, error) {
	o := &Oracle{procs: map[string]*oracleProc{}, Used: map[string]int{}, Stale: map[string]bool{}}
	st, err := os.Stat(path)
	if err != nil {
		return nil, err
	}
	if st.IsDir() {
		o.dir = path
		return o, nil
	}
	o.single, err = startProc(path)
	return o, err
}

func (o *Oracle) procFor(op string) *oracleProc {
	dom := ""
	for _, d := range oracleDomains {
		if strings.HasPrefix(op, d[0]) {
			dom = d[1]
			break
		}
	}
	if dom == "" {
		panic("oracle: no domain for op " + op)
	}
	o.Used[dom]++
	if o.single != nil {
		return o.single
	}
	if p, ok := o.procs[dom]; ok {
		return p
	}
	path := filepath.Join(o.dir, "oracle_"+dom)
	if _, err := os.Stat(path); err != nil {
		path = filepath.Join(o.dir, "last-good", "oracle_"+dom)
		o.Stale[dom] = true
	}
	p, err := startProc(path)
	if err != nil {
		panic(fmt.Sprintf("oracle: cannot start the model executable of domain %s: %v", dom, err))
	}
	o.procs[dom] = p
	return p
}

// Call sends one request line and returns the reply line.
func (o *Oracle) Call(parts ...string) string {
	line := strings.Join(parts, " ")
	if strings.ContainsAny(line, "\n\r") {
		panic("newline in oracle request")
	}
	if traceOracle {
		fmt.Fprintf(os.Stderr, "oracle<< %s\n", trunc(line, 300))
	}
	op := line
	if i := strings.IndexByte(line, ' '); i >= 0 {
		op = line[:i]
	}
	p := o.procFor(op)
	p.in.WriteString(line)
	p.in.WriteByte('\n')
	if err := p.in.Flush(); err != nil {
		panic(fmt.Sprintf("oracle write: %v", err))
	}
	rep, err := p.out.ReadString('\n')
	if err != nil && err != io.EOF {
		panic(fmt.Sprintf("oracle read: %v", err))
	}
	if err == io.EOF && rep == "" {
		panic("oracle died on request: " + trunc(line, 300))
	}
	o.Calls++
	return strings.TrimRight(rep, "\n")
}

func (p *oracleProc) close() {
	p.in.Flush()
	if c, ok := p.cmd.Stdin.(io.Closer); ok {
		c.Close()
	}
	p.cmd.Process.Kill()
	p.cmd.Wait()
}

func (o *Oracle) Close() {
	if o == nil {
		return
	}
	if o.single != nil {
		o.single.close()
	}
	for _, p := range o.procs {
		p.close()
	}
}

func trunc(s string, n int) string {
	if len(s) > n {
		return s[:n] + fmt.Sprintf("…(+%d)", len(s)-n)
	}
	return s
}
func Trunc(s string, n int) string { return trunc(s, n) }

// ---------- context: evidence + violations ----------

type Violation struct {
	Property string `json:"property"`
	Kind     string `json:"kind"` // property | correspondence
	Clause   string `json:"clause"`
	Input    string `json:"input"`
	Impl     string `json:"impl_output"`
	Model    string `json:"model_output"`
	Known    string `json:"known_finding,omitempty"`
	Replay   string `json:"replay,omitempty"`
}

type Finding struct {
	ID       string `json:"id"`
	Property string `json:"property"`
	Status   string `json:"status"` // open | fixed
	Commit   string `json:"commit,omitempty"`
	Clause   string `json:"clause"`
	// Match: a violation is this finding iff clause equals Clause and its canonical
	// input has InputPrefix as prefix (or equals Input when InputPrefix is empty).
	Input       string `json:"input"`
	InputPrefix string `json:"input_prefix,omitempty"`
	What        string `json:"what"`
}

type Ctx struct {
	Prop      string
	Tier      string
	Seed      uint64
	lastBeat  int64
	lastLabel atomic.Value
	R         *Rand
	O         *Oracle
	ReplayDir string
	Findings  []Finding

	Evaluations int
	distinct    map[[12]byte]struct{}
	Dist        map[string]int
	Samples     []string
	Violations  []Violation
	KnownHit    map[string]int
	Traces      int
	start       time.Time
	maxViol     int
	Notes       []string
}

func NewCtx(prop, tier string, seed uint64, o *Oracle, replayDir string, findings []Finding) *Ctx {
	return &Ctx{Prop: prop, Tier: tier, Seed: seed, R: NewRand(seed), O: o, ReplayDir: replayDir,
		Findings: findings, distinct: map[[12]byte]struct{}{}, Dist: map[string]int{},
		KnownHit: map[string]int{}, start: time.Now(), maxViol: 5}
}

func (c *Ctx) Thorough() bool { return c.Tier == "thorough" }

// N picks the budget for the current tier.
func (c *Ctx) N(quick, thorough int) int {
	if c.Thorough() {
		return thorough
	}
	return quick
}

// Case accounts for one executed case. bucket goes to the distribution histogram;
// canonical identifies the case for the distinct count; nontrivial per the property's rule.
// beat records progress for the watchdog.
func (c *Ctx) beat(label string) {
	atomic.StoreInt64(&c.lastBeat, time.Now().UnixNano())
	if label != "" {
		c.lastLabel.Store(label)
	}
}

// LastCase: the label of the last completed case.
func (c *Ctx) LastCase() string {
	l, _ := c.lastLabel.Load().(string)
	return trunc(l, 600)
}

// StartWatchdog: when the driver makes no progress (no Case / Eq / Hold) for `stall`, onStall is called once with a
// report naming the last completed case and the goroutines that are stuck. A library call that never returns — a
// deadlock, a lost wake-up, an endless loop — thus ends the run with a violation instead of hanging the check.
func (c *Ctx) StartWatchdog(stall time.Duration, onStall func(report string)) {
	c.beat("(start)")
	go func() {
		for {
			time.Sleep(2 * time.Second)
			idle := time.Since(time.Unix(0, atomic.LoadInt64(&c.lastBeat)))
			if idle < stall {
				continue
			}
			last, _ := c.lastLabel.Load().(string)
			buf := make([]byte, 1<<20)
			buf = buf[:runtime.Stack(buf, true)]
			onStall(fmt.Sprintf("no progress for %.0f s after case: %s\n\n%s", idle.Seconds(), trunc(last, 600), trunc(string(buf), 12000)))
			return
		}
	}()
}

func (c *Ctx) Case(bucket, canonical string, nontrivial bool) {
	c.beat(bucket + " :: " + trunc(canonical, 300))
	c.Evaluations++
	c.Dist[bucket]++
	if nontrivial {
		sum := sha256.Sum256([]byte(canonical))
		var k [12]byte
		copy(k[:], sum[:12])
		c.distinct[k] = struct{}{}
	}
	if len(c.Samples) < 6 && (c.Dist[bucket] == 1) {
		c.Samples = append(c.Samples, trunc(bucket+" :: "+canonical, 400))
	}
}

func (c *Ctx) Distinct() int { return len(c.distinct) }

// Trace counts one model trace/output compared against the implementation.
func (c *Ctx) Trace() { c.Traces++ }

// Eq compares an implementation output with the model's for the same input
// (correspondence). Returns true when equal.
func (c *Ctx) Eq(clause, input, impl, model string) bool {
	c.Traces++
	if impl == model {
		return true
	}
	c.Fail("correspondence", clause, input, impl, model)
	return false
}

// Hold asserts the property predicate itself on the implementation.
func (c *Ctx) Hold(ok bool, clause, input, impl, want string) bool {
	if ok {
		return true
	}
	c.Fail("property", clause, input, impl, want)
	return false
}

func (c *Ctx) matchFinding(clause, input string) *Finding {
	for i := range c.Findings {
		f := &c.Findings[i]
		if f.Property != c.Prop || f.Status != "open" || f.Clause != clause {
			continue
		}
		if f.InputPrefix != "" {
			if strings.HasPrefix(input, f.InputPrefix) {
				return f
			}
		} else if f.Input == input {
			return f
		}
	}
	return nil
}

func (c *Ctx) Fail(kind, clause, input, impl, model string) {
	if f := c.matchFinding(clause, input); f != nil {
		c.KnownHit[f.ID]++
		return
	}
	// separate caps: correspondence mismatches must never crowd out a property violation
	same := 0
	for _, v := range c.Violations {
		if v.Kind == kind {
			same++
		}
	}
	if same >= c.maxViol {
		return
	}
	v := Violation{Property: c.Prop, Kind: kind, Clause: clause, Input: input, Impl: impl, Model: model}
	os.MkdirAll(c.ReplayDir, 0o755)
	name := filepath.Join(c.ReplayDir, fmt.Sprintf("%s-%s-%d-%d.json", c.Prop, c.Tier, c.Seed, len(c.Violations)))
	v.Replay = name
	rep := map[string]interface{}{
		"property": c.Prop, "tier": c.Tier, "seed": c.Seed, "kind": kind, "clause": clause,
		"input": input, "impl_output": impl, "model_output": model,
		"theorem_or_op": clause, "no_failing_input_found": false,
	}
	b, _ := json.MarshalIndent(rep, "", " ")
	os.WriteFile(name, b, 0o644)
	c.Violations = append(c.Violations, v)
}

func (c *Ctx) Note(s string) { c.Notes = append(c.Notes, s) }

// Result is what corr prints as JSON for the check driver.
type Result struct {
	Property    string         `json:"property"`
	Tier        string         `json:"tier"`
	Seed        uint64         `json:"seed"`
	Evaluations int            `json:"evaluations"`
	Distinct    int            `json:"distinct_nontrivial"`
	Traces      int            `json:"traces_validated_against_impl"`
	OracleCalls int            `json:"oracle_calls"`
	OracleUsed  map[string]int `json:"oracle_domains_used"`
	OracleStale []string       `json:"oracle_domains_stale"`
	Dist        map[string]int `json:"distribution"`
	Samples     []string       `json:"samples"`
	Violations  []Violation    `json:"violations"`
	Known       []string       `json:"known_findings_hit"`
	KnownMiss   []string       `json:"known_findings_not_reproduced"`
	Notes       []string       `json:"notes"`
	WallS       float64        `json:"wall_s"`
}

func (c *Ctx) Result() Result {
	r := Result{Property: c.Prop, Tier: c.Tier, Seed: c.Seed, Evaluations: c.Evaluations,
		Distinct: c.Distinct(), Traces: c.Traces, Dist: c.Dist, Samples: c.Samples,
		Violations: c.Violations, Notes: c.Notes, WallS: time.Since(c.start).Seconds()}
	if c.O != nil {
		r.OracleCalls = c.O.Calls
		r.OracleUsed = c.O.Used
		for d := range c.O.Stale {
			r.OracleStale = append(r.OracleStale, d)
		}
		sort.Strings(r.OracleStale)
	}
	for _, f := range c.Findings {
		if f.Property != c.Prop || f.Status != "open" {
			continue
		}
		if c.KnownHit[f.ID] > 0 {
			r.Known = append(r.Known, fmt.Sprintf("%s %s (%d hits)", f.ID, f.What, c.KnownHit[f.ID]))
		} else {
			r.KnownMiss = append(r.KnownMiss, f.ID)
		}
	}
	sort.Strings(r.Known)
	if r.Violations == nil {
		r.Violations = []Violation{}
	}
	return r
}

// Safe runs f and maps a panic to ("panic", true).
func Safe(f func() string) (out string) {
	defer func() {
		if r := recover(); r != nil {
			out = "panic"
		}
	}()
	return f()
}

func LoadFindings(path string) []Finding {
	b, err := os.ReadFile(path)
	if err != nil {
		return nil
	}
	var fs []Finding
	if err := json.Unmarshal(b, &fs); err != nil {
		fmt.Fprintf(os.Stderr, "known_findings.json: %v\n", err)
		os.Exit(2)
	}
	return fs
}

// ErrClass maps an error to the protocol's small enum through the library's own
// errors.Cause (root cause through any wrapping).
func ErrClass(err error) string {
	if err == nil {
		return "ok"
	}
	switch oe.Cause(err) {
	case io.EOF:
		return "err-eof"
	case io.ErrUnexpectedEOF:
		return "err-ueof"
	case ErrInjected:
		return "err-inject"
	}
	return "err"
}
