#!/usr/bin/env python3
"""tools/benignprompt.py <batch> — prepare a batch of BEHAVIOUR-PRESERVING changes: one scratch worktree /tmp/m/B<batch>-<group>
of /repo's HEAD and one brief /tmp/m/B<batch>-<group>.prompt.txt per package group (seven groups, three refactors each).
The brief lists the refactors of earlier batches so that the new ones differ. tools/benignimport.py B<batch>-<group> imports."""
import glob, os, subprocess, sys
ROOT = os.path.dirname(os.path.dirname(os.path.abspath(__file__)))
batch = sys.argv[1]
GROUPS = {"aacavc": "aac and avc", "amf0": "amf0", "flv": "flv", "jose": "https/jose and https/crypto/ocsp",
          "misc": "json, logger, http, kxps, errors", "rtmp": "rtmp",
          "ws": "websocket (conn.go, server.go, client.go, compression.go, mask.go, prepared.go, util.go, json.go)"}
tmpl = open(os.path.join(ROOT, "tools", "benignprompt.tmpl")).read()
for g, pk in GROUPS.items():
    name = f"B{batch}-{g}"
    wt = f"/tmp/m/{name}"
    if not os.path.isdir(wt):
        subprocess.run(["git", "-C", "/repo", "worktree", "add", "-q", "--detach", wt, "HEAD"], check=True)
    earlier = []
    for d in sorted(glob.glob(os.path.join(ROOT, "benign", g + "-*"))):
        m = os.path.join(d, "meta.txt")
        if os.path.exists(m):
            earlier.append("- " + " ".join(open(m).read().split())[:260])
    extra = ("\n\nEarlier maintainers already landed the following clean-ups; yours must be DIFFERENT refactors (other functions, or another "
             "kind of change to the same function). Good candidates this time: turn a chain of ifs into a table or a table into a switch; "
             "extract the body of a loop or a closure into a method; inline a helper that has one caller; replace binary.Read/Write or "
             "bytes.Buffer by explicit slice code; rename unexported fields and locals throughout; move declarations between files of the "
             "package; change the order of INDEPENDENT statements; replace fmt formatting by strconv where the text stays byte-identical.\n"
             + "\n".join(earlier) + "\n")
    open(f"/tmp/m/{name}.prompt.txt", "w").write(tmpl.replace("__WT__", wt).replace("__PKGS__", pk) + extra)
    print(name)
