#!/usr/bin/env python3
"""Print the markdown table of seeded changes and which check caught them (DESIGN.md section 13)."""
import glob, json, os
ROOT = os.path.dirname(os.path.dirname(os.path.abspath(__file__)))
print("| seeded change | property | what it needs to manifest (author's words, abridged) | caught by | how |")
print("|---|---|---|---|---|")
for d in sorted(glob.glob(os.path.join(ROOT, "seeded", "*"))):
    if not os.path.exists(os.path.join(d, "result.json")):
        continue
    r = json.load(open(os.path.join(d, "result.json")))
    m = json.load(open(os.path.join(d, "meta.json")))
    desc = " ".join(m.get("description", "").split())[:230].replace("|", "/")
    tier = r.get("detected_by")
    how = ""
    if r.get("neutralised"):
        tier, how = "n/a", "no longer a breaking change on the current tree (its own demonstration passes): a later fix in /repo closed the hole it relied on"
    elif tier:
        if tier in r:
            rp = r[tier].get("replay", {})
            how = f"{rp.get('kind')} `{rp.get('clause')}`" + ("" if r.get("concrete_input") else " (no-failing-input-found)")
        else:
            other = [k for k in r if k.startswith("also_")]
            how = "by the check of " + ", ".join(k[5:] for k in other) + ": " + "; ".join(l[:120] for k in other for l in r[k].get("lines", []))
    print(f"| `{os.path.basename(d)}` | {r['property']} | {desc} | {tier or '**missed**'} | {how} |")
