#!/usr/bin/env python3
"""tools/seedprompt.py <round> [Cxx ...] — prepare a mutation round: for every property create a scratch git worktree
/tmp/m/<Cxx>-r<round> of /repo's HEAD and write /tmp/m/<Cxx>-r<round>.prompt.txt, the brief for a fresh sub-agent.
The brief contains ONLY the property's text (title, statement, quantifier, anchored files) and the one-line summaries
of the changes earlier rounds produced for that property (so that the new ones differ) — nothing about /verif's checks.
"""
import json, os, subprocess, sys, glob

ROOT = os.path.dirname(os.path.dirname(os.path.abspath(__file__)))
rnd = sys.argv[1]
want = sys.argv[2:]
TMPL = open(os.path.join(ROOT, "tools", "seedprompt.tmpl")).read()
EXTRA = {
 "5": ("This is round five: the obvious edits and most boundary slips are taken. Go through the property text and the "
       "quantifier clause by clause, and through EVERY file in the anchor list (including the short ones and the secondary "
       "entry points), and find behaviour that NO earlier change touched. Good places: options and configuration fields that "
       "are rarely set; entry points that are thin wrappers around the main path; the second and later use of a long-lived "
       "object (reuse after an error, after Close, after a reset); values exactly at the implementation's internal thresholds "
       "(buffer sizes, pool sizes, type widths, table sizes); an error path that leaves state behind; concurrent use of two "
       "independent objects that share something behind the scenes; a result that is right but whose side effect on the "
       "caller's data or on later calls is wrong; an input that is legal but that no example in the repository uses. "
       "Two cooperating sites that each look fine alone are best."),
 "6": ("This is round six: boundary slips, stale caches, pooled or shared buffers, dropped state updates, reuse of objects, "
       "write-during-read interference and plain data races have all been tried. Read EVERY file in the anchor list to the end, "
       "including helper functions, option/configuration fields, secondary constructors and conversion helpers between packages, "
       "and look for behaviour that none of the earlier changes touched. Ideas: which ERROR comes back (its class / root cause) "
       "rather than whether one comes back; what happens when a legal call sequence is made in an unusual ORDER (configure after "
       "first use, close twice, read after an error, write after a failed write); a fault (short read, failed write) in the MIDDLE "
       "of a multi-step operation; values legal by the specification that the library's own encoder never produces (decoder-only "
       "paths); the SECOND and THIRD element where only the first is usually looked at (second signature, second recipient, second "
       "NAL unit, second chunk stream, second window); interactions between two options; negative or zero durations / sizes that "
       "are legal; behaviour that depends on map iteration order or on time. Prefer a change that a careful reviewer would "
       "approve at a glance."),
 "7": ("This is round seven. Earlier rounds covered boundary slips, stale caches, pooled/shared buffers, dropped state updates, "
       "object reuse, write-during-read interference, data races, wrong error classes, unusual call orders, faults in the middle of "
       "an operation, decoder-only inputs, second elements and option interactions. Find something STILL different. Suggestions: "
       "exported helper functions and accessors next to the main path that an application combines with it (formatters, "
       "classifiers, getters, constructors with arguments, String() methods used in error texts are NOT enough — it must break "
       "the property as stated); arithmetic that is right on small values and wrong on large counts, long durations, many "
       "elements, deep nesting or after many operations (overflow of an int32/uint16 counter, accumulated rounding, a table that "
       "fills up); behaviour for EMPTY things (empty payload, empty key, empty list, zero-length write, zero timestamp, nil "
       "map/slice arguments) where the general path is right; two DIFFERENT objects of the package used together (two readers on "
       "one stream one after the other, a writer handed from one goroutine to another, a value encoded by one object and decoded by "
       "another configured differently); the legal extremes of the property's own quantifier. The change must still pass the "
       "existing tests and look like something a reviewer would wave through."),
}
os.makedirs("/tmp/m", exist_ok=True)
for line in open(os.path.join(ROOT, "properties.jsonl")):
    p = json.loads(line)
    pid = p["id"]
    if want and pid not in want:
        continue
    name = f"{pid}-r{rnd}"
    wt = f"/tmp/m/{name}"
    if not os.path.isdir(wt):
        subprocess.run(["git", "-C", "/repo", "worktree", "add", "-q", "--detach", wt, "HEAD"], check=True)
    prop = f"{pid} — {p['title']}\n\n{p['statement']}\n\nQuantifier: {p['quantifier']['text']}\n\nAnchored in: {', '.join(p['anchors']['files'])}"
    earlier = []
    for d in sorted(glob.glob(os.path.join(ROOT, "seeded", pid + "-*"))):
        m = json.load(open(os.path.join(d, "meta.json")))
        first = m["description"].strip().split("\n")[0]
        earlier.append("- " + first[:200])
    notes = ("\n\nAdditional notes: put a file `go.mod` containing `module seededout` into your `out/` directory. "
             f"Earlier rounds already produced the following {len(earlier)} changes for this property — yours must be DIFFERENT in kind "
             "and location from ALL of these. " + EXTRA.get(rnd, EXTRA["5"]) + "\n" + "\n".join(earlier) + "\n")
    txt = TMPL.replace("__WT__", wt).replace("__PROP__", prop) + notes
    open(f"/tmp/m/{name}.prompt.txt", "w").write(txt)
    print(name, len(txt))
