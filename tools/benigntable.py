#!/usr/bin/env python3
"""Print the markdown table of behaviour-preserving changes and what the checks said (DESIGN.md section 13b)."""
import glob, json, os
ROOT = os.path.dirname(os.path.dirname(os.path.abspath(__file__)))
print("| change | what it does (author's words, abridged) | checks run | result |")
print("|---|---|---|---|")
tot = ok = 0
for d in sorted(glob.glob(os.path.join(ROOT, "benign", "*"))):
    rp = os.path.join(d, "result.json")
    if not os.path.exists(rp):
        continue
    r = json.load(open(rp))
    desc = " ".join(open(os.path.join(d, "meta.txt")).read().split())[:200].replace("|", "/")
    bad = []
    for k, v in r["checks"].items():
        if v != "ok":
            bad.append(f"{k}: {v['result']} ({(v['replay'].get('clause') or '')[:90]})")
    tot += 1
    ok += not bad
    print(f"| `{os.path.basename(d)}` | {desc} | {', '.join(r['checks'])} | {'no alarm' if not bad else '; '.join(bad)} |")
print()
print(f"{ok} of {tot} raise no alarm.")
