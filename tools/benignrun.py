#!/usr/bin/env python3
"""
tools/benignrun.py [name ...] — run the registered quick checks against BEHAVIOUR-PRESERVING changes.

/verif/benign/<name>/patch.diff are refactors written by independent sub-agents told to keep every observable
behaviour identical (readability, performance, structure). For each: apply to a scratch worktree of /repo, confirm
the baseline suite passes, run `./check <Cxx> quick` for every property anchored in the touched packages, record
what each check said in benign/<name>/result.json:
  ok                         — no alarm (what we want)
  no-failing-input-found     — a proof obligation / translator fact / correspondence op no longer checks but no
                               failing input exists: the documented price of a tie that reads the source
  CONCRETE                   — a VIOLATION with a concrete input on code that still has the property: a false
                               alarm of the machinery (or the refactor is not behaviour-preserving after all —
                               the replay says which)
Isolated worktrees as in seedrun.py.
"""
import json, os, subprocess, sys, glob, time
ROOT = os.path.dirname(os.path.dirname(os.path.abspath(__file__)))
SLOT = os.environ.get("BEN_SLOT", "")          # several runs side by side: each slot has its own scratch worktrees
RUN, REPO = "/tmp/w/ben-verif" + SLOT, "/tmp/w/ben-repo" + SLOT
ENV = dict(os.environ, GOFLAGS="-mod=mod", GOPROXY="off", GOSUMDB="off", GOTOOLCHAIN="local", VERIF_REPO=REPO)
PKG_PROPS = {
    "rtmp/": ["C01", "C02", "C03", "C04", "C07", "C08"], "amf0/": ["C05", "C06", "C03", "C07"],
    "flv/": ["C09", "C10", "C07", "C08"], "aac/": ["C11", "C07"], "avc/": ["C12", "C07"],
    "websocket/": ["C13", "C14", "C15", "C07"], "https/jose/": ["C16", "C07"], "json/": ["C17", "C07"],
    "logger/": ["C18"], "http/": ["C19"], "kxps/": ["C20"], "errors/": ["C08"],
}


def sh(cmd, cwd=None, timeout=3600):
    p = subprocess.run(cmd, cwd=cwd, env=ENV, shell=isinstance(cmd, str), stdout=subprocess.PIPE, stderr=subprocess.STDOUT, text=True, timeout=timeout)
    return p.returncode, p.stdout


def prepare():
    for base, wt in (("/verif", RUN), ("/repo", REPO)):
        head = subprocess.run(["git", "-C", base, "rev-parse", "HEAD"], stdout=subprocess.PIPE, text=True).stdout.strip()
        if not os.path.isdir(wt):
            subprocess.run(["git", "-C", base, "worktree", "add", "-q", "--detach", wt, head], check=True)
        else:
            subprocess.run(["git", "-C", wt, "reset", "-q", "--hard"], check=True)
            subprocess.run(["git", "-C", wt, "clean", "-fdq"], check=True)
            subprocess.run(["git", "-C", wt, "checkout", "-q", "-f", "--detach", head], check=True)
    rc, out = sh([os.path.join(RUN, "check"), "setup"], cwd=RUN, timeout=3600)
    assert rc == 0, out[-2000:]


def run(name):
    d = os.path.join(ROOT, "benign", name)
    patch = os.path.join(d, "patch.diff")
    files = [l[6:].strip() for l in open(patch) if l.startswith("+++ b/")]
    props = []
    for f in files:
        for pre, ps in PKG_PROPS.items():
            if f.startswith(pre):
                props += [p for p in ps if p not in props]
    res = {"name": name, "files": files, "at": time.strftime("%Y-%m-%dT%H:%M:%SZ", time.gmtime()), "checks": {}}
    try:
        rc, out = sh(["git", "-C", REPO, "apply", patch])
        if rc != 0:
            rc, out = sh(["git", "-C", REPO, "apply", "--3way", patch])
            res["applied_with_3way"] = rc == 0
        if rc != 0:
            res["error"] = "patch does not apply: " + out[-300:]
            return res
        rcb, outb = sh("go build ./... && go build -tags verif ./... && go test -vet=off -count=1 ./...", cwd=REPO, timeout=1800)
        res["suite_passes_patched"] = rcb == 0
        for p in props:
            rcc, outc = sh([os.path.join(RUN, "check"), p, "quick"], cwd=RUN, timeout=7200)
            viol = [l for l in outc.split("\n") if l.startswith("VIOLATION")]
            if not viol:
                res["checks"][p] = "ok"
                continue
            kind = "no-failing-input-found" if "no-failing-input-found" in viol[0] else "CONCRETE"
            rp = viol[0].split("replay=")[1].split()[0]
            detail = {}
            try:
                r = json.load(open(rp))
                detail = {k: str(r.get(k))[:600] for k in ("kind", "clause", "input", "impl_output", "model_output", "detail") if r.get(k) is not None}
            except Exception:
                pass
            res["checks"][p] = {"result": kind, "replay": detail}
    finally:
        sh(["git", "-C", REPO, "reset", "-q", "--hard"])
        sh(["git", "-C", REPO, "clean", "-fdq", "--", "."])
    json.dump(res, open(os.path.join(d, "result.json"), "w"), indent=1)
    return res


if __name__ == "__main__":
    names = sys.argv[1:] or sorted(os.path.basename(p) for p in glob.glob(os.path.join(ROOT, "benign", "*")) if os.path.isdir(p))
    prepare()
    for n in names:
        r = run(n)
        print(json.dumps({"name": n, "suite": r.get("suite_passes_patched"), "error": r.get("error"),
                          "checks": {k: (v if v == "ok" else v["result"] + ":" + v["replay"].get("clause", "")) for k, v in r["checks"].items()}}), flush=True)
