#!/usr/bin/env python3
"""Regenerate section 13 (seeded changes, behaviour-preserving changes) and Appendix D of DESIGN.md from
seeded/*/result.json, benign/*/result.json and the Lean property files. The narrative (miss tables) lives here."""
import os, subprocess
ROOT = os.path.dirname(os.path.dirname(os.path.abspath(__file__)))
p = os.path.join(ROOT, "DESIGN.md")
s = open(p).read()
start = s.index("## 13. Seeded breaking changes and which checks catch them")
end = s.index("## Appendix A")
run = lambda t: subprocess.run(["python3", os.path.join(ROOT, "tools", t)], stdout=subprocess.PIPE, text=True, check=True).stdout
table = run("seedtable.py")
btable = run("benigntable.py")
n = table.count("\n") - 2
new = f'''## 13. Seeded breaking changes and which checks catch them

{n} changes were produced in seven rounds by fresh sub-agents that were given only the text of one property and a
scratch git worktree of `/repo` (nothing from `/verif`), with the brief: break the property while the library still
compiles and its existing suite still passes, in a way that needs something specific to manifest (from round 2 on
they were also told what the earlier changes for that property had been, and to aim at cooperating sites, forgotten clauses,
rarely used entry points, history-dependent values, error paths that report success, mid-range boundaries, reuse of
long-lived objects, shared state behind independent objects, side effects on the caller's data). Each is kept
as `seeded/<id>/` (`patch.diff`, `demo_test.go`, `meta.json`, `result.json`). `tools/seedrun.py` confirms the
demonstration (passes on the unchanged tree, fails with the patch), confirms the existing suite still passes with
the patch, applies the patch in a scratch worktree, runs `./check <property> quick` (then `thorough` if quick
exits 0) and records the outcome; nothing is ever committed to `/repo`.

The translator alone (regenerated `Gen` files differ from the unchanged tree's, or a fact is not found) sees 26 of
the {n}: the changes to tables, dispatch arms, constants, lock order, helper functions, the write-deadline discipline, the Expect loop, `DecodeMessage`'s purity and `Dial`'s reader; all the others keep every
generated definition and are decided by the correspondence run and the property predicates. First-contact detection
(quick tier, concrete input, before any strengthening) was 31/40, 21/40, 21/40, 20/40, 25/40, 26/40 and 21/40 in rounds 1 to 7 (each round's brief
lists every earlier change for the property and asks for something different in kind, so later rounds are harder by construction).

What each round's first run missed, and what was strengthened (all {n} are caught by the quick tier now, with a
concrete failing input except where the table below says otherwise; `result.json` holds the re-run):

**Round 1** (40 changes, 9 missed or caught without an input)

| missed | why | strengthening |
|---|---|---|
| `C09-a` (quick only; thorough caught it) | PreviousTagSize wrong only for bodies ≥ 2^24−11 | quick tier checks the 2^24 boundary sizes on the implementation alone (independent layout re-parser) |
| `C16-b` | multi-signature JWS aliased `original` to the loop variable | multi-signature model (`jwsVerifyMulti`, two theorems) and driver cases |
| `C18-a` | the extractor could not classify the new allocator, the model stopped building and no search ran | the search falls back to the last model executable that did build and counts only property-level failures |
| `C18-b` | logging helpers wrote into the caller's argument slice (spare capacity) | driver passes a reused slice with spare capacity and checks it is untouched |
| `C13-a`, `C13-b` | ReadFrom dropped bytes returned together with EOF; Dial lost frames that arrived with the 101 response | EOF-with-data sources; server-speaks-first handshake variant with a delayed first client read |
| `C15-a` | a timed-out `WriteControl` released the write lock it never held | scenario: data frame stalled, control sender times out, a second sender must wait |

**Round 2** (40 changes, 19 missed or caught without an input)

| missed | why | strengthening |
|---|---|---|
| `C01-r2a`, `C10-r2a`, `C11-r2a` | returned payload / tag / frame aliased an internal buffer overwritten by the next call | drivers HOLD all outputs of a sequence before comparing (retained-output clauses) |
| `C02-r2b` | chunk sizes above 64 KiB with messages longer than 64 KiB | large-chunk regressions and generator sizes in C01/C02 |
| `C04-r2a`, `C04-r2b` | connect not the first request; responses to calls the library does not track | schedules with connect at any position, exactly-once, untracked and stray responses; model action `stray` with `C04_stray_refused` |
| `C06-r2a`, `C05-r2a` | a marshalled slice came from a pool and was overwritten by the next marshal | every marshalled slice is retained with a snapshot and re-checked at the end |
| `C07-r2a`, `C07-r2b` | a decoder stalled / panicked only on protocol-control seeds and on inputs with special characters | protocol-control seeds, special-character mutator, stall detection with re-measurement |
| `C08-r2a`, `C08-r2b` | root cause lost only through `Unwrap()`-style wrappers and on one-shot write faults | roots with `Unwrap()`, one-shot write faults at every write index |
| `C12-r2a` (no concrete input) | the reader rejected trailing bytes of a High-profile record: my spec lacked the 2012 extension block | spec corrected to ISO/IEC 14496-15:2012 (`HighExt`), finding K6 recorded; the change is caught by `spec_record_read` cases |
| `C13-r2a`, `C13-r2b` | per-message `EnableWriteCompression` toggled mid-session; a control frame inside an open message writer | oracle op with per-message compression flags; `C13-r2b` is decided by C15's scenario "ping during message" (`also_checks`) |
| `C14-r2b` | invalid UTF-8 close reasons of every length | close reasons × lengths up to 123 bytes |
| `C15-r2b` | ping while a message writer is open | scenario added |
| `C16-r2a` | in-place AEAD open overwrote the fresh object's ciphertext | decrypt the object returned by Encrypt twice; decrypt must not change its serialisation |
| `C18-r2a` | alias of a context whose parent carries an id | alias cases with id-carrying parents |
| `C19-r2a`, `C19-r2b` (caught, but without a concrete input) | `%` in the JSON under a callback; chunked (> 2 KB) envelopes | `%`-strings with callback; large envelopes through the real client |

**Round 3** (40 changes, two per property, 19 missed or caught without an input)

| missed | why | strengthening |
|---|---|---|
| `C01-r3b` | `NewProtocol` shared one settings object between input and output: only an endpoint that both writes and reads shows it | duplex sessions: one `Protocol` per endpoint, writes and reads interleaved at random, both sides announcing chunk sizes |
| `C03-r3a` | the pending-request table was reset at 32 outstanding requests | pipelined bursts of up to several hundred requests, answers shuffled and repeated |
| `C05-r3a`, `C05-r3b` | `Size()` memoised and not invalidated by changes to nested children; keys of exactly 127/128 bytes truncated | trees changed *after* being measured (`Get`/`Set` on nested containers, `*String`/`*Number` assigned in place); key lengths around 64/128/256 |
| `C11-r3a` (no concrete input) | a decoder cached the fixed header keyed on two of its bytes: channel changes 1↔2↔3 unnoticed | one decoder over streams whose configuration changes one field at a time, `ASC()` checked after every frame; codecs configured through the public `SetASC` |
| `C14-r3a` (no concrete input), `C14-r3b` | close code 1004 accepted after a map→range rewrite; read buffers below 125 bytes with larger control payloads | close-code sweep on the implementation against the conformant receiver (property-level), the accepted set regenerated by evaluation (section 3a); any configured read buffer size |
| `C16-r3a`, `C16-r3b` | a recipient behind a foreign RSA1_5 entry could not decrypt; highly compressible or > 250 000-byte payloads rejected by an inverted inflate limit | multi-recipient JWE in the model (`jweDecryptLoop`, `C16_roundtrip_jwe_multi`, `C16_tamper_jwe_multi`), recipient orders fixed and random, oracle op `jose.jwe.multi`; compressed payloads of every entropy up to 1 MiB |
| `C19-r3a` | the `Server` header cached at the first response | `Server` re-configured between requests |
| `C04-r3a`, `C04-r3b` (no concrete input) | the READER answered a peer's ping by writing through the writer's buffer (request bytes flushed twice); a request whose transport write reported an error although the bytes were delivered was taken out of the table | peer control traffic (ping, stream-begin, window size) between the responses in every other schedule; the endpoint's wire must be exactly the requests, once; delivered-but-failed writes whose responses must still match |
| `C06-r3b` | `(*String).UnmarshalBinary` accepted the long-string marker and read it under the short layout | the typed decoders given all 256 marker bytes: each accepts its own marker only, and then agrees with the generic decoder |
| `C07-r3a`, `C07-r3b` | ECDH-ES `epk` on another curve than the recipient's key panicked in the key derivation; `ocsp.ParseResponseForCert` with a certificate no SingleResponse is for dereferenced nil | ECDH-ES objects made for keys on every curve offered to keys on every curve; the `ForCert` entry point with a real response (public x/crypto test vector) and foreign / matching serial numbers |
| `C12-r3b` | the record kept the reserved bits it was read with and wrote them back | records read from bytes with arbitrary reserved bits must marshal to the layout of their values |
| `C15-r3b` | a cached transport deadline went stale after `WriteControl` armed its own | a transport that honours write deadlines; a control frame's deadline must not outlive it (retried, never reported, if the process stalls) |
| `C18-r3a`, `C18-r3b` (no concrete input) | `Switch(w)` ignored when `w` was the previous writer (after `Close`); the rendered message used as a format again | writer histories (Switch/Close sequences, two writers); the whole line computed in the harness from the call alone (`%` in a rendered message is text) |

**Round 4** (40 changes, 20 missed or caught without an input)

| missed | why | strengthening |
|---|---|---|
| `C01-r4a`, `C05-r4a`, `C12-r4b` | a value cached in or shared between objects the CALLER keeps (`Message` reused across writes, booleans handed out as two shared singletons, NAL headers pointing into one table): editing one object changed another | messages reused across writes with other fields; constructors must hand out independent values; parsed values edited and parsed again |
| `C01-r4b`, `C02-r4b`, `C03-r4b` | Set Chunk Size honoured only on chunk stream 2; one settings object for both directions; `Peek` of more than the bufio buffer | Set Chunk Size on any chunk stream; the reading endpoint announces its own chunk size; large packets behind chunk sizes above 4096 |
| `C03-r4a`, `C04-r4a` (no input), `C04-r4b` | a cached container size after the packet was measured; bookkeeping on a copy (value receiver); the request table keyed by `uint32(tid)` | packets changed after being measured; fractional and wide transaction ids; the translator follows helper methods for the write-lock facts |
| `C06-r4b`, `C08-r4a`, `C09-r4a` (no input), `C09-r4b`, `C10-r4a` | decoded strings viewing the input buffer; payloads / tags aliasing a reused read buffer; the muxer writing into the caller's slice | decoded values must not alias the input; messages and tags HELD until after a failing read; tags muxed from a caller buffer with spare capacity that must stay untouched |
| `C07-r4a` (no input), `C11-r4a` (no input) | a split function that stalls at the end of input; a length compared after truncation to 16 bits | a harness watchdog (a library call that never returns is a `terminates` violation with the stuck goroutines); streams well over 64 KiB |
| `C13-r4a`, `C13-r4b`, `C14-r4a`, `C14-r4b` | pooled flate readers handed to two sessions; an unclosed compressed writer; one `messageReader` reused for every message; huge legal frame lengths allocated up front | two compressed sessions read alternately; the implicit close of an unclosed writer; abandoned readers; huge frame lengths on cut streams |
| `C15-r4a`, `C15-r4b` (thorough only) | a timed-out write not latched; `writeErr` read without its mutex | a stalled peer — nothing may follow a frame whose write timed out half-way; the race-enabled harness now also runs in the quick tier |
| `C17-r4b`, `C18-r4a`, `C18-r4b`, `C20-r4a` | a pooled token buffer not reset between `Unmarshal` calls; colour escapes written to the previous writer; the info level skipped; `Average()` served from a one-second cache | sequential `Unmarshal` calls are independent; a writer that is not an `io.Closer` gets exactly one write per call; the info level follows `Switch` like the others (extracted table `switchLevels`); the public wall-clock `Average()` with measured bounds |

**Round 5** (40 changes, 15 missed or caught without an input)

| missed | why | strengthening |
|---|---|---|
| `C01-r5b` (and `C04-r5a`, caught) | the reader parsed message headers in a scratch array the writer also used: only a write that happens WHILE a read is in progress shows it | a re-entrant transport: at every split offset of the peer's stream the endpoint writes from inside the `Read` call that would deliver the rest (RTMP `Protocol`, websocket `Conn`); what is read is the peer's, what is written is a write-only endpoint's |
| `C03-r5a` | the reader masked an announced chunk size to 31 bits, the writer did not | Set Chunk Size values with the top bit set followed by packets longer than the low bits |
| `C04-r5b` | the transaction lock held across the transport write: the harness's own watchdog fired, and `check` then crashed on a result without samples | `check` no longer crashes on a watchdog result; an internal error of `check` is itself reported as a violation; no second (race) pass after a property violation |
| `C05-r5a`, `C05-r5b`, `C06-r5a` | a process-wide nesting counter leaked by refused payloads and shared by concurrent decoders; a packet decoder advancing by the `Size()` of stale arguments when the packet value is REUSED; a marshalled property list cached and not invalidated by changes below | chains of up to 5000 nested containers; a canary value decoded again after batches of deep, cut-off and bad-marker values; decoders on 8 goroutines; every AMF0 value type and every RTMP packet kind decoded into long-lived values as well as fresh ones (this found **F29–F31** in the unchanged library, section 9); C06 compares with the specification after every change to a live value |
| `C07-r5a` | a continuation chunk with a type-1 header announcing a SMALLER length made `make([]byte, negative)` panic | chunk streams written at the chunk level with one protocol rule broken in the middle of a message |
| `C12-r5a`, `C12-r5b` (no input) | marshalled samples from a `sync.Pool`; `NewAVCSample(2)` silently turned into 4-byte lengths | retained encoder outputs as a shared facility (AVC, RTMP packets); the ISO sample layout and the reading of an independently written sample as property clauses for every length size |
| `C13-r5a`, `C14-r5b` | the handshake timeout's read deadline left armed on the session; the Close 1002 sent under the application's stale write deadline | fake transports remember deadlines: none may be armed when `Dial` / `Upgrade` return; the reader's replies go out whatever write deadline the application had set |
| `C15-r5a` (no input), `C15-r5b` | `isWriting` left set by a failed flush (later writes panic); a Close frame sent as a prepared message did not latch | library panics on driver goroutines are outcomes (and `check` reports a panic that stops the harness as `no_panic` with its stack); the Close frame sent by the writing goroutine in every way the API offers, pingers running throughout |
| `C18-r5a` (thorough only), `C18-r5b` | the pid cached lazily without synchronisation; the context key turned into a plain string | the first lines of the process come from 16 goroutines at once, under the race detector in both tiers; application values under plain-string keys of any spelling are not the connection id |

**Round 6** (40 changes, 14 missed or caught without an input; brief: which error comes
back, unusual call orders, faults in the middle of an operation, decoder-only inputs, the second element, two options together)

| missed | why | strengthening |
|---|---|---|
| `C03-r6a`, `C04-r6b` | a continuation-chunk extended timestamp compared before masking (timestamps ≥ 2^31 on multi-chunk messages); the AMF3 command type (17) decoded with its format byte | packets relayed as messages at any 32-bit timestamp and through message type 17; every third response of the C04 schedules arrives as an AMF3 command |
| `C07-r6a` | CBC-HMAC ciphertext that is not a whole number of blocks behind a VALID tag panicked in `CryptBlocks` (the F28 family) | crafted objects with ciphertexts of every length class behind a valid tag |
| `C08-r6a`, `C08-r6b` | the root cause lost at the third byte of a 3-byte basic header (the library's writer only produces the 1-byte form); `WritePacket` returned nil after a failed write of connect / createStream | cut and fault sweeps over hand-written chunk streams with 2- and 3-byte basic headers; `WritePacket` of connect (9 KB, several transport writes), createStream and a call under faults at the write boundaries |
| `C11-r6a` | `Encode` passed a payload through when it already looked like an ADTS frame | payloads that look like ADTS (a whole frame, off-by-one lengths, a bare sync word, two frames) are opaque |
| `C13-r6b`, `C14-r6b` (no input) | a ping between the fragments of a message failed the message reader; fragments received before `SetReadLimit` were not counted | control frames between the fragments of a message that is being read; the read limit configured between messages and in the middle of a fragmented message |
| `C15-r6a`, `C15-r6b` | `SetWriteDeadline` armed the transport at once and cut a control frame in progress; `ReadFrom` dropped bytes returned with `io.EOF` | a `net.Pipe` scenario: the data writer sets a short deadline while a ping is stuck in the transport; a data message streamed from an EOF-with-data source must be on the wire intact before the Close |
| `C18-r6a`, `C18-r6b` | `Close()` reset the id counter; Printf-family calls without operands escaped `%` | ids unique across log rotation (Close / Switch); formats with `%%` and no operands |
| `C19-r6a`, `C19-r6b` (no input) | errors classified by their `Cause()`; `&`-style sequences un-escaped in the encoded JSON | application errors that also expose a `Cause()`; strings with a literal backslash in front of `u0026` / `u003c` / `u003e` |

**Round 7** (40 changes, 17 missed or caught by the thorough tier only; brief: exported helpers combined with the main path,
arithmetic that fails only on large counts / many elements / long sessions, empty things, two different objects of the
package used together, the legal extremes of the quantifier)

| missed | why | strengthening |
|---|---|---|
| `C02-r7a`, `C02-r7b` | idle chunk streams evicted from the reader's table once it holds 64 (their header state is what compressed headers refer to); `DecodeMessage` re-applied a Set Chunk Size message to the reader | 65–2000 chunk streams on one connection followed by type-1/2/3 headers on the earlier ones; the application decodes what it received some messages later than the read loop got it, and decodes a relayed Set Chunk Size message |
| `C03-r7a` (thorough only), `C03-r7b` | the reader's per-stream chunk counter narrowed to 16 bits (wraps after 65536 chunks); the chunk message header read with a single `Read` instead of `io.ReadFull` | a 70 000-chunk message (chunk size 1) in the quick tier; every other endpoint pair reads through a transport that hands bytes over in small pieces |
| `C04-r7b` | the reader's per-stream chunk counter narrowed to 16 bits: a continuation chunk after exactly 65536 chunks is rejected as "fresh" | long sessions: thousands of requests on one connection, one long-lived peer writer with chunk size 1 / 7 / 128, windows of outstanding requests answered in rotating order |
| `C06-r7a` | strict arrays decoded to their first 4096 elements, silently mis-sized | containers of 4095…70 000 elements: objects and ECMA arrays against the specification, strict arrays in the library's own layout (alone and inside an enclosing object whose later properties must survive) |
| `C07-r7b` | the RSA public exponent of a JWK right-aligned into 8 bytes (an `e` longer than 8 octets panics, leading zeros miscounted) | keys whose integer fields have every length (RSA e / n of 0..70 octets, EC coordinates, oct), also embedded as `jwk` in a protected header |
| `C08-r7a`, `C08-r7b` | `ExpectPacket` / `ExpectMessage` retried after a transport error that calls itself temporary (and went on out of frame); `NewDemuxer` wrapped the reader in a read-ahead buffer | a transport that fails ONCE with a timeout / `EAGAIN` / `EINTR` / deadline error at every offset of a session and then carries on: the operation in progress returns that error; the FLV stream is handed from one demuxer object to the next after the header and after every second tag |
| `C09-r7b` | `Close` seeks back and rewrites the header's type flags when the writer is seekable | the muxer writes in turn to a plain buffer and to a seekable file-like writer that is read after `Close` |
| `C12-r7a` (thorough only) | a decoded SPS/PPS equal to the one just before it is consumed but not appended | parameter sets that repeat (equal to the previous one, to an earlier one, header-only) |
| `C13-r7b` | `Conn.write` no longer clears the transport's write deadline when the connection has none: a data message inherits the expired deadline of the pong sent a second earlier | the fake transports ENFORCE the write deadline against a virtual clock; data writes (every entry point) five seconds after a pong / ping / close reply / application deadline |
| `C14-r7a` | `Dial` read the 101 response through a temporary buffered reader and lost the frames that arrived with it | every third client-role reader run gets its connection from `Dialer.Dial` over a scripted transport whose first read carries the response AND the frame stream |
| `C15-r7a`, `C15-r7b` | the message reader took a ping handled between two fragments for a protocol violation; the 64-bit length form wrote only its low word into a buffer the `Upgrade` response had used | every interleaving's wire is also read by the library at the other end (`ReadMessage` / message reader in 1–7 byte pieces); connections obtained from `Upgrade` and `Dial` write their FIRST message in every length form with pingers running |
| `C17-r7a`, `C17-r7b` | start markers searched in non-overlapping 1024-byte windows; a new `WriteTo` forgot the bytes `Read` had buffered | comments starting at every offset around 512…8192 of a marker-free run (from the start, after a string, after a comment); mixed consumption: short `Read`s, then `io.Copy` / a `bufio.Reader`'s `WriteTo` |
| `C19-r7a` | the JSONP callback taken from `FormValue` (posted form fields win over the query) | the same resource requested with POST / PUT / PATCH / DELETE and form, JSON and multipart bodies carrying a `callback` field |
| `C20-r7b` | the counter chosen by a type switch on the source: an object with both counters always meters requests | one source object with differing request and byte counters handed to `NewKrps` and `NewKbps`; public `Average()` of both within measured bounds |

{table}
### 13b. Behaviour-preserving changes: what the checks say when the properties still hold

63 refactors in three batches (three per package group and batch: readability, performance, structure; 15–250 changed lines each) were
written by sub-agents told to keep every observable behaviour identical, including error cases and aliasing;
each agent cross-checked its own change with a throw-away differential fuzz against the original. They are kept
as `benign/<id>/patch.diff`; `tools/benignrun.py` applies each in a scratch worktree, confirms the baseline suite,
and runs the quick check of every property anchored in the touched packages.

First run (machinery as of round 3): 12 of 21 raised no alarm; 9 raised `no-failing-input-found` for at least one
property (translator facts keyed on spelling, section 10); none raised a correspondence mismatch that was a real
behaviour difference — and the escalation triggered by five of them found the genuine defect F27. After the
translator changes of section 3a, 20 of those 21 and 39 of all 42 raised no alarm; the remaining three
(`misc-b`, `misc-2b`, `misc-2c`) were translator facts that still read the spelling of the source. They are now:
the JSONP format literal is optional (the wrapped bytes are decided by the correspondence run), the level table of
`Switch` follows the package's own helper functions with their parameters, and logger prefix templates that are not
format literals fall back to the model's own templates, said so in the generated file (the correspondence run compares
every line byte for byte). A third batch of 21 harder refactors raised four more alarms of the same kind (section 10), all repaired in the
translator. With the machinery of this commit:

{btable}
'''
s = s[:start] + new + s[end:]
# Appendix D
if "## Appendix D" in s:
    a = s.index("## Appendix D")
    s = s[:a] + "## Appendix D — theorems per property (generated by `tools/theoremtable.py`)\n\n" + run("theoremtable.py")
open(p, "w").write(s)
print("section 13:", n, "seeded;", btable.strip().split("\n")[-1])
