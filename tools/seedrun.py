#!/usr/bin/env python3
"""
tools/seedrun.py [name ...]   — run the registered checks against seeded breaking changes.

For each /verif/seeded/<name>/ (patch.diff, demo test, meta.json {property, demo_path, demo_cmd, needs, ...}):
  1. confirm the demonstration: passes on the unchanged tree, fails with the patch;
  2. confirm the existing suite still passes with the patch;
  3. apply the patch to /repo, run ./check <property> quick (then thorough if quick exits 0), undo;
  4. write seeded/<name>/result.json.
/repo is always restored (git checkout -- . and removal of the demo file).
"""
import json, os, subprocess, sys, time, glob

ROOT = os.path.dirname(os.path.dirname(os.path.abspath(__file__)))   # where seeded/ lives (results are written here)
# Isolated mode (default): checks run in scratch worktrees of /verif HEAD and /repo HEAD so that neither the
# developer's /repo nor /verif's build directories are disturbed. SEED_INPLACE=1 uses /verif and /repo directly.
INPLACE = os.environ.get("SEED_INPLACE") == "1"
SLOT = os.environ.get("SEED_SLOT", "")          # several runs side by side: each slot has its own scratch worktrees
RUN = ROOT if INPLACE else "/tmp/w/seed-verif" + SLOT
REPO = "/repo" if INPLACE else "/tmp/w/seed-repo" + SLOT
ENV = dict(os.environ, GOFLAGS="-mod=mod", GOPROXY="off", GOSUMDB="off", GOTOOLCHAIN="local", VERIF_REPO=REPO)


def prepare():
    if INPLACE:
        return
    for base, wt in (("/verif", RUN), ("/repo", REPO)):
        head = subprocess.run(["git", "-C", base, "rev-parse", "HEAD"], stdout=subprocess.PIPE, text=True).stdout.strip()
        if not os.path.isdir(wt):
            subprocess.run(["git", "-C", base, "worktree", "add", "-q", "--detach", wt, head], check=True)
        else:
            subprocess.run(["git", "-C", wt, "reset", "-q", "--hard"], check=True)
            subprocess.run(["git", "-C", wt, "checkout", "-q", "-f", "--detach", head], check=True)
    rc, out = sh([os.path.join(RUN, "check"), "setup"], cwd=RUN, timeout=3600)
    assert rc == 0, out[-2000:]


def sh(cmd, cwd=None, timeout=3600):
    p = subprocess.run(cmd, cwd=cwd, env=ENV, shell=isinstance(cmd, str), stdout=subprocess.PIPE, stderr=subprocess.STDOUT, text=True, timeout=timeout)
    return p.returncode, p.stdout


def clean():
    sh(["git", "-C", REPO, "reset", "-q", "--hard"])
    sh(["git", "-C", REPO, "clean", "-fdq", "--", "."])


def run(name, tiers=("quick", "thorough")):
    d = os.path.join(ROOT, "seeded", name)
    meta = json.load(open(os.path.join(d, "meta.json")))
    res = {"name": name, "property": meta["property"], "at": time.strftime("%Y-%m-%dT%H:%M:%SZ", time.gmtime())}
    assert sh(["git", "-C", REPO, "status", "--porcelain"])[1].strip() == "", "/repo not clean"
    demo_src = os.path.join(d, meta.get("demo_file", "demo_test.go"))
    demo_dst = os.path.join(REPO, meta["demo_path"])
    try:
        # 1. demonstration
        open(demo_dst, "w").write(open(demo_src).read())
        rc0, out0 = sh(meta["demo_cmd"], cwd=REPO, timeout=900)
        rc, out = sh(["git", "-C", REPO, "apply", os.path.join(d, "patch.diff")])
        if rc != 0:
            # the tree moved on since the change was written (a later fix touched neighbouring lines): three-way merge
            rc, out = sh(["git", "-C", REPO, "apply", "--3way", os.path.join(d, "patch.diff")])
            res["applied_with_3way"] = rc == 0
        if rc != 0:
            res["error"] = "patch does not apply: " + out[-500:]
            return res
        rc1, out1 = sh(meta["demo_cmd"], cwd=REPO, timeout=900)
        res["demo_passes_unchanged"] = rc0 == 0
        res["demo_fails_patched"] = rc1 != 0
        os.remove(demo_dst)
        if rc0 == 0 and rc1 == 0:
            # the tree moved on (a later fix closed the hole this change relied on): the change no longer breaks the
            # property — its own demonstration passes — so there is nothing for the checks to find
            res["detected_by"] = "n/a"
            res["neutralised"] = "the author's demonstration passes with the change applied to the current tree: a later fix: commit in /repo removed what the change relied on"
            return res
        # 2. existing suite + build with the patch
        rcb, outb = sh("go build ./... && go test -vet=off -count=1 ./...", cwd=REPO, timeout=1800)
        res["suite_passes_patched"] = rcb == 0
        if rcb != 0:
            res["suite_output"] = outb[-1500:]
        # 3. the checks
        for tier in tiers:
            t0 = time.time()
            rcc, outc = sh([os.path.join(RUN, "check"), meta["property"], tier], cwd=RUN, timeout=7200)
            lines = [l for l in outc.split("\n") if l.startswith("VIOLATION") or l.startswith("KNOWN-FINDING")]
            res[tier] = {"exit": rcc, "lines": [l[:300] for l in lines], "wall_s": round(time.time() - t0, 1)}
            viol = [l for l in lines if l.startswith("VIOLATION")]
            if viol:
                rp = viol[0].split("replay=")[1].split()[0]
                try:
                    r = json.load(open(rp))
                    res[tier]["replay"] = {k: (str(r.get(k))[:400]) for k in ("kind", "clause", "input", "impl_output", "model_output", "no_failing_input_found")}
                except Exception:
                    pass
                res["detected_by"] = tier
                res["concrete_input"] = "no-failing-input-found" not in viol[0]
                break
        else:
            res["detected_by"] = None
            # a clause of this property that is decided by another property's check (e.g. a concurrency clause)
            for other in meta.get("also_checks", []):
                rcc, outc = sh([os.path.join(RUN, "check"), other, "quick"], cwd=RUN, timeout=7200)
                lines = [l for l in outc.split("\n") if l.startswith("VIOLATION")]
                res["also_" + other] = {"exit": rcc, "lines": [l[:300] for l in lines]}
                if lines:
                    res["detected_by"] = "quick (check of " + other + ")"
                    res["concrete_input"] = "no-failing-input-found" not in lines[0]
                    break
    finally:
        if os.path.exists(demo_dst):
            os.remove(demo_dst)
        clean()
        # put the evidence/Gen back to the unchanged tree's
        if INPLACE:
            sh([os.path.join(RUN, "check"), meta["property"], "quick"], cwd=RUN, timeout=3600)
    json.dump(res, open(os.path.join(d, "result.json"), "w"), indent=1)
    return res


if __name__ == "__main__":
    names = sys.argv[1:] or sorted(os.path.basename(p) for p in glob.glob(os.path.join(ROOT, "seeded", "*")) if os.path.isdir(p))
    prepare()
    for n in names:
        r = run(n)
        print(json.dumps({k: r.get(k) for k in ("name", "property", "demo_passes_unchanged", "demo_fails_patched", "suite_passes_patched", "detected_by", "concrete_input", "error")}))
