#!/usr/bin/env python3
"""Print 'Appendix D' of DESIGN.md: the theorem names of every Props/Cxx.lean (statements and doc comments are in the files)."""
import re, glob, os
ROOT = os.path.dirname(os.path.dirname(os.path.abspath(__file__)))
for p in sorted(glob.glob(os.path.join(ROOT, "lean", "Oryx", "Props", "C*.lean"))):
    pid = os.path.basename(p)[:-5]
    src = open(p).read()
    names = re.findall(r"^theorem\s+([^\s:(\[{]+)", src, re.M)
    ex = len(re.findall(r"^\s*example\b", src, re.M))
    print(f"* **{pid}** ({len(names)} theorems, {ex} gating / non-vacuity examples): " + ", ".join(f"`{n}`" for n in names))
