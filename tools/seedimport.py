#!/usr/bin/env python3
"""tools/seedimport.py <Cxx> — import the two changes produced by a mutation sub-agent from /tmp/m/<Cxx>/out."""
import json, os, shutil, sys
arg = sys.argv[1]          # "C05" or "C05-r2" (second round: names C05-r2a, C05-r2b)
pid = arg.split("-")[0]
src = f"/tmp/m/{arg}/out"
for x in "ab":
    if not os.path.exists(f"{src}/{x}.diff"):
        continue
    d = f"/verif/seeded/{arg}{x}" if "-" in arg else f"/verif/seeded/{pid}-{x}"
    os.makedirs(d, exist_ok=True)
    shutil.copy(f"{src}/{x}.diff", f"{d}/patch.diff")
    shutil.copy(f"{src}/{x}_demo_test.go", f"{d}/demo_test.go")
    lines = [l.strip() for l in open(f"{src}/{x}_demo_path.txt").read().strip().split("\n") if l.strip()]
    meta = {"property": pid, "demo_file": "demo_test.go", "demo_path": lines[0], "demo_cmd": lines[1] if len(lines) > 1 else f"go test -vet=off -count=1 ./{os.path.dirname(lines[0])}/",
            "origin": "independent sub-agent given only the property text and a scratch worktree of /repo",
            "description": open(f"{src}/{x}_meta.txt").read().strip()}
    json.dump(meta, open(f"{d}/meta.json", "w"), indent=1)
    print("imported", d, "|", meta["demo_cmd"])
