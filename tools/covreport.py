#!/usr/bin/env python3
"""tools/covreport.py [Cxx ...] — statement coverage of each property's anchor files reached by its own
correspondence driver (quick budget, coverage-instrumented harness): how tight the sampled tie is, and which
functions of the anchored code no driver case enters."""
import importlib.machinery, json, os, sys
ROOT = os.path.dirname(os.path.dirname(os.path.abspath(__file__)))
chk = importlib.machinery.SourceFileLoader("check", os.path.join(ROOT, "check")).load_module()
ids = sys.argv[1:] or [json.loads(l)["id"] for l in open(os.path.join(ROOT, "properties.jsonl"))]
out = {}
for pid in ids:
    cov = chk.impl_coverage(pid, 1)
    out[pid] = cov
    print(pid, json.dumps(cov.get("anchor_files", cov))[:400])
    z = cov.get("functions_never_entered", [])
    if z:
        print("   never entered:", ", ".join(z)[:1500])
json.dump(out, open(os.path.join(ROOT, "build", "covreport.json"), "w"), indent=1)
