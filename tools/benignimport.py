#!/usr/bin/env python3
"""tools/benignimport.py <batch> — import the refactors a batch of sub-agents left in /tmp/m/B<batch>-<group>/out as benign/<group>-<batch><x>/."""
import glob, os, shutil, sys
ROOT = os.path.dirname(os.path.dirname(os.path.abspath(__file__)))
batch = sys.argv[1]
for src in sorted(glob.glob(f"/tmp/m/B{batch}-*/out")):
    g = os.path.basename(os.path.dirname(src)).split("-", 1)[1]
    for x in "abc":
        if not os.path.exists(f"{src}/{x}.diff"):
            continue
        d = os.path.join(ROOT, "benign", f"{g}-{batch}{x}")
        os.makedirs(d, exist_ok=True)
        shutil.copy(f"{src}/{x}.diff", f"{d}/patch.diff")
        if os.path.exists(f"{src}/{x}_meta.txt"):
            shutil.copy(f"{src}/{x}_meta.txt", f"{d}/meta.txt")
        print("imported", d)
