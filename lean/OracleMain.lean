/-
  Line-protocol driver over ALL domains (convenience for interactive use and replays; the checks use the
  per-domain executables `oracle_<domain>`, roots `Exe/<Domain>.lean`).
  Imports only core-only modules (Base, Model, Spec, Gen) so it links as a native executable.
-/
import Oracle.All
import Oracle.Loop
def main : IO Unit := Oracle.mainLoop Oracle.dispatch
