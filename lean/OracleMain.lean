/-
  Line-protocol driver: one request per line `op arg…`, one reply per line.
  Imports only core-only modules (Base, Model, Spec, Gen) so it links as a native executable.
-/
import Oracle.All
open Oracle

partial def loop (hin hout : IO.FS.Stream) : IO Unit := do
  let line ← hin.getLine
  if line.isEmpty then return ()
  let ws := (line.trimAscii.toString.splitOn " ").filter (· ≠ "")
  match ws with
  | [] => hout.putStrLn "bad-op"
  | op :: args =>
    match dispatch op args with
    | some r => hout.putStrLn r
    | none => hout.putStrLn "bad-op"
  hout.flush
  loop hin hout

def main : IO Unit := do
  loop (← IO.getStdin) (← IO.getStdout)
