/- Oracle executable of one domain (so that a model that stops building takes down only the checks that use it). -/
import Oracle.Loop
import Oracle.WsHs
def main : IO Unit := Oracle.mainLoop Oracle.WsHs.handle
