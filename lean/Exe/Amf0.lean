/- Oracle executable of one domain (so that a model that stops building takes down only the checks that use it). -/
import Oracle.Loop
import Oracle.Amf0
def main : IO Unit := Oracle.mainLoop Oracle.Amf0.handle
