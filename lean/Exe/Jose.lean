/- Oracle executable of one domain (so that a model that stops building takes down only the checks that use it). -/
import Oracle.Loop
import Oracle.Jose
def main : IO Unit := Oracle.mainLoop Oracle.Jose.handle
