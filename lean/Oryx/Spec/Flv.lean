/-
  Independent writer for the FLV version 1 file layout, from Adobe "Video File Format Specification
  Version 10" (video_file_format_spec_v10), Annex E "The FLV File Format":

  E.2 The FLV header
      Signature UI8 'F' (0x46), UI8 'L' (0x4C), UI8 'V' (0x56); Version UI8 = 1;
      TypeFlagsReserved UB[5] = 0, TypeFlagsAudio UB[1], TypeFlagsReserved UB[1] = 0, TypeFlagsVideo UB[1];
      DataOffset UI32 = 9 (length of this header in bytes, for FLV version 1).
  E.3 The FLV file body
      PreviousTagSize0 UI32 = 0, Tag1, PreviousTagSize1 UI32, Tag2, …, PreviousTagSizeN UI32,
      PreviousTagSizeK = size of tag K including its header = 11 + DataSize.
  E.4.1 FLV tag
      TagType UI8; DataSize UI24 (length of the data); Timestamp UI24 (ms); TimestampExtended UI8
      (the upper 8 bits of a 32-bit SI32 timestamp); StreamID UI24 = 0; Data.
  E.4.2.1 AUDIODATA first byte: SoundFormat UB[4], SoundRate UB[2], SoundSize UB[1], SoundType UB[1].
  E.4.3.1 VIDEODATA first byte: FrameType UB[4], CodecID UB[4]; for AVC: AVCPacketType UI8,
      CompositionTime SI24.

  All integers are big-endian. Arithmetic (div/mod) composition on purpose — the library uses shifts.
  Core Lean only.
-/
import Oryx.Base.Bytes
namespace Oryx.Spec.Flv
open Oryx

def ui8 (v : Nat) : Bytes := [UInt8.ofNat v]
def ui24 (v : Nat) : Bytes := [UInt8.ofNat (v / 65536), UInt8.ofNat (v / 256 % 256), UInt8.ofNat (v % 256)]
def ui32 (v : Nat) : Bytes :=
  [UInt8.ofNat (v / 16777216), UInt8.ofNat (v / 65536 % 256), UInt8.ofNat (v / 256 % 256), UInt8.ofNat (v % 256)]

/-- A tag as the standard sees it: type (UI8), 32-bit timestamp, data (fewer than 2^24 bytes). -/
structure Tag where
  tagType : Nat
  timestamp : Nat
  data : Bytes
  deriving DecidableEq, Repr

def Tag.WF (t : Tag) : Prop := t.tagType < 256 ∧ t.timestamp < 4294967296 ∧ t.data.length < 16777216

instance (t : Tag) : Decidable t.WF := by unfold Tag.WF; exact inferInstance

/-- E.2: the 9-byte FLV header. -/
def header (audio video : Bool) : Bytes :=
  [0x46, 0x4C, 0x56] ++ ui8 1 ++ ui8 ((if audio then 4 else 0) + (if video then 1 else 0)) ++ ui32 9

/-- E.4.1: one FLVTAG. -/
def tag (t : Tag) : Bytes :=
  ui8 t.tagType ++ ui24 t.data.length ++ ui24 (t.timestamp % 16777216) ++ ui8 (t.timestamp / 16777216)
    ++ ui24 0 ++ t.data

/-- E.3: Tag1, PreviousTagSize1, Tag2, PreviousTagSize2, … -/
def body : List Tag → Bytes
  | [] => []
  | t :: ts => tag t ++ ui32 (11 + t.data.length) ++ body ts

/-- A whole file: header, PreviousTagSize0 = 0, body. -/
def file (audio video : Bool) (tags : List Tag) : Bytes :=
  header audio video ++ ui32 0 ++ body tags

/-- E.4.2.1: first byte of AUDIODATA. -/
def audioByte (soundFormat soundRate soundSize soundType : Nat) : Nat :=
  soundFormat * 16 + soundRate * 4 + soundSize * 2 + soundType

/-- E.4.3.1: first byte of VIDEODATA. -/
def videoByte (frameType codecID : Nat) : Nat := frameType * 16 + codecID

/-- E.4.2.1 SoundRate: 0 = 5.5 kHz, 1 = 11 kHz, 2 = 22 kHz, 3 = 44 kHz (5512 / 11025 / 22050 / 44100 Hz). -/
def soundRateHz : List (Nat × Nat) := [(0, 5512), (1, 11025), (2, 22050), (3, 44100)]

/-- RFC 6716 §2 bandwidths as sampling rates; the library's Opus rate code is the rate in kHz. -/
def opusRateHz : List (Nat × Nat) := [(8, 8000), (12, 12000), (16, 16000), (24, 24000), (48, 48000)]

end Oryx.Spec.Flv
