/-
  Independent ADTS frame writer, from ISO/IEC 13818-7 §6.2 (Audio Data Transport Stream), for a
  frame carrying ONE raw_data_block (number_of_raw_data_blocks_in_frame = 0):

    adts_frame() { adts_fixed_header(); adts_variable_header();
                   adts_error_check();  raw_data_block(); }            (Table 5, the nrdb == 0 branch)

    adts_fixed_header()                         bits     adts_variable_header()                 bits
      syncword                  = 0xFFF          12        copyright_identification_bit           1
      ID   (1 = MPEG-2, 0 = MPEG-4)               1        copyright_identification_start         1
      layer                     = '00'            2        aac_frame_length                      13
      protection_absent                           1        adts_buffer_fullness                  11
      profile                                     2        number_of_raw_data_blocks_in_frame     2
      sampling_frequency_index                    4
      private_bit                                 1      adts_error_check()
      channel_configuration                       3        if (protection_absent == '0')
      original/copy                               1            crc_check                         16
      home                                        1

  aac_frame_length: "Length of the frame including headers and error_check in bytes".
  All fields are most-significant-bit first (bslbf / uimsbf); the 56 header bits are exactly 7 bytes.

  The writer concatenates the fields as one big-endian number — arithmetic, no bit operators, on
  purpose different from the library's shift/or spelling. Core Lean only.
-/
import Oryx.Base.Bytes
namespace Oryx.Spec.Adts
open Oryx

/-- One ADTS frame with a single raw data block. Fields the library does not interpret (private,
original/copy, home, copyright bits, buffer fullness, CRC value) are free. -/
structure Frame where
  id : Nat                 -- 1 bit: 1 = MPEG-2 AAC, 0 = MPEG-4
  protectionAbsent : Nat   -- 1 bit: 0 = crc_check present
  profile : Nat            -- 2 bits
  sfi : Nat                -- 4 bits, sampling_frequency_index
  privateBit : Nat         -- 1 bit
  channels : Nat           -- 3 bits, channel_configuration
  original : Nat           -- 1 bit
  home : Nat               -- 1 bit
  copyrightBit : Nat       -- 1 bit
  copyrightStart : Nat     -- 1 bit
  bufferFullness : Nat     -- 11 bits
  crc : Nat                -- 16 bits, written only when protectionAbsent = 0
  raw : Bytes              -- raw_data_block()
  deriving Repr

/-- Field widths. -/
def Frame.WF (f : Frame) : Prop :=
  f.id < 2 ∧ f.protectionAbsent < 2 ∧ f.profile < 4 ∧ f.sfi < 16 ∧ f.privateBit < 2 ∧
  f.channels < 8 ∧ f.original < 2 ∧ f.home < 2 ∧ f.copyrightBit < 2 ∧ f.copyrightStart < 2 ∧
  f.bufferFullness < 2048 ∧ f.crc < 65536

instance (f : Frame) : Decidable f.WF := by unfold Frame.WF; exact inferInstance

/-- Size of adts_fixed_header + adts_variable_header + adts_error_check in bytes. -/
def Frame.headerSize (f : Frame) : Nat := if f.protectionAbsent = 0 then 9 else 7

/-- aac_frame_length: headers, error check and the raw data block. -/
def Frame.frameLength (f : Frame) : Nat := f.headerSize + f.raw.length

/-- Concatenate `(width, value)` bit fields, most significant first, into one number. -/
def packBits : List (Nat × Nat) → Nat → Nat
  | [], acc => acc
  | (w, v) :: rest, acc => packBits rest (acc * 2 ^ w + v)

/-- adts_fixed_header() followed by adts_variable_header(): 56 bits. -/
def Frame.headerBits (f : Frame) : Nat :=
  packBits [
    (12, 0xFFF),               -- syncword
    (1, f.id),                 -- ID
    (2, 0),                    -- layer
    (1, f.protectionAbsent),   -- protection_absent
    (2, f.profile),            -- profile
    (4, f.sfi),                -- sampling_frequency_index
    (1, f.privateBit),         -- private_bit
    (3, f.channels),           -- channel_configuration
    (1, f.original),           -- original/copy
    (1, f.home),               -- home
    (1, f.copyrightBit),       -- copyright_identification_bit
    (1, f.copyrightStart),     -- copyright_identification_start
    (13, f.frameLength),       -- aac_frame_length
    (11, f.bufferFullness),    -- adts_buffer_fullness
    (2, 0)                     -- number_of_raw_data_blocks_in_frame
  ] 0

/-- adts_error_check(). -/
def Frame.errorCheck (f : Frame) : Bytes := if f.protectionAbsent = 0 then be 2 f.crc else []

/-- The frame on the wire. -/
def Frame.write (f : Frame) : Bytes := be 7 f.headerBits ++ f.errorCheck ++ f.raw

/-- A stream is the concatenation of its frames. -/
def writeAll : List Frame → Bytes
  | [] => []
  | f :: fs => f.write ++ writeAll fs

/-- Sampling frequency by sampling_frequency_index: ISO/IEC 13818-7 Table 35 (0x0–0xb), extended by
ISO/IEC 14496-3 Table 1.16 with 0xc = 7350 Hz. 0xd–0xf are reserved / escape: no frequency. -/
def samplingFrequency : Nat → Option Nat
  | 0 => some 96000 | 1 => some 88200 | 2 => some 64000 | 3 => some 48000
  | 4 => some 44100 | 5 => some 32000 | 6 => some 24000 | 7 => some 22050
  | 8 => some 16000 | 9 => some 12000 | 10 => some 11025 | 11 => some 8000
  | 12 => some 7350
  | _ => none

/-- ADTS profile → MPEG-4 audio object type (ISO/IEC 14496-3 §1.A.2.2.1: profile = object type − 1):
0 Main → 1 AAC Main, 1 LC → 2 AAC LC, 2 SSR → 3 AAC SSR; 3 is reserved in ISO/IEC 13818-7. -/
def objectTypeOfProfile : Nat → Option Nat
  | 0 => some 1 | 1 => some 2 | 2 => some 3 | _ => none

end Oryx.Spec.Adts
