/-
  Independent writer for the AVCDecoderConfigurationRecord, from ISO/IEC 14496-15 §5.2.4.1.1:

    unsigned int(8) configurationVersion = 1;
    unsigned int(8) AVCProfileIndication;
    unsigned int(8) profile_compatibility;
    unsigned int(8) AVCLevelIndication;
    bit(6) reserved = '111111'b;  unsigned int(2) lengthSizeMinusOne;
    bit(3) reserved = '111'b;     unsigned int(5) numOfSequenceParameterSets;
    for each: unsigned int(16) sequenceParameterSetLength; bit(8*len) sequenceParameterSetNALUnit;
    unsigned int(8) numOfPictureParameterSets;
    for each: unsigned int(16) pictureParameterSetLength; bit(8*len) pictureParameterSetNALUnit;
    if (profile_idc == 100 || profile_idc == 110 || profile_idc == 122 || profile_idc == 144) {   // 2012 edition
      bit(6) reserved = '111111'b; unsigned int(2) chroma_format;
      bit(5) reserved = '11111'b;  unsigned int(3) bit_depth_luma_minus8;
      bit(5) reserved = '11111'b;  unsigned int(3) bit_depth_chroma_minus8;
      unsigned int(8) numOfSequenceParameterSetExt;
      for each: unsigned int(16) sequenceParameterSetExtLength; bit(8*len) sequenceParameterSetExtNALUnit;
    }

  NAL units are opaque byte strings here. Arithmetic (not bitwise) composition on purpose.
-/
import Oryx.Base.Bytes
namespace Oryx.Spec.Avc
open Oryx

def paramSets : List Bytes → Bytes
  | [] => []
  | u :: us => be 2 u.length ++ u ++ paramSets us

/-- The trailing block the 2012 edition prescribes for the High profiles. -/
structure HighExt where
  chromaFormat : Nat          -- 2 bits
  bitDepthLumaMinus8 : Nat    -- 3 bits
  bitDepthChromaMinus8 : Nat  -- 3 bits
  spsExt : List Bytes
  deriving Repr

/-- `profile_idc ∈ {100, 110, 122, 144}`. -/
def needsExt (profile : UInt8) : Bool := profile == 100 || profile == 110 || profile == 122 || profile == 144

def extBytes (e : HighExt) : Bytes :=
  [UInt8.ofNat (252 + e.chromaFormat), UInt8.ofNat (248 + e.bitDepthLumaMinus8),
   UInt8.ofNat (248 + e.bitDepthChromaMinus8), UInt8.ofNat e.spsExt.length] ++ paramSets e.spsExt

/-- The record without the High-profile block (all there is for the other profiles). -/
def recordBase (profile compat level : UInt8) (lengthSizeMinusOne : Nat) (sps pps : List Bytes) : Bytes :=
  [1, profile, compat, level,
   UInt8.ofNat (252 + lengthSizeMinusOne),      -- 111111xx
   UInt8.ofNat (224 + sps.length)]              -- 111xxxxx
  ++ paramSets sps ++ [UInt8.ofNat pps.length] ++ paramSets pps

/-- A writer is conformant when it appends the block exactly for the High profiles. -/
def ExtConformant (profile : UInt8) (ext : Option HighExt) : Prop := ext.isSome = needsExt profile

def record (profile compat level : UInt8) (lengthSizeMinusOne : Nat) (sps pps : List Bytes)
    (ext : Option HighExt) : Bytes :=
  recordBase profile compat level lengthSizeMinusOne sps pps ++
    (match ext with | some e => extBytes e | none => [])

/-- NAL unit per ISO/IEC 14496-10 §7.3.1: forbidden_zero_bit(1)=0, nal_ref_idc(2), nal_unit_type(5), payload. -/
def nalUnit (refIdc ty : Nat) (payload : Bytes) : Bytes :=
  UInt8.ofNat (refIdc * 32 + ty) :: payload

end Oryx.Spec.Avc
