/-
  Independent writer for the AVCDecoderConfigurationRecord, from ISO/IEC 14496-15 §5.2.4.1.1:

    unsigned int(8) configurationVersion = 1;
    unsigned int(8) AVCProfileIndication;
    unsigned int(8) profile_compatibility;
    unsigned int(8) AVCLevelIndication;
    bit(6) reserved = '111111'b;  unsigned int(2) lengthSizeMinusOne;
    bit(3) reserved = '111'b;     unsigned int(5) numOfSequenceParameterSets;
    for each: unsigned int(16) sequenceParameterSetLength; bit(8*len) sequenceParameterSetNALUnit;
    unsigned int(8) numOfPictureParameterSets;
    for each: unsigned int(16) pictureParameterSetLength; bit(8*len) pictureParameterSetNALUnit;

  NAL units are opaque byte strings here. Arithmetic (not bitwise) composition on purpose.
-/
import Oryx.Base.Bytes
namespace Oryx.Spec.Avc
open Oryx

def paramSets : List Bytes → Bytes
  | [] => []
  | u :: us => be 2 u.length ++ u ++ paramSets us

def record (profile compat level : UInt8) (lengthSizeMinusOne : Nat) (sps pps : List Bytes) : Bytes :=
  [1, profile, compat, level,
   UInt8.ofNat (252 + lengthSizeMinusOne),      -- 111111xx
   UInt8.ofNat (224 + sps.length)]              -- 111xxxxx
  ++ paramSets sps ++ [UInt8.ofNat pps.length] ++ paramSets pps

/-- NAL unit per ISO/IEC 14496-10 §7.3.1: forbidden_zero_bit(1)=0, nal_ref_idc(2), nal_unit_type(5), payload. -/
def nalUnit (refIdc ty : Nat) (payload : Bytes) : Bytes :=
  UInt8.ofNat (refIdc * 32 + ty) :: payload

end Oryx.Spec.Avc
