/-
  The relation between library values (`Oryx.Amf0.Val`) and specification values
  (`Oryx.Spec.Amf0.SVal`) that the C06 theorems are stated over. Core Lean only.

  The only structural difference is the strict array: the specification's is a list of VALUES,
  the library's is a keyed property list (finding K1). `toSpec` forgets the keys,
  `ofSpec` invents empty ones; the two are inverse exactly on values whose strict arrays are empty
  (`compat` / `scompat`), which is the domain of `C06_partial`.
-/
import Oryx.Model.Amf0
import Oryx.Spec.Amf0
namespace Oryx.Amf0
open Oryx Oryx.Spec.Amf0

mutual
/-- Library value → specification value (`none` only for `objectEOF`, which is not a value). -/
def toSpec : Val → Option SVal
  | .num b => some (.number b)
  | .bool b => some (.boolean b)
  | .str s => some (.string s)
  | .null => some .null
  | .undef => some .undefined
  | .obj ps => (toSpecP ps).map .object
  | .ecma c ps => (toSpecP ps).map (.ecmaArray c)
  | .strict ps => (toSpecV ps).map .strictArray
  | .eof => none
def toSpecP : Props → Option SProps
  | .nil => some .nil
  | .cons k v tl =>
    match toSpec v, toSpecP tl with
    | some v', some tl' => some (.cons k v' tl')
    | _, _ => none
/-- The element values of a library strict array, keys dropped. -/
def toSpecV : Props → Option SVals
  | .nil => some .nil
  | .cons _ v tl =>
    match toSpec v, toSpecV tl with
    | some v', some tl' => some (.cons v' tl')
    | _, _ => none
end

mutual
/-- Specification value → library value (strict-array elements get empty keys). -/
def ofSpec : SVal → Val
  | .number b => .num b
  | .boolean b => .bool b
  | .string s => .str s
  | .object ps => .obj (ofSpecP ps)
  | .null => .null
  | .undefined => .undef
  | .ecmaArray n ps => .ecma n (ofSpecP ps)
  | .strictArray vs => .strict (ofSpecV vs)
def ofSpecP : SProps → Props
  | .nil => .nil
  | .cons k v tl => .cons k (ofSpec v) (ofSpecP tl)
def ofSpecV : SVals → Props
  | .nil => .nil
  | .cons v tl => .cons [] (ofSpec v) (ofSpecV tl)
end

mutual
/-- No non-empty strict array anywhere in the tree (and no `objectEOF` value). -/
def compat : Val → Bool
  | .obj ps => compatP ps
  | .ecma _ ps => compatP ps
  | .strict ps => (match ps with | .nil => true | _ => false)
  | .eof => false
  | _ => true
def compatP : Props → Bool
  | .nil => true
  | .cons _ v tl => compat v && compatP tl
end

mutual
/-- No non-empty strict array anywhere in the specification value. -/
def scompat : SVal → Bool
  | .object ps => scompatP ps
  | .ecmaArray _ ps => scompatP ps
  | .strictArray vs => (match vs with | .nil => true | _ => false)
  | _ => true
def scompatP : SProps → Bool
  | .nil => true
  | .cons _ v tl => scompat v && scompatP tl
end

end Oryx.Amf0
