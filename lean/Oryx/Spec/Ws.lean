/-
  Spec.Ws — the WebSocket framing rules, written from the text of RFC 6455 (§5.2 base framing,
  §5.3 masking, §5.4 fragmentation, §5.5 control frames, §7.4 status codes), RFC 7692 §6
  (per-message-compressed bit) and RFC 3629 §4 (UTF-8). Independent of the Go code and of the
  generated constants: every number below is the RFC's.

  * `Frame`, `serialise`, `parseFrame`, `parseAll`   — §5.2 wire format (both directions)
  * `validSeq`, `parse`                               — what a sender of a given role may put on the wire
  * `recv`                                            — a conformant receiver over an abstract frame sequence
  Core Lean only.
-/
import Oryx.Base.Bytes
namespace Oryx.Spec.Ws
open Oryx

/-- Which endpoint: the client masks every frame it sends, the server none (§5.1). -/
inductive Role where
  | client | server
  deriving DecidableEq, Repr

/-- One frame of §5.2. `lenForm` is the length encoding used on the wire (0 = 7-bit, 1 = 16-bit
extended, 2 = 64-bit extended); `len` the announced payload length; `payload` the *unmasked*
payload data; `key` the masking key (4 bytes) when `masked`, `[]` otherwise. -/
structure Frame where
  fin : Bool
  rsv1 : Bool
  rsv2 : Bool
  rsv3 : Bool
  opcode : Nat
  masked : Bool
  key : Bytes
  lenForm : Nat
  len : Nat
  payload : Bytes
  deriving DecidableEq, Repr

def b2n (b : Bool) : Nat := if b then 1 else 0

/-- §5.3: octet `i` of the transformed data is octet `i` of the original XOR octet `i mod 4` of the
key. `pos` is the index of the first octet (so a payload can be transformed in pieces). -/
def xorMask (key : Bytes) : Nat → Bytes → Bytes
  | _, [] => []
  | pos, b :: bs => (b ^^^ key.getD (pos % 4) 0) :: xorMask key (pos + 1) bs

/-- First header octet: FIN, RSV1-3, opcode. -/
def byte0 (f : Frame) : UInt8 :=
  UInt8.ofNat (128 * b2n f.fin + 64 * b2n f.rsv1 + 32 * b2n f.rsv2 + 16 * b2n f.rsv3 + f.opcode)

/-- The 7-bit length field for each length form. -/
def len7 (f : Frame) : Nat :=
  match f.lenForm with
  | 0 => f.len
  | 1 => 126
  | _ => 127

/-- The extended payload length octets (network byte order). -/
def extLen (f : Frame) : Bytes :=
  match f.lenForm with
  | 0 => []
  | 1 => be 2 f.len
  | _ => be 8 f.len

def byte1 (f : Frame) : UInt8 := UInt8.ofNat (128 * b2n f.masked + len7 f)

/-- Payload octets as they travel. -/
def wirePayload (f : Frame) : Bytes := if f.masked then xorMask f.key 0 f.payload else f.payload

/-- §5.2 wire image of one frame. -/
def serialise (f : Frame) : Bytes :=
  byte0 f :: byte1 f :: (extLen f ++ ((if f.masked then f.key else []) ++ wirePayload f))

def serialiseAll : List Frame → Bytes
  | [] => []
  | f :: fs => serialise f ++ serialiseAll fs

/-- Representable frames: fields fit their bit widths and the payload has the announced length. -/
def Frame.WF (f : Frame) : Prop :=
  f.opcode < 16 ∧ f.lenForm ≤ 2 ∧
  (f.lenForm = 0 → f.len < 126) ∧ (f.lenForm = 1 → f.len < 65536) ∧ (f.lenForm = 2 → f.len < 2 ^ 64) ∧
  (if f.masked then f.key.length = 4 else f.key = []) ∧
  f.payload.length = f.len

instance (f : Frame) : Decidable f.WF := by unfold Frame.WF; exact inferInstance

/-- "the minimal number of bytes MUST be used to encode the length" and "the most significant bit
MUST be 0" (§5.2, payload length). -/
def minimalLen (f : Frame) : Bool :=
  match f.lenForm with
  | 0 => f.len < 126
  | 1 => 126 ≤ f.len && f.len < 65536
  | _ => 65536 ≤ f.len && f.len < 2 ^ 63

inductive PErr where
  | incomplete            -- the octets end inside a frame
  | bad (why : String)
  deriving DecidableEq, Repr

/-- Parse one frame off the front of `bs` (any length form accepted here; see `minimalLen`). -/
def parseFrame (bs : Bytes) : Except PErr (Frame × Bytes) :=
  match bs with
  | b0 :: b1 :: r =>
    let n0 := b0.toNat
    let n1 := b1.toNat
    let l7 := n1 % 128
    let masked := n1 / 128 = 1
    let form := if l7 = 126 then 1 else if l7 = 127 then 2 else 0
    let extN := if form = 1 then 2 else if form = 2 then 8 else 0
    let ext := r.take extN
    if ext.length < extN then .error .incomplete else
    let len := if form = 0 then l7 else ofBE ext
    let r := r.drop extN
    let keyN := if masked then 4 else 0
    let key := r.take keyN
    if key.length < keyN then .error .incomplete else
    let r := r.drop keyN
    let data := r.take len
    if data.length < len then .error .incomplete else
    .ok ({ fin := n0 / 128 = 1, rsv1 := n0 / 64 % 2 = 1, rsv2 := n0 / 32 % 2 = 1, rsv3 := n0 / 16 % 2 = 1,
           opcode := n0 % 16, masked := masked, key := key, lenForm := form, len := len,
           payload := if masked then xorMask key 0 data else data }, r.drop len)
  | _ => .error .incomplete

/-- Parse a whole octet string into frames (`fuel` ≥ length suffices: each frame has ≥ 2 octets). -/
def parseAllF : Nat → Bytes → Except PErr (List Frame)
  | _, [] => .ok []
  | 0, _ => .error (.bad "fuel")
  | n + 1, bs =>
    match parseFrame bs with
    | .error e => .error e
    | .ok (f, rest) =>
      match parseAllF n rest with
      | .error e => .error e
      | .ok fs => .ok (f :: fs)

def parseAll (bs : Bytes) : Except PErr (List Frame) := parseAllF bs.length bs

def isControl (op : Nat) : Bool := op == 8 || op == 9 || op == 10
def isDataStart (op : Nat) : Bool := op == 1 || op == 2
def knownOpcode (op : Nat) : Bool := op == 0 || isDataStart op || isControl op

/-! ### RFC 3629 §4 UTF-8 (used for the close reason, RFC 6455 §5.5.1) -/

def tailB (b : UInt8) : Bool := 0x80 ≤ b.toNat && b.toNat ≤ 0xBF
def inR (b : UInt8) (lo hi : Nat) : Bool := lo ≤ b.toNat && b.toNat ≤ hi

/-- `UTF8-octets = *( UTF8-char )` with UTF8-1 … UTF8-4 exactly as in the ABNF of RFC 3629 §4
(no overlong forms, no surrogates, nothing above U+10FFFF). -/
def utf8ValidF : Nat → Bytes → Bool
  | _, [] => true
  | 0, _ => false
  | n + 1, a :: rest =>
    if inR a 0x00 0x7F then utf8ValidF n rest
    else if inR a 0xC2 0xDF then
      match rest with
      | b :: r => tailB b && utf8ValidF n r
      | _ => false
    else if inR a 0xE0 0xEF then
      match rest with
      | b :: c :: r =>
        (if a.toNat = 0xE0 then inR b 0xA0 0xBF
         else if a.toNat = 0xED then inR b 0x80 0x9F
         else tailB b) && tailB c && utf8ValidF n r
      | _ => false
    else if inR a 0xF0 0xF4 then
      match rest with
      | b :: c :: d :: r =>
        (if a.toNat = 0xF0 then inR b 0x90 0xBF
         else if a.toNat = 0xF4 then inR b 0x80 0x8F
         else tailB b) && tailB c && tailB d && utf8ValidF n r
      | _ => false
    else false

def utf8Valid (bs : Bytes) : Bool := utf8ValidF bs.length bs

/-! ### §7.4 status codes a peer may put in a Close frame -/

/-- §7.4.1 defined codes that may appear on the wire (1000–1003, 1007–1011; 1012/1013 from the IANA
registry), §7.4.2 3000–3999 registered and 4000–4999 private use. 1004 is reserved, 1005/1006/1015
"MUST NOT be set as a status code in a Close control frame by an endpoint". -/
def validCloseCode (c : Nat) : Bool :=
  c == 1000 || c == 1001 || c == 1002 || c == 1003 || c == 1007 || c == 1008 || c == 1009 ||
  c == 1010 || c == 1011 || c == 1012 || c == 1013 || (3000 ≤ c && c ≤ 4999)

/-- §5.5.1: a Close body, if any, starts with a 2-byte status code followed by UTF-8 text. -/
def closeBodyBad (p : Bytes) : Bool :=
  p.length == 1 || (2 ≤ p.length && (!validCloseCode (ofBE (p.take 2)) || !utf8Valid (p.drop 2)))

/-! ### Sender-side validity: what may appear on the wire from an endpoint of role `sender` -/

/-- Per-frame rules (inMsg = a fragmented data message is open before this frame). -/
def frameOk (sender : Role) (deflate : Bool) (inMsg : Bool) (f : Frame) : Bool :=
  !f.rsv2 && !f.rsv3                                             -- §5.2 RSV2, RSV3 MUST be 0
  && (!f.rsv1 || (deflate && isDataStart f.opcode))               -- RFC 7692 §6: RSV1 only on the first frame of a data message
  && knownOpcode f.opcode                                         -- §5.2 opcodes 3–7, B–F reserved
  && (!isControl f.opcode || (f.fin && f.len ≤ 125))              -- §5.5 control ≤ 125 and not fragmented
  && (f.opcode != 0 || inMsg)                                     -- §5.4 continuation only inside a message
  && (!isDataStart f.opcode || !inMsg)                            -- §5.4 no new message inside a fragmented one
  && (f.masked == (sender == .client))                            -- §5.1 client masks, server does not
  && minimalLen f                                                 -- §5.2 minimal length form, MSB 0

def nextInMsg (inMsg : Bool) (f : Frame) : Bool :=
  if isControl f.opcode then inMsg else !f.fin

def validSeq (sender : Role) (deflate : Bool) : Bool → List Frame → Bool
  | _, [] => true
  | inMsg, f :: fs => frameOk sender deflate inMsg f && validSeq sender deflate (nextInMsg inMsg f) fs

/-- The independent wire check of C13: the octets are a sequence of whole frames that an endpoint of
role `sender` is allowed to send. -/
def parse (sender : Role) (deflate : Bool) (bs : Bytes) : Except PErr (List Frame) :=
  match parseAll bs with
  | .error e => .error e
  | .ok fs => if validSeq sender deflate false fs then .ok fs else .error (.bad "rule")

/-! ### A conformant receiver over an abstract frame sequence (C14) -/

structure Msg where
  ty : Nat
  compressed : Bool
  data : Bytes
  deriving DecidableEq, Repr

/-- How the receiver stopped. -/
inductive End where
  | more                                  -- all frames consumed, connection still open
  | fail (status : Nat)                   -- _Fail the WebSocket Connection_ with this close status
  | closed (code : Nat) (reason : Bytes)  -- the peer's Close frame arrived (1005 = no status)
  deriving DecidableEq, Repr

structure RecvOut where
  msgs : List Msg
  replies : List (Nat × Bytes)            -- control frames the receiver sends back: (opcode, payload)
  fin : End
  deriving DecidableEq, Repr

/-- The violations the receiver must answer with 1002 (§5.2 reserved bits / opcodes, MSB of a 64-bit
length; §5.5 fragmented or oversized control frame; §5.4 sequencing; §5.1 masking for the
receiver's role; §5.5.1/§7.4 close body). A control frame whose 7-bit length field is 126/127
(an extended length form) counts as oversized whatever the extended value says: a payload of at
most 125 bytes MUST be encoded in the 7-bit field. For data frames the RFC constrains only the
sender ("minimal number of bytes MUST be used"); this receiver tolerates a non-minimal form. -/
def violation (receiver : Role) (deflate : Bool) (inMsg : Bool) (f : Frame) : Bool :=
  f.rsv2 || f.rsv3
  || (f.rsv1 && !(deflate && isDataStart f.opcode))
  || !knownOpcode f.opcode
  || (isControl f.opcode && (!f.fin || 125 < f.len || f.lenForm != 0))
  || (f.opcode == 0 && !inMsg)
  || (isDataStart f.opcode && inMsg)
  || (f.masked != (receiver == .server))
  || 2 ^ 63 ≤ f.len
  || (f.opcode == 8 && closeBodyBad f.payload)

/-- Receiver state: the open (fragmented) message, if any. -/
structure Open where
  ty : Nat
  compressed : Bool
  acc : Bytes
  total : Nat
  deriving DecidableEq, Repr

/-- `cap` = the largest message (sum of announced payload lengths) the receiver accepts; beyond it
the connection is failed with 1009 (§7.4.1 "message too big"). -/
def recvFrom (receiver : Role) (deflate : Bool) (cap : Nat) :
    Option Open → List Frame → RecvOut
  | _, [] => { msgs := [], replies := [], fin := .more }
  | st, f :: fs =>
    if violation receiver deflate st.isSome f then
      { msgs := [], replies := [(8, be 2 1002)], fin := .fail 1002 }
    else if f.opcode == 9 then
      let r := recvFrom receiver deflate cap st fs
      { r with replies := (10, f.payload) :: r.replies }           -- §5.5.2/3: pong with the ping's data
    else if f.opcode == 10 then
      recvFrom receiver deflate cap st fs
    else if f.opcode == 8 then
      if f.payload.length < 2 then
        { msgs := [], replies := [(8, [])], fin := .closed 1005 [] }
      else
        { msgs := [], replies := [(8, f.payload.take 2)],
          fin := .closed (ofBE (f.payload.take 2)) (f.payload.drop 2) }
    else
      -- data frame (1, 2 start a message; 0 continues the open one)
      let cur : Open := match st with
        | some o => o
        | none => { ty := f.opcode, compressed := f.rsv1, acc := [], total := 0 }
      let total := cur.total + f.len
      if cap < total then
        { msgs := [], replies := [(8, be 2 1009)], fin := .fail 1009 }
      else if f.fin then
        let r := recvFrom receiver deflate cap none fs
        { r with msgs := { ty := cur.ty, compressed := cur.compressed, data := cur.acc ++ f.payload } :: r.msgs }
      else
        recvFrom receiver deflate cap (some { cur with acc := cur.acc ++ f.payload, total := total }) fs

def recv (receiver : Role) (deflate : Bool) (cap : Nat) (fs : List Frame) : RecvOut :=
  recvFrom receiver deflate cap none fs

end Oryx.Spec.Ws
