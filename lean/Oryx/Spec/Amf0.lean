/-
  AMF0 as the specification defines it — "Action Message Format -- AMF 0" (amf0_spec_121207),
  sections 1.3 (U8/U16/U32/DOUBLE big-endian, UTF-8 = U16 length + bytes) and 2.2–2.12, for the
  types the library supports. Written from the specification text, independently of amf0.go:

    2.2  number-type       = number-marker(0x00) DOUBLE            (8 bytes IEEE-754, network order)
    2.3  boolean-type      = boolean-marker(0x01) U8               (0 is false, everything else true)
    2.4  string-type       = string-marker(0x02) UTF-8             (U16 byte length, then the bytes)
    2.5  object-type       = object-marker(0x03) *(object-property) ; object-property =
                             (UTF-8 value-type) | (UTF-8-empty object-end-marker(0x09))
    2.7  null-type         = null-marker(0x05)
    2.8  undefined-type    = undefined-marker(0x06)
    2.10 ecma-array-type   = ecma-array-marker(0x08) associative-count(U32) *(object-property)
    2.11 object-end-type   = UTF-8-empty object-end-marker
    2.12 strict-array-type = strict-array-marker(0x0A) array-count(U32) *(value-type)
                             -- the VALUES ONLY, no keys --

  Every other marker (movieclip 4, reference 7, date 11, long string 12, unsupported 13, recordset 14,
  XML 15, typed object 16, AVM+ 17, and everything ≥ 18) is outside the supported subset and is
  rejected by `dec`. Core Lean only.
-/
import Oryx.Base.Bytes
namespace Oryx.Spec.Amf0
open Oryx

mutual
/-- AMF0 values of the supported types. The ECMA array keeps the associative-count that was on
the wire (the specification leaves its relation to the number of properties open). -/
inductive SVal where
  | number (bits : UInt64)
  | boolean (b : Bool)
  | string (s : Bytes)
  | object (ps : SProps)
  | null
  | undefined
  | ecmaArray (count : Nat) (ps : SProps)
  | strictArray (vs : SVals)
inductive SProps where
  | nil
  | cons (k : Bytes) (v : SVal) (tl : SProps)
inductive SVals where
  | nil
  | cons (v : SVal) (tl : SVals)
end

def SVals.length : SVals → Nat
  | .nil => 0
  | .cons _ tl => tl.length + 1

/-- §1.3.1 UTF-8: U16 byte length, then the bytes. -/
def utf8 (s : Bytes) : Bytes := be 2 s.length ++ s

/-- §2.11 object-end-type: UTF-8-empty (00 00) followed by the object-end-marker (09). -/
def objectEnd : Bytes := [0x00, 0x00, 0x09]

mutual
/-- The encoding of a value. -/
def enc : SVal → Bytes
  | .number b => 0x00 :: be 8 b.toNat
  | .boolean b => [0x01, if b then 0x01 else 0x00]
  | .string s => 0x02 :: utf8 s
  | .object ps => 0x03 :: (encProps ps ++ objectEnd)
  | .null => [0x05]
  | .undefined => [0x06]
  | .ecmaArray n ps => 0x08 :: (be 4 n ++ (encProps ps ++ objectEnd))
  | .strictArray vs => 0x0A :: (be 4 vs.length ++ encVals vs)
def encProps : SProps → Bytes
  | .nil => []
  | .cons k v tl => utf8 k ++ (enc v ++ encProps tl)
def encVals : SVals → Bytes
  | .nil => []
  | .cons v tl => enc v ++ encVals tl
end

/-- §1.3.1 reader: U16 length, then that many bytes. -/
def readUtf8 (p : Bytes) : Option (Bytes × Bytes) :=
  match p with
  | a :: b :: q =>
    let n := a.toNat * 256 + b.toNat
    if n ≤ q.length then some (q.take n, q.drop n) else none
  | _ => none

/-- U32 reader. -/
def readU32 (p : Bytes) : Option (Nat × Bytes) :=
  match p with
  | a :: b :: c :: d :: q => some (((a.toNat * 256 + b.toNat) * 256 + c.toNat) * 256 + d.toNat, q)
  | _ => none

mutual
/-- The decoder for one value: `some (value, remaining bytes)`, or `none` for anything that is not a
complete encoding of a supported type. (`fuel` bounds nesting + iterations; `bs.length + 1` suffices.) -/
def dec : Nat → Bytes → Option (SVal × Bytes)
  | 0, _ => none
  | fuel+1, p =>
    match p with
    | [] => none
    | m :: q =>
      if m = 0x00 then
        (if 8 ≤ q.length then some (.number (UInt64.ofNat (ofBE (q.take 8))), q.drop 8) else none)
      else if m = 0x01 then
        (match q with
         | b :: r => some (.boolean (b != 0), r)
         | [] => none)
      else if m = 0x02 then
        (match readUtf8 q with
         | some (s, r) => some (.string s, r)
         | none => none)
      else if m = 0x03 then
        (match decProps fuel q with
         | some (ps, r) => some (.object ps, r)
         | none => none)
      else if m = 0x05 then some (.null, q)
      else if m = 0x06 then some (.undefined, q)
      else if m = 0x08 then
        (match readU32 q with
         | some (n, r) =>
           (match decProps fuel r with
            | some (ps, r') => some (.ecmaArray n ps, r')
            | none => none)
         | none => none)
      else if m = 0x0A then
        (match readU32 q with
         | some (n, r) =>
           (match decVals fuel n r with
            | some (vs, r') => some (.strictArray vs, r')
            | none => none)
         | none => none)
      else none
/-- object-property list up to and including the object-end-type. -/
def decProps : Nat → Bytes → Option (SProps × Bytes)
  | 0, _ => none
  | fuel+1, p =>
    match readUtf8 p with
    | none => none
    | some (k, r) =>
      match r with
      | [] => none
      | m :: q =>
        if k.length = 0 ∧ m = 0x09 then some (.nil, q) else
        match dec fuel r with
        | none => none
        | some (v, r') =>
          match decProps fuel r' with
          | none => none
          | some (tl, r'') => some (.cons k v tl, r'')
/-- `n` values in a row. -/
def decVals : Nat → Nat → Bytes → Option (SVals × Bytes)
  | _, 0, p => some (.nil, p)
  | 0, _+1, _ => none
  | fuel+1, n+1, p =>
    match dec fuel p with
    | none => none
    | some (v, r) =>
      match decVals fuel n r with
      | none => none
      | some (tl, r') => some (.cons v tl, r')
end

/-- Decode one value from the front of `bs`. -/
def decode (bs : Bytes) : Option (SVal × Bytes) := dec (bs.length + 1) bs

mutual
/-- Values the encoding can represent: strings/keys ≤ 65535 bytes, counts fit a U32. -/
def swf : SVal → Bool
  | .string s => decide (s.length ≤ 65535)
  | .object ps => swfP ps
  | .ecmaArray n ps => decide (n < 4294967296) && swfP ps
  | .strictArray vs => decide (vs.length < 4294967296) && swfV vs
  | _ => true
def swfP : SProps → Bool
  | .nil => true
  | .cons k v tl => decide (k.length ≤ 65535) && swf v && swfP tl
def swfV : SVals → Bool
  | .nil => true
  | .cons v tl => swf v && swfV tl
end

end Oryx.Spec.Amf0
