/-
  Abstract RTMP chunker (sender side), written from "Adobe's Real Time Messaging Protocol" 1.0,
  section 5.3 (Chunking). Independent of the library's reader (imports only Base.Bytes). Core Lean only.

  §5.3.1.1 Chunk Basic Header: fmt (2 bits) + chunk stream id.
      1 byte : cs id 2..63 in the low 6 bits;
      2 bytes: low 6 bits 0, cs id 64..319   = second byte + 64;
      3 bytes: low 6 bits 1, cs id 64..65599 = third byte * 256 + second byte + 64.
  §5.3.1.2 Chunk Message Header:
      type 0 (11 bytes) timestamp(3) length(3) type id(1) message stream id(4, little endian);
                        MUST be used at the start of a chunk stream;
      type 1 (7 bytes)  timestamp delta(3) length(3) type id(1); stream id of the preceding chunk;
      type 2 (3 bytes)  timestamp delta(3); stream id and length (and type) of the preceding chunk;
      type 3 (0 bytes)  everything from the preceding chunk. All chunks of a message after the first
                        are type 3. A type-3 chunk that starts a new message takes the delta of the
                        preceding chunk; right after a type 0 that "delta" is the type-0 timestamp.
  §5.3.1.3 Extended Timestamp (4 bytes): present iff the timestamp (type 0) or delta (type 1, 2) is
      ≥ 0xFFFFFF, in which case the 3-byte field is 0xFFFFFF and this field carries the whole 32-bit
      timestamp or delta; present in a type-3 chunk iff the most recent type 0/1/2 chunk of the same
      chunk stream had it (and it repeats that value).
  §5.3.2 / §5.4.1: chunk payload = min(bytes remaining of the message, current maximum chunk size);
      Set Chunk Size (type id 1, 4-byte big-endian body, 1..0x7FFFFFFF) applies to the chunks that
      follow the message carrying it. Default chunk size 128. Timestamps are 32 bits and roll over.
  §5.4 / §7.1.7: bodies of the protocol control messages 1, 3, 5, 6 and of User Control (type 4) events.
  No Abort message (type id 2): the property is about streams without it.

  A trace is a list of chunk events. Each event carries ALL header fields of the message it belongs
  to, also those its header type does not put on the wire; `step` demands that the fields a header
  type omits equal the chunk stream's current values (that IS the meaning of "same as the preceding
  chunk"). With that redundancy the wire bytes of an event do not depend on the sender state.

  `newTs`/`step`/`run` take a flag `absExt`. `absExt = false` IS the specification and is what
  `Conformant`, `specMessages`, `NoExtendedDelta`, `EndsComplete` use. `absExt = true` is a DEVIATING
  reading ("an extended timestamp field is always an absolute time", what SRS and this library's
  reader implement) kept only to state the known deviation K2 exactly (`messagesAbsExt`).

  One documented extension: librtmp starts chunk stream 2 with a type-1 header (its ping). `step`
  accepts that form as if the chunk stream had been started at timestamp 0 / message stream 0;
  `Strict` is the predicate without the extension.
-/
import Oryx.Base.Bytes
namespace Oryx.Spec.RtmpChunk
open Oryx

/-- One chunk on the wire. `tsField` = timestamp (type 0) or timestamp delta (type 1/2; for type 3
the delta in force); `data` = this chunk's slice of the message payload. -/
structure ChunkEv where
  cid : Nat
  bhForm : Nat
  fmt : Nat
  tsField : Nat
  len : Nat
  ty : Nat
  sid : Nat
  data : Bytes
  deriving DecidableEq, Repr, Inhabited

/-- A reassembled message as the receiver must see it. -/
structure Message where
  cid : Nat
  ty : Nat
  sid : Nat
  ts : Nat
  payload : Bytes
  deriving DecidableEq, Repr, Inhabited

/-! ### wire format (state independent) -/

/-- §5.3.1.1: which basic-header forms may carry a chunk stream id. -/
def FormLegal (cid form : Nat) : Prop :=
  (form = 1 ∧ 2 ≤ cid ∧ cid ≤ 63) ∨ (form = 2 ∧ 64 ≤ cid ∧ cid ≤ 319) ∨ (form = 3 ∧ 64 ≤ cid ∧ cid ≤ 65599)

instance (cid form : Nat) : Decidable (FormLegal cid form) := by unfold FormLegal; infer_instance

def basicHeader (fmt cid form : Nat) : Bytes :=
  if form = 1 then [UInt8.ofNat (fmt * 64 + cid)]
  else if form = 2 then [UInt8.ofNat (fmt * 64), UInt8.ofNat (cid - 64)]
  else [UInt8.ofNat (fmt * 64 + 1), UInt8.ofNat ((cid - 64) % 256), UInt8.ofNat ((cid - 64) / 256)]

/-- Value of the 3-byte timestamp field. -/
def tsWire (t : Nat) : Nat := if t < 16777215 then t else 16777215

def messageHeader (e : ChunkEv) : Bytes :=
  if e.fmt = 0 then be 3 (tsWire e.tsField) ++ be 3 e.len ++ [UInt8.ofNat e.ty] ++ le 4 e.sid
  else if e.fmt = 1 then be 3 (tsWire e.tsField) ++ be 3 e.len ++ [UInt8.ofNat e.ty]
  else if e.fmt = 2 then be 3 (tsWire e.tsField)
  else []

def extendedTimestamp (e : ChunkEv) : Bytes := if 16777215 ≤ e.tsField then be 4 e.tsField else []

def chunkBytes (e : ChunkEv) : Bytes :=
  basicHeader e.fmt e.cid e.bhForm ++ (messageHeader e ++ (extendedTimestamp e ++ e.data))

def specBytes : List ChunkEv → Bytes
  | [] => []
  | e :: tr => chunkBytes e ++ specBytes tr

/-! ### sender state -/

/-- Per chunk stream: what "the preceding chunk" means. -/
structure CsState where
  ts : Nat := 0        -- timestamp of the current / most recent message (32 bit)
  delta : Nat := 0     -- timestamp field of the most recent type 0/1/2 chunk (type 0: the timestamp)
  len : Nat := 0
  ty : Nat := 0
  sid : Nat := 0
  got : Bytes := []    -- bytes of the unfinished message already sent
  busy : Bool := false -- a message is unfinished on this chunk stream
  deriving Repr, Inhabited

structure Sender where
  chunkSize : Nat := 128
  cs : Nat → Option CsState := fun _ => none

instance : Inhabited Sender := ⟨{}⟩

def Sender.busy (s : Sender) (cid : Nat) : Bool :=
  match s.cs cid with
  | some c => c.busy
  | none => false

/-- Field ranges and basic-header legality of one event. -/
def EvOK (e : ChunkEv) : Prop :=
  FormLegal e.cid e.bhForm ∧ e.fmt ≤ 3 ∧ e.tsField < 4294967296 ∧ e.len < 16777216 ∧ e.ty < 256 ∧
  e.sid < 4294967296 ∧ e.ty ≠ 2

instance (e : ChunkEv) : Decidable (EvOK e) := by unfold EvOK; infer_instance

/-- The chunk stream state an event continues: the existing one; for an unused chunk stream a blank
one if the event is type 0 (or the librtmp form: type 1 on chunk stream 2). -/
def lookup (s : Sender) (e : ChunkEv) : Option CsState :=
  match s.cs e.cid with
  | some c => some c
  | none => if e.fmt = 0 ∨ (e.fmt = 1 ∧ e.cid = 2) then some {} else none

/-- Header-type rules: inside a message only type 3; the fields a type omits are the preceding chunk's. -/
def HeaderOK (c : CsState) (e : ChunkEv) : Prop :=
  if c.busy then e.fmt = 3 ∧ e.tsField = c.delta ∧ e.len = c.len ∧ e.ty = c.ty ∧ e.sid = c.sid
  else if e.fmt = 0 then True
  else if e.fmt = 1 then e.sid = c.sid
  else if e.fmt = 2 then e.sid = c.sid ∧ e.len = c.len ∧ e.ty = c.ty
  else e.tsField = c.delta ∧ e.len = c.len ∧ e.ty = c.ty ∧ e.sid = c.sid

instance (c : CsState) (e : ChunkEv) : Decidable (HeaderOK c e) := by unfold HeaderOK; infer_instance

/-- Timestamp of the message the event belongs to. `absExt = false` is the specification (§5.3.1.3:
the extended timestamp field of a type 1/2/3 chunk carries the DELTA). `absExt = true` is the deviating
reading "an extended timestamp field is always an absolute time" — NOT the specification; it is kept
as a parameter only so that the library's known deviation K2 can be stated exactly (the reader
implements precisely this variant, `Props.C02.C02_reader_is_absext_variant`). -/
def newTs (absExt : Bool) (c : CsState) (e : ChunkEv) : Nat :=
  if c.busy then c.ts
  else if e.fmt = 0 then e.tsField
  else if absExt = true ∧ 16777215 ≤ e.tsField then e.tsField  -- the deviating reading only
  else if e.fmt = 3 then (c.ts + c.delta) % 4294967296  -- new message: the delta in force
  else (c.ts + e.tsField) % 4294967296                  -- type 1/2: the delta sent

/-- §5.4, §7.1.7: bodies of the control messages. -/
def UserControlOK (p : Bytes) : Prop :=
  2 ≤ p.length ∧
  (ofBE (p.take 2) = 3 → p.length = 10) ∧
  (ofBE (p.take 2) ≠ 3 → p.length = 6 ∧
    (ofBE (p.take 2) = 0 ∨ ofBE (p.take 2) = 1 ∨ ofBE (p.take 2) = 2 ∨ ofBE (p.take 2) = 4 ∨
     ofBE (p.take 2) = 6 ∨ ofBE (p.take 2) = 7))

def ControlOK (ty : Nat) (p : Bytes) : Prop :=
  (ty = 1 → p.length = 4 ∧ 1 ≤ ofBE p ∧ ofBE p ≤ 2147483647) ∧
  (ty = 3 → p.length = 4) ∧
  (ty = 4 → UserControlOK p) ∧
  (ty = 5 → p.length = 4) ∧
  (ty = 6 → p.length = 5)

instance (p : Bytes) : Decidable (UserControlOK p) := by unfold UserControlOK; infer_instance
instance (ty : Nat) (p : Bytes) : Decidable (ControlOK ty p) := by unfold ControlOK; infer_instance

def Sender.setCs (s : Sender) (cid : Nat) (c : CsState) (chunkSize : Nat) : Sender :=
  { chunkSize := chunkSize, cs := fun k => if k = cid then some c else s.cs k }

/-- One chunk event: `none` when the event breaks a rule in this state; otherwise the next state
and the message this chunk completes, if any. (`absExt`: see `newTs`; the specification is `false`.
Whether an event is accepted does not depend on it.) -/
def step (absExt : Bool) (s : Sender) (e : ChunkEv) : Option (Sender × Option Message) :=
  if ¬ EvOK e then none else
  match lookup s e with
  | none => none
  | some c =>
    if ¬ HeaderOK c e then none else
    let got := if c.busy then c.got else []
    if e.data.length ≠ min (e.len - got.length) s.chunkSize then none else
    let ts := newTs absExt c e
    let payload := got ++ e.data
    if payload.length = e.len then
      if ¬ ControlOK e.ty payload then none else
      some (s.setCs e.cid { ts := ts, delta := e.tsField, len := e.len, ty := e.ty, sid := e.sid }
              (if e.ty = 1 then ofBE payload else s.chunkSize),
            some { cid := e.cid, ty := e.ty, sid := e.sid, ts := ts % 2147483648, payload := payload })
    else
      some (s.setCs e.cid { ts := ts, delta := e.tsField, len := e.len, ty := e.ty, sid := e.sid,
                            got := payload, busy := true } s.chunkSize, none)

def optList : Option α → List α
  | some a => [a]
  | none => []

/-- Run a trace; messages in completion order. -/
def run (absExt : Bool) : Sender → List ChunkEv → Option (Sender × List Message)
  | s, [] => some (s, [])
  | s, e :: tr =>
    match step absExt s e with
    | none => none
    | some (s', out) =>
      match run absExt s' tr with
      | none => none
      | some (s'', ms) => some (s'', optList out ++ ms)

/-- The trace is something a sender following §5.3 can emit from the initial state. -/
def Conformant (tr : List ChunkEv) : Prop := (run false {} tr).isSome = true

instance (tr : List ChunkEv) : Decidable (Conformant tr) := by unfold Conformant; infer_instance

/-- The messages that were chunked, in completion order, timestamps reduced to 31 bits. -/
def specMessages (tr : List ChunkEv) : List Message :=
  match run false {} tr with
  | some (_, ms) => ms
  | none => []

/-- NOT the specification: the messages under the deviating reading `absExt = true` (see `newTs`).
They differ from `specMessages` in timestamps only, and only for traces that use an extended delta. -/
def messagesAbsExt (tr : List ChunkEv) : List Message :=
  match run true {} tr with
  | some (_, ms) => ms
  | none => []

/-- Without the librtmp extension: the first chunk of every chunk stream is type 0. -/
def strictFrom : List Nat → List ChunkEv → Bool
  | _, [] => true
  | seen, e :: tr => (seen.contains e.cid || e.fmt == 0) && strictFrom (e.cid :: seen) tr

def Strict (tr : List ChunkEv) : Prop := strictFrom [] tr = true

instance (tr : List ChunkEv) : Decidable (Strict tr) := by unfold Strict; infer_instance

/-- The event's timestamp is formed from an EXTENDED DELTA: a type 1/2 header with delta ≥ 0xFFFFFF,
or a type-3 header starting a new message while the delta in force is ≥ 0xFFFFFF. -/
def UsesExtDelta (s : Sender) (e : ChunkEv) : Prop :=
  16777215 ≤ e.tsField ∧ (e.fmt = 1 ∨ e.fmt = 2 ∨ (e.fmt = 3 ∧ s.busy e.cid = false))

instance (s : Sender) (e : ChunkEv) : Decidable (UsesExtDelta s e) := by unfold UsesExtDelta; infer_instance

def noExtDeltaFrom : Sender → List ChunkEv → Bool
  | _, [] => true
  | s, e :: tr =>
    !decide (UsesExtDelta s e) &&
      match step false s e with
      | some (s', _) => noExtDeltaFrom s' tr
      | none => true

def NoExtendedDelta (tr : List ChunkEv) : Prop := noExtDeltaFrom {} tr = true

instance (tr : List ChunkEv) : Decidable (NoExtendedDelta tr) := by unfold NoExtendedDelta; infer_instance

/-- The last chunk of the trace completes a message (so the byte stream ends at a message boundary
of the chunk stream that sent it; other chunk streams may still be inside a message). -/
def endsCompleteFrom : Sender → List ChunkEv → Bool
  | _, [] => true
  | s, e :: tr =>
    match step false s e with
    | some (s', out) => if tr.isEmpty then out.isSome else endsCompleteFrom s' tr
    | none => false

def EndsComplete (tr : List ChunkEv) : Prop := endsCompleteFrom {} tr = true

instance (tr : List ChunkEv) : Decidable (EndsComplete tr) := by unfold EndsComplete; infer_instance

end Oryx.Spec.RtmpChunk
