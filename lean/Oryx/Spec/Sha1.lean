/-
  SHA-1 (FIPS 180-4 section 6.1) and standard base64 (RFC 4648 section 4), written from the standards' text, so that
  the accept key of the websocket opening handshake (RFC 6455 section 4.2.2: base64(SHA-1(key ++ GUID))) has an
  executable specification that does not go through Go's crypto/sha1 and encoding/base64. Core Lean only.
-/
import Oryx.Base.Bytes
namespace Oryx.Spec.Sha1
open Oryx

def rotl (x : UInt32) (n : UInt32) : UInt32 := (x <<< n) ||| (x >>> (32 - n))

/-- big-endian 32-bit word of four bytes -/
def word (a b c d : UInt8) : UInt32 :=
  (a.toUInt32 <<< 24) ||| (b.toUInt32 <<< 16) ||| (c.toUInt32 <<< 8) ||| d.toUInt32

def wordsOf : Bytes → List UInt32
  | a :: b :: c :: d :: t => word a b c d :: wordsOf t
  | _ => []

/-- message padding: 0x80, zeros up to 56 mod 64, the bit length as 64-bit big endian -/
def pad (m : Bytes) : Bytes :=
  let l := m.length
  let k := (119 - l % 64) % 64
  m ++ [0x80] ++ List.replicate k 0 ++ be 8 (l * 8)

/-- the message schedule: 80 words from 16 -/
def schedule (w : Array UInt32) : Array UInt32 :=
  (List.range 64).foldl (fun w i =>
    let t := i + 16
    w.push (rotl (w[t - 3]! ^^^ w[t - 8]! ^^^ w[t - 14]! ^^^ w[t - 16]!) 1)) w

structure St where
  a : UInt32
  b : UInt32
  c : UInt32
  d : UInt32
  e : UInt32

def f (t : Nat) (b c d : UInt32) : UInt32 :=
  if t < 20 then (b &&& c) ||| ((~~~ b) &&& d)
  else if t < 40 then b ^^^ c ^^^ d
  else if t < 60 then (b &&& c) ||| (b &&& d) ||| (c &&& d)
  else b ^^^ c ^^^ d

def kc (t : Nat) : UInt32 :=
  if t < 20 then 0x5a827999 else if t < 40 then 0x6ed9eba1 else if t < 60 then 0x8f1bbcdc else 0xca62c1d6

def round (w : Array UInt32) (s : St) (t : Nat) : St :=
  let tmp := rotl s.a 5 + f t s.b s.c s.d + s.e + kc t + w[t]!
  { a := tmp, b := s.a, c := rotl s.b 30, d := s.c, e := s.d }

def block (h : St) (ws : List UInt32) : St :=
  let w := schedule ws.toArray
  let s := (List.range 80).foldl (round w) h
  { a := h.a + s.a, b := h.b + s.b, c := h.c + s.c, d := h.d + s.d, e := h.e + s.e }

def blocks : Nat → St → List UInt32 → St
  | 0, h, _ => h
  | n + 1, h, ws => if ws.length < 16 then h else blocks n (block h (ws.take 16)) (ws.drop 16)

def init : St := { a := 0x67452301, b := 0xefcdab89, c := 0x98badcfe, d := 0x10325476, e := 0xc3d2e1f0 }

def sha1 (m : Bytes) : Bytes :=
  let ws := wordsOf (pad m)
  let h := blocks (ws.length / 16 + 1) init ws
  be 4 h.a.toNat ++ be 4 h.b.toNat ++ be 4 h.c.toNat ++ be 4 h.d.toNat ++ be 4 h.e.toNat

/-! ## base64, standard alphabet, with padding -/

def b64char (n : Nat) : UInt8 :=
  if n < 26 then UInt8.ofNat (65 + n)
  else if n < 52 then UInt8.ofNat (97 + (n - 26))
  else if n < 62 then UInt8.ofNat (48 + (n - 52))
  else if n = 62 then 43 else 47

def base64 : Bytes → Bytes
  | a :: b :: c :: t =>
    let n := a.toNat * 65536 + b.toNat * 256 + c.toNat
    b64char (n / 262144) :: b64char (n / 4096 % 64) :: b64char (n / 64 % 64) :: b64char (n % 64) :: base64 t
  | [a, b] =>
    let n := a.toNat * 65536 + b.toNat * 256
    [b64char (n / 262144), b64char (n / 4096 % 64), b64char (n / 64 % 64), 61]
  | [a] =>
    let n := a.toNat * 65536
    [b64char (n / 262144), b64char (n / 4096 % 64), 61, 61]
  | [] => []

/-- RFC 6455 section 1.3 -/
def guid : Bytes := "258EAFA5-E914-47DA-95CA-C5AB0DC85B11".toList.map (fun c => c.toNat.toUInt8)

/-- Sec-WebSocket-Accept for a challenge key (RFC 6455 section 4.2.2, step 5.4). -/
def acceptKey (key : Bytes) : Bytes := base64 (sha1 (key ++ guid))

end Oryx.Spec.Sha1
