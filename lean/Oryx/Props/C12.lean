/-
  C12 — AVC configuration records, samples and NAL units round-trip in ISO layout.
  Only property statements, their proofs from the helper lemmas, and non-vacuity examples.
-/
import Oryx.Proofs.Avc
import Oryx.Gen.Avc
namespace Oryx.Props.C12
open Oryx Oryx.Res Oryx.Avc

/-- Domain of the property for records: profile is one byte, NAL length size 1..4, up to 31 SPS and
255 PPS, each NAL unit 1..65535 bytes with in-range header fields. -/
def RecordWF (r : Record) : Prop :=
  r.profile < 256 ∧ r.lsm1 < 4 ∧ r.sps.length < 32 ∧ r.pps.length < 256 ∧
  (∀ x ∈ r.sps, x.Fits16) ∧ (∀ x ∈ r.pps, x.Fits16)

/-- Every NAL unit unmarshals from its marshalled bytes to an equal value. -/
theorem nalu_roundtrip (n : Nalu) (h : n.WF) : naluUnmarshal (naluMarshal n) = ok n :=
  nalu_rt n h

/-- All 256 header bytes: the decoded fields are in range, and a header with forbidden_zero_bit = 0
re-encodes to the same byte (canonical encodings reproduce). -/
theorem nalu_header_all256 (b : UInt8) (rest : Bytes) :
    ∃ n, naluUnmarshal (b :: rest) = ok n ∧ n.WF ∧ (b < 128 → naluMarshal n = b :: rest) := by
  refine ⟨_, rfl, (header_all b).1, ?_⟩
  intro hb
  simp [naluMarshal, headerByte, (header_all b).2 hb]

theorem u8_ofNat_and3 (x : UInt8) (h : x < 4) : x &&& 0x03 = x := by
  revert h; revert x; apply forall_u8; decide +kernel

theorem sps_count_byte (n : Nat) (h : n < 32) :
    ((0xe0 : UInt8) ||| (UInt8.ofNat n &&& 0x1f)) &&& 0x1f = UInt8.ofNat n ∧
    (UInt8.ofNat n).toNat = n := by
  have key : ∀ i : Fin 32, (((0xe0 : UInt8) ||| (UInt8.ofNat i.val &&& 0x1f)) &&& 0x1f = UInt8.ofNat i.val ∧
      (UInt8.ofNat i.val).toNat = i.val) := by decide
  exact key ⟨n, h⟩

theorem lsm_byte (x : UInt8) (h : x < 4) : ((0xfc : UInt8) ||| (x &&& 0x03)) &&& 0x03 = x := by
  revert h; revert x; apply forall_u8; decide +kernel

/-- Every configuration record in the domain unmarshals from its marshalled bytes — followed by ANY
trailing bytes, which the reader ignores (that is where a conformant writer puts the High-profile block) —
to an equal value. -/
theorem record_roundtrip_tail (r : Record) (h : RecordWF r) (tail : Bytes) :
    recordUnmarshal (recordMarshal r ++ tail) = ok r := by
  obtain ⟨hp, hl, hs, hpp, hsps, hpps⟩ := h
  obtain ⟨hc1, hc2⟩ := sps_count_byte r.sps.length hs
  have hpn : (UInt8.ofNat r.pps.length).toNat = r.pps.length := by
    simp [UInt8.toNat_ofNat', Nat.mod_eq_of_lt hpp]
  have hprof : (UInt8.ofNat r.profile).toNat = r.profile := by
    simp [UInt8.toNat_ofNat', Nat.mod_eq_of_lt hp]
  simp only [recordMarshal, recordUnmarshal, List.cons_append, List.nil_append, List.append_assoc]
  rw [hc1, hc2, readSets_setsMarshal r.sps _ hsps]
  simp only [Res.bind_ok]
  rw [hpn, readSets_setsMarshal r.pps tail hpps]
  simp only [Res.bind_ok, Res.pure_eq, lsm_byte r.lsm1 hl, hprof]

theorem record_roundtrip (r : Record) (h : RecordWF r) : recordUnmarshal (recordMarshal r) = ok r := by
  have := record_roundtrip_tail r h []
  rwa [List.append_nil] at this

/-- Every length-prefixed sample, for each NAL length size 1..4, round-trips. -/
theorem sample_roundtrip (n : Nat) (_h1 : 1 ≤ n) (h4 : n ≤ 4) (xs : List Nalu)
    (h : ∀ x ∈ xs, x.WF ∧ 1 + x.data.length < 256 ^ n) :
    sampleUnmarshal n (sampleMarshal n xs) = ok xs :=
  sampleLoop_sampleMarshal n (by omega) xs _ h (Nat.le_refl _)

/-- The marshalled record is byte for byte the ISO/IEC 14496-15 §5.2.4.1.1 layout up to and including the
picture parameter sets, reserved bits included — for every profile. -/
theorem record_is_spec_base (r : Record) (h : RecordWF r) (hv : r.version = 1) :
    recordMarshal r =
      Spec.Avc.recordBase (UInt8.ofNat r.profile) r.compat r.level r.lsm1.toNat
        (r.sps.map naluMarshal) (r.pps.map naluMarshal) := by
  obtain ⟨_, hl, hs, _, _, _⟩ := h
  have e1 : (0xfc : UInt8) ||| (r.lsm1 &&& 0x03) = UInt8.ofNat (252 + r.lsm1.toNat) := by
    have : ∀ x : UInt8, x < 4 → (0xfc : UInt8) ||| (x &&& 0x03) = UInt8.ofNat (252 + x.toNat) := by
      apply forall_u8; decide +kernel
    exact this _ hl
  have e2 : (0xe0 : UInt8) ||| (UInt8.ofNat r.sps.length &&& 0x1f) = UInt8.ofNat (224 + r.sps.length) := by
    have key : ∀ i : Fin 32, (0xe0 : UInt8) ||| (UInt8.ofNat i.val &&& 0x1f) = UInt8.ofNat (224 + i.val) := by
      decide
    exact key ⟨_, hs⟩
  have sets : ∀ ns : List Nalu, setsMarshal ns = Spec.Avc.paramSets (ns.map naluMarshal) := by
    intro ns
    induction ns with
    | nil => rfl
    | cons x xs ih => simp [setsMarshal, setMarshal, Spec.Avc.paramSets, ih]
  simp only [recordMarshal, Spec.Avc.recordBase, hv, e1, e2, sets, List.length_map]

/-- `record_is_spec`, PARTIAL: the whole record is the spec's for every profile OTHER than the four High
profiles (100, 110, 122, 144). For those the 2012 edition appends chroma format, bit depths and the SPS
extensions, which this library neither stores nor writes — see `high_profile_ext_witness` (known finding K6:
the values live in the SPS, which the library does not parse, so no small safe repair exists). -/
theorem record_is_spec_partial (r : Record) (h : RecordWF r) (hv : r.version = 1)
    (hprof : Spec.Avc.needsExt (UInt8.ofNat r.profile) = false) :
    recordMarshal r =
      Spec.Avc.record (UInt8.ofNat r.profile) r.compat r.level r.lsm1.toNat
        (r.sps.map naluMarshal) (r.pps.map naluMarshal) none ∧
    Spec.Avc.ExtConformant (UInt8.ofNat r.profile) none := by
  refine ⟨?_, by simp [Spec.Avc.ExtConformant, hprof]⟩
  simp only [Spec.Avc.record, List.append_nil]
  exact record_is_spec_base r h hv

/-- Negative witness (K6): for a High profile EVERY conformant encoding is at least four bytes longer than
what the library marshals — the prescribed block is missing, whatever its values. -/
theorem high_profile_ext_witness (r : Record) (h : RecordWF r) (hv : r.version = 1)
    (ext : Option Spec.Avc.HighExt) (hprof : Spec.Avc.needsExt (UInt8.ofNat r.profile) = true)
    (hc : Spec.Avc.ExtConformant (UInt8.ofNat r.profile) ext) :
    (recordMarshal r).length + 4 ≤
      (Spec.Avc.record (UInt8.ofNat r.profile) r.compat r.level r.lsm1.toNat
        (r.sps.map naluMarshal) (r.pps.map naluMarshal) ext).length ∧
    recordMarshal r ≠
      Spec.Avc.record (UInt8.ofNat r.profile) r.compat r.level r.lsm1.toNat
        (r.sps.map naluMarshal) (r.pps.map naluMarshal) ext := by
  have hb := record_is_spec_base r h hv
  cases ext with
  | none => simp [Spec.Avc.ExtConformant, hprof] at hc
  | some e =>
    have hlen : (recordMarshal r).length + 4 ≤
        (Spec.Avc.record (UInt8.ofNat r.profile) r.compat r.level r.lsm1.toNat
          (r.sps.map naluMarshal) (r.pps.map naluMarshal) (some e)).length := by
      simp only [Spec.Avc.record, ← hb, List.length_append, Spec.Avc.extBytes, List.length_cons, List.length_nil]
      omega
    refine ⟨hlen, ?_⟩
    intro heq
    rw [← heq] at hlen
    omega

/-- Records written by an independent conformant writer — any profile, with the High-profile block when the
profile calls for it, NAL units written per ISO/IEC 14496-10 §7.3.1 — are read back to the same values. -/
theorem spec_record_read (r : Record) (h : RecordWF r) (hv : r.version = 1) (ext : Option Spec.Avc.HighExt) :
    recordUnmarshal (Spec.Avc.record (UInt8.ofNat r.profile) r.compat r.level r.lsm1.toNat
      (r.sps.map naluMarshal) (r.pps.map naluMarshal) ext) = ok r := by
  simp only [Spec.Avc.record, ← record_is_spec_base r h hv]
  exact record_roundtrip_tail r h _

/-- Canonical round trip: marshalling what was unmarshalled from a conformant record reproduces it, for
the profiles without the extension block. -/
theorem canonical_record_rt (r : Record) (h : RecordWF r) (hv : r.version = 1)
    (hprof : Spec.Avc.needsExt (UInt8.ofNat r.profile) = false) :
    let bs := Spec.Avc.record (UInt8.ofNat r.profile) r.compat r.level r.lsm1.toNat
                (r.sps.map naluMarshal) (r.pps.map naluMarshal) none
    recordUnmarshal bs = ok r ∧ recordMarshal r = bs :=
  ⟨spec_record_read r h hv none, (record_is_spec_partial r h hv hprof).1⟩

/-- The library's NAL unit bytes are the spec's (header = ref_idc·32 + type). -/
theorem nalu_is_spec (n : Nalu) (h : n.WF) :
    naluMarshal n = Spec.Avc.nalUnit n.refIdc.toNat n.ty.toNat n.data := by
  have key : ∀ i : Fin 4, ∀ j : Fin 32,
      ((UInt8.ofNat i.val) <<< 5) ||| (UInt8.ofNat j.val) = UInt8.ofNat (i.val * 32 + j.val) := by decide
  have := key ⟨n.refIdc.toNat, h.1⟩ ⟨n.ty.toNat, h.2⟩
  simp only [UInt8.ofNat_toNat] at this
  simp [naluMarshal, headerByte, Spec.Avc.nalUnit, this]

/-- C07 for this package: no byte string makes a decoder panic (for the sample decoder this also shows
the loop's fuel is never exhausted, i.e. it terminates after at most `len` iterations). -/
theorem decoders_never_panic (bs : Bytes) :
    naluUnmarshal bs ≠ .panic ∧ recordUnmarshal bs ≠ .panic ∧
    ∀ n, 1 ≤ n → n ≤ 7 → sampleUnmarshal n bs ≠ .panic :=
  ⟨naluUnmarshal_ne_panic bs, recordUnmarshal_ne_panic bs,
   fun n hn hn7 => sampleLoop_ne_panic n hn hn7 _ bs (Nat.le_refl _)⟩

/-- The String() helpers of the package (translated mechanically from the Go source on every run) are
total over the whole range of their integer types — `NALUType`/`AVCLevel` are uint8, `AVCProfile` is uint16;
the statement is for every natural number. A helper rewritten as an index into a table would make the
generated definition a checked lookup and this theorem false for the out-of-range values. -/
theorem enum_helpers_total (v : Nat) :
    (Gen.Avc.NALUType_String v).isPanic = false ∧ (Gen.Avc.AVCLevel_String v).isPanic = false ∧
    (Gen.Avc.AVCProfile_String v).isPanic = false := by
  refine ⟨?_, ?_, ?_⟩
  · simp only [Gen.Avc.NALUType_String, Res.isPanic_ite, Res.isPanic_ok, ite_self]
  · simp only [Gen.Avc.AVCLevel_String, Res.isPanic_ite, Res.isPanic_ok, ite_self]
  · simp only [Gen.Avc.AVCProfile_String, Res.isPanic_ite, Res.isPanic_ok, ite_self]

example : "AVCLevel_String" ∈ Gen.Avc.translatedHelpers ∧ "AVCProfile_String" ∈ Gen.Avc.translatedHelpers ∧
    "NALUType_String" ∈ Gen.Avc.translatedHelpers := by decide

/-! ### non-vacuity: concrete inhabitants of the hypotheses -/

def exNalu : Nalu := { refIdc := 3, ty := 7, data := [0x42, 0x00, 0x1e] }
def exRecord : Record :=
  { version := 1, profile := 100, compat := 0, level := 31, lsm1 := 3,
    sps := [exNalu], pps := [{ refIdc := 3, ty := 8, data := [0xce] }, { refIdc := 0, ty := 8, data := [] }] }

example : exNalu.WF := by decide
example : RecordWF exRecord := by
  refine ⟨by decide, by decide, by decide, by decide, ?_, ?_⟩ <;>
    (intro x hx; simp [exRecord, exNalu] at hx; rcases hx with rfl | rfl <;> (unfold Nalu.Fits16 Nalu.WF; decide))
example : Spec.Avc.needsExt (UInt8.ofNat exRecord.profile) = true := by decide  -- the example is a High-profile record
example : Spec.Avc.ExtConformant 100 (some ⟨1, 0, 0, []⟩) ∧ Spec.Avc.ExtConformant 66 none := by
  constructor <;> simp [Spec.Avc.ExtConformant, Spec.Avc.needsExt]
example : Spec.Avc.record 100 0 31 3 [[0x67, 0x64]] [[0x68]] (some ⟨1, 0, 0, []⟩) =
    [1, 100, 0, 31, 0xff, 0xe1, 0, 2, 0x67, 0x64, 1, 0, 1, 0x68, 0xfd, 0xf8, 0xf8, 0] := by decide
example : recordMarshal exRecord =
    [1, 100, 0, 31, 0xff, 0xe1, 0, 4, 0x67, 0x42, 0, 0x1e, 2, 0, 2, 0x68, 0xce, 0, 1, 0x08] := by decide
example : ∀ x ∈ [exNalu], x.WF ∧ 1 + x.data.length < 256 ^ 1 := by
  intro x hx; simp at hx; subst hx; decide

/-- Outside the property's domain (NAL length sizes 1..4, all a configuration record's two bits can express):
with an EIGHT-byte length field a length of 2^63 or more becomes a negative `int`, passes `len(b) < int(length)`
and the slice expression panics. The model follows the code there too (tied by the correspondence run for
sizes 5..8); `decoders_never_panic` therefore stops at 7. -/
theorem sample_len8_witness : sampleUnmarshal 8 [0x80, 0, 0, 0, 0, 0, 0, 0, 0x65] = .panic := by decide

end Oryx.Props.C12
