import Oryx.Model.Json
namespace Oryx.Props.C17
open Oryx Oryx.Json

example : Gen.Json.startMatches = [[39], [34], [47, 47], [47, 42]] := by decide
end Oryx.Props.C17
